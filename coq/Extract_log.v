Require Import LogModel.
Require Extraction. Require Import ExtrOcamlBasic.
Extraction "log_model.ml" LogModel.route_table LogModel.parse_sevset.
