(* C01: one verdict per announced client, then silence.  ONLY statements closed by `exact`, each followed by Print Assumptions. *)
From Coq Require Import List NArith ZArith Bool Strings.Byte Strings.String.
Import ListNotations.
Require Import Params Iauth Mon01.
Require Withdraw.
Local Open Scope list_scope.

(* For every configuration, every starting tables and every finite history of tokenised input lines, the executable monitor
   Mon01.mon_run accepts the model's trace: every client-addressed message and every query tag names an id that is live
   (announced by a complete C line and neither withdrawn by D/T nor decided), a verdict D/R/k retires the id, and the
   soft-done notice d is sent at most once per instance. *)
Theorem verdict_once_then_silence : forall c s0 evs, reqs s0 = [] -> mon_run [] (trace c s0 evs) = true.
Proof. exact verdict_once_holds. Qed.
Print Assumptions verdict_once_then_silence.

(* the trace the monitor sees is the run of the model, step by step *)
Theorem trace_is_the_run : forall c s0 evs, run_out c s0 (map (fun e => Ev (fst e) (snd e)) evs) = map snd (trace c s0 evs).
Proof. exact run_out_trace. Qed.
Print Assumptions trace_is_the_run.

(* The monitor withdraws an id at the server's D / T line BEFORE it judges what that very line makes the model print (mon_step),
   so a verdict or query "in the step of the withdrawal" is rejected like any later one.  Separately: such a line prints nothing
   at all, in every state, and afterwards the id is not in the table. *)
Theorem withdrawal_is_silent_and_final : forall c s id argv,
  withdraws argv = true -> NoDupIds (reqs s) ->
  snd (step c s id argv) = [] /\ lookup id (reqs (fst (step c s id argv))) = None.
Proof. exact Withdraw.withdrawal_is_silent_and_final. Qed.
Print Assumptions withdrawal_is_silent_and_final.
