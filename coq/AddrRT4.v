From Coq Require Import List NArith Lia Bool Strings.Byte Arith.
Import ListNotations.
Require Import Addr AddrRT AddrRT2 AddrRT3.
Local Open Scope N_scope.

Lemma firstn_len_app {A} (l r : list A) : firstn (length l) (l ++ r) = l.
Proof. induction l; simpl; [destruct r; reflexivity|f_equal; assumption]. Qed.
Lemma skipn_len_app {A} (l r : list A) : skipn (length l) (l ++ r) = r.
Proof. induction l; simpl; auto. Qed.
Lemma repeat_snoc {A} (x : A) n : repeat x n ++ [x] = repeat x (S n).
Proof. induction n; simpl; [reflexivity|f_equal; assumption]. Qed.

Lemma repeat_tail2 (z : nat) : (2 <= z)%nat -> repeat 0 (z - 2) ++ [0; 0] = repeat 0 z.
Proof. intros. change [0;0] with (repeat 0 2). rewrite <- repeat_app. f_equal. lia. Qed.
Lemma repeat_tail1 (z : nat) : (1 <= z)%nat -> repeat 0 (z - 1) ++ [0] = repeat 0 z.
Proof. intros. change [0] with (repeat 0 1). rewrite <- repeat_app. f_equal. lia. Qed.

Lemma loop_nil s f : (ii s < 8)%nat -> (cpos s < 8 \/ ii s = 7)%nat ->
  loop (S f) s [] = Done {| part := 0; ii := S (ii s); cpos := cpos s; acc := acc s ++ [part s] |} [].
Proof.
  intros Hi Hc. cbn [loop]. assert (Nat.leb 8 (ii s) = false) as -> by (apply Nat.leb_gt; lia).
  cbn [ii].
  assert (Nat.eqb (cpos s) 8 && Nat.ltb (S (ii s)) 8 = false) as ->.
  { destruct Hc as [H|H]. - assert (Nat.eqb (cpos s) 8 = false) as -> by (apply Nat.eqb_neq; lia). reflexivity.
    - rewrite H. apply andb_false_r. }
  reflexivity.
Qed.

Definition text (pre post : groups) : str :=
  (match pre with [] => [x30; colon] | _ => sepd pre end) ++ colon :: join post.

(* what the parser does once it stands right after "::" *)
Lemma after_dcolon pre post z fuel :
  small post -> (length pre + z + length post = 8)%nat -> (1 <= z)%nat -> (post = [] -> (2 <= z)%nat) ->
  (length (join post) < fuel)%nat ->
  match loop fuel {| part := 0; ii := S (length pre); cpos := length pre; acc := pre ++ [0] |} (join post) with
  | Done s' [] => Some (finish s')
  | _ => None
  end = Some (pre ++ repeat 0 z ++ post).
Proof.
  intros Hs Hl Hz1 Hz Hf.
  destruct post as [|p ps].
  - specialize (Hz eq_refl). simpl in *. destruct fuel as [|f]; [lia|].
    rewrite loop_nil; cbn [ii cpos]; try lia.
    unfold finish. cbn [cpos ii acc part].
    assert (Nat.ltb (length pre) 8 = true) as -> by (apply Nat.ltb_lt; lia).
    rewrite <- app_assoc. rewrite firstn_len_app, skipn_len_app. f_equal. f_equal.
    replace (8 - S (S (length pre)))%nat with (z - 2)%nat by lia. rewrite app_nil_r.
    simpl. apply repeat_tail2; lia.
  - rewrite loop_join; try assumption; try discriminate; try reflexivity; cbn [ii cpos]; try lia.
    unfold finish, adv. cbn [cpos ii acc].
    assert (Nat.ltb (length pre) 8 = true) as -> by (apply Nat.ltb_lt; lia).
    rewrite <- app_assoc. rewrite firstn_len_app, skipn_len_app. f_equal. f_equal.
    assert ((8 - (S (length pre) + length (p :: ps)))%nat = (z - 1)%nat) as -> by (cbn [length] in *; lia).
    clear Hz. rewrite <- (repeat_tail1 z) by lia. rewrite <- app_assoc. reflexivity.
Qed.

Lemma nocd_join post : small post -> nocd (join post).
Proof.
  intros Hs. destruct post as [|p ps]; [split; reflexivity|]. inversion Hs; subst.
  pose proof (join_head p ps [] ltac:(assumption)) as J. rewrite app_nil_r in J. exact J.
Qed.

Lemma text_cons pre post : pre <> [] -> text pre post = sepd pre ++ colon :: join post.
Proof. destruct pre; [contradiction|reflexivity]. Qed.

Lemma sepd_snoc pre g : sepd (pre ++ [g]) = sepd pre ++ hexstr g ++ [colon].
Proof. unfold sepd. rewrite map_app, concat_app. simpl. rewrite app_nil_r. reflexivity. Qed.

Theorem pton_compressed pre post z :
  small pre -> small post -> (length pre + z + length post = 8)%nat -> (2 <= z)%nat ->
  pton6 (text pre post) = Some (pre ++ repeat 0 z ++ post).
Proof.
  intros Hpre Hpost Hl Hz.
  destruct pre as [|p0 pr0] eqn:Epre.
  - (* "0::" ... *)
    unfold text. cbn [app]. unfold pton6. cbn [hd_is]. change (Byte.eqb x30 colon) with false. cbn iota.
    change (x30 :: colon :: colon :: join post) with (hexstr 0 ++ colon :: colon :: join post).
    cbn [length]. rewrite app_length. cbn [length].
    replace (S (length (hexstr 0) + S (S (length (join post)))))%nat with (length (hexstr 0) + S (S (S (length (join post)))))%nat by lia.
    rewrite loop_group_dcolon; try reflexivity; cbn [ii cpos part]; try lia; [|apply nocd_join; assumption].
    cbn [acc app].
    pose proof (after_dcolon [0] post (z - 1) (S (length (join post))) Hpost) as A.
    cbn [length app] in A. rewrite A; try lia.
    + cbn [app]. replace z with (S (z - 1))%nat at 2 by lia. reflexivity.
    + simpl in Hl. lia.
    + intros ->. simpl in Hl. lia.
  - rewrite <- Epre in *. assert (pre <> []) as Hne by (subst; discriminate).
    destruct (exists_last Hne) as (pre' & gl & E). rewrite E in *.
    rewrite text_cons by assumption. rewrite sepd_snoc. rewrite <- !app_assoc. cbn [app].
    apply Forall_app in Hpre as [Hp' Hgl]. inversion Hgl as [|? ? Hglb _]; subst.
    rewrite app_length in Hl. cbn [length] in Hl.
    assert (nocd (hexstr gl ++ colon :: colon :: join post)) as Hn1 by (apply hexstr_head; assumption).
    assert (nocd (sepd pre' ++ hexstr gl ++ colon :: colon :: join post)) as Hn0.
    { destruct pre' as [|q qs]; [exact Hn1|]. inversion Hp'; subst. unfold sepd. simpl. rewrite <- !app_assoc. apply hexstr_head; assumption. }
    unfold pton6. destruct Hn0 as [Hc0 _]. rewrite Hc0.
    set (s0 := {| part := 0; ii := 0; cpos := 8; acc := [] |}).
    destruct (loop_sepd pre' s0 (S (length (sepd pre' ++ hexstr gl ++ colon :: colon :: join post))) (hexstr gl ++ colon :: colon :: join post))
      as (fuel' & Hf' & ->); try assumption; try reflexivity; cbn [ii s0]; try lia.
    rewrite app_length in Hf'. cbn [length] in Hf'.
    replace fuel' with (length (hexstr gl) + S (S (fuel' - length (hexstr gl) - 2)))%nat by lia.
    rewrite loop_group_dcolon; try assumption; try reflexivity; cbn [adv ii cpos s0]; try lia; [|apply nocd_join; assumption].
    change (acc (adv s0 pre')) with (pre').
    pose proof (after_dcolon (pre' ++ [gl]) post z (fuel' - length (hexstr gl) - 2)%nat Hpost) as A.
    rewrite app_length in A. cbn [length] in A. rewrite <- app_assoc in A. cbn [app] in A.
    replace (S (length pre' + 1))%nat with (S (S (length pre')))%nat in A by lia.
    replace (length pre' + 1)%nat with (S (length pre'))%nat in A by lia.
    replace (0 + length pre')%nat with (length pre') by lia.
    rewrite A; try lia. rewrite <- app_assoc. reflexivity.
Qed.
