(* Generic lemmas for the unbounded proofs about the module loader model: membership, association lists, event counting,
   "precedes" in a log, first index, filter lengths (fuel measures), reachability in a dependency graph, insertion sort. *)
From Coq Require Import List Arith Lia Bool.
Import ListNotations.
Require Import ModModel.

(* ---------- mem ---------- *)
Lemma mem_In m l : mem m l = true <-> In m l.
Proof.
  unfold mem. rewrite existsb_exists. split.
  - intros [x [Hx He]]. apply Nat.eqb_eq in He. subst; auto.
  - intro H. exists m. split; auto. apply Nat.eqb_refl.
Qed.
Lemma mem_nIn m l : mem m l = false <-> ~ In m l.
Proof. rewrite <- mem_In. destruct (mem m l); split; intros; congruence. Qed.

(* ---------- assoc / upd ---------- *)
Lemma assoc_upd k m f l : assoc k (upd m f l) = if Nat.eqb m k then f (assoc m l) else assoc k l.
Proof.
  induction l as [|[k0 v] r IH]; simpl.
  - destruct (Nat.eqb m k); reflexivity.
  - destruct (Nat.eqb k0 m) eqn:E1; simpl.
    + apply Nat.eqb_eq in E1. subst k0. destruct (Nat.eqb m k); reflexivity.
    + rewrite IH. destruct (Nat.eqb k0 k) eqn:E2; destruct (Nat.eqb m k) eqn:E3; try reflexivity.
      apply Nat.eqb_eq in E2. apply Nat.eqb_eq in E3. subst. rewrite Nat.eqb_refl in E1. discriminate.
Qed.

(* ---------- counting events ---------- *)
Lemma count_nil p : count p [] = 0. Proof. reflexivity. Qed.
Lemma count_cons p a l : count p (a :: l) = (if p a then 1 else 0) + count p l.
Proof. unfold count. simpl. destruct (p a); reflexivity. Qed.
Lemma count_app p l1 l2 : count p (l1 ++ l2) = count p l1 + count p l2.
Proof. unfold count. rewrite filter_app, app_length. reflexivity. Qed.
Lemma count_rev p l : count p (rev l) = count p l.
Proof. induction l; simpl; auto. rewrite count_app, count_cons, IHl, count_cons, count_nil. lia. Qed.
Lemma count_zero p l : count p l = 0 <-> (forall e, In e l -> p e = false).
Proof.
  induction l; simpl.
  - split; auto. intros _ e [].
  - rewrite count_cons. split.
    + intros H e [<-|He]. destruct (p a); auto; lia. apply IHl; auto. destruct (p a); lia.
    + intro H. rewrite (H a) by auto. simpl. apply IHl. intros; apply H; auto.
Qed.
Lemma count_pos p l : 0 < count p l <-> exists e, In e l /\ p e = true.
Proof.
  induction l; simpl.
  - rewrite count_nil. split. lia. intros [e [[] _]].
  - rewrite count_cons. split.
    + destruct (p a) eqn:E. intros _. exists a; auto. simpl. intro H. apply IHl in H. destruct H as [e [? ?]]. exists e; auto.
    + intros [e [[<-|He] Hp]]. rewrite Hp. lia. assert (0 < count p l) by (apply IHl; exists e; auto). lia.
Qed.

Lemma isCB_true x e : isCB x e = true <-> e = CB x.
Proof. destruct e; simpl; split; try discriminate; try (intro H; apply Nat.eqb_eq in H; congruence); intro H; inversion H; apply Nat.eqb_refl. Qed.
Lemma isCE_true x e : isCE x e = true <-> e = CE x.
Proof. destruct e; simpl; split; try discriminate; try (intro H; apply Nat.eqb_eq in H; congruence); intro H; inversion H; apply Nat.eqb_refl. Qed.
Lemma isPI_true x e : isPI x e = true <-> e = PI x.
Proof. destruct e; simpl; split; try discriminate; try (intro H; apply Nat.eqb_eq in H; congruence); intro H; inversion H; apply Nat.eqb_refl. Qed.
Lemma isDT_true x e : isDT x e = true <-> e = DT x.
Proof. destruct e; simpl; split; try discriminate; try (intro H; apply Nat.eqb_eq in H; congruence); intro H; inversion H; apply Nat.eqb_refl. Qed.

Lemma In_CB x l : In (CB x) l <-> 0 < count (isCB x) l.
Proof. rewrite count_pos. split. intro; exists (CB x); split; auto; apply isCB_true; auto. intros [e [H1 H2]]. apply isCB_true in H2. subst; auto. Qed.
Lemma In_CE x l : In (CE x) l <-> 0 < count (isCE x) l.
Proof. rewrite count_pos. split. intro; exists (CE x); split; auto; apply isCE_true; auto. intros [e [H1 H2]]. apply isCE_true in H2. subst; auto. Qed.
Lemma In_PI x l : In (PI x) l <-> 0 < count (isPI x) l.
Proof. rewrite count_pos. split. intro; exists (PI x); split; auto; apply isPI_true; auto. intros [e [H1 H2]]. apply isPI_true in H2. subst; auto. Qed.
Lemma In_DT x l : In (DT x) l <-> 0 < count (isDT x) l.
Proof. rewrite count_pos. split. intro; exists (DT x); split; auto; apply isDT_true; auto. intros [e [H1 H2]]. apply isDT_true in H2. subst; auto. Qed.

(* kinds of events *)
Definition is_ctor (e : ev) : Prop := match e with CB _ | CE _ => True | _ => False end.
Definition is_pi (e : ev) : Prop := match e with PI _ => True | _ => False end.
Definition is_dt (e : ev) : Prop := match e with DT _ => True | _ => False end.

Lemma count_Forall_zero (P : ev -> Prop) p l : Forall P l -> (forall e, P e -> p e = false) -> count p l = 0.
Proof. intros HF Hp. apply count_zero. intros e He. rewrite Forall_forall in HF. auto. Qed.

(* ---------- precedes ---------- *)
Definition precedes (a b : ev) (l : list ev) : Prop := exists l1 l2 l3, l = l1 ++ a :: l2 ++ b :: l3.

Lemma precedes_app_l a b l0 l : precedes a b l -> precedes a b (l0 ++ l).
Proof. intros (l1 & l2 & l3 & ->). exists (l0 ++ l1), l2, l3. rewrite app_assoc. reflexivity. Qed.
Lemma precedes_app_r a b l0 l : precedes a b l -> precedes a b (l ++ l0).
Proof. intros (l1 & l2 & l3 & ->). exists l1, l2, (l3 ++ l0). repeat (rewrite <- app_assoc; simpl). reflexivity. Qed.
Lemma precedes_cons a b e l : precedes a b l -> precedes a b (e :: l).
Proof. apply (precedes_app_l a b [e]). Qed.
Lemma precedes_head a b l : In b l -> precedes a b (a :: l).
Proof. intro H. apply in_split in H. destruct H as (l2 & l3 & ->). exists [], l2, l3. reflexivity. Qed.
Lemma precedes_rev a b l : precedes a b l -> precedes b a (rev l).
Proof.
  intros (l1 & l2 & l3 & ->). exists (rev l3), (rev l2), (rev l1).
  rewrite rev_app_distr. simpl. rewrite rev_app_distr. simpl. repeat (rewrite <- app_assoc; simpl). reflexivity.
Qed.
Lemma precedes_cross a b l1 l2 : In a l1 -> In b l2 -> precedes a b (l1 ++ l2).
Proof.
  intros Ha Hb. apply in_split in Ha. destruct Ha as (x1 & x2 & ->). apply in_split in Hb. destruct Hb as (y1 & y2 & ->).
  exists x1, (x2 ++ y1), y2. repeat (rewrite <- app_assoc; simpl). reflexivity.
Qed.
Lemma precedes_In a b l : precedes a b l -> In a l /\ In b l.
Proof. intros (l1 & l2 & l3 & ->). split; rewrite in_app_iff; right; simpl; auto. right. rewrite in_app_iff. right; simpl; auto. Qed.

(* ---------- first index ---------- *)
Lemma index_app_none p l1 l i : count p l1 = 0 -> index p (l1 ++ l) i = index p l (i + length l1).
Proof.
  revert i; induction l1; simpl; intros i H.
  - f_equal; lia.
  - rewrite count_cons in H. destruct (p a) eqn:E. simpl in H; lia. rewrite IHl1 by (simpl in H; lia). f_equal. lia.
Qed.
Lemma index_le p l1 a l i : p a = true -> exists k, index p (l1 ++ a :: l) i = Some k /\ k <= i + length l1.
Proof.
  intro Ha. revert i; induction l1; simpl; intro i.
  - rewrite Ha. exists i. split; auto. lia.
  - destruct (p a0). exists i; split; auto; lia. destruct (IHl1 (S i)) as (k & Hk & Hle). exists k; split; auto. lia.
Qed.
Lemma precedes_index pa pb a b l :
  precedes a b l -> pa a = true -> pb b = true -> count pb l = 1 -> before (index pa l 0) (index pb l 0) = true.
Proof.
  intros (l1 & l2 & l3 & ->) Ha Hb Hc.
  destruct (index_le pa l1 a (l2 ++ b :: l3) 0 Ha) as (k & Hk & Hle). rewrite Hk.
  assert (Hz : count pb (l1 ++ a :: l2) = 0).
  { rewrite count_app, count_cons, count_app, count_cons, Hb in Hc. rewrite count_app, count_cons. lia. }
  replace (l1 ++ a :: l2 ++ b :: l3) with ((l1 ++ a :: l2) ++ b :: l3) by (rewrite <- app_assoc; reflexivity).
  rewrite index_app_none by exact Hz. simpl. rewrite Hb. simpl. apply Nat.ltb_lt. rewrite app_length. simpl. lia.
Qed.

(* ---------- filter lengths: the fuel measures ---------- *)
Lemma filter_len_le {A} (p q : A -> bool) l :
  (forall x, In x l -> p x = true -> q x = true) -> length (filter p l) <= length (filter q l).
Proof.
  induction l; simpl; intro H; auto.
  assert (IH : length (filter p l) <= length (filter q l)) by (apply IHl; intros; apply H; auto).
  destruct (p a) eqn:E. rewrite (H a) by auto. simpl; lia. destruct (q a); simpl; lia.
Qed.
Lemma filter_len_lt {A} (p q : A -> bool) l a :
  (forall x, In x l -> p x = true -> q x = true) -> In a l -> p a = false -> q a = true -> length (filter p l) < length (filter q l).
Proof.
  induction l; simpl; intros H Ha Hp Hq. contradiction.
  assert (LE : length (filter p l) <= length (filter q l)) by (apply filter_len_le; intros; apply H; auto).
  destruct Ha as [->|Ha].
  - rewrite Hp, Hq. simpl. lia.
  - assert (IH : length (filter p l) < length (filter q l)) by (apply IHl; auto).
    destruct (p a0) eqn:E. rewrite (H a0) by auto. simpl; lia. destruct (q a0); simpl; lia.
Qed.

(* number of ids below n that are not in l *)
Definition outside (n : nat) (l : list mid) : nat := length (filter (fun x => negb (mem x l)) (seq 0 n)).
Lemma outside_le n l l' : incl l l' -> outside n l' <= outside n l.
Proof.
  intro H. apply filter_len_le. intros x _ Hx. apply negb_true_iff in Hx. apply negb_true_iff. apply mem_nIn in Hx. apply mem_nIn. auto.
Qed.
Lemma outside_lt n l l' m : incl l l' -> m < n -> ~ In m l -> In m l' -> outside n l' < outside n l.
Proof.
  intros H Hm Hn Hi. apply filter_len_lt with (a := m).
  - intros x _ Hx. apply negb_true_iff in Hx. apply negb_true_iff. apply mem_nIn in Hx. apply mem_nIn. auto.
  - apply in_seq. lia.
  - apply negb_false_iff. apply mem_In; auto.
  - apply negb_true_iff. apply mem_nIn; auto.
Qed.
Lemma outside_le_n n l : outside n l <= n.
Proof.
  unfold outside. rewrite <- (seq_length n 0) at 2. generalize (seq 0 n). intro l0. induction l0; simpl; auto.
  destruct (negb (mem a l)); simpl; lia.
Qed.

(* a duplicate-free list of ids below n has at most n elements *)
Lemma nodup_lt_length n (l : list mid) : NoDup l -> (forall x, In x l -> x < n) -> length l <= n.
Proof.
  intros Hn Hl. rewrite <- (seq_length n 0). apply NoDup_incl_length; auto. intros x Hx. apply in_seq. specialize (Hl x Hx). lia.
Qed.

(* ---------- reachability ---------- *)
Section Rel.
  Variable g : graph.
  Inductive star : mid -> mid -> Prop :=
  | star_refl x : star x x
  | star_step x y z : In y (g x) -> star y z -> star x z.
  Inductive plus : mid -> mid -> Prop :=
  | plus_intro x y z : In y (g x) -> star y z -> plus x z.

  Lemma star_trans x y z : star x y -> star y z -> star x z.
  Proof. induction 1; auto. intro. eapply star_step; eauto. Qed.
  Lemma star_snoc x y z : star x y -> In z (g y) -> star x z.
  Proof. intros. eapply star_trans; eauto. eapply star_step; eauto. apply star_refl. Qed.
  Lemma plus_star x y : plus x y -> star x y.
  Proof. intros [a b c H1 H2]. eapply star_step; eauto. Qed.
  Lemma star_plus_snoc x y z : star x y -> In z (g y) -> plus x z.
  Proof.
    induction 1; intro Hz.
    - eapply plus_intro; eauto. apply star_refl.
    - eapply plus_intro; eauto. apply plus_star. auto.
  Qed.
  Lemma plus_snoc x y z : plus x y -> In z (g y) -> plus x z.
  Proof. intros. apply plus_star in H. eapply star_plus_snoc; eauto. Qed.
  Lemma star_plus_trans x y z : star x y -> plus y z -> plus x z.
  Proof. induction 1; auto. intro. eapply plus_intro; eauto. apply plus_star; auto. Qed.
  Lemma plus_star_trans x y z : plus x y -> star y z -> plus x z.
  Proof. intros [a b c H1 H2] H3. eapply plus_intro; eauto. eapply star_trans; eauto. Qed.

  (* a set closed under edges contains everything reachable from its members *)
  Lemma star_closed (P : mid -> Prop) : (forall x d, P x -> In d (g x) -> P d) -> forall x y, star x y -> P x -> P y.
  Proof. intros HP x y H. induction H; auto. intro. apply IHstar. eapply HP; eauto. Qed.
End Rel.

Lemma star_mono (g1 g2 : graph) : (forall x, incl (g1 x) (g2 x)) -> forall x y, star g1 x y -> star g2 x y.
Proof. intros H x y S. induction S. apply star_refl. eapply star_step; eauto. apply H; auto. Qed.
Lemma plus_mono (g1 g2 : graph) : (forall x, incl (g1 x) (g2 x)) -> forall x y, plus g1 x y -> plus g2 x y.
Proof. intros H x y [a b c H1 H2]. eapply plus_intro. apply H; eauto. eapply star_mono; eauto. Qed.

(* reachable from a listing *)
Definition Reach (g : graph) (listing : list mid) (x : mid) : Prop := exists r, In r listing /\ star g r x.
(* the reachable part of the graph has a cycle *)
Definition cyclic_reach (g : graph) (listing : list mid) : Prop := exists x, Reach g listing x /\ plus g x x.
(* acyclicity through a rank function *)
Definition acyclic (g : graph) : Prop := exists rank : mid -> nat, forall m d, In d (g m) -> rank d < rank m.

Lemma rank_star g (rank : mid -> nat) : (forall m d, In d (g m) -> rank d < rank m) -> forall x y, star g x y -> rank y <= rank x.
Proof. intros H x y S. induction S; auto. apply H in H0. lia. Qed.
Lemma rank_plus g (rank : mid -> nat) : (forall m d, In d (g m) -> rank d < rank m) -> forall x y, plus g x y -> rank y < rank x.
Proof. intros H x y [a b c H1 H2]. apply (rank_star g rank H) in H2. apply H in H1. lia. Qed.
Lemma acyclic_no_cycle g : acyclic g -> forall x, ~ plus g x x.
Proof. intros [rank H] x P. apply (rank_plus g rank H) in P. lia. Qed.
Lemma acyclic_not_cyclic_reach g listing : acyclic g -> ~ cyclic_reach g listing.
Proof. intros A [x [_ P]]. eapply acyclic_no_cycle; eauto. Qed.

(* ---------- insertion sort keeps the elements ---------- *)
Lemma In_insert_sorted x m l : In x (insert_sorted m l) <-> x = m \/ In x l.
Proof.
  induction l; simpl. intuition.
  destruct (m <=? a); simpl. intuition. rewrite IHl. intuition.
Qed.
Lemma In_sort x l : In x (sort l) <-> In x l.
Proof. unfold sort. induction l; simpl. tauto. rewrite In_insert_sorted, IHl. intuition. Qed.

(* a non-empty list has an element of maximal rank *)
Lemma max_rank (rank : mid -> nat) (l : list mid) : l <> [] -> exists m, In m l /\ forall x, In x l -> rank x <= rank m.
Proof.
  induction l; intro H. congruence.
  destruct l as [|b l'].
  - exists a. split; simpl; auto. intros x [<-|[]]. auto.
  - destruct IHl as (m & Hm & Hmax). discriminate.
    destruct (le_lt_dec (rank a) (rank m)).
    + exists m. split. right; auto. intros x [<-|Hx]; auto.
    + exists a. split. left; auto. intros x [<-|Hx]; auto. specialize (Hmax x Hx). lia.
Qed.
