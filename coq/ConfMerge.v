(* Spike: live configuration tree — merge of a parsed file (all four node kinds, present/specified, defaults, typed
   re-parse, hooks), registration, dump.  Repaired behaviour (D8, D12, D17-D19, D21).  Transcribed from
   notes/proto_conf.py (class Live); the merge is structural on the file tree as in Merge2.v. *)
From Coq Require Import List NArith ZArith Bool Strings.Byte Strings.String Lia.
Import ListNotations.
Require Import Conf.
Local Open Scope string_scope.
Local Open Scope list_scope.
Local Open Scope N_scope.

Inductive pv := PNone | PStr (s : str) | PInt (z : Z).
Inductive lnode :=
| LStr (spec pres hook : bool) (dflt value : option str) (sub : N) (parsed : pv)
| LIna (spec pres hook : bool) (dh ds h s : option str)
| LList (spec pres hook : bool) (d v : list str)
| LObj (spec pres hook : bool) (kids : list (str * lnode)).
Definition lkind (l : lnode) : N := match l with LStr _ _ _ _ _ _ _ => 0 | LIna _ _ _ _ _ _ _ => 1 | LList _ _ _ _ _ => 2 | LObj _ _ _ _ => 3 end.
Definition lspec (l : lnode) : bool := match l with LStr s _ _ _ _ _ _ | LIna s _ _ _ _ _ _ | LList s _ _ _ _ | LObj s _ _ _ => s end.
Definition lhook (l : lnode) : bool := match l with LStr _ _ h _ _ _ _ | LIna _ _ h _ _ _ _ | LList _ _ h _ _ | LObj _ _ h _ => h end.

Definition ev := (N * str)%type.     (* kind, path *)

Fixpoint seq_eq (a b : str) : bool := match a, b with [], [] => true | x :: a', y :: b' => beq x y && seq_eq a' b' | _, _ => false end.
Definition oeq (a b : option str) : bool := match a, b with None, None => true | Some x, Some y => seq_eq x y | _, _ => false end.
Fixpoint leq (a b : list str) : bool := match a, b with [], [] => true | x :: a', y :: b' => seq_eq x y && leq a' b' | _, _ => false end.
Definition ci_diff (a b : option str) : bool :=
  match a, b with None, None => false | Some x, Some y => negb (match scmp x y with Eq => true | _ => false end) | _, _ => true end.

(* ---------- typed values ---------- *)
Definition u32 (n : N) : N := n mod 4294967296.
Definition p_bool (v : str) : Z * bool :=
  if existsb (seq_eq v) [S_ "0"; S_ "false"; S_ "off"; S_ "disabled"; S_ "no"] then (0%Z, true)
  else if existsb (seq_eq v) [S_ "1"; S_ "true"; S_ "on"; S_ "enabled"; S_ "yes"] then (1%Z, true) else (0%Z, false).
Definition unit_mult (c : byte) : option N :=
  if nb c =? 100 then Some 86400 else if nb c =? 104 then Some 3600 else if nb c =? 109 then Some 60
  else if nb c =? 115 then Some 1 else if nb c =? 121 then Some 31536000 else None.
Fixpoint p_interval (v : str) (total partial colon : N) : Z * bool :=
  match v with
  | [] => (Z.of_N (u32 (total + partial)), true)
  | c :: r =>
    if isdigit c then p_interval r total (u32 (partial * 10 + (nb c - 48))) colon
    else match unit_mult c with
         | Some m => p_interval r (u32 (total + partial * m)) 0 colon
         | None => if nb c =? 58 then
                     (if colon =? 0 then p_interval r (u32 (total + partial * 3600)) 0 1
                      else if colon =? 1 then p_interval r (u32 (total + partial * 60)) 0 2
                      else (Z.of_N (u32 (total + partial)), false))
                   else (Z.of_N (u32 (total + partial)), false)
         end
  end.
Definition vol_shift (c : byte) : option N :=
  let n := nb c in
  if (n =? 66) || (n =? 98) then Some 1 else if (n =? 71) || (n =? 103) then Some 1073741824
  else if (n =? 75) || (n =? 107) then Some 1024 else if (n =? 77) || (n =? 109) then Some 1048576 else None.
Fixpoint p_volume (v : str) (total partial : N) : Z * bool :=
  match v with
  | [] => (Z.of_N (u32 (total + partial)), true)
  | c :: r => if isdigit c then p_volume r total (u32 (partial * 10 + (nb c - 48)))
              else match vol_shift c with Some m => p_volume r (u32 (total + partial * m)) 0 | None => (Z.of_N (u32 (total + partial)), false) end
  end.
(* strtoul(value, &eov, 0) as far as the generator goes: white space, sign, 0x / 0 / decimal digits, junk => failure *)
Fixpoint rd (base : N) (s : str) (acc : N) (n : nat) : N * str * nat :=
  match s with
  | c :: r => match hexv c with
              | Some d => if d <? base then rd base r (N.min (acc * base + d) 18446744073709551615) (S n) else (acc, s, n)
              | None => (acc, s, n)
              end
  | [] => (acc, [], n)
  end.
Fixpoint skipsp (s : str) : str := match s with c :: r => if isspace c then skipsp r else s | [] => [] end.
Definition to_i32 (n : N) : Z := let m := u32 n in if m <? 2147483648 then Z.of_N m else (Z.of_N m - 4294967296)%Z.
Definition p_integer (v : str) : Z * bool :=
  let s := skipsp v in
  let '(neg, s1) := match s with c :: r => if nb c =? 45 then (true, r) else if nb c =? 43 then (false, r) else (false, s) | [] => (false, s) end in
  let '(val, rest, nd) :=
    match s1 with
    | c0 :: c1 :: c2 :: r => if (nb c0 =? 48) && ((nb c1 =? 120) || (nb c1 =? 88)) && (match hexv c2 with Some _ => true | None => false end)
                             then rd 16 (c2 :: r) 0 0
                             else if nb c0 =? 48 then let '(a, b, n) := rd 8 (c1 :: c2 :: r) 0 0 in (a, b, S n) else rd 10 s1 0 0
    | c0 :: r => if nb c0 =? 48 then let '(a, b, n) := rd 8 r 0 0 in (a, b, S n) else rd 10 s1 0 0
    | [] => (0, [], 0%nat)
    end in
  match nd with
  | O => (0%Z, match v with [] => true | _ => false end)
  | _ => match rest with
         | [] => let n := if neg then (18446744073709551616 - val) mod 18446744073709551616 else val in (to_i32 n, true)
         | _ => (0%Z, false)
         end
  end.
Definition typed (sub : N) (v : str) : Z * bool :=
  if sub =? 1 then p_bool v else if sub =? 2 then p_integer v else if sub =? 4 then p_interval v 0 0 0 else p_volume v 0 0.

(* conf_parse_string_value; `fire` = this node has a hook *)
Definition parse_value (hook : bool) (path : str) (dflt value : option str) (sub : N) (parsed : pv) (had_orig : bool)
  : option str * pv * list ev :=
  let value := match value with None => dflt | _ => value end in
  let f := if hook then [(0, path)] else [] in
  match value with
  | None => (None, if sub =? 0 then PNone else PInt 0, if had_orig then f else [])
  | Some v =>
    if sub =? 0 then (value, PStr v, if match parsed with PStr p => seq_eq p v | _ => false end then [] else f)
    else let '(z, ok) := typed sub v in
         let same := match parsed with PInt c => (c =? z)%Z | PNone => (z =? 0)%Z | PStr _ => false end in
         if ok && negb same then (value, PInt z, f) else (value, parsed, [])
  end.

Definition pjoin (path name : str) : str := match path with [] => name | _ => path ++ [x2f] ++ name end.

(* ---------- splice / revert / merge ---------- *)
Fixpoint splice (v : val) : lnode :=
  match v with
  | VStr s => LStr false true false None (Some s) 0 (PStr s)
  | VIna h s => LIna false true false None None h s
  | VList l => LList false true false [] l
  | VObj ks => LObj false true false (map (fun nv => (fst nv, splice (snd nv))) ks)
  end.

Definition keep (spec : bool) (n : lnode) : option lnode := if spec then Some n else None.

Fixpoint revert (path : str) (l : lnode) {struct l} : option lnode * list ev :=
  match l with
  | LStr spec _ hook d v sub p =>
      let '(v', p', e) := parse_value hook path d None sub p false in
      let e2 := if (match v with Some _ => true | None => false end) && (match v' with None => true | _ => false end) && spec && hook then [(0, path)] else [] in
      (keep spec (LStr spec false hook d v' sub p'), e ++ e2)
  | LIna spec _ hook dh ds h s =>
      let e := if (ci_diff dh h || ci_diff ds s) && hook then [(1, path)] else [] in
      (keep spec (LIna spec false hook dh ds dh ds), e)
  | LList spec _ hook d v => (keep spec (LList spec false hook d d), if negb (leq d v) && hook then [(2, path)] else [])
  | LObj spec pres hook ks =>
      if pres then
        let '(ks', e, md) :=
          (fix go (l : list (str * lnode)) : list (str * lnode) * list ev * bool :=
             match l with
             | [] => ([], [], false)
             | (n, x) :: r => let '(x', e1) := revert (pjoin path n) x in
                              let '(r', e2, m) := go r in
                              match x' with Some y => ((n, y) :: r', e1 ++ e2, m) | None => (r', e1 ++ e2, true) end
             end) ks in
        (keep spec (LObj spec false hook ks'), e ++ (if md && hook then [(3, path)] else []))
      else (keep spec (LObj spec false hook ks), [])
  end.

Fixpoint revert_all (path : str) (l : list (str * lnode)) : list (str * lnode) * list ev * bool :=
  match l with
  | [] => ([], [], false)
  | (n, x) :: r => let '(x', e1) := revert (pjoin path n) x in
                   let '(r', e2, m) := revert_all path r in
                   match x' with Some y => ((n, y) :: r', e1 ++ e2, m) | None => (r', e1 ++ e2, true) end
  end.

Fixpoint span_lt (name : str) (k : N) (ts : list (str * lnode)) : list (str * lnode) * list (str * lnode) :=
  match ts with
  | [] => ([], [])
  | (n, t) :: r => match kcmp n (lkind t) name k with Lt => let (a, b) := span_lt name k r in ((n, t) :: a, b) | _ => ([], ts) end
  end.

Fixpoint merge (path : str) (t : lnode) (s : val) {struct s} : lnode * list ev :=
  match s with
  | VStr v => match t with
              | LStr spec _ hook d _ sub p => let '(v', p', e) := parse_value hook path d (Some v) sub p true in (LStr spec true hook d v' sub p', e)
              | _ => (splice s, [])
              end
  | VIna h sv => match t with
                 | LIna spec _ hook dh ds oh os =>
                     let nh := match h with None => dh | _ => h end in let ns := match sv with None => ds | _ => sv end in
                     (LIna spec true hook dh ds nh ns, if (ci_diff nh oh || ci_diff ns os) && hook then [(1, path)] else [])
                 | _ => (splice s, [])
                 end
  | VList l => match t with
               | LList spec _ hook d v => (LList spec true hook d l, if negb (leq l v) && hook then [(2, path)] else [])
               | _ => (splice s, [])
               end
  | VObj ss =>
      let fix mk (ts : list (str * lnode)) (ss : list (str * val)) {struct ss} : list (str * lnode) * list ev * bool :=
        match ss with
        | [] => revert_all path ts
        | (ks, s') :: ss' =>
            let (lo, hi) := span_lt ks (kind s') ts in
            let '(lo', e0, m0) := revert_all path lo in
            let '(rest, e1, m1) :=
              match hi with
              | (kt, t') :: hi' =>
                  match kcmp kt (lkind t') ks (kind s') with
                  | Eq => let '(t'', e) := merge (pjoin path kt) t' s' in let '(r, e2, m) := mk hi' ss' in ((kt, t'') :: r, e ++ e2, m)
                  | _ => let '(r, e2, m) := mk hi ss' in ((ks, splice s') :: r, e2, true)
                  end
              | [] => let '(r, e2, m) := mk [] ss' in ((ks, splice s') :: r, e2, true)
              end in
            (lo' ++ rest, e0 ++ e1, m0 || m1)
        end in
      match t with
      | LObj spec _ hook ks => let '(ks', e, md) := mk ks ss in (LObj spec true hook ks', e ++ (if md && hook then [(3, path)] else []))
      | _ => (splice s, [])
      end
  end.

(* ---------- registration (top level of the root only, as the harness script does) ---------- *)
Fixpoint upsertl (name : str) (k : N) (f : option lnode -> lnode) (kids : list (str * lnode)) : list (str * lnode) :=
  match kids with
  | [] => [(name, f None)]
  | (n, v) :: r => match kcmp name k n (lkind v) with
                   | Eq => (n, f (Some v)) :: r
                   | Lt => (name, f None) :: kids
                   | Gt => (n, v) :: upsertl name k f r
                   end
  end.
Fixpoint lookupl (name : str) (k : N) (kids : list (str * lnode)) : option lnode :=
  match kids with [] => None | (n, v) :: r => match kcmp name k n (lkind v) with Eq => Some v | _ => lookupl name k r end end.

Fixpoint lookup_name (name : str) (k : N) (kids : list (str * lnode)) : str :=
  match kids with [] => name | (n, v) :: r => match kcmp name k n (lkind v) with Eq => n | _ => lookup_name name k r end end.

Inductive reg := RegObj (n : str) | RegStr (n : str) (sub : N) (d : option str) | RegList (n : str) (d : list str) | RegIna (n : str) (h s : option str).

Definition do_reg (kids : list (str * lnode)) (r : reg) : list (str * lnode) * list ev :=
  match r with
  | RegObj n => (upsertl n 3 (fun o => match o with Some (LObj _ p _ ks) => LObj true p true ks | _ => LObj true false true [] end) kids, [])
  | RegStr n sub d =>
      let '(pres, hook, value, osub, parsed) := match lookupl n 0 kids with Some (LStr _ p h _ v s pa) => (p, h, v, s, pa) | _ => (false, false, None, 0, PNone) end in
      let parsed := if osub =? sub then parsed else PNone in
      let '(v', p', e) := parse_value hook (lookup_name n 0 kids) d value sub parsed (match value with Some _ => true | None => false end) in
      (upsertl n 0 (fun _ => LStr true pres true d v' sub p') kids, e)
  | RegList n d => (upsertl n 2 (fun o => match o with Some (LList _ p _ _ v) => LList true p true d (if p then v else d) | _ => LList true false true d d end) kids, [])
  | RegIna n h s => (upsertl n 1 (fun o => match o with
                                           | Some (LIna _ p _ _ _ oh os) => LIna true p true h s (match oh with None => h | _ => oh end) (match os with None => s | _ => os end)
                                           | _ => LIna true false true h s h s end) kids, [])
  end.

(* ---------- dump ---------- *)
Fixpoint decs (fuel : nat) (n : N) (acc : str) : str :=
  match fuel with O => acc | S f => let acc' := (match Byte.of_N (48 + n mod 10) with Some b => b | None => x30 end) :: acc in if n / 10 =? 0 then acc' else decs f (n / 10) acc' end.
Definition decZ (z : Z) : str := match z with Z0 => S_ "0" | Zpos p => decs 25 (Npos p) [] | Zneg p => x2d :: decs 25 (Npos p) [] end.
Definition bit (b : bool) : str := if b then S_ "1" else S_ "0".
Fixpoint dumpl (depth : nat) (n : str) (l : lnode) {struct l} : list str :=
  let pre k s p := indent depth ++ q n ++ S_ " k" ++ [hexd k] ++ S_ " s" ++ bit s ++ S_ " p" ++ bit p ++ [x20] in
  match l with
  | LStr s p _ _ v sub pa =>
      [pre 0 s p ++ qo v ++ S_ " sub" ++ [hexd sub] ++ [x20] ++
       (if negb s then S_ "-" else if sub =? 0 then qo (match pa with PStr x => Some x | _ => None end) else decZ (match pa with PInt z => z | _ => 0%Z end))]
  | LIna s p _ _ _ h sv => [pre 1 s p ++ qo h ++ [x20] ++ qo sv]
  | LList s p _ _ v => [pre 2 s p ++ [x28] ++ joinc (map q v) ++ [x29]]
  | LObj s p _ ks => [pre 3 s p ++ [x7b]] ++
                     (fix go (l : list (str * lnode)) : list str := match l with [] => [] | (n', v') :: r => dumpl (S depth) n' v' ++ go r end) ks
                     ++ [indent depth ++ [x7d]]
  end.

(* ---------- scripts ---------- *)
(* a module may attach its hook to nodes the file created (log.c does so for the children of `logs`): hook every node *)
Fixpoint hookall (l : lnode) {struct l} : lnode :=
  match l with
  | LStr s p _ d v sub pa => LStr s p true d v sub pa
  | LIna s p _ dh ds h sv => LIna s p true dh ds h sv
  | LList s p _ d v => LList s p true d v
  | LObj s p _ ks => LObj s p true ((fix go (l : list (str * lnode)) : list (str * lnode) := match l with [] => [] | (n, x) :: r => (n, hookall x) :: go r end) ks)
  end.
Definition is_logs (n : str) : bool := match scmp n (S_ "logs") with Eq => true | _ => false end.

Inductive cmd := CReg (r : reg) | CLoad (data : str) | CDump | CHookAll.
Definition hookline (e : ev) : str := S_ "HOOK " ++ [hexd (fst e)] ++ [x20] ++ snd e.
Definition root0 : list (str * lnode) :=
  [(S_ "logs", LObj true false false [(S_ "verbose_timestamp", LStr true false false (Some (S_ "true")) (Some (S_ "true")) 1 (PInt 1))])].

Definition exec (st : list (str * lnode)) (c : cmd) : list (str * lnode) * list str :=
  match c with
  | CReg r => let '(k, e) := do_reg st r in (k, map hookline e ++ [S_ "REG"])
  | CDump => (st, flat_map (fun nv => dumpl 0 (fst nv) (snd nv)) st ++ [S_ "END"])
  | CHookAll => (map (fun nv => if is_logs (fst nv) then nv else (fst nv, hookall (snd nv))) st, [S_ "REG"])
  | CLoad data =>
      match parse data with
      | inl _ => (st, [S_ "LOAD ERR"] ++ flat_map (fun nv => dumpl 0 (fst nv) (snd nv)) st ++ [S_ "END"])
      | inr tree =>
          let '(root, e) := merge [] (LObj true true false st) (VObj tree) in
          let st' := match root with LObj _ _ _ ks => ks | _ => st end in
          (st', map hookline e ++ [S_ "LOAD OK"] ++ flat_map (fun nv => dumpl 0 (fst nv) (snd nv)) st' ++ [S_ "END"])
      end
  end.
Definition script (cs : list cmd) : list str :=
  snd (fold_left (fun acc c => let '(st, out) := acc in let '(st', o) := exec st c in (st', out ++ o)) cs (root0, [])).
