(* C10: request bookkeeping balances over any history.  ONLY statements closed by `exact`, each followed by Print Assumptions. *)
From Coq Require Import List NArith ZArith Bool Strings.Byte Strings.String.
Import ListNotations.
Require Import Params Iauth Mon01.
Local Open Scope list_scope.

(* after every prefix of every history the number of requests in the table equals the number of ids the C01 monitor holds live
   (announced and neither withdrawn, reported registered nor decided; re-announcing a live id replaces it) *)
Theorem in_use_is_live_count : forall c s0 evs1 evs2, reqs s0 = [] ->
  exists m, mon_state [] (trace c s0 evs1) = Some m /\
            List.length m = List.length (reqs (fold_left (fun s e => fst (step c s (fst e) (snd e))) evs1 s0)) /\
            mon_run m (trace c (fold_left (fun s e => fst (step c s (fst e) (snd e))) evs1 s0) evs2) = true.
Proof. exact live_count_prefix. Qed.
Print Assumptions in_use_is_live_count.
