(* C10: request bookkeeping balances over any history.  ONLY statements closed by `exact`, each followed by Print Assumptions. *)
From Coq Require Import List NArith ZArith Bool Strings.Byte Strings.String.
Import ListNotations.
Require Import Params Iauth Mon01.
Require Line Junk TimerFacts.
Local Open Scope list_scope.

(* after every prefix of every history the number of requests in the table equals the number of ids the C01 monitor holds live
   (announced and neither withdrawn, reported registered nor decided; re-announcing a live id replaces it) *)
Theorem in_use_is_live_count : forall c s0 evs1 evs2, reqs s0 = [] ->
  exists m, mon_state [] (trace c s0 evs1) = Some m /\
            List.length m = List.length (reqs (fold_left (fun s e => fst (step c s (fst e) (snd e))) evs1 s0)) /\
            mon_run m (trace c (fold_left (fun s e => fst (step c s (fst e) (snd e))) evs1 s0) evs2) = true.
Proof. exact live_count_prefix. Qed.
Print Assumptions in_use_is_live_count.

(* "a timer belonging to a finished request never fires": the timer is a field of the request in the table (armed s = ids with an
   armed timer), so an id that is not in the table after a step has no armed timer after it, whatever the step was ... *)
Theorem timers_exist_only_for_live_requests : forall c s e,
  let s' := fst (step_ev c s e) in
  incl (TimerFacts.armed s') (map cid (reqs s')) /\ (forall id, lookup id (reqs s') = None -> ~ In id (TimerFacts.armed s')).
Proof. exact TimerFacts.timers_exist_only_for_live_requests. Qed.
Print Assumptions timers_exist_only_for_live_requests.

(* ... and should the expiry of a finished request's timer be delivered all the same, it changes nothing and prints nothing *)
Theorem timeout_for_finished_request_is_noop : forall c s raw,
  cmdchar (Junk.argv_of raw) = x21 -> lookup (Junk.id_of raw) (reqs s) = None -> Line.step_line c s raw = (s, []).
Proof. exact TimerFacts.timeout_line_for_finished_request_is_noop. Qed.
Print Assumptions timeout_for_finished_request_is_noop.

(* a request's timer fires at most once: it does something only when armed; afterwards it is disarmed and later expiries are no-ops *)
Theorem timer_fires_at_most_once : forall c s id argv r,
  NoDupIds (reqs s) -> lookup id (reqs s) = Some r -> cmdchar argv = x21 ->
  let s' := fst (step c s id argv) in
  (timer r && TimerFacts.is_timeout argv = false -> step c s id argv = (s, [])) /\
  (timer r && TimerFacts.is_timeout argv = true ->
     (forall r', lookup id (reqs s') = Some r' -> timer r' = false /\ f_tout r' = true) /\
     (forall argv2, cmdchar argv2 = x21 -> step c s' id argv2 = (s', []))).
Proof. exact TimerFacts.timer_fires_at_most_once. Qed.
Print Assumptions timer_fires_at_most_once.

(* no event other than a new announcement arms a timer *)
Theorem only_an_announcement_arms_a_timer : forall c s e,
  NoDupIds (reqs s) -> match e with Ev _ argv => beq (cmdchar argv) x43 = false | Reload _ _ _ => True end ->
  incl (TimerFacts.armed (fst (step_ev c s e))) (TimerFacts.armed s).
Proof. exact TimerFacts.armed_shrinks. Qed.
Print Assumptions only_an_announcement_arms_a_timer.

(* across reloads: a reload neither adds nor removes a request and prints nothing - the in-use figure and the live ids are those
   before it (the theorems above speak of input lines; this one covers the other kind of event) *)
Require ReloadCount.
Theorem a_reload_keeps_the_requests : forall c s svs rs t,
  map cid (reqs (fst (step_ev c s (Reload svs rs t)))) = map cid (reqs s) /\
  List.length (reqs (fst (step_ev c s (Reload svs rs t)))) = List.length (reqs s) /\
  snd (step_ev c s (Reload svs rs t)) = [].
Proof. exact ReloadCount.reload_keeps_the_requests. Qed.
Print Assumptions a_reload_keeps_the_requests.
