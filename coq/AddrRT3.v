From Coq Require Import List NArith Lia Bool Strings.Byte Arith.
Import ListNotations.
Require Import Addr AddrRT AddrRT2.
Local Open Scope N_scope.

Fixpoint join (gs : groups) : str :=
  match gs with [] => [] | g :: r => match r with [] => hexstr g | _ => hexstr g ++ colon :: join r end end.
Definition sepd (gs : groups) : str := concat (map (fun g => hexstr g ++ [colon]) gs).
Definition small (gs : groups) : Prop := Forall (fun g => g < 65536) gs.

Lemma hexval_dot : hexval x2e = None. Proof. reflexivity. Qed.

Lemma beqb_neq (x y : byte) : x <> y -> Byte.eqb x y = false.
Proof. intros H. destruct (Byte.eqb x y) eqn:E; [apply Byte.byte_dec_bl in E; contradiction|reflexivity]. Qed.

Lemma hexstr_head g rest : g < 65536 -> nocd (hexstr g ++ rest).
Proof.
  intros Hg. destruct (eat_hexstr g Hg) as [He Hne].
  destruct (hexstr g) as [|c r]; [contradiction|]. simpl in He.
  destruct (hexval c) eqn:Hv; [|discriminate].
  split; simpl; apply beqb_neq; intro E; subst c; vm_compute in Hv; discriminate.
Qed.

Lemma join_head g r rest : g < 65536 -> nocd (join (g :: r) ++ rest).
Proof.
  intros Hg. simpl. destruct r; [apply hexstr_head; exact Hg|]. rewrite <- app_assoc. apply hexstr_head; exact Hg.
Qed.

Definition adv (s : pst) (gs : groups) : pst :=
  {| part := 0; ii := (ii s + length gs)%nat; cpos := cpos s; acc := acc s ++ gs |}.

Lemma push_adv s g : part s = 0 -> push (setpart s g) = adv s [g].
Proof. intros. unfold push, setpart, adv; simpl. f_equal. lia. Qed.

Lemma adv_adv s a b : adv (adv s a) b = adv s (a ++ b).
Proof. unfold adv; simpl. rewrite app_length, <- app_assoc. f_equal. lia. Qed.

(* groups each followed by ':' and then more text starting with neither ':' nor '.' *)
Lemma loop_sepd gs : forall s fuel rest,
  small gs -> part s = 0 -> (ii s + length gs <= 8)%nat -> (length gs > 0 -> ii s + length gs < 9)%nat -> nocd rest ->
  (ii s + length gs < 8 \/ gs = [])%nat ->
  (length (sepd gs ++ rest) < fuel)%nat ->
  exists fuel', (length rest < fuel')%nat /\ loop fuel s (sepd gs ++ rest) = loop fuel' (adv s gs) rest.
Proof.
  induction gs as [|g gs IH]; intros s fuel rest Hs Hp Hi _ Hn Hlt Hf.
  - exists fuel. split; [exact Hf|]. simpl. f_equal. unfold adv; destruct s; simpl in *. subst. f_equal; [lia|symmetry; apply app_nil_r].
  - inversion Hs as [|? ? Hg Hs']; subst. simpl in Hf, Hi |- *. unfold sepd in *. simpl in *. rewrite <- !app_assoc in *. simpl in *.
    rewrite app_length in Hf. simpl in Hf.
    destruct Hlt as [Hlt|Hlt]; [|discriminate].
    replace fuel with (length (hexstr g) + S (fuel - length (hexstr g) - 1))%nat by lia.
    assert (nocd (concat (map (fun g0 => hexstr g0 ++ [colon]) gs) ++ rest)) as Hn'.
    { destruct gs as [|g2 gs2]; [exact Hn|]. inversion Hs'; subst. simpl. rewrite <- !app_assoc. apply hexstr_head; assumption. }
    rewrite loop_group_sep; try assumption; try lia.
    rewrite push_adv by assumption.
    destruct (IH (adv s [g]) (fuel - length (hexstr g) - 1)%nat rest Hs' eq_refl) as (fuel' & Hf' & E); simpl; try lia; try assumption.
    exists fuel'. split; [exact Hf'|]. rewrite E, adv_adv. reflexivity.
Qed.

Lemma loop_join gs : forall s fuel,
  gs <> [] -> small gs -> part s = 0 -> (ii s + length gs <= 8)%nat ->
  (cpos s < 8 \/ ii s + length gs = 8)%nat -> (length (join gs) < fuel)%nat ->
  loop fuel s (join gs) = Done (adv s gs) [].
Proof.
  induction gs as [|g gs IH]; intros s fuel Hne Hs Hp Hi Hc Hf; [contradiction|].
  inversion Hs as [|? ? Hg Hs']; subst.
  destruct gs as [|g2 gs2].
  - simpl in *. replace fuel with (length (hexstr g) + S (fuel - length (hexstr g) - 1))%nat by lia.
    rewrite loop_group_end; try assumption; try lia. rewrite push_adv by assumption. reflexivity.
  - change (join (g :: g2 :: gs2)) with (hexstr g ++ colon :: join (g2 :: gs2)) in *.
    rewrite app_length in Hf. cbn [length] in Hf.
    replace fuel with (length (hexstr g) + S (fuel - length (hexstr g) - 1))%nat by lia.
    rewrite loop_group_sep; try assumption; try (cbn [length] in Hi; lia).
    2:{ inversion Hs'; subst. pose proof (join_head g2 gs2 [] ltac:(assumption)) as J. rewrite app_nil_r in J. exact J. }
    rewrite push_adv by assumption.
    rewrite IH; try assumption; try discriminate; try reflexivity; cbn [adv ii cpos length] in *; try lia.
    rewrite adv_adv. reflexivity.
Qed.

Theorem pton_plain gs : length gs = 8%nat -> small gs -> pton6 (join gs) = Some gs.
Proof.
  intros Hl Hs. destruct gs as [|g r]; [discriminate|]. inversion Hs; subst.
  unfold pton6.
  pose proof (join_head g r [] ltac:(assumption)) as [Hc _]. rewrite app_nil_r in Hc. rewrite Hc.
  rewrite loop_join; try assumption; try discriminate; try reflexivity; cbn [ii cpos]; try lia.
Qed.
