(* C16: typed settings deliver the value written (booleans by keyword, integers, intervals and volumes as the sum of
   their unit components), and an unparsable typed value is rejected.  The conversions are those of ConfMerge.v
   (p_bool, p_interval, p_volume, p_integer, typed), unchanged; decimal texts are produced by the printer of
   AddrFull.v (dec) and the decimal-rendering facts of Cidr.v are reused (dec_spec, dval, alld ...).
   AddrFull and Conf each define nb / isdigit / isspace / hexv / u32 / str with the same bodies: the two families are
   convertible and the bridge lemmas below are proved by reflexivity. *)
From Coq Require Import List NArith ZArith Bool Strings.Byte Strings.String Lia.
Import ListNotations.
Require AddrFull AddrV4 Cidr.
Require Import Conf ConfMerge.
Local Open Scope string_scope.
Local Open Scope list_scope.
Local Open Scope N_scope.

Ltac Zify.zify_post_hook ::= Z.to_euclidean_division_equations.

Notation dec := AddrFull.dec.
Notation dval := Cidr.dval.
Notation alld := Cidr.alld.

(* ================= 0. bridges between the two copies of the character classes ================= *)
Lemma nb_bridge c : Conf.nb c = AddrFull.nb c. Proof. reflexivity. Qed.
Lemma isdigit_bridge c : Conf.isdigit c = AddrFull.isdigit c. Proof. reflexivity. Qed.
Lemma isspace_bridge c : Conf.isspace c = AddrFull.isspace c. Proof. reflexivity. Qed.
Lemma hexv_bridge c : Conf.hexv c = AddrFull.hexv c. Proof. reflexivity. Qed.
Lemma u32_bridge n : ConfMerge.u32 n = AddrFull.u32 n. Proof. reflexivity. Qed.

Lemma alld_cons c ds : alld (c :: ds) -> isdigit c = true /\ alld ds.
Proof. intros H. inversion H; subst. split; assumption. Qed.
Lemma dval_cons a c ds : dval a (c :: ds) = dval (a * 10 + (nb c - 48)) ds.
Proof. reflexivity. Qed.
Lemma dval_le ds a : a <= dval a ds.
Proof. apply Cidr.dval_mono. Qed.

Lemma u32_small n : n < 4294967296 -> u32 n = n.
Proof. intros H. unfold u32. apply N.mod_small. exact H. Qed.
Lemma u32_idem_l a b : u32 (u32 a + b) = u32 (a + b).
Proof. unfold u32. apply N.add_mod_idemp_l. discriminate. Qed.
Lemma u32_idem_r a b : u32 (a + u32 b) = u32 (a + b).
Proof. unfold u32. apply N.add_mod_idemp_r. discriminate. Qed.
Lemma u32_idem a : u32 (u32 a) = u32 a.
Proof. unfold u32. apply N.mod_mod. discriminate. Qed.
(* flatten nested reductions in a sum *)
Ltac u32n := rewrite ?N.add_0_l, ?N.add_0_r; repeat (rewrite <- ?N.add_assoc; rewrite u32_idem_l); rewrite ?N.add_assoc, ?u32_idem.

(* ================= 1. booleans ================= *)
Lemma seq_eq_true a : forall b, seq_eq a b = true <-> a = b.
Proof.
  induction a as [|x a IH]; intros [|y b]; cbn [seq_eq]; split; intros H; try reflexivity; try discriminate.
  - apply andb_true_iff in H. destruct H as [H1 H2]. apply Byte.byte_dec_bl in H1. apply IH in H2. subst. reflexivity.
  - inversion H; subst. apply andb_true_iff. split; [apply Byte.byte_dec_lb; reflexivity|apply IH; reflexivity].
Qed.

Lemma existsb_seq_eq v l : existsb (seq_eq v) l = true <-> In v l.
Proof.
  rewrite existsb_exists. split.
  - intros (x & Hx & E). apply seq_eq_true in E. subst. exact Hx.
  - intros H. exists v. split; [exact H|apply seq_eq_true; reflexivity].
Qed.

Definition true_words : list str := [S_ "1"; S_ "true"; S_ "on"; S_ "enabled"; S_ "yes"].
Definition false_words : list str := [S_ "0"; S_ "false"; S_ "off"; S_ "disabled"; S_ "no"].

Theorem p_bool_true_iff v : p_bool v = (1%Z, true) <-> In v [S_ "1"; S_ "true"; S_ "on"; S_ "enabled"; S_ "yes"].
Proof.
  split.
  - unfold p_bool. destruct (existsb (seq_eq v) [S_ "0"; S_ "false"; S_ "off"; S_ "disabled"; S_ "no"]); [discriminate|].
    destruct (existsb (seq_eq v) [S_ "1"; S_ "true"; S_ "on"; S_ "enabled"; S_ "yes"]) eqn:E; [|discriminate].
    intros _. apply existsb_seq_eq. exact E.
  - intros H. cbn [In] in H. repeat (destruct H as [H|H]; [subst v; vm_compute; reflexivity|]). contradiction.
Qed.

Theorem p_bool_false_iff v : p_bool v = (0%Z, true) <-> In v [S_ "0"; S_ "false"; S_ "off"; S_ "disabled"; S_ "no"].
Proof.
  split.
  - unfold p_bool. destruct (existsb (seq_eq v) [S_ "0"; S_ "false"; S_ "off"; S_ "disabled"; S_ "no"]) eqn:E.
    + intros _. apply existsb_seq_eq. exact E.
    + destruct (existsb (seq_eq v) [S_ "1"; S_ "true"; S_ "on"; S_ "enabled"; S_ "yes"]); discriminate.
  - intros H. cbn [In] in H. repeat (destruct H as [H|H]; [subst v; vm_compute; reflexivity|]). contradiction.
Qed.

Theorem p_bool_rejects v :
  ~ In v [S_ "1"; S_ "true"; S_ "on"; S_ "enabled"; S_ "yes"; S_ "0"; S_ "false"; S_ "off"; S_ "disabled"; S_ "no"] ->
  p_bool v = (0%Z, false).
Proof.
  intros H. unfold p_bool.
  destruct (existsb (seq_eq v) [S_ "0"; S_ "false"; S_ "off"; S_ "disabled"; S_ "no"]) eqn:E0.
  - exfalso. apply H. apply existsb_seq_eq in E0. cbn [In] in E0 |- *. tauto.
  - destruct (existsb (seq_eq v) [S_ "1"; S_ "true"; S_ "on"; S_ "enabled"; S_ "yes"]) eqn:E1; [|reflexivity].
    exfalso. apply H. apply existsb_seq_eq in E1. cbn [In] in E1 |- *. tauto.
Qed.
Corollary p_bool_rejects_snd v :
  ~ In v [S_ "1"; S_ "true"; S_ "on"; S_ "enabled"; S_ "yes"; S_ "0"; S_ "false"; S_ "off"; S_ "disabled"; S_ "no"] ->
  snd (p_bool v) = false.
Proof. intros H. rewrite (p_bool_rejects v H). reflexivity. Qed.
(* conversely: whatever is accepted is one of the ten keywords (exactly, in this case) *)
Theorem p_bool_accepts_iff v :
  snd (p_bool v) = true <->
  In v [S_ "1"; S_ "true"; S_ "on"; S_ "enabled"; S_ "yes"; S_ "0"; S_ "false"; S_ "off"; S_ "disabled"; S_ "no"].
Proof.
  split.
  - intros H. unfold p_bool in H.
    destruct (existsb (seq_eq v) [S_ "0"; S_ "false"; S_ "off"; S_ "disabled"; S_ "no"]) eqn:E0.
    + apply existsb_seq_eq in E0. cbn [In] in E0 |- *. tauto.
    + destruct (existsb (seq_eq v) [S_ "1"; S_ "true"; S_ "on"; S_ "enabled"; S_ "yes"]) eqn:E1; [|discriminate].
      apply existsb_seq_eq in E1. cbn [In] in E1 |- *. tauto.
  - intros H. cbn [In] in H. repeat (destruct H as [H|H]; [subst v; vm_compute; reflexivity|]). contradiction.
Qed.
(* case matters: an example *)
Example p_bool_case_sensitive : p_bool (S_ "True") = (0%Z, false) /\ p_bool (S_ "ON") = (0%Z, false).
Proof. split; vm_compute; reflexivity. Qed.

(* ================= 2. intervals ================= *)
Definition COLON : byte := x3a.

(* the total only matters modulo 2^32 *)
Lemma p_interval_total_mod v : forall t p c, p_interval v (u32 t) p c = p_interval v t p c.
Proof.
  induction v as [|x r IH]; intros t p c; cbn [p_interval].
  - rewrite u32_idem_l. reflexivity.
  - destruct (isdigit x); [apply IH|].
    destruct (unit_mult x) as [m|]; [rewrite u32_idem_l; reflexivity|].
    rewrite !u32_idem_l. reflexivity.
Qed.

(* a run of digits: the partial value is read exactly as long as it stays below 2^32 *)
Lemma p_interval_digits ds : forall rest t a c, alld ds -> dval a ds < 4294967296 ->
  p_interval (ds ++ rest) t a c = p_interval rest t (dval a ds) c.
Proof.
  induction ds as [|x ds IH]; intros rest t a c Hd Hv; [reflexivity|].
  apply alld_cons in Hd. destruct Hd as [Hx Hd]. rewrite dval_cons in Hv |- *.
  cbn [app p_interval]. rewrite Hx.
  pose proof (dval_le ds (a * 10 + (nb x - 48))) as M.
  rewrite u32_small by lia. apply IH; assumption.
Qed.

Lemma p_interval_dec n rest t c : n < 4294967296 ->
  p_interval (dec n ++ rest) t 0 c = p_interval rest t n c.
Proof.
  intros Hn. assert (n < 1000000000000) as Hn' by lia.
  destruct (Cidr.dec_spec n Hn') as (_ & A & _ & _). pose proof (Cidr.dec_value n Hn') as V.
  rewrite p_interval_digits; [rewrite V; reflexivity|exact A|rewrite V; exact Hn].
Qed.

Lemma unit_mult_nodigit u m : unit_mult u = Some m -> isdigit u = false.
Proof.
  unfold unit_mult, isdigit. set (k := nb u). clearbody k. intros H.
  destruct (N.eqb_spec k 100); [subst; reflexivity|]. destruct (N.eqb_spec k 104); [subst; reflexivity|].
  destruct (N.eqb_spec k 109); [subst; reflexivity|]. destruct (N.eqb_spec k 115); [subst; reflexivity|].
  destruct (N.eqb_spec k 121); [subst; reflexivity|]. discriminate.
Qed.

(* the unit letters, by name *)
Lemma unit_mult_table u m : unit_mult u = Some m <->
  (nb u = 115 /\ m = 1) \/ (nb u = 109 /\ m = 60) \/ (nb u = 104 /\ m = 3600) \/ (nb u = 100 /\ m = 86400) \/ (nb u = 121 /\ m = 31536000).
Proof.
  unfold unit_mult. set (k := nb u). clearbody k.
  destruct (N.eqb_spec k 100); [subst; split; [intros H; inversion H; tauto|intros H; f_equal; lia]|].
  destruct (N.eqb_spec k 104); [subst; split; [intros H; inversion H; tauto|intros H; f_equal; lia]|].
  destruct (N.eqb_spec k 109); [subst; split; [intros H; inversion H; tauto|intros H; f_equal; lia]|].
  destruct (N.eqb_spec k 115); [subst; split; [intros H; inversion H; tauto|intros H; f_equal; lia]|].
  destruct (N.eqb_spec k 121); [subst; split; [intros H; inversion H; tauto|intros H; f_equal; lia]|].
  split; [discriminate|lia].
Qed.

(* one component  <number><unit letter> *)
Lemma p_interval_component n u m rest t c : n < 4294967296 -> unit_mult u = Some m ->
  p_interval (dec n ++ u :: rest) t 0 c = p_interval rest (u32 (t + n * m)) 0 c.
Proof.
  intros Hn Hu. rewrite p_interval_dec by exact Hn. cbn [p_interval].
  rewrite (unit_mult_nodigit u m Hu), Hu. reflexivity.
Qed.

(* component lists, their text and their exact value *)
Definition imult (u : byte) : N := match unit_mult u with Some m => m | None => 0 end.
Definition ok_icomp (nu : N * byte) : Prop := fst nu < 4294967296 /\ unit_mult (snd nu) <> None.
Definition render (comps : list (N * byte)) : str := flat_map (fun nu => dec (fst nu) ++ [snd nu]) comps.
Fixpoint isum (comps : list (N * byte)) : N := match comps with [] => 0 | nu :: r => fst nu * imult (snd nu) + isum r end.

Theorem interval_components_gen comps : forall rest total colon, Forall ok_icomp comps ->
  p_interval (render comps ++ rest) total 0 colon = p_interval rest (u32 (total + isum comps)) 0 colon.
Proof.
  induction comps as [|[n u] comps IH]; intros rest total colon H.
  - cbn [render flat_map app isum]. rewrite N.add_0_r, p_interval_total_mod. reflexivity.
  - inversion H as [|? ? [Hn Hu] Hr]; subst. cbn [fst snd] in Hn, Hu.
    destruct (unit_mult u) as [m|] eqn:Eu; [|congruence].
    cbn [render flat_map isum fst snd]. fold (render comps). unfold imult. rewrite Eu.
    rewrite <- !app_assoc. cbn [app]. rewrite (p_interval_component n u m _ total colon Hn Eu).
    rewrite IH by exact Hr. rewrite u32_idem_l, N.add_assoc. reflexivity.
Qed.

Theorem interval_is_sum_of_components comps : Forall ok_icomp comps ->
  p_interval (render comps) 0 0 0 = (Z.of_N (u32 (isum comps)), true).
Proof.
  intros H. rewrite <- (app_nil_r (render comps)), interval_components_gen by exact H.
  cbn [p_interval]. u32n. reflexivity.
Qed.

(* ... followed by a bare number of seconds *)
Theorem interval_is_sum_of_components_trailing comps k : Forall ok_icomp comps -> k < 4294967296 ->
  p_interval (render comps ++ dec k) 0 0 0 = (Z.of_N (u32 (isum comps + k)), true).
Proof.
  intros H Hk. rewrite interval_components_gen by exact H.
  rewrite <- (app_nil_r (dec k)), p_interval_dec by exact Hk.
  cbn [p_interval]. u32n. reflexivity.
Qed.

(* when the exact sum fits, no reduction at all *)
Corollary interval_is_sum_exact comps k : Forall ok_icomp comps -> k < 4294967296 -> isum comps + k < 4294967296 ->
  p_interval (render comps ++ dec k) 0 0 0 = (Z.of_N (isum comps + k), true).
Proof. intros H Hk Hs. rewrite interval_is_sum_of_components_trailing, u32_small by assumption. reflexivity. Qed.

Example interval_example : p_interval (S_ "1d2h3m4s") 0 0 0 = (93784%Z, true) /\ p_interval (S_ "1h30") 0 0 0 = (3630%Z, true).
Proof. split; vm_compute; reflexivity. Qed.

(* colon forms.  The FIRST colon multiplies what precedes it by 3600 and the SECOND by 60, whatever follows:
   "a:b" is a hours + b SECONDS, "a:b:c" is a hours + b minutes + c seconds. *)
Lemma p_interval_colon0 n rest t : n < 4294967296 ->
  p_interval (dec n ++ COLON :: rest) t 0 0 = p_interval rest (u32 (t + n * 3600)) 0 1.
Proof. intros Hn. rewrite p_interval_dec by exact Hn. reflexivity. Qed.
Lemma p_interval_colon1 n rest t : n < 4294967296 ->
  p_interval (dec n ++ COLON :: rest) t 0 1 = p_interval rest (u32 (t + n * 60)) 0 2.
Proof. intros Hn. rewrite p_interval_dec by exact Hn. reflexivity. Qed.
Lemma p_interval_colon2 n rest t : n < 4294967296 ->
  snd (p_interval (dec n ++ COLON :: rest) t 0 2) = false.
Proof. intros Hn. rewrite p_interval_dec by exact Hn. reflexivity. Qed.

Theorem colon_form_two a b : a < 4294967296 -> b < 4294967296 ->
  p_interval (dec a ++ COLON :: dec b) 0 0 0 = (Z.of_N (u32 (a * 3600 + b)), true).
Proof.
  intros Ha Hb. rewrite p_interval_colon0 by exact Ha.
  rewrite <- (app_nil_r (dec b)), p_interval_dec by exact Hb.
  cbn [p_interval]. u32n. reflexivity.
Qed.

Theorem colon_form_three h m s : h < 4294967296 -> m < 4294967296 -> s < 4294967296 ->
  p_interval (dec h ++ COLON :: dec m ++ COLON :: dec s) 0 0 0 = (Z.of_N (u32 (h * 3600 + m * 60 + s)), true).
Proof.
  intros Hh Hm Hs. rewrite p_interval_colon0 by exact Hh. rewrite p_interval_colon1 by exact Hm.
  rewrite <- (app_nil_r (dec s)), p_interval_dec by exact Hs.
  cbn [p_interval]. u32n. reflexivity.
Qed.

Theorem third_colon_rejected h m s rest : h < 4294967296 -> m < 4294967296 -> s < 4294967296 ->
  snd (p_interval (dec h ++ COLON :: dec m ++ COLON :: dec s ++ COLON :: rest) 0 0 0) = false.
Proof.
  intros Hh Hm Hs. rewrite p_interval_colon0 by exact Hh. rewrite p_interval_colon1 by exact Hm.
  apply p_interval_colon2. exact Hs.
Qed.

Example colon_examples :
  p_interval (S_ "2:3") 0 0 0 = (7203%Z, true) /\ p_interval (S_ "1:02:03") 0 0 0 = (3723%Z, true) /\
  snd (p_interval (S_ "1:2:3:4") 0 0 0) = false.
Proof. repeat split; vm_compute; reflexivity. Qed.

(* unit letters may follow a colon form and conversely (the model does not separate the two syntaxes) *)
Theorem colon_then_components a comps k : a < 4294967296 -> Forall ok_icomp comps -> k < 4294967296 ->
  p_interval (dec a ++ COLON :: render comps ++ dec k) 0 0 0 = (Z.of_N (u32 (a * 3600 + isum comps + k)), true).
Proof.
  intros Ha H Hk. rewrite p_interval_colon0 by exact Ha. rewrite interval_components_gen by exact H.
  rewrite <- (app_nil_r (dec k)), p_interval_dec by exact Hk.
  cbn [p_interval]. u32n. reflexivity.
Qed.

(* rejection: a byte that is neither a digit, nor a unit letter, nor ':' anywhere in the text *)
Definition ibad (x : byte) : Prop := isdigit x = false /\ unit_mult x = None /\ nb x <> 58.

Theorem interval_unknown_unit_rejected v : Exists ibad v -> forall t p c, snd (p_interval v t p c) = false.
Proof.
  induction 1 as [x r (Hd & Hu & Hc)|x r _ IH]; intros t p c; cbn [p_interval].
  - rewrite Hd, Hu. apply N.eqb_neq in Hc. rewrite Hc. reflexivity.
  - destruct (isdigit x); [apply IH|]. destruct (unit_mult x); [apply IH|].
    destruct (nb x =? 58); [|reflexivity].
    destruct (c =? 0); [apply IH|]. destruct (c =? 1); [apply IH|reflexivity].
Qed.
Corollary interval_unknown_unit_rejected_in v x : In x v -> ibad x -> snd (p_interval v 0 0 0) = false.
Proof. intros Hi Hb. apply interval_unknown_unit_rejected. apply Exists_exists. exists x. split; assumption. Qed.

(* and exactly: a text is accepted iff it has no such byte and at most two colons (counted by the state) *)
Fixpoint colons (v : str) : N := match v with [] => 0 | x :: r => (if nb x =? 58 then 1 else 0) + colons r end.
Theorem interval_accepted_iff v : forall t p c, c <= 2 ->
  (snd (p_interval v t p c) = true <-> (~ Exists ibad v /\ c + colons v <= 2)).
Proof.
  induction v as [|x r IH]; intros t p c Hc; cbn [p_interval colons].
  - split; [intros _; split; [intros H; inversion H|lia]|reflexivity].
  - destruct (isdigit x) eqn:Hd.
    + assert (nb x =? 58 = false) as E by (unfold isdigit in Hd; apply N.eqb_neq; intros Q; rewrite Q in Hd; discriminate).
      rewrite E, IH by exact Hc. rewrite N.add_0_l. split; intros [A B]; (split; [|exact B]).
      * intros Q. inversion Q as [? ? (Q1 & _)|? ? Q1]; subst; [congruence|tauto].
      * intros Q. apply A. apply Exists_cons_tl. exact Q.
    + destruct (unit_mult x) as [m|] eqn:Hu.
      * assert (nb x =? 58 = false) as E.
        { apply N.eqb_neq. intros Q. unfold unit_mult in Hu. rewrite Q in Hu. discriminate. }
        rewrite E, IH by exact Hc. rewrite N.add_0_l. split; intros [A B]; (split; [|exact B]).
        -- intros Q. inversion Q as [? ? (_ & Q1 & _)|? ? Q1]; subst; [congruence|tauto].
        -- intros Q. apply A. apply Exists_cons_tl. exact Q.
      * destruct (N.eqb_spec (nb x) 58) as [E|E].
        -- assert (forall P : Prop, (~ Exists ibad r /\ P) <-> (~ Exists ibad (x :: r) /\ P)) as K.
           { intros P. split; intros [A B]; (split; [|exact B]).
             - intros Q. inversion Q as [? ? (_ & _ & Q1)|? ? Q1]; subst; [congruence|tauto].
             - intros Q. apply A. apply Exists_cons_tl. exact Q. }
           destruct (N.eqb_spec c 0) as [C0|C0].
           { rewrite IH by lia. rewrite <- K. subst c. split; intros [A B]; (split; [exact A|lia]). }
           destruct (N.eqb_spec c 1) as [C1|C1].
           { rewrite IH by lia. rewrite <- K. subst c. split; intros [A B]; (split; [exact A|lia]). }
           cbn [snd]. split; [discriminate|]. intros [_ B]. lia.
        -- cbn [snd]. split; [discriminate|]. intros [A _]. exfalso. apply A. apply Exists_cons_hd.
           split; [exact Hd|]. split; [exact Hu|exact E].
Qed.

(* ================= 3. volumes ================= *)
Lemma p_volume_total_mod v : forall t p, p_volume v (u32 t) p = p_volume v t p.
Proof.
  induction v as [|x r IH]; intros t p; cbn [p_volume].
  - rewrite u32_idem_l. reflexivity.
  - destruct (isdigit x); [apply IH|].
    destruct (vol_shift x) as [m|]; rewrite u32_idem_l; reflexivity.
Qed.

Lemma p_volume_digits ds : forall rest t a, alld ds -> dval a ds < 4294967296 ->
  p_volume (ds ++ rest) t a = p_volume rest t (dval a ds).
Proof.
  induction ds as [|x ds IH]; intros rest t a Hd Hv; [reflexivity|].
  apply alld_cons in Hd. destruct Hd as [Hx Hd]. rewrite dval_cons in Hv |- *.
  cbn [app p_volume]. rewrite Hx.
  pose proof (dval_le ds (a * 10 + (nb x - 48))) as M.
  rewrite u32_small by lia. apply IH; assumption.
Qed.

Lemma p_volume_dec n rest t : n < 4294967296 -> p_volume (dec n ++ rest) t 0 = p_volume rest t n.
Proof.
  intros Hn. assert (n < 1000000000000) as Hn' by lia.
  destruct (Cidr.dec_spec n Hn') as (_ & A & _ & _). pose proof (Cidr.dec_value n Hn') as V.
  rewrite p_volume_digits; [rewrite V; reflexivity|exact A|rewrite V; exact Hn].
Qed.

Lemma vol_shift_table u m : vol_shift u = Some m <->
  ((nb u = 66 \/ nb u = 98) /\ m = 1) \/ ((nb u = 75 \/ nb u = 107) /\ m = 1024) \/
  ((nb u = 77 \/ nb u = 109) /\ m = 1048576) \/ ((nb u = 71 \/ nb u = 103) /\ m = 1073741824).
Proof.
  unfold vol_shift. set (k := nb u). clearbody k. cbv zeta.
  destruct (N.eqb_spec k 66); [subst; cbn [orb]; split; [intros H; inversion H; tauto|intros H; f_equal; lia]|].
  destruct (N.eqb_spec k 98); [subst; cbn [orb]; split; [intros H; inversion H; tauto|intros H; f_equal; lia]|].
  destruct (N.eqb_spec k 71); [subst; cbn [orb]; split; [intros H; inversion H; tauto|intros H; f_equal; lia]|].
  destruct (N.eqb_spec k 103); [subst; cbn [orb]; split; [intros H; inversion H; tauto|intros H; f_equal; lia]|].
  destruct (N.eqb_spec k 75); [subst; cbn [orb]; split; [intros H; inversion H; tauto|intros H; f_equal; lia]|].
  destruct (N.eqb_spec k 107); [subst; cbn [orb]; split; [intros H; inversion H; tauto|intros H; f_equal; lia]|].
  destruct (N.eqb_spec k 77); [subst; cbn [orb]; split; [intros H; inversion H; tauto|intros H; f_equal; lia]|].
  destruct (N.eqb_spec k 109); [subst; cbn [orb]; split; [intros H; inversion H; tauto|intros H; f_equal; lia]|].
  cbn [orb]. split; [discriminate|lia].
Qed.

Lemma vol_shift_nodigit u m : vol_shift u = Some m -> isdigit u = false.
Proof.
  intros H. apply vol_shift_table in H. unfold isdigit.
  destruct H as [[[H|H] _]|[[[H|H] _]|[[[H|H] _]|[[H|H] _]]]]; rewrite H; reflexivity.
Qed.

Lemma p_volume_component n u m rest t : n < 4294967296 -> vol_shift u = Some m ->
  p_volume (dec n ++ u :: rest) t 0 = p_volume rest (u32 (t + n * m)) 0.
Proof.
  intros Hn Hu. rewrite p_volume_dec by exact Hn. cbn [p_volume].
  rewrite (vol_shift_nodigit u m Hu), Hu. reflexivity.
Qed.

Definition vmult (u : byte) : N := match vol_shift u with Some m => m | None => 0 end.
Definition ok_vcomp (nu : N * byte) : Prop := fst nu < 4294967296 /\ vol_shift (snd nu) <> None.
Fixpoint vsum (comps : list (N * byte)) : N := match comps with [] => 0 | nu :: r => fst nu * vmult (snd nu) + vsum r end.

Theorem volume_components_gen comps : forall rest total, Forall ok_vcomp comps ->
  p_volume (render comps ++ rest) total 0 = p_volume rest (u32 (total + vsum comps)) 0.
Proof.
  induction comps as [|[n u] comps IH]; intros rest total H.
  - cbn [render flat_map app vsum]. rewrite N.add_0_r, p_volume_total_mod. reflexivity.
  - inversion H as [|? ? [Hn Hu] Hr]; subst. cbn [fst snd] in Hn, Hu.
    destruct (vol_shift u) as [m|] eqn:Eu; [|congruence].
    cbn [render flat_map vsum fst snd]. fold (render comps). unfold vmult. rewrite Eu.
    rewrite <- !app_assoc. cbn [app]. rewrite (p_volume_component n u m _ total Hn Eu).
    rewrite IH by exact Hr. rewrite u32_idem_l, N.add_assoc. reflexivity.
Qed.

Theorem volume_is_sum_of_components comps : Forall ok_vcomp comps ->
  p_volume (render comps) 0 0 = (Z.of_N (u32 (vsum comps)), true).
Proof.
  intros H. rewrite <- (app_nil_r (render comps)), volume_components_gen by exact H.
  cbn [p_volume]. u32n. reflexivity.
Qed.

(* ... followed by a bare number of bytes *)
Theorem volume_is_sum_of_components_trailing comps k : Forall ok_vcomp comps -> k < 4294967296 ->
  p_volume (render comps ++ dec k) 0 0 = (Z.of_N (u32 (vsum comps + k)), true).
Proof.
  intros H Hk. rewrite volume_components_gen by exact H.
  rewrite <- (app_nil_r (dec k)), p_volume_dec by exact Hk.
  cbn [p_volume]. u32n. reflexivity.
Qed.

Corollary volume_is_sum_exact comps k : Forall ok_vcomp comps -> k < 4294967296 -> vsum comps + k < 4294967296 ->
  p_volume (render comps ++ dec k) 0 0 = (Z.of_N (vsum comps + k), true).
Proof. intros H Hk Hs. rewrite volume_is_sum_of_components_trailing, u32_small by assumption. reflexivity. Qed.

Example volume_example :
  p_volume (S_ "1g2m3k4b") 0 0 = (1075842052%Z, true) /\ p_volume (S_ "1K512") 0 0 = (1536%Z, true) /\
  p_volume (S_ "4G") 0 0 = (0%Z, true)   (* 2^32 wraps: what the model (and the C code on 32-bit unsigned) does *).
Proof. repeat split; vm_compute; reflexivity. Qed.

Definition vbad (x : byte) : Prop := isdigit x = false /\ vol_shift x = None.

Theorem volume_unknown_unit_rejected v : Exists vbad v -> forall t p, snd (p_volume v t p) = false.
Proof.
  induction 1 as [x r (Hd & Hu)|x r _ IH]; intros t p; cbn [p_volume].
  - rewrite Hd, Hu. reflexivity.
  - destruct (isdigit x); [apply IH|]. destruct (vol_shift x); [apply IH|reflexivity].
Qed.
Corollary volume_unknown_unit_rejected_in v x : In x v -> vbad x -> snd (p_volume v 0 0) = false.
Proof. intros Hi Hb. apply volume_unknown_unit_rejected. apply Exists_exists. exists x. split; assumption. Qed.

Theorem volume_accepted_iff v : forall t p, snd (p_volume v t p) = true <-> ~ Exists vbad v.
Proof.
  induction v as [|x r IH]; intros t p; cbn [p_volume].
  - split; [intros _ H; inversion H|reflexivity].
  - destruct (isdigit x) eqn:Hd.
    + rewrite IH. split; intros A Q.
      * inversion Q as [? ? (Q1 & _)|? ? Q1]; subst; [congruence|tauto].
      * apply A. apply Exists_cons_tl. exact Q.
    + destruct (vol_shift x) as [m|] eqn:Hu.
      * rewrite IH. split; intros A Q.
        -- inversion Q as [? ? (_ & Q1)|? ? Q1]; subst; [congruence|tauto].
        -- apply A. apply Exists_cons_tl. exact Q.
      * cbn [snd]. split; [discriminate|]. intros A. exfalso. apply A. apply Exists_cons_hd. split; assumption.
Qed.

(* ================= 4. integers ================= *)
Lemma decs_head_nz f : forall n acc, 0 < n -> n < Cidr.p10 (S f) ->
  exists c r, AddrFull.decs (S f) n acc = c :: r /\ nb c <> 48.
Proof.
  induction f as [|f IH]; intros n acc H0 Hn.
  - cbn [Cidr.p10] in Hn. assert (n / 10 = 0) as Q by (apply N.div_small; lia).
    assert (n mod 10 = n) as M by (apply N.mod_small; lia).
    cbn [AddrFull.decs]. rewrite Q, M. cbn [N.eqb].
    exists (AddrFull.byte_of (48 + n)), acc. split; [reflexivity|].
    rewrite nb_bridge, Cidr.nb_byte_of by lia. lia.
  - change (AddrFull.decs (S (S f)) n acc) with
      (let acc' := AddrFull.byte_of (48 + n mod 10) :: acc in if n / 10 =? 0 then acc' else AddrFull.decs (S f) (n / 10) acc').
    cbv zeta. destruct (N.eqb_spec (n / 10) 0) as [Zq|NZ].
    + exists (AddrFull.byte_of (48 + n mod 10)), acc. split; [reflexivity|].
      pose proof (N.mod_lt n 10 ltac:(discriminate)) as L.
      rewrite nb_bridge, Cidr.nb_byte_of by lia. lia.
    + apply IH; [lia|].
      change (Cidr.p10 (S (S f))) with (10 * Cidr.p10 (S f)) in Hn. set (P := Cidr.p10 (S f)) in *. clearbody P. lia.
Qed.

Lemma dec_head_nz n : 0 < n -> n < 1000000000000 ->
  exists c r, dec n = c :: r /\ isdigit c = true /\ nb c <> 48.
Proof.
  intros H0 Hn. destruct (decs_head_nz 11 n [] H0 Hn) as (c & r & E & Hc).
  exists c, r. split; [exact E|]. split; [|exact Hc].
  destruct (Cidr.dec_spec n Hn) as (_ & A & _ & _). unfold AddrFull.dec in A. rewrite E in A. apply alld_cons in A. tauto.
Qed.

Lemma rd10_digits ds : forall rest a k, alld ds -> dval a ds < 18446744073709551616 ->
  rd 10 (ds ++ rest) a k = rd 10 rest (dval a ds) (k + List.length ds)%nat.
Proof.
  induction ds as [|x ds IH]; intros rest a k Hd Hv.
  - cbn [app List.length]. rewrite Nat.add_0_r. reflexivity.
  - apply alld_cons in Hd. destruct Hd as [Hx Hd]. rewrite dval_cons in Hv |- *.
    pose proof (dval_le ds (a * 10 + (nb x - 48))) as M.
    cbn [app rd]. unfold hexv. rewrite Hx.
    assert (nb x - 48 <? 10 = true) as L.
    { unfold isdigit in Hx. apply andb_true_iff in Hx. destruct Hx as [H1 H2]. apply N.leb_le in H1, H2. apply N.ltb_lt. lia. }
    rewrite L. rewrite N.min_l by lia. rewrite IH by assumption. cbn [List.length]. f_equal. lia.
Qed.

Lemma rd10_stop c rest a k : isdigit c = false -> rd 10 (c :: rest) a k = (a, c :: rest, k).
Proof.
  intros Hd. cbn [rd]. unfold hexv. rewrite Hd.
  destruct ((97 <=? nb c) && (nb c <=? 102)) eqn:E1.
  - apply andb_true_iff in E1. destruct E1 as [H1 H2]. apply N.leb_le in H1, H2.
    assert (nb c - 87 <? 10 = false) as L by (apply N.ltb_ge; lia). rewrite L. reflexivity.
  - destruct ((65 <=? nb c) && (nb c <=? 70)) eqn:E2; [|reflexivity].
    apply andb_true_iff in E2. destruct E2 as [H1 H2]. apply N.leb_le in H1, H2.
    assert (nb c - 55 <? 10 = false) as L by (apply N.ltb_ge; lia). rewrite L. reflexivity.
Qed.

Definition finish (neg : bool) (r : N * str * nat) : Z * bool :=
  let '(val, rest, nd) := r in
  match nd with
  | O => (0%Z, false)
  | _ => match rest with
         | [] => (to_i32 (if neg then (18446744073709551616 - val) mod 18446744073709551616 else val), true)
         | _ => (0%Z, false)
         end
  end.

Lemma digit_facts c : isdigit c = true -> isspace c = false /\ (nb c =? 45) = false /\ (nb c =? 43) = false.
Proof.
  unfold isdigit, isspace. set (k := nb c). clearbody k. intros H.
  apply andb_true_iff in H. destruct H as [H1 H2]. apply N.leb_le in H1, H2.
  repeat split.
  - apply orb_false_iff. split; [apply andb_false_iff; right; apply N.leb_gt; lia|apply N.eqb_neq; lia].
  - apply N.eqb_neq; lia.
  - apply N.eqb_neq; lia.
Qed.

(* a text that starts with a non-zero digit takes the decimal path *)
Lemma p_integer_pos c0 r0 : isdigit c0 = true -> nb c0 <> 48 ->
  p_integer (c0 :: r0) = finish false (rd 10 (c0 :: r0) 0 0).
Proof.
  intros Hd Hz. destruct (digit_facts c0 Hd) as (Hs & H45 & H43). apply N.eqb_neq in Hz.
  unfold p_integer. cbn [skipsp]. rewrite Hs, H45, H43.
  destruct r0 as [|c1 [|c2 r]]; rewrite ?Hz; cbn [andb];
    match goal with |- context [rd 10 ?s 0 0] => destruct (rd 10 s 0 0) as [[val rest] nd] end;
    destruct nd; reflexivity.
Qed.

Lemma rd10_dec n rest : n < 1000000000000 -> rd 10 (dec n ++ rest) 0 0 = rd 10 rest n (List.length (dec n)).
Proof.
  intros Hn. destruct (Cidr.dec_spec n Hn) as (_ & A & _ & _). pose proof (Cidr.dec_value n Hn) as V.
  rewrite rd10_digits; [rewrite V; reflexivity|exact A|rewrite V; lia].
Qed.

Lemma to_i32_small n : n < 2147483648 -> to_i32 n = Z.of_N n.
Proof.
  intros H. unfold to_i32. rewrite u32_small by lia. cbv zeta.
  assert (n <? 2147483648 = true) as L by (apply N.ltb_lt; exact H). rewrite L. reflexivity.
Qed.
Lemma to_i32_wrap n : 2147483648 <= n -> n < 4294967296 -> to_i32 n = (Z.of_N n - 4294967296)%Z.
Proof.
  intros H1 H2. unfold to_i32. rewrite u32_small by lia. cbv zeta.
  assert (n <? 2147483648 = false) as L by (apply N.ltb_ge; exact H1). rewrite L. reflexivity.
Qed.
Lemma to_i32_neg n : 0 < n -> n <= 2147483648 ->
  to_i32 ((18446744073709551616 - n) mod 18446744073709551616) = (- Z.of_N n)%Z.
Proof.
  intros H0 H1. rewrite N.mod_small by lia. unfold to_i32.
  assert (u32 (18446744073709551616 - n) = 4294967296 - n) as E.
  { unfold u32. symmetry. apply (N.mod_unique _ _ 4294967295); lia. }
  rewrite E. cbv zeta.
  assert (4294967296 - n <? 2147483648 = false) as L by (apply N.ltb_ge; lia). rewrite L. lia.
Qed.

(* the general form: a decimal text without sign is read exactly and cast to int *)
Theorem integer_decimal_gen n : 0 < n -> n < 1000000000000 -> p_integer (dec n) = (to_i32 n, true).
Proof.
  intros H0 Hn. destruct (dec_head_nz n H0 Hn) as (c & r & E & Hd & Hz).
  assert (p_integer (dec n) = finish false (rd 10 (dec n) 0 0)) as P by (rewrite E; apply p_integer_pos; assumption).
  rewrite P. rewrite <- (app_nil_r (dec n)) at 1. rewrite rd10_dec by exact Hn.
  rewrite E. reflexivity.
Qed.

Theorem integer_decimal n : n < 2147483648 -> p_integer (dec n) = (Z.of_N n, true).
Proof.
  intros Hn. destruct (N.eq_dec n 0) as [Z0|NZ].
  - subst n. vm_compute. reflexivity.   (* "0": the octal path, one digit, value 0 *)
  - rewrite integer_decimal_gen by lia. rewrite to_i32_small by exact Hn. reflexivity.
Qed.

(* 2^31 .. 2^32-1 wrap to negative values: the cast to int *)
Theorem integer_decimal_wraps n : 2147483648 <= n -> n < 4294967296 ->
  p_integer (dec n) = ((Z.of_N n - 4294967296)%Z, true).
Proof. intros H1 H2. rewrite integer_decimal_gen by lia. rewrite to_i32_wrap by assumption. reflexivity. Qed.

Definition MINUS : byte := x2d.
Definition PLUS : byte := x2b.

Lemma p_integer_signed (sg : bool) c0 r0 : isdigit c0 = true -> nb c0 <> 48 ->
  p_integer ((if sg then MINUS else PLUS) :: c0 :: r0) = finish sg (rd 10 (c0 :: r0) 0 0).
Proof.
  intros Hd Hz. apply N.eqb_neq in Hz.
  unfold p_integer. cbn [skipsp].
  destruct sg.
  - change (isspace MINUS) with false. cbv iota. change (nb MINUS =? 45) with true. cbv iota.
    destruct r0 as [|c1 [|c2 r]]; rewrite ?Hz; cbn [andb];
      match goal with |- context [rd 10 ?s 0 0] => destruct (rd 10 s 0 0) as [[val rest] nd] end;
      destruct nd; reflexivity.
  - change (isspace PLUS) with false. cbv iota. change (nb PLUS =? 45) with false. change (nb PLUS =? 43) with true. cbv iota.
    destruct r0 as [|c1 [|c2 r]]; rewrite ?Hz; cbn [andb];
      match goal with |- context [rd 10 ?s 0 0] => destruct (rd 10 s 0 0) as [[val rest] nd] end;
      destruct nd; reflexivity.
Qed.

Theorem integer_negative n : 0 < n -> n <= 2147483648 -> p_integer (MINUS :: dec n) = ((- Z.of_N n)%Z, true).
Proof.
  intros H0 H1. assert (n < 1000000000000) as Hn by lia.
  destruct (dec_head_nz n H0 Hn) as (c & r & E & Hd & Hz).
  assert (p_integer (MINUS :: dec n) = finish true (rd 10 (dec n) 0 0)) as P
    by (rewrite E; apply (p_integer_signed true); assumption).
  rewrite P. rewrite <- (app_nil_r (dec n)) at 1. rewrite rd10_dec by exact Hn.
  rewrite E. cbn [List.length rd finish]. rewrite to_i32_neg by assumption. reflexivity.
Qed.

Theorem integer_plus n : 0 < n -> n < 2147483648 -> p_integer (PLUS :: dec n) = (Z.of_N n, true).
Proof.
  intros H0 H1. assert (n < 1000000000000) as Hn by lia.
  destruct (dec_head_nz n H0 Hn) as (c & r & E & Hd & Hz).
  assert (p_integer (PLUS :: dec n) = finish false (rd 10 (dec n) 0 0)) as P
    by (rewrite E; apply (p_integer_signed false); assumption).
  rewrite P. rewrite <- (app_nil_r (dec n)) at 1. rewrite rd10_dec by exact Hn.
  rewrite E. cbn [List.length rd finish]. rewrite to_i32_small by assumption. reflexivity.
Qed.

Example integer_hex_example : p_integer (S_ "0x1f") = (31%Z, true) /\ p_integer (S_ "0X1F") = (31%Z, true).
Proof. split; vm_compute; reflexivity. Qed.
Example integer_octal_example : p_integer (S_ "010") = (8%Z, true) /\ p_integer (S_ "0") = (0%Z, true) /\ p_integer (S_ "-0") = (0%Z, true).
Proof. repeat split; vm_compute; reflexivity. Qed.
Example integer_misc_examples :
  p_integer (S_ " 42") = (42%Z, true) /\              (* leading white space is skipped *)
  p_integer (S_ "42 ") = (0%Z, false) /\              (* trailing white space is junk *)
  p_integer (S_ "08") = (0%Z, false) /\               (* 8 is not an octal digit *)
  p_integer (S_ "0x") = (0%Z, false) /\               (* "0" then junk "x" *)
  p_integer (S_ "abc") = (0%Z, false) /\ p_integer (S_ "-") = (0%Z, false) /\
  p_integer [] = (0%Z, true) /\                       (* the empty text is accepted as 0 (eov == value, *eov == 0) *)
  p_integer (S_ "4294967295") = ((-1)%Z, true) /\ p_integer (S_ "4294967296") = (0%Z, true).   (* cast to int *)
Proof. repeat split; vm_compute; reflexivity. Qed.

(* junk after a decimal number: any byte that is not a decimal digit (hexadecimal letters included, the base is 10) *)
Theorem integer_junk_rejected n c rest : 0 < n -> n < 1000000000000 -> isdigit c = false ->
  p_integer (dec n ++ c :: rest) = (0%Z, false).
Proof.
  intros H0 Hn Hc. destruct (dec_head_nz n H0 Hn) as (c0 & r & E & Hd & Hz).
  assert (p_integer (dec n ++ c :: rest) = finish false (rd 10 (dec n ++ c :: rest) 0 0)) as P
    by (rewrite E; cbn [app]; apply p_integer_pos; assumption).
  rewrite P, rd10_dec by exact Hn. rewrite rd10_stop by exact Hc.
  rewrite E. reflexivity.
Qed.
Corollary integer_junk_rejected_hexv n c rest : 0 < n -> n < 1000000000000 -> hexv c = None ->
  p_integer (dec n ++ c :: rest) = (0%Z, false).
Proof.
  intros H0 Hn Hc. apply integer_junk_rejected; try assumption.
  unfold hexv in Hc. destruct (isdigit c); [discriminate|reflexivity].
Qed.
(* the same after a sign *)
Theorem integer_signed_junk_rejected (sg : bool) n c rest : 0 < n -> n < 1000000000000 -> isdigit c = false ->
  p_integer ((if sg then MINUS else PLUS) :: dec n ++ c :: rest) = (0%Z, false).
Proof.
  intros H0 Hn Hc. destruct (dec_head_nz n H0 Hn) as (c0 & r & E & Hd & Hz).
  assert (p_integer ((if sg then MINUS else PLUS) :: dec n ++ c :: rest) = finish sg (rd 10 (dec n ++ c :: rest) 0 0)) as P
    by (rewrite E; cbn [app]; apply p_integer_signed; assumption).
  rewrite P, rd10_dec by exact Hn. rewrite rd10_stop by exact Hc.
  rewrite E. reflexivity.
Qed.
(* "0" followed by junk (other than x / X, which may start a hexadecimal number) *)
Theorem integer_zero_junk_rejected c rest : isdigit c = false -> nb c <> 120 -> nb c <> 88 ->
  p_integer (x30 :: c :: rest) = (0%Z, false).
Proof.
  intros Hc H1 H2. apply N.eqb_neq in H1, H2.
  assert (hexv c = None \/ exists d, hexv c = Some d /\ d <? 8 = false) as Hh.
  { unfold hexv. rewrite Hc.
    destruct ((97 <=? nb c) && (nb c <=? 102)) eqn:E1.
    - right. exists (nb c - 87). split; [reflexivity|]. apply andb_true_iff in E1. destruct E1 as [A B]. apply N.leb_le in A, B. apply N.ltb_ge. lia.
    - destruct ((65 <=? nb c) && (nb c <=? 70)) eqn:E2; [|left; reflexivity].
      right. exists (nb c - 55). split; [reflexivity|]. apply andb_true_iff in E2. destruct E2 as [A B]. apply N.leb_le in A, B. apply N.ltb_ge. lia. }
  unfold p_integer. cbn [skipsp]. change (isspace x30) with false. cbv iota. change (nb x30 =? 45) with false.
  change (nb x30 =? 43) with false. change (nb x30 =? 48) with true. cbv iota.
  destruct rest as [|c2 r]; rewrite ?H1, ?H2; cbn [andb orb rd];
    (destruct Hh as [Hh|(d & Hh & Hd)]; rewrite Hh; [|rewrite Hd]; reflexivity).
Qed.

(* ================= 5. what ConfMerge.parse_value uses ================= *)
Theorem typed_is v :
  typed 1 v = p_bool v /\ typed 2 v = p_integer v /\ typed 4 v = p_interval v 0 0 0 /\ typed 8 v = p_volume v 0 0.
Proof. repeat split; reflexivity. Qed.
Lemma typed_other sub v : sub <> 1 -> sub <> 2 -> sub <> 4 -> typed sub v = p_volume v 0 0.
Proof.
  intros H1 H2 H4. unfold typed. apply N.eqb_neq in H1, H2, H4. rewrite H1, H2, H4. reflexivity.
Qed.

(* the statements of sections 1-4 at the level of `typed` *)
Theorem typed_bool v :
  (typed 1 v = (1%Z, true) <-> In v [S_ "1"; S_ "true"; S_ "on"; S_ "enabled"; S_ "yes"]) /\
  (typed 1 v = (0%Z, true) <-> In v [S_ "0"; S_ "false"; S_ "off"; S_ "disabled"; S_ "no"]) /\
  (~ In v [S_ "1"; S_ "true"; S_ "on"; S_ "enabled"; S_ "yes"; S_ "0"; S_ "false"; S_ "off"; S_ "disabled"; S_ "no"] ->
   snd (typed 1 v) = false).
Proof.
  change (typed 1 v) with (p_bool v).
  split; [apply p_bool_true_iff|]. split; [apply p_bool_false_iff|apply p_bool_rejects_snd].
Qed.
Theorem typed_integer n :
  (n < 2147483648 -> typed 2 (dec n) = (Z.of_N n, true)) /\
  (0 < n -> n <= 2147483648 -> typed 2 (MINUS :: dec n) = ((- Z.of_N n)%Z, true)) /\
  (forall c rest, 0 < n -> n < 1000000000000 -> isdigit c = false -> snd (typed 2 (dec n ++ c :: rest)) = false).
Proof.
  split; [apply integer_decimal|]. split; [apply integer_negative|].
  intros c rest H0 Hn Hc. change (typed 2 (dec n ++ c :: rest)) with (p_integer (dec n ++ c :: rest)).
  rewrite integer_junk_rejected by assumption. reflexivity.
Qed.
Theorem typed_interval comps k : Forall ok_icomp comps -> k < 4294967296 ->
  typed 4 (render comps) = (Z.of_N (u32 (isum comps)), true) /\
  typed 4 (render comps ++ dec k) = (Z.of_N (u32 (isum comps + k)), true).
Proof.
  intros H Hk. split; [apply interval_is_sum_of_components; exact H|apply interval_is_sum_of_components_trailing; assumption].
Qed.
Theorem typed_interval_rejects v : Exists ibad v -> snd (typed 4 v) = false.
Proof. intros H. apply (interval_unknown_unit_rejected v H). Qed.
Theorem typed_volume comps k : Forall ok_vcomp comps -> k < 4294967296 ->
  typed 8 (render comps) = (Z.of_N (u32 (vsum comps)), true) /\
  typed 8 (render comps ++ dec k) = (Z.of_N (u32 (vsum comps + k)), true).
Proof.
  intros H Hk. split; [apply volume_is_sum_of_components; exact H|apply volume_is_sum_of_components_trailing; assumption].
Qed.
Theorem typed_volume_rejects v : Exists vbad v -> snd (typed 8 v) = false.
Proof. intros H. apply (volume_unknown_unit_rejected v H). Qed.

(* and at the level of parse_value: a rejected text leaves the parsed value alone and notifies nobody (the text itself
   is kept); an accepted text that differs from the stored value is delivered with one notification if hooked *)
Theorem parse_value_rejected hook path dflt v sub parsed had : sub <> 0 -> snd (typed sub v) = false ->
  parse_value hook path dflt (Some v) sub parsed had = (Some v, parsed, []).
Proof.
  intros Hs Hr. unfold parse_value. apply N.eqb_neq in Hs. rewrite Hs.
  destruct (typed sub v) as [z ok]. cbn [snd] in Hr. subst ok. reflexivity.
Qed.
Theorem parse_value_delivered hook path dflt v sub parsed had z : sub <> 0 -> typed sub v = (z, true) ->
  parsed <> PInt z -> (parsed = PNone -> z <> 0%Z) -> (forall s, parsed <> PStr s) ->
  parse_value hook path dflt (Some v) sub parsed had = (Some v, PInt z, if hook then [(0, path)] else []).
Proof.
  intros Hs Ht Hp Hn Hstr. unfold parse_value. apply N.eqb_neq in Hs. rewrite Hs, Ht.
  destruct parsed as [|s|c].
  - assert ((z =? 0)%Z = false) as E by (apply Z.eqb_neq; apply Hn; reflexivity). rewrite E. reflexivity.
  - exfalso. apply (Hstr s). reflexivity.
  - assert ((c =? z)%Z = false) as E by (apply Z.eqb_neq; intros Q; apply Hp; subst; reflexivity). rewrite E. reflexivity.
Qed.
Theorem parse_value_same hook path dflt v sub had z : sub <> 0 -> typed sub v = (z, true) ->
  parse_value hook path dflt (Some v) sub (PInt z) had = (Some v, PInt z, []).
Proof.
  intros Hs Ht. unfold parse_value. apply N.eqb_neq in Hs. rewrite Hs, Ht. rewrite Z.eqb_refl. reflexivity.
Qed.

(* ================= assumptions ================= *)
