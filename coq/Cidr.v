(* C13: every CIDR text (a.b.c.d/n, x:y:.../n, x:y::z/n) and every wild card text ('a.b.*', 'x:y:*', '*' alone) yields the documented
   prefix length and network bits, for ALL component values.  The parser is the executable model of AddrFull.v
   (irc_pton, irc_pton_ip4), unchanged.  The proofs are a symbolic execution: each lemma consumes one token (a run of
   digits, a separator, a terminator) over a generalised parser state and leaves the continuation abstract; fuel is
   handled once and for all by stating the lemmas in continuation form ("for every fuel that covers the rest"). *)
From Coq Require Import List NArith Bool Strings.Byte Lia Arith.
Import ListNotations.
Require Import AddrFull AddrV4.
Local Open Scope N_scope.

Definition slash : byte := x2f.
Definition star : byte := x2a.

(* ================= 6. decimal printing and reading ================= *)
Lemma nb_byte_of n : n < 256 -> nb (byte_of n) = n.
Proof.
  intros H. unfold nb, byte_of. destruct (Byte.of_N n) eqn:E.
  - apply Byte.to_of_N. exact E.
  - apply Byte.of_N_None_iff in E. lia.
Qed.

Definition dstep (a : N) (c : byte) : N := a * 10 + (nb c - 48).
Definition dval (a : N) (ds : str) : N := fold_left dstep ds a.
Definition alld (ds : str) : Prop := Forall (fun c => isdigit c = true) ds.
Definition nodig (rest : str) : Prop := match rest with c :: _ => isdigit c = false | [] => True end.
Fixpoint p10 (k : nat) : N := match k with O => 1 | S k' => 10 * p10 k' end.

Lemma dval_mono ds : forall a, a <= dval a ds.
Proof.
  induction ds as [|c ds IH]; intros a; cbn [dval fold_left]; [lia|].
  eapply N.le_trans; [|apply IH]. unfold dstep. lia.
Qed.

Lemma read_dec_digits ds : forall a rest, alld ds -> nodig rest -> dval a ds < 4294967296 ->
  read_dec (ds ++ rest) a = (dval a ds, rest, length ds).
Proof.
  induction ds as [|c ds IH]; intros a rest Hd Hr Hv.
  - cbn [app dval fold_left length]. destruct rest as [|x r]; [reflexivity|].
    cbn [read_dec]. cbn [nodig] in Hr. rewrite Hr. reflexivity.
  - inversion Hd as [|? ? Hc Hds]; subst. cbn [app read_dec]. rewrite Hc.
    cbn [dval fold_left] in Hv |- *. fold (dval (dstep a c) ds) in Hv |- *.
    pose proof (dval_mono ds (dstep a c)) as M.
    unfold u32. fold (dstep a c). rewrite (N.mod_small (dstep a c)) by lia.
    rewrite (IH _ _ Hds Hr Hv). reflexivity.
Qed.

Lemma digit_byte r : r < 10 -> isdigit (byte_of (48 + r)) = true /\ nb (byte_of (48 + r)) - 48 = r.
Proof.
  intros H. unfold isdigit. rewrite (nb_byte_of (48 + r)) by lia. split; [|lia].
  apply andb_true_iff. split; apply N.leb_le; lia.
Qed.

(* the printer: with enough fuel, decs prepends a non-empty digit run whose value is n *)
Lemma decs_spec f : forall n acc, n < p10 (S f) ->
  exists ds, decs (S f) n acc = ds ++ acc /\ ds <> [] /\ alld ds /\ (length ds <= S f)%nat /\
             forall a, dval a ds = a * p10 (length ds) + n.
Proof.
  induction f as [|f IH]; intros n acc Hn.
  - cbn [p10] in Hn. assert (n / 10 = 0) as Q by (apply N.div_small; lia).
    assert (n mod 10 = n) as M by (apply N.mod_small; lia).
    cbn [decs]. rewrite Q, M. cbn [N.eqb]. destruct (digit_byte n ltac:(lia)) as [D V].
    exists [byte_of (48 + n)]. split; [reflexivity|]. split; [discriminate|]. split; [constructor; [exact D|constructor]|].
    split; [cbn [length]; lia|].
    intros a. cbn [dval fold_left length p10]. unfold dstep. rewrite V. lia.
  - pose proof (N.div_mod n 10 ltac:(discriminate)) as E. pose proof (N.mod_lt n 10 ltac:(discriminate)) as L.
    change (decs (S (S f)) n acc) with
      (let acc' := byte_of (48 + n mod 10) :: acc in if n / 10 =? 0 then acc' else decs (S f) (n / 10) acc').
    set (q := n / 10) in *. set (r := n mod 10) in *. clearbody q r. cbv zeta.
    destruct (digit_byte r L) as [D V].
    destruct (N.eqb_spec q 0) as [Z|NZ].
    + exists [byte_of (48 + r)]. split; [reflexivity|]. split; [discriminate|]. split; [constructor; [exact D|constructor]|].
      split; [cbn [length]; lia|].
      intros a. cbn [dval fold_left length p10]. unfold dstep. rewrite V. lia.
    + assert (q < p10 (S f)) as Hq.
      { change (p10 (S (S f))) with (10 * p10 (S f)) in Hn. set (P := p10 (S f)) in *. clearbody P. lia. }
      destruct (IH q (byte_of (48 + r) :: acc) Hq) as (ds & Eds & _ & Ads & Lds & Vds).
      exists (ds ++ [byte_of (48 + r)]). split; [rewrite Eds, <- app_assoc; reflexivity|].
      split; [destruct ds; discriminate|]. split; [apply Forall_app; split; [exact Ads|constructor; [exact D|constructor]]|].
      split; [rewrite app_length; cbn [length]; lia|].
      intros a. unfold dval. rewrite fold_left_app. fold (dval a ds). rewrite Vds.
      cbn [fold_left]. unfold dstep. rewrite V. rewrite app_length. cbn [length]. rewrite Nat.add_1_r.
      change (p10 (S (length ds))) with (10 * p10 (length ds)).
      set (P := p10 (length ds)). clearbody P. set (aP := a * P).
      replace (a * (10 * P)) with (10 * aP) by (unfold aP; ring). clearbody aP. lia.
Qed.

Lemma dec_spec n : n < 1000000000000 ->
  dec n <> [] /\ alld (dec n) /\ (length (dec n) <= 12)%nat /\ forall a, dval a (dec n) = a * p10 (length (dec n)) + n.
Proof.
  intros Hn. destruct (decs_spec 11 n [] Hn) as (ds & E & Ne & A & L & V).
  unfold dec. rewrite E, app_nil_r. auto.
Qed.

Lemma dec_value n : n < 1000000000000 -> dval 0 (dec n) = n.
Proof. intros Hn. destruct (dec_spec n Hn) as (_ & _ & _ & V). rewrite V. lia. Qed.

(* 6: the prefix-length reader inverts the decimal printer, for every 32-bit value *)
Theorem read_dec_dec n rest : n < 4294967296 -> nodig rest ->
  read_dec (dec n ++ rest) 0 = (n, rest, length (dec n)).
Proof.
  intros Hn Hr. assert (n < 1000000000000) as Hn' by lia.
  destruct (dec_spec n Hn') as (_ & A & _ & _).
  rewrite (read_dec_digits (dec n) 0 rest A Hr) by (rewrite (dec_value n Hn'); exact Hn).
  rewrite (dec_value n Hn'). reflexivity.
Qed.

Lemma dec_head n : n < 1000000000000 -> exists c r, dec n = c :: r /\ isdigit c = true.
Proof.
  intros Hn. destruct (dec_spec n Hn) as (Ne & A & _ & _). destruct (dec n) as [|c r]; [congruence|].
  exists c, r. split; [reflexivity|]. inversion A; assumption.
Qed.

(* ================= character facts ================= *)
Ltac fa := repeat match goal with
  | |- Forall _ (_ ++ _) => apply Forall_app; split
  | |- Forall _ (_ :: _) => constructor; [reflexivity|]
  | |- Forall _ [] => constructor
  end.

Lemma alld_not ds n : alld ds -> n < 48 \/ 57 < n -> Forall (fun x => isch x n = false) ds.
Proof. intros A Hn. eapply Forall_impl; [|exact A]. intros x Hx. apply digit_not; assumption. Qed.
Lemma dec_not x n : x < 1000000000000 -> n < 48 \/ 57 < n -> Forall (fun c => isch c n = false) (dec x).
Proof. intros Hx Hn. destruct (dec_spec x Hx) as (_ & A & _ & _). apply alld_not; assumption. Qed.
Lemma dec_not58 x : x < 1000000000000 -> Forall (fun c => isch c 58 = false) (dec x).
Proof. intros Hx. apply dec_not; [exact Hx|right; reflexivity]. Qed.
Lemma dec_not46 x : x < 1000000000000 -> Forall (fun c => isch c 46 = false) (dec x).
Proof. intros Hx. apply dec_not; [exact Hx|left; reflexivity]. Qed.
Lemma stars_not n k : n <> 42 -> Forall (fun c => isch c n = false) (repeat star k).
Proof.
  intros Hn. induction k as [|k IH]; cbn [repeat]; constructor; [|exact IH].
  unfold isch. apply N.eqb_neq. intro E. apply Hn. rewrite <- E. reflexivity.
Qed.
Lemma dec_hdis x rest n : x < 1000000000000 -> n < 48 \/ 57 < n -> hdis (dec x ++ rest) n = false.
Proof.
  intros Hx Hn. destruct (dec_head x Hx) as (c & r & E & D). rewrite E. cbn [app hdis]. apply digit_not; assumption.
Qed.
Lemma dec_skipws x rest : x < 1000000000000 -> skipws (dec x ++ rest) = (dec x ++ rest, 0%nat).
Proof. intros Hx. destruct (dec_head x Hx) as (c & r & E & D). rewrite E. cbn [app]. apply skipws_digit. exact D. Qed.
Lemma skip_stars_rep k : skip_stars (repeat star k) = ([], k).
Proof. induction k as [|k IH]; [reflexivity|]. cbn [repeat skip_stars]. change (isch star 42) with true. cbv iota. rewrite IH. reflexivity. Qed.

(* ================= the IPv4 helper, one token at a time ================= *)
Lemma ip4_digits_k ds : forall part p' f rest ub tr dots pos ip R,
  eatd part ds = Some p' -> (length (ds ++ rest) < f)%nat ->
  (forall f', (length rest < f')%nat -> ip4 f' rest ub tr dots (pos + length ds) p' ip = R) ->
  ip4 f (ds ++ rest) ub tr dots pos part ip = R.
Proof.
  induction ds as [|c ds IH]; intros part p' f rest ub tr dots pos ip R H Hf K.
  - cbn [eatd] in H. injection H as <-. cbn [app length] in *. rewrite Nat.add_0_r in K. apply K. exact Hf.
  - cbn [eatd] in H. destruct (isdigit c) eqn:Hd; [|discriminate].
    destruct (255 <? part * 10 + (nb c - 48)) eqn:Ho; [discriminate|].
    destruct f as [|f]; [cbn [app length] in Hf; lia|].
    cbn [app ip4]. rewrite (digit_not46 c Hd), (digit_not47 c Hd), Hd, Ho.
    apply (IH _ p'); [exact H|cbn [app length] in Hf; lia|].
    intros f' Hf'. replace (S pos + length ds)%nat with (pos + length (c :: ds))%nat by (cbn [length]; lia).
    apply K. exact Hf'.
Qed.

Lemma ip4_dot_k f rest ub tr dots pos part ip R :
  hdis rest 46 = false -> hdis rest 42 = false -> (length (dot :: rest) < f)%nat ->
  (forall f', (length rest < f')%nat -> ip4 f' rest ub tr (S dots) (S pos) 0 (lor_opt ip (shl part dots)) = R) ->
  ip4 f (dot :: rest) ub tr dots pos part ip = R.
Proof.
  intros H1 H2 Hf K. destruct f as [|f]; [cbn [length] in Hf; lia|].
  cbn [ip4]. change (isch dot 46) with true. cbv iota. rewrite H1, H2. apply K. cbn [length] in Hf. lia.
Qed.

Lemma ip4_octet_dot_k x f rest ub tr dots pos ip R :
  x < 256 -> hdis rest 46 = false -> hdis rest 42 = false -> (length (dec x ++ dot :: rest) < f)%nat ->
  (forall f', (length rest < f')%nat ->
     ip4 f' rest ub tr (S dots) (S (pos + length (dec x))) 0 (lor_opt ip (shl x dots)) = R) ->
  ip4 f (dec x ++ dot :: rest) ub tr dots pos 0 ip = R.
Proof.
  intros Hx H1 H2 Hf K. destruct (dec_ok x Hx) as (E & _ & _).
  apply (ip4_digits_k (dec x) 0 x); [exact E|exact Hf|]. intros f1 Hf1.
  apply ip4_dot_k; [exact H1|exact H2|exact Hf1|exact K].
Qed.

(* terminators *)
Lemma ip4_end f ub tr pos part ip : (0 < f)%nat ->
  ip4 f [] ub tr 3 pos part ip = Some (pos, lor_opt ip (shl part 3), if ub then Some 32 else None).
Proof. intros Hf. destruct f as [|f]; [lia|]. reflexivity. Qed.

Lemma ip4_slash f tr dots pos part ip n : (0 < f)%nat -> n <= 32 ->
  ip4 f (slash :: dec n) true tr dots pos part ip = Some ((pos + 1 + length (dec n))%nat, lor_opt ip (shl part dots), Some n).
Proof.
  intros Hf Hn. destruct f as [|f]; [lia|]. cbn [ip4].
  change (isch slash 46) with false. change (isch slash 47) with true. cbv iota. cbn [negb andb orb].
  destruct (dec_head n ltac:(lia)) as (c & r & E & D).
  assert (match dec n with d :: _ => isdigit d | [] => false end = true) as Hh by (rewrite E; exact D).
  rewrite Hh. cbn [negb]. cbv iota.
  pose proof (read_dec_dec n [] ltac:(lia) I) as Rd. rewrite app_nil_r in Rd. rewrite Rd.
  assert ((32 <? n) = false) as Hb by (apply N.ltb_ge; exact Hn). rewrite Hb. reflexivity.
Qed.

Lemma ip4_dotstars f tr dots pos part ip k : (0 < f)%nat ->
  ip4 f (dot :: repeat star (S k)) true tr dots pos part ip =
  Some ((pos + 1 + S k)%nat, lor_opt ip (shl part dots), Some (N.of_nat (S dots) * 8)).
Proof.
  intros Hf. destruct f as [|f]; [lia|]. cbn [ip4].
  change (isch dot 46) with true. cbv iota.
  change (hdis (repeat star (S k)) 46) with false. change (hdis (repeat star (S k)) 42) with true. cbv iota.
  rewrite skip_stars_rep. reflexivity.
Qed.

(* ================= values ================= *)
Lemma ipv1 a : a < 256 -> N.lor 0 (u32 (a * 16777216)) = a * 16777216.
Proof.
  intros Ha. pose proof (ipv_value a 0 0 0 Ha ltac:(lia) ltac:(lia) ltac:(lia)) as P.
  change (u32 (0 * 65536)) with 0 in P. change (u32 (0 * 256)) with 0 in P. change (u32 0) with 0 in P.
  rewrite !N.lor_0_r in P. rewrite P. lia.
Qed.
Lemma ipv2 a b : a < 256 -> b < 256 -> N.lor (N.lor 0 (u32 (a * 16777216))) (u32 (b * 65536)) = a * 16777216 + b * 65536.
Proof.
  intros Ha Hb. pose proof (ipv_value a b 0 0 Ha Hb ltac:(lia) ltac:(lia)) as P.
  change (u32 (0 * 256)) with 0 in P. change (u32 0) with 0 in P.
  rewrite !N.lor_0_r in P. rewrite P. lia.
Qed.
Lemma ipv3 a b c : a < 256 -> b < 256 -> c < 256 ->
  N.lor (N.lor (N.lor 0 (u32 (a * 16777216))) (u32 (b * 65536))) (u32 (c * 256)) = a * 16777216 + b * 65536 + c * 256.
Proof.
  intros Ha Hb Hc. pose proof (ipv_value a b c 0 Ha Hb Hc ltac:(lia)) as P.
  change (u32 0) with 0 in P. rewrite !N.lor_0_r in P. rewrite P. lia.
Qed.

Lemma v4groups ipv hi lo : lo < 65536 -> ipv = 65536 * hi + lo ->
  setg (setg (setg zeros 5 65535) 6 (ipv / 65536)) 7 (ipv mod 65536) = [0; 0; 0; 0; 0; 65535; hi; lo].
Proof.
  intros Hl E. rewrite <- (N.div_unique _ 65536 hi lo Hl E). rewrite <- (N.mod_unique _ 65536 hi lo Hl E). reflexivity.
Qed.

(* ================= pton on a dotted text ================= *)
Lemma pton_dotted_bits s ipv k b4 :
  skipws s = (s, 0%nat) -> has s 58 = None -> has s 46 = Some k -> s <> [] ->
  pton_ip4 s true false = Some (length s, Some ipv, Some b4) ->
  pton s true false = Res (length s) (Some (96 + b4)) (setg (setg (setg zeros 5 65535) 6 (ipv / 65536)) 7 (ipv mod 65536)).
Proof.
  intros Hws Hc Hd Hne Hp. unfold pton. rewrite Hws, Hc, Hd, Hp.
  destruct (length s) as [|n] eqn:E.
  - apply length_zero_iff_nil in E. congruence.
  - cbv beta iota zeta. rewrite <- E. rewrite skipn_all. cbn [Nat.add]. rewrite (N.add_comm b4 96). reflexivity.
Qed.

Definition v4mapped (hi lo : N) : groups := [0; 0; 0; 0; 0; 65535; hi; lo].

(* ================= 1. a.b.c.d/n and a.b.c.d ================= *)
Definition quad_text (a b c d : N) : str := dec a ++ [dot] ++ dec b ++ [dot] ++ dec c ++ [dot] ++ dec d.
Definition cidr4_text (a b c d n : N) : str := quad_text a b c d ++ [slash] ++ dec n.

Theorem cidr4 a b c d n : a < 256 -> b < 256 -> c < 256 -> d < 256 -> n <= 32 ->
  pton (cidr4_text a b c d n) true false =
  Res (length (cidr4_text a b c d n)) (Some (96 + n)) [0; 0; 0; 0; 0; 65535; a * 256 + b; c * 256 + d].
Proof.
  intros La Lb Lc Ld Ln. unfold cidr4_text, quad_text. rewrite <- !app_assoc.
  set (s := dec a ++ [dot] ++ dec b ++ [dot] ++ dec c ++ [dot] ++ dec d ++ [slash] ++ dec n).
  assert (has s 58 = None) as H58 by (apply has_none; unfold s; fa; apply dec_not58; lia).
  destruct (has_some (dec a) dot (dec b ++ [dot] ++ dec c ++ [dot] ++ dec d ++ [slash] ++ dec n) 46 eq_refl) as [k Hk].
  assert (skipws s = (s, 0%nat)) as Hws by (apply dec_skipws; lia).
  assert (s <> []) as Hne by (unfold s; destruct (dec_head a ltac:(lia)) as (c0 & r0 & E0 & _); rewrite E0; discriminate).
  assert (pton_ip4 s true false = Some (length s, Some (a * 16777216 + (b * 65536 + (c * 256 + d))), Some n)) as P.
  { unfold pton_ip4. unfold s at 1. rewrite dec_hdis by (lia || (left; reflexivity)).
    unfold s at 2.
    apply ip4_octet_dot_k; [exact La|apply dec_hdis; (lia || (left; reflexivity))..|change (length s < S (length s))%nat; lia|]. intros f1 Hf1.
    apply ip4_octet_dot_k; [exact Lb|apply dec_hdis; (lia || (left; reflexivity))..|exact Hf1|]. intros f2 Hf2.
    apply ip4_octet_dot_k; [exact Lc|apply dec_hdis; (lia || (left; reflexivity))..|exact Hf2|]. intros f3 Hf3.
    destruct (dec_ok d Ld) as (Ed & _ & _).
    apply (ip4_digits_k (dec d) 0 d); [exact Ed|exact Hf3|]. intros f4 Hf4.
    change ([slash] ++ dec n) with (slash :: dec n) in *. rewrite ip4_slash by (cbn [length] in Hf4; lia).
    cbn [lor_opt shl]. rewrite (ipv_value a b c d La Lb Lc Ld).
    f_equal. f_equal. f_equal. unfold s. repeat (rewrite app_length || cbn [length]). lia. }
  rewrite (pton_dotted_bits s _ k n Hws H58 Hk Hne P). f_equal.
  apply v4groups; lia.
Qed.

Theorem quad_bits a b c d : a < 256 -> b < 256 -> c < 256 -> d < 256 ->
  pton (quad_text a b c d) true false =
  Res (length (quad_text a b c d)) (Some 128) [0; 0; 0; 0; 0; 65535; a * 256 + b; c * 256 + d].
Proof.
  intros La Lb Lc Ld. unfold quad_text.
  set (s := dec a ++ [dot] ++ dec b ++ [dot] ++ dec c ++ [dot] ++ dec d).
  assert (has s 58 = None) as H58 by (apply has_none; unfold s; fa; apply dec_not58; lia).
  destruct (has_some (dec a) dot (dec b ++ [dot] ++ dec c ++ [dot] ++ dec d) 46 eq_refl) as [k Hk].
  assert (skipws s = (s, 0%nat)) as Hws by (apply dec_skipws; lia).
  assert (s <> []) as Hne by (unfold s; destruct (dec_head a ltac:(lia)) as (c0 & r0 & E0 & _); rewrite E0; discriminate).
  assert (pton_ip4 s true false = Some (length s, Some (a * 16777216 + (b * 65536 + (c * 256 + d))), Some 32)) as P.
  { unfold pton_ip4. unfold s at 1. rewrite dec_hdis by (lia || (left; reflexivity)).
    unfold s at 2.
    apply ip4_octet_dot_k; [exact La|apply dec_hdis; (lia || (left; reflexivity))..|change (length s < S (length s))%nat; lia|]. intros f1 Hf1.
    apply ip4_octet_dot_k; [exact Lb|apply dec_hdis; (lia || (left; reflexivity))..|exact Hf1|]. intros f2 Hf2.
    apply ip4_octet_dot_k; [exact Lc|rewrite <- (app_nil_r (dec d)); apply dec_hdis; (lia || (left; reflexivity))..|exact Hf2|].
    intros f3 Hf3.
    destruct (dec_ok d Ld) as (Ed & _ & _). rewrite <- (app_nil_r (dec d)).
    apply (ip4_digits_k (dec d) 0 d); [exact Ed|rewrite app_nil_r; exact Hf3|]. intros f4 Hf4.
    rewrite ip4_end by (cbn [length] in Hf4; lia).
    cbn [lor_opt shl]. rewrite (ipv_value a b c d La Lb Lc Ld).
    f_equal. f_equal. f_equal. unfold s. repeat (rewrite app_length || cbn [length]). lia. }
  rewrite (pton_dotted_bits s _ k 32 Hws H58 Hk Hne P). f_equal.
  apply v4groups; lia.
Qed.

(* ================= 3. '*' ================= *)
Theorem star_run k : pton (repeat star (S k)) true false = Res (S k) (Some 0) zeros.
Proof.
  unfold pton.
  assert (skipws (repeat star (S k)) = (repeat star (S k), 0%nat)) as W by reflexivity.
  rewrite W, (has_none _ 58 (stars_not 58 (S k) ltac:(discriminate))), (has_none _ 46 (stars_not 46 (S k) ltac:(discriminate))).
  cbv beta iota zeta. change (hdis (repeat star (S k)) 42) with true. cbv iota.
  rewrite skip_stars_rep. reflexivity.
Qed.
Theorem star_alone : pton [star] true false = Res 1 (Some 0) zeros.
Proof. exact (star_run 0). Qed.

(* ================= 2. a.*  a.b.*  a.b.c.* ================= *)
Definition wild4_1_text (a : N) (k : nat) : str := dec a ++ [dot] ++ repeat star (S k).
Definition wild4_2_text (a b : N) (k : nat) : str := dec a ++ [dot] ++ dec b ++ [dot] ++ repeat star (S k).
Definition wild4_3_text (a b c : N) (k : nat) : str := dec a ++ [dot] ++ dec b ++ [dot] ++ dec c ++ [dot] ++ repeat star (S k).

Ltac v4_side := (lia || (left; reflexivity)).

Theorem wild4_1 a k : a < 256 ->
  pton (wild4_1_text a k) true false = Res (length (wild4_1_text a k)) (Some (96 + 8)) [0; 0; 0; 0; 0; 65535; a * 256; 0].
Proof.
  intros La. unfold wild4_1_text.
  set (s := dec a ++ [dot] ++ repeat star (S k)).
  assert (has s 58 = None) as H58 by (apply has_none; unfold s; fa; [apply dec_not58; lia|apply stars_not; discriminate]).
  destruct (has_some (dec a) dot (repeat star (S k)) 46 eq_refl) as [j Hj].
  assert (skipws s = (s, 0%nat)) as Hws by (apply dec_skipws; lia).
  assert (s <> []) as Hne by (unfold s; destruct (dec_head a ltac:(lia)) as (c0 & r0 & E0 & _); rewrite E0; discriminate).
  assert (pton_ip4 s true false = Some (length s, Some (a * 16777216), Some 8)) as P.
  { unfold pton_ip4. unfold s at 1. rewrite dec_hdis by v4_side. unfold s at 2.
    destruct (dec_ok a La) as (Ea & _ & _).
    apply (ip4_digits_k (dec a) 0 a); [exact Ea|change (length s < S (length s))%nat; lia|]. intros f1 Hf1.
    change ([dot] ++ repeat star (S k)) with (dot :: repeat star (S k)) in *.
    rewrite ip4_dotstars by (cbn [length] in Hf1; lia).
    cbn [lor_opt shl]. rewrite (ipv1 a La).
    f_equal. f_equal. f_equal. unfold s. repeat (rewrite app_length || rewrite repeat_length || cbn [length]). lia. }
  rewrite (pton_dotted_bits s _ j 8 Hws H58 Hj Hne P). f_equal.
  apply v4groups; lia.
Qed.

Theorem wild4_2 a b k : a < 256 -> b < 256 ->
  pton (wild4_2_text a b k) true false = Res (length (wild4_2_text a b k)) (Some (96 + 16)) [0; 0; 0; 0; 0; 65535; a * 256 + b; 0].
Proof.
  intros La Lb. unfold wild4_2_text.
  set (s := dec a ++ [dot] ++ dec b ++ [dot] ++ repeat star (S k)).
  assert (has s 58 = None) as H58 by (apply has_none; unfold s; fa; try (apply dec_not58; lia); apply stars_not; discriminate).
  destruct (has_some (dec a) dot (dec b ++ [dot] ++ repeat star (S k)) 46 eq_refl) as [j Hj].
  assert (skipws s = (s, 0%nat)) as Hws by (apply dec_skipws; lia).
  assert (s <> []) as Hne by (unfold s; destruct (dec_head a ltac:(lia)) as (c0 & r0 & E0 & _); rewrite E0; discriminate).
  assert (pton_ip4 s true false = Some (length s, Some (a * 16777216 + b * 65536), Some 16)) as P.
  { unfold pton_ip4. unfold s at 1. rewrite dec_hdis by v4_side. unfold s at 2.
    apply ip4_octet_dot_k; [exact La|apply dec_hdis; v4_side..|change (length s < S (length s))%nat; lia|]. intros f1 Hf1.
    destruct (dec_ok b Lb) as (Eb & _ & _).
    apply (ip4_digits_k (dec b) 0 b); [exact Eb|exact Hf1|]. intros f2 Hf2.
    change ([dot] ++ repeat star (S k)) with (dot :: repeat star (S k)) in *.
    rewrite ip4_dotstars by (cbn [length] in Hf2; lia).
    cbn [lor_opt shl]. rewrite (ipv2 a b La Lb).
    f_equal. f_equal. f_equal. unfold s. repeat (rewrite app_length || rewrite repeat_length || cbn [length]). lia. }
  rewrite (pton_dotted_bits s _ j 16 Hws H58 Hj Hne P). f_equal.
  apply v4groups; lia.
Qed.

Theorem wild4_3 a b c k : a < 256 -> b < 256 -> c < 256 ->
  pton (wild4_3_text a b c k) true false =
  Res (length (wild4_3_text a b c k)) (Some (96 + 24)) [0; 0; 0; 0; 0; 65535; a * 256 + b; c * 256].
Proof.
  intros La Lb Lc. unfold wild4_3_text.
  set (s := dec a ++ [dot] ++ dec b ++ [dot] ++ dec c ++ [dot] ++ repeat star (S k)).
  assert (has s 58 = None) as H58 by (apply has_none; unfold s; fa; try (apply dec_not58; lia); apply stars_not; discriminate).
  destruct (has_some (dec a) dot (dec b ++ [dot] ++ dec c ++ [dot] ++ repeat star (S k)) 46 eq_refl) as [j Hj].
  assert (skipws s = (s, 0%nat)) as Hws by (apply dec_skipws; lia).
  assert (s <> []) as Hne by (unfold s; destruct (dec_head a ltac:(lia)) as (c0 & r0 & E0 & _); rewrite E0; discriminate).
  assert (pton_ip4 s true false = Some (length s, Some (a * 16777216 + b * 65536 + c * 256), Some 24)) as P.
  { unfold pton_ip4. unfold s at 1. rewrite dec_hdis by v4_side. unfold s at 2.
    apply ip4_octet_dot_k; [exact La|apply dec_hdis; v4_side..|change (length s < S (length s))%nat; lia|]. intros f1 Hf1.
    apply ip4_octet_dot_k; [exact Lb|apply dec_hdis; v4_side..|exact Hf1|]. intros f2 Hf2.
    destruct (dec_ok c Lc) as (Ec & _ & _).
    apply (ip4_digits_k (dec c) 0 c); [exact Ec|exact Hf2|]. intros f3 Hf3.
    change ([dot] ++ repeat star (S k)) with (dot :: repeat star (S k)) in *.
    rewrite ip4_dotstars by (cbn [length] in Hf3; lia).
    cbn [lor_opt shl]. rewrite (ipv3 a b c La Lb Lc).
    f_equal. f_equal. f_equal. unfold s. repeat (rewrite app_length || rewrite repeat_length || cbn [length]). lia. }
  rewrite (pton_dotted_bits s _ j 24 Hws H58 Hj Hne P). f_equal.
  apply v4groups; lia.
Qed.

(* the single-star instances, as in the documentation *)
Corollary wild4_a a : a < 256 ->
  pton (dec a ++ [dot; star]) true false = Res (length (dec a ++ [dot; star])) (Some 104) [0; 0; 0; 0; 0; 65535; a * 256; 0].
Proof. exact (wild4_1 a 0). Qed.
Corollary wild4_ab a b : a < 256 -> b < 256 ->
  pton (dec a ++ [dot] ++ dec b ++ [dot; star]) true false =
  Res (length (dec a ++ [dot] ++ dec b ++ [dot; star])) (Some 112) [0; 0; 0; 0; 0; 65535; a * 256 + b; 0].
Proof. exact (wild4_2 a b 0). Qed.
Corollary wild4_abc a b c : a < 256 -> b < 256 -> c < 256 ->
  pton (dec a ++ [dot] ++ dec b ++ [dot] ++ dec c ++ [dot; star]) true false =
  Res (length (dec a ++ [dot] ++ dec b ++ [dot] ++ dec c ++ [dot; star])) (Some 120) [0; 0; 0; 0; 0; 65535; a * 256 + b; c * 256].
Proof. exact (wild4_3 a b c 0). Qed.

(* ================= hexadecimal groups ================= *)
Definition small (x : N) : Prop := x < 65536.

Fixpoint eath (part : N) (hs : str) : option N :=
  match hs with
  | [] => Some part
  | c :: r => match hexv c with
              | Some v => let p := part * 16 + v in if 65535 <? p then None else eath p r
              | None => None
              end
  end.
Definition chkh (x : N) : bool :=
  match eath 0 (hexstr x) with
  | Some q => (q =? x) && negb (Nat.eqb (length (hexstr x)) 0) && Nat.leb (length (hexstr x)) 4
  | None => false
  end.
Fixpoint allN (f : nat) (n : N) (p : N -> bool) : bool :=
  match f with O => true | S f' => p n && allN f' (N.succ n) p end.
Lemma allN_spec f : forall n p, allN f n p = true -> forall m, n <= m -> m < n + N.of_nat f -> p m = true.
Proof.
  induction f as [|f IH]; intros n p H m H1 H2; [lia|].
  cbn [allN] in H. apply andb_true_iff in H as [Hn Hr].
  destruct (N.eq_dec m n) as [->|Ne]; [exact Hn|].
  apply (IH (N.succ n) p Hr); lia.
Qed.
Lemma chkh_all : allN (N.to_nat 65536) 0 chkh = true.
Proof. vm_cast_no_check (eq_refl true). Qed.

Lemma hexstr_ok x : small x -> eath 0 (hexstr x) = Some x /\ hexstr x <> [] /\ (length (hexstr x) <= 4)%nat.
Proof.
  intros Hx. pose proof (allN_spec _ _ _ chkh_all x) as H. rewrite N2Nat.id in H.
  specialize (H ltac:(lia) Hx). unfold chkh in H.
  destruct (eath 0 (hexstr x)) as [q|]; [|discriminate].
  apply andb_true_iff in H as [H H4]. apply andb_true_iff in H as [Hq Hl].
  apply N.eqb_eq in Hq. subst q. split; [reflexivity|]. split.
  - intro Z. rewrite Z in Hl. discriminate.
  - apply Nat.leb_le. exact H4.
Qed.

Lemma hexv_not c v n : hexv c = Some v -> n = 42 \/ n = 46 \/ n = 47 \/ n = 58 -> isch c n = false.
Proof.
  unfold hexv, isdigit, isch. set (m := nb c). clearbody m. intros H Hn. apply N.eqb_neq.
  destruct (N.leb_spec 48 m), (N.leb_spec m 57), (N.leb_spec 97 m), (N.leb_spec m 102), (N.leb_spec 65 m), (N.leb_spec m 70);
    cbn [andb] in H; try discriminate; lia.
Qed.
Lemma hexv_not_space c v : hexv c = Some v -> isspace c = false.
Proof.
  unfold hexv, isdigit, isspace. set (m := nb c). clearbody m. intros H.
  destruct (N.leb_spec 48 m), (N.leb_spec m 57), (N.leb_spec 97 m), (N.leb_spec m 102), (N.leb_spec 65 m), (N.leb_spec m 70);
    cbn [andb] in H; try discriminate;
    destruct (N.leb_spec 9 m), (N.leb_spec m 13), (N.eqb_spec m 32); try reflexivity; lia.
Qed.

Lemma eath_all hs : forall part p, eath part hs = Some p -> Forall (fun c => exists v, hexv c = Some v) hs.
Proof.
  induction hs as [|c hs IH]; intros part p H; [constructor|].
  cbn [eath] in H. destruct (hexv c) as [v|] eqn:Hv; [|discriminate].
  cbv zeta in H. destruct (65535 <? part * 16 + v); [discriminate|].
  constructor; [eauto|exact (IH _ _ H)].
Qed.
Lemma hexstr_all x : small x -> Forall (fun c => exists v, hexv c = Some v) (hexstr x).
Proof. intros Hx. destruct (hexstr_ok x Hx) as (E & _). exact (eath_all _ _ _ E). Qed.
Lemma hexstr_head x : small x -> exists c r v, hexstr x = c :: r /\ hexv c = Some v.
Proof.
  intros Hx. destruct (hexstr_ok x Hx) as (_ & Ne & _). pose proof (hexstr_all x Hx) as A.
  destruct (hexstr x) as [|c r]; [congruence|]. inversion A as [|? ? [v Hv] _]; subst. eauto.
Qed.
Definition sepch (n : N) : Prop := n = 42 \/ n = 46 \/ n = 47 \/ n = 58.
Lemma hexstr_not x n : small x -> sepch n -> Forall (fun c => isch c n = false) (hexstr x).
Proof.
  intros Hx Hn. eapply Forall_impl; [|exact (hexstr_all x Hx)]. intros c [v Hv]. exact (hexv_not c v n Hv Hn).
Qed.
Lemma hexstr_hdis x rest n : small x -> sepch n -> hdis (hexstr x ++ rest) n = false.
Proof.
  intros Hx Hn. destruct (hexstr_head x Hx) as (c & r & v & E & Hv). rewrite E. cbn [app hdis]. exact (hexv_not c v n Hv Hn).
Qed.
Lemma hexstr_skipws x rest : small x -> skipws (hexstr x ++ rest) = (hexstr x ++ rest, 0%nat).
Proof.
  intros Hx. destruct (hexstr_head x Hx) as (c & r & v & E & Hv). rewrite E. cbn [app skipws].
  rewrite (hexv_not_space c v Hv). reflexivity.
Qed.

(* ================= the IPv6 loop, one token at a time ================= *)
Lemma v6_hex_k hs : forall part p' f rest pos ub tr ii cpos ps pspos gs bits R,
  eath part hs = Some p' -> (ii < 8)%nat -> (length (hs ++ rest) < f)%nat ->
  (forall f', (length rest < f')%nat -> v6 f' rest (pos + length hs) ub tr p' ii cpos ps pspos gs bits = R) ->
  v6 f (hs ++ rest) pos ub tr part ii cpos ps pspos gs bits = R.
Proof.
  induction hs as [|c hs IH]; intros part p' f rest pos ub tr ii cpos ps pspos gs bits R H Hi Hf K.
  - cbn [eath] in H. injection H as <-. cbn [app length] in *. rewrite Nat.add_0_r in K. apply K. exact Hf.
  - cbn [eath] in H. destruct (hexv c) as [v|] eqn:Hv; [|discriminate]. cbv zeta in H.
    destruct (65535 <? part * 16 + v) eqn:Ho; [discriminate|].
    destruct f as [|f]; [cbn [app length] in Hf; lia|].
    assert (Nat.leb 8 ii = false) as L8 by (apply Nat.leb_gt; exact Hi).
    cbn [app v6]. rewrite L8, Hv, Ho.
    apply (IH _ p'); [exact H|exact Hi|cbn [app length] in Hf; lia|].
    intros f' Hf'. replace (S pos + length hs)%nat with (pos + length (c :: hs))%nat by (cbn [length]; lia).
    apply K. exact Hf'.
Qed.

Lemma v6_colon_k f rest pos ub tr part ii cpos ps pspos gs bits R :
  (ii < 8)%nat -> hdis rest 46 = false -> hdis rest 58 = false -> (length (colon :: rest) < f)%nat ->
  (forall f', (length rest < f')%nat ->
     v6 f' rest (S pos) ub tr 0 (S ii) cpos rest (S pos) (setg gs ii part) bits = R) ->
  v6 f (colon :: rest) pos ub tr part ii cpos ps pspos gs bits = R.
Proof.
  intros Hi H46 H58 Hf K. destruct f as [|f]; [cbn [length] in Hf; lia|].
  assert (Nat.leb 8 ii = false) as L8 by (apply Nat.leb_gt; exact Hi).
  cbn [v6]. rewrite L8. change (hexv colon) with (@None N). cbv iota.
  change (isch colon 58) with true. cbv iota. rewrite H46, H58. apply K. cbn [length] in Hf. lia.
Qed.

(* "::" met while no compression has been seen yet (cpos = 8) *)
Lemma v6_dcolon_k f rest pos ub tr part ii ps pspos gs bits R :
  (ii < 8)%nat -> (length (colon :: colon :: rest) < f)%nat ->
  (forall f', (length (colon :: rest) < f')%nat ->
     v6 f' (colon :: rest) (S pos) ub tr 0 (S ii) (S ii) (colon :: rest) (S pos) (setg gs ii part) bits = R) ->
  v6 f (colon :: colon :: rest) pos ub tr part ii 8 ps pspos gs bits = R.
Proof.
  intros Hi Hf K. destruct f as [|f]; [cbn [length] in Hf; lia|].
  assert (Nat.leb 8 ii = false) as L8 by (apply Nat.leb_gt; exact Hi).
  cbn [v6]. rewrite L8. change (hexv colon) with (@None N). cbv iota.
  change (isch colon 58) with true. cbv iota.
  change (hdis (colon :: rest) 46) with false. change (hdis (colon :: rest) 58) with true. cbv iota.
  change (Nat.ltb 8 8) with false. cbv iota. apply K. cbn [length] in Hf |- *. lia.
Qed.

Lemma dec_first_digit n : n < 1000000000000 -> match dec n with d :: _ => isdigit d | [] => false end = true.
Proof. intros Hn. destruct (dec_head n Hn) as (c & r & E & D). rewrite E. exact D. Qed.

(* terminators *)
Lemma v6_slash f tr pos part ii cpos ps pspos gs bits n : (0 < f)%nat -> (ii < 8)%nat -> n <= 128 ->
  v6 f (slash :: dec n) pos true tr part ii cpos ps pspos gs bits =
  Res (pos + 1 + length (dec n))%nat (Some n) (fixup (setg gs ii part) (S ii) cpos).
Proof.
  intros Hf Hi Hn. destruct f as [|f]; [lia|].
  assert (Nat.leb 8 ii = false) as L8 by (apply Nat.leb_gt; exact Hi).
  cbn [v6]. rewrite L8. change (hexv slash) with (@None N). cbv iota.
  change (isch slash 58) with false. change (isch slash 46) with false. change (isch slash 47) with true. cbv iota.
  rewrite (dec_first_digit n ltac:(lia)). cbn [negb orb]. cbv iota.
  pose proof (read_dec_dec n [] ltac:(lia) I) as Rd. rewrite app_nil_r in Rd. rewrite Rd.
  assert ((128 <? n) = false) as Hb by (apply N.ltb_ge; exact Hn). rewrite Hb. reflexivity.
Qed.

Lemma v6_slash8 f tr pos part ii cpos ps pspos gs bits n : (0 < f)%nat -> (8 <= ii)%nat -> n <= 128 ->
  v6 f (slash :: dec n) pos true tr part ii cpos ps pspos gs bits =
  Res (pos + 1 + length (dec n))%nat (Some n) (fixup gs ii cpos).
Proof.
  intros Hf Hi Hn. destruct f as [|f]; [lia|].
  assert (Nat.leb 8 ii = true) as L8 by (apply Nat.leb_le; exact Hi).
  cbn [v6]. rewrite L8. change (isch slash 47) with true. cbn [andb].
  rewrite (dec_first_digit n ltac:(lia)). cbv iota.
  pose proof (read_dec_dec n [] ltac:(lia) I) as Rd. rewrite app_nil_r in Rd. rewrite Rd.
  assert ((128 <? n) = false) as Hb by (apply N.ltb_ge; exact Hn). rewrite Hb. reflexivity.
Qed.

Lemma v6_stars f tr pos part ii ps pspos gs bits k : (0 < f)%nat -> (ii < 8)%nat ->
  v6 f (repeat star (S k)) pos true tr part ii 8 ps pspos gs bits = Res (pos + S k)%nat (Some (N.of_nat ii * 16)) gs.
Proof.
  intros Hf Hi. destruct f as [|f]; [lia|].
  assert (Nat.leb 8 ii = false) as L8 by (apply Nat.leb_gt; exact Hi).
  cbn [v6 repeat]. rewrite L8. change (hexv star) with (@None N). cbv iota.
  change (isch star 58) with false. change (isch star 46) with false. change (isch star 47) with false.
  change (isch star 42) with true. cbv iota.
  change (star :: repeat star k) with (repeat star (S k)). rewrite skip_stars_rep.
  change (Nat.ltb 8 8) with false. reflexivity.
Qed.

(* ================= lists of groups ================= *)
Fixpoint join (l : list N) : str :=
  match l with [] => [] | x :: r => match r with [] => hexstr x | _ :: _ => hexstr x ++ [colon] ++ join r end end.
Definition joinc (l : list N) : str := flat_map (fun x => hexstr x ++ [colon]) l.

Lemma joinc_cons x l rest : joinc (x :: l) ++ rest = hexstr x ++ colon :: (joinc l ++ rest).
Proof. unfold joinc. cbn [flat_map]. rewrite <- !app_assoc. reflexivity. Qed.
Lemma joinc_app l1 l2 : joinc (l1 ++ l2) = joinc l1 ++ joinc l2.
Proof. unfold joinc. apply flat_map_app. Qed.
Lemma join_snoc l x : join (l ++ [x]) = joinc l ++ hexstr x.
Proof.
  induction l as [|y l IH]; [reflexivity|].
  change ((y :: l) ++ [x]) with (y :: (l ++ [x])). cbn [join]. rewrite IH.
  destruct (l ++ [x]) as [|z w] eqn:E; [destruct l; discriminate|].
  unfold joinc. cbn [flat_map]. rewrite <- !app_assoc. reflexivity.
Qed.
Lemma join_colon l rest : l <> [] -> join l ++ colon :: rest = joinc l ++ rest.
Proof.
  intros Hl. destruct (exists_last Hl) as (l' & x & ->). rewrite join_snoc, joinc_app, <- !app_assoc.
  unfold joinc at 3. cbn [flat_map]. rewrite app_nil_r, <- app_assoc. reflexivity.
Qed.

Lemma joinc_hdis l rest n : Forall small l -> sepch n -> hdis rest n = false -> hdis (joinc l ++ rest) n = false.
Proof.
  intros Hs Hn Hr. destruct l as [|x l]; [exact Hr|]. rewrite joinc_cons. inversion Hs; subst.
  apply hexstr_hdis; assumption.
Qed.
Lemma joinc_not46 l : Forall small l -> Forall (fun c => isch c 46 = false) (joinc l).
Proof.
  induction 1 as [|x l Hx _ IH]; [constructor|]. unfold joinc. cbn [flat_map]. fold (joinc l). fa; [|exact IH].
  apply hexstr_not; [exact Hx|right; left; reflexivity].
Qed.
Lemma has_joinc l rest : l <> [] -> exists k, has (joinc l ++ rest) 58 = Some k.
Proof. intros Hl. destruct l as [|x l]; [congruence|]. rewrite joinc_cons. apply has_some. reflexivity. Qed.
Lemma joinc_skipws l rest : l <> [] -> Forall small l -> skipws (joinc l ++ rest) = (joinc l ++ rest, 0%nat).
Proof.
  intros Hl Hs. destruct l as [|x l]; [congruence|]. rewrite joinc_cons. inversion Hs; subst. apply hexstr_skipws. assumption.
Qed.

Lemma setg_at (A : groups) x z Z : setg (A ++ z :: Z) (length A) x = (A ++ [x]) ++ Z.
Proof.
  induction A as [|a A IH]; [reflexivity|].
  unfold setg in *. cbn [length app firstn skipn] in *. f_equal. exact IH.
Qed.

Lemma v6_group_colon_k x f rest pos ub tr ii cpos ps pspos gs bits R :
  small x -> (ii < 8)%nat -> hdis rest 46 = false -> hdis rest 58 = false ->
  (length (hexstr x ++ colon :: rest) < f)%nat ->
  (forall f', (length rest < f')%nat ->
     v6 f' rest (S (pos + length (hexstr x))) ub tr 0 (S ii) cpos rest (S (pos + length (hexstr x))) (setg gs ii x) bits = R) ->
  v6 f (hexstr x ++ colon :: rest) pos ub tr 0 ii cpos ps pspos gs bits = R.
Proof.
  intros Hx Hi H46 H58 Hf K. destruct (hexstr_ok x Hx) as (E & _ & _).
  apply (v6_hex_k (hexstr x) 0 x); [exact E|exact Hi|exact Hf|]. intros f1 Hf1.
  apply v6_colon_k; [exact Hi|exact H46|exact H58|exact Hf1|exact K].
Qed.

(* a run of groups, each followed by ':' *)
Lemma v6_groups_k l : forall (A : groups) m f pos ps pspos rest cpos ub tr bits R,
  Forall small l -> (length A + length l <= 8)%nat -> hdis rest 46 = false -> hdis rest 58 = false ->
  (length (joinc l ++ rest) < f)%nat ->
  (forall f' ps' pspos', (length rest < f')%nat ->
     v6 f' rest (pos + length (joinc l)) ub tr 0 (length A + length l) cpos ps' pspos' ((A ++ l) ++ repeat 0 m) bits = R) ->
  v6 f (joinc l ++ rest) pos ub tr 0 (length A) cpos ps pspos (A ++ repeat 0 (length l + m)) bits = R.
Proof.
  induction l as [|x l IH]; intros A m f pos ps pspos rest cpos ub tr bits R Hs Hl H46 H58 Hf K.
  - cbn [joinc flat_map app length Nat.add] in *. specialize (K f ps pspos Hf).
    rewrite !Nat.add_0_r, app_nil_r in K. exact K.
  - inversion Hs as [|? ? Hx Hs']; subst. cbn [length] in Hl. rewrite joinc_cons in Hf |- *.
    apply v6_group_colon_k;
      [exact Hx|lia|apply joinc_hdis; [exact Hs'|right; left; reflexivity|exact H46]
      |apply joinc_hdis; [exact Hs'|right; right; right; reflexivity|exact H58]|exact Hf|].
    intros f1 Hf1. cbn [length Nat.add repeat]. rewrite setg_at.
    replace (S (length A)) with (length (A ++ [x])) by (rewrite app_length; cbn [length]; lia).
    apply IH; [exact Hs'|rewrite app_length; cbn [length]; lia|exact H46|exact H58|exact Hf1|].
    intros f2 ps2 pspos2 Hf2. specialize (K f2 ps2 pspos2 Hf2).
    rewrite <- (app_assoc A [x] l). cbn [app].
    replace (S (pos + length (hexstr x)) + length (joinc l))%nat with (pos + length (joinc (x :: l)))%nat
      by (unfold joinc; cbn [flat_map]; rewrite !app_length; cbn [length]; lia).
    replace (length (A ++ [x]) + length l)%nat with (length A + length (x :: l))%nat
      by (rewrite app_length; cbn [length]; lia).
    exact K.
Qed.

(* the last group, ended by "/n" *)
Lemma v6_group_slash x (A : groups) m f tr pos cpos ps pspos bits n :
  small x -> (length A < 8)%nat -> n <= 128 -> (length (hexstr x ++ slash :: dec n) < f)%nat ->
  v6 f (hexstr x ++ slash :: dec n) pos true tr 0 (length A) cpos ps pspos (A ++ repeat 0 (S m)) bits =
  Res (pos + length (hexstr x) + 1 + length (dec n))%nat (Some n) (fixup ((A ++ [x]) ++ repeat 0 m) (S (length A)) cpos).
Proof.
  intros Hx Hi Hn Hf. destruct (hexstr_ok x Hx) as (E & _ & _).
  apply (v6_hex_k (hexstr x) 0 x); [exact E|exact Hi|exact Hf|]. intros f1 Hf1.
  rewrite v6_slash by (try exact Hi; try exact Hn; cbn [length] in Hf1; lia).
  cbn [repeat]. rewrite setg_at. reflexivity.
Qed.

Lemma fixup_spec (A B : groups) m : (length A < 8)%nat ->
  fixup ((A ++ B) ++ repeat 0 m) (length A + length B) (length A) = A ++ repeat 0 (8 - (length A + length B)) ++ B.
Proof.
  intros HA. unfold fixup. assert (Nat.ltb (length A) 8 = true) as -> by (apply Nat.ltb_lt; exact HA).
  rewrite <- app_assoc.
  rewrite firstn_app, firstn_all, Nat.sub_diag, firstn_O, app_nil_r.
  rewrite skipn_app, skipn_all, Nat.sub_diag, skipn_O. cbn [app].
  replace (length A + length B - length A)%nat with (length B) by lia.
  rewrite firstn_app, firstn_all, Nat.sub_diag, firstn_O, app_nil_r. reflexivity.
Qed.
Lemma fixup_none gs ii : fixup gs ii 8 = gs.
Proof. reflexivity. Qed.

(* ================= entering the IPv6 loop ================= *)
Lemma pton_v6_entry s ub tr k : skipws s = (s, 0%nat) -> has s 58 = Some k -> has s 46 = None -> hdis s 58 = false ->
  pton s ub tr = v6 (S (S (length s))) s 0 ub tr 0 0 8 [] 0%nat zeros None.
Proof. intros H1 H2 H3 H4. unfold pton. rewrite H1, H2, H3. cbv beta iota zeta. rewrite H4. reflexivity. Qed.

Lemma pton_v6_dc r2 ub tr : has (colon :: colon :: r2) 46 = None -> hdis r2 58 = false ->
  pton (colon :: colon :: r2) ub tr = v6 (S (S (length (colon :: colon :: r2)))) r2 2 ub tr 0 0 0 r2 2%nat zeros None.
Proof.
  intros H3 H4. unfold pton.
  assert (skipws (colon :: colon :: r2) = (colon :: colon :: r2, 0%nat)) as W by reflexivity.
  assert (has (colon :: colon :: r2) 58 = Some 0%nat) as C by reflexivity.
  rewrite W, C, H3. cbv beta iota zeta. change (hdis (colon :: colon :: r2) 58) with true. cbv iota.
  change (isch colon 58) with true. cbn [negb orb]. rewrite H4. reflexivity.
Qed.

Lemma has46_none_app s1 s2 : has s1 46 = None -> has s2 46 = None -> has (s1 ++ s2) 46 = None.
Proof.
  induction s1 as [|c s1 IH]; intros H1 H2; [exact H2|]. cbn [app has] in *.
  destruct (isch c 46); [discriminate|]. destruct (has s1 46) eqn:E; [discriminate|]. rewrite (IH eq_refl H2). reflexivity.
Qed.

(* ================= 4 (plain). x:x:x:x:x:x:x:x/n ================= *)
Definition cidr6_text (gs : groups) (n : N) : str := join gs ++ [slash] ++ dec n.

Theorem cidr6_plain gs n : length gs = 8%nat -> Forall small gs -> n <= 128 ->
  pton (cidr6_text gs n) true false = Res (length (cidr6_text gs n)) (Some n) gs.
Proof.
  intros Hl Hs Hn. unfold cidr6_text.
  assert (gs <> []) as Hne by (intros ->; discriminate).
  destruct (exists_last Hne) as (l & x & ->). rewrite app_length in Hl. cbn [length] in Hl.
  apply Forall_app in Hs as [Hsl Hsx]. inversion Hsx as [|? ? Hx _]; subst.
  assert (l <> []) as Hlne by (intros ->; discriminate).
  rewrite join_snoc, <- app_assoc. change ([slash] ++ dec n) with (slash :: dec n).
  set (s := joinc l ++ hexstr x ++ slash :: dec n).
  destruct (has_joinc l (hexstr x ++ slash :: dec n) Hlne) as [k Hk].
  assert (has s 46 = None) as H46.
  { apply has_none. unfold s. fa; [apply joinc_not46; exact Hsl|apply hexstr_not; [exact Hx|right; left; reflexivity]|].
    change (slash :: dec n) with ([slash] ++ dec n). fa. apply dec_not46. lia. }
  rewrite (pton_v6_entry s true false k (joinc_skipws l _ Hlne Hsl) Hk H46)
    by (apply joinc_hdis; [exact Hsl|right; right; right; reflexivity|apply hexstr_hdis; [exact Hx|right; right; right; reflexivity]]).
  assert (zeros = [] ++ repeat 0 (length l + 1)) as Z by (rewrite Hl; reflexivity). rewrite Z. unfold s at 2.
  apply (v6_groups_k l [] 1);
    [exact Hsl|cbn [length]; lia|apply hexstr_hdis; [exact Hx|right; left; reflexivity]
    |apply hexstr_hdis; [exact Hx|right; right; right; reflexivity]|fold s; lia|].
  intros f1 ps1 pspos1 Hf1. cbn [app length Nat.add].
  rewrite (v6_group_slash x l 0) by (try exact Hx; try exact Hn; lia || exact Hf1).
  rewrite fixup_none. cbn [repeat]. rewrite app_nil_r. f_equal.
  unfold s. rewrite !app_length. cbn [length]. lia.
Qed.

(* ================= 5. x:y:* ================= *)
Definition wild6_text (pre : groups) (k : nat) : str := join pre ++ [colon] ++ repeat star (S k).

Theorem wild6_run pre k : (1 <= length pre <= 7)%nat -> Forall small pre ->
  pton (wild6_text pre k) true false =
  Res (length (wild6_text pre k)) (Some (16 * N.of_nat (length pre))) (pre ++ repeat 0 (8 - length pre)).
Proof.
  intros Hl Hs. unfold wild6_text.
  assert (pre <> []) as Hne by (intros ->; cbn [length] in Hl; lia).
  change ([colon] ++ repeat star (S k)) with (colon :: repeat star (S k)). rewrite (join_colon pre _ Hne).
  set (s := joinc pre ++ repeat star (S k)).
  destruct (has_joinc pre (repeat star (S k)) Hne) as [j Hj].
  assert (has s 46 = None) as H46.
  { apply has_none. unfold s. fa; [apply joinc_not46; exact Hs|apply stars_not; discriminate]. }
  rewrite (pton_v6_entry s true false j (joinc_skipws pre _ Hne Hs) Hj H46)
    by (apply joinc_hdis; [exact Hs|right; right; right; reflexivity|reflexivity]).
  assert (zeros = [] ++ repeat 0 (length pre + (8 - length pre))) as Z
    by (replace (length pre + (8 - length pre))%nat with 8%nat by lia; reflexivity).
  rewrite Z. unfold s at 2.
  apply (v6_groups_k pre [] (8 - length pre)); [exact Hs|cbn [length]; lia|reflexivity|reflexivity|fold s; lia|].
  intros f1 ps1 pspos1 Hf1. cbn [app length Nat.add].
  rewrite v6_stars by (cbn [length] in Hf1; lia).
  rewrite (N.mul_comm 16). f_equal.
  unfold s. rewrite !app_length, repeat_length. lia.
Qed.

Corollary wild6 pre : (1 <= length pre <= 7)%nat -> Forall small pre ->
  pton (join pre ++ [colon; star]) true false =
  Res (length (join pre ++ [colon; star])) (Some (16 * N.of_nat (length pre))) (pre ++ repeat 0 (8 - length pre)).
Proof. exact (wild6_run pre 0). Qed.

(* ================= 4 (compressed). pre::post/n ================= *)
Definition cidr6c_text (pre post : groups) (n : N) : str := join pre ++ [colon; colon] ++ join post ++ [slash] ++ dec n.

Lemma v6_groups_k' l (A : groups) m f pos ps pspos rest cpos ub tr bits R ii gs :
  ii = length A -> gs = A ++ repeat 0 (length l + m) ->
  Forall small l -> (length A + length l <= 8)%nat -> hdis rest 46 = false -> hdis rest 58 = false ->
  (length (joinc l ++ rest) < f)%nat ->
  (forall f' ps' pspos', (length rest < f')%nat ->
     v6 f' rest (pos + length (joinc l)) ub tr 0 (length A + length l) cpos ps' pspos' ((A ++ l) ++ repeat 0 m) bits = R) ->
  v6 f (joinc l ++ rest) pos ub tr 0 ii cpos ps pspos gs bits = R.
Proof. intros -> ->. apply v6_groups_k. Qed.

Lemma v6_group_slash' x (A : groups) m f tr pos cpos ps pspos bits n ii gs :
  ii = length A -> gs = A ++ repeat 0 (S m) ->
  small x -> (length A < 8)%nat -> n <= 128 -> (length (hexstr x ++ slash :: dec n) < f)%nat ->
  v6 f (hexstr x ++ slash :: dec n) pos true tr 0 ii cpos ps pspos gs bits =
  Res (pos + length (hexstr x) + 1 + length (dec n))%nat (Some n) (fixup ((A ++ [x]) ++ repeat 0 m) (S (length A)) cpos).
Proof. intros -> ->. apply v6_group_slash. Qed.

Lemma fixup_spec' (A B : groups) m ii cpos gs : cpos = length A -> ii = (length A + length B)%nat -> (length A < 8)%nat ->
  gs = (A ++ B) ++ repeat 0 m ->
  fixup gs ii cpos = A ++ repeat 0 (8 - ii) ++ B.
Proof. intros -> -> H ->. apply fixup_spec. exact H. Qed.

Lemma rep0_snoc k (l : groups) : repeat 0 (S k) ++ l = repeat 0 k ++ 0 :: l.
Proof. cbn [repeat]. rewrite repeat_cons, <- app_assoc. reflexivity. Qed.

Lemma joinc_hex_skipws l x rest : Forall small l -> small x ->
  skipws (joinc l ++ hexstr x ++ rest) = (joinc l ++ hexstr x ++ rest, 0%nat).
Proof.
  intros Hl Hx. destruct l as [|y l]; [apply hexstr_skipws; exact Hx|].
  apply joinc_skipws; [discriminate|exact Hl].
Qed.
Lemma has_mid s1 s2 s3 : exists k, has (s1 ++ s2 ++ colon :: s3) 58 = Some k.
Proof. rewrite app_assoc. apply has_some. reflexivity. Qed.

Lemma tail46 post n : Forall small post -> n <= 128 -> Forall (fun c => isch c 46 = false) (join post ++ slash :: dec n).
Proof.
  intros Hs Hn. fa.
  - destruct post as [|y l]; [constructor|]. assert (y :: l <> []) as Hne by discriminate.
    destruct (exists_last Hne) as (l' & z & E). rewrite E in *. rewrite join_snoc.
    apply Forall_app in Hs as [Hl Hz]. inversion Hz; subst. fa; [apply joinc_not46; exact Hl|].
    apply hexstr_not; [assumption|right; left; reflexivity].
  - apply dec_not46. lia.
Qed.

Lemma tail_hdis post n k : Forall small post -> k = 46 \/ k = 58 -> hdis (join post ++ slash :: dec n) k = false.
Proof.
  intros Hs Hk. destruct post as [|y l]; [destruct Hk as [-> | ->]; reflexivity|].
  assert (y :: l <> []) as Hne by discriminate.
  destruct (exists_last Hne) as (l' & z & E). rewrite E in *. rewrite join_snoc, <- app_assoc.
  apply Forall_app in Hs as [Hl Hz]. inversion Hz; subst.
  assert (sepch k) as Sk by (destruct Hk as [-> | ->]; [right; left; reflexivity|right; right; right; reflexivity]).
  apply joinc_hdis; [exact Hl|exact Sk|]. apply hexstr_hdis; assumption.
Qed.

(* the part after "::" : zero or more groups, then "/n"; the state just before it is: ii groups placed (A), compression at cpos *)
Lemma v6_tail post (A : groups) m f pos ps pspos cpos bits n :
  Forall small post -> n <= 128 -> (length A + length post <= 8)%nat ->
  (length post = 0%nat -> (length A < 8)%nat /\ exists m', m = S m') ->
  (length (join post ++ slash :: dec n) < f)%nat ->
  exists G, (post <> [] -> G = fixup ((A ++ post) ++ repeat 0 m) (length A + length post) cpos) /\
            (post = [] -> G = fixup (setg (A ++ repeat 0 m) (length A) 0) (S (length A)) cpos) /\
  v6 f (join post ++ slash :: dec n) pos true false 0 (length A) cpos ps pspos (A ++ repeat 0 (length post + m)) bits =
  Res (pos + length (join post ++ slash :: dec n))%nat (Some n) G.
Proof.
  intros Hs Hn Hl H0 Hf. destruct post as [|y l].
  - destruct (H0 eq_refl) as (HA & m' & ->). eexists. split; [congruence|]. split; [reflexivity|].
    cbn [join app length Nat.add] in *. rewrite v6_slash by (try exact Hn; lia). f_equal. lia.
  - assert (y :: l <> []) as Hne by discriminate.
    destruct (exists_last Hne) as (l' & z & E). rewrite E in *. clear E Hne H0.
    apply Forall_app in Hs as [Hsl Hz]. inversion Hz as [|? ? Hz' _]; subst.
    rewrite app_length in Hl |- *. cbn [length] in Hl |- *.
    eexists. split; [reflexivity|]. split; [intros Z; destruct l'; discriminate|].
    rewrite join_snoc, <- app_assoc in *.
    apply (v6_groups_k' l' A (S m)); [reflexivity|f_equal; f_equal; lia|exact Hsl|lia
      |apply hexstr_hdis; [exact Hz'|right; left; reflexivity]
      |apply hexstr_hdis; [exact Hz'|right; right; right; reflexivity]|exact Hf|].
    intros f1 ps1 pspos1 Hf1.
    rewrite (v6_group_slash' z (A ++ l') m) by (try reflexivity; try exact Hz'; try exact Hn; try exact Hf1; rewrite ?app_length; lia).
    f_equal.
    + rewrite !app_length. cbn [length]. lia.
    + rewrite <- (app_assoc A l' [z]). f_equal. rewrite app_length. lia.
Qed.

Theorem cidr6_compressed_nil post n : (length post <= 7)%nat -> Forall small post -> n <= 128 ->
  pton (cidr6c_text [] post n) true false =
  Res (length (cidr6c_text [] post n)) (Some n) (repeat 0 (8 - length post) ++ post).
Proof.
  intros Hl Hs Hn. unfold cidr6c_text. cbn [join app].
  change ([slash] ++ dec n) with (slash :: dec n).
  set (T := join post ++ slash :: dec n).
  assert (has (colon :: colon :: T) 46 = None) as H46.
  { apply has_none. constructor; [reflexivity|]. constructor; [reflexivity|]. apply tail46; assumption. }
  rewrite (pton_v6_dc T true false H46 (tail_hdis post n 58 Hs (or_intror eq_refl))).
  assert (zeros = [] ++ repeat 0 (length post + (8 - length post))) as Z
    by (replace (length post + (8 - length post))%nat with 8%nat by lia; reflexivity).
  rewrite Z.
  destruct (v6_tail post [] (8 - length post) (S (S (length (colon :: colon :: T)))) 2 T 2 0 None n Hs Hn
              ltac:(cbn [length]; lia) ltac:(intros E; rewrite E; split; [cbn [length]; lia|exists 7%nat; reflexivity])
              ltac:(fold T; cbn [length]; lia)) as (G & G1 & G2 & E).
  cbn [length] in E. fold T in E. cbn [length]. rewrite E. f_equal.
  destruct post as [|y l].
  - rewrite (G2 eq_refl). reflexivity.
  - rewrite (G1 ltac:(discriminate)).
    apply (fixup_spec' [] (y :: l) (8 - length (y :: l))); [reflexivity|reflexivity|cbn [length]; lia|reflexivity].
Qed.

Lemma v6_pre_dcolon pre' p T f R : Forall small pre' -> small p -> (length pre' <= 6)%nat ->
  (length (joinc pre' ++ hexstr p ++ colon :: colon :: T) < f)%nat ->
  (forall f' ps' pspos', (length (colon :: T) < f')%nat ->
     v6 f' (colon :: T) (S (length (joinc pre') + length (hexstr p))) true false 0 (S (length pre')) (S (length pre')) ps' pspos'
        ((pre' ++ [p]) ++ repeat 0 (7 - length pre')) None = R) ->
  v6 f (joinc pre' ++ hexstr p ++ colon :: colon :: T) 0 true false 0 0 8 [] 0%nat zeros None = R.
Proof.
  intros Hs Hp Hl Hf K.
  apply (v6_groups_k' pre' [] (S (7 - length pre')));
    [reflexivity|cbn [app]; unfold zeros; f_equal; lia|exact Hs|cbn [length]; lia
    |apply hexstr_hdis; [exact Hp|right; left; reflexivity]
    |apply hexstr_hdis; [exact Hp|right; right; right; reflexivity]|exact Hf|].
  intros f1 ps1 pspos1 Hf1. cbn [app length Nat.add].
  destruct (hexstr_ok p Hp) as (E & _ & _).
  apply (v6_hex_k (hexstr p) 0 p); [exact E|lia|exact Hf1|]. intros f2 Hf2.
  apply v6_dcolon_k; [lia|exact Hf2|]. intros f3 Hf3.
  cbn [repeat]. rewrite setg_at. apply K. exact Hf3.
Qed.

Theorem cidr6_compressed_snoc pre' p post n :
  (length (pre' ++ [p]) + length post <= 7)%nat -> Forall small pre' -> small p -> Forall small post -> n <= 128 ->
  pton (cidr6c_text (pre' ++ [p]) post n) true false =
  Res (length (cidr6c_text (pre' ++ [p]) post n)) (Some n)
      ((pre' ++ [p]) ++ repeat 0 (8 - length (pre' ++ [p]) - length post) ++ post).
Proof.
  intros Hl Hs Hp Hsp Hn. unfold cidr6c_text. rewrite join_snoc, <- app_assoc.
  change ([colon; colon] ++ join post ++ [slash] ++ dec n) with (colon :: colon :: (join post ++ slash :: dec n)).
  set (T := join post ++ slash :: dec n).
  set (s := joinc pre' ++ hexstr p ++ colon :: colon :: T).
  assert (length (pre' ++ [p]) = S (length pre')) as Hlen by (rewrite app_length; cbn [length]; lia).
  rewrite Hlen in Hl.
  destruct (has_mid (joinc pre') (hexstr p) (colon :: T)) as [k Hk].
  assert (has s 46 = None) as H46.
  { apply has_none. unfold s. fa; [apply joinc_not46; exact Hs|apply hexstr_not; [exact Hp|right; left; reflexivity]|].
    apply tail46; assumption. }
  rewrite (pton_v6_entry s true false k (joinc_hex_skipws pre' p _ Hs Hp) Hk H46)
    by (apply joinc_hdis; [exact Hs|right; right; right; reflexivity|apply hexstr_hdis; [exact Hp|right; right; right; reflexivity]]).
  unfold s at 2. apply v6_pre_dcolon; [exact Hs|exact Hp|lia|fold s; lia|]. intros f1 ps1 pspos1 Hf1.
  apply v6_colon_k; [lia|apply tail_hdis; [exact Hsp|left; reflexivity]|apply tail_hdis; [exact Hsp|right; reflexivity]|exact Hf1|].
  intros f2 Hf2.
  replace (7 - length pre')%nat with (S (6 - length pre')) by lia. cbn [repeat].
  rewrite <- Hlen. rewrite setg_at. set (pre := pre' ++ [p]) in *.
  destruct (Nat.eq_dec (length pre') 6) as [E6|N6].
  - assert (post = []) as -> by (destruct post; [reflexivity|cbn [length] in Hl; lia]).
    unfold T in *. cbn [join app] in *.
    rewrite v6_slash8 by (try exact Hn; cbn [length] in Hf2; lia).
    f_equal.
    + unfold s. rewrite !app_length. cbn [length]. lia.
    + rewrite (fixup_spec' pre [0] (6 - length pre') (S (length pre)) (length pre) _ eq_refl);
        [|cbn [length]; lia|lia|reflexivity].
      replace (8 - S (length pre))%nat with 0%nat by lia.
      replace (8 - length pre - length (@nil N))%nat with 1%nat by (cbn [length]; lia). reflexivity.
  - assert (length (pre ++ [0]) = S (length pre)) as Hlen2 by (rewrite app_length; cbn [length]; lia).
    rewrite <- Hlen2.
    replace (6 - length pre')%nat with (length post + (6 - length pre' - length post))%nat by lia.
    destruct (v6_tail post (pre ++ [0]) (6 - length pre' - length post) f2 (S (S (length (joinc pre') + length (hexstr p)))) T
                (S (S (length (joinc pre') + length (hexstr p)))) (length pre) None n Hsp Hn
                ltac:(lia) ltac:(intros E; rewrite E; split; [lia|exists (5 - length pre')%nat; lia])
                Hf2) as (G & G1 & G2 & E).
    fold T in E. rewrite E. f_equal.
    + unfold s. rewrite !app_length. cbn [length]. lia.
    + destruct post as [|y l].
      * rewrite (G2 eq_refl). cbn [length Nat.add]. replace (6 - length pre' - 0)%nat with (S (5 - length pre')) by lia.
        cbn [repeat]. rewrite setg_at.
        rewrite (fixup_spec' pre [0; 0] (5 - length pre') (S (length (pre ++ [0]))) (length pre) _ eq_refl);
          [|cbn [length]; lia|lia|rewrite <- (app_assoc pre [0] [0]); reflexivity].
        replace (8 - length pre - 0)%nat with (S (S (8 - S (length (pre ++ [0]))))) by lia.
        rewrite rep0_snoc, rep0_snoc. reflexivity.
      * rewrite (G1 ltac:(discriminate)).
        rewrite (fixup_spec' pre (0 :: y :: l) (6 - length pre' - length (y :: l))
                   (length (pre ++ [0%N]) + length (y :: l))%nat (length pre) _ eq_refl);
          [|cbn [length] in *; lia|lia|rewrite <- (app_assoc pre [0] (y :: l)); reflexivity].
        replace (8 - length pre - length (y :: l))%nat with (S (8 - (length (pre ++ [0]) + length (y :: l)))) by (cbn [length] in *; lia).
        rewrite rep0_snoc. reflexivity.
Qed.

Theorem cidr6_compressed pre post n :
  (length pre + length post <= 7)%nat -> Forall small pre -> Forall small post -> n <= 128 ->
  pton (cidr6c_text pre post n) true false =
  Res (length (cidr6c_text pre post n)) (Some n) (pre ++ repeat 0 (8 - length pre - length post) ++ post).
Proof.
  intros Hl Hs Hsp Hn. destruct pre as [|x pre0].
  - exact (cidr6_compressed_nil post n Hl Hsp Hn).
  - assert (x :: pre0 <> []) as Hne by discriminate.
    destruct (exists_last Hne) as (pre' & p & E). rewrite E in *.
    apply Forall_app in Hs as [Hs' Hp]. inversion Hp; subst.
    apply cidr6_compressed_snoc; assumption.
Qed.

(* the documented special case "x:y::/n" *)
Corollary cidr6_prefix pre n : (length pre <= 7)%nat -> Forall small pre -> n <= 128 ->
  pton (join pre ++ [colon; colon; slash] ++ dec n) true false =
  Res (length (join pre ++ [colon; colon; slash] ++ dec n)) (Some n) (pre ++ repeat 0 (8 - length pre)).
Proof.
  intros Hl Hs Hn. pose proof (cidr6_compressed pre [] n ltac:(cbn [length]; lia) Hs (Forall_nil _) Hn) as P.
  cbn [length] in P. rewrite Nat.sub_0_r, app_nil_r in P. exact P.
Qed.

(* ================= the side conditions are exact ================= *)
Example cidr4_n33 : pton (cidr4_text 1 2 3 4 33) true false = Res 0 None zeros.
Proof. vm_compute. reflexivity. Qed.
Example cidr6_n129 : pton (cidr6_text [1; 2; 3; 4; 5; 6; 7; 8] 129) true false = Res 0 None [1; 2; 3; 4; 5; 6; 7; 8].
Proof. vm_compute. reflexivity. Qed.
Example cidr6_compressed_8 : pton (cidr6c_text [1; 2; 3; 4; 5; 6; 7] [8] 128) true false = Res 0 (Some 128) [1; 2; 3; 4; 5; 6; 7; 0].
Proof. vm_compute. reflexivity. Qed.
Example wild6_8 : pton (wild6_text [1; 2; 3; 4; 5; 6; 7; 8] 0) true false = Res 0 (Some 128) [1; 2; 3; 4; 5; 6; 7; 8].
Proof. vm_compute. reflexivity. Qed.
Example read_dec_wraps : read_dec (dec 4294967296 ++ [slash]) 0 = (0, [slash], 10%nat).
Proof. vm_compute. reflexivity. Qed.
