(* The routing tag printed by the daemon ("%x_%x": id as a 32-bit two's complement number, serial) is read back by
   parse_tag as the same (id, serial): number printing / parsing round trip in base 16. *)
From Coq Require Import List NArith ZArith Bool Strings.Byte Strings.String Lia.
Import ListNotations.
Require Import Iauth.
Local Open Scope list_scope.
Local Open Scope N_scope.

(* ---------- the digits of a number, most significant first ---------- *)
Fixpoint nd (fuel : nat) (n : N) : list N :=
  match fuel with O => [] | S f => if n / 16 =? 0 then [n mod 16] else nd f (n / 16) ++ [n mod 16] end.
Definition val (a : N) (vs : list N) : N := fold_left (fun a v => a * 16 + v) vs a.
Definition lt16 (v : N) : Prop := v < 16.

Lemma digits_nd f : forall n acc, digits f 16 hexdigit n acc = map hexdigit (nd f n) ++ acc.
Proof.
  induction f as [|f IH]; intros n acc; cbn [digits nd]; [reflexivity|].
  destruct (n / 16 =? 0); [reflexivity|]. rewrite IH, map_app, <- app_assoc. reflexivity.
Qed.

Lemma nd_nonempty f n : nd (S f) n <> [].
Proof. cbn [nd]. destruct (n / 16 =? 0); [discriminate|]. destruct (nd f (n / 16)); discriminate. Qed.

Lemma nd_lt16 f : forall n, Forall lt16 (nd f n).
Proof.
  induction f as [|f IH]; intros n; cbn [nd]; [constructor|].
  assert (lt16 (n mod 16)) as Hm by (apply N.mod_lt; discriminate).
  destruct (n / 16 =? 0); [repeat constructor; exact Hm|]. apply Forall_app. split; [apply IH|repeat constructor; exact Hm].
Qed.

Lemma nd_val f : forall n, n < 16 ^ N.of_nat f -> val 0 (nd f n) = n.
Proof.
  induction f as [|f IH]; intros n Hn.
  - cbn in Hn. cbn [nd val fold_left]. lia.
  - cbn [nd]. rewrite Nat2N.inj_succ, N.pow_succ_r' in Hn.
    pose proof (N.div_mod n 16 ltac:(discriminate)) as Hd.
    assert (n / 16 < 16 ^ N.of_nat f) as Hq by (apply N.div_lt_upper_bound; [discriminate|exact Hn]).
    destruct (n / 16 =? 0) eqn:E.
    + apply N.eqb_eq in E. rewrite E in Hd. unfold val. cbn [fold_left]. set (m := n mod 16) in *. clearbody m. lia.
    + unfold val. rewrite fold_left_app. fold (val 0 (nd f (n / 16))). rewrite (IH _ Hq). cbn [fold_left].
      set (q := n / 16) in *. set (m := n mod 16) in *. clearbody q m. lia.
Qed.

Lemma val_ge vs : forall a, a <= val a vs.
Proof.
  unfold val. induction vs as [|v vs IH]; intros a; cbn [fold_left]; [lia|].
  specialize (IH (a * 16 + v)). lia.
Qed.

(* ---------- what the parser needs to know about a digit character, checked on all sixteen ---------- *)
Definition hd_ok (v : N) : bool :=
  match hv (hexdigit v) with Some w => w =? v | None => false end &&
  negb (isspace (hexdigit v)) && negb (beq (hexdigit v) x2d) && negb (beq (hexdigit v) x2b) &&
  negb (beq (hexdigit v) x78 || beq (hexdigit v) x58).
Lemma hd_ok_all : forallb (fun k => hd_ok (N.of_nat k)) (seq 0 16) = true.
Proof. vm_compute. reflexivity. Qed.
Lemma hd_ok_lt v : lt16 v -> hd_ok v = true.
Proof.
  unfold lt16. intros H. rewrite <- (N2Nat.id v).
  apply (proj1 (forallb_forall _ _) hd_ok_all (N.to_nat v)). apply in_seq. lia.
Qed.
Lemma hd_facts v : lt16 v ->
  hv (hexdigit v) = Some v /\ isspace (hexdigit v) = false /\ beq (hexdigit v) x2d = false /\ beq (hexdigit v) x2b = false /\
  beq (hexdigit v) x78 || beq (hexdigit v) x58 = false.
Proof.
  intros H. pose proof (hd_ok_lt v H) as K. unfold hd_ok in K.
  repeat (apply andb_true_iff in K; destruct K as [K ?]).
  repeat match goal with H : negb _ = true |- _ => apply negb_true_iff in H end.
  repeat split; try assumption.
  destruct (hv (hexdigit v)) as [w|]; [|discriminate]. apply N.eqb_eq in K. subst; reflexivity.
Qed.

(* ---------- hexrun over a digit string ---------- *)
Lemma hexrun_digits vs : forall a cap rest, Forall lt16 vs -> val a vs <= cap ->
  hexrun (map hexdigit vs ++ rest) a cap = let '(x, r, k) := hexrun rest (val a vs) cap in (x, r, (List.length vs + k)%nat).
Proof.
  induction vs as [|v vs IH]; intros a cap rest Hl Hc.
  - cbn [map app val fold_left List.length]. destruct (hexrun rest a cap) as [[x r] k]. reflexivity.
  - inversion Hl as [|? ? Hv Hvs]; subst. cbn [map app hexrun].
    destruct (hd_facts v Hv) as (E & _). rewrite E.
    change (val a (v :: vs)) with (val (a * 16 + v) vs) in *.
    pose proof (val_ge vs (a * 16 + v)) as G. rewrite N.min_l by lia.
    rewrite (IH _ _ _ Hvs Hc). destruct (hexrun rest (val (a * 16 + v) vs) cap) as [[x r] k]. reflexivity.
Qed.

(* ---------- strtox over a digit string that ends the text or is followed by '_' ---------- *)
Definition strip0x (s1 : str) : str :=
  match s1 with
  | z :: x :: (d :: _) as r => if beq z x30 && (beq x x78 || beq x x58) && (match hv d with Some _ => true | None => false end) then r else s1
  | _ => s1 end.

Lemma strtox_unfold s0 cap :
  strtox s0 cap =
  let s := skipws s0 in
  let '(neg, s1) := match s with c :: r => if beq c x2d then (true, r) else if beq c x2b then (false, r) else (false, s) | [] => (false, s) end in
  let '(v, rest, n) := hexrun (strip0x s1) 0 cap in
  match n with O => None | _ => Some (neg, v, rest) end.
Proof. reflexivity. Qed.

Definition ends_ok (rest : str) : Prop := rest = [] \/ exists t, rest = x5f :: t.

Lemma strtox_hex v vs rest cap :
  Forall lt16 (v :: vs) -> val 0 (v :: vs) <= cap -> ends_ok rest ->
  strtox (map hexdigit (v :: vs) ++ rest) cap = Some (false, val 0 (v :: vs), rest).
Proof.
  intros Hl Hc He. rewrite strtox_unfold. cbv zeta.
  inversion Hl as [|? ? Hv Hvs]; subst.
  destruct (hd_facts v Hv) as (_ & E1 & E2 & E3 & _).
  cbn [map app skipws]. rewrite E1, E2, E3.
  assert (strip0x (hexdigit v :: map hexdigit vs ++ rest) = hexdigit v :: map hexdigit vs ++ rest) as ->.
  { assert (forall x l, map hexdigit vs ++ rest = x :: l -> beq x x78 || beq x x58 = false) as Hx.
    { intros x l El. destruct vs as [|v2 vs'].
      - cbn [map app] in El. destruct He as [->|(t & ->)]; [discriminate|]. injection El as <- _. reflexivity.
      - cbn [map app] in El. injection El as <- _. inversion Hvs; subst. apply hd_facts; assumption. }
    destruct (map hexdigit vs ++ rest) as [|x [|d t]]; try reflexivity.
    cbn [strip0x]. rewrite (Hx x (d :: t) eq_refl), andb_false_r. reflexivity. }
  change (hexdigit v :: map hexdigit vs ++ rest) with (map hexdigit (v :: vs) ++ rest).
  rewrite (hexrun_digits (v :: vs) 0 cap rest Hl Hc).
  assert (hexrun rest (val 0 (v :: vs)) cap = (val 0 (v :: vs), rest, O)) as ->.
  { destruct He as [->|(t & ->)]; reflexivity. }
  cbn [List.length Nat.add]. reflexivity.
Qed.

Lemma hex_shape n : n < 16 ^ 40 -> exists v vs, Forall lt16 (v :: vs) /\ val 0 (v :: vs) = n /\ hex n = map hexdigit (v :: vs).
Proof.
  intros Hn. unfold hex. rewrite digits_nd, app_nil_r.
  pose proof (nd_nonempty 39 n) as Hne. pose proof (nd_lt16 40 n) as Hl. pose proof (nd_val 40 n Hn) as Hv.
  destruct (nd 40 n) as [|v vs]; [contradiction|]. exists v, vs. repeat split; assumption.
Qed.

Lemma to_int32_mod id : (-2147483648 <= id < 2147483648)%Z -> to_int32 (id mod 4294967296)%Z = id.
Proof.
  intros H. unfold to_int32. rewrite Z.mod_mod by discriminate.
  destruct (Z.ltb_spec 0 (id + 1)%Z) as [Hp|Hp].
  - rewrite Z.mod_small by lia. destruct (Z.ltb_spec id 2147483648); lia.
  - assert ((id mod 4294967296)%Z = (id + 4294967296)%Z) as ->.
    { symmetry. apply Z.mod_unique_pos with (q := (-1)%Z); lia. }
    destruct (Z.ltb_spec (id + 4294967296) 2147483648); lia.
Qed.

Theorem tag_roundtrip id sr :
  (-2147483648 <= id < 2147483648)%Z -> sr < 4294967296 ->
  parse_tag (hexZ32 id ++ [x5f] ++ hex sr) = Some (id, sr).
Proof.
  intros Hid Hsr. unfold hexZ32.
  set (n1 := Z.to_N (id mod 4294967296)%Z).
  assert (n1 < 4294967296) as Hn1.
  { unfold n1. pose proof (Z.mod_pos_bound id 4294967296 eq_refl). lia. }
  assert (4294967296 < 16 ^ 40) as Hbig by (vm_compute; reflexivity).
  destruct (hex_shape n1 ltac:(lia)) as (v & vs & L1 & V1 & E1).
  destruct (hex_shape sr ltac:(lia)) as (w & ws & L2 & V2 & E2).
  unfold parse_tag. rewrite E1, E2.
  rewrite (strtox_hex v vs ([x5f] ++ map hexdigit (w :: ws)) (LONG_MAX + 1) L1).
  2:{ rewrite V1. unfold LONG_MAX. lia. }
  2:{ right. eexists. reflexivity. }
  cbn [app]. change (negb (beq x5f x5f)) with false. cbv iota.
  rewrite <- (app_nil_r (map hexdigit (w :: ws))).
  rewrite (strtox_hex w ws [] (ULONG_MAX + 1) L2).
  2:{ rewrite V2. unfold ULONG_MAX. lia. }
  2:{ left. reflexivity. }
  rewrite V1, V2.
  assert (N.min n1 LONG_MAX = n1) as -> by (unfold LONG_MAX; lia).
  assert ((ULONG_MAX <? sr) = false) as -> by (apply N.ltb_ge; unfold ULONG_MAX; lia).
  rewrite (N.mod_small sr) by exact Hsr.
  unfold n1. rewrite Z2N.id by (apply Z.mod_pos_bound; reflexivity).
  rewrite to_int32_mod by exact Hid. reflexivity.
Qed.

