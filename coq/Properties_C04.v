(* C04: replies affect only the client instance they were asked about.  ONLY statements closed by `exact`, each followed by Print Assumptions. *)
From Coq Require Import List NArith ZArith Bool Strings.Byte Strings.String.
Import ListNotations.
Require Import Params Iauth Mon01 Stray TagRT.
Local Open Scope list_scope.

(* reply_target s svc tag = the live instance whose (id, serial) the tag denotes and which still awaits svc.
   A reply or unlinked notice with no target - stale serial, other id, malformed tag, unknown or not-awaited service -
   leaves the STATE unchanged and produces no output, in every state whatsoever *)
Theorem stray_reply_changes_nothing : forall c s id argv,
  cmdchar argv = x58 \/ cmdchar argv = x78 ->
  match arg 1 argv, arg 2 argv, arg 3 argv with
  | Some svcn, Some tag, Some _ => reply_target s svcn tag = None
  | _, _, _ => True
  end ->
  step c s id argv = (s, []).
Proof. exact stray_reply_gen. Qed.
Print Assumptions stray_reply_changes_nothing.

(* hence it can be erased from any history without any difference in later behaviour *)
Theorem stray_reply_is_erasable : forall c s e evs, stray s e -> run_out c s (e :: evs) = [] :: run_out c s evs.
Proof. exact stray_reply_erasable. Qed.
Print Assumptions stray_reply_is_erasable.

(* serials: live instances have pairwise distinct serials, all assigned so far; a newcomer gets a fresh one,
   so a tag naming a departed instance never matches a newcomer reusing its id (fewer than 2^32 announcements) *)
Theorem serials_are_fresh : forall c s0 evs,
  reqs s0 = [] -> next s0 = 0%N -> (N.of_nat (n_announces evs) < 4294967296)%N ->
  SerInv (fold_left (fun s e => fst (step_ev c s e)) evs s0) /\
  next (fold_left (fun s e => fst (step_ev c s e)) evs s0) = N.of_nat (n_announces evs).
Proof. exact serial_fresh. Qed.
Print Assumptions serials_are_fresh.

Theorem newcomer_gets_next_serial : forall c s id argv r',
  announces argv = true -> (next s < 4294967295)%N ->
  lookup id (reqs (fst (step c s id argv))) = Some r' -> ser r' = (next s + 1)%N.
Proof. exact newcomer_serial. Qed.
Print Assumptions newcomer_gets_next_serial.

(* the routing tag the daemon prints parses back to exactly (id, serial) *)
Theorem tag_denotes_its_instance : forall id sr,
  (-2147483648 <= id < 2147483648)%Z -> (sr < 4294967296)%N -> parse_tag (hexZ32 id ++ [x5f] ++ hex sr) = Some (id, sr).
Proof. exact tag_roundtrip. Qed.
Print Assumptions tag_denotes_its_instance.
