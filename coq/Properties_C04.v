(* C04: theorems are being added; this file holds ONLY statements closed by exact, each followed by Print Assumptions. *)
From Coq Require Import List NArith ZArith Bool Strings.Byte Strings.String.
Import ListNotations.
Require Import Params Iauth IauthFacts.
Local Open Scope list_scope.

Theorem stray_reply_is_a_noop_on_the_request : forall c tb r svcn text,
  find_slot (slots tb) 0 svcn (refm r) = None -> reply c tb r svcn text = (Some r, [], []).
Proof. exact stray_reply_noop. Qed.
Print Assumptions stray_reply_is_a_noop_on_the_request.
