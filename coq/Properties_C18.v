(* C18: log routing follows the logs section.  ONLY statements closed by `exact`, each followed by Print Assumptions.
   LogModel.route / parse_sevset follow src/log.c (log_parse_type_sevset, log_rescan_conf, log_vmessage); the routing tables they
   produce are compared with the files src/log.c writes on every run. *)
From Coq Require Import List Arith Strings.Byte Strings.String.
Import ListNotations.
Require Import LogModel LogProps.
Local Open Scope string_scope.
Local Open Scope list_scope.

(* every severity expression of the documentation (names, comma lists, < <= = >= > ranges and the star) is read as the set it denotes *)
Theorem severity_expression_denotes_its_set : forall fac e, no_dot fac -> wf e ->
  parse_sevset (fac ++ S_ "." ++ render_sexp e) = Some (fac, map (denote e) [0;1;2;3;4;5]).
Proof. exact sevset_denote. Qed.
Print Assumptions severity_expression_denotes_its_set.

(* a message of facility fac and severity sev goes to destination d exactly when some entry of the current section maps fac (or * )
   with a severity set containing sev to d *)
Theorem routed_exactly_when_mapped : forall sec fac sev d,
  In d (route sec fac sev) <->
  exists name ds f flags,
    In (name, ds) sec /\ parse_sevset name = Some (f, flags) /\
    (ci_eq f fac = true \/ f = S_ "*") /\ nth sev flags false = true /\ In d ds.
Proof. exact route_iff. Qed.
Print Assumptions routed_exactly_when_mapped.

(* the same in the vocabulary of the documentation, for sections written with documented expressions *)
Theorem routing_follows_the_documented_meaning : forall dsec fac sev d, Forall wf_doc dsec -> (sev < 6)%nat ->
  (In d (route (map render_entry dsec) fac sev) <->
   exists f x ds, In (f, x, ds) dsec /\ (ci_eq f fac = true \/ f = S_ "*") /\ denote x sev = true /\ In d ds).
Proof. exact route_documented. Qed.
Print Assumptions routing_follows_the_documented_meaning.

(* an entry with unknown syntax is ignored as a whole *)
Theorem unknown_syntax_entry_is_ignored : forall name ds pre post fac sev,
  parse_sevset name = None -> route (pre ++ (name, ds) :: post) fac sev = route (pre ++ post) fac sev.
Proof. exact bad_entry_ignored. Qed.
Print Assumptions unknown_syntax_entry_is_ignored.

(* after any sequence of reloads the routing is that of the last section only *)
Theorem routing_is_that_of_the_current_section : forall st0 secs sec fac sev,
  route (after_reloads st0 (secs ++ [sec])) fac sev = route sec fac sev.
Proof. exact route_depends_on_current_section_only. Qed.
Print Assumptions routing_is_that_of_the_current_section.

(* every line is complete (no LF inside) and attributed: facility and severity can be read back from it *)
Theorem line_is_complete : forall fac sev msg, (sev < 6)%nat -> no_lf fac -> no_lf msg ->
  no_lf (line_of fac sev msg)
  /\ line_of fac sev msg = S_ "(" ++ fac ++ S_ ":" ++ nth sev sev_names [] ++ S_ ") " ++ msg
  /\ In (nth sev sev_names []) sev_names.
Proof. exact line_complete. Qed.
Print Assumptions line_is_complete.

Theorem line_is_attributed : forall fac1 sev1 msg1 fac2 sev2 msg2,
  lacks x3a fac1 -> lacks x3a fac2 -> (sev1 < 6)%nat -> (sev2 < 6)%nat ->
  line_of fac1 sev1 msg1 = line_of fac2 sev2 msg2 -> fac1 = fac2 /\ sev1 = sev2 /\ msg1 = msg2.
Proof. exact line_attributed. Qed.
Print Assumptions line_is_attributed.
