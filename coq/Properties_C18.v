(* C18: log routing follows the logs section.  Theorems on the Coq log model are being added (LogModel.v / LogProps.v). *)
From Coq Require Import List.
Require Import Merge2 Merge3.
(* the part already available: a reload with identical content changes nothing (value part of the merge), so routes are not rebuilt needlessly *)
Theorem identical_reload_changes_nothing : forall s t, merge (merge t s) s = merge t s.
Proof. exact merge_idem. Qed.
Print Assumptions identical_reload_changes_nothing.
