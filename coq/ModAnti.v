(* module_antidepends: the second declaration of the module interface (src/module.c).  Called in the constructor of a module b
   ("back end"), module_antidepends(x) declares that module x depends on b: b provides for x and must be unloaded AFTER x.
   C code (after the repair):   for each x of the call, in order:  if x is not in the table, load it (exactly as module_depends does);
                                x->depends += b;   b->rdepends += x   (this second line is the repair; the original code lacked it).
   load2 fixed : fixed = true is the repaired code, fixed = false the original.  The post-init walk and the unload rounds are those
   of ModModel.v, unchanged: they work on the RECORDED depends / rdepends lists.
   Results: run2_no_anti (no antidepends: run2 = run), unfixed_destroys_back_end_first (the defect, by evaluation),
   run2_spec / run2_unload_respects_all_dependencies / run2_aborts_iff_cycle (the repaired code, any number of modules). *)
From Coq Require Import List Arith Lia Bool Relations.
Import ListNotations.
Require Import ModModel ModBase ModLoad ModDfs ModClose ModUnbounded.

(* ---------- the model ---------- *)
(* make module y available: nothing to do if it is in the table, else load it *)
Definition avail (rec : mid -> mst -> mst) (y : mid) (st : mst) : mst :=
  if mem y (present st) then st else rec y st.
(* record "p depends on q": p->depends += q; and (if rev_link) q->rdepends += p *)
Definition add_edge (rev_link : bool) (p q : mid) (st : mst) : mst :=
  {| present := present st; deps := upd p (fun l => l ++ [q]) (deps st);
     rdeps := if rev_link then upd q (fun l => l ++ [p]) (rdeps st) else rdeps st; log := log st |}.
(* one module_depends(d) in the constructor of m *)
Definition dep_fn (rec : mid -> mst -> mst) (m : mid) (st : mst) (d : mid) : mst := add_edge true m d (avail rec d st).
(* one module_antidepends(x) in the constructor of b *)
Definition anti_fn (fixed : bool) (rec : mid -> mst -> mst) (b : mid) (st : mst) (x : mid) : mst := add_edge fixed x b (avail rec x st).
Definition ctor_begin (m : mid) (s : mst) : mst :=
  {| present := m :: present s; deps := deps s; rdeps := rdeps s; log := CB m :: log s |}.
Definition ctor_end (m : mid) (s : mst) : mst :=
  {| present := present s; deps := deps s; rdeps := rdeps s; log := CE m :: log s |}.

(* module_load: the constructor of m performs its module_depends calls (g m, in order), then its module_antidepends calls (a m) *)
Fixpoint load2 (fixed : bool) (fuel : nat) (g a : graph) (m : mid) (s : mst) : mst :=
  match fuel with O => s | S f =>
  if mem m (present s) then s else
  ctor_end m (fold_left (anti_fn fixed (load2 fixed f g a) m) (a m)
               (fold_left (dep_fn (load2 fixed f g a) m) (g m) (ctor_begin m s)))
  end.

Definition load_all2 (fixed : bool) (fuel : nat) (g a : graph) (listing : list mid) (s : mst) : mst :=
  fold_left (fun st m => load2 fixed fuel g a m st) listing s.

(* whole run, built like ModModel.run: same dfs and close_all *)
Definition run2 (fixed : bool) (n : nat) (g a : graph) (listing : list mid) : option (list ev) :=
  let s0 := {| present := []; deps := []; rdeps := []; log := [] |} in
  let s := fold_left (fun st m => load2 fixed (S n) g a m st) listing s0 in
  let order := sort (present s) in
  let dp := fun m => assoc m (deps s) in
  let r := fold_left (fun acc m => match acc with
                                   | Some (c, lg) => match colour m c with White => dfs (S n) dp m c lg | _ => Some (c, lg) end
                                   | None => None end) order (Some ([], log s)) in
  match r with
  | None => None
  | Some (_, lg) => Some (rev (close_all (S n) order (present s) (rdeps s) (deps s) lg))
  end.

Lemma load2_S fixed f g a m s : load2 fixed (S f) g a m s =
  if mem m (present s) then s else
  ctor_end m (fold_left (anti_fn fixed (load2 fixed f g a) m) (a m)
               (fold_left (dep_fn (load2 fixed f g a) m) (g m) (ctor_begin m s))).
Proof. reflexivity. Qed.

Lemma run2_eq fixed n g a listing : run2 fixed n g a listing =
  let s := load_all2 fixed (S n) g a listing s0 in
  let order := sort (present s) in
  let dp := fun m => assoc m (deps s) in
  match dfs_all dp (S n) order (Some ([], log s)) with
  | None => None
  | Some (_, lg) => Some (rev (close_all (S n) order (present s) (rdeps s) (deps s) lg))
  end.
Proof. reflexivity. Qed.

(* ---------- 1. without antidepends declarations the extended model is the old one ---------- *)
Lemma fold_left_ext {A B} (F G : A -> B -> A) : (forall x y, F x y = G x y) -> forall l s, fold_left F l s = fold_left G l s.
Proof. intros H l. induction l; simpl; intro s; auto. rewrite H. apply IHl. Qed.

Lemma load2_no_anti fixed g : forall f m s, load2 fixed f g (fun _ => []) m s = load f g m s.
Proof.
  induction f as [|f IH]; intros m s. reflexivity.
  rewrite load2_S, load_S. destruct (mem m (present s)); auto.
  cbv beta zeta. cbn [fold_left].
  rewrite (fold_left_ext (dep_fn (load2 fixed f g (fun _ => [])) m) (load_step f g m)).
  - reflexivity.
  - intros st d. unfold dep_fn, add_edge, avail, load_step. rewrite IH. reflexivity.
Qed.

Theorem run2_no_anti : forall fixed n g listing, run2 fixed n g (fun _ => []) listing = run n g listing.
Proof.
  intros fixed n g listing. rewrite run2_eq, run_eq.
  assert (E : load_all2 fixed (S n) g (fun _ => []) listing s0 = load_all (S n) g listing s0).
  { unfold load_all2, load_all. apply fold_left_ext. intros st m. apply load2_no_anti. }
  rewrite E. reflexivity.
Qed.

(* ---------- 2. the combined dependency relation ---------- *)
(* "m depends on d": declared by m with module_depends, or by d with module_antidepends *)
Definition cdep (g a : graph) (m d : mid) : Prop := In d (g m) \/ In m (a d).
(* what a constructor loads: its dependencies and the modules it provides for *)
Definition ldg (g a : graph) : graph := fun m => g m ++ a m.
Definition loaded (g a : graph) (listing : list mid) (x : mid) : Prop := Reach (ldg g a) listing x.
Definition wfg2 (n : nat) (g a : graph) : Prop := (forall m d, In d (g m) -> d < n) /\ (forall b x, In x (a b) -> x < n).

(* ---------- 3. the original code destroys a back end before the module it provides for ---------- *)
(* the witness observed on the daemon: module 0 depends on 2; back end 1 provides for 2; listing 0, 1 *)
Definition wit_g : graph := fun m => match m with 0 => [2] | _ => [] end.
Definition wit_a : graph := fun m => match m with 1 => [2] | _ => [] end.


Lemma witness_unfixed : run2 false 3 wit_g wit_a [0; 1] =
  Some [CB 0; CB 2; CE 2; CE 0; CB 1; CE 1; PI 1; PI 2; PI 0; DT 0; DT 1; DT 2].
Proof. vm_compute. reflexivity. Qed.
Lemma witness_fixed : run2 true 3 wit_g wit_a [0; 1] =
  Some [CB 0; CB 2; CE 2; CE 0; CB 1; CE 1; PI 1; PI 2; PI 0; DT 0; DT 2; DT 1].
Proof. vm_compute. reflexivity. Qed.

Theorem unfixed_destroys_back_end_first : exists n g a listing lg,
  wfg2 n g a /\ (forall m, In m listing -> m < n) /\ run2 false n g a listing = Some lg /\
  exists b x, In x (a b) /\ precedes (DT b) (DT x) lg /\ count (isDT b) lg = 1 /\ count (isDT x) lg = 1 /\
              before (index (isDT b) lg 0) (index (isDT x) lg 0) = true.
Proof.
  exists 3, wit_g, wit_a, [0; 1], [CB 0; CB 2; CE 2; CE 0; CB 1; CE 1; PI 1; PI 2; PI 0; DT 0; DT 1; DT 2].
  split. { split; intros m d; destruct m as [|[|m]]; simpl; intuition lia. }
  split. { intros m H. simpl in H. intuition lia. }
  split. exact witness_unfixed.
  exists 1, 2. split. simpl; auto.
  split. exists [CB 0; CB 2; CE 2; CE 0; CB 1; CE 1; PI 1; PI 2; PI 0; DT 0], [], []. reflexivity.
  split. reflexivity. split; reflexivity.
Qed.
(* the repaired code on the same input: the back end goes last *)
Theorem fixed_destroys_back_end_last : exists lg, run2 true 3 wit_g wit_a [0; 1] = Some lg /\ precedes (DT 2) (DT 1) lg.
Proof.
  eexists. split. exact witness_fixed. exists [CB 0; CB 2; CE 2; CE 0; CB 1; CE 1; PI 1; PI 2; PI 0; DT 0], [], []. reflexivity.
Qed.

(* ---------- 4. the repaired code: phase 1 (loading) ---------- *)
Lemma assoc_upd_mono p q x d l : In d (assoc x l) -> In d (assoc x (upd p (fun l0 => l0 ++ [q]) l)).
Proof. intro H. rewrite assoc_upd. destruct (Nat.eqb p x) eqn:E; auto. apply Nat.eqb_eq in E. subst. apply in_app_iff; auto. Qed.
Lemma assoc_upd_new p q l : In q (assoc p (upd p (fun l0 => l0 ++ [q]) l)).
Proof. rewrite assoc_upd, Nat.eqb_refl. apply in_app_iff. right; left; auto. Qed.

Section Load2.
  Variable n : nat.
  Variables g a : graph.
  Hypothesis g_lt : forall m d, In d (g m) -> d < n.
  Hypothesis a_lt : forall b x, In x (a b) -> x < n.
  Notation L := (ldg g a).

  (* holds at every point of the loading phase; the recorded lists are described by membership only: with back ends a module's
     depends list also receives entries while the module is under construction or long after its constructor has ended *)
  Record GInv2 (s : mst) : Prop := {
    g2_nodup : NoDup (present s);
    g2_lt : forall x, In x (present s) -> x < n;
    g2_cb1 : forall x, In x (present s) -> count (isCB x) (log s) = 1;
    g2_cb0 : forall x, ~ In x (present s) -> count (isCB x) (log s) = 0;
    g2_ce : forall x, count (isCE x) (log s) <= 1;
    g2_ce_pres : forall x, In (CE x) (log s) -> In x (present s);
    g2_cecb : forall x, In (CE x) (log s) -> precedes (CE x) (CB x) (log s);
    g2_only : Forall is_ctor (log s);
    g2_sound : forall x d, In d (assoc x (deps s)) -> In x (present s) /\ In d (present s) /\ cdep g a x d;
    g2_done_g : forall x d, In (CE x) (log s) -> In d (g x) -> In d (assoc x (deps s));
    g2_done_a : forall b x, In (CE b) (log s) -> In x (a b) -> In b (assoc x (deps s));
    g2_rdeps : forall d x, In x (assoc d (rdeps s)) <-> In d (assoc x (deps s)) }.

  (* recording an edge of the combined relation between two present modules, WITH the reverse link, keeps the invariant *)
  Lemma GInv2_edge p q st : GInv2 st -> In p (present st) -> In q (present st) -> cdep g a p q -> GInv2 (add_edge true p q st).
  Proof.
    intros [G1 G2 G3 G4 G5 G6 G7 G8 G9 G10 G11 G12] Hp Hq Hc. split; unfold add_edge; cbn [present deps rdeps log].
    - exact G1.
    - exact G2.
    - exact G3.
    - exact G4.
    - exact G5.
    - exact G6.
    - exact G7.
    - exact G8.
    - intros x d. rewrite assoc_upd. destruct (Nat.eqb p x) eqn:E.
      + apply Nat.eqb_eq in E. subst x. intro H. apply in_app_iff in H. destruct H as [H|[<-|[]]]; auto.
      + auto.
    - intros x d Hx Hd. apply assoc_upd_mono. auto.
    - intros b x Hb Hx. apply assoc_upd_mono. auto.
    - intros d0 x. rewrite !assoc_upd. destruct (Nat.eqb q d0) eqn:E1; destruct (Nat.eqb p x) eqn:E2;
        try (apply Nat.eqb_eq in E1; subst d0); try (apply Nat.eqb_eq in E2; subst x);
        try (apply Nat.eqb_neq in E1); try (apply Nat.eqb_neq in E2); rewrite ?in_app_iff; simpl; rewrite G12; intuition congruence.
  Qed.

  (* effect of loading the absent module m *)
  Record LPost2 (m : mid) (s s' : mst) : Prop := {
    p2_inv : GInv2 s';
    p2_incl : incl (present s) (present s');
    p2_m : In (CE m) (log s');
    p2_new : forall x, In x (present s') -> In x (present s) \/ (star L m x /\ In (CE x) (log s'));
    p2_log : exists l, log s' = l ++ log s /\ forall x, In (CE x) l -> ~ In x (present s);
    p2_mono : forall x d, In d (assoc x (deps s)) -> In d (assoc x (deps s')) }.

  (* inside the constructor of m, after the module_depends calls preg and the module_antidepends calls prea *)
  Record LInv2 (m : mid) (s : mst) (preg prea : list mid) (st : mst) : Prop := {
    l2_inv : GInv2 st;
    l2_incl : incl (m :: present s) (present st);
    l2_nce : ~ In (CE m) (log st);
    l2_preg : forall d, In d preg -> In d (assoc m (deps st));
    l2_prea : forall x, In x prea -> In m (assoc x (deps st));
    l2_new : forall x, In x (present st) -> In x (m :: present s) \/ (star L m x /\ In (CE x) (log st));
    l2_log : exists l, log st = l ++ CB m :: log s /\ forall x, In (CE x) l -> ~ In x (m :: present s);
    l2_mono : forall x d, In d (assoc x (deps s)) -> In d (assoc x (deps st)) }.

  Definition IHT (f : nat) : Prop := forall (m : mid) s, GInv2 s -> m < n -> ~ In m (present s) -> outside n (present s) < f ->
    LPost2 m s (load2 true f g a m s).

  Lemma avail_ok f (IH : IHT f) y st : GInv2 st -> y < n -> outside n (present st) < f ->
    let st' := avail (load2 true f g a) y st in
    GInv2 st' /\ incl (present st) (present st') /\ In y (present st') /\
    (forall x, In x (present st') -> In x (present st) \/ (star L y x /\ In (CE x) (log st'))) /\
    (exists l, log st' = l ++ log st /\ forall x, In (CE x) l -> ~ In x (present st)) /\
    (forall x d, In d (assoc x (deps st)) -> In d (assoc x (deps st'))).
  Proof.
    intros G Hy Hf st'. unfold st', avail. destruct (mem y (present st)) eqn:E.
    - apply mem_In in E. split; auto. split. apply incl_refl. split; auto. split; auto.
      split. exists []. split; [reflexivity|intros x []]. auto.
    - apply mem_nIn in E. destruct (IH y st G Hy E Hf) as [P1 P2 P3 P4 P5 P6].
      split; auto. split; auto. split. apply (g2_ce_pres _ P1); auto. split; auto.
  Qed.

  (* one declaration (of either kind) in the constructor of m, about the module y; the recorded edge is p -> q *)
  Lemma edge_step f (IH : IHT f) m s preg prea st y p q :
    LInv2 m s preg prea st -> In y (L m) -> outside n (present st) < f ->
    (p = m \/ p = y) -> (q = m \/ q = y) -> cdep g a p q ->
    let st2 := add_edge true p q (avail (load2 true f g a) y st) in
    LInv2 m s preg prea st2 /\ In q (assoc p (deps st2)) /\ outside n (present st2) <= outside n (present st).
  Proof.
    intros LI Hy Hf Hp Hq Hc.
    assert (Hyn : y < n). { unfold ldg in Hy. apply in_app_iff in Hy. destruct Hy as [Hy|Hy]; [eapply g_lt|eapply a_lt]; eauto. }
    pose proof (avail_ok f IH y st (l2_inv _ _ _ _ _ LI) Hyn Hf) as AO. cbv zeta in AO.
    set (st' := avail (load2 true f g a) y st) in *. clearbody st'.
    destruct AO as (G' & Hinc & Hyp & Hnew & (l' & Hlog & Hl') & Hmono).
    assert (Hmst : In m (present st)) by (apply (l2_incl _ _ _ _ _ LI); left; auto).
    assert (Hmst' : In m (present st')) by auto.
    assert (Hpp : In p (present st')) by (destruct Hp as [->| ->]; auto).
    assert (Hqp : In q (present st')) by (destruct Hq as [->| ->]; auto).
    cbv zeta. split; [|split].
    - split.
      + apply GInv2_edge; auto.
      + simpl. intros x Hx. apply Hinc. apply (l2_incl _ _ _ _ _ LI); auto.
      + simpl. rewrite Hlog. rewrite in_app_iff. intros [H|H]. apply (Hl' m H); auto. apply (l2_nce _ _ _ _ _ LI); auto.
      + simpl. intros d Hd. apply assoc_upd_mono. apply Hmono. apply (l2_preg _ _ _ _ _ LI); auto.
      + simpl. intros x Hx. apply assoc_upd_mono. apply Hmono. apply (l2_prea _ _ _ _ _ LI); auto.
      + simpl. intros x Hx. destruct (Hnew x Hx) as [H|[H1 H2]].
        * destruct (l2_new _ _ _ _ _ LI x H) as [A|[A B]]; auto. right. split; auto. rewrite Hlog. apply in_app_iff; auto.
        * right. split; auto. eapply star_step; eauto.
      + simpl. destruct (l2_log _ _ _ _ _ LI) as (l & El & Hl). exists (l' ++ l). split. rewrite Hlog, El, app_assoc. reflexivity.
        intros x Hx. apply in_app_iff in Hx. destruct Hx as [Hx|Hx]; [|exact (Hl x Hx)].
        intro Hc'. apply (Hl' x Hx). apply (l2_incl _ _ _ _ _ LI); auto.
      + simpl. intros x d Hd. apply assoc_upd_mono. apply Hmono. apply (l2_mono _ _ _ _ _ LI); auto.
    - simpl. apply assoc_upd_new.
    - simpl. apply outside_le; auto.
  Qed.

  Lemma LInv2_ext_g m s preg prea st d : LInv2 m s preg prea st -> In d (assoc m (deps st)) -> LInv2 m s (preg ++ [d]) prea st.
  Proof.
    intros [A1 A2 A3 A4 A5 A6 A7 A8] Hd. split; auto.
    intros d0 H0. apply in_app_iff in H0. destruct H0 as [H0|[<-|[]]]; auto.
  Qed.
  Lemma LInv2_ext_a m s preg prea st x : LInv2 m s preg prea st -> In m (assoc x (deps st)) -> LInv2 m s preg (prea ++ [x]) st.
  Proof.
    intros [A1 A2 A3 A4 A5 A6 A7 A8] Hd. split; auto.
    intros d0 H0. apply in_app_iff in H0. destruct H0 as [H0|[<-|[]]]; auto.
  Qed.

  (* the module_depends calls of the constructor of m *)
  Lemma dep_loop f (IH : IHT f) m s prea : forall ds preg st, incl ds (g m) -> LInv2 m s preg prea st -> outside n (present st) < f ->
    let st2 := fold_left (dep_fn (load2 true f g a) m) ds st in
    LInv2 m s (preg ++ ds) prea st2 /\ outside n (present st2) <= outside n (present st).
  Proof.
    induction ds as [|d r IHr]; intros preg st Hi LI Hf.
    - simpl. rewrite app_nil_r. auto.
    - cbn [fold_left]. cbv zeta.
      assert (Hd : In d (g m)) by (apply Hi; left; auto).
      destruct (edge_step f IH m s preg prea st d m d LI ltac:(unfold ldg; apply in_app_iff; auto) Hf
                  ltac:(auto) ltac:(auto) ltac:(left; auto)) as (LI' & He & Ho).
      fold (dep_fn (load2 true f g a) m st d) in *.
      set (st1 := dep_fn (load2 true f g a) m st d) in *. clearbody st1.
      destruct (IHr (preg ++ [d]) st1 ltac:(intros x Hx; apply Hi; right; auto) (LInv2_ext_g _ _ _ _ _ _ LI' He) ltac:(lia)) as [LI'' Ho'].
      rewrite <- app_assoc in LI''. simpl in LI''. split; auto. lia.
  Qed.
  (* the module_antidepends calls of the constructor of m *)
  Lemma anti_loop f (IH : IHT f) m s preg : forall xs prea st, incl xs (a m) -> LInv2 m s preg prea st -> outside n (present st) < f ->
    let st2 := fold_left (anti_fn true (load2 true f g a) m) xs st in
    LInv2 m s preg (prea ++ xs) st2 /\ outside n (present st2) <= outside n (present st).
  Proof.
    induction xs as [|x r IHr]; intros prea st Hi LI Hf.
    - simpl. rewrite app_nil_r. auto.
    - cbn [fold_left]. cbv zeta.
      assert (Hx : In x (a m)) by (apply Hi; left; auto).
      destruct (edge_step f IH m s preg prea st x x m LI ltac:(unfold ldg; apply in_app_iff; auto) Hf
                  ltac:(auto) ltac:(auto) ltac:(right; auto)) as (LI' & He & Ho).
      fold (anti_fn true (load2 true f g a) m st x) in *.
      set (st1 := anti_fn true (load2 true f g a) m st x) in *. clearbody st1.
      destruct (IHr (prea ++ [x]) st1 ltac:(intros y Hy; apply Hi; right; auto) (LInv2_ext_a _ _ _ _ _ _ LI' He) ltac:(lia)) as [LI'' Ho'].
      rewrite <- app_assoc in LI''. simpl in LI''. split; auto. lia.
  Qed.

  Lemma load2_ok : forall f, IHT f.
  Proof.
    induction f as [|f IHf]; intros m s G Hm Hms Hf. lia.
    rewrite load2_S. assert (E : mem m (present s) = false) by (apply mem_nIn; auto). rewrite E.
    set (s1 := ctor_begin m s).
    assert (L1 : LInv2 m s [] [] s1).
    { destruct G as [G1 G2 G3 G4 G5 G6 G7 G8 G9 G10 G11 G12]. split; unfold s1, ctor_begin; cbn [present deps rdeps log].
      - split; cbn [present deps rdeps log].
        + constructor; auto.
        + intros x [<-|Hx]; auto.
        + intros x Hx. rewrite count_cons. simpl. destruct (Nat.eqb m x) eqn:E'.
          * apply Nat.eqb_eq in E'. subst x. rewrite G4; auto.
          * apply Nat.eqb_neq in E'. destruct Hx as [Hx|Hx]. congruence. rewrite G3; auto.
        + intros x Hx. rewrite count_cons. simpl. destruct (Nat.eqb m x) eqn:E'.
          * apply Nat.eqb_eq in E'. subst x. exfalso. apply Hx; left; auto.
          * rewrite G4; auto. intro. apply Hx. right; auto.
        + intros x. rewrite count_cons. simpl. apply G5.
        + intros x [Hx|Hx]. discriminate. right; auto.
        + intros x [Hx|Hx]. discriminate. apply precedes_cons; auto.
        + constructor; simpl; auto.
        + intros x d H. destruct (G9 x d H) as (A & B & C). split; [right; auto|split; [right; auto|auto]].
        + intros x d [Hx|Hx] Hd. discriminate. auto.
        + intros b x [Hb|Hb] Hx. discriminate. auto.
        + exact G12.
      - apply incl_refl.
      - intros [H|H]. discriminate. apply Hms. auto.
      - intros d [].
      - intros x [].
      - auto.
      - exists []. split; [reflexivity|intros x []].
      - auto. }
    assert (Ho : outside n (present s1) < f).
    { assert (outside n (m :: present s) < outside n (present s)).
      { apply outside_lt with (m := m); auto. intros x Hx; right; auto. left; auto. }
      unfold s1, ctor_begin. cbn [present]. lia. }
    clearbody s1.
    pose proof (dep_loop f IHf m s [] (g m) [] s1 (incl_refl _) L1 Ho) as D. cbv zeta in D. cbn [app] in D.
    set (s2 := fold_left (dep_fn (load2 true f g a) m) (g m) s1) in *. clearbody s2. destruct D as [L2 Ho2].
    pose proof (anti_loop f IHf m s (g m) (a m) [] s2 (incl_refl _) L2 ltac:(lia)) as D. cbv zeta in D. cbn [app] in D.
    set (s3 := fold_left (anti_fn true (load2 true f g a) m) (a m) s2) in *. clearbody s3. destruct D as [L3 _].
    destruct L3 as [[G1 G2 G3 G4 G5 G6 G7 G8 G9 G10 G11 G12] K2 K3 K4 K5 K6 K7 K8].
    assert (Hm3 : In m (present s3)) by (apply K2; left; auto).
    assert (Hce0 : count (isCE m) (log s3) = 0).
    { destruct (count (isCE m) (log s3)) eqn:C; auto. exfalso. apply K3. apply In_CE. lia. }
    split; unfold ctor_end; cbn [present deps rdeps log].
    - split; cbn [present deps rdeps log].
      + exact G1.
      + exact G2.
      + intros x Hx. rewrite count_cons. simpl. auto.
      + intros x Hx. rewrite count_cons. simpl. auto.
      + intros x. rewrite count_cons. simpl. destruct (Nat.eqb m x) eqn:E'.
        * apply Nat.eqb_eq in E'. subst x. rewrite Hce0. auto.
        * apply G5.
      + intros x [Hx|Hx]. inversion Hx; subst; auto. auto.
      + intros x Hx. destruct (Nat.eq_dec x m) as [->|Hne].
        * apply precedes_head. apply In_CB. rewrite G3; auto.
        * destruct Hx as [Hx|Hx]. inversion Hx; congruence. apply precedes_cons; auto.
      + constructor; simpl; auto.
      + exact G9.
      + intros x d Hx Hd. destruct (Nat.eq_dec x m) as [->|Hne]; auto.
        destruct Hx as [Hx|Hx]. inversion Hx; congruence. auto.
      + intros b x Hb Hx. destruct (Nat.eq_dec b m) as [->|Hne]; auto.
        destruct Hb as [Hb|Hb]. inversion Hb; congruence. auto.
      + exact G12.
    - intros x Hx. apply K2. right; auto.
    - left; auto.
    - intros x Hx. destruct (K6 x Hx) as [[<-|H]|[H1 H2]]; auto.
      + right. split. apply star_refl. left; auto.
      + right. split; auto. right; auto.
    - destruct K7 as (l & El & Hl). exists (CE m :: l ++ [CB m]). split.
      + rewrite El. simpl. rewrite <- app_assoc. reflexivity.
      + intros x [Hx|Hx]. inversion Hx; subst; auto. apply in_app_iff in Hx. destruct Hx as [Hx|[Hx|[]]]; [|discriminate].
        intro Hc. apply (Hl x Hx). right; auto.
    - auto.
  Qed.

  (* the loading loop of module_load_list *)
  Definition all_done2 (s : mst) : Prop := forall x, In x (present s) -> In (CE x) (log s).

  Lemma load_top2 (m : mid) s : GInv2 s -> all_done2 s -> m < n ->
    let s' := load2 true (S n) g a m s in
    GInv2 s' /\ all_done2 s' /\ incl (present s) (present s') /\ In m (present s') /\
    (forall x, In x (present s') -> In x (present s) \/ star L m x) /\ exists l, log s' = l ++ log s.
  Proof.
    intros G D Hm s'. destruct (mem m (present s)) eqn:E.
    - assert (Es : s' = s) by (unfold s'; rewrite load2_S, E; reflexivity). clearbody s'. subst s'.
      apply mem_In in E. split; auto. split; auto. split. apply incl_refl. split; auto. split; auto. exists []; auto.
    - apply mem_nIn in E.
      assert (P : LPost2 m s s').
      { apply load2_ok; auto. pose proof (outside_le_n n (present s)). lia. }
      clearbody s'. destruct P as [P1 P2 P3 P4 P5 P6]. split; auto. split.
      + intros x Hx. destruct (P4 x Hx) as [H|[_ H]]; auto. destruct P5 as (l & -> & _). apply in_app_iff. right. auto.
      + split; auto. split. apply (g2_ce_pres _ P1); auto. split. intros x Hx. destruct (P4 x Hx) as [H|[H _]]; auto.
        destruct P5 as (l & -> & _). exists l; auto.
  Qed.

  Lemma load_all_ok2 : forall listing s, GInv2 s -> all_done2 s -> (forall m, In m listing -> m < n) ->
    let s' := load_all2 true (S n) g a listing s in
    GInv2 s' /\ all_done2 s' /\ incl (present s) (present s') /\ (forall m, In m listing -> In m (present s')) /\
    (forall x, In x (present s') -> In x (present s) \/ Reach L listing x) /\ exists l, log s' = l ++ log s.
  Proof.
    induction listing as [|m r IHr]; intros s G D Hl.
    - simpl. split; auto. split; auto. split. apply incl_refl. split. intros m []. split; auto. exists []; auto.
    - cbv zeta. change (load_all2 true (S n) g a (m :: r) s) with (load_all2 true (S n) g a r (load2 true (S n) g a m s)).
      pose proof (load_top2 m s G D ltac:(apply Hl; left; auto)) as T. cbv zeta in T.
      set (s1 := load2 true (S n) g a m s) in *. clearbody s1. destruct T as (G' & D' & I' & M' & R' & l' & E').
      pose proof (IHr s1 G' D' ltac:(intros; apply Hl; right; auto)) as T. cbv zeta in T.
      set (s2 := load_all2 true (S n) g a r s1) in *. clearbody s2. destruct T as (G'' & D'' & I'' & M'' & R'' & l'' & E'').
      split; auto. split; auto. split. intros x Hx; auto. split. intros x [<-|Hx]; auto.
      split. intros x Hx. destruct (R'' x Hx) as [H|[r0 [H1 H2]]].
      + destruct (R' x H) as [H0|H0]; auto. right. exists m. split; auto. left; auto.
      + right. exists r0. split; auto. right; auto.
      + exists (l'' ++ l'). rewrite E'', E', app_assoc. reflexivity.
  Qed.

  Lemma GInv2_s0 : GInv2 s0.
  Proof.
    split; simpl; auto; try (intros; contradiction). constructor. intros d x. tauto.
  Qed.

  (* Phase 1, summary: the state after the loading loop.  The recorded depends lists are exactly the combined relation among the
     loaded modules, and (thanks to the repair) the recorded rdepends lists are exactly their inverse. *)
  Theorem load_phase2 : forall listing, (forall m, In m listing -> m < n) ->
    let s := load_all2 true (S n) g a listing s0 in
    NoDup (present s) /\
    (forall x, In x (present s) <-> Reach L listing x) /\
    (forall x, In x (present s) -> x < n) /\
    (forall x, In x (present s) ->
       count (isCB x) (log s) = 1 /\ count (isCE x) (log s) = 1 /\ precedes (CE x) (CB x) (log s)) /\
    (forall x, ~ In x (present s) -> count (isCB x) (log s) = 0 /\ count (isCE x) (log s) = 0) /\
    Forall is_ctor (log s) /\
    (forall x d, In d (assoc x (deps s)) <-> In x (present s) /\ In d (present s) /\ cdep g a x d) /\
    (forall d x, In x (assoc d (rdeps s)) <-> In d (assoc x (deps s))).
  Proof.
    intros listing Hl.
    destruct (load_all_ok2 listing s0 GInv2_s0 ltac:(intros x []) Hl) as (G & D & _ & M & R & _).
    set (s := load_all2 true (S n) g a listing s0) in *. cbv zeta.
    destruct G as [G1 G2 G3 G4 G5 G6 G7 G8 G9 G10 G11 G12].
    assert (Closed : forall x d, In x (present s) -> In d (L x) -> In d (present s)).
    { intros x d Hx Hd. unfold ldg in Hd. apply in_app_iff in Hd. destruct Hd as [Hd|Hd].
      - apply (G9 x d). apply G10; auto.
      - apply (G9 d x). apply G11; auto. }
    split; auto. split.
    { intro x. split.
      - intro Hx. destruct (R x Hx) as [[]|H]; auto.
      - intros [r [Hr Hs]]. apply (star_closed L (fun y => In y (present s)) Closed r x Hs). auto. }
    split; auto. split.
    { intros x Hx. split; auto. split; auto. assert (0 < count (isCE x) (log s)) by (apply In_CE; auto). specialize (G5 x). lia. }
    split.
    { intros x Hx. split; auto. destruct (count (isCE x) (log s)) eqn:C; auto. exfalso. apply Hx. apply G6. apply In_CE. lia. }
    split; auto. split; auto.
    intros x d. split. apply G9. intros (Hx & Hd & [Hc|Hc]). apply G10; auto. apply G11; auto.
  Qed.
End Load2.

(* ---------- 4. the repaired code: the whole run ---------- *)
(* dependency among loaded modules, and a cycle of it *)
Definition ldep (g a : graph) (listing : list mid) (m d : mid) : Prop :=
  loaded g a listing m /\ loaded g a listing d /\ cdep g a m d.
Definition cyclic2 (g a : graph) (listing : list mid) : Prop := exists x, clos_trans mid (ldep g a listing) x x.

Lemma loaded_dep g a listing m d : loaded g a listing m -> In d (g m) -> loaded g a listing d.
Proof. intros [r [H1 H2]] Hd. exists r. split; auto. eapply star_snoc; eauto. unfold ldg. apply in_app_iff; auto. Qed.
Lemma loaded_anti g a listing b x : loaded g a listing b -> In x (a b) -> loaded g a listing x.
Proof. intros [r [H1 H2]] Hd. exists r. split; auto. eapply star_snoc; eauto. unfold ldg. apply in_app_iff; auto. Qed.

Lemma plus_clos (dp : graph) (R : mid -> mid -> Prop) : (forall x d, In d (dp x) -> R x d) ->
  forall x y, plus dp x y -> clos_trans mid R x y.
Proof.
  intro H.
  assert (S : forall x y, star dp x y -> x = y \/ clos_trans mid R x y).
  { intros x y St. induction St. left; auto. right. destruct IHSt as [<-|T]. apply t_step; auto.
    eapply t_trans. apply t_step. eapply H; eauto. auto. }
  intros x y [x0 b y0 H1 H2]. destruct (S b y0 H2) as [<-|T]. apply t_step; auto.
  eapply t_trans. apply t_step. eapply H; eauto. auto.
Qed.

(* the property of a successful run: every loaded module is constructed, post-initialised and destroyed exactly once;
   along every edge of the combined relation between loaded modules: PI d before PI m and DT m before DT d;
   nothing else is touched; constructors, then post-inits, then destructors.
   No construction-order clause: see construction_order_can_fail_with_back_ends below. *)
Definition ok_log2 (g a : graph) (listing : list mid) (lg : list ev) : Prop :=
  (forall m, loaded g a listing m ->
     count (isCB m) lg = 1 /\ count (isCE m) lg = 1 /\ count (isPI m) lg = 1 /\ count (isDT m) lg = 1 /\
     precedes (CB m) (CE m) lg /\
     forall d, loaded g a listing d -> cdep g a m d -> precedes (PI d) (PI m) lg /\ precedes (DT m) (DT d) lg) /\
  (forall m, ~ loaded g a listing m ->
     count (isCB m) lg = 0 /\ count (isCE m) lg = 0 /\ count (isPI m) lg = 0 /\ count (isDT m) lg = 0) /\
  (exists l1 l2 l3, lg = l1 ++ l2 ++ l3 /\ Forall is_ctor l1 /\ Forall is_pi l2 /\ Forall is_dt l3).

Definition monitor2' (g a : graph) (listing : list mid) (r : option (list ev)) : Prop :=
  match r with
  | None => cyclic2 g a listing
  | Some lg => ~ cyclic2 g a listing /\ ok_log2 g a listing lg
  end.

Theorem run2_meets_monitor2 : forall n g a listing, wfg2 n g a -> (forall m, In m listing -> m < n) ->
  monitor2' g a listing (run2 true n g a listing).
Proof.
  intros n g a listing [Hg Ha] Hl. rewrite run2_eq. cbv zeta.
  pose proof (load_phase2 n g a Hg Ha listing Hl) as LP. cbv zeta in LP.
  set (s := load_all2 true (S n) g a listing s0) in *. clearbody s.
  destruct LP as (F1 & F2 & F3 & F4 & F5 & F6 & F7 & F9).
  set (dp := fun m => assoc m (deps s)).
  set (Q := fun x => In x (present s)).
  assert (dp_lt : forall m d, In d (dp m) -> d < n). { intros m d H. apply F7 in H. destruct H as (_ & H & _). auto. }
  assert (Q_closed : forall m d, Q m -> In d (dp m) -> Q d). { unfold Q. intros m d _ Hd. apply F7 in Hd. tauto. }
  assert (Ho : forall x, In x (sort (present s)) -> x < n /\ Q x).
  { intros x Hx. apply (proj1 (In_sort x (present s))) in Hx. split; [auto|exact Hx]. }
  assert (H0 : forall x, count (isPI x) (log s) = 0). { intro x. zc is_ctor. }
  assert (dp_ldep : forall x d, In d (dp x) -> ldep g a listing x d).
  { intros x d H. apply F7 in H. destruct H as (A & B & C). split. apply F2; auto. split; auto. apply F2; auto. }
  assert (ldep_dp : forall x d, ldep g a listing x d -> In x (present s) /\ In d (present s) /\ In d (dp x)).
  { intros x d (A & B & C). apply F2 in A. apply F2 in B. split; auto. split; auto. apply F7. auto. }
  pose proof (postinit_phase n dp Q dp_lt Q_closed (sort (present s)) (log s) Ho H0) as PP.
  destruct (dfs_all dp (S n) (sort (present s)) (Some ([], log s))) as [[c lg]|].
  - (* success *)
    destruct PP as ((l2 & -> & Hl2) & PI1 & PI2 & PI3 & (rank & Hrank)).
    assert (PIp : forall x, In x (present s) -> count (isPI x) (l2 ++ log s) = 1).
    { intros x Hx. apply PI1. apply (proj2 (In_sort x (present s))); auto. }
    assert (rank_ok : forall x d, In x (present s) -> In d (dp x) -> rank d < rank x).
    { intros x d Hx Hd. apply (Hrank x d (PIp x Hx)). auto. }
    assert (Hdt0 : forall x, count (isDT x) (l2 ++ log s) = 0).
    { intro x. rewrite count_app. replace (count (isDT x) l2) with 0 by (symmetry; zc is_pi). zc is_ctor. }
    assert (RD : forall d x, In x (assoc d (rdeps s)) <-> In x (present s) /\ In d (dp x)).
    { intros d x. rewrite F9. unfold dp. split. intro H. split; auto. apply F7 in H. tauto. tauto. }
    destruct (close_phase n dp (present s) (sort (present s)) (deps s) rank (l2 ++ log s) (fun x _ => eq_refl)
                (fun x d Hx Hd => Q_closed x d Hx Hd) rank_ok Hdt0 (fun x Hx => proj2 (In_sort x (present s)) Hx)
                (rdeps s) F1 (nodup_lt_length n _ F1 F3) RD)
      as (l3 & -> & Hl3 & DT1 & DT0 & DTo).
    assert (NoCyc : ~ cyclic2 g a listing).
    { intros [x Hx].
      assert (T : forall y z, clos_trans mid (ldep g a listing) y z -> rank z < rank y).
      { intros y z H. induction H. destruct (ldep_dp x0 y H) as (A & B & C). apply rank_ok; auto. lia. }
      specialize (T x x Hx). lia. }
    simpl. split; auto.
    assert (Cz1 : forall x, count (isCB x) l2 = 0) by (intro x; zc is_pi).
    assert (Cz2 : forall x, count (isCE x) l2 = 0) by (intro x; zc is_pi).
    assert (Cz3 : forall x, count (isCB x) l3 = 0) by (intro x; zc is_dt).
    assert (Cz4 : forall x, count (isCE x) l3 = 0) by (intro x; zc is_dt).
    assert (Cz5 : forall x, count (isPI x) l3 = 0) by (intro x; zc is_dt).
    split; [|split].
    + intros m Hm. apply F2 in Hm. destruct (F4 m Hm) as (A1 & A2 & A3).
      split. rewrite count_rev, !count_app, Cz3, Cz1. auto.
      split. rewrite count_rev, !count_app, Cz4, Cz2. auto.
      split. rewrite count_rev, count_app, Cz5. rewrite PIp; auto.
      split. rewrite count_rev. apply DT1; auto.
      split. apply precedes_rev. apply precedes_app_l. apply precedes_app_l. auto.
      intros d Hd Hc. apply F2 in Hd. assert (Hdp : In d (dp m)) by (apply F7; auto).
      split. apply precedes_rev. apply precedes_app_l. apply PI3; auto. apply (proj2 (In_sort m (present s))); auto.
      apply precedes_rev. apply DTo; auto.
    + intros m Hm. assert (Hn : ~ In m (present s)) by (intro; apply Hm; apply F2; auto). destruct (F5 m Hn) as [B1 B2].
      split. rewrite count_rev, !count_app, Cz3, Cz1. auto.
      split. rewrite count_rev, !count_app, Cz4, Cz2. auto.
      split. rewrite count_rev, count_app, Cz5. destruct (PI2 m) as [P1 P2]. destruct (count (isPI m) (l2 ++ log s)) eqn:C; auto.
        exfalso. apply Hn. apply P2. lia.
      rewrite count_rev. apply DT0; auto.
    + exists (rev (log s)), (rev l2), (rev l3). split. rewrite !rev_app_distr, app_assoc. reflexivity.
      split. apply Forall_rev; auto. split; apply Forall_rev; auto.
  - (* start-up aborted: the recorded depends lists have a cycle, hence the combined relation among loaded modules has one *)
    simpl. destruct PP as [x [Qx Px]]. exists x. eapply plus_clos; eauto.
Qed.

(* the main theorem in the requested form.  The hypothesis "loaded d" cannot be dropped: a back end d that is not loaded
   declares nothing (see unloaded_back_end_declares_nothing); for module_depends edges it follows from "loaded m". *)
Theorem run2_unload_respects_all_dependencies : forall n g a listing lg,
  wfg2 n g a -> (forall m, In m listing -> m < n) -> run2 true n g a listing = Some lg ->
  (forall m, loaded g a listing m ->
     count (isCB m) lg = 1 /\ count (isCE m) lg = 1 /\ count (isPI m) lg = 1 /\ count (isDT m) lg = 1) /\
  (forall m d, loaded g a listing m -> loaded g a listing d -> cdep g a m d ->
     precedes (DT m) (DT d) lg /\ precedes (PI d) (PI m) lg).
Proof.
  intros n g a listing lg Hwf Hl E. pose proof (run2_meets_monitor2 n g a listing Hwf Hl) as M. rewrite E in M.
  destruct M as [_ [A _]]. split.
  - intros m Hm. destruct (A m Hm) as (? & ? & ? & ? & _). auto.
  - intros m d Hm Hd Hc. destruct (A m Hm) as (_ & _ & _ & _ & _ & B). destruct (B d Hd Hc). auto.
Qed.

(* every declaration made by a loaded module, of either kind, is respected *)
Corollary run2_every_declaration_respected : forall n g a listing lg,
  wfg2 n g a -> (forall m, In m listing -> m < n) -> run2 true n g a listing = Some lg ->
  (forall m d, loaded g a listing m -> In d (g m) -> precedes (DT m) (DT d) lg /\ precedes (PI d) (PI m) lg) /\
  (forall b x, loaded g a listing b -> In x (a b) -> precedes (DT x) (DT b) lg /\ precedes (PI b) (PI x) lg).
Proof.
  intros n g a listing lg Hwf Hl E. destruct (run2_unload_respects_all_dependencies n g a listing lg Hwf Hl E) as [_ A]. split.
  - intros m d Hm Hd. apply A; auto. eapply loaded_dep; eauto. left; auto.
  - intros b x Hb Hx. apply A; auto. eapply loaded_anti; eauto. right; auto.
Qed.

(* start-up aborts exactly when the combined relation among the loaded modules has a cycle *)
Theorem run2_aborts_iff_cycle : forall n g a listing, wfg2 n g a -> (forall m, In m listing -> m < n) ->
  (run2 true n g a listing = None <-> cyclic2 g a listing).
Proof.
  intros n g a listing Hwf Hl. pose proof (run2_meets_monitor2 n g a listing Hwf Hl) as M.
  destruct (run2 true n g a listing) as [lg|]; simpl in M.
  - destruct M as [M _]. split. discriminate. intro C. contradiction.
  - split; auto.
Qed.
Corollary run2_no_cycle_runs : forall n g a listing, wfg2 n g a -> (forall m, In m listing -> m < n) ->
  ~ cyclic2 g a listing -> exists lg, run2 true n g a listing = Some lg /\ ok_log2 g a listing lg.
Proof.
  intros n g a listing Hwf Hl C. pose proof (run2_meets_monitor2 n g a listing Hwf Hl) as M.
  destruct (run2 true n g a listing) as [lg|]; simpl in M. exists lg. destruct M; auto. contradiction.
Qed.

(* ---------- remarks by evaluation ---------- *)
(* a back end that is not loaded declares nothing: module 0 is loaded, back end 1 (which would provide for 0) is not *)
Example unloaded_back_end_declares_nothing :
  let g := fun _ : mid => @nil mid in let a := fun m : mid => match m with 1 => [0] | _ => [] end in
  cdep g a 0 1 /\ loaded g a [0] 0 /\ run2 true 2 g a [0] = Some [CB 0; CE 0; PI 0; DT 0].
Proof. cbv zeta. split. right; simpl; auto. split. exists 0. split. left; auto. apply star_refl. vm_compute. reflexivity. Qed.

(* construction order: "CE d before CE m" does NOT hold for module_depends edges once back ends exist.  Module 1 depends on
   module 0 (module_depends), and 0 is also a back end providing for 1; only 0 is listed.  The constructor of 0 loads 1, whose
   module_depends(0) finds 0 in the table (under construction), so 1 finishes constructing first.  The combined relation has the single
   edge 1 -> 0 (declared twice), no cycle, start-up succeeds; post-init and unload orders are right. *)
Definition co_g : graph := fun m => match m with 1 => [0] | _ => [] end.
Definition co_a : graph := fun m => match m with 0 => [1] | _ => [] end.
Example construction_order_can_fail_with_back_ends : exists lg,
  run2 true 2 co_g co_a [0] = Some lg /\ In 0 (co_g 1) /\ loaded co_g co_a [0] 1 /\
  precedes (CE 1) (CE 0) lg /\ count (isCE 0) lg = 1 /\ count (isCE 1) lg = 1 /\
  precedes (PI 0) (PI 1) lg /\ precedes (DT 1) (DT 0) lg.
Proof.
  exists [CB 0; CB 1; CE 1; CE 0; PI 0; PI 1; DT 1; DT 0].
  split. vm_compute. reflexivity. split. simpl; auto.
  split. exists 0. split. left; auto. eapply star_step; [|apply star_refl]. simpl; auto.
  split. exists [CB 0; CB 1], [], [PI 0; PI 1; DT 1; DT 0]. reflexivity.
  split. reflexivity. split. reflexivity.
  split. exists [CB 0; CB 1; CE 1; CE 0], [], [DT 1; DT 0]. reflexivity.
  exists [CB 0; CB 1; CE 1; CE 0; PI 0; PI 1], [], []. reflexivity.
Qed.
(* the same with no doubly declared edge: back end 2 provides for 0, 0 depends on 1, 1 depends on 2; listing [2] *)
Definition co_g' : graph := fun m => match m with 0 => [1] | 1 => [2] | _ => [] end.
Definition co_a' : graph := fun m => match m with 2 => [0] | _ => [] end.
Example construction_order_can_fail_with_back_ends' :
  run2 true 3 co_g' co_a' [2] = Some [CB 2; CB 0; CB 1; CE 1; CE 0; CE 2; PI 2; PI 1; PI 0; DT 0; DT 1; DT 2].
Proof. vm_compute. reflexivity. Qed.

(* a back end that provides for a module it depends on is a cycle of the combined relation: start-up aborts *)
Example back_end_cycle_aborts :
  run2 true 2 (fun m => match m with 0 => [1] | _ => [] end) (fun m => match m with 0 => [1] | _ => [] end) [0] = None.
Proof. vm_compute. reflexivity. Qed.

