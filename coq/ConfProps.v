(* C15 - the live configuration tree after a load.  Headline statements about ConfMerge.merge on arbitrary live trees
   and arbitrary file trees; the proofs live in ConfOrder, ConfBase, ConfIdem, ConfSorted, ConfWalk, ConfHooks,
   ConfValues, ConfHistory, ConfCommute, ConfInv.

   Hypotheses that appear below:
     lsorted t / vsorted s     child lists strictly sorted by kcmp, recursively (ConfBase)
     lwf t                     an object the last file did not mention has only default-state children (ConfValues)
     lplain t                  unregistered nodes are plain file-created nodes: no default, subtype 0, no registered
                               descendants (ConfHistory)
     lparsable t               every typed string with a text has a text that parses (ConfHistory)
   lsorted, lwf, lplain are invariants of the scripted runs (inv_root0, inv_reg, inv_load below). *)
From Coq Require Import List NArith ZArith Bool Strings.Byte Strings.String Lia.
Import ListNotations.
Require Import Conf ConfMerge ConfOrder ConfBase ConfIdem ConfSorted ConfWalk ConfHooks ConfValues ConfHistory ConfCommute ConfInv ConfParseSorted.
Local Open Scope N_scope.

(* ================= 6. a failed load changes nothing and fires no hook (C14) ================= *)
Check failed_load_unchanged :
  forall st data e, parse data = inl e ->
    fst (exec st (CLoad data)) = st /\
    snd (exec st (CLoad data)) = [S_ "LOAD ERR"%string] ++ flat_map (fun nv => dumpl 0 (fst nv) (snd nv)) st ++ [S_ "END"%string] /\
    Forall (fun l => is_hookline l = false) (snd (exec st (CLoad data))).

(* ================= 1. loading the same content twice changes nothing and notifies nobody ================= *)
Check load_idem :
  forall path t s, lsorted t -> vsorted s -> let '(t1, e1) := merge path t s in merge path t1 s = (t1, []).
(* no sortedness needed, and no side condition for typed strings whose text does not parse *)
Check load_idem_strong :
  forall path t s, let '(t1, e1) := merge path t s in merge path t1 s = (t1, []).

(* the scripted form: a second CLoad of the same data leaves the state alone and prints no HOOK line *)
Lemma exec_load_ok st data tree :
  parse data = inr tree ->
  exec st (CLoad data) =
  (t1 (mk_gen merge [] st tree),
   map hookline (snd (merge [] (LObj true true false st) (VObj tree))) ++ [S_ "LOAD OK"%string] ++
   flat_map (fun nv => dumpl 0 (fst nv) (snd nv)) (t1 (mk_gen merge [] st tree)) ++ [S_ "END"%string]).
Proof.
  intros Hp. unfold exec. rewrite Hp. rewrite (surjective_pairing (merge [] (LObj true true false st) (VObj tree))).
  rewrite merge_obj_fst. reflexivity.
Qed.

Theorem load_twice st data tree :
  parse data = inr tree ->
  let st1 := fst (exec st (CLoad data)) in
  fst (exec st1 (CLoad data)) = st1 /\ Forall (fun l => is_hookline l = false) (snd (exec st1 (CLoad data))).
Proof.
  intros Hp. cbn zeta. rewrite (exec_load_ok st data tree Hp). cbn [fst].
  rewrite (exec_load_ok _ data tree Hp). cbn [fst snd].
  pose proof (merge_idem (VObj tree) [] (LObj true true false st)) as H.
  rewrite merge_obj_fst in H.
  assert (t1 (mk_gen merge [] (t1 (mk_gen merge [] st tree)) tree) = t1 (mk_gen merge [] st tree)) as H2.
  { pose proof (f_equal fst H) as H1. rewrite merge_obj_fst in H1. cbn [fst] in H1. injection H1 as H1. exact H1. }
  rewrite H, H2. cbn [snd map app]. split; [reflexivity|].
  constructor; [reflexivity|]. rewrite Forall_app. split.
  - clear. induction (t1 (mk_gen merge [] st tree)) as [|[n v] r IH]; cbn [flat_map]; [constructor|]. rewrite Forall_app. split; [apply dumpl_no_hook|exact IH].
  - constructor; [reflexivity|constructor].
Qed.

(* ================= 4. hooks ================= *)
(* the hook list is a function of the tree before and the tree after *)
Check hooks_exact :
  forall s path t, lsorted t -> vsorted s -> snd (merge path t s) = hooks_cmp path t (fst (merge path t s)).
(* ... namely: a hook runs iff the node it is attached to changed (both directions, every node of the tree) *)
Check hooks_exact_iff :
  forall path t s x, lsorted t -> vsorted s -> (In x (snd (merge path t s)) <-> notified path t (fst (merge path t s)) x).
(* nothing changed: nobody is notified *)
Check hooks_cmp_refl : forall l path, lsorted l -> hooks_cmp path l l = [].
(* the same for a revert *)
Check revert_hooks : forall l path, lsorted l -> snd (revert path l) = hooks_cmp path l (rvt l).

(* leaves, spelled out *)
Definition lparsed (l : lnode) : pv := match l with LStr _ _ _ _ _ _ p => p | _ => PNone end.
Theorem hooks_exact_str path spec pres d v0 sub p x :
  let t := LStr spec pres true d v0 sub p in
  (* typed subtypes: the typed value; plain strings: the text (stored in the parsed field) *)
  (In (0, path) (snd (merge path t (VStr x))) <-> pnorm sub (lparsed (fst (merge path t (VStr x)))) <> pnorm sub p) /\
  (forall e, In e (snd (merge path t (VStr x))) -> e = (0, path)).
Proof.
  cbn zeta. rewrite merge_str_str. cbn [fst snd lparsed]. rewrite pv2_events. unfold pchanged, hk.
  destruct (pveq (pnorm sub p) (pnorm sub _)) eqn:E; cbn [negb].
  - apply pveq_iff in E. split; [split; [intros []|congruence]|intros e []].
  - split; [|intros e [<-|[]]; reflexivity]. split; [|intros _; left; reflexivity].
    intros _ H. rewrite H, pveq_refl in E. discriminate.
Qed.
Corollary hooks_exact_plain_str path spec pres d v0 x :
  In (0, path) (snd (merge path (LStr spec pres true d (Some v0) 0 (PStr v0)) (VStr x))) <-> x <> v0.
Proof.
  rewrite (proj1 (hooks_exact_str path spec pres d (Some v0) 0 (PStr v0) x)). rewrite merge_str_str. cbn.
  split; intros H E; apply H; congruence.
Qed.
Theorem hooks_exact_ina path spec pres dh ds oh os h s :
  let t := LIna spec pres true dh ds oh os in
  (In (1, path) (snd (merge path t (VIna h s))) <->
     ci_diff (orelse h dh) oh = true \/ ci_diff (orelse s ds) os = true) /\
  (forall e, In e (snd (merge path t (VIna h s))) -> e = (1, path)).
Proof.
  cbn zeta. cbn [merge snd]. rewrite andb_true_r. change (match h with None => dh | _ => h end) with (orelse h dh).
  change (match s with None => ds | _ => s end) with (orelse s ds).
  destruct (ci_diff (orelse h dh) oh || ci_diff (orelse s ds) os) eqn:E.
  - apply orb_true_iff in E. split; [split; [intros _; exact E|intros _; left; reflexivity]|intros e [<-|[]]; reflexivity].
  - apply orb_false_iff in E as [E1 E2]. rewrite E1, E2. split; [split; [intros []|intros [H|H]; discriminate]|intros e []].
Qed.
Theorem hooks_exact_list path spec pres d v l :
  let t := LList spec pres true d v in
  (In (2, path) (snd (merge path t (VList l))) <-> l <> v) /\
  (forall e, In e (snd (merge path t (VList l))) -> e = (2, path)).
Proof.
  cbn zeta. cbn [merge snd]. rewrite andb_true_r. destruct (leq l v) eqn:E; cbn [negb].
  - apply leq_eq in E. split; [split; [intros []|congruence]|intros e []].
  - split; [|intros e [<-|[]]; reflexivity]. split; [|intros _; left; reflexivity].
    intros _ H. rewrite H, leq_refl in E. discriminate.
Qed.
(* an object's own hook: iff its membership changed *)
Theorem hooks_exact_obj path spec pres ks ss :
  lsorted (LObj spec pres true ks) -> vsorted (VObj ss) ->
  exists ks' e_children,
    merge path (LObj spec pres true ks) (VObj ss) =
      (LObj spec true true ks', e_children ++ (if memdiff ks ks' then [(3, path)] else [])) /\
    e_children = kids_cmp path ks' ks.
Proof.
  intros Ht Hs. pose proof (hooks_exact (VObj ss) path _ Ht Hs) as H.
  rewrite merge_obj_fst, hooks_cmp_obj in H. unfold own in H. rewrite andb_true_r in H.
  exists (t1 (mk_gen merge path ks ss)), (kids_cmp path (t1 (mk_gen merge path ks ss)) ks). split; [|reflexivity].
  rewrite (surjective_pairing (merge _ _ _)), merge_obj_fst, H. reflexivity.
Qed.
(* membership: some key is in one list and not in the other *)
Lemma memdiff_spec ks ks' :
  memdiff ks ks' = true <->
  (exists m c, In (m, c) ks /\ lookupl m (lkind c) ks' = None) \/ (exists m c, In (m, c) ks' /\ lookupl m (lkind c) ks = None).
Proof.
  unfold memdiff. rewrite orb_true_iff, !existsb_exists. split.
  - intros [([m c] & Hin & H)|([m c] & Hin & H)]; cbn [fst snd] in H; [left|right]; exists m, c; (split; [exact Hin|]);
      destruct (lookupl m (lkind c) _); [discriminate|reflexivity|discriminate|reflexivity].
  - intros [(m & c & Hin & H)|(m & c & Hin & H)]; [left|right]; exists (m, c); (split; [exact Hin|]); cbn [fst snd]; rewrite H; reflexivity.
Qed.

(* ================= 2. values after a load ================= *)
Check load_values :
  forall path spec pres hook ks ss,
  lsorted (LObj spec pres hook ks) -> vsorted (VObj ss) -> lwf (LObj spec pres hook ks) ->
  exists ks' e, merge path (LObj spec pres hook ks) (VObj ss) = (LObj spec true hook ks', e) /\
    (forall n s', In (n, s') ss -> exists c, lookupl n (kind s') ks' = Some c /\ agrees s' c) /\
    (forall n k, lookup n k ss = None ->
       match lookupl n k ks' with
       | None => match lookupl n k ks with Some c => lspec c = false | None => True end
       | Some c' => dflt_state c' /\ exists c, lookupl n k ks = Some c /\ lspec c = true
       end).
Check load_values_gen : forall s path t, lsorted t -> vsorted s -> lwf t -> agrees s (fst (merge path t s)).

(* ================= 3. no dependence on earlier files ================= *)
Check load_history_free :
  forall path t s, lsorted t -> vsorted s -> lwf t -> lplain t -> lspec t = true ->
  lparsable (fst (merge path t s)) ->
  leqv (fst (merge path t s)) (fst (merge path (forget t) s)).
(* a leftover of an earlier file is simply overwritten *)
Check merge_unspec : forall s p t, lplain t -> lspec t = false -> leqv (fst (merge p t s)) (splice s).

(* ================= 5. registration commutes with loading ================= *)
Definition reg_ok (st : list (str * lnode)) (r : reg) (tree : list (str * val)) : Prop :=
  match r with
  | RegStr n sub d =>
      match lookupl n 0 st with Some (LStr true _ _ (Some d0) _ _ _) => d = Some d0 | _ => True end /\
      match final_text n d tree with Some x => sub <> 0 -> snd (typed sub x) = true | None => True end
  | RegIna n h s =>
      match lookupl n 1 st with Some (LIna _ _ _ dh0 ds0 _ _) => orelse dh0 h = h /\ orelse ds0 s = s | _ => True end
  | RegList _ _ => True
  | RegObj _ => True
  end.

Theorem register_commutes_with_load st r tree :
  inv st -> vsorted_kids tree -> reg_ok st r tree ->
  kids_eqv0 (reg_then_load st r tree) (load_then_reg st r tree).
Proof.
  intros Hi Ht Hok. pose proof Hi as (A & B & C).
  apply sorted_ext.
  - pose proof (inv_load _ tree (inv_reg st r Hi) Ht) as (X & _). exact (proj1 X).
  - pose proof (inv_reg _ r (inv_load st tree Hi Ht)) as (X & _). exact (proj1 X).
  - destruct r as [n|n sub d|n d|n h s]; cbn [reg_ok] in Hok.
    + apply register_commutes_with_load_obj; assumption.
    + destruct Hok. apply register_commutes_with_load_str; assumption.
    + apply register_commutes_with_load_list; assumption.
    + apply register_commutes_with_load_ina; assumption.
Qed.

(* ================= the hypotheses are invariants ================= *)
Check merge_sorted : forall s path t, lsorted t -> vsorted s -> lsorted (fst (merge path t s)).
Check revert_sorted : forall l p y e, lsorted l -> revert p l = (Some y, e) -> lsorted y.
Check do_reg_sorted : forall kids r, lsorted_kids kids -> lsorted_kids (fst (do_reg kids r)).
Check merge_lwf : forall s path t, lwf t -> lwf (fst (merge path t s)).
Check merge_lplain : forall s p t, lplain t -> lplain (fst (merge p t s)).
Check inv_root0 : inv root0.
Check inv_reg : forall st r, inv st -> inv (fst (do_reg st r)).
Check inv_load : forall st tree, inv st -> vsorted_kids tree -> inv (kidsof (fst (merge [] (LObj true true false st) (VObj tree)))).

Check inv_hookall : forall st, inv st -> inv (fst (exec st CHookAll)).
Check parse_sorted : forall data tree, parse data = inr tree -> vsorted_kids tree.

(* every state a script can reach satisfies the invariant: the theorems above apply to every load of every run *)
Definition run (cs : list cmd) : list (str * lnode) := fold_left (fun st c => fst (exec st c)) cs root0.
Theorem inv_run cs : inv (run cs).
Proof.
  unfold run. assert (forall st, inv st -> inv (fold_left (fun st c => fst (exec st c)) cs st)) as G.
  { induction cs as [|c cs IH]; intros st H; [exact H|]. cbn [fold_left]. apply IH. apply inv_exec; [exact parse_sorted|exact H]. }
  apply G. exact inv_root0.
Qed.

(* all of C15 for one load in a reachable state, with no hypothesis left but the parsability carve-out *)
Theorem reachable_load cs data tree :
  parse data = inr tree ->
  let root := LObj true true false (run cs) in
  let root' := fst (merge [] root (VObj tree)) in
  let e := snd (merge [] root (VObj tree)) in
  fst (exec (run cs) (CLoad data)) = kidsof root' /\
  agrees (VObj tree) root' /\
  e = hooks_cmp [] root root' /\
  merge [] root' (VObj tree) = (root', []) /\
  (lparsable root' -> leqv root' (fst (merge [] (forget root) (VObj tree)))).
Proof.
  intros Hp. cbn zeta. pose proof (inv_run cs) as Hi. apply inv_root in Hi as (A & B & C).
  pose proof (parse_sorted data tree Hp) as Ht. apply vsorted_obj in Ht.
  split; [rewrite (exec_load_ok _ data tree Hp), merge_obj_fst; reflexivity|].
  split; [apply load_values_gen; assumption|].
  split; [apply hooks_exact; assumption|].
  split; [apply merge_idem|].
  intros Hpa. apply load_history_free; try assumption. reflexivity.
Qed.


(* ================= tests (vm_compute) ================= *)
Definition B_ (s : String.string) : str := S_ s.
Definition T0 : lnode :=
  LObj true true true
    [(B_ "a", LStr true true true (Some (B_ "5")) (Some (B_ "7")) 2 (PInt 7));
     (B_ "b", LList false true true [] [B_ "q"]);
     (B_ "c", LObj false true true [(B_ "x", LStr false true false None (Some (B_ "1")) 0 (PStr (B_ "1")))]);
     (B_ "d", LIna true false true (Some (B_ "h")) None (Some (B_ "h")) None)]%string.
Definition F0 : val := VObj [(B_ "A", VStr (B_ "9")); (B_ "C", VObj [(B_ "y", VStr (B_ "2"))]); (B_ "e", VList [B_ "z"])]%string.
Example ex_idem : (let '(t1, e1) := merge (B_ "r") T0 F0 in merge (B_ "r") t1 F0 = (t1, [])).
Proof. vm_compute. reflexivity. Qed.
Example ex_hooks : snd (merge (B_ "r") T0 F0) = hooks_cmp (B_ "r") T0 (fst (merge (B_ "r") T0 F0)).
Proof. vm_compute. reflexivity. Qed.
Example ex_hooks_list : snd (merge (B_ "r") T0 F0) = [(0, B_ "r/a"); (2, B_ "r/b"); (3, B_ "r/c"); (3, B_ "r")]%string.
Proof. vm_compute. reflexivity. Qed.
(* history: the leftover "c" keeps its spelling and its hook flag on the left; the trees are equivalent, not equal *)
Example ex_history : fst (merge [] T0 F0) <> fst (merge [] (forget T0) F0).
Proof. vm_compute. intros H. inversion H. Qed.
