Require Import ModModel ModAnti ModBackend.
Require Extraction. Require Import ExtrOcamlBasic.
Extraction "mod_model.ml" ModModel.run ModModel.monitor ModAnti.run2 ModBackend.run3.
