Require Import ModModel ModAnti.
Require Extraction. Require Import ExtrOcamlBasic.
Extraction "mod_model.ml" ModModel.run ModModel.monitor ModAnti.run2.
