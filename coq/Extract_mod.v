Require Import ModModel.
Require Extraction. Require Import ExtrOcamlBasic.
Extraction "mod_model.ml" ModModel.run ModModel.monitor.
