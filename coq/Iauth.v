(* Executable model of modules/iauth_core.c + iauth_xquery.c + iauth_class.c (as repaired by the fix: commits):
   request table, query pass, hold accounting, acceptance gate, password / continuation logic, reply dispatch,
   class rules with all criteria, service slot vector with reference counts, reload of the service and rule tables,
   byte-exact rendering.  Input is pre-tokenised here; Line.v puts the tokenizer in front. *)
From Coq Require Import List NArith ZArith Bool Strings.Byte Strings.String Lia.
Import ListNotations.
Require Import Params AddrFull.
Local Open Scope string_scope.
Local Open Scope list_scope.
Local Open Scope N_scope.

Definition str := list byte.

(* ---------- byte/string helpers (no constructor matching on bytes) ---------- *)
Definition beq (a b : byte) : bool := Byte.eqb a b.
Fixpoint seq_eq (a b : str) : bool :=
  match a, b with [], [] => true | x :: a', y :: b' => beq x y && seq_eq a' b' | _, _ => false end.
Definition sp := x20.
Definition S_ (s : String.string) : str := String.list_byte_of_string s.
Fixpoint prefix (p s : str) : bool :=
  match p, s with [] , _ => true | x :: p', y :: s' => beq x y && prefix p' s' | _ :: _, [] => false end.
Definition starts (s : str) (b : byte) : bool := match s with c :: _ => beq c b | [] => false end.
Fixpoint upto (b : byte) (s : str) : str := match s with [] => [] | c :: r => if beq c b then [] else c :: upto b r end.
Fixpoint has (b : byte) (s : str) : bool := match s with [] => false | c :: r => beq c b || has b r end.
Definition lower (b : byte) : byte :=
  let n := Byte.to_N b in if (65 <=? n) && (n <=? 90) then match Byte.of_N (n + 32) with Some c => c | None => b end else b.
Fixpoint ci_eq (a b : str) : bool :=
  match a, b with [], [] => true | x :: a', y :: b' => beq (lower x) (lower y) && ci_eq a' b' | _, _ => false end.

(* ---------- numbers ---------- *)
Definition digit (n : N) : byte := match Byte.of_N (48 + n) with Some b => b | None => x30 end.
Definition hexdigit (n : N) : byte := match Byte.of_N (if n <? 10 then 48 + n else 87 + n) with Some b => b | None => x30 end.
Fixpoint digits (fuel : nat) (base : N) (dg : N -> byte) (n : N) (acc : str) : str :=
  match fuel with O => acc | S f => let acc' := dg (n mod base) :: acc in if n / base =? 0 then acc' else digits f base dg (n / base) acc' end.
Definition dec (n : N) : str := digits 40 10 digit n [].
Definition hex (n : N) : str := digits 40 16 hexdigit n [].
Definition decZ (z : Z) : str := match z with Z0 => dec 0 | Zpos p => dec (Npos p) | Zneg p => x2d :: dec (Npos p) end.
(* "%x" of a C int: two's complement on 32 bits *)
Definition hexZ32 (z : Z) : str := hex (Z.to_N (z mod 4294967296)%Z).

(* ---------- configuration and global tables ---------- *)
Inductive stype := Login | LoginIpr | Drone | Combined.
Record svc := { s_name : str; s_type : stype; s_conf : bool; s_refs : Z }.
Record rule := { r_name : str; r_class : option str; r_acct : option str; r_addr : option (list N * N);
                 r_user : option str; r_host : option str; r_xok : option str; r_trust : bool }.
(* which modules are loaded: the core alone asks only for the host name; iauth_xquery asks for everything *)
Record cfg := { with_xq : bool }.

(* ---------- request ---------- *)
Record req := {
  cid : Z; ser : N; addr : str; port : N; raddr : list N;
  f_host : bool; f_ident : bool; f_nick : bool; f_user : bool; f_pass : bool; f_empty : bool; f_tout : bool; f_sdone : bool;
  holds : Z; soft : Z;
  host : str; cliu : str; authu : str; nick : str; real : str; acct : str;
  hh : bool; ho : bool; sent : N; refm : N; more : N; okm : N; pw : str; timer : bool }.

Definition set_flags r a b c d e := {| cid := cid r; ser := ser r; addr := addr r; port := port r; raddr := raddr r;
  f_host := a; f_ident := b; f_nick := c; f_user := d; f_pass := e; f_empty := f_empty r; f_tout := f_tout r; f_sdone := f_sdone r;
  holds := holds r; soft := soft r; host := host r; cliu := cliu r; authu := authu r; nick := nick r; real := real r; acct := acct r;
  hh := hh r; ho := ho r; sent := sent r; refm := refm r; more := more r; okm := okm r; pw := pw r; timer := timer r |}.

(* structured output lines; `render` gives the bytes written to the server channel *)
Inductive out :=
| OX (name : str) (id : Z) (sr : N) (payload : str)          (* query carrying a routing tag *)
| OC (k : byte) (id : Z) (a : str) (p : N) (rest : str)      (* client-addressed message: k id addr port rest *)
| ORaw (s : str).
Definition line_max := 1023%nat.   (* iauth_send formats into char msg[1024] *)
Definition render (o : out) : str :=
  firstn line_max
  match o with
  | OX n id sr pl => S_ "X " ++ n ++ [sp] ++ hexZ32 id ++ [x5f] ++ hex sr ++ S_ " :" ++ firstn line_max pl
  | OC k id a p rest => [k; sp] ++ decZ id ++ [sp] ++ a ++ [sp] ++ dec p ++ rest
  | ORaw t => t
  end.
Definition oc (k : byte) (r : req) (rest : str) : out := OC k (cid r) (addr r) (port r) rest.

(* ---------- query pass (iauth_xquery_check) ---------- *)
Definition username (r : req) : str :=
  firstn USERLEN (match authu r with _ :: _ => authu r | [] =>
              if starts (cliu r) x7e then cliu r else match cliu r with _ :: _ => x7e :: cliu r | [] => [] end end).

Definition prereq_ok (t : stype) (r : req) : bool :=
  match t with
  | Login => f_pass r
  | LoginIpr => f_host r && f_ident r && f_pass r
  | Drone | Combined => f_host r && f_ident r && f_nick r && f_user r
  end.
Definition is_drone t := match t with Drone => true | _ => false end.
Definition is_loginish t := match t with Login | LoginIpr => true | _ => false end.
Definition nonempty (s : str) : bool := match s with [] => false | _ => true end.

Definition xline (name : str) (r : req) (payload : str) : out := OX name (cid r) (ser r) payload.

(* per-service reference count changes are returned as a list of (slot, +1/-1) *)
Definition eff := (N * Z)%type.

Definition queried (r : req) (slot : N) : req :=
  {| cid := cid r; ser := ser r; addr := addr r; port := port r; raddr := raddr r;
     f_host := f_host r; f_ident := f_ident r; f_nick := f_nick r; f_user := f_user r; f_pass := f_pass r; f_empty := f_empty r; f_tout := f_tout r; f_sdone := f_sdone r;
     holds := holds r; soft := if refm r =? 0 then (soft r + 1)%Z else soft r;
     host := host r; cliu := cliu r; authu := authu r; nick := nick r; real := real r; acct := acct r;
     hh := hh r; ho := ho r; sent := N.setbit (sent r) slot; refm := N.setbit (refm r) slot; more := more r; okm := okm r; pw := pw r; timer := timer r |}.

Definition hostn (r : req) : str := match host r with [] => addr r | _ => host r end.
Definition check_payload (r : req) : str := S_ "CHECK " ++ nick r ++ [sp] ++ username r ++ [sp] ++ addr r ++ [sp] ++ hostn r ++ S_ " :" ++ real r.
Definition login_payload (r : req) : str := S_ "LOGIN " ++ pw r.
Definition login2_payload (r : req) : str := S_ "LOGIN2 " ++ addr r ++ [sp] ++ hostn r ++ [sp] ++ username r ++ [sp] ++ pw r.

Definition query_lines (name : str) (t : stype) (r : req) : list out :=
  (match t with Drone | Combined => [xline name r (check_payload r)] | _ => [] end) ++
  (if nonempty (pw r) then
     match t with
     | Login | Combined => [xline name r (login_payload r)]
     | LoginIpr => [xline name r (login2_payload r)]
     | Drone => [] end
   else []).

Definition skip_query (t : stype) (slot : N) (is_pw : bool) (r : req) : bool :=
  (N.testbit (sent r) slot && (negb is_pw || is_drone t))
  || (is_loginish t && negb (nonempty (pw r)))
  || negb (prereq_ok t r).

Fixpoint qpass (ss : list (option svc)) (slot : N) (is_pw : bool) (r : req) (outs : list out) (efs : list eff) : req * list out * list eff :=
  match ss with
  | [] => (r, outs, efs)
  | None :: rest => qpass rest (slot + 1) is_pw r outs efs
  | Some s :: rest =>
    if negb (s_conf s) || skip_query (s_type s) slot is_pw r
    then qpass rest (slot + 1) is_pw r outs efs
    else qpass rest (slot + 1) is_pw (queried r slot) (outs ++ query_lines (s_name s) (s_type s) r) (efs ++ [(slot, 1%Z)])
  end.

(* ---------- class rules ---------- *)
Fixpoint glob (fuel : nat) (p s : str) : bool :=
  match fuel with O => false | S f =>
  match p with
  | [] => match s with [] => true | _ => false end
  | c :: p' =>
    if beq c x2a then glob f p' s || match s with [] => false | _ :: s' => glob f p s' end
    else match s with [] => false | d :: s' => (beq c x3f || beq c d) && glob f p' s' end
  end end.
(* fnmatch(pattern, string, 0) for patterns made of literals, '*' and '?' (no '[' and no backslash) *)
Definition fnm (p s : str) : bool := glob (2 * (List.length p + List.length s) + 2) p s.

(* iauth_xreply_ok(req, name) > 0 : the first CONFIGURED slot whose service name matches case-insensitively decides
   (a service dropped by a reload no longer counts: D24) *)
Fixpoint xreply_ok (ss : list (option svc)) (slot : N) (name : str) (r : req) : bool :=
  match ss with
  | [] => false
  | None :: rest => xreply_ok rest (slot + 1) name r
  | Some s :: rest => if s_conf s && ci_eq name (s_name s) then N.testbit (okm r) slot else xreply_ok rest (slot + 1) name r
  end.

Definition rule_matches (ss : list (option svc)) (ru : rule) (r : req) : bool :=
  (match r_acct ru with Some g => fnm g (upto x3a (acct r)) | None => true end) &&
  (match r_addr ru with Some (m, bits) => if bits =? 0 then true else cm (raddr r) m bits | None => true end) &&
  (match r_user ru with Some g => fnm g (authu r) | None => true end) &&
  (match r_host ru with Some g => fnm g (host r) | None => true end) &&
  (match r_xok ru with Some n => xreply_ok ss 0 n r | None => true end).

Definition class_len := (CLASSLEN - 1)%nat.   (* strlcpy(req->class, ..., CLASSLEN) *)

Fixpoint classify (ss : list (option svc)) (rs : list rule) (r : req) : list out * str :=     (* extra lines, class *)
  match rs with
  | [] => ([], [])
  | ru :: rest =>
    if rule_matches ss ru r then
      let u := if starts (cliu r) x7e then tl (cliu r) else cliu r in
      let extra := if r_trust ru && starts (authu r) x7e && nonempty u then [oc x55 r (sp :: u)] else [] in
      (extra, firstn class_len (match r_class ru with Some c => c | None => r_name ru end))
    else classify ss rest r
  end.

(* ---------- the gate ---------- *)
Definition upd_hold (r : req) (h s : Z) (sd : bool) : req := {| cid := cid r; ser := ser r; addr := addr r; port := port r; raddr := raddr r;
  f_host := f_host r; f_ident := f_ident r; f_nick := f_nick r; f_user := f_user r; f_pass := f_pass r; f_empty := f_empty r; f_tout := f_tout r; f_sdone := sd;
  holds := h; soft := s; host := host r; cliu := cliu r; authu := authu r; nick := nick r; real := real r; acct := acct r;
  hh := hh r; ho := ho r; sent := sent r; refm := refm r; more := more r; okm := okm r; pw := pw r; timer := timer r |}.

Record tabs := { slots : list (option svc); rules : list rule }.

Definition complete (c : cfg) (r : req) : bool :=
  if with_xq c then f_host r && f_ident r && f_nick r && f_user r else f_host r.

(* returns (Some r' if still live | None if decided, lines) *)
Definition gate (c : cfg) (tb : tabs) (r : req) : option req * list out :=
  if (holds r =? 0)%Z && complete c r then
    if (soft r =? 0)%Z || f_tout r then
      let '(extra, k) := classify (slots tb) (rules tb) r in
      let kl := match k with [] => [] | _ => sp :: k end in
      let line := match acct r with [] => oc x44 r kl | _ => oc x52 r (sp :: acct r ++ kl) end in
      (None, extra ++ [line])
    else if negb (f_sdone r) then (Some (upd_hold r (holds r) (soft r) true), [oc x64 r []])
    else (Some r, [])
  else (Some r, []).

(* ---------- passwords ---------- *)
Fixpoint modes (fuel : nat) (t : str) (st : bool) (sx cx sb cb : bool) : option (str * bool * bool * bool * bool) :=
  match fuel with O => None | S f =>
  match t with
  | [] => None
  | c :: r =>
    if beq c sp then Some (t, sx, cx, sb, cb)
    else if beq c x2b then modes f r true sx cx sb cb
    else if beq c x2d then modes f r false sx cx sb cb
    else if beq c x78 then (if st then modes f r st true false sb cb else modes f r st false true sb cb)
    else if beq c x21 then (if st then modes f r st sx cx true false else modes f r st sx cx false true)
    else modes f r st sx cx sb cb
  end end.
Fixpoint skipsp (t : str) : str := match t with c :: r => if beq c sp then skipsp r else t | [] => [] end.

Definition with_pw (r : req) (hh' ho' : bool) (h : Z) (p : str) : req := {| cid := cid r; ser := ser r; addr := addr r; port := port r; raddr := raddr r;
  f_host := f_host r; f_ident := f_ident r; f_nick := f_nick r; f_user := f_user r; f_pass := f_pass r; f_empty := f_empty r; f_tout := f_tout r; f_sdone := f_sdone r;
  holds := h; soft := soft r; host := host r; cliu := cliu r; authu := authu r; nick := nick r; real := real r; acct := acct r;
  hh := hh'; ho := ho'; sent := sent r; refm := refm r; more := more r; okm := okm r; pw := p; timer := timer r |}.

Definition continued (r : req) (slot : N) : req :=
  {| cid := cid r; ser := ser r; addr := addr r; port := port r; raddr := raddr r;
     f_host := f_host r; f_ident := f_ident r; f_nick := f_nick r; f_user := f_user r; f_pass := f_pass r; f_empty := f_empty r; f_tout := f_tout r; f_sdone := f_sdone r;
     holds := holds r; soft := if refm r =? 0 then (soft r + 1)%Z else soft r;
     host := host r; cliu := cliu r; authu := authu r; nick := nick r; real := real r; acct := acct r;
     hh := hh r; ho := ho r; sent := sent r; refm := N.setbit (refm r) slot; more := N.clearbit (more r) slot; okm := okm r; pw := pw r; timer := timer r |}.

Fixpoint cont (ss : list (option svc)) (slot : N) (t : str) (r : req) (outs : list out) (efs : list eff) : req * list out * list eff :=
  match ss with
  | [] => (r, outs, efs)
  | None :: rest => cont rest (slot + 1) t r outs efs
  | Some s :: rest =>
    if N.testbit (more r) slot && s_conf s then
      cont rest (slot + 1) t (continued r slot) (outs ++ [xline (s_name s) r (S_ "MORE " ++ t)]) (efs ++ [(slot, 1%Z)])
    else cont rest (slot + 1) t r outs efs
  end.

Definition pw_len := 511%nat.

Definition password (tb : tabs) (r : req) (t : str) : req * list out * list eff :=
  if (more r =? 0) || negb (nonempty (pw r)) then
    if negb (starts t x2b || starts t x2d) then (r, [], []) else
    match modes (S (List.length t)) t false false false false false with
    | None => (r, [], [])
    | Some (rest0, sx, cx, sb, cb) =>
      let rest := skipsp rest0 in
      if negb (has sp rest) then (r, [], []) else
      let hh' := if sx then true else if cx then false else hh r in
      let ho' := if sb then true else if cb then false else ho r in
      let noacct := negb (nonempty (acct r)) in
      let h := if ho' && negb (ho r) && noacct then (holds r + 1)%Z
               else if negb ho' && ho r && noacct then (holds r - 1)%Z else holds r in
      qpass (slots tb) 0 true (with_pw r hh' ho' h (firstn pw_len rest)) [] []
    end
  else cont (slots tb) 0 t r [] [].

(* ---------- replies ---------- *)
Fixpoint find_slot (ss : list (option svc)) (slot : N) (name : str) (mask : N) : option (N * stype) :=
  match ss with
  | [] => None
  | None :: rest => find_slot rest (slot + 1) name mask
  | Some s :: rest => if N.testbit mask slot && seq_eq (s_name s) name then Some (slot, s_type s) else find_slot rest (slot + 1) name mask
  end.

Definition release (r : req) (slot : N) (mr ok : bool) (newacct : option str) (h : Z) : req :=
  let rm := N.clearbit (refm r) slot in
  {| cid := cid r; ser := ser r; addr := addr r; port := port r; raddr := raddr r;
     f_host := f_host r; f_ident := f_ident r; f_nick := f_nick r; f_user := f_user r; f_pass := f_pass r; f_empty := f_empty r; f_tout := f_tout r; f_sdone := f_sdone r;
     holds := h; soft := if rm =? 0 then (soft r - 1)%Z else soft r;
     host := host r; cliu := cliu r; authu := authu r; nick := nick r; real := real r;
     acct := match newacct with Some a => a | None => acct r end;
     hh := hh r; ho := ho r; sent := sent r; refm := rm; more := if mr then N.setbit (more r) slot else more r;
     okm := if ok then N.setbit (okm r) slot else okm r; pw := pw r; timer := timer r |}.

Definition unlinked_text := S_ "The login server is currently disconnected.  Please excuse the inconvenience.".
Definition acct_len := ACCOUNTLEN.

(* text = None for unlinked; result: new request (None = decided), lines, refcount effects *)
Definition reply (c : cfg) (tb : tabs) (r : req) (svcn : str) (text : option str) : option req * list out * list eff :=
  match find_slot (slots tb) 0 svcn (refm r) with
  | None => (Some r, [], [])
  | Some (slot, t) =>
    let fin (r1 : req) (pre : list out) := let '(r', g) := gate c tb r1 in (r', pre ++ g, [(slot, (-1)%Z)]) in
    match text with
    | None => fin (release r slot false false None (holds r)) (if is_drone t then [] else [oc x43 r (S_ " :" ++ unlinked_text)])
    | Some tx =>
      if seq_eq tx (S_ "OK") then fin (release r slot false true None (holds r)) []
      else if prefix (S_ "OK ") tx then
        let a := upto sp (skipn 3 tx) in
        if negb (nonempty a) || is_drone t then fin (release r slot false true None (holds r)) []
        else
          let h := if ho r && negb (nonempty (acct r)) then (holds r - 1)%Z else holds r in
          fin (release r slot false true (Some (firstn acct_len a)) h) (if hh r || ho r then [oc x4d r (S_ " :+x")] else [])
      else if prefix (S_ "NO ") tx then (None, [oc x6b r (S_ " :" ++ skipn 3 tx)], [])
      else if prefix (S_ "AGAIN ") tx then fin (release r slot false false None (holds r)) [oc x43 r (S_ " :" ++ skipn 6 tx)]
      else if prefix (S_ "MORE ") tx then fin (release r slot true false None (holds r)) [oc x43 r (S_ " :" ++ skipn 5 tx)]
      else (Some r, [], [])
    end
  end.

(* ---------- table and dispatch ---------- *)
Record st := { reqs : list req; next : N; tb : tabs; tmo : bool }.
Fixpoint lookup (id : Z) (l : list req) : option req :=
  match l with [] => None | r :: t => if (cid r =? id)%Z then Some r else lookup id t end.
Fixpoint remove (id : Z) (l : list req) : list req :=
  match l with [] => [] | r :: t => if (cid r =? id)%Z then t else r :: remove id t end.
(* replace in place; append when the id is new (the C table is a set keyed by id) *)
Fixpoint put (r : req) (l : list req) : list req :=
  match l with [] => [r] | x :: t => if (cid x =? cid r)%Z then r :: t else x :: put r t end.

Definition fresh (id : Z) (s : N) (a : str) (g : list N) (p : N) (tm : bool) : req :=
  {| cid := id; ser := s; addr := a; port := p; raddr := g;
     f_host := false; f_ident := false; f_nick := false; f_user := false; f_pass := false; f_empty := false; f_tout := false; f_sdone := false;
     holds := 0%Z; soft := 0%Z; host := []; cliu := []; authu := []; nick := []; real := []; acct := [];
     hh := false; ho := false; sent := 0; refm := 0; more := 0; okm := 0; pw := []; timer := tm |}.

Definition with_fields (r : req) (h cu au ni re : str) (em : bool) : req := {| cid := cid r; ser := ser r; addr := addr r; port := port r; raddr := raddr r;
  f_host := f_host r; f_ident := f_ident r; f_nick := f_nick r; f_user := f_user r; f_pass := f_pass r; f_empty := em; f_tout := f_tout r; f_sdone := f_sdone r;
  holds := holds r; soft := soft r; host := h; cliu := cu; authu := au; nick := ni; real := re; acct := acct r;
  hh := hh r; ho := ho r; sent := sent r; refm := refm r; more := more r; okm := okm r; pw := pw r; timer := timer r |}.

Definition timed_out (r : req) : req := {| cid := cid r; ser := ser r; addr := addr r; port := port r; raddr := raddr r;
  f_host := f_host r; f_ident := f_ident r; f_nick := f_nick r; f_user := f_user r; f_pass := f_pass r; f_empty := f_empty r; f_tout := true; f_sdone := f_sdone r;
  holds := holds r; soft := 0%Z; host := host r; cliu := cliu r; authu := authu r; nick := nick r; real := real r; acct := acct r;
  hh := hh r; ho := ho r; sent := sent r; refm := refm r; more := more r; okm := okm r; pw := pw r; timer := false |}.

(* apply reference-count effects to the slot vector; a slot that drops to zero references while unconfigured is freed *)
Fixpoint bump (ss : list (option svc)) (slot : N) (target : N) (d : Z) : list (option svc) :=
  match ss with
  | [] => []
  | o :: rest =>
    if slot =? target then
      match o with
      | Some s => let n := (s_refs s + d)%Z in
                  (if (n =? 0)%Z && negb (s_conf s) && (d <? 0)%Z then None
                   else Some {| s_name := s_name s; s_type := s_type s; s_conf := s_conf s; s_refs := n |}) :: rest
      | None => o :: rest
      end
    else o :: bump rest (slot + 1) target d
  end.
Definition apply_effs (ss : list (option svc)) (efs : list eff) : list (option svc) :=
  fold_left (fun acc e => bump acc 0 (fst e) (snd e)) efs ss.

Definition with_slots (s : st) (efs : list eff) : tabs := {| slots := apply_effs (slots (tb s)) efs; rules := rules (tb s) |}.

Definition finish (s : st) (id : Z) (res : option req * list out * list eff) : st * list out :=
  let '(ro, outs, efs) := res in
  match ro with
  | Some r' => ({| reqs := put r' (reqs s); next := next s; tb := with_slots s efs; tmo := tmo s |}, outs)
  | None => ({| reqs := remove id (reqs s); next := next s; tb := with_slots s efs; tmo := tmo s |}, outs)
  end.

Definition after (c : cfg) (tb : tabs) (r : req) (is_pw : bool) : option req * list out * list eff :=
  let '(r1, o, efs) := qpass (slots tb) 0 is_pw r [] [] in
  let '(r2, g) := gate c tb r1 in (r2, o ++ g, efs).

(* ---------- routing tags: strtol / strtoul base 16 with at least one digit each (D22) ---------- *)
Definition hv (b : byte) : option N :=
  let n := Byte.to_N b in
  if (48 <=? n) && (n <=? 57) then Some (n - 48) else if (97 <=? n) && (n <=? 102) then Some (n - 87)
  else if (65 <=? n) && (n <=? 70) then Some (n - 55) else None.
Definition isspace (b : byte) : bool := let n := Byte.to_N b in ((9 <=? n) && (n <=? 13)) || (n =? 32).
Fixpoint skipws (s : str) : str := match s with c :: r => if isspace c then skipws r else s | [] => [] end.
(* digits of a base-16 number, saturating at `cap`; returns value, rest, number of digits *)
Fixpoint hexrun (s : str) (acc : N) (cap : N) : N * str * nat :=
  match s with
  | c :: r => match hv c with
              | Some v => let '(x, rest, n) := hexrun r (N.min (acc * 16 + v) cap) cap in (x, rest, S n)
              | None => (acc, s, O) end
  | [] => (acc, [], O)
  end.
(* optional sign, optional 0x / 0X prefix (only when a hex digit follows), digits *)
Definition strtox (s0 : str) (cap : N) : option (bool * N * str) :=
  let s := skipws s0 in
  let '(neg, s1) := match s with c :: r => if beq c x2d then (true, r) else if beq c x2b then (false, r) else (false, s) | [] => (false, s) end in
  let s2 := match s1 with
            | z :: x :: (d :: _) as r => if beq z x30 && (beq x x78 || beq x x58) && (match hv d with Some _ => true | None => false end) then r else s1
            | _ => s1 end in
  let '(v, rest, n) := hexrun s2 0 cap in
  match n with O => None | _ => Some (neg, v, rest) end.
Definition to_int32 (z : Z) : Z := let m := (z mod 4294967296)%Z in if (m <? 2147483648)%Z then m else (m - 4294967296)%Z.
Definition LONG_MAX : N := 9223372036854775807.
Definition ULONG_MAX : N := 18446744073709551615.
Definition parse_tag (t : str) : option (Z * N) :=
  match strtox t (LONG_MAX + 1) with
  | None => None
  | Some (neg, v, rest) =>
    match rest with
    | u :: after_us =>
      if negb (beq u x5f) then None else
      let idl := if neg then (- Z.of_N (N.min v (LONG_MAX + 1)))%Z else Z.of_N (N.min v LONG_MAX) in
      match strtox after_us (ULONG_MAX + 1) with
      | None => None
      | Some (neg2, v2, rest2) =>
        match rest2 with
        | _ :: _ => None
        | [] => let ul := if ULONG_MAX <? v2 then ULONG_MAX else if neg2 then (ULONG_MAX + 1 - v2) mod (ULONG_MAX + 1) else v2 in
                Some (to_int32 idl, ul mod 4294967296)
        end
      end
    | [] => None
    end
  end.

Definition arg (n : nat) (argv : list str) : option str := nth_error argv n.
Definition cmdchar (argv : list str) : byte := match argv with (c :: _) :: _ => c | _ => x00 end.
Definition decnum (s : str) : N := fold_left (fun a c => let n := Byte.to_N c in if (48 <=? n) && (n <=? 57) then a * 10 + (n - 48) else a) s 0.

(* strtol(s, NULL, 10) as a long: optional white space, optional sign, digits, saturating; 0 when no digit follows *)
Definition isdigitb (b : byte) : bool := let n := Byte.to_N b in (48 <=? n) && (n <=? 57).
Definition LONG_MAXZ : Z := 9223372036854775807.
Fixpoint digitsZ (s : str) (acc : Z) : Z * str :=
  match s with c :: r => if isdigitb c then digitsZ r (Z.min (acc * 10 + Z.of_N (Byte.to_N c - 48)) (LONG_MAXZ + 1))%Z else (acc, s) | [] => (acc, []) end.
Definition strtol_long (line : str) : Z * str :=
  let s := skipws line in
  let '(neg, s1) := match s with c :: r => if beq c x2d then (true, r) else if beq c x2b then (false, r) else (false, s) | [] => (false, s) end in
  match s1 with
  | c :: _ => if isdigitb c then
                let '(v, rest) := digitsZ s1 0%Z in
                ((if neg then Z.max (- v) (- LONG_MAXZ - 1) else Z.min v LONG_MAXZ)%Z, rest)
              else (0%Z, line)
  | [] => (0%Z, line)
  end.
(* req->remote_port = strtol(argv[2], NULL, 10), an unsigned short *)
Definition port_of (p : str) : N := Z.to_N (fst (strtol_long p) mod 65536)%Z.

(* the announced address: irc_pton(argv[1]) then irc_ntop *)
Definition announce_addr (a : str) : list N * str :=
  match pton a false false with
  | Res _ _ gs => (gs, ntop gs)
  | Unspec => (zeros, ntop zeros)
  end.

Definition hostlen := HOSTLEN. Definition userlen := USERLEN. Definition nicklen := NICKLEN. Definition reallen := REALLEN.

Definition step (c : cfg) (s : st) (id : Z) (argv : list str) : st * list out :=
  let ch := cmdchar argv in
  if beq ch x43 (* C *) then
    match arg 1 argv, arg 2 argv, arg 3 argv, arg 4 argv with
    | Some a, Some p, Some _, Some _ =>
        let sn := (next s + 1) mod 4294967296 in
        let '(g, txt) := announce_addr a in
        ({| reqs := put (fresh id sn txt g (port_of p) (tmo s)) (reqs s); next := sn; tb := tb s; tmo := tmo s |}, [])
    | _, _, _, _ => (s, [])
    end
  else if beq ch x58 || beq ch x78 (* X x *) then
    if negb (with_xq c) then (s, []) else
    match arg 1 argv, arg 2 argv, arg 3 argv with
    | Some svcn, Some tg, Some tx =>
      match parse_tag tg with
      | None => (s, [])
      | Some (tid, tser) =>
        match lookup tid (reqs s) with
        | Some r => if ser r =? tser then finish s tid (reply c (tb s) r svcn (if beq ch x58 then Some tx else None)) else (s, [])
        | None => (s, [])
        end
      end
    | _, _, _ => (s, [])
    end
  else
  match lookup id (reqs s) with
  | None => (s, [])
  | Some r =>
    let aft (r1 : req) := finish s id (if with_xq c then after c (tb s) r1 false else let '(r2, g) := gate c (tb s) r1 in (r2, g, [])) in
    if beq ch x44 || beq ch x54 then ({| reqs := remove id (reqs s); next := next s; tb := tb s; tmo := tmo s |}, [])
    else if beq ch x21 (* ! timeout *) then
      if timer r && match arg 1 argv with Some a => seq_eq a (S_ "timeout") | None => false end then
        let '(r2, g) := gate c (tb s) (timed_out r) in finish s id (r2, g, [])
      else (s, [])
    else if beq ch x4e (* N *) then
      match arg 1 argv with
      | Some h => if nonempty (host r) then (s, []) else
                  aft (set_flags (with_fields r (firstn hostlen h) (cliu r) (authu r) (nick r) (real r) (f_empty r)) true (f_ident r) (f_nick r) (f_user r) (f_pass r))
      | None => (s, [])
      end
    else if beq ch x64 (* d *) then aft (set_flags r true (f_ident r) (f_nick r) (f_user r) (f_pass r))
    else if beq ch x75 (* u *) then
      match arg 1 argv with
      | Some u => aft (set_flags (with_fields r (host r) (cliu r) (firstn userlen u) (nick r) (real r) (f_empty r)) (f_host r) true (f_nick r) (f_user r) (f_pass r))
      | None => if nonempty (cliu r) then aft (set_flags r (f_host r) true (f_nick r) (f_user r) (f_pass r))
                else aft (with_fields r (host r) (cliu r) (authu r) (nick r) (real r) true)
      end
    else if beq ch x6e (* n *) then
      match arg 1 argv with
      | Some n => aft (set_flags (with_fields r (host r) (cliu r) (authu r) (firstn nicklen n) (real r) (f_empty r)) (f_host r) (f_ident r) true (f_user r) (f_pass r))
      | None => (s, [])
      end
    else if beq ch x55 (* U *) then
      match arg 1 argv, arg 2 argv with
      | Some u, Some re =>
        let r1 := with_fields r (host r) (firstn userlen u) (authu r) (nick r) (firstn reallen re) (f_empty r) in
        aft (set_flags r1 (f_host r) (f_ident r || f_empty r) (f_nick r) true (f_pass r))
      | _, _ => (s, [ORaw (S_ "> :ircd sent garbage: <id> U without realname")])
      end
    else if beq ch x48 (* H *) then
      (if with_xq c then aft (set_flags r true true true true (f_pass r)) else aft (set_flags r true (f_ident r) (f_nick r) (f_user r) (f_pass r)))
    else if beq ch x50 (* P *) then
      match arg 1 argv with
      | Some t =>
        let r0 := set_flags r (f_host r) (f_ident r) (f_nick r) (f_user r) true in
        if with_xq c then
          let '(r1, o, efs) := password (tb s) r0 t in
          let '(r2, g) := gate c (tb s) r1 in finish s id (r2, o ++ g, efs)
        else let '(r2, g) := gate c (tb s) r0 in finish s id (r2, g, [])
      | None => (s, [])
      end
    else (s, [])
  end.

(* ---------- reload of the module tables (iauth_xquery_services_changed, iauth_class_conf_changed) ---------- *)
Definition type_of_name (t : str) : option stype :=
  if ci_eq t (S_ "login") then Some Login else if ci_eq t (S_ "login-ipr") then Some LoginIpr
  else if ci_eq t (S_ "dronecheck") then Some Drone else if ci_eq t (S_ "combined") then Some Combined else None.

Fixpoint find_name (ss : list (option svc)) (name : str) : bool :=
  match ss with [] => false | Some s :: rest => seq_eq (s_name s) name || find_name rest name | None :: rest => find_name rest name end.
Fixpoint has_empty (ss : list (option svc)) : bool := match ss with [] => false | None :: _ => true | Some _ :: r => has_empty r end.
Fixpoint fill_empty (ss : list (option svc)) (n : svc) : list (option svc) :=
  match ss with [] => [] | None :: r => Some n :: r | Some s :: r => Some s :: fill_empty r n end.
Definition set_type (s : svc) (ty : option stype) : svc :=
  match ty with
  | Some t => {| s_name := s_name s; s_type := t; s_conf := true; s_refs := s_refs s |}
  | None => {| s_name := s_name s; s_type := s_type s; s_conf := false; s_refs := s_refs s |}
  end.
Fixpoint retype (ss : list (option svc)) (name : str) (ty : option stype) : list (option svc) :=
  match ss with
  | [] => []
  | Some s :: r => if seq_eq (s_name s) name then Some (set_type s ty) :: r else Some s :: retype r name ty
  | None :: r => None :: retype r name ty
  end.
(* Each client records its services in 32-bit masks indexed by slot, so a service that would need a slot of
   index >= 32 is refused: iauth_xquery_config_service logs an error and ignores the entry (D27). *)
Definition max_slots : nat := 32.
(* index of the first empty slot, or the length of the vector if there is none *)
Fixpoint free_index (ss : list (option svc)) : nat :=
  match ss with [] => O | None :: _ => O | Some _ :: r => S (free_index r) end.
Definition config_service (ss : list (option svc)) (name ty : str) : list (option svc) :=
  let ss1 := if find_name ss name then ss
             else if (free_index ss <? max_slots)%nat then
                  let n := {| s_name := name; s_type := Login; s_conf := false; s_refs := 0%Z |} in
                  if has_empty ss then fill_empty ss n else ss ++ [Some n]
             else ss (* no room: the entry is ignored; retype below finds no such name and changes nothing *) in
  retype ss1 name (type_of_name ty).
Definition unconf (o : option svc) : option svc :=
  match o with Some s => Some {| s_name := s_name s; s_type := s_type s; s_conf := false; s_refs := s_refs s |} | None => None end.
Definition unref (o : option svc) : option svc :=
  match o with Some s => if (0 <? s_refs s)%Z || s_conf s then o else None | None => None end.
Definition services_changed (ss : list (option svc)) (entries : list (str * str)) : list (option svc) :=
  map unref (fold_left (fun acc e => config_service acc (fst e) (snd e)) entries (map unconf ss)).

(* a slot that is given to another service says nothing about its new occupant (D30): the masks of every pending client forget it.
   The C code does this lazily (iauth_xquery_sync, an epoch per slot and per client); the effect is that of clearing the bits when the
   slot is refilled, which only a reload does. *)
Fixpoint refilled (old new : list (option svc)) (i : N) : list N :=
  match old, new with
  | None :: o', Some _ :: n' => i :: refilled o' n' (i + 1)
  | _ :: o', _ :: n' => refilled o' n' (i + 1)
  | _, _ => []
  end.
Definition forget (idx : list N) (r : req) : req :=
  let clr (m : N) := fold_left N.clearbit idx m in
  {| cid := cid r; ser := ser r; addr := addr r; port := port r; raddr := raddr r;
     f_host := f_host r; f_ident := f_ident r; f_nick := f_nick r; f_user := f_user r; f_pass := f_pass r; f_empty := f_empty r; f_tout := f_tout r; f_sdone := f_sdone r;
     holds := holds r; soft := soft r;
     host := host r; cliu := cliu r; authu := authu r; nick := nick r; real := real r; acct := acct r;
     hh := hh r; ho := ho r; sent := clr (sent r); refm := refm r; more := clr (more r); okm := clr (okm r); pw := pw r; timer := timer r |}.

Inductive ev :=
| Ev (id : Z) (argv : list str)
| Reload (services : list (str * str)) (newrules : list rule) (timeout_set : bool).

Definition init (c : cfg) (services : list (str * str)) (rs : list rule) (t : bool) : st :=
  {| reqs := []; next := 0; tb := {| slots := services_changed [] services; rules := rs |}; tmo := t |}.

Definition step_ev (c : cfg) (s : st) (e : ev) : st * list out :=
  match e with
  | Ev id argv => step c s id argv
  | Reload svs rs t =>
      let new := services_changed (slots (tb s)) svs in
      ({| reqs := map (forget (refilled (slots (tb s)) new 0)) (reqs s); next := next s; tb := {| slots := new; rules := rs |}; tmo := t |}, [])
  end.

Definition run_out (c : cfg) (s0 : st) (evs : list ev) : list (list out) :=
  snd (fold_left (fun acc e => let '(s, outs) := acc in let '(s', o) := step_ev c s e in (s', outs ++ [o])) evs (s0, [])).
