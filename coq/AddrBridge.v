(* Part B: bridge between the reduced model (Addr.v) and the complete model (AddrFull.v, the one compared with the C code
   byte for byte).  Printer: AddrFull.ntop = Addr.ntop6 outside the dotted-quad form.  Parser: on strings made of hex digits
   and ':' only, AddrFull.pton (usebits = false, allow_trailing = false) computes what Addr.pton6 computes. *)
From Coq Require Import List NArith Lia Bool Strings.Byte Arith.
Import ListNotations.
Require Import Addr AddrRT AddrRT2 AddrRT3 AddrRT4 NtopProps.
Require AddrFull.
Local Open Scope N_scope.

(* ================= printer ================= *)
Fixpoint leqb (a b : str) : bool :=
  match a, b with [], [] => true | x :: a', y :: b' => Byte.eqb x y && leqb a' b' | _, _ => false end.
Lemma leqb_eq a : forall b, leqb a b = true -> a = b.
Proof.
  induction a as [|x a IH]; intros [|y b] H; try discriminate; [reflexivity|].
  cbn in H. apply andb_true_iff in H as [H1 H2]. apply Byte.byte_dec_bl in H1. subst. f_equal. apply IH; exact H2.
Qed.

Definition FH (a b c d : N) : bool := let p := a * 4096 + b * 256 + c * 16 + d in leqb (AddrFull.hexstr p) (hexstr p).
Lemma allH_ok : all4 FH = true. Proof. vm_compute. reflexivity. Qed.

Lemma hexstr_eq p : p < 65536 -> AddrFull.hexstr p = hexstr p.
Proof.
  intros Hp. destruct (nibbles p Hp) as (a & b & c & d & La & Lb & Lc & Ld & E).
  apply leqb_eq. rewrite E. change (FH a b c d = true).
  exact (forallb4 FH allH_ok a b c d (in_nib a La) (in_nib b Lb) (in_nib c Lc) (in_nib d Ld)).
Qed.

Lemma scan_eq gs : forall ii ms mz cz, AddrFull.scan gs ii ms mz cz = scan gs ii ms mz cz.
Proof. induction gs as [|g r IH]; intros; cbn [AddrFull.scan scan]; [reflexivity|]. rewrite !IH. reflexivity. Qed.

Lemma pr_eq gs : small gs -> forall ii s z skip, AddrFull.pr gs ii s z skip = pr gs ii s z skip.
Proof.
  induction gs as [|g r IH]; intros Hs ii s z skip; [reflexivity|]. inversion Hs; subst.
  cbn [AddrFull.pr pr]. destruct skip; [|apply IH; assumption]. rewrite !IH by assumption. rewrite hexstr_eq by assumption. reflexivity.
Qed.

Theorem ntop_is_ntop6 gs : length gs = 8%nat -> small gs -> AddrFull.is_ipv4 gs = false -> AddrFull.ntop gs = ntop6 gs.
Proof.
  intros _ Hs H4. unfold AddrFull.ntop, ntop6. rewrite H4, scan_eq.
  destruct (scan gs 0 0 0 0) as [s z]. apply pr_eq; exact Hs.
Qed.

(* ================= characters ================= *)
Lemma hexv_eq c : AddrFull.hexv c = hexval c.
Proof. reflexivity. Qed.

Lemma to_N_inj a b : Byte.to_N a = Byte.to_N b -> a = b.
Proof. intros H. pose proof (Byte.of_to_N a) as Ha. rewrite H, Byte.of_to_N in Ha. congruence. Qed.

Lemma isch_eqb c d : AddrFull.isch c (Byte.to_N d) = Byte.eqb c d.
Proof.
  unfold AddrFull.isch, AddrFull.nb. destruct (Byte.eqb c d) eqn:E.
  - apply Byte.byte_dec_bl in E. subst. apply N.eqb_refl.
  - apply N.eqb_neq. intros H. apply to_N_inj in H. subst. rewrite (Byte.byte_dec_lb eq_refl) in E. discriminate.
Qed.

Lemma isch_colon c : AddrFull.isch c 58 = Byte.eqb c colon.
Proof. exact (isch_eqb c colon). Qed.

Lemma hdis_colon r : AddrFull.hdis r 58 = hd_is r colon.
Proof. destruct r; [reflexivity|]. apply isch_colon. Qed.

Lemma ishex_range c : ishex c = true ->
  (48 <= Byte.to_N c <= 57) \/ (97 <= Byte.to_N c <= 102) \/ (65 <= Byte.to_N c <= 70).
Proof.
  unfold ishex, hexval. cbv zeta. set (n := Byte.to_N c). clearbody n. intros H.
  destruct ((48 <=? n) && (n <=? 57)) eqn:E1.
  { apply andb_true_iff in E1 as [A B]. apply N.leb_le in A, B. lia. }
  destruct ((97 <=? n) && (n <=? 102)) eqn:E2.
  { apply andb_true_iff in E2 as [A B]. apply N.leb_le in A, B. lia. }
  destruct ((65 <=? n) && (n <=? 70)) eqn:E3.
  { apply andb_true_iff in E3 as [A B]. apply N.leb_le in A, B. lia. }
  discriminate.
Qed.

Lemma hexval_lt16 c v : hexval c = Some v -> v < 16.
Proof.
  unfold hexval. cbv zeta. set (n := Byte.to_N c). clearbody n.
  destruct ((48 <=? n) && (n <=? 57)) eqn:E1.
  { apply andb_true_iff in E1 as [A B]. apply N.leb_le in A, B. intros H; inversion H; subst. lia. }
  destruct ((97 <=? n) && (n <=? 102)) eqn:E2.
  { apply andb_true_iff in E2 as [A B]. apply N.leb_le in A, B. intros H; inversion H; subst. lia. }
  destruct ((65 <=? n) && (n <=? 70)) eqn:E3.
  { apply andb_true_iff in E3 as [A B]. apply N.leb_le in A, B. intros H; inversion H; subst. lia. }
  discriminate.
Qed.

(* what a character of the alphabet is not *)
Definition plainch (c : byte) : Prop :=
  AddrFull.isch c 46 = false /\ AddrFull.isch c 47 = false /\ AddrFull.isch c 42 = false /\
  Byte.eqb c x2e = false /\ AddrFull.isspace c = false.

Lemma hc_plain c : hc c = true -> plainch c.
Proof.
  unfold hc. intros H. apply orb_true_iff in H as [H|H].
  - pose proof (ishex_range c H) as R. unfold plainch.
    rewrite <- (isch_eqb c x2e). unfold AddrFull.isspace, AddrFull.isch, AddrFull.nb.
    change (Byte.to_N x2e) with 46. set (n := Byte.to_N c) in *. clearbody n.
    assert ((n =? 46) = false) as -> by (apply N.eqb_neq; lia).
    assert ((n =? 47) = false) as -> by (apply N.eqb_neq; lia).
    assert ((n =? 42) = false) as -> by (apply N.eqb_neq; lia).
    assert ((n =? 32) = false) as -> by (apply N.eqb_neq; lia).
    assert ((n <=? 13) = false) as -> by (apply N.leb_gt; lia).
    rewrite andb_false_r. repeat split; reflexivity.
  - unfold is in H. apply Byte.byte_dec_bl in H. subst. repeat split; reflexivity.
Qed.

Lemma hc_nohex_colon c : hc c = true -> hexval c = None -> c = colon.
Proof.
  unfold hc, ishex. intros H Hv. rewrite Hv in H. cbn in H. apply Byte.byte_dec_bl in H. exact H.
Qed.

Lemma hexcolon_hd r : hexcolon r -> AddrFull.hdis r 46 = false /\ hd_is r x2e = false.
Proof.
  intros H. destruct r as [|c r]; [split; reflexivity|]. inversion H; subst.
  destruct (hc_plain c ltac:(assumption)) as (A & _ & _ & B & _). split; assumption.
Qed.

(* ================= arithmetic of the digit accumulation ================= *)
Lemma low_bits_zero v k n : v < 2 ^ k -> k <= n -> N.testbit v n = false.
Proof.
  intros Hv Hn. destruct (N.eq_dec v 0) as [->|Hz]; [apply N.bits_0|].
  apply N.bits_above_log2. apply N.log2_lt_pow2; [lia|].
  eapply N.lt_le_trans; [exact Hv|]. apply N.pow_le_mono_r; lia.
Qed.

Lemma lor_shift p v : v < 16 -> N.lor (N.shiftl p 4) v = p * 16 + v.
Proof.
  intros Hv.
  assert (N.land (N.shiftl p 4) v = 0) as Hl.
  { apply N.bits_inj_0. intros n. rewrite N.land_spec.
    destruct (N.lt_ge_cases n 4) as [Hlt|Hge].
    - rewrite N.shiftl_spec_low by exact Hlt. reflexivity.
    - rewrite (low_bits_zero v 4 n) by (try exact Hge; exact Hv). apply andb_false_r. }
  rewrite <- N.lxor_lor by exact Hl. rewrite <- N.add_nocarry_lxor by exact Hl.
  rewrite N.shiftl_mul_pow2. reflexivity.
Qed.

(* ================= the group array ================= *)
Lemma setg_acc acc p : AddrFull.setg (acc ++ repeat 0 (8 - length acc)) (length acc) p = (acc ++ [p]) ++ repeat 0 (8 - S (length acc)) \/ (8 <= length acc)%nat.
Proof.
  destruct (le_lt_dec 8 (length acc)) as [|Hlt]; [right; assumption|left].
  unfold AddrFull.setg. rewrite firstn_app, Nat.sub_diag, firstn_all. cbn [firstn]. rewrite app_nil_r.
  rewrite skipn_app. rewrite (skipn_all2 acc) by lia.
  replace (S (length acc) - length acc)%nat with 1%nat by lia.
  replace (8 - length acc)%nat with (S (8 - S (length acc))) by lia. cbn [repeat skipn app].
  rewrite <- app_assoc. reflexivity.
Qed.

Lemma fixup_finish p acc i c : length acc = i -> (i <= 8)%nat -> (c <= i \/ c = 8)%nat -> (c < 8 \/ i = 8)%nat ->
  AddrFull.fixup (acc ++ repeat 0 (8 - i)) i c = finish {| part := p; ii := i; cpos := c; acc := acc |}.
Proof.
  intros Hl Hi Hc Hd. unfold AddrFull.fixup, finish. cbn [cpos ii Addr.acc].
  destruct (Nat.ltb c 8) eqn:E.
  - apply Nat.ltb_lt in E. assert (c <= length acc)%nat as Hca by lia.
    rewrite firstn_app. replace (c - length acc)%nat with 0%nat by lia. cbn [firstn]. rewrite app_nil_r.
    rewrite skipn_app. replace (c - length acc)%nat with 0%nat by lia. cbn [skipn].
    rewrite firstn_app. rewrite skipn_length.
    replace (i - c - (length acc - c))%nat with 0%nat by lia. cbn [firstn]. rewrite app_nil_r.
    rewrite (firstn_all2 (skipn c acc)) by (rewrite skipn_length; lia). reflexivity.
  - apply Nat.ltb_ge in E. assert (i = 8)%nat as -> by lia. cbn [Nat.sub repeat]. apply app_nil_r.
Qed.

(* ================= one-step equations of v6 for usebits = false, trailing = false ================= *)
Section V6.
Variables (f pos : nat) (part : N) (i c : nat) (ps : str) (pspos : nat) (G : AddrFull.groups).

Lemma v6_done : (8 <= i)%nat ->
  AddrFull.v6 (S f) [] pos false false part i c ps pspos G None = AddrFull.Res pos None (AddrFull.fixup G i c).
Proof. intros H. cbn [AddrFull.v6]. assert (Nat.leb 8 i = true) as -> by (apply Nat.leb_le; exact H). reflexivity. Qed.

Lemma v6_nil : (i < 8)%nat ->
  AddrFull.v6 (S f) [] pos false false part i c ps pspos G None =
  if Nat.eqb c 8 && Nat.ltb (S i) 8 then AddrFull.Res 0 None (AddrFull.setg G i part)
  else AddrFull.Res pos None (AddrFull.fixup (AddrFull.setg G i part) (S i) c).
Proof. intros H. cbn [AddrFull.v6]. assert (Nat.leb 8 i = false) as -> by (apply Nat.leb_gt; exact H). reflexivity. Qed.

Lemma v6_hex ch r v : (i < 8)%nat -> hexval ch = Some v ->
  AddrFull.v6 (S f) (ch :: r) pos false false part i c ps pspos G None =
  if 65535 <? part * 16 + v then AddrFull.Res 0 None G
  else AddrFull.v6 f r (S pos) false false (part * 16 + v) i c ps pspos G None.
Proof.
  intros H Hv. cbn [AddrFull.v6]. assert (Nat.leb 8 i = false) as -> by (apply Nat.leb_gt; exact H).
  rewrite hexv_eq, Hv. reflexivity.
Qed.

Lemma v6_colon r : (i < 8)%nat -> AddrFull.hdis r 46 = false ->
  AddrFull.v6 (S f) (colon :: r) pos false false part i c ps pspos G None =
  if hd_is r colon then
    (if Nat.ltb c 8 then AddrFull.Res 0 None (AddrFull.setg G i part)
     else AddrFull.v6 f r (S pos) false false 0 (S i) (S i) r (S pos) (AddrFull.setg G i part) None)
  else AddrFull.v6 f r (S pos) false false 0 (S i) c r (S pos) (AddrFull.setg G i part) None.
Proof.
  intros H Hd. cbn [AddrFull.v6]. assert (Nat.leb 8 i = false) as -> by (apply Nat.leb_gt; exact H).
  rewrite hexv_eq. change (hexval colon) with (@None N). change (AddrFull.isch colon 58) with true. cbv iota.
  rewrite Hd, hdis_colon. reflexivity.
Qed.
End V6.

(* ================= simulation ================= *)
Lemma v6_sim s : forall fl fv pos p i c a ps pspos st',
  hexcolon s -> (length s < fv)%nat -> length a = i -> (i <= 8)%nat -> (c <= i \/ c = 8)%nat ->
  loop fl {| part := p; ii := i; cpos := c; acc := a |} s = Done st' [] ->
  AddrFull.v6 fv s pos false false p i c ps pspos (a ++ repeat 0 (8 - i)) None = AddrFull.Res (pos + length s) None (finish st').
Proof.
  induction s as [|ch r IH]; intros fl fv pos p i c a ps pspos st' Hhc Hfv Hla Hi Hc HL.
  - destruct fl as [|fl]; [discriminate|]. destruct fv as [|fv]; [cbn in Hfv; lia|].
    cbn [length]. rewrite Nat.add_0_r. cbn [loop ii cpos Addr.acc part] in HL.
    destruct (Nat.leb 8 i) eqn:E.
    + apply Nat.leb_le in E. injection HL as <-. rewrite v6_done by exact E.
      f_equal. apply fixup_finish; try assumption. right; lia.
    + apply Nat.leb_gt in E. rewrite v6_nil by exact E.
      destruct (Nat.eqb c 8 && Nat.ltb (S i) 8) eqn:Ec; [discriminate|]. injection HL as <-.
      f_equal. subst i. destruct (setg_acc a p) as [->|]; [|lia].
      apply fixup_finish; [rewrite app_length; cbn; lia|lia|lia|].
      apply andb_false_iff in Ec as [Ec|Ec]; [apply Nat.eqb_neq in Ec; lia|apply Nat.ltb_ge in Ec; lia].
  - apply Forall_cons_iff in Hhc as [Hch Hr]. fold (hexcolon r) in Hr.
    destruct fl as [|fl]; [discriminate|]. destruct fv as [|fv]; [cbn in Hfv; lia|].
    cbn [length] in *. rewrite Nat.add_succ_r.
    cbn [loop ii cpos Addr.acc part] in HL.
    destruct (Nat.leb 8 i) eqn:E; [discriminate|]. apply Nat.leb_gt in E.
    destruct (hexval ch) as [v|] eqn:Hv.
    + rewrite (v6_hex _ _ _ _ _ _ _ _ _ _ _ E Hv).
      rewrite (lor_shift p v (hexval_lt16 ch v Hv)) in HL.
      change 0xffff with 65535 in HL.
      destruct (65535 <? p * 16 + v); [discriminate|].
      exact (IH fl fv (S pos) _ i c a ps pspos st' Hr ltac:(lia) Hla Hi Hc HL).
    + pose proof (hc_nohex_colon ch Hch Hv) as ->.
      destruct (hexcolon_hd r Hr) as [Hd1 Hd2].
      rewrite (v6_colon _ _ _ _ _ _ _ _ _ E Hd1).
      change (is colon colon) with true in HL. cbv iota in HL. rewrite Hd2 in HL.
      subst i. destruct (setg_acc a p) as [->|]; [|lia].
      destruct (hd_is r colon).
      * destruct (Nat.ltb c 8); [discriminate|].
        refine (IH fl fv (S pos) 0 (S (length a)) (S (length a)) (a ++ [p]) r (S pos) st' Hr ltac:(lia) _ ltac:(lia) ltac:(lia) HL).
        rewrite app_length; cbn; lia.
      * refine (IH fl fv (S pos) 0 (S (length a)) c (a ++ [p]) r (S pos) st' Hr ltac:(lia) _ ltac:(lia) ltac:(lia) HL).
        rewrite app_length; cbn; lia.
Qed.

(* ================= the entry of pton ================= *)
Lemma skipws_hexcolon s : hexcolon s -> AddrFull.skipws s = (s, 0%nat).
Proof.
  intros H. destruct s as [|c r]; [reflexivity|]. apply Forall_cons_iff in H as [Hc _].
  destruct (hc_plain c Hc) as (_ & _ & _ & _ & Hsp). cbn [AddrFull.skipws]. rewrite Hsp. reflexivity.
Qed.

Lemma has_dot_none s : hexcolon s -> AddrFull.has s 46 = None.
Proof.
  induction s as [|c r IH]; intros H; [reflexivity|]. apply Forall_cons_iff in H as [Hc Hr].
  destruct (hc_plain c Hc) as (Hd & _). cbn [AddrFull.has]. rewrite Hd, (IH Hr). reflexivity.
Qed.

(* without "::" the parser wants eight groups, hence at least one ':' *)
Lemma loop_needs_colon s : forall fl p i a st',
  hexcolon s -> (i < 7)%nat ->
  loop fl {| part := p; ii := i; cpos := 8; acc := a |} s = Done st' [] -> exists k, AddrFull.has s 58 = Some k.
Proof.
  induction s as [|c r IH]; intros fl p i a st' Hhc Hi HL; (destruct fl as [|fl]; [discriminate|]);
    cbn [loop ii cpos Addr.acc part] in HL;
    (assert (Nat.leb 8 i = false) as E by (apply Nat.leb_gt; lia)); rewrite E in HL.
  - assert (Nat.ltb (S i) 8 = true) as E2 by (apply Nat.ltb_lt; lia). rewrite E2 in HL. discriminate.
  - apply Forall_cons_iff in Hhc as [Hc Hr]. cbn [AddrFull.has]. rewrite isch_colon.
    destruct (Byte.eqb c colon) eqn:Ec; [exists 0%nat; reflexivity|].
    destruct (hexval c) as [v|] eqn:Hv.
    + destruct (0xffff <? N.lor (N.shiftl p 4) v); [discriminate|].
      destruct (IH _ _ _ _ _ Hr Hi HL) as [k ->]. exists (S k). reflexivity.
    + rewrite (hc_nohex_colon c Hc Hv) in Ec. discriminate.
Qed.

Theorem pton_is_pton6 s gs : hexcolon s -> pton6 s = Some gs -> AddrFull.pton s false false = AddrFull.Res (length s) None gs.
Proof.
  intros Hhc HP. unfold AddrFull.pton. rewrite (skipws_hexcolon s Hhc), (has_dot_none s Hhc). cbv iota beta zeta.
  rewrite hdis_colon. unfold pton6 in HP.
  destruct (hd_is s colon) eqn:E1.
  - (* "::" at the start *)
    destruct s as [|c1 t]; [discriminate|]. cbn [hd_is] in E1. apply Byte.byte_dec_bl in E1. subst c1.
    cbn [tl] in HP. destruct (hd_is t colon) eqn:E2; [|discriminate].
    destruct t as [|c2 r2]; [discriminate|]. cbn [hd_is] in E2. apply Byte.byte_dec_bl in E2. subst c2.
    cbn [tl] in HP. destruct (hd_is r2 colon) eqn:E3; [discriminate|].
    change (AddrFull.has (colon :: colon :: r2) 58) with (Some 0%nat). cbv iota.
    change (AddrFull.isch colon 58) with true. cbn [negb orb]. rewrite hdis_colon, E3.
    apply Forall_cons_iff in Hhc as [_ Hhc]. apply Forall_cons_iff in Hhc as [_ Hr2].
    destruct (loop (S (length (colon :: colon :: r2))) {| part := 0; ii := 0; cpos := 0; acc := [] |} r2) as [|st' rest] eqn:EL; [discriminate|].
    destruct rest; [|discriminate]. injection HP as <-.
    cbn [Nat.add length].
    exact (v6_sim r2 _ (S (S (S (S (length r2))))) 2 0 0%nat 0%nat [] r2 2%nat st' Hr2 ltac:(lia) eq_refl ltac:(lia) ltac:(lia) EL).
  - destruct (loop (S (length s)) {| part := 0; ii := 0; cpos := 8; acc := [] |} s) as [|st' rest] eqn:EL; [discriminate|].
    destruct rest; [|discriminate]. injection HP as <-.
    destruct (loop_needs_colon s (S (length s)) 0 0%nat [] st' Hhc ltac:(lia) EL) as [k ->]. cbv iota.
    exact (v6_sim s _ (S (S (length s))) 0 0 0%nat 8%nat [] [] 0%nat st' Hhc ltac:(lia) eq_refl ltac:(lia) ltac:(lia) EL).
Qed.

Theorem ntop_pton_ipv6 gs : length gs = 8%nat -> small gs -> AddrFull.is_ipv4 gs = false ->
  AddrFull.pton (AddrFull.ntop gs) false false = AddrFull.Res (length (AddrFull.ntop gs)) None gs.
Proof.
  intros Hl Hs H4. rewrite (ntop_is_ntop6 gs Hl Hs H4).
  apply pton_is_pton6; [apply ntop6_hexcolon; assumption|apply ntop6_pton6; assumption].
Qed.

(* ================= converse: what pton6 rejects, pton rejects (returns 0) ================= *)
Lemma v6_full f pos part i c ps pspos G ch r : (8 <= i)%nat ->
  AddrFull.v6 (S f) (ch :: r) pos false false part i c ps pspos G None = AddrFull.Res 0 None (AddrFull.fixup G i c).
Proof. intros H. cbn [AddrFull.v6]. assert (Nat.leb 8 i = true) as -> by (apply Nat.leb_le; exact H). reflexivity. Qed.

Definition accepted (r : res) : Prop := exists st', r = Done st' [].

Lemma v6_sim_fail s : forall fl fv pos p i c a ps pspos,
  hexcolon s -> (length s < fl)%nat -> (length s < fv)%nat -> length a = i -> (i <= 8)%nat -> (c <= i \/ c = 8)%nat ->
  ~ accepted (loop fl {| part := p; ii := i; cpos := c; acc := a |} s) ->
  exists G, AddrFull.v6 fv s pos false false p i c ps pspos (a ++ repeat 0 (8 - i)) None = AddrFull.Res 0 None G.
Proof.
  induction s as [|ch r IH]; intros fl fv pos p i c a ps pspos Hhc Hfl Hfv Hla Hi Hc HL.
  - destruct fl as [|fl]; [cbn in Hfl; lia|]. destruct fv as [|fv]; [cbn in Hfv; lia|].
    cbn [loop ii cpos Addr.acc part] in HL.
    destruct (Nat.leb 8 i) eqn:E; [exfalso; apply HL; eexists; reflexivity|].
    apply Nat.leb_gt in E. rewrite v6_nil by exact E.
    destruct (Nat.eqb c 8 && Nat.ltb (S i) 8); [eexists; reflexivity|exfalso; apply HL; eexists; reflexivity].
  - apply Forall_cons_iff in Hhc as [Hch Hr]. fold (hexcolon r) in Hr.
    destruct fl as [|fl]; [cbn in Hfl; lia|]. destruct fv as [|fv]; [cbn in Hfv; lia|].
    cbn [length] in *. cbn [loop ii cpos Addr.acc part] in HL.
    destruct (Nat.leb 8 i) eqn:E.
    { apply Nat.leb_le in E. rewrite v6_full by exact E. eexists; reflexivity. }
    apply Nat.leb_gt in E.
    destruct (hexval ch) as [v|] eqn:Hv.
    + rewrite (v6_hex _ _ _ _ _ _ _ _ _ _ _ E Hv).
      rewrite (lor_shift p v (hexval_lt16 ch v Hv)) in HL. change 0xffff with 65535 in HL.
      destruct (65535 <? p * 16 + v); [eexists; reflexivity|].
      exact (IH fl fv (S pos) _ i c a ps pspos Hr ltac:(lia) ltac:(lia) Hla Hi Hc HL).
    + pose proof (hc_nohex_colon ch Hch Hv) as ->.
      destruct (hexcolon_hd r Hr) as [Hd1 Hd2].
      rewrite (v6_colon _ _ _ _ _ _ _ _ _ E Hd1).
      change (is colon colon) with true in HL. cbv iota in HL. rewrite Hd2 in HL.
      subst i. destruct (setg_acc a p) as [->|]; [|lia].
      destruct (hd_is r colon).
      * destruct (Nat.ltb c 8); [eexists; reflexivity|].
        refine (IH fl fv (S pos) 0 (S (length a)) (S (length a)) (a ++ [p]) r (S pos) Hr ltac:(lia) ltac:(lia) _ ltac:(lia) ltac:(lia) HL).
        rewrite app_length; cbn; lia.
      * refine (IH fl fv (S pos) 0 (S (length a)) c (a ++ [p]) r (S pos) Hr ltac:(lia) ltac:(lia) _ ltac:(lia) ltac:(lia) HL).
        rewrite app_length; cbn; lia.
Qed.

Lemma has_colon_none s : AddrFull.has s 58 = None -> hd_is s colon = false.
Proof. destruct s as [|c r]; [reflexivity|]. cbn [AddrFull.has hd_is]. rewrite isch_colon. destruct (Byte.eqb c colon); [discriminate|reflexivity]. Qed.

Lemma pton6_rejects s : hexcolon s -> s <> [] -> pton6 s = None -> exists b G, AddrFull.pton s false false = AddrFull.Res 0 b G.
Proof.
  intros Hhc Hne HP. unfold AddrFull.pton. rewrite (skipws_hexcolon s Hhc), (has_dot_none s Hhc). cbv iota beta zeta.
  rewrite hdis_colon. unfold pton6 in HP.
  destruct (hd_is s colon) eqn:E1.
  - destruct s as [|c1 t]; [discriminate|]. cbn [hd_is] in E1. apply Byte.byte_dec_bl in E1. subst c1.
    change (AddrFull.has (colon :: t) 58) with (Some 0%nat). cbv iota.
    cbn [tl] in HP. destruct t as [|c2 r2]; [eexists _, _; reflexivity|].
    cbn [hd_is tl] in HP. rewrite isch_colon, hdis_colon.
    destruct (Byte.eqb c2 colon) eqn:E2; [|eexists _, _; reflexivity]. apply Byte.byte_dec_bl in E2. subst c2.
    destruct (hd_is r2 colon) eqn:E3; [eexists _, _; reflexivity|]. cbn [negb orb].
    apply Forall_cons_iff in Hhc as [_ Hhc]. apply Forall_cons_iff in Hhc as [_ Hr2].
    cbn [Nat.add length].
    destruct (v6_sim_fail r2 (S (length (colon :: colon :: r2))) (S (S (S (S (length r2))))) 2 0 0%nat 0%nat [] r2 2%nat Hr2
                ltac:(cbn [length]; lia) ltac:(lia) eq_refl ltac:(lia) ltac:(lia)) as [G HG].
    + intros [st' Hst]. rewrite Hst in HP. discriminate.
    + exists None, G. exact HG.
  - destruct (AddrFull.has s 58) as [k|] eqn:Hc.
    + cbv iota.
      destruct (v6_sim_fail s (S (length s)) (S (S (length s))) 0 0 0%nat 8%nat [] [] 0%nat Hhc
                  ltac:(lia) ltac:(lia) eq_refl ltac:(lia) ltac:(lia)) as [G HG].
      * intros [st' Hst]. rewrite Hst in HP. discriminate.
      * exists None, G. exact HG.
    + cbv iota. destruct s as [|c r]; [contradiction|]. apply Forall_cons_iff in Hhc as [Hch _].
      destruct (hc_plain c Hch) as (_ & _ & H42 & _). cbn [AddrFull.hdis]. rewrite H42. eexists _, _; reflexivity.
Qed.

Theorem pton6_is_pton s gs : hexcolon s -> s <> [] ->
  AddrFull.pton s false false = AddrFull.Res (length s) None gs -> pton6 s = Some gs.
Proof.
  intros Hhc Hne HP. destruct (pton6 s) as [g'|] eqn:E.
  - rewrite (pton_is_pton6 s g' Hhc E) in HP. injection HP as ->. reflexivity.
  - destruct (pton6_rejects s Hhc Hne E) as (b & G & HR). rewrite HR in HP. injection HP as H0 _ _.
    destruct s; [contradiction|discriminate].
Qed.

(* on nonempty strings of hex digits and ':' the two parsers are the same function *)
Corollary pton_iff_pton6 s gs : hexcolon s -> s <> [] ->
  (pton6 s = Some gs <-> AddrFull.pton s false false = AddrFull.Res (length s) None gs).
Proof. intros H Hne. split; [apply pton_is_pton6; exact H|apply pton6_is_pton; assumption]. Qed.
