(* Spike: round trip pton6 (ntop6 gs) = Some gs for the repaired printer, all 8-group addresses. *)
From Coq Require Import List NArith Lia Bool Strings.Byte Arith.
Import ListNotations.
Require Import Addr.

Local Open Scope N_scope.

(* ---------- hex digits ---------- *)
Definition ishex (b : byte) : bool := match hexval b with Some _ => true | None => false end.

Lemma hexval_hexdigit : forall n, n < 16 -> hexval (hexdigit n) = Some n.
Proof.
  intros n Hn.
  assert (forallb (fun k => match hexval (hexdigit k) with Some v => v =? k | None => false end)
                  [0;1;2;3;4;5;6;7;8;9;10;11;12;13;14;15] = true) as H by (vm_compute; reflexivity).
  rewrite forallb_forall in H.
  assert (In n [0;1;2;3;4;5;6;7;8;9;10;11;12;13;14;15]) as Hin.
  { assert (n = 0 \/ n = 1 \/ n = 2 \/ n = 3 \/ n = 4 \/ n = 5 \/ n = 6 \/ n = 7 \/ n = 8 \/ n = 9 \/ n = 10 \/ n = 11 \/ n = 12 \/ n = 13 \/ n = 14 \/ n = 15) by lia.
    simpl. intuition. }
  specialize (H n Hin). destruct (hexval (hexdigit n)); [|discriminate]. apply N.eqb_eq in H. now subst.
Qed.

(* digit accumulation as the parser does it *)
Fixpoint eat (part : N) (ds : str) : option N :=
  match ds with
  | [] => Some part
  | c :: r => match hexval c with
              | Some v => let p := N.lor (N.shiftl part 4) v in if 0xffff <? p then None else eat p r
              | None => None
              end
  end.

(* exhaustive over the 16 bits, organised by nibbles to avoid a big nat *)
Definition nib := [0;1;2;3;4;5;6;7;8;9;10;11;12;13;14;15].
Definition chk (p : N) : bool :=
  match eat 0 (hexstr p) with Some q => (q =? p) && negb (Nat.eqb (length (hexstr p)) 0) | None => false end.
Definition all4 (f : N -> N -> N -> N -> bool) : bool :=
  forallb (fun a => forallb (fun b => forallb (fun c => forallb (fun d => f a b c d) nib) nib) nib) nib.
Definition F16 (a b c d : N) : bool := chk (a * 4096 + b * 256 + c * 16 + d).
Lemma all16_ok : all4 F16 = true. Proof. vm_compute. reflexivity. Qed.

Lemma in_nib n : n < 16 -> In n nib.
Proof. intros. assert (n = 0 \/ n = 1 \/ n = 2 \/ n = 3 \/ n = 4 \/ n = 5 \/ n = 6 \/ n = 7 \/ n = 8 \/ n = 9 \/ n = 10 \/ n = 11 \/ n = 12 \/ n = 13 \/ n = 14 \/ n = 15) by lia. unfold nib; simpl; intuition. Qed.

Lemma nibbles p : p < 65536 -> exists a b c d, a < 16 /\ b < 16 /\ c < 16 /\ d < 16 /\ p = a * 4096 + b * 256 + c * 16 + d.
Proof.
  intros Hp.
  pose proof (N.div_mod p 16 ltac:(discriminate)) as E1. pose proof (N.mod_lt p 16 ltac:(discriminate)) as L1.
  set (q1 := p / 16) in *. set (d := p mod 16) in *. clearbody q1 d.
  pose proof (N.div_mod q1 16 ltac:(discriminate)) as E2. pose proof (N.mod_lt q1 16 ltac:(discriminate)) as L2.
  set (q2 := q1 / 16) in *. set (c := q1 mod 16) in *. clearbody q2 c.
  pose proof (N.div_mod q2 16 ltac:(discriminate)) as E3. pose proof (N.mod_lt q2 16 ltac:(discriminate)) as L3.
  set (q3 := q2 / 16) in *. set (b := q2 mod 16) in *. clearbody q3 b.
  exists q3, b, c, d. repeat split; try assumption; lia.
Qed.

Lemma forallb4 (f : N -> N -> N -> N -> bool) :
  all4 f = true ->
  forall a b c d, In a nib -> In b nib -> In c nib -> In d nib -> f a b c d = true.
Proof.
  unfold all4. intros H a b c d Ia Ib Ic Id.
  rewrite forallb_forall in H. specialize (H a Ia).
  rewrite forallb_forall in H. specialize (H b Ib).
  rewrite forallb_forall in H. specialize (H c Ic).
  rewrite forallb_forall in H. exact (H d Id).
Qed.

Lemma chk_all p : p < 65536 -> chk p = true.
Proof.
  intros Hp. destruct (nibbles p Hp) as (a & b & c & d & La & Lb & Lc & Ld & E).
  rewrite E. change (F16 a b c d = true).
  exact (forallb4 F16 all16_ok a b c d (in_nib a La) (in_nib b Lb) (in_nib c Lc) (in_nib d Ld)).
Qed.

Lemma eat_hexstr p : p < 65536 -> eat 0 (hexstr p) = Some p /\ hexstr p <> [].
Proof.
  intros Hp. pose proof (chk_all p Hp) as H. unfold chk in H.
  destruct (eat 0 (hexstr p)) as [q|]; [|discriminate].
  apply andb_true_iff in H as [Hq Hl]. apply N.eqb_eq in Hq. subst q. split; [reflexivity|].
  intro Z. rewrite Z in Hl. discriminate.
Qed.
