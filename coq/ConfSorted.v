(* Sortedness (by kcmp, strictly) of the child lists is preserved by revert, splice, merge and registration. *)
From Coq Require Import List NArith ZArith Bool Strings.Byte Lia.
Import ListNotations.
Require Import Conf ConfMerge ConfOrder ConfBase ConfIdem.
Local Open Scope N_scope.

Lemma kc_lt_trans a b c : kc a b = Lt -> kc b c = Lt -> kc a c = Lt.
Proof. unfold kc. apply kcmp_lt_trans. Qed.
Lemma kc_eq_l a b c : kc a b = Eq -> kc a c = kc b c.
Proof. unfold kc. apply kcmp_eq_l. Qed.
Lemma kc_eq_r a b c : kc b c = Eq -> kc a b = kc a c.
Proof. unfold kc. apply kcmp_eq_r. Qed.
Lemma kc_refl a : kc a a = Eq.
Proof. unfold kc. apply kcmp_refl. Qed.
Lemma kc_antisym a b : kc b a = CompOpp (kc a b).
Proof. unfold kc. apply kcmp_antisym. Qed.
Lemma kc_eq_sym a b : kc a b = Eq -> kc b a = Eq.
Proof. unfold kc. apply kcmp_eq_sym. Qed.
Lemma kc_eq_snd a b : kc a b = Eq -> snd a = snd b.
Proof. unfold kc. intros H. apply kcmp_eq in H. tauto. Qed.

Lemma revert_all_Forall (Q : lnode -> Prop) path ts :
  Forall (fun nv => forall p y e, revert p (snd nv) = (Some y, e) -> Q y) ts ->
  Forall (fun nv => Q (snd nv)) (t1 (revert_all path ts)).
Proof.
  induction 1 as [|[n x] r H1 H2 IH]; cbn [revert_all]; [constructor|]. cbn [snd] in H1.
  destruct (revert (pjoin path n) x) as [[y|] e1] eqn:E; rewrite (triple_eta (revert_all path r)); cbn [t1 fst snd].
  - constructor; [eapply H1; exact E|exact IH].
  - exact IH.
Qed.

Lemma revert_all_sorted_keys path ts : ksorted (map lkey ts) -> ksorted (map lkey (t1 (revert_all path ts))).
Proof. apply sub_keys_sorted. apply revert_all_keys. Qed.

Lemma revert_sorted : forall l p y e, lsorted l -> revert p l = (Some y, e) -> lsorted y.
Proof.
  apply (lnode_ind' (fun l => forall p y e, lsorted l -> revert p l = (Some y, e) -> lsorted y)).
  - intros spec pres hook d v sub pa p y e _. rewrite revert_str. destruct spec; cbn [keep]; intros H; inversion H; subst. exact I.
  - intros spec pres hook dh ds h s p y e _. cbn [revert]. destruct spec; cbn [keep]; intros H; inversion H; subst. exact I.
  - intros spec pres hook d v p y e _. cbn [revert]. destruct spec; cbn [keep]; intros H; inversion H; subst. exact I.
  - intros spec pres hook ks IH p y e Hs. rewrite revert_obj. apply lsorted_obj in Hs. destruct Hs as [Hs1 Hs2].
    destruct pres.
    + rewrite (triple_eta (revert_all p ks)). destruct spec; cbn [keep]; intros H; inversion H; subst. apply lsorted_obj. split.
      * apply revert_all_sorted_keys. exact Hs1.
      * apply revert_all_Forall. rewrite Forall_forall in *. intros nv Hin p' y' e' Hr. eapply IH; eauto.
    + destruct spec; cbn [keep]; intros H; inversion H; subst. apply lsorted_obj. split; assumption.
Qed.

Lemma revert_all_sorted path ts : lsorted_kids ts -> lsorted_kids (t1 (revert_all path ts)).
Proof.
  intros [H1 H2]. split; [apply revert_all_sorted_keys; exact H1|].
  apply revert_all_Forall. rewrite Forall_forall in *. intros nv Hin p y e Hr. eapply revert_sorted; eauto.
Qed.

Lemma splice_sorted : forall s, vsorted s -> lsorted (splice s).
Proof.
  apply (val_ind' (fun s => vsorted s -> lsorted (splice s))); try (intros; exact I).
  intros ks IH Hs. apply vsorted_obj in Hs. destruct Hs as [Hs1 Hs2]. cbn [splice]. apply lsorted_obj. split.
  - rewrite map_map. erewrite map_ext; [exact Hs1|]. intros [n v]. unfold lkey, vkey. cbn [fst snd]. rewrite splice_kind. reflexivity.
  - rewrite Forall_map. rewrite Forall_forall in *. intros nv Hin. cbn [snd]. apply IH; auto.
Qed.

(* lower bound on the keys produced by the walk *)
Lemma mk_keys_gt mrg path k :
  (forall p t s, lkind (fst (mrg p t s)) = kind s) ->
  forall ss ts, all_gt k (map lkey ts) -> all_gt k (map vkey ss) -> all_gt k (map lkey (t1 (mk_gen mrg path ts ss))).
Proof.
  intros Hk. induction ss as [|[ks s'] ss' IH]; intros ts Ht Hs.
  - rewrite mk_gen_nil. eapply sub_keys_Forall; [apply revert_all_keys|exact Ht].
  - cbn [map] in Hs. inversion Hs as [|? ? Hs1 Hs2]; subst.
    destruct (span_lt ks (kind s') ts) as [lo hi] eqn:Es.
    destruct (span_lt_spec _ _ _ _ _ Es) as (-> & _ & _).
    rewrite map_app in Ht. apply Forall_app in Ht as [Ht1 Ht2].
    assert (all_gt k (map lkey (t1 (revert_all path lo)))) as Hlo' by (eapply sub_keys_Forall; [apply revert_all_keys|exact Ht1]).
    destruct (hi_cases ks (kind s') hi) as [(kt & t' & hi' & -> & Ek)|Hne].
    + rewrite (mk_gen_cons_eq _ _ _ _ _ _ _ _ _ _ Es Ek). cbn [t1 fst]. rewrite map_app. apply Forall_app. split; [exact Hlo'|].
      cbn [map] in *. inversion Ht2; subst. constructor.
      * unfold lkey in *. cbn [fst snd] in *. rewrite Hk. apply kcmp_eq in Ek as [_ <-]. assumption.
      * apply IH; assumption.
    + rewrite (mk_gen_cons_ne _ _ _ _ _ _ _ _ Es Hne). cbn [t1 fst]. rewrite map_app. apply Forall_app. split; [exact Hlo'|].
      cbn [map]. constructor.
      * unfold lkey, vkey in *. cbn [fst snd] in *. rewrite splice_kind. assumption.
      * apply IH; assumption.
Qed.

Lemma head_ne_gt ks k hi : ksorted (map lkey hi) -> match hi with e :: _ => kc (lkey e) (ks, k) <> Lt | [] => True end ->
  head_ne ks k hi -> all_gt (ks, k) (map lkey hi).
Proof.
  destruct hi as [|[kt t'] hi']; [intros; constructor|]. cbn [map ksorted head_ne]. intros [H1 H2] H3 H4.
  assert (kc (ks, k) (lkey (kt, t')) = Lt) as L.
  { rewrite kc_antisym. unfold kc, lkey in *. cbn [fst snd] in *. destruct (kcmp kt (lkind t') ks k); try congruence. reflexivity. }
  constructor; [exact L|]. eapply all_gt_trans; eassumption.
Qed.

Lemma mk_sorted_keys mrg path :
  (forall p t s, lkind (fst (mrg p t s)) = kind s) ->
  forall ss ts, ksorted (map lkey ts) -> ksorted (map vkey ss) -> ksorted (map lkey (t1 (mk_gen mrg path ts ss))).
Proof.
  intros Hk. induction ss as [|[ks s'] ss' IH]; intros ts Ht Hs.
  - rewrite mk_gen_nil. apply revert_all_sorted_keys. exact Ht.
  - cbn [map ksorted] in Hs. destruct Hs as [Hs1 Hs2]. change (vkey (ks, s')) with (ks, kind s') in Hs1.
    destruct (span_lt ks (kind s') ts) as [lo hi] eqn:Es.
    destruct (span_lt_spec _ _ _ _ _ Es) as (-> & Hlo & Hhi).
    rewrite map_app in Ht. apply ksorted_app in Ht as (Ht1 & Ht2 & Ht3).
    pose proof (revert_all_lt path _ _ Hlo) as Hlo'.
    pose proof (revert_all_sorted_keys path _ Ht1) as Hlo's.
    assert (forall key0 r, kc key0 (ks, kind s') = Eq -> all_gt key0 (map lkey r) -> ksorted (map lkey r) ->
                           forall x, lkey x = key0 -> ksorted (map lkey (t1 (revert_all path lo) ++ x :: r))) as Hfin.
    { intros key0 r He Hg Hr x Hx. rewrite map_app. apply ksorted_app. split; [|split].
      - exact Hlo's.
      - cbn [map ksorted]. rewrite Hx. split; assumption.
      - eapply Forall_impl; [|exact Hlo']. intros a Ha. cbn beta in Ha. cbn [map]. rewrite Hx.
        assert (kc a key0 = Lt) as L by (rewrite (kc_eq_r a _ _ He); exact Ha).
        constructor; [exact L|]. eapply all_gt_trans; eassumption. }
    destruct (hi_cases ks (kind s') hi) as [(kt & t' & hi' & -> & Ek)|Hne].
    + rewrite (mk_gen_cons_eq _ _ _ _ _ _ _ _ _ _ Es Ek). cbn [t1 fst].
      cbn [map ksorted] in Ht2. destruct Ht2 as [Ht2a Ht2b].
      assert (lkey (kt, fst (mrg (pjoin path kt) t' s')) = lkey (kt, t')) as Hx.
      { unfold lkey. cbn [fst snd]. rewrite Hk. apply kcmp_eq in Ek as [_ <-]. reflexivity. }
      apply Hfin with (key0 := lkey (kt, t')).
      * exact Ek.
      * apply mk_keys_gt; [exact Hk|exact Ht2a|]. eapply all_gt_eq; [|exact Hs1]. exact Ek.
      * apply IH; assumption.
      * exact Hx.
    + rewrite (mk_gen_cons_ne _ _ _ _ _ _ _ _ Es Hne). cbn [t1 fst].
      apply Hfin with (key0 := (ks, kind s')).
      * apply kc_refl.
      * apply mk_keys_gt; [exact Hk| |exact Hs1]. apply head_ne_gt; assumption.
      * apply IH; assumption.
      * unfold lkey. cbn [fst snd]. rewrite splice_kind. reflexivity.
Qed.

Lemma mk_sorted_kids mrg path ss :
  Forall (fun kf => forall p t, lsorted t -> lsorted (fst (mrg p t (snd kf)))) ss ->
  Forall (fun nv => vsorted (snd nv)) ss ->
  forall ts, Forall (fun nv => lsorted (snd nv)) ts -> Forall (fun nv => lsorted (snd nv)) (t1 (mk_gen mrg path ts ss)).
Proof.
  intros Hm Hv. induction ss as [|[ks s'] ss' IH]; intros ts Ht.
  - rewrite mk_gen_nil. apply revert_all_Forall. rewrite Forall_forall in *. intros nv Hin p y e Hr. eapply revert_sorted; eauto.
  - inversion Hm as [|? ? Hm1 Hm2]; subst. inversion Hv as [|? ? Hv1 Hv2]; subst. cbn [snd] in *. specialize (IH Hm2 Hv2).
    destruct (span_lt ks (kind s') ts) as [lo hi] eqn:Es.
    destruct (span_lt_spec _ _ _ _ _ Es) as (-> & _ & _).
    apply Forall_app in Ht as [Ht1 Ht2].
    assert (Forall (fun nv => lsorted (snd nv)) (t1 (revert_all path lo))) as Hlo'.
    { apply revert_all_Forall. rewrite Forall_forall in *. intros nv Hin p y e Hr. eapply revert_sorted; eauto. }
    destruct (hi_cases ks (kind s') hi) as [(kt & t' & hi' & -> & Ek)|Hne].
    + rewrite (mk_gen_cons_eq _ _ _ _ _ _ _ _ _ _ Es Ek). cbn [t1 fst]. apply Forall_app. split; [exact Hlo'|].
      inversion Ht2; subst. constructor; [cbn [snd] in *; apply Hm1; assumption|apply IH; assumption].
    + rewrite (mk_gen_cons_ne _ _ _ _ _ _ _ _ Es Hne). cbn [t1 fst]. apply Forall_app. split; [exact Hlo'|].
      constructor; [cbn [snd]; apply splice_sorted; exact Hv1|apply IH; assumption].
Qed.

Theorem merge_sorted : forall s path t, lsorted t -> vsorted s -> lsorted (fst (merge path t s)).
Proof.
  apply (val_ind' (fun s => forall path t, lsorted t -> vsorted s -> lsorted (fst (merge path t s)))).
  - intros v path t _ _. destruct t; try exact I. rewrite merge_str_str. exact I.
  - intros h s path t _ _. destruct t; exact I.
  - intros l path t _ _. destruct t; exact I.
  - intros ss IH path t Ht Hs. destruct t as [| | |spec pres hook ks]; try (apply splice_sorted; exact Hs).
    rewrite merge_obj_fst. apply lsorted_obj. apply lsorted_obj in Ht. apply vsorted_obj in Hs.
    destruct Ht as [Ht1 Ht2], Hs as [Hs1 Hs2]. split.
    + apply mk_sorted_keys; [intros; apply merge_kind|assumption|assumption].
    + apply mk_sorted_kids; try assumption.
      rewrite Forall_forall in *. intros kf Hin p t Hl. apply IH; auto.
Qed.

(* ---------- registration ---------- *)
Lemma upsertl_sorted n k f kids :
  (forall o, lkind (f o) = k) -> ksorted (map lkey kids) -> ksorted (map lkey (upsertl n k f kids)).
Proof.
  intros Hf. induction kids as [|[m v] r IH]; cbn [upsertl map ksorted].
  - intros _. split; [constructor|exact I].
  - intros [H1 H2]. destruct (kcmp n k m (lkind v)) eqn:E; cbn [map ksorted].
    + split; [|exact H2]. unfold lkey at 1. cbn [fst snd]. rewrite Hf. apply kcmp_eq in E as [_ ->]. exact H1.
    + split; [|split; assumption]. unfold lkey at 1. cbn [fst snd]. rewrite Hf.
      constructor; [exact E|]. eapply all_gt_trans; [|exact H1]. exact E.
    + split; [|apply IH; exact H2].
      clear IH. induction r as [|[m2 v2] r IHr]; cbn [upsertl map].
      * constructor; [|constructor]. unfold kc, lkey. cbn [fst snd]. rewrite Hf. apply kcmp_lt_gt. exact E.
      * inversion H1; subst. cbn [ksorted] in H2. destruct H2 as [H2a H2b].
        destruct (kcmp n k m2 (lkind v2)) eqn:E2; cbn [map].
        -- constructor; [|assumption]. unfold kc, lkey in *. cbn [fst snd] in *. rewrite Hf. apply kcmp_eq in E2 as [_ ->]. assumption.
        -- constructor; [|constructor; assumption]. unfold kc, lkey. cbn [fst snd]. rewrite Hf. apply kcmp_lt_gt. exact E.
        -- constructor; [assumption|]. apply IHr; assumption.
Qed.

Lemma upsertl_Forall (Q : lnode -> Prop) n k f kids :
  (forall o, match o with Some v => Q v | None => True end -> Q (f o)) ->
  Forall (fun nv => Q (snd nv)) kids -> Forall (fun nv => Q (snd nv)) (upsertl n k f kids).
Proof.
  intros Hf. induction 1 as [|[m v] r H1 H2 IH]; cbn [upsertl].
  - constructor; [apply (Hf None); exact I|constructor].
  - destruct (kcmp n k m (lkind v)).
    + constructor; [apply (Hf (Some v)); exact H1|exact H2].
    + constructor; [apply (Hf None); exact I|constructor; assumption].
    + constructor; [exact H1|exact IH].
Qed.

Theorem do_reg_sorted kids r : lsorted_kids kids -> lsorted_kids (fst (do_reg kids r)).
Proof.
  intros [H1 H2]. destruct r as [n|n sub d|n d|n h s]; cbn [do_reg].
  - cbn [fst]. split.
    + apply upsertl_sorted; [|exact H1]. intros [[]|]; reflexivity.
    + apply upsertl_Forall; [|exact H2]. intros [[]|] Ho; try (apply lsorted_obj; split; constructor).
      apply lsorted_obj in Ho. apply lsorted_obj. exact Ho.
  - destruct (match lookupl n 0 kids with Some (LStr _ p h _ v s pa) => (p, h, v, s, pa) | _ => (false, false, None, 0, PNone) end) as [[[[pres hook] value] osub] parsed].
    destruct (parse_value _ _ _ _ _ _ _) as [[v' p'] e]. cbn [fst]. split.
    + apply upsertl_sorted; [|exact H1]. reflexivity.
    + apply upsertl_Forall; [|exact H2]. intros; exact I.
  - cbn [fst]. split.
    + apply upsertl_sorted; [|exact H1]. intros [[]|]; reflexivity.
    + apply upsertl_Forall; [|exact H2]. intros [[]|] Ho; exact I.
  - cbn [fst]. split.
    + apply upsertl_sorted; [|exact H1]. intros [[]|]; reflexivity.
    + apply upsertl_Forall; [|exact H2]. intros [[]|] Ho; exact I.
Qed.

