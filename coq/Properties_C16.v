(* C16: config text means what it says.  ONLY statements closed by `exact`, each followed by Print Assumptions.
   tval = trees as written (repeated keys allowed); norm = later duplicates override, repeated objects merge;
   rfile es t = t is a rendering of es with quoted strings, paren lists, pairs, nested objects, ';' terminators and ARBITRARY
   blanks, newlines, C and C++ comments at every token boundary; rfile2 (ConfPrint2) = the whole documented syntax: quoted strings
   with ANY escape spelling or bare words, parenthesised or un-parenthesised comma lists, pairs, nested objects, ';' or newline
   terminators (a // comment before the newline included), no terminator before '}'. *)
From Coq Require Import List NArith Bool Strings.Byte.
Import ListNotations.
Require Import Conf ConfRT ConfTotal ConfPrint.
Require ConfPrint2.
Local Open Scope N_scope.

(* tdepth es = how deep the objects of the written tree are nested (an object is one more than its deepest child); the parser
   refuses more than max_depth = CONF_MAX_DEPTH = 64 levels (C14: deep_nesting_is_rejected), so every read-back statement is
   for trees within the limit *)
Theorem any_rendering_reads_back_as_its_tree : forall es t,
  rfile es t -> wf es -> (tdepth es <= max_depth)%nat -> es <> [] -> nonul t -> parse t = inr (norm es).
Proof. exact parse_renders. Qed.
Print Assumptions any_rendering_reads_back_as_its_tree.

(* in particular the canonical printer, for trees of any size, any depth up to the limit and any string content (NUL-free) *)
Theorem printed_tree_reads_back : forall es, wf es -> (tdepth es <= max_depth)%nat -> es <> [] -> parse (print es) = inr (norm es).
Proof. exact parse_print. Qed.
Print Assumptions printed_tree_reads_back.

(* every NUL-free byte string, quoted with only the double quote and the backslash escaped, reads back byte for byte
   after any run of blanks, whatever follows it *)
Theorem quoted_string_reads_back_exactly : forall n fuel s rest, nonul s ->
  pstring (S (n + fuel)) (repeat x20 n ++ quote s ++ rest) = Some (inr (s, rest)).
Proof. exact pstring_blanks_quote. Qed.
Print Assumptions quoted_string_reads_back_exactly.

(* the WHOLE documented syntax: every text related to the tree es by rfile2 - strings quoted (any escape spelling: \\a \\n \\xHH \\c)
   or bare, lists parenthesised or as a comma list on one line, host/service pairs, nested objects, each entry ended by ';', by
   the end of its line (after an optional // comment) or, before '}', by nothing, arbitrary gaps with comments everywhere a gap
   may stand - is read back as exactly norm es.  All side conditions (a bare word must be followed by a non-word byte, ...)
   are inside the relation; the old renderings are included. *)
Theorem any_documented_rendering_reads_back_as_its_tree : forall es t,
  ConfPrint2.rfile2 es t -> wf es -> (tdepth es <= max_depth)%nat -> es <> [] -> nonul t -> parse t = inr (norm es).
Proof. exact ConfPrint2.parse_renders2. Qed.
Print Assumptions any_documented_rendering_reads_back_as_its_tree.

Theorem documented_renderings_include_the_canonical_ones : forall es t, rfile es t -> ConfPrint2.rfile2 es t.
Proof. exact ConfPrint2.rfile_rfile2. Qed.
Print Assumptions documented_renderings_include_the_canonical_ones.

(* "Typed settings deliver the value written (booleans by keyword, integers, intervals and volumes as the sum of their unit
   components), and an unparsable typed value is rejected".  ConfMerge.typed is the conversion the live-tree model applies
   (sub-type 1 boolean, 2 integer, 4 interval, otherwise volume); all arithmetic is modulo 2^32 as in the C code. *)
Require TypedSpec AddrFull.
From Coq Require Import ZArith.
Local Open Scope N_scope.
Theorem booleans_by_keyword : forall v,
  snd (ConfMerge.p_bool v) = true <->
  In v (TypedSpec.true_words ++ TypedSpec.false_words).
Proof. exact TypedSpec.p_bool_accepts_iff. Qed.
Print Assumptions booleans_by_keyword.

Theorem interval_is_the_sum_of_its_unit_components : forall comps, Forall TypedSpec.ok_icomp comps ->
  ConfMerge.p_interval (TypedSpec.render comps) 0 0 0 = (Z.of_N (ConfMerge.u32 (TypedSpec.isum comps)), true).
Proof. exact TypedSpec.interval_is_sum_of_components. Qed.
Print Assumptions interval_is_the_sum_of_its_unit_components.

Theorem interval_is_accepted_exactly_when_wellformed : forall v t p c, (c <= 2)%N ->
  (snd (ConfMerge.p_interval v t p c) = true <-> (~ Exists TypedSpec.ibad v /\ (c + TypedSpec.colons v <= 2)%N)).
Proof. exact TypedSpec.interval_accepted_iff. Qed.
Print Assumptions interval_is_accepted_exactly_when_wellformed.

Theorem volume_is_the_sum_of_its_unit_components : forall comps, Forall TypedSpec.ok_vcomp comps ->
  ConfMerge.p_volume (TypedSpec.render comps) 0 0 = (Z.of_N (ConfMerge.u32 (TypedSpec.vsum comps)), true).
Proof. exact TypedSpec.volume_is_sum_of_components. Qed.
Print Assumptions volume_is_the_sum_of_its_unit_components.

Theorem volume_is_accepted_exactly_when_wellformed : forall v t p,
  snd (ConfMerge.p_volume v t p) = true <-> ~ Exists TypedSpec.vbad v.
Proof. exact TypedSpec.volume_accepted_iff. Qed.
Print Assumptions volume_is_accepted_exactly_when_wellformed.

Theorem integer_delivers_the_number_written : forall n, (n < 2147483648)%N -> ConfMerge.p_integer (AddrFull.dec n) = (Z.of_N n, true).
Proof. exact TypedSpec.integer_decimal. Qed.
Print Assumptions integer_delivers_the_number_written.
