(* C16: config text means what it says.  ONLY statements closed by `exact`, each followed by Print Assumptions.
   tval = trees as written (repeated keys allowed); norm = later duplicates override, repeated objects merge;
   rfile es t = t is a rendering of es with quoted strings, paren lists, pairs, nested objects, ';' terminators and ARBITRARY
   blanks, newlines, C and C++ comments at every token boundary.  (Bare words, newline terminators, comma lists without
   parentheses and a missing terminator before '}' are accepted by the parser and exercised by the correspondence run against
   norm(tree), but not covered by these theorems.) *)
From Coq Require Import List NArith Bool Strings.Byte.
Import ListNotations.
Require Import Conf ConfRT ConfTotal ConfPrint.
Local Open Scope N_scope.

Theorem any_rendering_reads_back_as_its_tree : forall es t, rfile es t -> wf es -> es <> [] -> nonul t -> parse t = inr (norm es).
Proof. exact parse_renders. Qed.
Print Assumptions any_rendering_reads_back_as_its_tree.

(* in particular the canonical printer, for trees of any size, depth and string content (NUL-free) *)
Theorem printed_tree_reads_back : forall es, wf es -> es <> [] -> parse (print es) = inr (norm es).
Proof. exact parse_print. Qed.
Print Assumptions printed_tree_reads_back.

(* every NUL-free byte string, quoted with only the double quote and the backslash escaped, reads back byte for byte
   after any run of blanks, whatever follows it *)
Theorem quoted_string_reads_back_exactly : forall n fuel s rest, nonul s ->
  pstring (S (n + fuel)) (repeat x20 n ++ quote s ++ rest) = Some (inr (s, rest)).
Proof. exact pstring_blanks_quote. Qed.
Print Assumptions quoted_string_reads_back_exactly.
