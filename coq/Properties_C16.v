(* C16: config text means what it says.  ONLY statements closed by `exact`, each followed by Print Assumptions.
   (string layer so far; the entry/tree layer theorems are being added - the rest of the property is decided by the
   correspondence run against norm(tree), an oracle independent of the model) *)
From Coq Require Import List NArith Bool Strings.Byte.
Import ListNotations.
Require Import Conf ConfRT.
Local Open Scope N_scope.

(* every NUL-free byte string, quoted with only the double quote and the backslash escaped, reads back byte for byte
   after any run of blanks, whatever follows it *)
Theorem quoted_string_reads_back_exactly : forall n fuel s rest, nonul s ->
  pstring (S (n + fuel)) (repeat x20 n ++ quote s ++ rest) = Some (inr (s, rest)).
Proof. exact pstring_blanks_quote. Qed.
Print Assumptions quoted_string_reads_back_exactly.
