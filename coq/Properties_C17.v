(* C17: a reload reaches the decision modules.  ONLY statements closed by `exact`, each followed by Print Assumptions. *)
From Coq Require Import List NArith ZArith Bool Strings.Byte Strings.String Permutation.
Import ListNotations.
Require Import Params Iauth ReloadEq.
Require Mon01 Local ReloadSim SlotReuse.
Local Open Scope list_scope.

(* The hypothesis  length (slots (tb s)) + length svs <= max_slots  is the 32-slot limit of the per-client masks (D27). *)

(* after a reload the configured (service, protocol) pairs and the rule list are those of a daemon started fresh on the new
   tables, whatever the old slot vector held (stale, referenced, unconfigured or empty slots); fresh = the file's entries in order *)
Theorem reload_is_like_a_fresh_start : forall c s svs rs t,
  (List.length (slots (tb s)) + List.length svs <= max_slots)%nat -> NoDup (map fst svs) ->
  let s' := fst (step_ev c s (Reload svs rs t)) in let s0 := init c svs rs t in
  rules (tb s') = rules (tb s0) /\ Permutation (view (slots (tb s'))) (view (slots (tb s0))) /\ view (slots (tb s0)) = spec svs.
Proof. exact reload_like_fresh. Qed.
Print Assumptions reload_is_like_a_fresh_start.

(* a reload touches nothing else and writes nothing to the channel - except that the pending requests forget what they recorded
   about the slots the reload has just given to a new occupant (D30, repaired; `forget` clears bits of sent / more / okm and changes
   no other field: ReloadEq.forget_fields; `refilled` = the slots empty before and occupied after: SlotReuse.refilled_spec) *)
Theorem reload_touches_only_the_tables : forall c s svs rs t,
  let s' := fst (step_ev c s (Reload svs rs t)) in
  rules (tb s') = rs /\ slots (tb s') = services_changed (slots (tb s)) svs /\
  reqs s' = map (forget (refilled (slots (tb s)) (services_changed (slots (tb s)) svs) 0)) (reqs s) /\
  next s' = next s /\ tmo s' = t /\
  snd (step_ev c s (Reload svs rs t)) = [].
Proof. exact reload_tables. Qed.
Print Assumptions reload_touches_only_the_tables.

(* a slot that was empty before the reload and holds a service after it starts clean: no pending request records that its occupant
   was asked, wants a continuation, or answered OK (those bits belonged to a former occupant of the slot) *)
Theorem a_refilled_slot_starts_clean : forall c s svs rs t,
  let s' := fst (step_ev c s (Reload svs rs t)) in
  forall r' k sv, In r' (reqs s') ->
    nth_error (slots (tb s)) k = Some None ->
    nth_error (slots (tb s')) k = Some (Some sv) ->
    N.testbit (sent r') (N.of_nat k) = false /\ N.testbit (more r') (N.of_nat k) = false /\ N.testbit (okm r') (N.of_nat k) = false.
Proof. exact SlotReuse.reload_forgets_refilled_slots. Qed.
Print Assumptions a_refilled_slot_starts_clean.

(* and nothing a request still waits for is lost: in every state reached from start-up, the slots a reload is about to refill are
   awaited by no pending request (a slot with an outstanding query keeps a positive reference count and is never released:
   RefInv.RefInv), so `forget` clears no bit of a slot whose answer is still owed *)
Theorem a_refilled_slot_is_awaited_by_nobody : forall c services rs0 t0 evs svs r i,
  let s := fold_left (fun s e => fst (step_ev c s e)) evs (init c services rs0 t0) in
  In r (reqs s) -> In i (refilled (slots (tb s)) (services_changed (slots (tb s)) svs) 0) -> N.testbit (refm r) i = false.
Proof. exact SlotReuse.reachable_refilled_slot_is_not_awaited. Qed.
Print Assumptions a_refilled_slot_is_awaited_by_nobody.

(* the query pass sees the slot vector only through its configured entries: unconfigured leftovers are never queried *)
Theorem queries_depend_on_configured_services_only : forall ss slot is_pw r outs efs,
  qpass (scrub ss) slot is_pw r outs efs = qpass ss slot is_pw r outs efs.
Proof. exact qpass_configured_only. Qed.
Print Assumptions queries_depend_on_configured_services_only.

(* THE BEHAVIOURAL STATEMENT: "a client arriving afterwards is treated exactly as by a daemon freshly started on that file".
   s = ANY state with distinct ids (old clients, stale and referenced slots, whatever); s1 = s after a reload to (svs, rs, t);
   s0 = the daemon freshly started on (svs, rs, t); i = an id that is not live at the reload; h = ANY history of abstract events
   (Local.aev: lines, and replies addressed to the live instance) of ANY clients, old ones included.  Then the outputs of i's own
   steps on the reloaded daemon and the outputs of the fresh daemon on i's events alone are, step by step, the same (OutEq): the
   non-query lines (challenges, +x, U line, soft-done, verdict with account and class) are identical and in the same order, and the
   query lines are the same up to their order within the step and the serial in the routing tag; and no other step says anything
   about i.  CiDistinct: no two configured service names differ only by letter case - true of every configuration tree (its keys
   are compared case-insensitively, C14 parsed_tree_is_sorted) and NECESSARY: ci_distinct_needed below. *)
Theorem newcomer_after_reload_is_treated_as_by_a_fresh_daemon : forall c s svs rs t i h,
  (List.length (slots (tb s)) + List.length svs <= max_slots)%nat ->
  NoDup (map fst svs) -> ReloadSim.CiDistinct (map fst (spec svs)) ->
  Mon01.NoDupIds (reqs s) -> lookup i (reqs s) = None ->
  let s1 := fst (step_ev c s (Reload svs rs t)) in
  let s0 := init c svs rs t in
  Forall2 ReloadSim.OutEq (ReloadSim.own i c s1 h) (Local.arun c s0 (filter (Local.abelongs i) h)) /\ ReloadSim.others i c s1 h = [].
Proof. exact ReloadSim.newcomer_after_reload_interleaved. Qed.
Print Assumptions newcomer_after_reload_is_treated_as_by_a_fresh_daemon.

(* with two configured names that differ only by case the statement fails (a class rule's xreply_ok finds the first slot whose name
   matches case-insensitively, and slot order depends on the daemon's past): the hypothesis cannot be dropped *)
Theorem ci_distinct_needed :
  exists c s svs rs t i h,
    (List.length (slots (tb s)) + List.length svs <= max_slots)%nat /\
    NoDup (map fst svs) /\ Mon01.NoDupIds (reqs s) /\ lookup i (reqs s) = None /\ Forall (fun a => Local.aid a = i) h /\
    ~ Forall2 (fun o1 o0 => Permutation (map Local.eser o1) (map Local.eser o0))
        (Local.arun c (fst (step_ev c s (Reload svs rs t))) h) (Local.arun c (init c svs rs t) h).
Proof. exact ReloadSim.ci_distinct_needed. Qed.
Print Assumptions ci_distinct_needed.
