(* C17: a reload reaches the decision modules.  ONLY statements closed by `exact`, each followed by Print Assumptions. *)
From Coq Require Import List NArith ZArith Bool Strings.Byte Strings.String Permutation.
Import ListNotations.
Require Import Params Iauth ReloadEq.
Local Open Scope list_scope.

(* after a reload the configured (service, protocol) pairs and the rule list are those of a daemon started fresh on the new
   tables, whatever the old slot vector held (stale, referenced, unconfigured or empty slots); fresh = the file's entries in order *)
Theorem reload_is_like_a_fresh_start : forall c s svs rs t, NoDup (map fst svs) ->
  let s' := fst (step_ev c s (Reload svs rs t)) in let s0 := init c svs rs t in
  rules (tb s') = rules (tb s0) /\ Permutation (view (slots (tb s'))) (view (slots (tb s0))) /\ view (slots (tb s0)) = spec svs.
Proof. exact reload_like_fresh. Qed.
Print Assumptions reload_is_like_a_fresh_start.

(* a reload touches nothing else and writes nothing to the channel *)
Theorem reload_touches_only_the_tables : forall c s svs rs t,
  let s' := fst (step_ev c s (Reload svs rs t)) in
  rules (tb s') = rs /\ slots (tb s') = services_changed (slots (tb s)) svs /\ reqs s' = reqs s /\ next s' = next s /\ tmo s' = t /\
  snd (step_ev c s (Reload svs rs t)) = [].
Proof. exact reload_tables. Qed.
Print Assumptions reload_touches_only_the_tables.

(* the query pass sees the slot vector only through its configured entries: unconfigured leftovers are never queried *)
Theorem queries_depend_on_configured_services_only : forall ss slot is_pw r outs efs,
  qpass (scrub ss) slot is_pw r outs efs = qpass ss slot is_pw r outs efs.
Proof. exact qpass_configured_only. Qed.
Print Assumptions queries_depend_on_configured_services_only.
