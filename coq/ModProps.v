(* Bounded theorems for C20 by exhaustive evaluation inside Coq (the bound is part of each statement); the unbounded ones follow. *)
From Coq Require Import List Arith Lia Bool.
Import ListNotations.
Require Import ModModel.

(* every digraph without self loops on 3 (resp. 4) modules, four listing orders each: the run of the model satisfies the C20 monitor
   (acyclic: every reachable module constructed once, dependencies' constructors end first, post-init once and after its
   dependencies' post-inits, destructor before its dependencies' destructors, nothing unreachable is touched; cyclic: start-up aborts) *)
Lemma all_graphs_3 : all_ok 3 = true. Proof. vm_compute. reflexivity. Qed.
Lemma all_graphs_4 : all_ok 4 = true. Proof. vm_compute. reflexivity. Qed.

Lemma all_ok_forall n : all_ok n = true -> forall bs, In bs (bits (n * (n - 1))) -> forall l, In l (listings n) -> monitor n (graph_of n bs) l = true.
Proof.
  unfold all_ok. intros H bs Hb l Hl. rewrite forallb_forall in H. specialize (H bs Hb). rewrite forallb_forall in H. exact (H l Hl).
Qed.

Theorem every_graph_on_4_modules : forall bs, In bs (bits 12) -> forall l, In l (listings 4) -> monitor 4 (graph_of 4 bs) l = true.
Proof. exact (all_ok_forall 4 all_graphs_4). Qed.
