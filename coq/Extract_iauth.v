Require Import Iauth Line.
Require Extraction. Require Import ExtrOcamlBasic.
Definition rule_addr (s : Iauth.str) : option (list BinNums.N * BinNums.N) :=
  match AddrFull.pton s true false with
  | AddrFull.Res _ (Some b) gs => Some (gs, b)
  | AddrFull.Res _ None gs => Some (gs, BinNums.N0)
  | AddrFull.Unspec => None
  end.
Extraction "iauth_model.ml" Iauth.init Iauth.render Line.run_revs Line.step_rev rule_addr.
