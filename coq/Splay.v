(* Fuel-free functional top-down splay: structural recursion on the tree. *)
From Coq Require Import List ZArith Lia Bool.
Import ListNotations.
Local Open Scope Z_scope.

Section S.
Variable K : Type.
Variable cmp : K -> K -> Z.   (* cmp datum elem *)

Inductive tree := Leaf | Node (l : tree) (k : K) (r : tree).
Fixpoint inorder (t : tree) : list K := match t with Leaf => [] | Node l k r => inorder l ++ k :: inorder r end.

Fixpoint asmL (fs : list (tree * K)) (x : tree) : tree := match fs with [] => x | (l, k) :: fs' => Node l k (asmL fs' x) end.
Fixpoint asmR (fs : list (K * tree)) (x : tree) : tree := match fs with [] => x | (k, r) :: fs' => Node (asmR fs' x) k r end.
Definition finish (L : list (tree * K)) (R : list (K * tree)) (l : tree) (k : K) (r : tree) : tree :=
  Node (asmL (rev L) l) k (asmR (rev R) r).

Fixpoint sl (d : K) (t : tree) (L : list (tree * K)) (R : list (K * tree)) {struct t} : tree * Z :=
  match t with
  | Leaf => (Leaf, 0)            (* never reached: callers only descend into nodes *)
  | Node l k r =>
    let res := cmp d k in
    if res =? 0 then (finish L R l k r, res)
    else if res <? 0 then
      match l with
      | Leaf => (finish L R l k r, res)
      | Node ll lk lr =>
        let res2 := cmp d lk in
        if res2 <? 0 then
          match ll with
          | Leaf => (finish L R Leaf lk (Node lr k r), res2)
          | Node _ _ _ => sl d ll L ((lk, Node lr k r) :: R)
          end
        else sl d l L ((k, r) :: R)
      end
    else
      match r with
      | Leaf => (finish L R l k r, res)
      | Node rl rk rr =>
        let res2 := cmp d rk in
        if res2 >? 0 then
          match rr with
          | Leaf => (finish L R (Node l k rl) rk Leaf, res2)
          | Node _ _ _ => sl d rr ((Node l k rl, rk) :: L) R
          end
        else sl d r ((l, k) :: L) R
      end
  end.

Definition splay (d : K) (t : tree) : tree * Z := sl d t [] [].

Definition inL (fs : list (tree * K)) : list K := flat_map (fun f => inorder (fst f) ++ [snd f]) fs.
Definition inR (fs : list (K * tree)) : list K := flat_map (fun f => fst f :: inorder (snd f)) fs.

Lemma inorder_asmL fs x : inorder (asmL fs x) = inL fs ++ inorder x.
Proof. induction fs as [|[l k] fs IH]; simpl; auto. rewrite IH. rewrite <- ?app_assoc. reflexivity. Qed.
Lemma inorder_asmR fs x : inorder (asmR fs x) = inorder x ++ inR (rev fs).
Proof.
  induction fs as [|[k r] fs IH]; simpl. now rewrite app_nil_r.
  rewrite IH. unfold inR. rewrite flat_map_app. simpl. rewrite app_nil_r, <- app_assoc. reflexivity.
Qed.
Lemma inorder_finish L R l k r : inorder (finish L R l k r) = inL (rev L) ++ inorder l ++ k :: inorder r ++ inR R.
Proof. unfold finish. simpl. rewrite inorder_asmL, inorder_asmR, rev_involutive. rewrite <- ?app_assoc. reflexivity. Qed.
Lemma inL_snoc fs l k : inL (fs ++ [(l, k)]) = inL fs ++ inorder l ++ [k].
Proof. unfold inL. rewrite flat_map_app. simpl. now rewrite app_nil_r. Qed.

(* strong induction on trees via size, because sl recurses on grandchildren *)
Fixpoint size (t : tree) : nat := match t with Leaf => 0 | Node l _ r => S (size l + size r) end.

Ltac fin := simpl; unfold inR, inL; simpl; repeat (rewrite <- app_assoc; simpl); rewrite ?flat_map_app; simpl; repeat (rewrite <- app_assoc; simpl); rewrite ?app_nil_r; reflexivity.

Theorem sl_inorder d : forall n t, (size t <= n)%nat -> t <> Leaf -> forall L R,
  inorder (fst (sl d t L R)) = inL (rev L) ++ inorder t ++ inR R.
Proof.
  induction n as [|n IH]; intros t Hs Hne L R; destruct t as [|l k r]; try contradiction; simpl in Hs; [lia|].
  cbn [sl]. destruct (cmp d k =? 0). { cbn [fst]. rewrite inorder_finish. fin. }
  destruct (cmp d k <? 0).
  - destruct l as [|ll lk lr]. { cbn [fst]. rewrite inorder_finish. fin. }
    destruct (cmp d lk <? 0).
    + destruct ll as [|a b c].
      * cbn [fst]. rewrite inorder_finish. fin.
      * rewrite IH; [|simpl in *; lia|discriminate]. fin.
    + rewrite IH; [|simpl in *; lia|discriminate]. fin.
  - destruct r as [|rl rk rr]. { cbn [fst]. rewrite inorder_finish. fin. }
    destruct (cmp d rk >? 0).
    + destruct rr as [|a b c].
      * cbn [fst]. rewrite inorder_finish. fin.
      * rewrite IH; [|simpl in *; lia|discriminate]. fin.
    + rewrite IH; [|simpl in *; lia|discriminate]. fin.
Qed.

Theorem splay_inorder d t : inorder (fst (splay d t)) = inorder t.
Proof.
  destruct t as [|l k r]; [reflexivity|].
  unfold splay. rewrite (sl_inorder d _ _ (le_n _)) by discriminate. cbn [rev inL inR flat_map app]. now rewrite app_nil_r.
Qed.
End S.
