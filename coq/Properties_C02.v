(* C02: no premature acceptance.  ONLY statements closed by `exact`, each followed by Print Assumptions.
   Spec.v is a COUNTER-FREE specification automaton (no hold counters anywhere): per client it keeps which data arrived, which
   services still owe an answer (a set), whether +! was asked and an account is held, whether the timeout expired; it accepts
   exactly when `sready`:  all data the loaded modules asked for (or hurry-up)  /\  not (+! without account)  /\
   (no service owes an answer \/ timeout expired).  Iauth.v is the model that mirrors the C code with its counters. *)
From Coq Require Import List NArith ZArith Bool Strings.Byte Strings.String.
Import ListNotations.
Require Import Params Iauth IauthInv Spec.
Local Open Scope list_scope.

(* the model (hence, through the correspondence run, the daemon) produces exactly the lines of the specification automaton,
   for every configuration and every history *)
Theorem model_refines_counter_free_spec : forall c services rs t evs,
  run_out c (init c services rs t) evs = srun_out c (sinit c services rs t) evs.
Proof. exact spec_refines. Qed.
Print Assumptions model_refines_counter_free_spec.

(* in every reachable state and for every input line: a D/R line for client i is emitted in this step if and only if the step brings
   request i to the gate in a state that is `sready` - never earlier (C02), never later (C03) *)
Theorem accept_exactly_when_ready : forall c s id argv i, reach c s ->
  (existsb (accept_for i) (snd (step c s id argv)) = true <->
   exists r1 pre efs, sevent c (abs_st s) id argv = ToGate i r1 pre efs /\ sready c r1 = true).
Proof. exact accept_iff_ready_step. Qed.
Print Assumptions accept_exactly_when_ready.

(* the hold counters of the C code mean what they should in every reachable state *)
Theorem hold_accounting_invariant : forall c services rs t evs,
  TInv (fold_left (fun s e => fst (step_ev c s e)) evs (init c services rs t)).
Proof. exact run_inv_init. Qed.
Print Assumptions hold_accounting_invariant.

Theorem accept_only_when_ready : forall c tb r, Inv r -> fst (gate c tb r) = None -> ready c r = true.
Proof. exact gate_sound. Qed.
Print Assumptions accept_only_when_ready.

(* "A client refused by any service it was submitted to is never accepted."
   (1) a NO reply from an awaited service to the live instance prints exactly the reject line and retires the request;
   (2) on the model's own trace, for every history: after a reject line for id, any later line about id (an accept in particular)
       is preceded by a new complete announcement of id - it belongs to another connection instance. *)
Require Refused.
Theorem refusal_rejects_and_retires : forall c s0 e1 id argv svcn tg tx r slot t,
  reqs s0 = [] -> with_xq c = true -> cmdchar argv = x58 ->
  arg 1 argv = Some svcn -> arg 2 argv = Some tg -> arg 3 argv = Some tx ->
  Stray.reply_target (Refused.run c s0 e1) svcn tg = Some (r, slot, t) -> prefix (S_ "NO ") tx = true ->
  snd (step c (Refused.run c s0 e1) id argv) = [oc x6b r (S_ " :" ++ skipn 3 tx)] /\
  lookup (cid r) (reqs (Refused.run c s0 (e1 ++ [(id, argv)]))) = None.
Proof. exact Refused.refusal_reply_retires. Qed.
Print Assumptions refusal_rejects_and_retires.

Theorem refused_client_is_never_accepted : forall c s0 evs ni nj idi argvi outsi idj argvj outsj id a p rest k' a' p' rest',
  reqs s0 = [] ->
  nth_error (Mon01.trace c s0 evs) ni = Some (idi, argvi, outsi) -> In (OC x6b id a p rest) outsi ->
  nth_error (Mon01.trace c s0 evs) nj = Some (idj, argvj, outsj) -> (ni < nj)%nat ->
  In (OC k' id a' p' rest') outsj -> k' = x44 \/ k' = x52 ->
  exists nk argvk outsk, (ni < nk < nj)%nat /\ nth_error (Mon01.trace c s0 evs) nk = Some (id, argvk, outsk) /\ Mon01.announces argvk = true.
Proof. exact Refused.refused_client_is_never_accepted. Qed.
Print Assumptions refused_client_is_never_accepted.
