(* C02: no premature acceptance.  ONLY statements closed by `exact`, each followed by Print Assumptions. *)
From Coq Require Import List NArith ZArith Bool Strings.Byte Strings.String.
Import ListNotations.
Require Import Params Iauth IauthInv.
Local Open Scope list_scope.

(* every request of every reachable table satisfies the hold-accounting invariant:
   holds = 1 exactly when +! was requested and no account is stored, else 0;
   unless the timeout expired, soft_holds = 1 exactly when some query is unanswered (ref mask non-empty), else 0 *)
Theorem hold_accounting_invariant : forall c services rs t evs,
  TInv (fold_left (fun s e => fst (step_ev c s e)) evs (init c services rs t)).
Proof. exact run_inv_init. Qed.
Print Assumptions hold_accounting_invariant.

(* under that invariant the gate accepts (D/R) only when the client is `ready`: all data the loaded modules asked for is there
   (or hurry-up set it), no unmet +! requirement, and no query unanswered unless the request timeout expired *)
Theorem accept_only_when_ready : forall c tb r, Inv r -> fst (gate c tb r) = None -> ready c r = true.
Proof. exact gate_sound. Qed.
Print Assumptions accept_only_when_ready.
