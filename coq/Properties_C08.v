(* C08: arbitrary input cannot crash or derail the daemon (partial: memory safety of the C code is observed by sanitizers, not proved).
   ONLY statements closed by `exact`, each followed by Print Assumptions. *)
From Coq Require Import List NArith ZArith Bool Strings.Byte Strings.String.
Import ListNotations.
Require Import Params Iauth Line Junk LinesComplete.
Local Open Scope list_scope.

(* the argument vector never has more entries than slots (16 in iauth_read) *)
Theorem argument_vector_bounded : forall fuel slots s, (List.length (toks fuel slots s) <= slots)%nat.
Proof. exact toks_bound. Qed.
Print Assumptions argument_vector_bounded.

(* junk lines - unknown client id, unknown command letter, empty / blank line, line without a command - change nothing *)
Theorem junk_line_changes_nothing : forall c s raw, Junk s raw -> step_line c s raw = (s, []).
Proof. exact junk_noop. Qed.
Print Assumptions junk_line_changes_nothing.

(* ... so removing any set of junk lines from a history changes neither the final state nor the output of the other lines *)
Theorem junk_lines_are_removable : forall c es mask s, marked_junk c s mask es ->
  final c s (thin mask es) = final c s es /\
  run_revs c s (thin mask es) = thin mask (run_revs c s es) /\
  Forall (fun x => fst x = []) (picked mask (run_revs c s es)).
Proof. exact junk_removable. Qed.
Print Assumptions junk_lines_are_removable.

(* the sequence of lines delivered by the accumulating input buffer does not depend on how the stream is cut into read() chunks *)
Theorem line_splitting_ignores_chunking : forall chunks, feed_all chunks = feed [] (List.concat chunks).
Proof. exact chunking. Qed.
Print Assumptions line_splitting_ignores_chunking.

(* peer death at any byte: the lines delivered for a prefix of the stream are a prefix of those delivered for the whole stream *)
Theorem prefix_of_stream_gives_prefix_of_lines : forall p q, exists more, snd (feed [] (p ++ q)) = snd (feed [] p) ++ more.
Proof. exact prefix_lines. Qed.
Print Assumptions prefix_of_stream_gives_prefix_of_lines.

(* every complete line is delivered by the time the last chunk has been read, nothing stays pending: neither the total length of
   the stream nor the size of a chunk (a burst of exactly the read size, say) makes a line wait for further input or get lost *)
Theorem every_complete_line_is_delivered : forall ls chunks, Forall nolf ls ->
  List.concat chunks = flat_map (fun l => l ++ [LF]) ls -> feed_all chunks = ([], ls).
Proof. exact complete_lines_any_chunking. Qed.
Print Assumptions every_complete_line_is_delivered.

(* a partial last line stays pending and delays none of the complete ones *)
Theorem a_partial_last_line_delays_nothing : forall ls tail chunks, Forall nolf ls -> nolf tail ->
  List.concat chunks = flat_map (fun l => l ++ [LF]) ls ++ tail -> feed_all chunks = (tail, ls).
Proof. exact partial_tail_delays_nothing. Qed.
Print Assumptions a_partial_last_line_delays_nothing.
