(* Part A: the printer of the reduced model (Addr.ntop6): zero-run window, text shape, round trip through pton6,
   no leading colon, buffer bound.  All statements are for every list of 8 groups < 65536. *)
From Coq Require Import List NArith Lia Bool Strings.Byte Arith.
Import ListNotations.
Require Import Addr AddrRT AddrRT2 AddrRT3 AddrRT4 Params.
Local Open Scope N_scope.

(* ---------- the zero-run scan ---------- *)
Section Scan.
Variable f : nat -> N.   (* f j = group number j of the whole address *)

Definition fin (n ms mz cz : nat) : nat * nat := if Nat.ltb mz cz then (n - cz, cz)%nat else (ms, mz).

Definition zr (i k : nat) : Prop := forall j, (i <= j < i + k)%nat -> f j = 0.

Definition Inv (n ms mz cz : nat) : Prop :=
  (cz <= n)%nat /\ zr (n - cz) cz /\ ((cz < n)%nat -> f (n - cz - 1) <> 0) /\
  (ms + mz <= n - cz)%nat /\ zr ms mz /\
  (forall i k, (i + k <= n - cz)%nat -> zr i k -> (k <= mz)%nat /\ ((1 <= k)%nat -> k = mz -> (ms <= i)%nat)).

Definition Final (n s z : nat) : Prop :=
  (s + z <= n)%nat /\ zr s z /\
  (forall i k, (i + k <= n)%nat -> zr i k -> (k <= z)%nat /\ ((1 <= k)%nat -> k = z -> (s <= i)%nat)).

(* a run that reaches beyond the part before the current run lies inside the current run *)
Lemma run_in_suffix n cz i k : (cz <= n)%nat -> ((cz < n)%nat -> f (n - cz - 1) <> 0) ->
  (i + k <= n)%nat -> zr i k -> (n - cz < i + k)%nat -> (n - cz <= i)%nat.
Proof.
  intros Hc Hnz Hik Hr Hgt. destruct (le_lt_dec (n - cz) i) as [|Hlt]; [assumption|exfalso].
  assert (cz < n)%nat as Hcn by lia. apply (Hnz Hcn). apply Hr. lia.
Qed.

Lemma inv_final n ms mz cz s z : Inv n ms mz cz -> fin n ms mz cz = (s, z) -> Final n s z.
Proof.
  intros (Hc & Hsuf & Hnz & Hm & Hmr & Hmax) Hf. unfold fin in Hf.
  destruct (Nat.ltb mz cz) eqn:E; injection Hf as <- <-.
  - apply Nat.ltb_lt in E. split; [lia|]. split; [exact Hsuf|].
    intros i k Hik Hr. destruct (le_lt_dec (i + k) (n - cz)) as [Hle|Hgt].
    + destruct (Hmax i k Hle Hr). lia.
    + pose proof (run_in_suffix n cz i k Hc Hnz Hik Hr Hgt). lia.
  - apply Nat.ltb_ge in E. split; [lia|]. split; [exact Hmr|].
    intros i k Hik Hr. destruct (le_lt_dec (i + k) (n - cz)) as [Hle|Hgt].
    + exact (Hmax i k Hle Hr).
    + pose proof (run_in_suffix n cz i k Hc Hnz Hik Hr Hgt). lia.
Qed.

Lemma run_cases n cz i k : (cz <= n)%nat -> ((cz < n)%nat -> f (n - cz - 1) <> 0) -> f n <> 0 ->
  (i + k <= S n)%nat -> zr i k -> (1 <= k)%nat -> (i + k <= n - cz)%nat \/ ((n - cz <= i)%nat /\ (i + k <= n)%nat).
Proof.
  intros Hc Hnz Hn Hik Hr Hk.
  assert (i + k <= n)%nat as Hik'.
  { destruct (le_lt_dec (i + k) n); [assumption|exfalso]. apply Hn. apply Hr. lia. }
  destruct (le_lt_dec (i + k) (n - cz)) as [Hle|Hgt]; [left; exact Hle|right].
  split; [|exact Hik']. exact (run_in_suffix n cz i k Hc Hnz Hik' Hr Hgt).
Qed.

Lemma scan_inv rest : forall n ms mz cz,
  (forall j, (j < length rest)%nat -> nth j rest 1 = f (n + j)) -> Inv n ms mz cz ->
  exists ms' mz' cz', scan rest n ms mz cz = fin (n + length rest) ms' mz' cz' /\ Inv (n + length rest) ms' mz' cz'.
Proof.
  induction rest as [|g r IH]; intros n ms mz cz Hnth HI.
  - exists ms, mz, cz. cbn [length scan]. rewrite Nat.add_0_r. split; [reflexivity|exact HI].
  - assert (g = f n) as Hg by (specialize (Hnth 0%nat ltac:(cbn; lia)); cbn in Hnth; rewrite Nat.add_0_r in Hnth; exact Hnth).
    assert (forall j, (j < length r)%nat -> nth j r 1 = f (S n + j)) as Hnth'.
    { intros j Hj. specialize (Hnth (S j) ltac:(cbn; lia)). cbn in Hnth. rewrite Hnth. f_equal. lia. }
    destruct HI as (Hc & Hsuf & Hnz & Hm & Hmr & Hmax).
    cbn [scan length]. replace (n + S (length r))%nat with (S n + length r)%nat by lia.
    destruct (g =? 0) eqn:Eg.
    + apply N.eqb_eq in Eg. apply IH; [exact Hnth'|]. unfold Inv.
      replace (S n - S cz)%nat with (n - cz)%nat by lia.
      split; [lia|]. split.
      { intros j Hj. destruct (Nat.eq_dec j n) as [->|]; [congruence|]. apply Hsuf. lia. }
      split. { intros Hlt. apply Hnz. lia. }
      split; [exact Hm|]. split; [exact Hmr|exact Hmax].
    + apply N.eqb_neq in Eg. rewrite Hg in Eg.
      destruct (Nat.ltb mz cz) eqn:E.
      * apply Nat.ltb_lt in E. apply IH; [exact Hnth'|]. unfold Inv.
        replace (S n - 0)%nat with (S n) by lia.
        split; [lia|]. split. { intros j Hj. lia. }
        split. { intros _. replace (S n - 1)%nat with n by lia. exact Eg. }
        split; [lia|]. split; [exact Hsuf|].
        intros i k Hik Hr. destruct (Nat.eq_dec k 0) as [->|Hk]; [lia|].
        destruct (run_cases n cz i k Hc Hnz Eg Hik Hr ltac:(lia)) as [Hle|[H1 H2]].
        -- destruct (Hmax i k Hle Hr). lia.
        -- lia.
      * apply Nat.ltb_ge in E. apply IH; [exact Hnth'|]. unfold Inv.
        replace (S n - 0)%nat with (S n) by lia.
        split; [lia|]. split. { intros j Hj. lia. }
        split. { intros _. replace (S n - 1)%nat with n by lia. exact Eg. }
        split; [lia|]. split; [exact Hmr|].
        intros i k Hik Hr. destruct (Nat.eq_dec k 0) as [->|Hk]; [lia|].
        destruct (run_cases n cz i k Hc Hnz Eg Hik Hr ltac:(lia)) as [Hle|[H1 H2]].
        -- exact (Hmax i k Hle Hr).
        -- lia.
Qed.
End Scan.

(* ---------- list-level statement ---------- *)
Definition zrun (gs : groups) (i k : nat) : Prop := firstn k (skipn i gs) = repeat 0 k.

Lemma skipn_cons_nth {A} (d : A) (l : list A) : forall i, (i < length l)%nat -> skipn i l = nth i l d :: skipn (S i) l.
Proof. induction l as [|x l IH]; intros i Hi; [cbn in Hi; lia|]. destruct i; [reflexivity|]. cbn [skipn nth]. rewrite IH by (cbn in Hi; lia). reflexivity. Qed.

Lemma zrun_of_nth gs : forall k i, (i + k <= length gs)%nat -> (forall j, (i <= j < i + k)%nat -> nth j gs 1 = 0) -> zrun gs i k.
Proof.
  unfold zrun. induction k as [|k IH]; intros i Hl H; [reflexivity|].
  rewrite (skipn_cons_nth 1) by lia. cbn [firstn repeat]. rewrite (H i) by lia. f_equal.
  apply IH; [lia|]. intros j Hj. apply H. lia.
Qed.

Lemma nth_of_zrun gs : forall k i, zrun gs i k -> (k = 0 \/ i + k <= length gs)%nat /\ (forall j, (i <= j < i + k)%nat -> nth j gs 1 = 0).
Proof.
  unfold zrun. induction k as [|k IH]; intros i H; [split; [left; reflexivity|intros; lia]|].
  assert (i < length gs)%nat as Hi.
  { destruct (le_lt_dec (length gs) i) as [Hge|]; [|assumption]. rewrite skipn_all2 in H by exact Hge. discriminate. }
  rewrite (skipn_cons_nth 1) in H by exact Hi. cbn [firstn repeat] in H. injection H as H0 H1.
  destruct (IH (S i) H1) as [Hl Hz]. split; [right; lia|].
  intros j Hj. destruct (Nat.eq_dec j i) as [->|]; [exact H0|]. apply Hz. lia.
Qed.

Theorem scan_window_zero gs s z : scan gs 0 0 0 0 = (s, z) ->
  (s + z <= length gs)%nat /\ zrun gs s z /\
  (forall i k, zrun gs i k -> (k <= z)%nat) /\
  (forall i, (1 <= z)%nat -> zrun gs i z -> (s <= i)%nat).
Proof.
  intros Hs. set (f := fun j => nth j gs 1).
  assert (Inv f 0 0 0 0) as HI.
  { unfold Inv, zr. repeat split; try lia. }
  destruct (scan_inv f gs 0 0 0 0 (fun j _ => eq_refl) HI) as (ms & mz & cz & E & HI').
  rewrite Hs in E. cbn [Nat.add] in *. symmetry in E.
  destruct (inv_final f _ _ _ _ _ _ HI' E) as (H1 & H2 & H3).
  split; [exact H1|]. split; [apply zrun_of_nth; [exact H1|exact H2]|]. split.
  - intros i k Hr. destruct (nth_of_zrun gs k i Hr) as [[->|Hl] Hz]; [lia|]. exact (proj1 (H3 i k Hl Hz)).
  - intros i Hz Hr. destruct (nth_of_zrun gs z i Hr) as [[->|Hl] Hzz]; [lia|]. exact (proj2 (H3 i z Hl Hzz) Hz eq_refl).
Qed.

Lemma skipn_skipn' {A} (l : list A) : forall y x, skipn x (skipn y l) = skipn (y + x) l.
Proof. induction l as [|a l IH]; intros y x; [rewrite !skipn_nil; reflexivity|]. destruct y; [reflexivity|]. cbn [skipn Nat.add]. apply IH. Qed.

Lemma zrun_split gs s z : zrun gs s z -> gs = firstn s gs ++ repeat 0 z ++ skipn (s + z) gs.
Proof.
  unfold zrun. intros H. rewrite <- H. rewrite <- skipn_skipn'.
  rewrite (firstn_skipn z (skipn s gs)). symmetry. apply firstn_skipn.
Qed.

(* ---------- the printer ---------- *)
Lemma pr_tail post : forall ii s z, (z < 2 \/ s < ii)%nat -> (ii + length post = 8)%nat -> pr post ii s z 0 = join post.
Proof.
  induction post as [|g r IH]; intros ii s z Hc Hl; [reflexivity|].
  cbn [pr]. assert (Nat.ltb 1 z && Nat.eqb ii s = false) as ->.
  { destruct Hc as [Hc|Hc]. - assert (Nat.ltb 1 z = false) as -> by (apply Nat.ltb_ge; lia). reflexivity.
    - assert (Nat.eqb ii s = false) as -> by (apply Nat.eqb_neq; lia). apply andb_false_r. }
  cbn [length] in Hl. destruct r as [|g2 r2].
  - cbn [length] in Hl. assert (Nat.ltb ii 7 = false) as -> by (apply Nat.ltb_ge; lia). cbn [pr join app]. apply app_nil_r.
  - assert (Nat.ltb ii 7 = true) as -> by (apply Nat.ltb_lt; cbn [length] in Hl; lia).
    rewrite IH by (try lia; cbn [length] in *; lia). reflexivity.
Qed.

Lemma pr_pre pre : forall ii s z rest, (ii + length pre = s)%nat -> (s < 7)%nat ->
  pr (pre ++ rest) ii s z 0 = sepd pre ++ pr rest s s z 0.
Proof.
  induction pre as [|g r IH]; intros ii s z rest Hl Hs.
  - cbn in Hl. rewrite Nat.add_0_r in Hl. subst. reflexivity.
  - cbn [length] in Hl. cbn [app pr].
    assert (Nat.eqb ii s = false) as -> by (apply Nat.eqb_neq; lia). rewrite andb_false_r.
    assert (Nat.ltb ii 7 = true) as -> by (apply Nat.ltb_lt; lia).
    rewrite IH by lia. unfold sepd. cbn [map concat]. rewrite <- !app_assoc. reflexivity.
Qed.

Lemma pr_skip l : forall ii s z rest, pr (l ++ rest) ii s z (length l) = pr rest (ii + length l) s z 0.
Proof.
  induction l as [|g r IH]; intros ii s z rest; [cbn; rewrite Nat.add_0_r; reflexivity|].
  cbn [app length pr]. rewrite IH. f_equal. lia.
Qed.

Lemma pr_compressed pre post z : (2 <= z)%nat -> (length pre + z + length post = 8)%nat ->
  pr (pre ++ repeat 0 z ++ post) 0 (length pre) z 0 = text pre post.
Proof.
  intros Hz Hl. rewrite pr_pre by lia.
  destruct z as [|z']; [lia|]. cbn [repeat app pr].
  assert (Nat.ltb 1 (S z') = true) as -> by (apply Nat.ltb_lt; lia). rewrite Nat.eqb_refl. cbn [andb].
  replace (S z' - 1)%nat with (length (repeat 0 z')) by (rewrite repeat_length; lia).
  rewrite pr_skip. rewrite repeat_length.
  rewrite pr_tail by lia.
  unfold text. destruct pre as [|p ps]; reflexivity.
Qed.

Lemma small_firstn n gs : small gs -> small (firstn n gs).
Proof. unfold small. revert n; induction gs as [|g r IH]; intros n H; destruct n; cbn; auto. inversion H; subst. constructor; auto. Qed.
Lemma small_skipn n gs : small gs -> small (skipn n gs).
Proof. unfold small. revert n; induction gs as [|g r IH]; intros n H; destruct n; cbn; auto. inversion H; subst. auto. Qed.

Theorem ntop6_shape gs s z : length gs = 8%nat -> scan gs 0 0 0 0 = (s, z) ->
  ((z < 2)%nat -> ntop6 gs = join gs) /\
  ((2 <= z)%nat -> ntop6 gs = text (firstn s gs) (skipn (s + z) gs) /\
                   gs = firstn s gs ++ repeat 0 z ++ skipn (s + z) gs /\
                   length (firstn s gs) = s /\ (s + z + length (skipn (s + z) gs) = 8)%nat).
Proof.
  intros Hl Hs. unfold ntop6. rewrite Hs. split.
  - intros Hz. apply pr_tail; [left; exact Hz|rewrite Hl; reflexivity].
  - intros Hz. destruct (scan_window_zero gs s z Hs) as (H1 & H2 & _).
    pose proof (zrun_split gs s z H2) as E.
    assert (length (firstn s gs) = s) as Lf by (rewrite firstn_length; lia).
    assert (s + z + length (skipn (s + z) gs) = 8)%nat as Ls by (rewrite skipn_length; lia).
    split; [|split; [exact E|split; [exact Lf|exact Ls]]].
    remember (firstn s gs) as pre. remember (skipn (s + z) gs) as post. clear Heqpre Heqpost.
    rewrite E. subst s. apply pr_compressed; [exact Hz|exact Ls].
Qed.

Theorem ntop6_pton6 gs : length gs = 8%nat -> small gs -> pton6 (ntop6 gs) = Some gs.
Proof.
  intros Hl Hs. destruct (scan gs 0 0 0 0) as [s z] eqn:E.
  destruct (ntop6_shape gs s z Hl E) as [Hp Hc].
  destruct (le_lt_dec 2 z) as [Hz|Hz].
  - destruct (Hc Hz) as (-> & Eg & Lf & Ls).
    rewrite Eg at 3. apply pton_compressed; [apply small_firstn|apply small_skipn|rewrite Lf|]; assumption.
  - rewrite (Hp Hz). apply pton_plain; assumption.
Qed.

(* ---------- alphabet, first character, length ---------- *)
Definition hc (c : byte) : bool := ishex c || is c colon.
Definition hexcolon (s : str) : Prop := Forall (fun c => hc c = true) s.

Lemma eat_ishex ds : forall p q, eat p ds = Some q -> Forall (fun c => ishex c = true) ds.
Proof.
  induction ds as [|c r IH]; intros p q H; [constructor|]. cbn [eat] in H.
  destruct (hexval c) as [v|] eqn:Hv; [|discriminate].
  destruct (0xffff <? N.lor (N.shiftl p 4) v); [discriminate|].
  constructor; [unfold ishex; rewrite Hv; reflexivity|exact (IH _ _ H)].
Qed.

Lemma hexstr_hex g : g < 65536 -> Forall (fun c => ishex c = true) (hexstr g).
Proof. intros Hg. destruct (eat_hexstr g Hg) as [He _]. exact (eat_ishex _ _ _ He). Qed.

Lemma hexstr_len g : (length (hexstr g) <= 4)%nat.
Proof.
  unfold hexstr. rewrite !app_length.
  destruct (0x1000 <=? g), (0x100 <=? g), (0x10 <=? g); cbn [length]; lia.
Qed.

Lemma hex_hc s : Forall (fun c => ishex c = true) s -> hexcolon s.
Proof. unfold hexcolon, hc. intros H. eapply Forall_impl; [|exact H]. cbn. intros c ->. reflexivity. Qed.

Lemma hc_colon : hc colon = true. Proof. reflexivity. Qed.

Lemma hexcolon_app a b : hexcolon a -> hexcolon b -> hexcolon (a ++ b).
Proof. unfold hexcolon. intros. apply Forall_app; split; assumption. Qed.

Lemma hexcolon_join gs : small gs -> hexcolon (join gs).
Proof.
  induction gs as [|g r IH]; intros Hs; [constructor|]. inversion Hs; subst. cbn [join].
  destruct r as [|g2 r2]; [apply hex_hc, hexstr_hex; assumption|].
  apply hexcolon_app; [apply hex_hc, hexstr_hex; assumption|]. constructor; [exact hc_colon|]. apply IH; assumption.
Qed.

Lemma hexcolon_sepd gs : small gs -> hexcolon (sepd gs).
Proof.
  induction gs as [|g r IH]; intros Hs; [constructor|]. inversion Hs; subst. unfold sepd. cbn [map concat].
  apply hexcolon_app; [apply hexcolon_app; [apply hex_hc, hexstr_hex; assumption|constructor; [exact hc_colon|constructor]]|].
  apply IH; assumption.
Qed.

Lemma hexcolon_text pre post : small pre -> small post -> hexcolon (text pre post).
Proof.
  intros Hp Hq. unfold text. apply hexcolon_app.
  - destruct pre; [repeat constructor|apply hexcolon_sepd; exact Hp].
  - constructor; [exact hc_colon|apply hexcolon_join; exact Hq].
Qed.

Lemma length_join gs : (length (join gs) <= 5 * length gs - 1)%nat.
Proof.
  induction gs as [|g r IH]; [cbn; lia|]. cbn [join]. pose proof (hexstr_len g).
  destruct r as [|g2 r2]; [cbn [length]; lia|]. rewrite app_length. cbn [length] in *. lia.
Qed.

Lemma length_sepd gs : (length (sepd gs) <= 5 * length gs)%nat.
Proof.
  induction gs as [|g r IH]; [cbn; lia|]. unfold sepd in *. cbn [map concat]. rewrite !app_length. pose proof (hexstr_len g). cbn [length] in *. lia.
Qed.

Lemma hexstr_first g rest : g < 65536 -> exists c r, hexstr g ++ rest = c :: r /\ ishex c = true.
Proof.
  intros Hg. pose proof (hexstr_hex g Hg) as Hh. destruct (eat_hexstr g Hg) as [_ Hne].
  destruct (hexstr g) as [|c r]; [contradiction|]. inversion Hh; subst. exists c, (r ++ rest). split; [reflexivity|assumption].
Qed.

Lemma join_first g r : g < 65536 -> exists c t, join (g :: r) = c :: t /\ ishex c = true.
Proof.
  intros Hg. cbn [join]. destruct r; [|apply hexstr_first; exact Hg].
  destruct (hexstr_first g [] Hg) as (c & t & E & H). rewrite app_nil_r in E. eauto.
Qed.

Lemma ishex_not_colon c : ishex c = true -> c <> colon.
Proof. intros H ->. discriminate. Qed.

Theorem ntop6_first_hex gs : length gs = 8%nat -> small gs -> exists c r, ntop6 gs = c :: r /\ ishex c = true.
Proof.
  intros Hl Hs. destruct (scan gs 0 0 0 0) as [s z] eqn:E.
  destruct (ntop6_shape gs s z Hl E) as [Hp Hc].
  destruct (le_lt_dec 2 z) as [Hz|Hz].
  - destruct (Hc Hz) as (-> & _ & _ & _). unfold text.
    pose proof (small_firstn s gs Hs) as Hf. destruct (firstn s gs) as [|p ps].
    + eexists _, _. split; [reflexivity|reflexivity].
    + inversion Hf; subst. unfold sepd. cbn [map concat]. rewrite <- !app_assoc. apply hexstr_first; assumption.
  - rewrite (Hp Hz). destruct gs as [|g r]; [discriminate|]. inversion Hs; subst. apply join_first; assumption.
Qed.

Theorem ntop6_no_leading_colon gs : length gs = 8%nat -> small gs -> exists c r, ntop6 gs = c :: r /\ c <> colon.
Proof.
  intros Hl Hs. destruct (ntop6_first_hex gs Hl Hs) as (c & r & E & H). exists c, r. split; [exact E|apply ishex_not_colon; exact H].
Qed.

Theorem ntop6_hexcolon gs : length gs = 8%nat -> small gs -> hexcolon (ntop6 gs).
Proof.
  intros Hl Hs. destruct (scan gs 0 0 0 0) as [s z] eqn:E.
  destruct (ntop6_shape gs s z Hl E) as [Hp Hc].
  destruct (le_lt_dec 2 z) as [Hz|Hz].
  - destruct (Hc Hz) as (-> & _ & _ & _). apply hexcolon_text; [apply small_firstn|apply small_skipn]; assumption.
  - rewrite (Hp Hz). apply hexcolon_join; assumption.
Qed.

Theorem ntop6_fits gs : length gs = 8%nat -> small gs -> (length (ntop6 gs) < IRC_NTOP_MAX)%nat.
Proof.
  intros Hl Hs. unfold IRC_NTOP_MAX. destruct (scan gs 0 0 0 0) as [s z] eqn:E.
  destruct (ntop6_shape gs s z Hl E) as [Hp Hc].
  destruct (le_lt_dec 2 z) as [Hz|Hz].
  - destruct (Hc Hz) as (-> & _ & Lf & Ls). unfold text. rewrite app_length. cbn [length].
    pose proof (length_join (skipn (s + z) gs)). pose proof (length_sepd (firstn s gs)).
    assert (length (match firstn s gs with [] => [x30; colon] | _ :: _ => sepd (firstn s gs) end) <= 5 * length (firstn s gs) + 2)%nat.
    { destruct (firstn s gs); [cbn; lia|lia]. }
    lia.
  - rewrite (Hp Hz). pose proof (length_join gs). lia.
Qed.
