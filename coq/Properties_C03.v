(* C03: no stuck clients.  ONLY statements closed by `exact`, each followed by Print Assumptions.  See Properties_C02.v for Spec.v. *)
From Coq Require Import List NArith ZArith Bool Strings.Byte Strings.String.
Import ListNotations.
Require Import Params Iauth IauthInv Spec.
Local Open Scope list_scope.

(* in every reachable state NO request in the table is ready: whatever the history (late, duplicate or unexpected replies, repeated
   passwords, timeouts), a client that meets every condition for a verdict has received it in the step that completed them *)
Theorem no_ready_client_is_left_waiting : forall c s, reach c s -> Forall (fun r => sready c (abs r) = false) (reqs s).
Proof. exact no_ready_waits. Qed.
Print Assumptions no_ready_client_is_left_waiting.

Theorem accept_exactly_when_ready : forall c s id argv i, reach c s ->
  (existsb (accept_for i) (snd (step c s id argv)) = true <->
   exists r1 pre efs, sevent c (abs_st s) id argv = ToGate i r1 pre efs /\ sready c r1 = true).
Proof. exact accept_iff_ready_step. Qed.
Print Assumptions accept_exactly_when_ready.

(* on the specification itself: the gate accepts iff ready, and a request it leaves behind is not ready *)
Theorem spec_gate_accepts_iff_ready : forall c tb r, fst (sgate c tb r) = None <-> sready c r = true.
Proof. exact sgate_accepts_iff_ready. Qed.
Print Assumptions spec_gate_accepts_iff_ready.

Theorem spec_gate_leaves_only_unready : forall c tb r r', fst (sgate c tb r) = Some r' -> sready c r' = false.
Proof. exact sgate_live_not_ready. Qed.
Print Assumptions spec_gate_leaves_only_unready.

Theorem gate_never_leaves_a_ready_client : forall c tb r, Inv r ->
  match fst (gate c tb r) with Some r' => ready c r' = false | None => True end.
Proof. exact gate_not_stuck. Qed.
Print Assumptions gate_never_leaves_a_ready_client.
