(* C03: no stuck clients.  ONLY statements closed by `exact`, each followed by Print Assumptions. *)
From Coq Require Import List NArith ZArith Bool Strings.Byte Strings.String.
Import ListNotations.
Require Import Params Iauth IauthInv.
Local Open Scope list_scope.

Theorem hold_accounting_invariant : forall c services rs t evs,
  TInv (fold_left (fun s e => fst (step_ev c s e)) evs (init c services rs t)).
Proof. exact run_inv_init. Qed.
Print Assumptions hold_accounting_invariant.

(* a request that the gate leaves in the table is not `ready`: whenever every condition for a verdict holds, the gate has issued it *)
Theorem gate_never_leaves_a_ready_client : forall c tb r, Inv r ->
  match fst (gate c tb r) with Some r' => ready c r' = false | None => True end.
Proof. exact gate_not_stuck. Qed.
Print Assumptions gate_never_leaves_a_ready_client.
