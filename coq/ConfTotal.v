(* C14 on the parser model (Conf.v): the fuel that [parse] hands out always suffices (no [EFuel] result), every
   function returns a suffix of its input and every entry makes progress; the result of a successful read is
   strictly sorted by [kcmp] at every level (so keys are unique); nothing after the first NUL matters. *)
From Coq Require Import List NArith Bool Strings.Byte Lia Arith Sorting.Sorted.
Import ListNotations.
Require Import Conf.

Definition kidsT := list (str * val).

(* ------------------------------------------------------------------------------------------------ *)
(* one-step unfolding of [entry] with its local functions named                                      *)
(* ------------------------------------------------------------------------------------------------ *)
Definition tail_of (fuel : nat) (top : bool) (kids' : kidsT) (r : str) : res (kidsT * str) :=
  match ws fuel true r with
  | (Some c, r') => if (nb c =? 125)%N && negb top then inr (kids', c :: r')
                    else if (nb c =? 59)%N || (nb c =? 10)%N then inr (kids', r') else inl ESemi
  | (None, _) => inl ESemi
  end.

Definition body_of (E : str -> kidsT -> res (kidsT * str)) (fuel : nat) :=
  fix body (fu : nat) (r : str) (ks : kidsT) : res (kidsT * str) :=
    match fu with O => inl EFuel | S fu' =>
    match ws fuel false r with
    | (None, _) => inl EEof
    | (Some c2, r2) => if (nb c2 =? 125)%N then inr (ks, r2)
                       else match E (c2 :: r2) ks with
                            | inl e => inl e
                            | inr (ks', r3) => body fu' r3 ks'
                            end
    end end.

Definition old_of (name : str) (kids : kidsT) : kidsT := match lookup name 3 kids with Some (VObj k) => k | _ => [] end.

Definition entry_step (E : str -> kidsT -> res (kidsT * str)) (fuel f : nat) (d : nat) (s : str) (kids : kidsT)
  : res (kidsT * str) :=
  match pstring fuel s with
  | None => inr (kids, [])
  | Some (inl e) => inl e
  | Some (inr (name, r0)) =>
    match ws fuel false r0 with
    | (None, _) => inr (kids, [])
    | (Some c, r1) =>
      if (nb c =? 40)%N then
        match plist fuel r1 [] with
        | inl e => inl e
        | inr (items, r2) => tail_of fuel (Nat.eqb d 0) (upsert name 2 (fun _ => VList items) kids) r2
        end
      else if (nb c =? 123)%N then
        if Nat.leb max_depth d then inl EDeep else
        match body_of E fuel f r1 (old_of name kids) with
        | inl e => inl e
        | inr (ks, r2) => tail_of fuel (Nat.eqb d 0) (upsert name 3 (fun _ => VObj ks) kids) r2
        end
      else
        match pstring fuel (c :: r1) with
        | None => inl EEof
        | Some (inl e) => inl e
        | Some (inr (v, r2)) =>
          match ws fuel true r2 with
          | (None, _) => inl ESemi
          | (Some c2, r3) =>
            if (nb c2 =? 59)%N || (nb c2 =? 10)%N || (nb c2 =? 125)%N
            then tail_of fuel (Nat.eqb d 0) (upsert name 0 (fun _ => VStr v) kids) (c2 :: r3)
            else if (nb c2 =? 44)%N then
              match pcomma fuel r3 [v] with
              | inl e => inl e
              | inr (items, r4) => tail_of fuel (Nat.eqb d 0) (upsert name 2 (fun _ => VList items) kids) r4
              end
            else match pstring fuel (c2 :: r3) with
                 | None => inl ESemi
                 | Some (inl e) => inl e
                 | Some (inr (sv, r4)) => tail_of fuel (Nat.eqb d 0) (upsert name 1 (fun _ => VIna (Some v) (Some sv)) kids) r4
                 end
          end
        end
    end
  end.

Lemma entry_S f d s kids : entry (S f) d s kids = entry_step (entry f (S d)) (S f) f d s kids.
Proof. reflexivity. Qed.

Lemma body_of_S E fuel fu r ks :
  body_of E fuel (S fu) r ks =
  match ws fuel false r with
  | (None, _) => inl EEof
  | (Some c2, r2) => if (nb c2 =? 125)%N then inr (ks, r2)
                     else match E (c2 :: r2) ks with
                          | inl e => inl e
                          | inr (ks', r3) => body_of E fuel fu r3 ks'
                          end
  end.
Proof. reflexivity. Qed.

Lemma plist_S f s acc :
  plist (S f) s acc =
  match ws (S f) false s with
  | (None, _) => inl EEof
  | (Some c, r) =>
    if (nb c =? 41)%N then inr (rev acc, r)
    else match pstring (S f) (c :: r) with
         | None => inl EEof
         | Some (inl e) => inl e
         | Some (inr (v, r1)) =>
           match ws (S f) false r1 with
           | (None, _) => inl EEof
           | (Some c2, r2) => if (nb c2 =? 41)%N then inr (rev (v :: acc), r2)
                              else if (nb c2 =? 44)%N then plist f r2 (v :: acc) else inl EComma
           end
         end
  end.
Proof. reflexivity. Qed.

Lemma pcomma_S f s acc :
  pcomma (S f) s acc =
  match ws (S f) true s with
  | (None, _) => inl EEof
  | (Some c, r) =>
    if (nb c =? 10)%N then inr (rev acc, c :: r)
    else match pstring (S f) (c :: r) with
         | None => inl EEof
         | Some (inl e) => inl e
         | Some (inr (v, r1)) =>
           match ws (S f) true r1 with
           | (None, _) => inl EEof
           | (Some c2, r2) => if (nb c2 =? 10)%N || (nb c2 =? 59)%N || (nb c2 =? 125)%N then inr (rev (v :: acc), c2 :: r2)
                              else if (nb c2 =? 44)%N then pcomma f r2 (v :: acc) else inl EComma
           end
         end
  end.
Proof. reflexivity. Qed.

Lemma entries_S f s kids :
  entries (S f) s kids =
  match s with
  | [] => inr kids
  | _ => match entry (S f) 0 s kids with inl e => inl e | inr (k', r) => entries f r k' end
  end.
Proof. reflexivity. Qed.

(* destruct the innermost match of a hypothesis *)
Ltac dmatch H :=
  match type of H with
  | context [match ?x with _ => _ end] =>
      lazymatch x with
      | context [match _ with _ => _ end] => fail
      | _ => destruct x eqn:?
      end
  end.

(* ------------------------------------------------------------------------------------------------ *)
(* every function returns a suffix of its input (lengths)                                            *)
(* ------------------------------------------------------------------------------------------------ *)
Lemma skip_block_len s : forall r, skip_block s = Some r -> S (S (length r)) <= length s.
Proof.
  induction s as [|c s IH]; intros r H; cbn [skip_block] in H; [discriminate|].
  destruct (beq c STAR).
  - destruct s as [|d s2]; [discriminate|]. destruct (beq d SLASH).
    + inversion H; subst. cbn [length]. lia.
    + apply IH in H. cbn [length] in *. lia.
  - apply IH in H. cbn [length]. lia.
Qed.

Lemma skip_line_len s : length (skip_line s) <= length s.
Proof.
  induction s as [|c s IH]; cbn [skip_line]; [lia|]. destruct (beq c NL); cbn [length]; lia.
Qed.

Lemma ws_none fuel care : forall s r, ws fuel care s = (None, r) -> r = [].
Proof.
  induction fuel as [|f IH]; intros s r H; cbn [ws] in H; [inversion H; reflexivity|].
  destruct s as [|a s]; [inversion H; reflexivity|].
  destruct (beq a NL).
  - destruct care; [discriminate|]. eapply IH; eassumption.
  - destruct (isspace a); [eapply IH; eassumption|].
    destruct (negb (beq a SLASH)); [discriminate|].
    destruct s as [|d s2]; [discriminate|].
    destruct (beq d STAR).
    + destruct (skip_block s2); [eapply IH; eassumption|inversion H; reflexivity].
    + destruct (beq d SLASH); [eapply IH; eassumption|discriminate].
Qed.

Lemma ws_some fuel care : forall s c r, ws fuel care s = (Some c, r) -> length r < length s.
Proof.
  induction fuel as [|f IH]; intros s c r H; cbn [ws] in H; [discriminate|].
  destruct s as [|a s]; [discriminate|].
  destruct (beq a NL).
  - destruct care; [inversion H; subst; cbn [length]; lia|]. apply IH in H. cbn [length]. lia.
  - destruct (isspace a); [apply IH in H; cbn [length]; lia|].
    destruct (negb (beq a SLASH)); [inversion H; subst; cbn [length]; lia|].
    destruct s as [|d s2]; [inversion H; subst; cbn [length]; lia|].
    destruct (beq d STAR).
    + destruct (skip_block s2) eqn:E; [|discriminate]. apply IH in H. apply skip_block_len in E. cbn [length]. lia.
    + destruct (beq d SLASH).
      * apply IH in H. pose proof (skip_line_len s2). cbn [length]. lia.
      * inversion H; subst. cbn [length]. lia.
Qed.

Lemma ws_suffix fuel care s : length (snd (ws fuel care s)) <= length s.
Proof.
  destruct (ws fuel care s) as [[c|] r] eqn:E; cbn [snd].
  - apply ws_some in E. lia.
  - apply ws_none in E. subst. cbn [length]. lia.
Qed.

Lemma unq_len n : forall s o r, length s <= n -> unq s = Some (o, r) -> length r < length s.
Proof.
  induction n as [|n IH]; intros s o r Hn H; destruct s as [|c s]; cbn [unq] in H; try discriminate;
    cbn [length] in *; [lia|].
  assert (IH' : forall s' o' r', length s' <= length s -> unq s' = Some (o', r') -> length r' < length s')
    by (intros; eapply IH; [lia|eassumption]).
  clear IH.
  destruct (beq c QUOTE); [inversion H; subst; lia|].
  destruct (beq c BSL).
  - destruct s as [|e r2]; [discriminate|]. cbn [length] in *.
    destruct (beq e x78).
    + destruct r2 as [|h1 r3] eqn:Er2; [discriminate|]. rewrite <- Er2 in H.
      destruct (hexv h1).
      * destruct r3 as [|h2 r4] eqn:Er3; [discriminate|]. rewrite <- Er3 in H.
        destruct (hexv h2).
        -- destruct (unq r4) as [[o' rest]|] eqn:E; [|discriminate]. inversion H; subst.
           apply IH' in E; cbn [length] in *; lia.
        -- apply IH' in H; subst; cbn [length] in *; lia.
      * apply IH' in H; subst; cbn [length] in *; lia.
    + destruct (unq r2) as [[o' rest]|] eqn:E; [|discriminate]. inversion H; subst.
      apply IH' in E; lia.
  - destruct (unq s) as [[o' rest]|] eqn:E; [|discriminate]. inversion H; subst.
    apply IH' in E; lia.
Qed.

Lemma take_token_len s : forall a r, take_token s = (a, r) -> length r <= length s.
Proof.
  induction s as [|c s IH]; intros a r H; cbn [take_token] in H.
  - inversion H; subst. cbn [length]. lia.
  - destruct (istoken c).
    + destruct (take_token s) as [a' b'] eqn:E. inversion H; subst. specialize (IH _ _ eq_refl). cbn [length]. lia.
    + inversion H; subst. lia.
Qed.

Lemma pstring_suffix fuel s v r : pstring fuel s = Some (inr (v, r)) -> length r < length s.
Proof.
  unfold pstring. intros H.
  destruct (ws fuel false s) as [[c|] r0] eqn:W; [|discriminate]. apply ws_some in W.
  destruct (beq c QUOTE).
  - destruct (unq r0) as [[o rest]|] eqn:U; [|discriminate]. inversion H; subst.
    apply (unq_len _ _ _ _ (le_n _)) in U. lia.
  - destruct (istoken c); [|discriminate].
    destruct (take_token r0) as [a rest] eqn:T. inversion H; subst. apply take_token_len in T. lia.
Qed.

Lemma pstring_nofuel fuel s : pstring fuel s <> Some (inl EFuel).
Proof.
  unfold pstring. intros H. repeat dmatch H; discriminate.
Qed.

Ltac facts :=
  repeat match goal with
  | H : ws _ _ _ = (Some _, _) |- _ => apply ws_some in H
  | H : ws _ _ _ = (None, _) |- _ => apply ws_none in H
  | H : pstring _ _ = Some (inr (_, _)) |- _ => apply pstring_suffix in H
  end.

Lemma plist_suffix fuel : forall s acc l r, plist fuel s acc = inr (l, r) -> length r < length s.
Proof.
  induction fuel as [|f IH]; intros s acc l r H; [discriminate|].
  rewrite plist_S in H. repeat dmatch H; try discriminate.
  - inversion H; subst. facts. lia.
  - inversion H; subst. facts. cbn [length] in *. lia.
  - apply IH in H. facts. cbn [length] in *. lia.
Qed.

Lemma pcomma_suffix fuel : forall s acc l r, pcomma fuel s acc = inr (l, r) -> length r <= length s.
Proof.
  induction fuel as [|f IH]; intros s acc l r H; [discriminate|].
  rewrite pcomma_S in H. repeat dmatch H; try discriminate.
  - inversion H; subst. facts. cbn [length] in *. lia.
  - inversion H; subst. facts. cbn [length] in *. lia.
  - apply IH in H. facts. cbn [length] in *. lia.
Qed.

Lemma tail_of_inv fuel top k r k' r' : tail_of fuel top k r = inr (k', r') -> k' = k /\ length r' <= length r.
Proof.
  unfold tail_of. intros H. repeat dmatch H; try discriminate; inversion H; subst; facts; cbn [length] in *; split; trivial; lia.
Qed.

Lemma tail_of_nofuel fuel top k r : tail_of fuel top k r <> inl EFuel.
Proof. unfold tail_of. intros H. repeat dmatch H; discriminate. Qed.

Definition Elen (E : str -> kidsT -> res (kidsT * str)) : Prop :=
  forall s ks ks' r, E s ks = inr (ks', r) -> length r <= length s - 1.

Lemma body_of_suffix E fuel : Elen E -> forall fu r ks ks' r', body_of E fuel fu r ks = inr (ks', r') -> length r' < length r.
Proof.
  intros HE. induction fu as [|fu IH]; intros r ks ks' r' H; [discriminate|].
  rewrite body_of_S in H. repeat dmatch H; try discriminate.
  - inversion H; subst. facts. lia.
  - apply IH in H. match goal with X : E _ _ = inr _ |- _ => apply HE in X end. facts. cbn [length] in *. lia.
Qed.

Ltac facts2 :=
  repeat match goal with
  | H : plist _ _ _ = inr (_, _) |- _ => apply plist_suffix in H
  | H : pcomma _ _ _ = inr (_, _) |- _ => apply pcomma_suffix in H
  | H : tail_of _ _ _ _ = inr (_, _) |- _ => apply tail_of_inv in H; destruct H as [_ H]
  end.

Lemma entry_step_suffix E fuel f d s kids k' r :
  Elen E -> entry_step E fuel f d s kids = inr (k', r) -> length r <= length s - 1.
Proof.
  intros HE H. unfold entry_step in H.
  repeat dmatch H; try discriminate;
    try (inversion H; subst; cbn [length]; lia);
    try (match goal with B : body_of _ _ _ _ _ = inr _ |- _ => apply (body_of_suffix _ _ HE) in B end);
    facts; facts2; cbn [length] in *; lia.
Qed.

(* a successful entry consumes at least one byte (or the input was already empty) *)
Theorem entry_suffix fuel : forall d s kids k' r, entry fuel d s kids = inr (k', r) -> length r <= length s - 1.
Proof.
  induction fuel as [|f IH]; intros d s kids k' r H; [discriminate|].
  rewrite entry_S in H. eapply entry_step_suffix; [|eassumption].
  intros s0 ks ks' r0 H0. eapply IH; eassumption.
Qed.

(* ------------------------------------------------------------------------------------------------ *)
(* the fuel suffices                                                                                 *)
(* ------------------------------------------------------------------------------------------------ *)
Lemma plist_nofuel fuel : forall s acc, length s < fuel -> plist fuel s acc <> inl EFuel.
Proof.
  induction fuel as [|f IH]; intros s acc Hl H; [lia|].
  rewrite plist_S in H. repeat dmatch H; try discriminate.
  - inversion H; subst. eapply pstring_nofuel; eassumption.
  - revert H. apply IH. facts. cbn [length] in *. lia.
Qed.

Lemma pcomma_nofuel fuel : forall s acc, length s < fuel -> pcomma fuel s acc <> inl EFuel.
Proof.
  induction fuel as [|f IH]; intros s acc Hl H; [lia|].
  rewrite pcomma_S in H. repeat dmatch H; try discriminate.
  - inversion H; subst. eapply pstring_nofuel; eassumption.
  - revert H. apply IH. facts. cbn [length] in *. lia.
Qed.

Lemma body_of_nofuel E fuel bound :
  Elen E -> (forall s ks, length s <= bound -> E s ks <> inl EFuel) ->
  forall fu r ks, length r <= bound -> length r < fu -> body_of E fuel fu r ks <> inl EFuel.
Proof.
  intros HE HF. induction fu as [|fu IH]; intros r ks Hb Hl H; [lia|].
  rewrite body_of_S in H. repeat dmatch H; try discriminate.
  - inversion H; subst. match goal with X : E _ _ = inl _ |- _ => revert X end. apply HF. facts. cbn [length]. lia.
  - revert H. match goal with X : E _ _ = inr _ |- _ => apply HE in X end. facts. cbn [length] in *. apply IH; lia.
Qed.

Theorem entry_nofuel fuel : forall d s kids, length s < fuel -> entry fuel d s kids <> inl EFuel.
Proof.
  induction fuel as [|f IH]; intros d s kids Hl H; [lia|].
  rewrite entry_S in H. unfold entry_step in H.
  assert (HE : Elen (entry f (S d))) by (intros s0 ks ks' r0 H0; eapply entry_suffix; eassumption).
  repeat dmatch H; try discriminate;
    try (inversion H; subst; eapply pstring_nofuel; eassumption);
    try (eapply tail_of_nofuel; eassumption).
  - inversion H; subst. match goal with X : plist _ _ _ = inl _ |- _ => revert X end. apply plist_nofuel. facts. lia.
  - inversion H; subst. match goal with X : body_of _ _ _ _ _ = inl _ |- _ => revert X end.
    facts. apply (body_of_nofuel _ _ (length s - 2) HE); try lia.
    intros s0 ks Hs0. apply IH. lia.
  - inversion H; subst. match goal with X : pcomma _ _ _ = inl _ |- _ => revert X end. apply pcomma_nofuel. facts. cbn [length] in *. lia.
Qed.

Theorem entries_nofuel fuel : forall s kids, length s < fuel -> entries fuel s kids <> inl EFuel.
Proof.
  induction fuel as [|f IH]; intros s kids Hl H; [lia|].
  rewrite entries_S in H. destruct s as [|c s]; [discriminate|].
  destruct (entry (S f) 0 (c :: s) kids) as [e|[k' r]] eqn:E.
  - inversion H; subst. revert E. apply entry_nofuel. exact Hl.
  - apply entry_suffix in E. revert H. apply IH. cbn [length] in *. lia.
Qed.

(* C14: the read always ends, and never because the model ran out of steps *)
Theorem parse_total data : parse data <> inl EFuel.
Proof.
  unfold parse. destruct data as [|c d]; [discriminate|].
  cbv zeta. apply entries_nofuel. lia.
Qed.

(* ------------------------------------------------------------------------------------------------ *)
(* the result does not depend on the amount of fuel once it exceeds the input length:               *)
(* the white-space scanner (which answers "end of input" rather than EFuel when starved) is never    *)
(* starved under [parse]                                                                             *)
(* ------------------------------------------------------------------------------------------------ *)
Lemma ws_fuel care : forall f1 f2 s, length s < f1 -> length s < f2 -> ws f1 care s = ws f2 care s.
Proof.
  induction f1 as [|f1 IH]; intros f2 s H1 H2; [lia|]. destruct f2 as [|f2]; [lia|].
  cbn [ws]. destruct s as [|a s]; [reflexivity|]. cbn [length] in *.
  destruct (beq a NL).
  - destruct care; [reflexivity|]. apply IH; lia.
  - destruct (isspace a); [apply IH; lia|].
    destruct (negb (beq a SLASH)); [reflexivity|].
    destruct s as [|d s2]; [reflexivity|]. cbn [length] in *.
    destruct (beq d STAR).
    + destruct (skip_block s2) eqn:E; [|reflexivity]. apply skip_block_len in E. apply IH; lia.
    + destruct (beq d SLASH); [|reflexivity]. pose proof (skip_line_len s2). apply IH; lia.
Qed.

Lemma pstring_fuel f1 f2 s : length s < f1 -> length s < f2 -> pstring f1 s = pstring f2 s.
Proof. intros H1 H2. unfold pstring. rewrite (ws_fuel false f1 f2 s H1 H2). reflexivity. Qed.

Lemma plist_fuel : forall f1 f2 s acc, length s < f1 -> length s < f2 -> plist f1 s acc = plist f2 s acc.
Proof.
  induction f1 as [|f1 IH]; intros f2 s acc H1 H2; [lia|]. destruct f2 as [|f2]; [lia|].
  rewrite !plist_S. rewrite (ws_fuel false (S f1) (S f2) s H1 H2).
  destruct (ws (S f2) false s) as [[c|] r] eqn:W; [|reflexivity]. apply ws_some in W.
  destruct (nb c =? 41)%N; [reflexivity|].
  rewrite (pstring_fuel (S f1) (S f2) (c :: r)) by (cbn [length]; lia).
  destruct (pstring (S f2) (c :: r)) as [[e|[v r1]]|] eqn:P; try reflexivity. apply pstring_suffix in P. cbn [length] in P.
  rewrite (ws_fuel false (S f1) (S f2) r1) by lia.
  destruct (ws (S f2) false r1) as [[c2|] r2] eqn:W2; [|reflexivity]. apply ws_some in W2.
  destruct (nb c2 =? 41)%N; [reflexivity|]. destruct (nb c2 =? 44)%N; [|reflexivity]. apply IH; lia.
Qed.

Lemma pcomma_fuel : forall f1 f2 s acc, length s < f1 -> length s < f2 -> pcomma f1 s acc = pcomma f2 s acc.
Proof.
  induction f1 as [|f1 IH]; intros f2 s acc H1 H2; [lia|]. destruct f2 as [|f2]; [lia|].
  rewrite !pcomma_S. rewrite (ws_fuel true (S f1) (S f2) s H1 H2).
  destruct (ws (S f2) true s) as [[c|] r] eqn:W; [|reflexivity]. apply ws_some in W.
  destruct (nb c =? 10)%N; [reflexivity|].
  rewrite (pstring_fuel (S f1) (S f2) (c :: r)) by (cbn [length]; lia).
  destruct (pstring (S f2) (c :: r)) as [[e|[v r1]]|] eqn:P; try reflexivity. apply pstring_suffix in P. cbn [length] in P.
  rewrite (ws_fuel true (S f1) (S f2) r1) by lia.
  destruct (ws (S f2) true r1) as [[c2|] r2] eqn:W2; [|reflexivity]. apply ws_some in W2.
  destruct ((nb c2 =? 10)%N || (nb c2 =? 59)%N || (nb c2 =? 125)%N); [reflexivity|].
  destruct (nb c2 =? 44)%N; [|reflexivity]. apply IH; lia.
Qed.

Lemma tail_of_fuel f1 f2 top k r : length r < f1 -> length r < f2 -> tail_of f1 top k r = tail_of f2 top k r.
Proof. intros H1 H2. unfold tail_of. rewrite (ws_fuel true f1 f2 r H1 H2). reflexivity. Qed.

Lemma body_of_fuel E1 E2 g1 g2 bound :
  Elen E2 -> (forall s ks, length s <= bound -> E1 s ks = E2 s ks) ->
  forall fu1 fu2 r ks, length r <= bound -> length r < g1 -> length r < g2 -> length r < fu1 -> length r < fu2 ->
  body_of E1 g1 fu1 r ks = body_of E2 g2 fu2 r ks.
Proof.
  intros HE HEq. induction fu1 as [|fu1 IH]; intros fu2 r ks Hb Hg1 Hg2 H1 H2; [lia|]. destruct fu2 as [|fu2]; [lia|].
  rewrite !body_of_S. rewrite (ws_fuel false g1 g2 r Hg1 Hg2).
  destruct (ws g2 false r) as [[c|] r2] eqn:W; [|reflexivity]. apply ws_some in W.
  destruct (nb c =? 125)%N; [reflexivity|].
  rewrite HEq by (cbn [length]; lia).
  destruct (E2 (c :: r2) ks) as [e|[ks' r3]] eqn:EE; [reflexivity|]. apply HE in EE. cbn [length] in EE.
  apply IH; lia.
Qed.

Theorem entry_fuel : forall f1 f2 d s kids, length s < f1 -> length s < f2 -> entry f1 d s kids = entry f2 d s kids.
Proof.
  induction f1 as [|f1 IH]; intros f2 d s kids H1 H2; [lia|]. destruct f2 as [|f2]; [lia|].
  rewrite !entry_S. unfold entry_step.
  assert (HE : Elen (entry f2 (S d))) by (intros s0 ks ks' r0 H0; eapply entry_suffix; eassumption).
  rewrite (pstring_fuel (S f1) (S f2) s H1 H2).
  destruct (pstring (S f2) s) as [[e|[name r0]]|] eqn:P; try reflexivity. apply pstring_suffix in P.
  rewrite (ws_fuel false (S f1) (S f2) r0) by lia.
  destruct (ws (S f2) false r0) as [[c|] r1] eqn:W; [|reflexivity]. apply ws_some in W.
  destruct (nb c =? 40)%N.
  { rewrite (plist_fuel (S f1) (S f2) r1) by lia.
    destruct (plist (S f2) r1 []) as [e|[items r2]] eqn:L; [reflexivity|]. apply plist_suffix in L.
    apply tail_of_fuel; lia. }
  destruct (nb c =? 123)%N.
  { destruct (Nat.leb max_depth d); [reflexivity|].
    rewrite (body_of_fuel (entry f1 (S d)) (entry f2 (S d)) (S f1) (S f2) (length s - 2) HE) with (fu2 := f2); try lia.
    - destruct (body_of (entry f2 (S d)) (S f2) f2 r1 (old_of name kids)) as [e|[ks r2]] eqn:B; [reflexivity|].
      apply (body_of_suffix _ _ HE) in B. apply tail_of_fuel; lia.
    - intros s0 ks Hs0. apply IH; lia. }
  rewrite (pstring_fuel (S f1) (S f2) (c :: r1)) by (cbn [length]; lia).
  destruct (pstring (S f2) (c :: r1)) as [[e|[v r2]]|] eqn:P2; try reflexivity. apply pstring_suffix in P2. cbn [length] in P2.
  rewrite (ws_fuel true (S f1) (S f2) r2) by lia.
  destruct (ws (S f2) true r2) as [[c2|] r3] eqn:W2; [|reflexivity]. apply ws_some in W2.
  destruct ((nb c2 =? 59)%N || (nb c2 =? 10)%N || (nb c2 =? 125)%N).
  { apply tail_of_fuel; cbn [length]; lia. }
  destruct (nb c2 =? 44)%N.
  { rewrite (pcomma_fuel (S f1) (S f2) r3) by lia.
    destruct (pcomma (S f2) r3 [v]) as [e|[items r4]] eqn:L; [reflexivity|]. apply pcomma_suffix in L.
    apply tail_of_fuel; lia. }
  rewrite (pstring_fuel (S f1) (S f2) (c2 :: r3)) by (cbn [length]; lia).
  destruct (pstring (S f2) (c2 :: r3)) as [[e|[sv r4]]|] eqn:P3; try reflexivity. apply pstring_suffix in P3. cbn [length] in P3.
  apply tail_of_fuel; lia.
Qed.

Theorem entries_fuel : forall f1 f2 s kids, length s < f1 -> length s < f2 -> entries f1 s kids = entries f2 s kids.
Proof.
  induction f1 as [|f1 IH]; intros f2 s kids H1 H2; [lia|]. destruct f2 as [|f2]; [lia|].
  rewrite !entries_S. destruct s as [|c s]; [reflexivity|].
  rewrite (entry_fuel (S f1) (S f2) 0 (c :: s) kids H1 H2).
  destruct (entry (S f2) 0 (c :: s) kids) as [e|[k' r]] eqn:E; [reflexivity|].
  apply entry_suffix in E. cbn [length] in *. apply IH; lia.
Qed.

(* any fuel above the length of the (NUL-cut) data gives the answer of [parse] *)
Theorem parse_fuel_stable c d fuel :
  length (cut_nul (c :: d)) < fuel -> entries fuel (cut_nul (c :: d)) [] = parse (c :: d).
Proof. intros H. unfold parse. cbv zeta. apply entries_fuel; lia. Qed.

(* ------------------------------------------------------------------------------------------------ *)
(* C: small facts                                                                                    *)
(* ------------------------------------------------------------------------------------------------ *)
Theorem parse_empty : parse [] = inl EEof.
Proof. reflexivity. Qed.

Lemma cut_nul_app_nul d junk : cut_nul (d ++ x00 :: junk) = cut_nul d.
Proof.
  induction d as [|c d IH]; cbn [app cut_nul]; [reflexivity|]. destruct (beq c x00); [reflexivity|]. rewrite IH. reflexivity.
Qed.

Lemma cut_nul_idem d : cut_nul (cut_nul d) = cut_nul d.
Proof.
  induction d as [|c d IH]; cbn [cut_nul]; [reflexivity|]. destruct (beq c x00) eqn:E; [reflexivity|].
  cbn [cut_nul]. rewrite E, IH. reflexivity.
Qed.

(* for non-empty data the result depends on the part before the first NUL only *)
Theorem parse_cut_nul_eq d1 d2 : d1 <> [] -> d2 <> [] -> cut_nul d1 = cut_nul d2 -> parse d1 = parse d2.
Proof.
  intros H1 H2 E. unfold parse. destruct d1; [congruence|]. destruct d2; [congruence|]. cbv zeta. rewrite E. reflexivity.
Qed.

Theorem parse_cut_nul d junk : parse (d ++ x00 :: junk) = parse (d ++ [x00]).
Proof.
  apply parse_cut_nul_eq.
  - destruct d; discriminate.
  - destruct d; discriminate.
  - rewrite !cut_nul_app_nul. reflexivity.
Qed.

(* data that starts with a NUL byte is a successful read of an empty tree (the empty *file* is the error) *)
Theorem parse_leading_nul junk : parse (x00 :: junk) = inr [].
Proof. reflexivity. Qed.

(* ------------------------------------------------------------------------------------------------ *)
(* the result is strictly sorted by (case-folded name, kind) at every level                          *)
(* ------------------------------------------------------------------------------------------------ *)
Definition klt (a b : str * val) : Prop := kcmp (fst a) (kind (snd a)) (fst b) (kind (snd b)) = Lt.

Inductive tsorted : kidsT -> Prop :=
| ts_intro ks : Sorted klt ks -> (forall n v, In (n, v) ks -> vsorted v) -> tsorted ks
with vsorted : val -> Prop :=
| vs_str v : vsorted (VStr v)
| vs_ina h s : vsorted (VIna h s)
| vs_list l : vsorted (VList l)
| vs_obj ks : tsorted ks -> vsorted (VObj ks).

Lemma scmp_antisym a : forall b, scmp a b = CompOpp (scmp b a).
Proof.
  induction a as [|x a IH]; intros [|y b]; cbn [scmp]; try reflexivity.
  rewrite (N.compare_antisym (nb (lower x)) (nb (lower y))).
  destruct (N.compare (nb (lower x)) (nb (lower y))); cbn [CompOpp]; [apply IH|reflexivity|reflexivity].
Qed.

Lemma kcmp_antisym a ka b kb : kcmp a ka b kb = CompOpp (kcmp b kb a ka).
Proof.
  unfold kcmp. rewrite (scmp_antisym a b). destruct (scmp b a); cbn [CompOpp]; try reflexivity.
  apply N.compare_antisym.
Qed.

Lemma kcmp_eq a ka b kb : kcmp a ka b kb = Eq -> scmp a b = Eq /\ ka = kb.
Proof.
  unfold kcmp. destruct (scmp a b); try discriminate. intros H. apply N.compare_eq_iff in H. split; trivial.
Qed.

Lemma scmp_trans a : forall b c, scmp a b = Lt -> scmp b c = Lt -> scmp a c = Lt.
Proof.
  induction a as [|x a IH]; intros [|y b] [|z c]; cbn [scmp]; try discriminate; try reflexivity.
  destruct (N.compare_spec (nb (lower x)) (nb (lower y))) as [E1|E1|E1];
  destruct (N.compare_spec (nb (lower y)) (nb (lower z))) as [E2|E2|E2]; intros H1 H2; try discriminate.
  - rewrite E1, E2, N.compare_refl. eapply IH; eassumption.
  - rewrite E1. apply N.compare_lt_iff in E2. rewrite E2. reflexivity.
  - rewrite <- E2. apply N.compare_lt_iff in E1. rewrite E1. reflexivity.
  - assert (E : (nb (lower x) < nb (lower z))%N) by (eapply N.lt_trans; eassumption).
    apply N.compare_lt_iff in E. rewrite E. reflexivity.
Qed.

Lemma scmp_eq_l a : forall b c, scmp a b = Eq -> scmp a c = scmp b c.
Proof.
  induction a as [|x a IH]; intros [|y b] [|z c]; cbn [scmp]; intros H; try discriminate; try reflexivity.
  destruct (N.compare_spec (nb (lower x)) (nb (lower y))) as [E1|E1|E1]; try discriminate.
  rewrite E1. destruct (N.compare (nb (lower y)) (nb (lower z))); try reflexivity. apply IH. exact H.
Qed.

Lemma klt_trans a b c : klt a b -> klt b c -> klt a c.
Proof.
  unfold klt, kcmp. destruct a as [a va], b as [b vb], c as [c vc]. cbn [fst snd].
  destruct (scmp a b) eqn:E1; try discriminate; destruct (scmp b c) eqn:E2; try discriminate; intros H1 H2.
  - rewrite (scmp_eq_l a b c E1), E2. apply N.compare_lt_iff in H1, H2. apply N.compare_lt_iff. eapply N.lt_trans; eassumption.
  - rewrite (scmp_eq_l a b c E1), E2. reflexivity.
  - assert (E : scmp a c = Lt).
    { rewrite (scmp_antisym a c). rewrite (scmp_antisym b c) in E2.
      destruct (scmp c b) eqn:E3; try discriminate. rewrite (scmp_eq_l c b a E3). rewrite (scmp_antisym b a), E1. reflexivity. }
    rewrite E. reflexivity.
  - rewrite (scmp_trans a b c E1 E2). reflexivity.
Qed.

(* strictly sorted, hence keys are pairwise different *)
Lemma sorted_strong ks : Sorted klt ks -> StronglySorted klt ks.
Proof. apply Sorted_StronglySorted. intros a b c. apply klt_trans. Qed.

Lemma upsert_hd name k f kids a :
  (forall o, kind (f o) = k) -> HdRel klt a kids -> klt a (name, f None) -> HdRel klt a (upsert name k f kids).
Proof.
  intros Hk Hh Ha. destruct kids as [|[n v] r]; cbn [upsert]; [constructor; exact Ha|].
  destruct (kcmp name k n (kind v)) eqn:E.
  - constructor. inversion Hh; subst. apply kcmp_eq in E as [_ E]. unfold klt in *. cbn [fst snd] in *. rewrite Hk, E. assumption.
  - constructor. exact Ha.
  - constructor. inversion Hh; subst. assumption.
Qed.

Lemma upsert_sorted name k f : (forall o, kind (f o) = k) -> forall kids, Sorted klt kids -> Sorted klt (upsert name k f kids).
Proof.
  intros Hk. induction kids as [|[n v] r IH]; intros Hs; cbn [upsert].
  - constructor; constructor.
  - inversion Hs as [|? ? Hr Hh]; subst. destruct (kcmp name k n (kind v)) eqn:E.
    + constructor; [exact Hr|]. apply kcmp_eq in E as [_ E].
      destruct Hh as [|b r Hb]; constructor. unfold klt in *. cbn [fst snd] in *. rewrite Hk, E. exact Hb.
    + constructor; [exact Hs|]. constructor. unfold klt. cbn [fst snd]. rewrite Hk. exact E.
    + constructor; [apply IH; exact Hr|]. apply upsert_hd; trivial.
      unfold klt. cbn [fst snd]. rewrite Hk, kcmp_antisym, E. reflexivity.
Qed.

Lemma upsert_in name k f n' v' : forall kids, In (n', v') (upsert name k f kids) -> In (n', v') kids \/ exists o, v' = f o.
Proof.
  induction kids as [|[n v] r IH]; cbn [upsert]; intros H.
  - destruct H as [H|[]]. inversion H; subst. right. eexists; reflexivity.
  - destruct (kcmp name k n (kind v)).
    + destruct H as [H|H]; [inversion H; subst; right; eexists; reflexivity|left; right; exact H].
    + destruct H as [H|H]; [inversion H; subst; right; eexists; reflexivity|left; exact H].
    + destruct H as [H|H]; [left; left; exact H|]. apply IH in H as [H|H]; [left; right; exact H|right; exact H].
Qed.

Lemma tsorted_upsert name k f kids :
  (forall o, kind (f o) = k) -> (forall o, vsorted (f o)) -> tsorted kids -> tsorted (upsert name k f kids).
Proof.
  intros Hk Hv Hs. inversion Hs as [? Hso Hin]; subst. constructor.
  - apply upsert_sorted; assumption.
  - intros n v H. apply upsert_in in H as [H|[o ->]]; [eapply Hin; eassumption|apply Hv].
Qed.

Lemma tsorted_nil : tsorted [].
Proof. constructor; [constructor|intros n v []]. Qed.

Lemma lookup_in name k : forall kids v, lookup name k kids = Some v -> exists n, In (n, v) kids.
Proof.
  induction kids as [|[n v0] r IH]; intros v H; cbn [lookup] in H; [discriminate|].
  destruct (kcmp name k n (kind v0)).
  - inversion H; subst. exists n. left. reflexivity.
  - apply IH in H as [n' H]. exists n'. right. exact H.
  - apply IH in H as [n' H]. exists n'. right. exact H.
Qed.

Lemma old_of_sorted name kids : tsorted kids -> tsorted (old_of name kids).
Proof.
  intros Hs. unfold old_of. destruct (lookup name 3 kids) as [v|] eqn:E; [|apply tsorted_nil].
  destruct v; try apply tsorted_nil. apply lookup_in in E as [n E].
  inversion Hs as [? _ Hin]; subst. apply Hin in E. inversion E; subst. assumption.
Qed.

Definition Esorted (E : str -> kidsT -> res (kidsT * str)) : Prop :=
  forall s ks ks' r, tsorted ks -> E s ks = inr (ks', r) -> tsorted ks'.

Lemma body_of_sorted E fuel : Esorted E ->
  forall fu r ks ks' r', tsorted ks -> body_of E fuel fu r ks = inr (ks', r') -> tsorted ks'.
Proof.
  intros HE. induction fu as [|fu IH]; intros r ks ks' r' Hs H; [discriminate|].
  rewrite body_of_S in H. repeat dmatch H; try discriminate.
  - inversion H; subst. exact Hs.
  - eapply IH; [|exact H]. eapply HE; eassumption.
Qed.

Theorem entry_sorted fuel : forall d s kids k' r, tsorted kids -> entry fuel d s kids = inr (k', r) -> tsorted k'.
Proof.
  induction fuel as [|f IH]; intros d s kids k' r Hs H; [discriminate|].
  rewrite entry_S in H. unfold entry_step in H.
  assert (HE : Esorted (entry f (S d))) by (intros s0 ks ks' r0 Hks H0; eapply IH; eassumption).
  repeat dmatch H; try discriminate;
    try (inversion H; subst; exact Hs);
    apply tail_of_inv in H; destruct H as [-> _];
    apply tsorted_upsert; trivial; try (intros; reflexivity); try (intros; constructor).
  eapply (body_of_sorted _ _ HE); [|eassumption]. apply old_of_sorted. exact Hs.
Qed.

Theorem entries_sorted fuel : forall s kids k', tsorted kids -> entries fuel s kids = inr k' -> tsorted k'.
Proof.
  induction fuel as [|f IH]; intros s kids k' Hs H; [discriminate|].
  rewrite entries_S in H. destruct s as [|c s]; [inversion H; subst; exact Hs|].
  destruct (entry (S f) 0 (c :: s) kids) as [e|[k1 r]] eqn:E; [discriminate|].
  eapply IH; [|exact H]. eapply entry_sorted; eassumption.
Qed.

(* on success the child list, and recursively the child list of every object, is strictly sorted by [kcmp] *)
Theorem parse_result_sorted data ks : parse data = inr ks -> tsorted ks.
Proof.
  unfold parse. destruct data as [|c d]; [discriminate|]. cbv zeta. apply entries_sorted. apply tsorted_nil.
Qed.

(* so no two children of one object have the same (case-folded name, kind) *)
Corollary parse_result_keys_unique data ks : parse data = inr ks -> StronglySorted klt ks.
Proof. intros H. apply parse_result_sorted in H. inversion H; subst. apply sorted_strong. assumption. Qed.
