(* C14 (partial: heap ownership is observed with ASan, not modelled).  ONLY statements closed by `exact`, each followed by
   Print Assumptions.  Theorems about totality of the parser are being added; the failed-load clause is decided by an oracle
   independent of the model in the correspondence run. *)
From Coq Require Import List NArith Bool Strings.Byte.
Import ListNotations.
Require Import Conf ConfRT.
Local Open Scope N_scope.

Theorem quoted_string_reads_back_exactly : forall n fuel s rest, nonul s ->
  pstring (S (n + fuel)) (repeat x20 n ++ quote s ++ rest) = Some (inr (s, rest)).
Proof. exact pstring_blanks_quote. Qed.
Print Assumptions quoted_string_reads_back_exactly.
