(* C14 (partial: heap ownership is observed with ASan, not modelled).  ONLY statements closed by `exact`, each followed by
   Print Assumptions.  Conf.parse is the parser model compared with src/config.c on every run. *)
From Coq Require Import List NArith Bool Strings.Byte.
From Coq Require Import Strings.String.
Import ListNotations.
Require Import Conf ConfMerge ConfTotal ConfIdem ConfPrint ConfDepth.
Local Open Scope N_scope.

(* reading ANY byte sequence terminates with success or one of the five error kinds (the fifth, EDeep, is the nesting limit
   below): the fuel the model gives itself is never
   exhausted ... *)
Theorem parsing_is_total : forall data, parse data <> inl EFuel.
Proof. exact parse_total. Qed.
Print Assumptions parsing_is_total.

(* ... and no result is an artefact of the fuel: every larger fuel gives the same answer *)
Theorem result_does_not_depend_on_fuel : forall c d fuel,
  (List.length (cut_nul (c :: d)) < fuel)%nat -> entries fuel (cut_nul (c :: d)) [] = parse (c :: d).
Proof. exact parse_fuel_stable. Qed.
Print Assumptions result_does_not_depend_on_fuel.

(* nothing after the first NUL byte matters; the empty file is an error *)
Theorem bytes_after_nul_are_ignored : forall d junk, parse (d ++ x00 :: junk) = parse (d ++ [x00]).
Proof. exact parse_cut_nul. Qed.
Print Assumptions bytes_after_nul_are_ignored.

Theorem empty_file_is_an_error : parse [] = inl EEof.
Proof. exact parse_empty. Qed.
Print Assumptions empty_file_is_an_error.

(* on success the tree is strictly sorted by (case-folded name, kind) at every level: keys are unique *)
Theorem parsed_tree_is_sorted : forall data ks, parse data = inr ks -> tsorted ks.
Proof. exact parse_result_sorted. Qed.
Print Assumptions parsed_tree_is_sorted.

(* objects may be nested at most max_depth = CONF_MAX_DEPTH = 64 deep.  nestl k = k times "a{"; nest k inner = inner with k
   objects a{ ... } around it.  A text that opens more than max_depth objects inside one another is refused with EDeep at the
   opening brace of object max_depth + 1, whatever follows (so nothing of that object is read or created) ... *)
Theorem deep_nesting_is_rejected : forall k rest, (max_depth < k)%nat -> parse (nestl k ++ rest) = inl EDeep.
Proof. exact ConfDepth.deep_nesting_is_rejected. Qed.
Print Assumptions deep_nesting_is_rejected.

(* ... exactly max_depth objects are accepted (65 are not: ConfDepth.nest_65_is_rejected) ... *)
Theorem nesting_up_to_the_limit_is_accepted :
  parse (nest 64 (S_ "x y;"%string) ++ [SEMI]) = inr (vnest 64 [(S_ "x"%string, VStr (S_ "y"%string))]).
Proof. exact ConfDepth.nesting_up_to_the_limit_is_accepted. Qed.
Print Assumptions nesting_up_to_the_limit_is_accepted.

(* ... and every tree that a successful read returns is at most max_depth objects deep (pdepth: a VObj is one more than its
   deepest child): the recursion of the parser, and of everything that walks its result (merge, clean-up), is bounded *)
Theorem parse_never_recurses_deeper_than_the_limit : forall data t, parse data = inr t -> (pdepth t <= max_depth)%nat.
Proof. exact ConfDepth.parse_never_recurses_deeper_than_the_limit. Qed.
Print Assumptions parse_never_recurses_deeper_than_the_limit.

(* "when it reports an error, the live configuration is exactly what it was before, and no change notification is delivered":
   in ANY state of the live tree (registered values, lists, pairs, present nodes all live in st) a load whose text does not parse
   leaves the state equal, prints the unchanged dump and emits no hook line.  exec is the model compared with src/config.c
   (load + dump + hook log) on every run. *)
Theorem failed_load_changes_nothing : forall st data e,
  parse data = inl e ->
  fst (exec st (CLoad data)) = st /\
  snd (exec st (CLoad data)) = [S_ "LOAD ERR"%string] ++ flat_map (fun nv => dumpl 0 (fst nv) (snd nv)) st ++ [S_ "END"%string] /\
  Forall (fun l => is_hookline l = false) (snd (exec st (CLoad data))).
Proof. exact failed_load_unchanged. Qed.
Print Assumptions failed_load_changes_nothing.

(* the model's limit IS the constant of src/config.h (Params.v is regenerated from the headers on every run) *)
Require Params.
Theorem model_limit_is_the_header_constant : max_depth = Params.CONF_MAX_DEPTH.
Proof. exact (eq_refl 64%nat). Qed.
Print Assumptions model_limit_is_the_header_constant.
