(* C14 (partial: heap ownership is observed with ASan, not modelled).  ONLY statements closed by `exact`, each followed by
   Print Assumptions.  Conf.parse is the parser model compared with src/config.c on every run. *)
From Coq Require Import List NArith Bool Strings.Byte.
From Coq Require Import Strings.String.
Import ListNotations.
Require Import Conf ConfMerge ConfTotal ConfIdem.
Local Open Scope N_scope.

(* reading ANY byte sequence terminates with success or one of the four error kinds: the fuel the model gives itself is never
   exhausted ... *)
Theorem parsing_is_total : forall data, parse data <> inl EFuel.
Proof. exact parse_total. Qed.
Print Assumptions parsing_is_total.

(* ... and no result is an artefact of the fuel: every larger fuel gives the same answer *)
Theorem result_does_not_depend_on_fuel : forall c d fuel,
  (List.length (cut_nul (c :: d)) < fuel)%nat -> entries fuel (cut_nul (c :: d)) [] = parse (c :: d).
Proof. exact parse_fuel_stable. Qed.
Print Assumptions result_does_not_depend_on_fuel.

(* nothing after the first NUL byte matters; the empty file is an error *)
Theorem bytes_after_nul_are_ignored : forall d junk, parse (d ++ x00 :: junk) = parse (d ++ [x00]).
Proof. exact parse_cut_nul. Qed.
Print Assumptions bytes_after_nul_are_ignored.

Theorem empty_file_is_an_error : parse [] = inl EEof.
Proof. exact parse_empty. Qed.
Print Assumptions empty_file_is_an_error.

(* on success the tree is strictly sorted by (case-folded name, kind) at every level: keys are unique *)
Theorem parsed_tree_is_sorted : forall data ks, parse data = inr ks -> tsorted ks.
Proof. exact parse_result_sorted. Qed.
Print Assumptions parsed_tree_is_sorted.

(* "when it reports an error, the live configuration is exactly what it was before, and no change notification is delivered":
   in ANY state of the live tree (registered values, lists, pairs, present nodes all live in st) a load whose text does not parse
   leaves the state equal, prints the unchanged dump and emits no hook line.  exec is the model compared with src/config.c
   (load + dump + hook log) on every run. *)
Theorem failed_load_changes_nothing : forall st data e,
  parse data = inl e ->
  fst (exec st (CLoad data)) = st /\
  snd (exec st (CLoad data)) = [S_ "LOAD ERR"%string] ++ flat_map (fun nv => dumpl 0 (fst nv) (snd nv)) st ++ [S_ "END"%string] /\
  Forall (fun l => is_hookline l = false) (snd (exec st (CLoad data))).
Proof. exact failed_load_unchanged. Qed.
Print Assumptions failed_load_changes_nothing.
