(* C08: arbitrary input cannot derail the daemon; the treatment of well-formed lines is the same whether or not junk
   lines are mixed in, and however the byte stream is cut into read() chunks. *)
From Coq Require Import List NArith ZArith Bool Strings.Byte Strings.String Lia.
Import ListNotations.
Require Import Iauth Line.
Local Open Scope list_scope.

(* ====================================================================================================== *)
(* A1: the argument vector never has more than `slots` (16 in step_line) entries                          *)
(* ====================================================================================================== *)
Theorem toks_bound : forall fuel slots s, (List.length (toks fuel slots s) <= slots)%nat.
Proof.
  induction fuel as [|f IH]; intros slots s; destruct slots as [|k]; cbn [toks List.length]; try lia.
  destruct (skipws s) as [|c r]; cbn [List.length]; [lia|].
  destruct (nb c =? 58)%N; cbn [List.length]; [lia|].
  destruct (Line.word (c :: r)) as [w rest]. cbn [List.length].
  destruct rest as [|x rest']; cbn [List.length]; [lia|].
  specialize (IH k rest'). lia.
Qed.

Corollary argv_bound raw : (List.length (toks (S (List.length (snd (strtol10 (cut_nul (strip_cr raw)))))) 16 (snd (strtol10 (cut_nul (strip_cr raw))))) <= 16)%nat.
Proof. apply toks_bound. Qed.

(* ====================================================================================================== *)
(* A2: junk lines are no-ops                                                                              *)
(* ====================================================================================================== *)

(* the pieces step_line computes from a raw line *)
Definition line_of (raw : str) : str := cut_nul (strip_cr raw).
Definition id_of (raw : str) : Z := fst (strtol10 (line_of raw)).
Definition argv_of (raw : str) : list str :=
  let sep := snd (strtol10 (line_of raw)) in toks (S (List.length sep)) 16 sep.

Lemma step_line_unfold c s raw :
  step_line c s raw =
  match line_of raw with
  | [] => (s, [])
  | _ =>
    match argv_of raw with
    | [] => (s, [])
    | a0 :: _ =>
      let id := id_of raw in let argv := argv_of raw in let ch := cmdchar argv in
      if (id =? -1)%Z && in_set ch (S_ "DdHTu") then (s, garbage ch)
      else if (id =? -1)%Z && in_set ch (S_ "NPn") then (if Nat.ltb 1 (List.length argv) then (s, garbage ch) else (s, []))
      else if (id =? -1)%Z && in_set ch (S_ "U") then (s, garbage ch)
      else if negb (id =? -1)%Z && negb (in_set ch (S_ "C")) && (match lookup id (reqs s) with None => true | Some _ => false end) then (s, [])
      else step c s id argv
    end
  end.
Proof.
  unfold step_line, argv_of, id_of, line_of.
  destruct (cut_nul (strip_cr raw)) as [|b l] eqn:E; [reflexivity|].
  destruct (strtol10 (b :: l)) as [id sep]. cbn [fst snd]. reflexivity.
Qed.

(* ---- membership in a command set ---- *)
Lemma nb_inj a b : nb a = nb b -> a = b.
Proof.
  unfold nb. intros H. pose proof (Byte.of_to_N a) as Ha. pose proof (Byte.of_to_N b) as Hb.
  rewrite H in Ha. rewrite Ha in Hb. inversion Hb. reflexivity.
Qed.

Lemma in_set_In c l : in_set c l = true <-> In c l.
Proof.
  unfold in_set. rewrite existsb_exists. split.
  - intros [x [Hx E]]. apply N.eqb_eq in E. apply nb_inj in E. subst x. exact Hx.
  - intros H. exists c. split; [exact H|apply N.eqb_refl].
Qed.

Lemma in_set_sub c small big : (forall x, In x small -> In x big) -> in_set c big = false -> in_set c small = false.
Proof.
  intros Hs Hb. destruct (in_set c small) eqn:E; [|reflexivity].
  apply in_set_In in E. apply Hs in E. apply in_set_In in E. congruence.
Qed.

Lemma beq_in_set c x l : In x l -> in_set c l = false -> beq c x = false.
Proof.
  intros Hx Hl. destruct (beq c x) eqn:E; [|reflexivity].
  unfold beq in E. apply Byte.byte_dec_bl in E. subst x. apply in_set_In in Hx. congruence.
Qed.

(* the command letters the daemon knows; '?' is reserved and deliberately counted as known *)
Definition cmdset : str := S_ "CDNdPUunHTXx!?".
Definition known_cmd (argv : list str) : bool := in_set (cmdchar argv) cmdset.

(* (b) on the tokenised level: `step` ignores every command letter outside the set, for any id and state *)
Theorem step_unknown_cmd c s id argv : known_cmd argv = false -> step c s id argv = (s, []).
Proof.
  unfold known_cmd. intros H. unfold step. cbv zeta.
  assert (forall x, In x cmdset -> beq (cmdchar argv) x = false) as B by (intros x Hx; eapply beq_in_set; eauto).
  rewrite (B x43), (B x58), (B x78) by (cbn; tauto). cbn [orb].
  destruct (lookup id (reqs s)) as [r|]; [|reflexivity].
  rewrite (B x44), (B x54), (B x21), (B x4e), (B x64), (B x75), (B x6e), (B x55), (B x48), (B x50) by (cbn; tauto).
  reflexivity.
Qed.

(* (a) unknown client *)
Theorem junk_unknown_client c s raw :
  id_of raw <> (-1)%Z -> cmdchar (argv_of raw) <> x43 -> lookup (id_of raw) (reqs s) = None ->
  step_line c s raw = (s, []).
Proof.
  intros Hid Hc Hl. rewrite step_line_unfold.
  destruct (line_of raw); [reflexivity|]. destruct (argv_of raw) as [|a0 rest] eqn:Ea; [reflexivity|]. cbv zeta.
  assert ((id_of raw =? -1)%Z = false) as E by (apply Z.eqb_neq; exact Hid). rewrite E. cbn [andb negb].
  assert (in_set (cmdchar (a0 :: rest)) (S_ "C") = false) as E2.
  { destruct (in_set _ _) eqn:E2; [|reflexivity]. apply in_set_In in E2. change (S_ "C") with [x43] in E2. destruct E2 as [E2|[]]. symmetry in E2. destruct (Hc E2). }
  rewrite E2, Hl. reflexivity.
Qed.

(* (b) unknown command letter *)
Theorem junk_unknown_cmd c s raw : known_cmd (argv_of raw) = false -> step_line c s raw = (s, []).
Proof.
  intros H. rewrite step_line_unfold.
  destruct (line_of raw); [reflexivity|]. destruct (argv_of raw) as [|a0 rest] eqn:Ea; [reflexivity|]. cbv zeta.
  unfold known_cmd in H.
  rewrite (in_set_sub _ (S_ "DdHTu") cmdset), (in_set_sub _ (S_ "NPn") cmdset), (in_set_sub _ (S_ "U") cmdset); try exact H; try (cbn; tauto).
  rewrite !andb_false_r.
  match goal with |- (if ?b then _ else _) = _ => destruct b end; [reflexivity|].
  apply step_unknown_cmd. exact H.
Qed.

(* (c) empty line, blank line, line without a command *)
Theorem junk_empty c s raw : line_of raw = [] -> step_line c s raw = (s, []).
Proof. intros H. rewrite step_line_unfold, H. reflexivity. Qed.

Theorem junk_no_command c s raw : argv_of raw = [] -> step_line c s raw = (s, []).
Proof. intros H. rewrite step_line_unfold, H. destruct (line_of raw); reflexivity. Qed.

Definition blank (s : str) : Prop := Forall (fun b => isspace b = true) s.

Lemma skipws_blank s : blank s -> skipws s = [].
Proof. induction 1 as [|b l Hb Hl IH]; cbn [skipws]; [reflexivity|]. rewrite Hb. exact IH. Qed.

Lemma toks_blank fuel slots s : blank s -> toks fuel slots s = [].
Proof. intros H. destruct fuel, slots; cbn [toks]; try reflexivity. rewrite (skipws_blank s H). reflexivity. Qed.

Lemma strtol10_blank s : blank s -> strtol10 s = (0%Z, s).
Proof. intros H. unfold strtol10, strtol_long. rewrite (skipws_blank s H). reflexivity. Qed.

Theorem junk_blank c s raw : blank (line_of raw) -> step_line c s raw = (s, []).
Proof.
  intros H. apply junk_no_command. unfold argv_of. rewrite (strtol10_blank _ H). cbn [snd]. apply toks_blank. exact H.
Qed.

(* a line holding only a number (and white space) has no command either *)
Theorem junk_only_id c s raw : blank (snd (strtol10 (line_of raw))) -> step_line c s raw = (s, []).
Proof. intros H. apply junk_no_command. unfold argv_of. apply toks_blank. exact H. Qed.

(* ---- all senses of "junk" together; (a) depends on the state the line meets ---- *)
Definition Junk (s : st) (raw : str) : Prop :=
  (id_of raw <> (-1)%Z /\ cmdchar (argv_of raw) <> x43 /\ lookup (id_of raw) (reqs s) = None) \/
  known_cmd (argv_of raw) = false \/
  line_of raw = [] \/ blank (line_of raw) \/ argv_of raw = [].

Theorem junk_noop c s raw : Junk s raw -> step_line c s raw = (s, []).
Proof.
  intros [[H1 [H2 H3]]|[H|[H|[H|H]]]].
  - apply junk_unknown_client; assumption.
  - apply junk_unknown_cmd; assumption.
  - apply junk_empty; assumption.
  - apply junk_blank; assumption.
  - apply junk_no_command; assumption.
Qed.

(* the state-independent part is decidable by looking at the line alone *)
Definition junkb (raw : str) : bool :=
  match line_of raw with [] => true | _ => match argv_of raw with [] => true | _ => negb (known_cmd (argv_of raw)) end end.
Lemma junkb_Junk s raw : junkb raw = true -> Junk s raw.
Proof.
  unfold junkb, Junk. destruct (line_of raw) eqn:E; [tauto|]. destruct (argv_of raw) eqn:E2; [tauto|].
  intros H. apply negb_true_iff in H. tauto.
Qed.

(* ---- whole histories ---- *)
(* run_revs as a recursive function, and the final state *)
Fixpoint run_from (c : cfg) (s : st) (es : list rev) : st * list (list out * nat) :=
  match es with
  | [] => (s, [])
  | e :: es' => let s' := fst (step_rev c s e) in
                let r := run_from c s' es' in (fst r, (snd (step_rev c s e), List.length (reqs s')) :: snd r)
  end.

Lemma fold_run_from c es : forall s acc,
  fold_left (fun acc e => let '(s, outs) := acc in let '(s', o) := step_rev c s e in (s', outs ++ [(o, List.length (reqs s'))])) es (s, acc)
  = (fst (run_from c s es), acc ++ snd (run_from c s es)).
Proof.
  induction es as [|e es IH]; intros s acc; cbn [fold_left run_from fst snd]; [rewrite app_nil_r; reflexivity|].
  destruct (step_rev c s e) as [s' o] eqn:E. cbn [fst snd]. rewrite IH, <- app_assoc. reflexivity.
Qed.

Lemma run_revs_from c s es : run_revs c s es = snd (run_from c s es).
Proof. unfold run_revs. rewrite fold_run_from. reflexivity. Qed.

Definition final (c : cfg) (s : st) (es : list rev) : st := fst (run_from c s es).

(* `mask` marks the events to delete; `thin` deletes them, `picked` keeps only them *)
Fixpoint thin {A} (mask : list bool) (l : list A) : list A :=
  match mask, l with b :: m, x :: t => if b then thin m t else x :: thin m t | _, _ => l end.
Fixpoint picked {A} (mask : list bool) (l : list A) : list A :=
  match mask, l with b :: m, x :: t => if b then x :: picked m t else picked m t | _, _ => [] end.

(* every marked event is a line that is junk for the state it meets in the full history *)
Fixpoint marked_junk (c : cfg) (s : st) (mask : list bool) (es : list rev) : Prop :=
  match mask, es with
  | b :: m, e :: es' =>
    (if b then match e with RLine raw => Junk s raw | RReload _ _ _ => False end else True) /\
    marked_junk c (fst (step_rev c s e)) m es'
  | _, _ => True
  end.

Theorem junk_removable c : forall es mask s, marked_junk c s mask es ->
  final c s (thin mask es) = final c s es /\
  run_revs c s (thin mask es) = thin mask (run_revs c s es) /\
  Forall (fun x => fst x = []) (picked mask (run_revs c s es)).
Proof.
  intros es mask s H. rewrite !run_revs_from. unfold final. revert mask s H.
  induction es as [|e es IH]; intros mask s H.
  { destruct mask as [|b m]; cbn; repeat split; constructor. }
  destruct mask as [|b m]; [cbn [thin picked]; repeat split; constructor|].
  cbn [marked_junk] in H. destruct H as [Hb Hm]. specialize (IH m _ Hm). destruct IH as [I1 [I2 I3]].
  destruct b.
  - destruct e as [raw|]; [|contradiction].
    pose proof (junk_noop c s raw Hb) as J. cbn [step_rev] in *. rewrite J in *. cbn [fst snd] in *.
    cbn [thin picked run_from step_rev]. rewrite J. cbn [fst snd thin picked].
    split; [exact I1|]. split; [exact I2|]. constructor; [reflexivity|exact I3].
  - cbn [thin picked run_from fst snd]. rewrite I1, I2. repeat split. exact I3.
Qed.

(* the state-independent special case: filtering syntactically junk lines out of a history *)
Definition rev_junkb (e : rev) : bool := match e with RLine raw => junkb raw | RReload _ _ _ => false end.

Lemma thin_map_filter {A} (f : A -> bool) (l : list A) : thin (map f l) l = filter (fun x => negb (f x)) l.
Proof. induction l as [|x t IH]; cbn [map thin filter]; [reflexivity|]. destruct (f x); cbn [negb]; rewrite IH; reflexivity. Qed.

Lemma marked_junkb c : forall es s, marked_junk c s (map rev_junkb es) es.
Proof.
  induction es as [|e es IH]; intros s; cbn [map marked_junk]; [exact I|]. split; [|apply IH].
  destruct (rev_junkb e) eqn:E; [|exact I]. destruct e as [raw|]; [|discriminate]. apply junkb_Junk. exact E.
Qed.

Corollary junk_filter c s es :
  final c s (filter (fun e => negb (rev_junkb e)) es) = final c s es /\
  run_revs c s (filter (fun e => negb (rev_junkb e)) es) = thin (map rev_junkb es) (run_revs c s es) /\
  Forall (fun x => fst x = []) (picked (map rev_junkb es) (run_revs c s es)).
Proof. rewrite <- thin_map_filter. apply junk_removable, marked_junkb. Qed.

(* ====================================================================================================== *)
(* A3: line splitting does not depend on how read() chunks the byte stream                                *)
(* ====================================================================================================== *)
(* Model of the accumulating input buffer read with evbuffer_readln(EVBUFFER_EOL_CRLF): a line is the bytes between
   two LFs; the single CR directly before the LF is dropped later, by `strip_cr` in `step_line`. *)
Definition is_lf (b : byte) : bool := (nb b =? 10)%N.

(* complete lines of a byte string, and the pending bytes after the last LF *)
Fixpoint lines_of (s : str) : list str * str :=
  match s with
  | [] => ([], [])
  | c :: r =>
    let (ls, rem) := lines_of r in
    if is_lf c then ([] :: ls, rem)
    else match ls with [] => ([], c :: rem) | l :: ls' => ((c :: l) :: ls', rem) end
  end.

Definition feed (buf : str) (chunk : str) : str * list str :=
  let (ls, rem) := lines_of (buf ++ chunk) in (rem, ls).

(* the read loop: pending bytes and all lines delivered so far *)
Definition feed_step (acc : str * list str) (chunk : str) : str * list str :=
  let (buf', ls) := feed (fst acc) chunk in (buf', snd acc ++ ls).
Definition feed_all (chunks : list str) : str * list str := fold_left feed_step chunks ([], []).

Definition nolf (s : str) : Prop := Forall (fun b => is_lf b = false) s.

Lemma lines_of_nolf s : nolf s -> lines_of s = ([], s).
Proof. induction 1 as [|c r Hc Hr IH]; cbn [lines_of]; [reflexivity|]. rewrite IH, Hc. reflexivity. Qed.

Lemma lines_of_rem_nolf s : nolf (snd (lines_of s)).
Proof.
  induction s as [|c r IH]; cbn [lines_of]; [constructor|].
  destruct (lines_of r) as [ls rem]. cbn [snd] in IH. destruct (is_lf c) eqn:E; [exact IH|].
  destruct ls; cbn [snd]; [constructor; assumption|exact IH].
Qed.

(* the key fact: splitting a ++ b is splitting a, then splitting what was pending followed by b *)
Lemma lines_of_app a b :
  lines_of (a ++ b) = (fst (lines_of a) ++ fst (lines_of (snd (lines_of a) ++ b)), snd (lines_of (snd (lines_of a) ++ b))).
Proof.
  induction a as [|c r IH]; [cbn [app lines_of fst snd]; destruct (lines_of b); reflexivity|].
  change ((c :: r) ++ b) with (c :: (r ++ b)). cbn [lines_of]. rewrite IH. clear IH.
  destruct (lines_of r) as [ls rem]. cbn [fst snd].
  destruct (lines_of (rem ++ b)) as [ls2 rem2] eqn:E2. cbn [fst snd].
  destruct (is_lf c) eqn:Ec.
  - cbn [fst snd app]. rewrite E2. reflexivity.
  - destruct ls as [|l ls']; cbn [fst snd app].
    + change ((c :: rem) ++ b) with (c :: (rem ++ b)). cbn [lines_of]. rewrite E2, Ec. destruct ls2; reflexivity.
    + rewrite E2. reflexivity.
Qed.

Lemma feed_all_gen chunks : forall buf acc, nolf buf ->
  fold_left feed_step chunks (buf, acc) = (snd (lines_of (buf ++ List.concat chunks)), acc ++ fst (lines_of (buf ++ List.concat chunks))).
Proof.
  induction chunks as [|ch chunks IH]; intros buf acc Hb; cbn [fold_left List.concat].
  - rewrite app_nil_r, (lines_of_nolf buf Hb), app_nil_r. reflexivity.
  - unfold feed_step at 2, feed. cbn [fst snd].
    destruct (lines_of (buf ++ ch)) as [ls rem] eqn:E.
    assert (nolf rem) as Hr by (pose proof (lines_of_rem_nolf (buf ++ ch)) as H; rewrite E in H; exact H).
    rewrite (IH rem (acc ++ ls) Hr).
    rewrite (app_assoc buf ch), (lines_of_app (buf ++ ch)), E. cbn [fst snd]. rewrite <- app_assoc. reflexivity.
Qed.

(* the lines delivered, and the bytes left pending, are those of feeding the whole stream at once *)
Theorem chunking chunks : feed_all chunks = feed [] (List.concat chunks).
Proof.
  unfold feed_all. rewrite feed_all_gen by constructor. unfold feed. cbn [app].
  destruct (lines_of (List.concat chunks)); reflexivity.
Qed.

Corollary chunking_lines chunks : snd (feed_all chunks) = snd (feed [] (List.concat chunks)).
Proof. rewrite chunking. reflexivity. Qed.

(* two ways of cutting the same stream deliver the same lines *)
Corollary chunking_indep ch1 ch2 : List.concat ch1 = List.concat ch2 -> feed_all ch1 = feed_all ch2.
Proof. intros H. rewrite !chunking, H. reflexivity. Qed.

(* the lines delivered for a prefix of the stream are a prefix of the lines delivered for the whole stream *)
Theorem prefix_lines p q : exists more, snd (feed [] (p ++ q)) = snd (feed [] p) ++ more.
Proof.
  unfold feed. cbn [app]. rewrite lines_of_app. destruct (lines_of p) as [ls rem]. cbn [fst snd].
  eexists. reflexivity.
Qed.

(* no delivered line contains an LF, nor do the pending bytes *)
Lemma lines_of_lines_nolf s : Forall nolf (fst (lines_of s)).
Proof.
  induction s as [|c r IH]; cbn [lines_of]; [constructor|].
  destruct (lines_of r) as [ls rem]. cbn [fst] in IH. destruct (is_lf c) eqn:E; cbn [fst]; [constructor; [constructor|exact IH]|].
  destruct ls as [|l ls']; cbn [fst]; [constructor|]. inversion IH; subst. constructor; [constructor; assumption|assumption].
Qed.

(* nothing is lost or invented: the lines joined by LF, followed by the pending bytes, are the stream *)
Lemma lines_of_join s : List.concat (map (fun l => l ++ [x0a]) (fst (lines_of s))) ++ snd (lines_of s) = s.
Proof.
  induction s as [|c r IH]; cbn [lines_of]; [reflexivity|].
  destruct (lines_of r) as [ls rem]. cbn [fst snd] in IH. destruct (is_lf c) eqn:E; cbn [fst snd map List.concat app].
  - unfold is_lf in E. apply N.eqb_eq in E. change 10%N with (nb x0a) in E. apply nb_inj in E. subst c. rewrite IH. reflexivity.
  - destruct ls as [|l ls']; cbn [fst snd map List.concat app] in *; rewrite IH; reflexivity.
Qed.

(* the daemon's run over a chunked stream: each delivered line is one RLine event *)
Definition events_of (chunks : list str) : list rev := map RLine (snd (feed_all chunks)).
Corollary run_chunking c s ch1 ch2 : List.concat ch1 = List.concat ch2 -> run_revs c s (events_of ch1) = run_revs c s (events_of ch2).
Proof. intros H. unfold events_of. rewrite (chunking_indep ch1 ch2 H). reflexivity. Qed.
