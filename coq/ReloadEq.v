(* C17: after a successful reload the services queried, and with which protocol, and the class rules are those of the
   new file, exactly as in a freshly started daemon. *)
From Coq Require Import List NArith ZArith Bool Strings.Byte Strings.String Lia Permutation.
Import ListNotations.
Require Import Iauth.
Local Open Scope list_scope.

(* the (name, type) pairs of the CONFIGURED services of a slot vector, in slot order *)
Fixpoint view (ss : list (option svc)) : list (str * stype) :=
  match ss with
  | [] => []
  | Some s :: r => if s_conf s then (s_name s, s_type s) :: view r else view r
  | None :: r => view r
  end.

(* what a configuration file asks for: the entries with a known type, in file order *)
Fixpoint spec (entries : list (str * str)) : list (str * stype) :=
  match entries with
  | [] => []
  | (n, ty) :: r => match type_of_name ty with Some t => (n, t) :: spec r | None => spec r end
  end.

Lemma spec_app a b : spec (a ++ b) = spec a ++ spec b.
Proof. induction a as [|[n ty] a IH]; cbn [spec app]; [reflexivity|]. destruct (type_of_name ty); rewrite IH; reflexivity. Qed.

Lemma spec_names n t entries : In (n, t) (spec entries) -> In n (map fst entries).
Proof.
  induction entries as [|[m ty] r IH]; cbn [spec map fst]; [tauto|].
  destruct (type_of_name ty); cbn [In]; [intros [E|H]; [inversion E; tauto|right; auto]|right; auto].
Qed.

(* ---------- exact name comparison ---------- *)
Lemma seq_eq_eq a : forall b, seq_eq a b = true <-> a = b.
Proof.
  induction a as [|x a IH]; intros [|y b]; cbn [seq_eq]; try (split; [discriminate|discriminate]); [tauto|].
  rewrite andb_true_iff, IH. unfold beq. split.
  - intros [H1 H2]. apply Byte.byte_dec_bl in H1. congruence.
  - intros E. inversion E; subst. split; [apply Byte.byte_dec_lb; reflexivity|reflexivity].
Qed.

Lemma seq_eq_neq a b : a <> b -> seq_eq a b = false.
Proof. intros H. destruct (seq_eq a b) eqn:E; [apply seq_eq_eq in E; contradiction|reflexivity]. Qed.

(* ---------- view of the pieces ---------- *)
Lemma view_app a b : view (a ++ b) = view a ++ view b.
Proof. induction a as [|[s|] a IH]; cbn [view app]; [reflexivity| |exact IH]. destruct (s_conf s); rewrite IH; reflexivity. Qed.

Lemma view_unconf ss : view (map unconf ss) = [].
Proof. induction ss as [|[s|] r IH]; cbn [map unconf view s_conf]; auto. Qed.

Lemma view_unref ss : view (map unref ss) = view ss.
Proof.
  induction ss as [|[s|] r IH]; cbn [map unref view]; [reflexivity| |exact IH].
  destruct (s_conf s) eqn:E; [rewrite orb_true_r; cbn [view]; rewrite E, IH; reflexivity|].
  rewrite orb_false_r. destruct (0 <? s_refs s)%Z; cbn [view]; rewrite ?E; exact IH.
Qed.

Lemma view_In s ss : In (Some s) ss -> s_conf s = true -> In (s_name s, s_type s) (view ss).
Proof.
  induction ss as [|[x|] r IH]; cbn [In view]; [tauto| |].
  - intros [E|H] Hc; [inversion E; subst; rewrite Hc; left; reflexivity|]. destruct (s_conf x); [right|]; auto.
  - intros [E|H] Hc; [discriminate|auto].
Qed.

Lemma find_name_In ss n : find_name ss n = true -> exists s, In (Some s) ss /\ s_name s = n.
Proof.
  induction ss as [|[x|] r IH]; cbn [find_name]; [discriminate| |].
  - intros H. apply orb_true_iff in H as [H|H].
    + apply seq_eq_eq in H. exists x. split; [left; reflexivity|exact H].
    + destruct (IH H) as [s [H1 H2]]. exists s. split; [right; exact H1|exact H2].
  - intros H. destruct (IH H) as [s [H1 H2]]. exists s. split; [right; exact H1|exact H2].
Qed.

(* inserting a new unconfigured entry *)
Definition newsvc (n : str) : svc := {| s_name := n; s_type := Login; s_conf := false; s_refs := 0%Z |}.

Lemma view_fill ss n : view (fill_empty ss (newsvc n)) = view ss.
Proof. induction ss as [|[x|] r IH]; cbn [fill_empty view newsvc s_conf]; [reflexivity| |reflexivity]. rewrite IH. reflexivity. Qed.

Lemma find_fill ss n : has_empty ss = true -> find_name (fill_empty ss (newsvc n)) n = true.
Proof.
  induction ss as [|[x|] r IH]; cbn [has_empty fill_empty find_name newsvc s_name]; [discriminate| |].
  - intros H. rewrite (IH H). apply orb_true_r.
  - intros _. rewrite (proj2 (seq_eq_eq n n) eq_refl). reflexivity.
Qed.

Lemma find_app ss x n : find_name (ss ++ [Some x]) n = find_name ss n || seq_eq (s_name x) n.
Proof.
  induction ss as [|[y|] r IH]; cbn [app find_name]; [rewrite orb_false_r; reflexivity| |exact IH].
  rewrite IH, orb_assoc. reflexivity.
Qed.

Lemma In_fill ss n s : In (Some s) (fill_empty ss (newsvc n)) -> In (Some s) ss \/ s = newsvc n.
Proof.
  induction ss as [|[x|] r IH]; cbn [fill_empty In]; [tauto| |].
  - intros [E|H]; [left; left; exact E|]. destruct (IH H); [left; right; assumption|right; assumption].
  - intros [E|H]; [right; inversion E; reflexivity|left; right; exact H].
Qed.

(* the slot vector after the insertion step of config_service *)
Definition ensure (ss : list (option svc)) (name : str) : list (option svc) :=
  if find_name ss name then ss
  else if (free_index ss <? max_slots)%nat then (if has_empty ss then fill_empty ss (newsvc name) else ss ++ [Some (newsvc name)])
  else ss.

Lemma config_service_ensure ss name ty : config_service ss name ty = retype (ensure ss name) name (type_of_name ty).
Proof. reflexivity. Qed.

Lemma ensure_view ss n : view (ensure ss n) = view ss.
Proof.
  unfold ensure. destruct (find_name ss n); [reflexivity|]. destruct (free_index ss <? max_slots)%nat; [|reflexivity].
  destruct (has_empty ss); [apply view_fill|].
  rewrite view_app. cbn [view newsvc s_conf]. apply app_nil_r.
Qed.

(* D27: the name is there afterwards only if there was room for it (a slot of index < 32) *)
Lemma ensure_find ss n : (free_index ss < max_slots)%nat -> find_name (ensure ss n) n = true.
Proof.
  intros Hcap. apply Nat.ltb_lt in Hcap.
  unfold ensure. destruct (find_name ss n) eqn:E; [exact E|]. rewrite Hcap. destruct (has_empty ss) eqn:E2; [apply find_fill; exact E2|].
  rewrite find_app. cbn [newsvc s_name]. rewrite (proj2 (seq_eq_eq n n) eq_refl). apply orb_true_r.
Qed.

Lemma ensure_In ss n s : In (Some s) (ensure ss n) -> In (Some s) ss \/ s = newsvc n.
Proof.
  unfold ensure. destruct (find_name ss n); [tauto|]. destruct (free_index ss <? max_slots)%nat; [|tauto].
  destruct (has_empty ss); [apply In_fill|].
  intros H. apply in_app_or in H as [H|[H|[]]]; [tauto|right; inversion H; reflexivity].
Qed.

(* ---------- retype ---------- *)
(* (re)typing a name all of whose entries are unconfigured adds exactly (name, t) to the view, or nothing *)
Lemma retype_view_some ss n t :
  (forall s, In (Some s) ss -> s_name s = n -> s_conf s = false) -> find_name ss n = true ->
  Permutation (view (retype ss n (Some t))) ((n, t) :: view ss).
Proof.
  induction ss as [|[x|] r IH]; cbn [find_name retype view]; intros Hu Hf; [discriminate| |].
  - destruct (seq_eq (s_name x) n) eqn:E.
    + apply seq_eq_eq in E. cbn [view set_type s_conf s_name s_type].
      rewrite (Hu x (or_introl eq_refl) E), E. apply Permutation_refl.
    + cbn [orb] in Hf. cbn [view]. assert (Permutation (view (retype r n (Some t))) ((n, t) :: view r)) as P.
      { apply IH; [|exact Hf]. intros s Hs. apply Hu. right; exact Hs. }
      destruct (s_conf x); [|exact P].
      eapply Permutation_trans; [apply perm_skip; exact P|apply perm_swap].
  - apply IH; [|exact Hf]. intros s Hs. apply Hu. right; exact Hs.
Qed.

Lemma retype_view_none ss n :
  (forall s, In (Some s) ss -> s_name s = n -> s_conf s = false) -> view (retype ss n None) = view ss.
Proof.
  induction ss as [|[x|] r IH]; cbn [retype view]; intros Hu; [reflexivity| |].
  - destruct (seq_eq (s_name x) n) eqn:E.
    + apply seq_eq_eq in E. cbn [view set_type s_conf]. rewrite (Hu x (or_introl eq_refl) E). reflexivity.
    + cbn [view]. rewrite IH; [reflexivity|]. intros s Hs. apply Hu. right; exact Hs.
  - apply IH. intros s Hs. apply Hu. right; exact Hs.
Qed.

(* one configuration entry whose name does not occur among the configured services yet *)
Lemma config_service_view ss n ty :
  (free_index ss < max_slots)%nat ->
  ~ In n (map fst (view ss)) ->
  Permutation (view (config_service ss n ty)) (view ss ++ spec [(n, ty)]).
Proof.
  intros Hcap Hn. rewrite config_service_ensure.
  assert (forall s, In (Some s) (ensure ss n) -> s_name s = n -> s_conf s = false) as Hu.
  { intros s Hs Hname. destruct (ensure_In _ _ _ Hs) as [H|H]; [|subst s; reflexivity].
    destruct (s_conf s) eqn:E; [|reflexivity]. exfalso. apply Hn.
    pose proof (in_map fst _ _ (view_In s ss H E)) as Hin. cbn [fst] in Hin. rewrite <- Hname. exact Hin. }
  cbn [spec]. destruct (type_of_name ty) as [t|].
  - eapply Permutation_trans; [apply retype_view_some; [exact Hu|apply ensure_find; exact Hcap]|].
    rewrite ensure_view. apply Permutation_cons_append.
  - rewrite retype_view_none by exact Hu. rewrite ensure_view, app_nil_r. apply Permutation_refl.
Qed.

(* ---------- capacity (D27): at most max_slots = 32 slots ---------- *)
Lemma free_index_le ss : (free_index ss <= List.length ss)%nat.
Proof. induction ss as [|[x|] r IH]; cbn [free_index List.length]; lia. Qed.

Lemma free_index_full ss : has_empty ss = false -> free_index ss = List.length ss.
Proof. induction ss as [|[x|] r IH]; cbn [has_empty free_index List.length]; intros H; [reflexivity| |discriminate]. rewrite (IH H). reflexivity. Qed.

Lemma free_index_hole ss : has_empty ss = true -> (free_index ss < List.length ss)%nat.
Proof. induction ss as [|[x|] r IH]; cbn [has_empty free_index List.length]; intros H; [discriminate| |lia]. specialize (IH H). lia. Qed.

Lemma fill_empty_length ss x : List.length (fill_empty ss x) = List.length ss.
Proof. induction ss as [|[y|] r IH]; cbn [fill_empty List.length]; [reflexivity| |reflexivity]. rewrite IH. reflexivity. Qed.

Lemma retype_length ss n ty : List.length (retype ss n ty) = List.length ss.
Proof.
  induction ss as [|[y|] r IH]; cbn [retype List.length]; [reflexivity| |rewrite IH; reflexivity].
  destruct (seq_eq (s_name y) n); cbn [List.length]; [reflexivity|rewrite IH; reflexivity].
Qed.

Lemma ensure_length_le ss n : (List.length (ensure ss n) <= S (List.length ss))%nat.
Proof.
  unfold ensure. destruct (find_name ss n); [lia|]. destruct (free_index ss <? max_slots)%nat; [|lia].
  destruct (has_empty ss); [rewrite fill_empty_length; lia|]. rewrite app_length. cbn [List.length]. lia.
Qed.

(* one entry takes at most one new slot, and never shrinks the vector *)
Lemma config_service_length_le ss n ty : (List.length (config_service ss n ty) <= S (List.length ss))%nat.
Proof. rewrite config_service_ensure, retype_length. apply ensure_length_le. Qed.

Lemma config_service_length_ge ss n ty : (List.length ss <= List.length (config_service ss n ty))%nat.
Proof.
  rewrite config_service_ensure, retype_length. unfold ensure. destruct (find_name ss n); [lia|].
  destruct (free_index ss <? max_slots)%nat; [|lia].
  destruct (has_empty ss); [rewrite fill_empty_length; lia|]. rewrite app_length. lia.
Qed.

Lemma NoDup_app_l {A} (a b : list A) : NoDup (a ++ b) -> NoDup a.
Proof. induction a as [|x a IH]; cbn [app]; intros H; [constructor|]. inversion H; subst. constructor; [intros Hx; apply H2; apply in_or_app; left; exact Hx|apply IH; assumption]. Qed.

Definition cfg_fold (entries : list (str * str)) (ss : list (option svc)) : list (option svc) :=
  fold_left (fun acc e => config_service acc (fst e) (snd e)) entries ss.

Lemma cfg_fold_view : forall entries done ss,
  (List.length ss + List.length entries <= max_slots)%nat ->
  NoDup (map fst (done ++ entries)) -> Permutation (view ss) (spec done) ->
  Permutation (view (cfg_fold entries ss)) (spec (done ++ entries)).
Proof.
  induction entries as [|[n ty] entries IH]; intros done ss Hcap Hnd Hp; cbn [cfg_fold fold_left].
  - rewrite app_nil_r. exact Hp.
  - change (fold_left _ entries ?x) with (cfg_fold entries x). cbn [fst snd].
    replace (done ++ (n, ty) :: entries) with ((done ++ [(n, ty)]) ++ entries) in * by (rewrite <- app_assoc; reflexivity).
    cbn [List.length] in Hcap.
    apply IH; [pose proof (config_service_length_le ss n ty); lia|exact Hnd|].
    rewrite spec_app. eapply Permutation_trans; [apply config_service_view|apply Permutation_app_tail; exact Hp].
    { pose proof (free_index_le ss). lia. }
    intros Hin. apply in_map_iff in Hin as [[m t] [E Hin]]. cbn [fst] in E. subst m.
    apply (Permutation_in _ Hp) in Hin. apply spec_names in Hin.
    rewrite !map_app in Hnd. apply NoDup_app_l in Hnd. cbn [map fst] in Hnd.
    apply NoDup_remove_2 in Hnd. rewrite app_nil_r in Hnd. contradiction.
Qed.

(* the services a reload leaves configured are exactly those the file asks for, whatever the old slot vector was,
   PROVIDED there is room: every entry may need one more slot and slots of index >= 32 are refused (D27) *)
Theorem reload_view ss entries :
  (List.length ss + List.length entries <= max_slots)%nat ->
  NoDup (map fst entries) -> Permutation (view (services_changed ss entries)) (spec entries).
Proof.
  intros Hcap Hnd. unfold services_changed. rewrite view_unref.
  apply (cfg_fold_view entries [] (map unconf ss)); [rewrite map_length; exact Hcap|exact Hnd|]. rewrite view_unconf. apply Permutation_refl.
Qed.

Theorem reload_equiv_fresh ss entries :
  (List.length ss + List.length entries <= max_slots)%nat ->
  NoDup (map fst entries) ->
  Permutation (view (services_changed ss entries)) (view (services_changed [] entries)).
Proof.
  intros Hcap Hnd. eapply Permutation_trans; [apply reload_view; assumption|apply Permutation_sym, reload_view; [cbn [List.length]; lia|exact Hnd]].
Qed.

(* ---------- the freshly started daemon: slot order is file order ---------- *)
Lemma retype_app_new ss n ty : find_name ss n = false ->
  retype (ss ++ [Some (newsvc n)]) n ty = ss ++ [Some (set_type (newsvc n) ty)].
Proof.
  induction ss as [|[x|] r IH]; cbn [find_name app retype newsvc s_name]; intros H.
  - rewrite (proj2 (seq_eq_eq n n) eq_refl). reflexivity.
  - apply orb_false_iff in H as [H1 H2]. rewrite H1, (IH H2). reflexivity.
  - rewrite (IH H). reflexivity.
Qed.

Lemma has_empty_app ss x : has_empty (ss ++ [Some x]) = has_empty ss.
Proof. induction ss as [|[y|] r IH]; cbn [app has_empty]; auto. Qed.

Lemma fresh_fold : forall entries done ss,
  (List.length ss + List.length entries <= max_slots)%nat ->
  NoDup (map fst (done ++ entries)) -> has_empty ss = false ->
  (forall s, In (Some s) ss -> In (s_name s) (map fst done)) -> view ss = spec done ->
  view (cfg_fold entries ss) = spec (done ++ entries).
Proof.
  induction entries as [|[n ty] entries IH]; intros done ss Hcap Hnd He Hn Hv; cbn [cfg_fold fold_left].
  - rewrite app_nil_r. exact Hv.
  - change (fold_left _ entries ?x) with (cfg_fold entries x). cbn [fst snd].
    assert (~ In n (map fst done)) as Hnew.
    { rewrite map_app in Hnd. cbn [map fst] in Hnd. apply NoDup_remove_2 in Hnd. intros H. apply Hnd. apply in_or_app. left; exact H. }
    assert (find_name ss n = false) as Hf.
    { destruct (find_name ss n) eqn:E; [|reflexivity]. apply find_name_In in E as [s [H1 H2]]. apply Hn in H1. rewrite H2 in H1. contradiction. }
    assert (config_service ss n ty = ss ++ [Some (set_type (newsvc n) (type_of_name ty))]) as Ec.
    { cbn [List.length] in Hcap. assert ((free_index ss <? max_slots)%nat = true) as Hc by (apply Nat.ltb_lt; rewrite (free_index_full ss He); lia).
      unfold config_service. rewrite Hf, Hc, He. apply retype_app_new. exact Hf. }
    rewrite Ec.
    replace (done ++ (n, ty) :: entries) with ((done ++ [(n, ty)]) ++ entries) in * by (rewrite <- app_assoc; reflexivity).
    apply IH; [rewrite app_length; cbn [List.length] in *; lia|exact Hnd|rewrite has_empty_app; exact He| |].
    + intros s Hs. rewrite map_app. apply in_or_app. apply in_app_or in Hs as [Hs|[Hs|[]]]; [left; apply Hn; exact Hs|].
      right. inversion Hs. cbn [map fst]. left. destruct (type_of_name ty); reflexivity.
    + rewrite view_app, spec_app, Hv. f_equal. cbn [spec view]. destruct (type_of_name ty); reflexivity.
Qed.

Theorem fresh_view entries : (List.length entries <= max_slots)%nat ->
  NoDup (map fst entries) -> view (services_changed [] entries) = spec entries.
Proof.
  intros Hcap Hnd. unfold services_changed. rewrite view_unref. cbn [map].
  apply (fresh_fold entries [] []); [exact Hcap|exact Hnd|reflexivity|intros s []|reflexivity].
Qed.

(* `spec` written as the comprehension [(n, t) | (n, ty) in entries, type_of_name ty = Some t] *)
Lemma spec_flat_map entries :
  spec entries = flat_map (fun e => match type_of_name (snd e) with Some t => [(fst e, t)] | None => [] end) entries.
Proof. induction entries as [|[n ty] r IH]; cbn [spec flat_map fst snd]; [reflexivity|]. destruct (type_of_name ty); rewrite IH; reflexivity. Qed.

(* ---------- forgetting refilled slots (D30, repaired) ---------- *)
(* `forget` changes the three masks sent / more / okm and nothing else *)
Lemma forget_fields idx r :
  cid (forget idx r) = cid r /\ ser (forget idx r) = ser r /\ addr (forget idx r) = addr r /\ port (forget idx r) = port r /\
  raddr (forget idx r) = raddr r /\
  f_host (forget idx r) = f_host r /\ f_ident (forget idx r) = f_ident r /\ f_nick (forget idx r) = f_nick r /\
  f_user (forget idx r) = f_user r /\ f_pass (forget idx r) = f_pass r /\ f_empty (forget idx r) = f_empty r /\
  f_tout (forget idx r) = f_tout r /\ f_sdone (forget idx r) = f_sdone r /\
  holds (forget idx r) = holds r /\ soft (forget idx r) = soft r /\
  host (forget idx r) = host r /\ cliu (forget idx r) = cliu r /\ authu (forget idx r) = authu r /\ nick (forget idx r) = nick r /\
  real (forget idx r) = real r /\ acct (forget idx r) = acct r /\
  hh (forget idx r) = hh r /\ ho (forget idx r) = ho r /\ refm (forget idx r) = refm r /\ pw (forget idx r) = pw r /\
  timer (forget idx r) = timer r.
Proof. repeat split. Qed.

Lemma forget_nil r : forget [] r = r.
Proof. destruct r; reflexivity. Qed.

Lemma forget_cid idx r : cid (forget idx r) = cid r.
Proof. reflexivity. Qed.

Lemma map_cid_forget idx rs : map cid (map (forget idx) rs) = map cid rs.
Proof. rewrite map_map. apply map_ext. intros r. reflexivity. Qed.

Lemma lookup_map_forget idx id rs : lookup id (map (forget idx) rs) = option_map (forget idx) (lookup id rs).
Proof.
  induction rs as [|r rs IH]; cbn [map lookup option_map]; [reflexivity|].
  rewrite forget_cid. destruct (cid r =? id)%Z; [reflexivity|exact IH].
Qed.

Lemma lookup_map_forget_none idx id rs : lookup id rs = None -> lookup id (map (forget idx) rs) = None.
Proof. intros H. rewrite lookup_map_forget, H. reflexivity. Qed.

(* the bits of a mask after clearing a list of indices *)
Lemma clear_all_bit idx : forall m i, N.testbit (fold_left N.clearbit idx m) i = N.testbit m i && negb (existsb (N.eqb i) idx).
Proof.
  induction idx as [|j idx IH]; intros m i; cbn [fold_left existsb]; [rewrite andb_true_r; reflexivity|].
  rewrite IH. destruct (N.eqb_spec i j) as [->|Hn].
  - rewrite N.clearbit_eq. cbn [orb negb]. rewrite andb_false_r. reflexivity.
  - rewrite N.clearbit_neq by (intro E; apply Hn; symmetry; exact E). reflexivity.
Qed.

Lemma existsb_eqb_in i idx : existsb (N.eqb i) idx = true <-> In i idx.
Proof.
  rewrite existsb_exists. split.
  - intros (x & Hx & E). apply N.eqb_eq in E. subst. exact Hx.
  - intros H. exists i. split; [exact H|apply N.eqb_refl].
Qed.

Lemma clear_all_in idx m i : In i idx -> N.testbit (fold_left N.clearbit idx m) i = false.
Proof. intros H. rewrite clear_all_bit. apply existsb_eqb_in in H. rewrite H. apply andb_false_r. Qed.

Lemma clear_all_notin idx m i : ~ In i idx -> N.testbit (fold_left N.clearbit idx m) i = N.testbit m i.
Proof.
  intros H. rewrite clear_all_bit. destruct (existsb (N.eqb i) idx) eqn:E; [apply existsb_eqb_in in E; contradiction|]. apply andb_true_r.
Qed.

(* the indices of `refilled old new i0`: positions (counted from i0) where old is empty and new is occupied *)
Lemma refilled_in : forall old new i0 i,
  In i (refilled old new i0) <->
  exists k, i = (i0 + N.of_nat k)%N /\ nth_error old k = Some None /\ exists s, nth_error new k = Some (Some s).
Proof.
  induction old as [|o old IH]; intros new i0 i.
  - cbn [refilled]. split; [intros []|]. intros (k & _ & H & _). destruct k; discriminate.
  - destruct new as [|n new].
    + assert (refilled (o :: old) [] i0 = []) as -> by (destruct o; reflexivity).
      split; [intros []|]. intros (k & _ & _ & s & H). destruct k; discriminate.
    + assert (forall i, In i (refilled old new (i0 + 1)) <->
              exists k, i = (i0 + N.of_nat (S k))%N /\ nth_error (o :: old) (S k) = Some None /\ exists s, nth_error (n :: new) (S k) = Some (Some s)) as T.
      { intros j. rewrite IH. split; intros (k & E & H); exists k; (split; [lia|exact H]). }
      assert (In i (refilled (o :: old) (n :: new) i0) <->
              (o = None /\ (exists s, n = Some s) /\ i = i0) \/ In i (refilled old new (i0 + 1))) as U.
      { destruct o as [so|], n as [sn|]; cbn [refilled In]; split; intros H.
        - right; exact H.
        - destruct H as [(E & _)|H]; [discriminate|exact H].
        - right; exact H.
        - destruct H as [(E & _)|H]; [discriminate|exact H].
        - destruct H as [H|H]; [left; repeat split; [exists sn; reflexivity|symmetry; exact H]|right; exact H].
        - destruct H as [(_ & _ & E)|H]; [left; symmetry; exact E|right; exact H].
        - right; exact H.
        - destruct H as [(_ & (s & E) & _)|H]; [discriminate|exact H]. }
      rewrite U, T. split.
      * intros [(Eo & (s & En) & Ei)|(k & E & H)].
        -- exists O. subst. cbn [nth_error]. split; [lia|]. split; [reflexivity|]. exists s. reflexivity.
        -- exists (S k). split; [exact E|exact H].
      * intros ([|k] & E & Ho & s & Hn).
        -- left. cbn [nth_error] in Ho, Hn. inversion Ho. inversion Hn. subst. split; [reflexivity|]. split; [exists s; reflexivity|lia].
        -- right. exists k. split; [exact E|]. split; [exact Ho|]. exists s. exact Hn.
Qed.

(* a refilled slot was EMPTY before: a request awaiting an answer from a slot (a set bit of refm points at an occupied
   slot with a positive reference count) never loses anything about that slot *)
Lemma refilled_was_empty old new i : In i (refilled old new 0) -> nth_error old (N.to_nat i) = Some None.
Proof.
  intros H. apply refilled_in in H as (k & E & Ho & _). subst i. cbn [N.add]. rewrite Nat2N.id. exact Ho.
Qed.

(* ---------- Reload replaces both tables; the serial counter is untouched, and the pending requests forget the slots
   that the reload gave to a new occupant (nothing else about them changes) ---------- *)
Theorem reload_tables c s svs rs t :
  let s' := fst (step_ev c s (Reload svs rs t)) in
  rules (tb s') = rs /\ slots (tb s') = services_changed (slots (tb s)) svs /\
  reqs s' = map (forget (refilled (slots (tb s)) (services_changed (slots (tb s)) svs) 0)) (reqs s) /\
  next s' = next s /\ tmo s' = t /\
  snd (step_ev c s (Reload svs rs t)) = [].
Proof. cbn [step_ev fst snd rules slots tb reqs next tmo]. repeat split. Qed.

Corollary reload_like_fresh c s svs rs t : (List.length (slots (tb s)) + List.length svs <= max_slots)%nat -> NoDup (map fst svs) ->
  let s' := fst (step_ev c s (Reload svs rs t)) in let s0 := init c svs rs t in
  rules (tb s') = rules (tb s0) /\ Permutation (view (slots (tb s'))) (view (slots (tb s0))) /\ view (slots (tb s0)) = spec svs.
Proof. intros Hcap Hnd. cbn. split; [reflexivity|]. split; [apply reload_equiv_fresh; assumption|apply fresh_view; [lia|exact Hnd]]. Qed.

(* ---------- queries depend on the slot vector only through the configured (slot, name, type) triples ---------- *)
Fixpoint triples (ss : list (option svc)) (slot : N) : list (N * str * stype) :=
  match ss with
  | [] => []
  | Some s :: r => if s_conf s then (slot, s_name s, s_type s) :: triples r (slot + 1) else triples r (slot + 1)
  | None :: r => triples r (slot + 1)
  end.

Fixpoint qpass_t (tr : list (N * str * stype)) (is_pw : bool) (r : req) (outs : list out) (efs : list eff) : req * list out * list eff :=
  match tr with
  | [] => (r, outs, efs)
  | (slot, n, t) :: rest =>
    if skip_query t slot is_pw r then qpass_t rest is_pw r outs efs
    else qpass_t rest is_pw (queried r slot) (outs ++ query_lines n t r) (efs ++ [(slot, 1%Z)])
  end.

Lemma qpass_triples ss : forall slot is_pw r outs efs, qpass ss slot is_pw r outs efs = qpass_t (triples ss slot) is_pw r outs efs.
Proof.
  induction ss as [|[s|] rest IH]; intros slot is_pw r outs efs; cbn [qpass triples]; [reflexivity| |apply IH].
  destruct (s_conf s); cbn [negb orb qpass_t]; [|apply IH].
  destruct (skip_query (s_type s) slot is_pw r); apply IH.
Qed.

Fixpoint cont_t (tr : list (N * str * stype)) (t : str) (r : req) (outs : list out) (efs : list eff) : req * list out * list eff :=
  match tr with
  | [] => (r, outs, efs)
  | (slot, n, _) :: rest =>
    if N.testbit (more r) slot then cont_t rest t (continued r slot) (outs ++ [xline n r (S_ "MORE " ++ t)]) (efs ++ [(slot, 1%Z)])
    else cont_t rest t r outs efs
  end.

Lemma cont_triples ss : forall slot t r outs efs, cont ss slot t r outs efs = cont_t (triples ss slot) t r outs efs.
Proof.
  induction ss as [|[s|] rest IH]; intros slot t r outs efs; cbn [cont triples]; [reflexivity| |apply IH].
  destruct (s_conf s); rewrite ?andb_true_r, ?andb_false_r; cbn [cont_t]; [|apply IH].
  destruct (N.testbit (more r) slot); apply IH.
Qed.

(* forgetting everything but the configured entries: unconfigured (stale) entries become empty slots *)
Definition scrub1 (o : option svc) : option svc := match o with Some s => if s_conf s then o else None | None => None end.
Definition scrub (ss : list (option svc)) : list (option svc) := map scrub1 ss.

Lemma triples_scrub ss : forall slot, triples (scrub ss) slot = triples ss slot.
Proof.
  induction ss as [|[s|] rest IH]; intros slot; cbn [scrub map scrub1 triples]; [reflexivity| |apply IH].
  destruct (s_conf s) eqn:E; cbn [triples]; rewrite ?E; fold (scrub rest); rewrite IH; reflexivity.
Qed.

Lemma view_triples ss : forall slot, map (fun x => (snd (fst x), snd x)) (triples ss slot) = view ss.
Proof.
  induction ss as [|[s|] rest IH]; intros slot; cbn [triples view]; [reflexivity| |apply IH].
  destruct (s_conf s); cbn [map fst snd]; rewrite IH; reflexivity.
Qed.

Theorem qpass_configured_only ss slot is_pw r outs efs :
  qpass (scrub ss) slot is_pw r outs efs = qpass ss slot is_pw r outs efs.
Proof. rewrite !qpass_triples, triples_scrub. reflexivity. Qed.

Theorem qpass_same_triples ss ss' slot is_pw r outs efs :
  triples ss slot = triples ss' slot -> qpass ss slot is_pw r outs efs = qpass ss' slot is_pw r outs efs.
Proof. intros H. rewrite !qpass_triples, H. reflexivity. Qed.

Theorem cont_configured_only ss slot t r outs efs : cont (scrub ss) slot t r outs efs = cont ss slot t r outs efs.
Proof. rewrite !cont_triples, triples_scrub. reflexivity. Qed.

Theorem cont_same_triples ss ss' slot t r outs efs :
  triples ss slot = triples ss' slot -> cont ss slot t r outs efs = cont ss' slot t r outs efs.
Proof. intros H. rewrite !cont_triples, H. reflexivity. Qed.

(* a reply is routed by the mask of awaited slots; if only configured slots are awaited, stale entries play no part *)
Theorem find_slot_configured_only ss : forall slot name mask,
  (forall i s, nth_error ss i = Some (Some s) -> s_conf s = false -> N.testbit mask (slot + N.of_nat i) = false) ->
  find_slot (scrub ss) slot name mask = find_slot ss slot name mask.
Proof.
  induction ss as [|[s|] rest IH]; intros slot name mask H; cbn [scrub map scrub1 find_slot]; [reflexivity| |].
  - assert (find_slot (scrub rest) (slot + 1) name mask = find_slot rest (slot + 1) name mask) as R.
    { apply IH. intros i x Hi Hx. specialize (H (S i) x Hi Hx). rewrite Nat2N.inj_succ in H.
      replace (slot + 1 + N.of_nat i)%N with (slot + N.succ (N.of_nat i))%N by lia. exact H. }
    destruct (s_conf s) eqn:E; cbn [find_slot]; fold (scrub rest); rewrite R; [reflexivity|].
    specialize (H 0%nat s eq_refl E). cbn [N.of_nat] in H. rewrite N.add_0_r in H. rewrite H. reflexivity.
  - apply IH. intros i x Hi Hx. specialize (H (S i) x Hi Hx). rewrite Nat2N.inj_succ in H.
    replace (slot + 1 + N.of_nat i)%N with (slot + N.succ (N.of_nat i))%N by lia. exact H.
Qed.

(* a client announced after the reload: its first query pass is that of the configured triples of the new table *)
Corollary announced_after_reload c s svs rs t is_pw r :
  let s' := fst (step_ev c s (Reload svs rs t)) in
  qpass (slots (tb s')) 0 is_pw r [] [] = qpass_t (triples (services_changed (slots (tb s)) svs) 0) is_pw r [] [].
Proof. cbn. apply qpass_triples. Qed.
