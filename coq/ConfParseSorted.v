(* The parser returns sorted trees: upsert keeps the child lists strictly sorted by kcmp, at every level. *)
From Coq Require Import List NArith ZArith Bool Strings.Byte Lia.
Import ListNotations.
Require Import Conf ConfMerge ConfOrder ConfBase ConfIdem ConfSorted ConfWalk.
Local Open Scope N_scope.

Lemma upsert_sorted n k f kids :
  (forall o, kind (f o) = k) -> ksorted (map vkey kids) -> ksorted (map vkey (upsert n k f kids)).
Proof.
  intros Hf. induction kids as [|[m v] r IH]; cbn [upsert map ksorted].
  - intros _. split; [constructor|exact I].
  - intros [H1 H2]. destruct (kcmp n k m (kind v)) eqn:E; cbn [map ksorted].
    + split; [|exact H2]. unfold vkey at 1. cbn [fst snd]. rewrite Hf. apply kcmp_eq in E as [_ ->]. exact H1.
    + split; [|split; assumption]. unfold vkey at 1. cbn [fst snd]. rewrite Hf.
      constructor; [exact E|]. eapply all_gt_trans; [|exact H1]. exact E.
    + split; [|apply IH; exact H2].
      clear IH. induction r as [|[m2 v2] r IHr]; cbn [upsert map].
      * constructor; [|constructor]. unfold kc, vkey. cbn [fst snd]. rewrite Hf. apply kcmp_lt_gt. exact E.
      * inversion H1; subst. cbn [ksorted] in H2. destruct H2 as [H2a H2b].
        destruct (kcmp n k m2 (kind v2)) eqn:E2; cbn [map].
        -- constructor; [|assumption]. unfold kc, vkey in *. cbn [fst snd] in *. rewrite Hf. apply kcmp_eq in E2 as [_ ->]. assumption.
        -- constructor; [|constructor; assumption]. unfold kc, vkey. cbn [fst snd]. rewrite Hf. apply kcmp_lt_gt. exact E.
        -- constructor; [assumption|]. apply IHr; assumption.
Qed.

Lemma upsert_Forall (Q : val -> Prop) n k f kids :
  (forall o, Q (f o)) -> Forall (fun nv => Q (snd nv)) kids -> Forall (fun nv => Q (snd nv)) (upsert n k f kids).
Proof.
  intros Hf. induction 1 as [|[m v] r H1 H2 IH]; cbn [upsert].
  - constructor; [apply Hf|constructor].
  - destruct (kcmp n k m (kind v)).
    + constructor; [apply Hf|exact H2].
    + constructor; [apply Hf|constructor; assumption].
    + constructor; [exact H1|exact IH].
Qed.

Lemma upsert_vsorted n k v kids : kind v = k -> vsorted v -> vsorted_kids kids -> vsorted_kids (upsert n k (fun _ => v) kids).
Proof.
  intros Hk Hv [H1 H2]. split; [apply upsert_sorted; [intros _; exact Hk|exact H1]|apply upsert_Forall; [intros _; exact Hv|exact H2]].
Qed.

Lemma lookup_vsorted n k kids v : vsorted_kids kids -> lookup n k kids = Some v -> vsorted v.
Proof.
  intros [_ H]. induction H as [|[m x] r H1 H2 IH]; cbn [lookup]; [discriminate|].
  destruct (kcmp n k m (kind x)); [intros E; inversion E; subst; exact H1|exact IH|exact IH].
Qed.

Lemma vsorted_nil : vsorted_kids []. Proof. split; [exact I|constructor]. Qed.

Definition body_of (entry_f : str -> list (str * val) -> res (list (str * val) * str)) (fuel : nat) :=
  fix body (fu : nat) (r : str) (ks : list (str * val)) : res (list (str * val) * str) :=
    match fu with O => inl EFuel | S fu' =>
    match ws fuel false r with
    | (None, _) => inl EEof
    | (Some c2, r2) => if nb c2 =? 125 then inr (ks, r2)
                       else match entry_f (c2 :: r2) ks with
                            | inl e => inl e
                            | inr (ks', r3) => body fu' r3 ks'
                            end
    end end.

Lemma body_sorted entry_f fuel :
  (forall s kids kids' r, vsorted_kids kids -> entry_f s kids = inr (kids', r) -> vsorted_kids kids') ->
  forall fu r ks ks' r2, vsorted_kids ks -> body_of entry_f fuel fu r ks = inr (ks', r2) -> vsorted_kids ks'.
Proof.
  intros He. induction fu as [|fu IH]; intros r ks ks' r2 Hk H; cbn [body_of] in H; [discriminate|]. fold (body_of entry_f fuel) in H.
  destruct (ws fuel false r) as [[c2|] rr]; [|discriminate].
  destruct (nb c2 =? 125); [inversion H; subst; exact Hk|].
  destruct (entry_f (c2 :: rr) ks) as [e|[ks1 r3]] eqn:Ee; [discriminate|].
  eapply IH; [|exact H]. eapply He; eassumption.
Qed.

Lemma entry_S f d s kids : entry (S f) d s kids =
  match pstring (S f) s with
  | None => inr (kids, [])
  | Some (inl e) => inl e
  | Some (inr (name, r0)) =>
    let tail (kids' : list (str * val)) (r : str) : res (list (str * val) * str) :=
      match ws (S f) true r with
      | (Some c, r') => if (nb c =? 125) && negb (Nat.eqb d 0) then inr (kids', c :: r')
                        else if (nb c =? 59) || (nb c =? 10) then inr (kids', r') else inl ESemi
      | (None, _) => inl ESemi
      end in
    match ws (S f) false r0 with
    | (None, _) => inr (kids, [])
    | (Some c, r1) =>
      if nb c =? 40 then
        match plist (S f) r1 [] with
        | inl e => inl e
        | inr (items, r2) => tail (upsert name 2 (fun _ => VList items) kids) r2
        end
      else if nb c =? 123 then
        if Nat.leb max_depth d then inl EDeep else
        let old := match lookup name 3 kids with Some (VObj k) => k | _ => [] end in
        match body_of (entry f (S d)) (S f) f r1 old with
        | inl e => inl e
        | inr (ks, r2) => tail (upsert name 3 (fun _ => VObj ks) kids) r2
        end
      else
        match pstring (S f) (c :: r1) with
        | None => inl EEof
        | Some (inl e) => inl e
        | Some (inr (v, r2)) =>
          match ws (S f) true r2 with
          | (None, _) => inl ESemi
          | (Some c2, r3) =>
            if (nb c2 =? 59) || (nb c2 =? 10) || (nb c2 =? 125) then tail (upsert name 0 (fun _ => VStr v) kids) (c2 :: r3)
            else if nb c2 =? 44 then
              match pcomma (S f) r3 [v] with
              | inl e => inl e
              | inr (items, r4) => tail (upsert name 2 (fun _ => VList items) kids) r4
              end
            else match pstring (S f) (c2 :: r3) with
                 | None => inl ESemi
                 | Some (inl e) => inl e
                 | Some (inr (sv, r4)) => tail (upsert name 1 (fun _ => VIna (Some v) (Some sv)) kids) r4
                 end
          end
        end
    end
  end.
Proof. reflexivity. Qed.

Lemma tail_inv fuel top (kids' : list (str * val)) r k2 r2 :
  match ws fuel true r with
  | (Some c, r') => if (nb c =? 125) && negb top then inr (kids', c :: r')
                    else if (nb c =? 59) || (nb c =? 10) then inr (kids', r') else inl ESemi
  | (None, _) => inl ESemi
  end = inr (k2, r2) -> k2 = kids'.
Proof.
  destruct (ws fuel true r) as [[c|] r']; [|discriminate].
  destruct ((nb c =? 125) && negb top); [intros H; inversion H; reflexivity|].
  destruct ((nb c =? 59) || (nb c =? 10)); [intros H; inversion H; reflexivity|discriminate].
Qed.

Theorem entry_sorted : forall fuel d s kids kids' r,
  vsorted_kids kids -> entry fuel d s kids = inr (kids', r) -> vsorted_kids kids'.
Proof.
  induction fuel as [|f IH]; intros d s kids kids' r Hk H; [discriminate|].
  rewrite entry_S in H. cbn zeta in H.
  destruct (pstring (S f) s) as [[e|[name r0]]|]; [discriminate| |inversion H; subst; exact Hk].
  destruct (ws (S f) false r0) as [[c|] r1]; [|inversion H; subst; exact Hk].
  destruct (nb c =? 40).
  { destruct (plist (S f) r1 []) as [e|[items r2]]; [discriminate|]. apply tail_inv in H. subst kids'.
    apply upsert_vsorted; [reflexivity|exact I|exact Hk]. }
  destruct (nb c =? 123).
  { destruct (Nat.leb max_depth d); [discriminate|].
    destruct (body_of (entry f (S d)) (S f) f r1 _) as [e|[ks r2]] eqn:Hb; [discriminate|]. apply tail_inv in H. subst kids'.
    apply upsert_vsorted; [reflexivity| |exact Hk]. apply vsorted_obj.
    eapply (body_sorted (entry f (S d)) (S f) (IH (S d))); [|exact Hb].
    destruct (lookup name 3 kids) as [[| | |k]|] eqn:El; try apply vsorted_nil.
    apply vsorted_obj. eapply lookup_vsorted; eassumption. }
  destruct (pstring (S f) (c :: r1)) as [[e|[v r2]]|]; try discriminate.
  destruct (ws (S f) true r2) as [[c2|] r3]; [|discriminate].
  destruct ((nb c2 =? 59) || (nb c2 =? 10) || (nb c2 =? 125)).
  { apply tail_inv in H. subst kids'. apply upsert_vsorted; [reflexivity|exact I|exact Hk]. }
  destruct (nb c2 =? 44).
  { destruct (pcomma (S f) r3 [v]) as [e|[items r4]]; [discriminate|]. apply tail_inv in H. subst kids'.
    apply upsert_vsorted; [reflexivity|exact I|exact Hk]. }
  destruct (pstring (S f) (c2 :: r3)) as [[e|[sv r4]]|]; try discriminate.
  apply tail_inv in H. subst kids'. apply upsert_vsorted; [reflexivity|exact I|exact Hk].
Qed.

Theorem entries_sorted : forall fuel s kids kids', vsorted_kids kids -> entries fuel s kids = inr kids' -> vsorted_kids kids'.
Proof.
  induction fuel as [|f IH]; intros s kids kids' Hk H; cbn [entries] in H; [discriminate|].
  destruct s as [|c s]; [inversion H; subst; exact Hk|].
  destruct (entry (S f) 0 (c :: s) kids) as [e|[k' r]] eqn:E; [discriminate|].
  eapply IH; [|exact H]. eapply entry_sorted; eassumption.
Qed.

Theorem parse_sorted data tree : parse data = inr tree -> vsorted_kids tree.
Proof.
  unfold parse. destruct data as [|c d]; [discriminate|]. intros H. eapply entries_sorted; [|exact H]. apply vsorted_nil.
Qed.
