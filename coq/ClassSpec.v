(* Specification-level statements about the class rules of the IAuth model (Iauth.v):
     1. a fuel-free inductive description of the glob matcher, and the proof that `fnm` computes exactly it;
     2. classification = the first matching rule in list order;
     3. for a rule list strictly sorted by (case-folded) name: the chosen rule is the matching rule of least name;
     4. the address criterion is equality of the leading `bits` bits.
   No axioms; no byte is ever destructed. *)
From Coq Require Import List NArith ZArith Bool Strings.Byte Lia Arith Sorting.Sorted Relations RelationClasses.
Import ListNotations.
Require Import Params AddrFull Iauth IauthFacts MaskSpec.
Require Conf ConfOrder ConfTotal.
Local Open Scope list_scope.

(* ------------------------------------------------------------------------------------------------ *)
(* byte equality                                                                                     *)
(* ------------------------------------------------------------------------------------------------ *)
Lemma beq_refl c : beq c c = true. Proof. unfold beq. apply Byte.byte_dec_lb. reflexivity. Qed.
Lemma beq_eq a b : beq a b = true -> a = b. Proof. apply Byte.byte_dec_bl. Qed.
Lemma beq_neq a b : a <> b -> beq a b = false.
Proof. intros H. destruct (beq a b) eqn:E; [apply beq_eq in E; contradiction|reflexivity]. Qed.
Lemma beq_false a b : beq a b = false -> a <> b.
Proof. intros H E. subst b. rewrite beq_refl in H. discriminate. Qed.

(* ------------------------------------------------------------------------------------------------ *)
(* 1. glob matching without fuel                                                                     *)
(* ------------------------------------------------------------------------------------------------ *)
(* `*` is x2a, `?` is x3f.  In `glob` a pattern byte other than `*` matches a subject byte d when it is
   `?` or equal to d; so a literal `?` in the subject is matched by `?` (rule M_q) and the side conditions
   of M_lit only make the five rules mutually exclusive on the head of the pattern. *)
Inductive Matches : str -> str -> Prop :=
| M_nil : Matches [] []
| M_star_skip p s : Matches p s -> Matches (x2a :: p) s
| M_star_eat p c s : Matches (x2a :: p) s -> Matches (x2a :: p) (c :: s)
| M_q p c s : Matches p s -> Matches (x3f :: p) (c :: s)
| M_lit c p s : c <> x2a -> c <> x3f -> Matches p s -> Matches (c :: p) (c :: s).

Lemma glob_sound f : forall p s, glob f p s = true -> Matches p s.
Proof.
  induction f as [|f IH]; intros p s H; cbn [glob] in H; [discriminate|].
  destruct p as [|c p'].
  - destruct s; [constructor|discriminate].
  - destruct (beq c x2a) eqn:Ec.
    + apply beq_eq in Ec. subst c. apply orb_true_iff in H as [H|H].
      * apply M_star_skip, IH, H.
      * destruct s as [|d s']; [discriminate|]. apply M_star_eat, IH, H.
    + destruct s as [|d s']; [discriminate|]. apply andb_true_iff in H as [H1 H2].
      destruct (beq c x3f) eqn:Eq.
      * apply beq_eq in Eq. subst c. apply M_q, IH, H2.
      * cbn [orb] in H1. apply beq_eq in H1. subst d.
        apply M_lit; [apply beq_false; exact Ec|apply beq_false; exact Eq|apply IH; exact H2].
Qed.

(* any fuel above |p| + |s| is enough *)
Lemma glob_complete p s : Matches p s -> forall f, List.length p + List.length s < f -> glob f p s = true.
Proof.
  induction 1 as [|p s H IH|p c s H IH|p c s H IH|c p s N1 N2 H IH]; intros f L;
    (destruct f as [|f]; [lia|]); cbn [glob]; cbn [List.length] in *.
  - reflexivity.
  - rewrite beq_refl. rewrite IH by lia. reflexivity.
  - rewrite beq_refl. rewrite (IH f) by (cbn [List.length]; lia). apply orb_true_r.
  - change (beq x3f x2a) with false. change (beq x3f x3f) with true. cbn [orb andb]. apply IH. lia.
  - rewrite (beq_neq _ _ N1). rewrite beq_refl, orb_true_r. cbn [andb]. apply IH. lia.
Qed.

Lemma glob_mono f : forall f' p s, f <= f' -> glob f p s = true -> glob f' p s = true.
Proof.
  induction f as [|f IH]; intros f' p s L H; [discriminate|].
  destruct f' as [|f']; [lia|]. cbn [glob] in *.
  destruct p as [|c p']; [exact H|]. destruct (beq c x2a).
  - apply orb_true_iff in H as [H|H]; apply orb_true_iff.
    + left. apply IH; [lia|exact H].
    + right. destruct s as [|d s']; [discriminate|]. apply IH; [lia|exact H].
  - destruct s as [|d s']; [discriminate|]. apply andb_true_iff in H as [H1 H2].
    rewrite H1. cbn [andb]. apply IH; [lia|exact H2].
Qed.

Theorem glob_spec f p s : List.length p + List.length s < f -> glob f p s = true <-> Matches p s.
Proof. intros L. split; [apply glob_sound|intros H; apply glob_complete; assumption]. Qed.

(* the fuel chosen in `fnm` is always enough: `fnm` computes exactly `Matches` *)
Theorem fnm_spec : forall p s, fnm p s = true <-> Matches p s.
Proof. intros p s. unfold fnm. apply glob_spec. lia. Qed.

Corollary fnm_false_spec p s : fnm p s = false <-> ~ Matches p s.
Proof.
  rewrite <- fnm_spec. destruct (fnm p s); split; intros H.
  - discriminate.
  - exfalso. apply H. reflexivity.
  - discriminate.
  - reflexivity.
Qed.

(* more fuel never changes the answer of `fnm` *)
Corollary fnm_fuel_irrelevant p s f : 2 * (List.length p + List.length s) + 2 <= f -> glob f p s = fnm p s.
Proof.
  intros L. destruct (fnm p s) eqn:E.
  - apply fnm_spec in E. apply glob_complete; [exact E|lia].
  - destruct (glob f p s) eqn:G; [|reflexivity]. apply glob_sound, fnm_spec in G. congruence.
Qed.

Lemma Matches_star_all s : Matches [x2a] s.
Proof. induction s as [|c s IH]; [apply M_star_skip, M_nil|apply M_star_eat, IH]. Qed.

Corollary fnm_star_matches_everything : forall s, fnm [x2a] s = true.
Proof. intros s. apply fnm_spec, Matches_star_all. Qed.

Lemma Matches_literal p s : ~ In x2a p -> ~ In x3f p -> (Matches p s <-> p = s).
Proof.
  intros Ha Hq. split.
  - intros H. induction H as [|p s H IH|p c s H IH|p c s H IH|c p s N1 N2 H IH].
    + reflexivity.
    + exfalso. apply Ha. left. reflexivity.
    + exfalso. apply Ha. left. reflexivity.
    + exfalso. apply Hq. left. reflexivity.
    + f_equal. apply IH; intros X; [apply Ha|apply Hq]; right; exact X.
  - intros <-. induction p as [|c p IH]; [constructor|].
    apply M_lit.
    + intros E. apply Ha. left. exact E.
    + intros E. apply Hq. left. exact E.
    + apply IH; intros X; [apply Ha|apply Hq]; right; exact X.
Qed.

Corollary fnm_literal : forall p s, ~ In x2a p -> ~ In x3f p -> (fnm p s = true <-> p = s).
Proof. intros p s Ha Hq. rewrite fnm_spec. apply Matches_literal; assumption. Qed.

(* the same with the model's own boolean membership test *)
Lemma has_In b s : has b s = true <-> In b s.
Proof.
  induction s as [|c s IH]; cbn [has In]; [split; [discriminate|intros []]|].
  rewrite orb_true_iff, IH. split; (intros [H|H]; [left|right; exact H]).
  - apply beq_eq in H. exact H.
  - subst c. apply beq_refl.
Qed.

Corollary fnm_literal_has p s : has x2a p = false -> has x3f p = false -> (fnm p s = true <-> p = s).
Proof.
  intros Ha Hq. apply fnm_literal; intros X; apply has_In in X; congruence.
Qed.

(* a few structural consequences, all fuel-free *)
Lemma Matches_nil_r p : Matches p [] <-> Forall (fun c => c = x2a) p.
Proof.
  split.
  - intros H. remember (@nil byte) as s eqn:Es. induction H; try discriminate; constructor; auto.
  - induction 1 as [|c p -> _ IH]; [constructor|apply M_star_skip, IH].
Qed.

Lemma Matches_q_length p s : Forall (fun c => c = x3f) p -> (Matches p s <-> List.length p = List.length s).
Proof.
  intros Hp. revert s. induction Hp as [|c p -> Hp IH]; intros s.
  - split.
    + intros H. inversion H. reflexivity.
    + destruct s; [constructor|discriminate].
  - split.
    + intros H. inversion H; subst; try discriminate.
      * cbn [List.length]. f_equal. apply IH. assumption.
      * congruence.
    + destruct s as [|d s]; [discriminate|]. cbn [List.length]. intros E. apply M_q, IH. lia.
Qed.

(* ------------------------------------------------------------------------------------------------ *)
(* 2. classification = first matching rule in list order                                             *)
(* ------------------------------------------------------------------------------------------------ *)
(* `picks ss rs r ru`: ru occurs in rs, matches, and no rule before that occurrence matches *)
Definition picks (ss : list (option svc)) (rs : list rule) (r : req) (ru : rule) : Prop :=
  exists pre post, rs = pre ++ ru :: post /\ (forall x, In x pre -> rule_matches ss x r = false) /\ rule_matches ss ru r = true.

Lemma classify_split ss pre ru post r :
  (forall x, In x pre -> rule_matches ss x r = false) -> rule_matches ss ru r = true ->
  classify ss (pre ++ ru :: post) r = (trusted_line ru r, rule_class ru).
Proof.
  induction pre as [|x pre IH]; intros Hpre Hru; cbn [app classify].
  - rewrite Hru. reflexivity.
  - rewrite (Hpre x (or_introl eq_refl)). apply IH; [|exact Hru]. intros y Hy. apply Hpre. right. exact Hy.
Qed.

Lemma find_picks ss rs r ru : find (fun x => rule_matches ss x r) rs = Some ru <-> picks ss rs r ru.
Proof.
  split.
  - revert ru. induction rs as [|x rs IH]; intros ru H; cbn [find] in H; [discriminate|].
    destruct (rule_matches ss x r) eqn:E.
    + injection H as <-. exists [], rs. split; [reflexivity|]. split; [intros y []|exact E].
    + destruct (IH ru H) as (pre & post & -> & Hpre & Hru). exists (x :: pre), post.
      split; [reflexivity|]. split; [|exact Hru]. intros y [<-|Hy]; [exact E|apply Hpre; exact Hy].
  - intros (pre & post & -> & Hpre & Hru). induction pre as [|x pre IH]; cbn [app find].
    + rewrite Hru. reflexivity.
    + rewrite (Hpre x (or_introl eq_refl)). apply IH. intros y Hy. apply Hpre. right. exact Hy.
Qed.

Lemma picks_functional ss rs r ru ru' : picks ss rs r ru -> picks ss rs r ru' -> ru = ru'.
Proof. intros H H'. apply find_picks in H, H'. congruence. Qed.

(* if the rule `ru` is the first matching one, the class is its class value (or else its name), cut to the
   buffer size, and the extra line is that of `ru` *)
Theorem first_matching_rule_in_list_order : forall ss rs r ru,
  picks ss rs r ru ->
  classify ss rs r = (trusted_line ru r, firstn class_len (match r_class ru with Some c => c | None => r_name ru end)).
Proof. intros ss rs r ru (pre & post & -> & Hpre & Hru). apply classify_split; assumption. Qed.

(* explicit-split form *)
Corollary first_matching_rule_split : forall ss pre ru post r,
  (forall x, In x pre -> rule_matches ss x r = false) -> rule_matches ss ru r = true ->
  snd (classify ss (pre ++ ru :: post) r) = firstn class_len (match r_class ru with Some c => c | None => r_name ru end).
Proof. intros. rewrite classify_split by assumption. reflexivity. Qed.

(* index form: the rule at position i matches and no earlier position does *)
Corollary first_matching_rule_index : forall ss rs r i ru,
  nth_error rs i = Some ru -> rule_matches ss ru r = true ->
  (forall j x, j < i -> nth_error rs j = Some x -> rule_matches ss x r = false) ->
  snd (classify ss rs r) = firstn class_len (match r_class ru with Some c => c | None => r_name ru end).
Proof.
  intros ss rs r i ru Hi Hru Hpre.
  destruct (nth_error_split rs i Hi) as (pre & post & -> & Hlen).
  apply first_matching_rule_split; [|exact Hru].
  intros x Hx. apply In_nth_error in Hx as [j Hj].
  assert (j < i) as Lj by (rewrite <- Hlen; apply nth_error_Some; congruence).
  apply (Hpre j x Lj). rewrite nth_error_app1 by (rewrite Hlen; exact Lj). exact Hj.
Qed.

(* converse: whatever `classify` answers, it is the answer of a first matching rule, or no rule matches *)
Theorem classify_decided_by_first_match : forall ss rs r,
  (exists ru, picks ss rs r ru /\ classify ss rs r = (trusted_line ru r, rule_class ru)) \/
  ((forall x, In x rs -> rule_matches ss x r = false) /\ classify ss rs r = ([], [])).
Proof.
  intros ss rs r. destruct (find (fun x => rule_matches ss x r) rs) as [ru|] eqn:E.
  - left. exists ru. apply find_picks in E. split; [exact E|]. apply first_matching_rule_in_list_order. exact E.
  - right. assert (forall x, In x rs -> rule_matches ss x r = false) as H.
    { intros x Hx. apply (find_none _ _ E x Hx). }
    split; [exact H|apply classify_no_match; exact H].
Qed.

(* a non-empty class can only come from a first matching rule *)
Corollary class_nonempty_has_rule ss rs r : snd (classify ss rs r) <> [] ->
  exists ru, picks ss rs r ru /\ snd (classify ss rs r) = rule_class ru.
Proof.
  intros H. destruct (classify_decided_by_first_match ss rs r) as [(ru & P & E)|(_ & E)].
  - exists ru. split; [exact P|]. rewrite E. reflexivity.
  - rewrite E in H. exfalso. apply H. reflexivity.
Qed.

(* ------------------------------------------------------------------------------------------------ *)
(* 3. sorted rule list: the chosen rule is the matching rule of least name                           *)
(* ------------------------------------------------------------------------------------------------ *)
Lemma StronglySorted_mid {A} (R : A -> A -> Prop) l1 a l2 : StronglySorted R (l1 ++ a :: l2) -> Forall (R a) l2.
Proof.
  induction l1 as [|x l1 IH]; cbn [app]; intros H; inversion H; subst; [assumption|apply IH; assumption].
Qed.

(* for ANY relation R under which the names are strongly sorted *)
Theorem first_matching_rule_in_name_order_gen : forall (R : str -> str -> Prop) ss rs r ru,
  StronglySorted R (map r_name rs) -> picks ss rs r ru ->
  forall ru', In ru' rs -> rule_matches ss ru' r = true -> ru' = ru \/ R (r_name ru) (r_name ru').
Proof.
  intros R ss rs r ru Hs (pre & post & -> & Hpre & Hru) ru' Hin Hm.
  apply in_app_or in Hin as [Hin|[Hin|Hin]].
  - rewrite (Hpre ru' Hin) in Hm. discriminate.
  - left. symmetry. exact Hin.
  - right. rewrite map_app in Hs. cbn [map] in Hs. apply StronglySorted_mid in Hs.
    rewrite Forall_forall in Hs. apply Hs. apply in_map. exact Hin.
Qed.

(* the order of the configuration tree: strcasecmp on bytes (Conf.scmp), which is what `tsorted` uses on names *)
Definition name_lt (a b : str) : Prop := Conf.scmp a b = Lt.
Definition name_eq (a b : str) : Prop := Conf.scmp a b = Eq.

Lemma name_lt_irrefl a : ~ name_lt a a.
Proof. unfold name_lt. rewrite ConfOrder.scmp_refl. discriminate. Qed.
Lemma name_lt_trans a b c : name_lt a b -> name_lt b c -> name_lt a c.
Proof. apply ConfOrder.scmp_lt_trans. Qed.
Lemma name_lt_asym a b : name_lt a b -> ~ name_lt b a.
Proof. intros H1 H2. apply (name_lt_irrefl a). eapply name_lt_trans; eassumption. Qed.
Lemma name_trichotomy a b : name_lt a b \/ name_eq a b \/ name_lt b a.
Proof.
  unfold name_lt, name_eq. rewrite (ConfOrder.scmp_antisym a b). destruct (Conf.scmp a b); cbn [CompOpp]; auto.
Qed.

(* name_eq is the case-insensitive equality `ci_eq` of the model *)
Lemma to_N_inj x y : Byte.to_N x = Byte.to_N y -> x = y.
Proof.
  intros H. pose proof (Byte.of_to_N x) as Hx. pose proof (Byte.of_to_N y) as Hy. rewrite H in Hx. congruence.
Qed.

Lemma lower_same b : Conf.lower b = Iauth.lower b.
Proof. reflexivity. Qed.

Lemma name_eq_ci_eq a : forall b, name_eq a b <-> ci_eq a b = true.
Proof.
  unfold name_eq. induction a as [|x a IH]; intros [|y b]; cbn [Conf.scmp ci_eq]; try (split; discriminate); [split; reflexivity|].
  change (Conf.lower x) with (lower x). change (Conf.lower y) with (lower y). unfold Conf.nb.
  destruct (N.compare (Byte.to_N (lower x)) (Byte.to_N (lower y))) eqn:E.
  - apply N.compare_eq_iff, to_N_inj in E. rewrite E, beq_refl. cbn [andb]. apply IH.
  - split; [discriminate|]. intros H. apply andb_true_iff in H as [H _]. apply beq_eq in H. rewrite H, N.compare_refl in E. discriminate.
  - split; [discriminate|]. intros H. apply andb_true_iff in H as [H _]. apply beq_eq in H. rewrite H, N.compare_refl in E. discriminate.
Qed.

Theorem first_matching_rule_in_name_order : forall ss rs r ru,
  StronglySorted name_lt (map r_name rs) -> picks ss rs r ru ->
  forall ru', In ru' rs -> rule_matches ss ru' r = true -> ru' = ru \/ name_lt (r_name ru) (r_name ru').
Proof. intros ss rs r ru. apply first_matching_rule_in_name_order_gen. Qed.

(* "least": no matching rule has a smaller name, and none has a case-insensitively equal name except ru itself *)
Corollary chosen_rule_has_least_name : forall ss rs r ru,
  StronglySorted name_lt (map r_name rs) -> picks ss rs r ru ->
  forall ru', In ru' rs -> rule_matches ss ru' r = true ->
  ~ name_lt (r_name ru') (r_name ru) /\ (ci_eq (r_name ru') (r_name ru) = true -> ru' = ru).
Proof.
  intros ss rs r ru Hs Hp ru' Hin Hm.
  destruct (first_matching_rule_in_name_order ss rs r ru Hs Hp ru' Hin Hm) as [->|L].
  - split; [apply name_lt_irrefl|reflexivity].
  - split; [apply name_lt_asym; exact L|].
    intros E. apply name_eq_ci_eq in E. unfold name_eq in E. apply ConfOrder.scmp_eq_sym in E.
    unfold name_lt in L. congruence.
Qed.

(* and the class value is that rule's: classification of a sorted list = class of the least-named matching rule *)
Corollary sorted_rules_class_of_least_name : forall ss rs r ru,
  StronglySorted name_lt (map r_name rs) ->
  In ru rs -> rule_matches ss ru r = true ->
  (forall ru', In ru' rs -> rule_matches ss ru' r = true -> ru' = ru \/ name_lt (r_name ru) (r_name ru')) ->
  snd (classify ss rs r) = firstn class_len (match r_class ru with Some c => c | None => r_name ru end).
Proof.
  intros ss rs r ru Hs Hin Hm Hleast.
  destruct (classify_decided_by_first_match ss rs r) as [(ru0 & P & E)|(Hnone & _)].
  - rewrite E. cbn [snd]. unfold rule_class.
    assert (ru0 = ru) as ->; [|reflexivity].
    destruct (first_matching_rule_in_name_order ss rs r ru0 Hs P ru Hin Hm) as [->|L]; [reflexivity|].
    destruct P as (pre & post & Ers & Hpre & Hm0).
    assert (In ru0 rs) as Hin0 by (rewrite Ers; apply in_or_app; right; left; reflexivity).
    destruct (Hleast ru0 Hin0 Hm0) as [->|L']; [reflexivity|].
    exfalso. exact (name_lt_asym _ _ L L').
  - rewrite (Hnone ru Hin) in Hm. discriminate.
Qed.

(* bridge to the parsed configuration: the children of a `tsorted` tree level that all have the same kind
   (e.g. all rule objects) have strictly increasing names in the sense of name_lt *)
Lemma klt_trans : Transitive ConfTotal.klt.
Proof. intros a b c. unfold ConfTotal.klt. apply ConfOrder.kcmp_lt_trans. Qed.

Lemma tsorted_names_sorted (ks : list (Conf.str * Conf.val)) k :
  ConfTotal.tsorted ks -> (forall nv, In nv ks -> Conf.kind (snd nv) = k) -> StronglySorted name_lt (map fst ks).
Proof.
  intros Ht Hk. inversion Ht as [ks' Hs _]. subst ks'.
  apply (Sorted_StronglySorted klt_trans) in Hs.
  induction Hs as [|a l Hs IH Hall]; cbn [map]; constructor.
  - apply IH; [|intros nv Hnv; apply Hk; right; exact Hnv].
    constructor; [apply StronglySorted_Sorted; exact Hs|].
    intros n v Hin. inversion Ht as [? _ Hv]. subst. apply (Hv n v). right. exact Hin.
  - rewrite Forall_forall in *. intros n Hn. apply in_map_iff in Hn as (b & <- & Hb).
    specialize (Hall b Hb). unfold ConfTotal.klt, Conf.kcmp in Hall. unfold name_lt.
    match type of Hall with match ?c with _ => _ end = _ => destruct c eqn:E end; [|first [exact E|reflexivity]|discriminate Hall].
    rewrite (Hk a (or_introl eq_refl)), (Hk b (or_intror Hb)), N.compare_refl in Hall. discriminate.
Qed.

Corollary first_matching_rule_in_config_order : forall (ks : list (Conf.str * Conf.val)) k ss rs r ru,
  ConfTotal.tsorted ks -> (forall nv, In nv ks -> Conf.kind (snd nv) = k) -> map r_name rs = map fst ks ->
  picks ss rs r ru ->
  forall ru', In ru' rs -> rule_matches ss ru' r = true -> ru' = ru \/ name_lt (r_name ru) (r_name ru').
Proof.
  intros ks k ss rs r ru Ht Hk Hn. apply first_matching_rule_in_name_order. rewrite Hn.
  eapply tsorted_names_sorted; eassumption.
Qed.

(* ------------------------------------------------------------------------------------------------ *)
(* 4. the address criterion                                                                          *)
(* ------------------------------------------------------------------------------------------------ *)
Local Open Scope N_scope.

(* the address conjunct of rule_matches, named *)
Definition addr_criterion (ru : rule) (r : req) : bool :=
  match r_addr ru with Some (m, bits) => if bits =? 0 then true else cm (raddr r) m bits | None => true end.

Lemma rule_matches_unfold ss ru r :
  rule_matches ss ru r =
  (match r_acct ru with Some g => fnm g (upto x3a (acct r)) | None => true end) &&
  addr_criterion ru r &&
  (match r_user ru with Some g => fnm g (authu r) | None => true end) &&
  (match r_host ru with Some g => fnm g (host r) | None => true end) &&
  (match r_xok ru with Some n => xreply_ok ss 0 n r | None => true end).
Proof. reflexivity. Qed.

Lemma rule_matches_addr ss ru r : rule_matches ss ru r = true -> addr_criterion ru r = true.
Proof.
  rewrite rule_matches_unfold. intros H.
  apply andb_true_iff in H as [H _]. apply andb_true_iff in H as [H _]. apply andb_true_iff in H as [H _].
  apply andb_true_iff in H as [_ H]. exact H.
Qed.

(* an address of the model: eight 16-bit groups (the same notion as MaskSpec.small / AddrRoundTrip.wf) *)
Definition wf8 (gs : list N) : Prop := List.length gs = 8%nat /\ Forall small gs.

Theorem address_criterion_is_prefix_equality : forall ru r m bits,
  r_addr ru = Some (m, bits) -> 0 < bits <= 128 -> wf8 (raddr r) -> wf8 m ->
  addr_criterion ru r = true <-> (forall i, i < bits -> abit (raddr r) i = abit m i).
Proof.
  intros ru r m bits Ha [Hb0 Hb] [La Sa] [Lm Sm]. unfold addr_criterion. rewrite Ha.
  assert ((bits =? 0) = false) as -> by (apply N.eqb_neq; lia).
  apply check_mask_spec; [congruence|exact Sa|exact Sm|]. rewrite La. cbn. lia.
Qed.

Theorem address_criterion_zero_bits_matches_everything : forall ru r m,
  r_addr ru = Some (m, 0) -> addr_criterion ru r = true.
Proof. intros ru r m Ha. unfold addr_criterion. rewrite Ha. reflexivity. Qed.

Theorem address_criterion_absent_matches_everything : forall ru r, r_addr ru = None -> addr_criterion ru r = true.
Proof. intros ru r Ha. unfold addr_criterion. rewrite Ha. reflexivity. Qed.

(* both cases together: for every prefix length up to 128 *)
Corollary address_criterion_spec : forall ru r m bits,
  r_addr ru = Some (m, bits) -> bits <= 128 -> wf8 (raddr r) -> wf8 m ->
  addr_criterion ru r = true <-> (forall i, i < bits -> abit (raddr r) i = abit m i).
Proof.
  intros ru r m bits Ha Hb Wa Wm. destruct (N.eq_dec bits 0) as [->|Hz].
  - rewrite (address_criterion_zero_bits_matches_everything ru r m Ha). split; [intros _ i Hi; lia|reflexivity].
  - apply address_criterion_is_prefix_equality; [exact Ha|lia|exact Wa|exact Wm].
Qed.

(* a rule that matches has, in particular, the right address prefix *)
Corollary matching_rule_has_address_prefix : forall ss ru r m bits,
  r_addr ru = Some (m, bits) -> bits <= 128 -> wf8 (raddr r) -> wf8 m ->
  rule_matches ss ru r = true -> forall i, i < bits -> abit (raddr r) i = abit m i.
Proof.
  intros ss ru r m bits Ha Hb Wa Wm H. apply rule_matches_addr in H.
  apply (address_criterion_spec ru r m bits Ha Hb Wa Wm). exact H.
Qed.

