(* C16 on the parser model (Conf.v), the whole documented syntax: quoted strings with every escape the scanner
   decodes, bare words, parenthesised lists, comma lists without parentheses, host/service pairs, nested objects,
   ";" or a newline (possibly after a // comment) as the terminator, no terminator at all before "}", C and C++
   comments and arbitrary white space.  [rfile2] generalises [rfile] of ConfPrint.v ([rfile_rfile2]); every such
   rendering is read back as exactly the tree that was written ([parse_renders2]). *)
From Coq Require Import List NArith Bool Strings.Byte Lia Arith.
Import ListNotations.
Require Import Conf ConfRT ConfTotal ConfPrint.

(* ------------------------------------------------------------------------------------------------ *)
(* bytes                                                                                             *)
(* ------------------------------------------------------------------------------------------------ *)
Lemma istoken_nb c : istoken c = true ->
  (48 <= nb c <= 57 \/ 65 <= nb c <= 90 \/ 97 <= nb c <= 122 \/ nb c = 45 \/ nb c = 46 \/ nb c = 95 \/ nb c = 35)%N.
Proof.
  unfold istoken, isalpha, isdigit. rewrite !orb_true_iff, !andb_true_iff, !N.leb_le, !N.eqb_eq. intuition lia.
Qed.

Lemma nb_beq_false a b : nb a <> nb b -> beq a b = false.
Proof. intros H. destruct (beq a b) eqn:E; [apply beq_eq in E; subst; congruence|reflexivity]. Qed.

Lemma istoken_stopb c : istoken c = true -> stopb c = true.
Proof.
  intros H. apply istoken_nb in H. unfold stopb. apply andb_true_iff. split; apply negb_true_iff.
  - unfold isspace. destruct ((9 <=? nb c)%N && (nb c <=? 13)%N || (nb c =? 32)%N) eqn:E; [|reflexivity].
    rewrite orb_true_iff, andb_true_iff, !N.leb_le, N.eqb_eq in E. lia.
  - apply nb_beq_false. change (nb SLASH) with 47%N. lia.
Qed.

Lemma istoken_noquote c : istoken c = true -> beq c QUOTE = false.
Proof. intros H. apply istoken_nb in H. apply nb_beq_false. change (nb QUOTE) with 34%N. lia. Qed.

(* the first byte of a string token: a double quote or a bare-word byte *)
Definition tokhead (c : byte) : bool := beq c QUOTE || istoken c.

Lemma tokhead_facts c : tokhead c = true ->
  stopb c = true /\ (nb c =? 40)%N = false /\ (nb c =? 41)%N = false /\ (nb c =? 44)%N = false /\
  (nb c =? 10)%N = false /\ (nb c =? 59)%N = false /\ (nb c =? 123)%N = false /\ (nb c =? 125)%N = false.
Proof.
  unfold tokhead. intros H. apply orb_true_iff in H as [H|H].
  - apply beq_eq in H. subst c. repeat split; reflexivity.
  - split; [apply istoken_stopb; exact H|]. apply istoken_nb in H. repeat split; apply N.eqb_neq; lia.
Qed.

(* what may follow a bare word: some byte that cannot continue it *)
Definition headok (s : str) : Prop := match s with [] => False | c :: _ => istoken c = false end.

Lemma headok_app a b : headok a -> headok (a ++ b).
Proof. destruct a; [intros []|intros H; exact H]. Qed.

(* white space can never start with a bare-word byte, so a delimiter after a gap is always a fine follower *)
Lemma headok_gap care g x : gap care g -> headok x -> headok (g ++ x).
Proof.
  intros Hg Hx. destruct g as [|c g]; [exact Hx|]. cbn [app headok].
  destruct (istoken c) eqn:E; [exfalso|reflexivity].
  specialize (Hg (S (S (length (c :: g)))) []). rewrite app_nil_r in Hg. specialize (Hg ltac:(lia)).
  rewrite ws_stop in Hg by (apply istoken_stopb; exact E). cbn [ws] in Hg. discriminate Hg.
Qed.

Lemma take_token_bare s rest : Forall (fun c => istoken c = true) s -> headok rest -> take_token (s ++ rest) = (s, rest).
Proof.
  intros Hs Hr. induction Hs as [|c s Hc Hs IH]; cbn [app take_token].
  - destruct rest as [|d r]; [destruct Hr|]. cbn [headok] in Hr. cbn [take_token]. rewrite Hr. reflexivity.
  - rewrite Hc, IH. reflexivity.
Qed.

Lemma pstring_bare f c s rest :
  istoken c = true -> Forall (fun c => istoken c = true) s -> headok rest ->
  pstring (S f) (c :: s ++ rest) = Some (inr (c :: s, rest)).
Proof.
  intros Hc Hs Hr. unfold pstring. rewrite ws_stop by (apply istoken_stopb; exact Hc).
  rewrite (istoken_noquote c Hc), Hc, take_token_bare by assumption. reflexivity.
Qed.

(* ------------------------------------------------------------------------------------------------ *)
(* quoted strings with escapes                                                                       *)
(* ------------------------------------------------------------------------------------------------ *)
(* [qenc s b]: b (the text between the quotes) is a way of writing s:
   a byte other than the quote and the backslash stands for itself; backslash + a,b,f,n,r,t,v is the control
   character; backslash + any other byte except x is that byte; backslash x and two hexadecimal digits is the
   byte with that value *)
Inductive qenc : str -> str -> Prop :=
| qe_nil : qenc [] []
| qe_lit c s b : beq c QUOTE = false -> beq c BSL = false -> qenc s b -> qenc (c :: s) (c :: b)
| qe_esc e s b : beq e x78 = false -> qenc s b ->
    qenc ((match esc_simple e with Some d => d | None => e end) :: s) (BSL :: e :: b)
| qe_hex h1 h2 v1 v2 s b : hexv h1 = Some v1 -> hexv h2 = Some v2 -> qenc s b ->
    qenc ((match Byte.of_N (v1 * 16 + v2) with Some d => d | None => x00 end) :: s) (BSL :: x78 :: h1 :: h2 :: b).

Lemma unq_qenc s b : qenc s b -> forall rest, unq (b ++ QUOTE :: rest) = Some (s, rest).
Proof.
  induction 1 as [|c s b H1 H2 _ IH|e s b He _ IH|h1 h2 v1 v2 s b H1 H2 _ IH]; intros rest; cbn [app unq].
  - rewrite beq_refl. reflexivity.
  - rewrite H1, H2, IH. reflexivity.
  - change (beq BSL QUOTE) with false. rewrite beq_refl. cbv iota. rewrite He, IH. reflexivity.
  - change (beq BSL QUOTE) with false. rewrite beq_refl. cbv iota. rewrite beq_refl, H1, H2, IH. reflexivity.
Qed.

(* the canonical quoting is one such way *)
Lemma qenc_esc s : qenc s (flat_map esc s).
Proof.
  induction s as [|c s IH]; cbn [flat_map]; [constructor|].
  unfold esc at 1. destruct (beq c QUOTE || beq c BSL) eqn:E.
  - destruct (esc_simple_special c E) as (Hs & Hx). cbn [app].
    pose proof (qe_esc c s (flat_map esc s) Hx IH) as X. rewrite Hs in X. exact X.
  - apply orb_false_iff in E as [E1 E2]. cbn [app]. apply qe_lit; assumption.
Qed.

(* ------------------------------------------------------------------------------------------------ *)
(* string tokens                                                                                     *)
(* ------------------------------------------------------------------------------------------------ *)
(* [rstr s t nxt]: t is a way of writing the string s when the text that follows starts with nxt:
   between double quotes, or - when s is a non-empty run of bare-word bytes and nxt cannot continue it - as is *)
Inductive rstr (s : str) : str -> str -> Prop :=
| rs_quote body nxt : qenc s body -> rstr s (QUOTE :: body ++ [QUOTE]) nxt
| rs_bare nxt : s <> [] -> Forall (fun c => istoken c = true) s -> headok nxt -> rstr s s nxt.

Lemma rstr_quote s nxt : rstr s (quote s) nxt.
Proof. unfold quote. apply rs_quote. apply qenc_esc. Qed.

Lemma rstr_read s t nxt : rstr s t nxt -> nonul s ->
  exists c t0, t = c :: t0 /\ tokhead c = true /\
    forall f more, pstring (S f) (c :: t0 ++ nxt ++ more) = Some (inr (s, nxt ++ more)).
Proof.
  intros H Hn. destruct H as [body nxt Hq|nxt Hne Ht Hk].
  - exists QUOTE, (body ++ [QUOTE]). split; [reflexivity|]. split; [reflexivity|]. intros f more.
    unfold pstring. rewrite ws_quote. change (beq QUOTE QUOTE) with true. cbv iota.
    rewrite <- app_assoc. cbn [app]. rewrite (unq_qenc s body Hq), cut_nul_id by exact Hn. reflexivity.
  - destruct s as [|c s]; [congruence|]. inversion Ht; subst.
    exists c, s. split; [reflexivity|]. split; [unfold tokhead; rewrite H1; apply orb_true_r|]. intros f more.
    apply pstring_bare; trivial. apply headok_app. exact Hk.
Qed.

Lemma pstring_skip fuel g c r :
  gap false g -> stopb c = true -> length (g ++ c :: r) < fuel -> pstring fuel (g ++ c :: r) = pstring fuel (c :: r).
Proof.
  intros Hg Hc Hl. unfold pstring. rewrite ws_gap_tok by assumption.
  destruct fuel as [|f]; [lia|]. rewrite ws_stop by exact Hc. reflexivity.
Qed.

(* ------------------------------------------------------------------------------------------------ *)
(* terminators                                                                                       *)
(* ------------------------------------------------------------------------------------------------ *)
(* the end of a line: white space without a bare newline, possibly a // comment, then the newline *)
Inductive rnl : str -> Prop :=
| rn_nl g : gap true g -> rnl (g ++ [NL])
| rn_cnl g text : gap true g -> Forall (fun c => beq c NL = false) text -> rnl (g ++ SLASH :: SLASH :: text ++ [NL]).

(* [rterm o t]: t ends an entry.  o = false: ";" or the end of the line, after white space without a bare newline.
   o = true: nothing but the "}" that closes the enclosing object, which is written here but is left to be read
   again by the enclosing object (so this form is for the last entry of an object only). *)
Inductive rterm : bool -> str -> Prop :=
| rt_semi g : gap true g -> rterm false (g ++ [SEMI])
| rt_line t : rnl t -> rterm false t
| rt_open g : gap true g -> rterm true (g ++ [RB]).

Definition after (o : bool) (rest : str) : str := if o then RB :: rest else rest.
Definition termb (c : byte) : bool := (nb c =? 59)%N || (nb c =? 10)%N || (nb c =? 125)%N.
Lemma termb_alt c : (nb c =? 10)%N || (nb c =? 59)%N || (nb c =? 125)%N = termb c.
Proof. unfold termb. destruct (nb c =? 10)%N, (nb c =? 59)%N, (nb c =? 125)%N; reflexivity. Qed.

Lemma rnl_read t : rnl t -> forall fuel rest, length (t ++ rest) < fuel -> ws fuel true (t ++ rest) = (Some NL, rest).
Proof.
  intros H fuel rest Hl. destruct H as [g Hg|g text Hg Ht]; nrm.
  - rewrite Hg by exact Hl. destruct fuel as [|f]; [lia|]. reflexivity.
  - rewrite Hg by exact Hl. destruct fuel as [|f]; [lia|].
    rewrite ws_S. change (beq SLASH NL) with false. change (isspace SLASH) with false.
    change (negb (beq SLASH SLASH)) with false. change (beq SLASH STAR) with false. change (beq SLASH SLASH) with true. cbv iota.
    rewrite skip_line_nonl by exact Ht. destruct f as [|f]; [len|]. reflexivity.
Qed.

Lemma tail_nl f top k rest : tail_of (S f) top k (NL :: rest) = inr (k, rest).
Proof. reflexivity. Qed.
Lemma tail_rb f k rest : tail_of (S f) false k (RB :: rest) = inr (k, RB :: rest).
Proof. reflexivity. Qed.

Lemma rterm_read o t : rterm o t -> forall fuel top rest, (o = true -> top = false) -> length (t ++ rest) < fuel ->
  exists c2 r3, ws fuel true (t ++ rest) = (Some c2, r3) /\ termb c2 = true /\ length r3 < length (t ++ rest) /\
                forall k, tail_of fuel top k (c2 :: r3) = inr (k, after o rest).
Proof.
  intros H fuel top rest Ho Hl. destruct H as [g Hg|t Ht|g Hg]; nrm.
  - exists SEMI, rest. rewrite ws_gap_tok by (trivial; reflexivity). destruct fuel as [|f]; [lia|].
    split; [reflexivity|split; [reflexivity|split; [len|reflexivity]]].
  - exists NL, rest. rewrite (rnl_read t Ht) by exact Hl. destruct fuel as [|f]; [lia|].
    split; [reflexivity|split; [reflexivity|split; [|reflexivity]]]. destruct Ht; len.
  - exists RB, rest. rewrite ws_gap_tok by (trivial; reflexivity). destruct fuel as [|f]; [lia|].
    rewrite (Ho eq_refl). split; [reflexivity|split; [reflexivity|split; [len|reflexivity]]].
Qed.

Lemma rterm_tail o t fuel top k rest : rterm o t -> (o = true -> top = false) -> length (t ++ rest) < fuel ->
  tail_of fuel top k (t ++ rest) = inr (k, after o rest).
Proof.
  intros H Ho Hl. destruct (rterm_read o t H fuel top rest Ho Hl) as (c2 & r3 & Hw & Hb & Hlen & Ht). specialize (Ht k).
  unfold tail_of in *. rewrite Hw. destruct fuel as [|f]; [lia|].
  assert (Hs : stopb c2 = true \/ c2 = NL).
  { unfold termb in Hb. destruct (nb c2 =? 10)%N eqn:E.
    - right. apply N.eqb_eq in E. apply (f_equal Byte.of_N) in E. unfold nb in E. rewrite Byte.of_to_N in E. inversion E. reflexivity.
    - left. clear Ht. unfold stopb. apply andb_true_iff. split; apply negb_true_iff.
      + unfold isspace. destruct ((9 <=? nb c2)%N && (nb c2 <=? 13)%N || (nb c2 =? 32)%N) eqn:E2; [|reflexivity].
        rewrite orb_true_iff, andb_true_iff, !N.leb_le, N.eqb_eq in E2. rewrite !orb_true_iff, !N.eqb_eq in Hb. lia.
      + apply nb_beq_false. change (nb SLASH) with 47%N. rewrite !orb_true_iff, !N.eqb_eq in Hb. lia. }
  destruct Hs as [Hs|Hs].
  - rewrite ws_stop in Ht by exact Hs. exact Ht.
  - subst c2. exact Ht.
Qed.

(* ------------------------------------------------------------------------------------------------ *)
(* renderings                                                                                        *)
(* ------------------------------------------------------------------------------------------------ *)
(* the text after "(" up to and including ")"; a comma may follow the last item *)
Inductive ritems2 : list str -> str -> Prop :=
| ri2_nil g : gap false g -> ritems2 [] (g ++ [RP])
| ri2_last g1 g2 a ta : gap false g1 -> gap false g2 -> rstr a ta (g2 ++ [RP]) -> ritems2 [a] (g1 ++ ta ++ g2 ++ [RP])
| ri2_cons g1 g2 a ta l t : gap false g1 -> gap false g2 -> rstr a ta (g2 ++ COMMA :: t) -> ritems2 l t ->
    ritems2 (a :: l) (g1 ++ ta ++ g2 ++ COMMA :: t).

(* [rcomma o l t]: t is the text after a "," of a list written without parentheses, through the terminator:
   more items on the same line; a comma may follow the last item only when the line ends there *)
Inductive rcomma : bool -> list str -> str -> Prop :=
| rc_end t : rnl t -> rcomma false [] t
| rc_last o g1 a ta tt : gap true g1 -> rstr a ta tt -> rterm o tt -> rcomma o [a] (g1 ++ ta ++ tt)
| rc_cons o g1 g2 a ta l t : gap true g1 -> gap true g2 -> rstr a ta (g2 ++ COMMA :: t) -> rcomma o l t ->
    rcomma o (a :: l) (g1 ++ ta ++ g2 ++ COMMA :: t).

(* [rentry2 o n tv t]: t is a rendering of the entry, from the first byte of the name through the terminator
   (o = true: through the "}" of the enclosing object, see [rterm]).
   [rbody2 es t]: t is the text after "{" up to and including "}" *)
Inductive rentry2 : bool -> str -> tval -> str -> Prop :=
| re2_str o n tn v tv g2 tt : gap false g2 -> rstr n tn (g2 ++ tv) -> rstr v tv tt -> rterm o tt ->
    rentry2 o n (TStr v) (tn ++ g2 ++ tv ++ tt)
| re2_ina o n tn h th s ts g2 g3 tt : gap false g2 -> gap true g3 ->
    rstr n tn (g2 ++ th) -> rstr h th (g3 ++ ts) -> rstr s ts tt -> rterm o tt ->
    rentry2 o n (TIna h s) (tn ++ g2 ++ th ++ g3 ++ ts ++ tt)
| re2_list o n tn l g2 t tt : gap false g2 -> rstr n tn (g2 ++ LP :: t) -> ritems2 l t -> rterm o tt ->
    rentry2 o n (TList l) (tn ++ g2 ++ LP :: t ++ tt)
| re2_clist o n tn v tv l g2 g3 t : gap false g2 -> gap true g3 ->
    rstr n tn (g2 ++ tv) -> rstr v tv (g3 ++ COMMA :: t) -> rcomma o l t ->
    rentry2 o n (TList (v :: l)) (tn ++ g2 ++ tv ++ g3 ++ COMMA :: t)
| re2_obj o n tn es g2 t tt : gap false g2 -> rstr n tn (g2 ++ LB :: t) -> rbody2 es t -> rterm o tt ->
    rentry2 o n (TObj es) (tn ++ g2 ++ LB :: t ++ tt)
with rbody2 : list (str * tval) -> str -> Prop :=
| rb2_nil g : gap false g -> rbody2 [] (g ++ [RB])
| rb2_cons g n tv t es t' : gap false g -> rentry2 false n tv t -> rbody2 es t' -> rbody2 ((n, tv) :: es) (g ++ t ++ t')
| rb2_last g n tv t : gap false g -> rentry2 true n tv t -> rbody2 [(n, tv)] (g ++ t).

Scheme rentry2_min := Minimality for rentry2 Sort Prop
  with rbody2_min := Minimality for rbody2 Sort Prop.
Combined Scheme rentry2_rbody2_min from rentry2_min, rbody2_min.

(* the end of the file: white space, and possibly a // comment that the end of the file cuts short *)
Inductive fend : str -> Prop :=
| fe_gap g : gap false g -> fend g
| fe_line g text : gap false g -> Forall (fun c => beq c NL = false) text -> fend (g ++ SLASH :: SLASH :: text).

(* a whole file: entries, each with its own terminator *)
Inductive rfile2 : list (str * tval) -> str -> Prop :=
| rf2_nil w : fend w -> rfile2 [] w
| rf2_cons g n tv t es t' : gap false g -> rentry2 false n tv t -> rfile2 es t' -> rfile2 ((n, tv) :: es) (g ++ t ++ t').

(* ------------------------------------------------------------------------------------------------ *)
(* the old renderings are renderings                                                                 *)
(* ------------------------------------------------------------------------------------------------ *)
Lemma ritems_ritems2 l t : ritems l t -> ritems2 l t.
Proof.
  induction 1 as [g Hg|g1 g2 a Hg1 Hg2|g1 g2 a l t Hg1 Hg2 Hr IH].
  - apply ri2_nil. exact Hg.
  - apply ri2_last; trivial. apply rstr_quote.
  - apply ri2_cons; trivial. apply rstr_quote.
Qed.

Lemma rentry_rbody_2 :
  (forall n tv t, rentry n tv t -> rentry2 false n tv t) /\ (forall es t, rbody es t -> rbody2 es t).
Proof.
  apply rentry_rbody_min.
  - intros n v g2 g3 Hg2 Hg3. apply (re2_str false n (quote n) v (quote v) g2 (g3 ++ [SEMI])); trivial; try apply rstr_quote.
    apply rt_semi. exact Hg3.
  - intros n h s g2 g3 g4 Hg2 Hg3 Hg4.
    apply (re2_ina false n (quote n) h (quote h) s (quote s) g2 g3 (g4 ++ [SEMI])); trivial; try apply rstr_quote.
    apply rt_semi. exact Hg4.
  - intros n l g2 t g3 Hg2 Hr Hg3. apply (re2_list false n (quote n) l g2 t (g3 ++ [SEMI])); trivial; try apply rstr_quote.
    + apply ritems_ritems2. exact Hr.
    + apply rt_semi. exact Hg3.
  - intros n es g2 t g3 Hg2 _ IH Hg3. apply (re2_obj false n (quote n) es g2 t (g3 ++ [SEMI])); trivial; try apply rstr_quote.
    apply rt_semi. exact Hg3.
  - intros g Hg. apply rb2_nil. exact Hg.
  - intros g n tv t es t' Hg _ IHe _ IHb. apply rb2_cons; assumption.
Qed.

Theorem rfile_rfile2 es t : rfile es t -> rfile2 es t.
Proof.
  induction 1 as [g Hg|g n tv t es t' Hg Hr Hf IH].
  - apply rf2_nil. apply fe_gap. exact Hg.
  - apply rf2_cons; trivial. apply (proj1 rentry_rbody_2). exact Hr.
Qed.

(* ------------------------------------------------------------------------------------------------ *)
(* reading a rendering                                                                               *)
(* ------------------------------------------------------------------------------------------------ *)
Lemma rstr_head s t nxt : rstr s t nxt -> exists c t0, t = c :: t0 /\ tokhead c = true.
Proof.
  intros H. destruct H as [body nxt Hq|nxt Hne Ht Hk].
  - exists QUOTE, (body ++ [QUOTE]). split; reflexivity.
  - destruct s as [|c s]; [congruence|]. inversion Ht; subst. exists c, s. split; [reflexivity|].
    unfold tokhead. rewrite H1. apply orb_true_r.
Qed.

Lemma rentry2_head o n tv t : rentry2 o n tv t -> exists c t0, t = c :: t0 /\ tokhead c = true.
Proof.
  intros H.
  destruct H as [o n tn v tv g2 tt Hg2 Hn Hv Ht|o n tn h th s ts g2 g3 tt Hg2 Hg3 Hn Hh Hs Ht|o n tn l g2 t tt Hg2 Hn Hi Ht
                |o n tn v tv l g2 g3 t Hg2 Hg3 Hn Hv Hc|o n tn es g2 t tt Hg2 Hn Hb Ht];
    destruct (rstr_head _ _ _ Hn) as (c & t0 & -> & Hc0);
    exists c; eexists; (split; [cbn [app]; reflexivity|exact Hc0]).
Qed.

(* use what is known about the first byte of a token *)
Ltac hd :=
  repeat match goal with
  | E : (nb ?c =? ?k)%N = false |- context [(nb ?c =? ?k)%N] => rewrite E
  end; cbn [andb orb negb]; cbv beta iota.
Ltac tokread H Hn c t0 Hc Hp :=
  destruct (rstr_read _ _ _ H Hn) as (c & t0 & -> & Hc & Hp);
  destruct (tokhead_facts c Hc) as (? & ? & ? & ? & ? & ? & ? & ?).

Lemma plist_items2 l t : ritems2 l t ->
  forall fuel acc rest, Forall nonul l -> length (t ++ rest) < fuel -> plist fuel (t ++ rest) acc = inr (rev acc ++ l, rest).
Proof.
  induction 1 as [g Hg|g1 g2 a ta Hg1 Hg2 Ha|g1 g2 a ta l t Hg1 Hg2 Ha Hr IH]; intros fuel acc rest Hn Hl;
    (destruct fuel as [|f]; [lia|]); rewrite plist_S.
  - nrm. rewrite ws_gap_tok by (trivial; reflexivity). tokc. rewrite app_nil_r. reflexivity.
  - inversion Hn; subst. tokread Ha H1 c t0 Hc Hp. specialize (Hp f rest). nrm.
    rewrite ws_gap_tok by (trivial; len). hd. rewrite Hp. cbv beta iota.
    rewrite ws_gap_tok by (trivial; try reflexivity; len). tokc. reflexivity.
  - inversion Hn; subst. tokread Ha H1 c t0 Hc Hp. specialize (Hp f rest). nrm.
    rewrite ws_gap_tok by (trivial; len). hd. rewrite Hp. cbv beta iota.
    rewrite ws_gap_tok by (trivial; try reflexivity; len). tokc.
    rewrite IH by (trivial; len). cbn [rev]. rewrite <- app_assoc. reflexivity.
Qed.

Lemma pcomma_items o l t : rcomma o l t ->
  forall fuel top acc rest, Forall nonul l -> (o = true -> top = false) -> length (t ++ rest) < fuel ->
  exists r4, pcomma fuel (t ++ rest) acc = inr (rev acc ++ l, r4) /\ length r4 <= length (t ++ rest) /\
             forall k, tail_of fuel top k r4 = inr (k, after o rest).
Proof.
  induction 1 as [t Ht|o g1 a ta tt Hg1 Ha Ht|o g1 g2 a ta l t Hg1 Hg2 Ha Hr IH]; intros fuel top acc rest Hn Ho Hl;
    (destruct fuel as [|f]; [lia|]); rewrite pcomma_S.
  - rewrite (rnl_read t Ht) by exact Hl. tokc. exists (NL :: rest). rewrite app_nil_r.
    split; [reflexivity|]. split; [destruct Ht; len|]. reflexivity.
  - inversion Hn; subst. tokread Ha H1 c t0 Hc Hp. specialize (Hp f rest). nrm.
    rewrite ws_gap_tok by (trivial; len). hd. rewrite Hp. cbv beta iota.
    destruct (rterm_read o tt Ht (S f) top rest Ho ltac:(len)) as (c2 & r3 & Hw & Hb & Hlen & Htl).
    rewrite Hw. cbv beta iota. rewrite termb_alt, Hb. exists (c2 :: r3).
    split; [reflexivity|]. split; [len|exact Htl].
  - inversion Hn; subst. tokread Ha H1 c t0 Hc Hp. specialize (Hp f rest). nrm.
    rewrite ws_gap_tok by (trivial; len). hd. rewrite Hp. cbv beta iota.
    rewrite ws_gap_tok by (trivial; try reflexivity; len). tokc.
    destruct (IH f top (a :: acc) rest ltac:(assumption) Ho ltac:(len)) as (r4 & Hp4 & Hl4 & Ht4).
    exists r4. rewrite Hp4. cbn [rev]. rewrite <- app_assoc.
    split; [reflexivity|]. split; [len|]. intros k. rewrite <- (Ht4 k). apply tail_of_fuel; len.
Qed.

Lemma after_false rest : after false rest = rest.
Proof. reflexivity. Qed.

Lemma entry_rbody_read2 :
  (forall o n tv t, rentry2 o n tv t ->
     forall fuel d g rest kids, gap false g -> nonul n -> wfv tv -> (o = true -> d <> 0) ->
       d + vdepth tv <= max_depth -> length (g ++ t ++ rest) < fuel ->
       entry fuel d (g ++ t ++ rest) kids = inr (addv n tv kids, after o rest)) /\
  (forall es t, rbody2 es t ->
     forall f d fu rest ks, wf es -> S d + tdepth es <= max_depth -> length (t ++ rest) < f -> length (t ++ rest) + 1 < fu ->
       body_of (entry f (S d)) (S f) fu (t ++ rest) ks = inr (norm_into es ks, rest)).
Proof.
  apply rentry2_rbody2_min.
  - (* string *)
    intros o n tn v tv g2 tt Hg2 Rn Rv Rt fuel d g rest kids Hg Hn Hv Ho0 Hd Hl. inversion Hv; subst.
    assert (Ho : o = true -> Nat.eqb d 0 = false) by (intros X; apply Nat.eqb_neq; auto).
    destruct fuel as [|f]; [lia|]. rewrite entry_S. unfold entry_step.
    tokread Rn Hn cn tn0 Hcn Hpn. tokread Rv H0 cv tv0 Hcv Hpv.
    specialize (Hpn f (tt ++ rest)). specialize (Hpv f rest). nrm.
    rewrite pstring_skip by (trivial; len). rewrite Hpn. cbv beta iota.
    rewrite ws_gap_tok by (trivial; len). hd. rewrite Hpv. cbv beta iota.
    destruct (rterm_read o tt Rt (S f) (Nat.eqb d 0) rest Ho ltac:(len)) as (c2 & r3 & Hw & Hb & Hlen & Htl).
    rewrite Hw. cbv beta iota. change ((nb c2 =? 59)%N || (nb c2 =? 10)%N || (nb c2 =? 125)%N) with (termb c2).
    rewrite Hb, Htl. reflexivity.
  - (* host and service *)
    intros o n tn h th s ts g2 g3 tt Hg2 Hg3 Rn Rh Rs Rt fuel d g rest kids Hg Hn Hv Ho0 Hd Hl. inversion Hv; subst.
    assert (Ho : o = true -> Nat.eqb d 0 = false) by (intros X; apply Nat.eqb_neq; auto).
    destruct fuel as [|f]; [lia|]. rewrite entry_S. unfold entry_step.
    tokread Rn Hn cn tn0 Hcn Hpn. tokread Rh H1 ch th0 Hch Hph. tokread Rs H2 cs ts0 Hcs Hps.
    specialize (Hpn f (g3 ++ cs :: ts0 ++ tt ++ rest)). specialize (Hph f (tt ++ rest)). specialize (Hps f rest). nrm.
    rewrite pstring_skip by (trivial; len). rewrite Hpn. cbv beta iota.
    rewrite ws_gap_tok by (trivial; len). hd. rewrite Hph. cbv beta iota.
    rewrite ws_gap_tok by (trivial; len). hd. rewrite Hps. cbv beta iota.
    rewrite (rterm_tail o tt) by (trivial; len). reflexivity.
  - (* list in parentheses *)
    intros o n tn l g2 t tt Hg2 Rn Ri Rt fuel d g rest kids Hg Hn Hv Ho0 Hd Hl. inversion Hv; subst.
    assert (Ho : o = true -> Nat.eqb d 0 = false) by (intros X; apply Nat.eqb_neq; auto).
    destruct fuel as [|f]; [lia|]. rewrite entry_S. unfold entry_step.
    tokread Rn Hn cn tn0 Hcn Hpn. specialize (Hpn f (tt ++ rest)). nrm.
    rewrite pstring_skip by (trivial; len). rewrite Hpn. cbv beta iota.
    rewrite ws_gap_tok by (trivial; try reflexivity; len). tokc.
    rewrite (plist_items2 l t Ri) by (trivial; len). cbv beta iota. cbn [rev app].
    rewrite (rterm_tail o tt) by (trivial; len). reflexivity.
  - (* list without parentheses *)
    intros o n tn v tv l g2 g3 t Hg2 Hg3 Rn Rv Rc fuel d g rest kids Hg Hn Hv Ho0 Hd Hl. inversion Hv; subst.
    assert (Ho : o = true -> Nat.eqb d 0 = false) by (intros X; apply Nat.eqb_neq; auto).
    match goal with X : Forall nonul (v :: l) |- _ => inversion X; subst end.
    destruct fuel as [|f]; [lia|]. rewrite entry_S. unfold entry_step.
    tokread Rn Hn cn tn0 Hcn Hpn. tokread Rv H2 cv tv0 Hcv Hpv.
    specialize (Hpn f (g3 ++ COMMA :: t ++ rest)). specialize (Hpv f rest). nrm.
    rewrite pstring_skip by (trivial; len). rewrite Hpn. cbv beta iota.
    rewrite ws_gap_tok by (trivial; len). hd. rewrite Hpv. cbv beta iota.
    rewrite ws_gap_tok by (trivial; try reflexivity; len). tokc.
    destruct (pcomma_items o l t Rc (S f) (Nat.eqb d 0) [v] rest ltac:(assumption) Ho ltac:(len)) as (r4 & Hp4 & Hl4 & Ht4).
    rewrite Hp4, Ht4. reflexivity.
  - (* object *)
    intros o n tn es g2 t tt Hg2 Rn Rb IH Rt fuel d g rest kids Hg Hn Hv Ho0 Hd Hl. inversion Hv; subst.
    assert (Ho : o = true -> Nat.eqb d 0 = false) by (intros X; apply Nat.eqb_neq; auto).
    destruct fuel as [|f]; [lia|]. rewrite entry_S. unfold entry_step.
    tokread Rn Hn cn tn0 Hcn Hpn. specialize (Hpn f (tt ++ rest)). nrm.
    rewrite pstring_skip by (trivial; len). rewrite Hpn. cbv beta iota.
    rewrite ws_gap_tok by (trivial; try reflexivity; len). tokc.
    rewrite vdepth_obj in Hd.
    replace (Nat.leb max_depth d) with false by (symmetry; apply Nat.leb_gt; lia). cbv beta iota.
    rewrite IH by (trivial; len). cbv beta iota.
    rewrite (rterm_tail o tt) by (trivial; len). rewrite addv_obj. reflexivity.
  - (* end of object *)
    intros g Hg f d fu rest ks Hw Hd Hf Hfu.
    destruct fu as [|fu]; [lia|]. rewrite body_of_S. nrm.
    rewrite ws_gap_tok by (trivial; try reflexivity; len). tokc. reflexivity.
  - (* entry inside an object *)
    intros g n tv t es t' Hg Hr IHe Hb IHb f d fu rest ks Hw Hd Hf Hfu. inversion Hw; subst. cbn [tdepth] in Hd.
    destruct fu as [|fu]; [lia|]. rewrite body_of_S. rewrite <- !app_assoc in *.
    destruct (rentry2_head _ _ _ _ Hr) as (c & t0 & -> & Hc).
    destruct (tokhead_facts c Hc) as (? & ? & ? & ? & ? & ? & ? & ?). cbn [app] in *.
    rewrite ws_gap_tok by (trivial; len). hd.
    assert (X := IHe f (S d) [] (t' ++ rest) ks (gap_nil _)). cbn [app] in X.
    rewrite X by (trivial; len). cbv beta iota. rewrite after_false.
    apply IHb; trivial; len.
  - (* last entry of an object, without a terminator *)
    intros g n tv t Hg Hr IHe f d fu rest ks Hw Hd Hf Hfu. inversion Hw; subst. cbn [tdepth] in Hd.
    destruct fu as [|fu]; [lia|]. rewrite body_of_S. rewrite <- !app_assoc in *.
    destruct (rentry2_head _ _ _ _ Hr) as (c & t0 & -> & Hc).
    destruct (tokhead_facts c Hc) as (? & ? & ? & ? & ? & ? & ? & ?). cbn [app] in *.
    rewrite ws_gap_tok by (trivial; len). hd.
    assert (X := IHe f (S d) [] rest ks (gap_nil _)). cbn [app] in X.
    rewrite X by (trivial; len). cbv beta iota. cbn [after].
    destruct fu as [|fu]; [len|]. rewrite body_of_S. rewrite ws_stop by reflexivity. tokc. reflexivity.
Qed.

Theorem entry_read2 o n tv t fuel d g rest kids :
  rentry2 o n tv t -> gap false g -> nonul n -> wfv tv -> (o = true -> d <> 0) -> d + vdepth tv <= max_depth ->
  length (g ++ t ++ rest) < fuel ->
  entry fuel d (g ++ t ++ rest) kids = inr (addv n tv kids, after o rest).
Proof. intros H. apply (proj1 entry_rbody_read2); exact H. Qed.

Lemma fend_ws w fuel : fend w -> length w < fuel -> ws fuel false w = (None, []).
Proof.
  intros H Hl. destruct H as [g Hg|g text Hg Ht].
  - apply ws_gap_end; assumption.
  - rewrite Hg by exact Hl. destruct fuel as [|f]; [reflexivity|].
    rewrite ws_S. change (beq SLASH NL) with false. change (isspace SLASH) with false.
    change (negb (beq SLASH SLASH)) with false. change (beq SLASH STAR) with false. change (beq SLASH SLASH) with true. cbv iota.
    assert (E : skip_line text = []) by (clear - Ht; induction Ht as [|c t Hc _ IH]; cbn [skip_line]; [reflexivity|rewrite Hc; exact IH]).
    rewrite E. destruct f; reflexivity.
Qed.

(* explicit fuel: any amount of fuel that is at least length + 2 *)
Theorem entries_read2 es t : rfile2 es t ->
  forall fuel kids, wf es -> tdepth es <= max_depth -> length t + 2 <= fuel -> entries fuel t kids = inr (norm_into es kids).
Proof.
  induction 1 as [w Hw|g n tv t es t' Hg Hr Hf IH]; intros fuel kids Hwf Hd Hl.
  - destruct fuel as [|f]; [lia|]. rewrite entries_S. destruct w as [|c w]; [reflexivity|].
    rewrite entry_S. unfold entry_step. unfold pstring at 1.
    rewrite fend_ws by (trivial; lia). cbv beta iota.
    destruct f as [|f]; [cbn [length] in Hl; lia|]. reflexivity.
  - inversion Hwf; subst. cbn [tdepth] in Hd. destruct fuel as [|f]; [lia|].
    destruct (rentry2_head _ _ _ _ Hr) as (c & t0 & Et & Hc).
    rewrite entries_S_ne by (subst t; destruct g; discriminate).
    rewrite (entry_read2 false n tv t) by (trivial; try discriminate; len).
    rewrite after_false. apply IH; trivial; [lia|]. subst t. len.
Qed.

Lemma rfile2_nonempty es t : rfile2 es t -> es <> [] -> t <> [].
Proof.
  intros H He. destruct H as [|g n tv t es t' Hg Hr Hf]; [congruence|].
  destruct (rentry2_head _ _ _ _ Hr) as (c & t0 & -> & _). destruct g; discriminate.
Qed.

(* C16 for every rendering in the documented syntax *)
Theorem parse_renders2 es t :
  rfile2 es t -> wf es -> tdepth es <= max_depth -> es <> [] -> nonul t -> parse t = inr (norm es).
Proof.
  intros Hr Hw Hd He Hn. pose proof (rfile2_nonempty _ _ Hr He) as Ht.
  unfold parse. destruct t as [|c t]; [congruence|]. cbv zeta.
  rewrite cut_nul_id by exact Hn. apply entries_read2; trivial. lia.
Qed.

(* ------------------------------------------------------------------------------------------------ *)
(* examples: one text per feature, each an instance of the relation and of the theorem               *)
(* ------------------------------------------------------------------------------------------------ *)
From Coq Require Import Strings.String.
Local Open Scope string_scope.
Local Open Scope list_scope.

Ltac bare := apply rs_bare; [discriminate|repeat constructor|exact eq_refl].
Ltac fin := first [apply rf2_nil; apply fe_gap; apply gap_nil].
Ltac start := apply parse_renders2; [|repeat constructor|apply Nat.leb_le; vm_compute; reflexivity|discriminate|vm_compute; repeat constructor].

(* bare words, a newline as the terminator, a // comment before the newline *)
Example ex_bare_newline :
  let text := S_ "name value" ++ [NL] ++ S_ "port 6667 // comment" ++ [NL] in
  parse text = inr (norm [(S_ "name", TStr (S_ "value")); (S_ "port", TStr (S_ "6667"))])
  /\ parse text = inr [(S_ "name", VStr (S_ "value")); (S_ "port", VStr (S_ "6667"))].
Proof.
  cbv zeta. split; [|vm_compute; reflexivity]. start.
  apply (rf2_cons [] (S_ "name") (TStr (S_ "value")) (S_ "name" ++ [SP] ++ S_ "value" ++ ([] ++ [NL])) _
           ([] ++ (S_ "port" ++ [SP] ++ S_ "6667" ++ ([SP] ++ SLASH :: SLASH :: S_ " comment" ++ [NL])) ++ [])).
  - apply gap_nil.
  - apply re2_str; [apply gap_sp|bare|bare|]. apply rt_line. apply rn_nl. apply gap_nil.
  - apply rf2_cons; [apply gap_nil| |fin].
    apply re2_str; [apply gap_sp|bare|bare|]. apply rt_line. apply rn_cnl; [apply gap_sp|repeat constructor].
Qed.

(* a list without parentheses, quoted and bare items mixed; a trailing comma at the end of a line *)
Example ex_comma_list :
  let text := S_ "servers a.example , ""b c"",c-3;one 1, // just one" ++ [NL] in
  parse text = inr (norm [(S_ "servers", TList [S_ "a.example"; S_ "b c"; S_ "c-3"]); (S_ "one", TList [S_ "1"])])
  /\ parse text = inr [(S_ "one", VList [S_ "1"]); (S_ "servers", VList [S_ "a.example"; S_ "b c"; S_ "c-3"])].
Proof.
  cbv zeta. split; [|vm_compute; reflexivity]. start.
  apply (rf2_cons [] (S_ "servers") (TList [S_ "a.example"; S_ "b c"; S_ "c-3"])
           (S_ "servers" ++ [SP] ++ S_ "a.example" ++ [SP] ++ COMMA :: ([SP] ++ quote (S_ "b c") ++ [] ++ COMMA :: ([] ++ S_ "c-3" ++ ([] ++ [SEMI])))) _
           ([] ++ (S_ "one" ++ [SP] ++ S_ "1" ++ [] ++ COMMA :: ([SP] ++ SLASH :: SLASH :: S_ " just one" ++ [NL])) ++ [])).
  - apply gap_nil.
  - apply re2_clist; [apply gap_sp|apply gap_sp|bare|bare|].
    apply rc_cons; [apply gap_sp|apply gap_nil|apply rstr_quote|].
    apply rc_last; [apply gap_nil|bare|]. apply rt_semi. apply gap_nil.
  - apply rf2_cons; [apply gap_nil| |fin].
    apply re2_clist; [apply gap_sp|apply gap_nil|bare|bare|].
    apply rc_end. apply rn_cnl; [apply gap_sp|repeat constructor].
Qed.

(* no terminator before "}", at every level; the object itself ends with the line *)
Example ex_no_final_terminator :
  let text := S_ "o { a b; p{q r} }" ++ [NL] in
  parse text = inr (norm [(S_ "o", TObj [(S_ "a", TStr (S_ "b")); (S_ "p", TObj [(S_ "q", TStr (S_ "r"))])])])
  /\ parse text = inr [(S_ "o", VObj [(S_ "a", VStr (S_ "b")); (S_ "p", VObj [(S_ "q", VStr (S_ "r"))])])].
Proof.
  cbv zeta. split; [|vm_compute; reflexivity]. start.
  apply (rf2_cons [] (S_ "o") (TObj [(S_ "a", TStr (S_ "b")); (S_ "p", TObj [(S_ "q", TStr (S_ "r"))])])
           (S_ "o" ++ [SP] ++ LB :: ([SP] ++ (S_ "a" ++ [SP] ++ S_ "b" ++ ([] ++ [SEMI])) ++
                                     ([SP] ++ (S_ "p" ++ [] ++ LB :: ([] ++ (S_ "q" ++ [SP] ++ S_ "r" ++ ([] ++ [RB]))) ++ ([SP] ++ [RB]))))
                 ++ ([] ++ [NL])) _ []); [apply gap_nil| |fin].
  apply re2_obj; [apply gap_sp|bare| |apply rt_line; apply rn_nl; apply gap_nil].
  apply rb2_cons; [apply gap_sp| |].
  - apply re2_str; [apply gap_sp|bare|bare|apply rt_semi; apply gap_nil].
  - apply rb2_last; [apply gap_sp|].
    apply re2_obj; [apply gap_nil|bare| |apply rt_open; apply gap_sp].
    apply rb2_last; [apply gap_nil|].
    apply re2_str; [apply gap_sp|bare|bare|apply rt_open; apply gap_nil].
Qed.

(* a host/service pair in bare words, a name and its value on different lines, every kind of escape,
   a // comment that the end of the file cuts short *)
Example ex_pair_escapes :
  let text := S_ "server irc.example.org 6667;motd" ++ [NL] ++ S_ """\x41\n\q\""\\z"";// the end" in
  parse text = inr (norm [(S_ "server", TIna (S_ "irc.example.org") (S_ "6667")); (S_ "motd", TStr (S_ "A" ++ [NL] ++ S_ "q""\z"))])
  /\ parse text = inr [(S_ "motd", VStr (S_ "A" ++ [NL] ++ S_ "q""\z")); (S_ "server", VIna (Some (S_ "irc.example.org")) (Some (S_ "6667")))].
Proof.
  cbv zeta. split; [|vm_compute; reflexivity]. start.
  apply (rf2_cons [] (S_ "server") (TIna (S_ "irc.example.org") (S_ "6667"))
           (S_ "server" ++ [SP] ++ S_ "irc.example.org" ++ [SP] ++ S_ "6667" ++ ([] ++ [SEMI])) _
           ([] ++ (S_ "motd" ++ [NL] ++ (QUOTE :: S_ "\x41\n\q\""\\z" ++ [QUOTE]) ++ ([] ++ [SEMI])) ++ S_ "// the end")).
  - apply gap_nil.
  - apply re2_ina; [apply gap_sp|apply gap_sp|bare|bare|bare|apply rt_semi; apply gap_nil].
  - apply rf2_cons; [apply gap_nil| |].
    + apply re2_str; [apply gap_nl|bare| |apply rt_semi; apply gap_nil].
      apply rs_quote.
      apply (qe_hex x34 x31 4 1 _ _ eq_refl eq_refl).
      apply (qe_esc x6e _ _ eq_refl).
      apply (qe_esc x71 _ _ eq_refl).
      apply (qe_esc x22 _ _ eq_refl).
      apply (qe_esc x5c _ _ eq_refl).
      apply qe_lit; [reflexivity|reflexivity|apply qe_nil].
    + apply rf2_nil. apply (fe_line [] (S_ " the end")); [apply gap_nil|repeat constructor].
Qed.

(* what the model refuses, or accepts silently, outside the relation *)
Example model_limits :
  parse (S_ "a b") = inl ESemi                                    (* the end of the file is not a terminator *)
  /\ parse (S_ "a b // c") = inl ESemi                            (* nor is a comment cut short by it *)
  /\ parse (S_ "a b }") = inl ESemi                               (* "}" ends an entry only inside an object *)
  /\ parse (S_ "a b;;") = inl EString                             (* there is no empty entry *)
  /\ parse (S_ "a b,;") = inl EString                             (* a trailing comma needs the end of the line *)
  /\ parse (S_ "a (b c);") = inl EComma                           (* items in parentheses need commas *)
  /\ parse (S_ "o { a h" ++ [NL] ++ S_ "s };") = inl EString      (* host and service stay on one line *)
  /\ parse (S_ "a b; lonely") = inr [(S_ "a", VStr (S_ "b"))]     (* a last name without a value is dropped *)
  /\ parse (S_ "a b; /* open") = inr [(S_ "a", VStr (S_ "b"))]    (* an unclosed comment is the end of the file *)
  /\ parse (S_ "a""b""c;") = inr [(S_ "a", VIna (Some (S_ "b")) (Some (S_ "c")))]  (* quotes delimit without blanks *)
  /\ parse (S_ "a b, c" ++ [NL]) = inr [(S_ "a", VList [S_ "b"; S_ "c"])].
Proof. repeat split; vm_compute; reflexivity. Qed.

