(* The reference counts of the service slots against the requests that await them.

   RefInv s: for every slot k, the number of pending requests whose `refm` bit k is set (they are still owed an answer
   from slot k) is at most the reference count of the service in slot k; and if slot k is empty (or beyond the vector) there is no
   such request.  (At most, not equal: a request withdrawn or refused while a query is outstanding leaves its reference behind.)
   It holds initially and is preserved by every step and every reload.  Consequence (D30, repaired): the slots a reload refills were
   empty, so no pending request awaits an answer from them - `forget` never clears a bit of a slot that is still awaited. *)
From Coq Require Import List NArith ZArith Bool Strings.Byte Strings.String Lia.
Import ListNotations.
Require Import Params Iauth IauthInv Mon01 Stray ReloadEq.
Local Open Scope list_scope.

Definition slot_at (ss : list (option svc)) (k : N) : option (option svc) := nth_error ss (N.to_nat k).
Definition cnt (k : N) (l : list req) : nat := List.length (filter (fun r => N.testbit (refm r) k) l).
Definition b2n (b : bool) : nat := if b then 1 else 0.
Definition ok (o : option (option svc)) (n : nat) : Prop :=
  match o with Some (Some sv) => (Z.of_nat n <= s_refs sv)%Z | _ => n = O end.
Definition RefInv (s : st) : Prop := forall k, ok (slot_at (slots (tb s)) k) (cnt k (reqs s)).

Lemma ok_mono o n m : ok o n -> (m <= n)%nat -> ok o m.
Proof. destruct o as [[sv|]|]; cbn [ok]; lia. Qed.

(* ---------- counting ---------- *)
Lemma cnt_cons k r l : cnt k (r :: l) = (b2n (N.testbit (refm r) k) + cnt k l)%nat.
Proof. unfold cnt. cbn [filter]. destruct (N.testbit (refm r) k); reflexivity. Qed.

Lemma cnt_remove_lookup k id : forall l r, lookup id l = Some r -> cnt k l = (cnt k (remove id l) + b2n (N.testbit (refm r) k))%nat.
Proof.
  induction l as [|x t IH]; intros r H; cbn [lookup remove] in *; [discriminate|].
  destruct (cid x =? id)%Z.
  - inversion H; subst. rewrite cnt_cons. lia.
  - rewrite !cnt_cons. rewrite (IH r H). lia.
Qed.

Lemma cnt_remove_le k id l : (cnt k (remove id l) <= cnt k l)%nat.
Proof. induction l as [|x t IH]; cbn [remove]; [lia|]. destruct (cid x =? id)%Z; rewrite ?cnt_cons; lia. Qed.

Lemma cnt_put_lookup k r' : forall l r, lookup (cid r') l = Some r ->
  cnt k (put r' l) = (cnt k (remove (cid r') l) + b2n (N.testbit (refm r') k))%nat.
Proof.
  induction l as [|x t IH]; intros r H; cbn [lookup put remove] in *; [discriminate|].
  destruct (cid x =? cid r')%Z.
  - rewrite cnt_cons. lia.
  - rewrite !cnt_cons. rewrite (IH r H). lia.
Qed.

Lemma cnt_put_le k r' l : N.testbit (refm r') k = false -> (cnt k (put r' l) <= cnt k l)%nat.
Proof.
  intros Hb. induction l as [|x t IH]; cbn [put].
  - rewrite cnt_cons, Hb. cbn. lia.
  - destruct (cid x =? cid r')%Z; rewrite !cnt_cons; rewrite ?Hb; cbn [b2n]; lia.
Qed.

Lemma cnt_map_forget k idx l : cnt k (map (forget idx) l) = cnt k l.
Proof. induction l as [|x t IH]; cbn [map]; [reflexivity|]. rewrite !cnt_cons, IH. reflexivity. Qed.

(* ---------- one reference-count effect, slot by slot ---------- *)
Definition bump1 (d : Z) (o : option svc) : option svc :=
  match o with
  | Some s => let n := (s_refs s + d)%Z in
              if (n =? 0)%Z && negb (s_conf s) && (d <? 0)%Z then None
              else Some {| s_name := s_name s; s_type := s_type s; s_conf := s_conf s; s_refs := n |}
  | None => None
  end.

Lemma bump_nth ss : forall slot target d j,
  nth_error (bump ss slot target d) j =
  if (slot + N.of_nat j =? target)%N then option_map (bump1 d) (nth_error ss j) else nth_error ss j.
Proof.
  induction ss as [|o rest IH]; intros slot target d j; cbn [bump].
  - destruct j; cbn [nth_error option_map]; destruct (_ =? _)%N; reflexivity.
  - destruct (slot =? target)%N eqn:E.
    + apply N.eqb_eq in E. subst target. destruct j as [|j].
      * cbn [N.of_nat]. rewrite N.add_0_r, N.eqb_refl. destruct o; reflexivity.
      * replace (slot + N.of_nat (S j) =? slot)%N with false by (symmetry; apply N.eqb_neq; lia). destruct o; reflexivity.
    + destruct j as [|j].
      * cbn [N.of_nat]. rewrite N.add_0_r, E. reflexivity.
      * cbn [nth_error]. rewrite IH. replace (slot + 1 + N.of_nat j)%N with (slot + N.of_nat (S j))%N by lia. reflexivity.
Qed.

Lemma slot_at_bump ss target d k :
  slot_at (bump ss 0 target d) k = if (k =? target)%N then option_map (bump1 d) (slot_at ss k) else slot_at ss k.
Proof. unfold slot_at. rewrite bump_nth. rewrite N.add_0_l, N2Nat.id. reflexivity. Qed.

Lemma bump1_pos sv : bump1 1 (Some sv) = Some {| s_name := s_name sv; s_type := s_type sv; s_conf := s_conf sv; s_refs := s_refs sv + 1 |}.
Proof. unfold bump1. cbv zeta. change (1 <? 0)%Z with false. rewrite andb_false_r. reflexivity. Qed.

Lemma apply_effs_snoc ss efs e : apply_effs ss (efs ++ [e]) = bump (apply_effs ss efs) 0 (fst e) (snd e).
Proof. unfold apply_effs. rewrite fold_left_app. reflexivity. Qed.

(* increments never change which slots are occupied *)
Definition occ (o : option (option svc)) : bool := match o with Some (Some _) => true | _ => false end.
Definition Q (efs : list eff) : Prop := Forall (fun e => snd e = 1%Z) efs.

Lemma occ_apply efs : Q efs -> forall ss k, occ (slot_at (apply_effs ss efs) k) = occ (slot_at ss k).
Proof.
  induction 1 as [|e efs He Hq IH]; intros ss k; [reflexivity|].
  change (apply_effs ss (e :: efs)) with (apply_effs (bump ss 0 (fst e) (snd e)) efs).
  rewrite IH, slot_at_bump, He. destruct (k =? fst e)%N; [|reflexivity].
  destruct (slot_at ss k) as [[sv|]|]; cbn [option_map]; [rewrite bump1_pos|..]; reflexivity.
Qed.

(* ---------- the invariant while the effects of a step accumulate ---------- *)
(* base k = the requests OTHER than the one being handled that await slot k; m = the refm mask of the one being handled *)
Definition P (ss0 : list (option svc)) (base : N -> nat) (m : N) (efs : list eff) : Prop :=
  forall k, ok (slot_at (apply_effs ss0 efs) k) (base k + b2n (N.testbit m k)).

Lemma P_setbit ss0 base m efs slot : Q efs -> P ss0 base m efs -> occ (slot_at ss0 slot) = true ->
  Q (efs ++ [(slot, 1%Z)]) /\ P ss0 base (N.setbit m slot) (efs ++ [(slot, 1%Z)]).
Proof.
  intros Hq Hp Ho. split; [apply Forall_app; split; [exact Hq|repeat constructor]|].
  intros k. rewrite apply_effs_snoc. cbn [fst snd]. rewrite slot_at_bump. specialize (Hp k).
  destruct (N.eqb_spec k slot) as [->|Hn].
  - rewrite <- (occ_apply efs Hq ss0 slot) in Ho. destruct (slot_at (apply_effs ss0 efs) slot) as [[sv|]|]; try discriminate.
    cbn [option_map]. rewrite bump1_pos. cbn [ok s_refs] in *. rewrite N.setbit_eq. destruct (N.testbit m slot); cbn [b2n] in *; lia.
  - rewrite N.setbit_neq by (intro E; apply Hn; symmetry; exact E). exact Hp.
Qed.

Lemma P_release ss0 base m slot : P ss0 base m [] -> N.testbit m slot = true -> P ss0 base (N.clearbit m slot) [(slot, (-1)%Z)].
Proof.
  intros Hp Hb k. change (apply_effs ss0 [(slot, (-1)%Z)]) with (bump ss0 0 slot (-1)). rewrite slot_at_bump.
  specialize (Hp k). change (apply_effs ss0 []) with ss0 in Hp.
  destruct (N.eqb_spec k slot) as [->|Hn].
  - rewrite N.clearbit_eq. rewrite Hb in Hp. cbn [b2n] in *. destruct (slot_at ss0 slot) as [[sv|]|]; cbn [ok option_map] in *; try lia.
    unfold bump1. cbv zeta. destruct ((s_refs sv + -1 =? 0)%Z && negb (s_conf sv) && (-1 <? 0)%Z) eqn:E; cbn [ok s_refs]; [|lia].
    apply andb_true_iff in E as [E _]. apply andb_true_iff in E as [E _]. apply Z.eqb_eq in E. lia.
  - rewrite N.clearbit_neq by (intro E; apply Hn; symmetry; exact E). exact Hp.
Qed.

Lemma qpass_P ss0 base ss : forall slot ispw r outs efs,
  (forall j, nth_error ss j = nth_error ss0 (N.to_nat slot + j)) -> Q efs -> P ss0 base (refm r) efs ->
  Q (snd (qpass ss slot ispw r outs efs)) /\
  P ss0 base (refm (fst (fst (qpass ss slot ispw r outs efs)))) (snd (qpass ss slot ispw r outs efs)).
Proof.
  induction ss as [|o rest IH]; intros slot ispw r outs efs Hs Hq Hp; cbn [qpass]; [split; assumption|].
  assert (forall j, nth_error rest j = nth_error ss0 (N.to_nat (slot + 1) + j)) as Hs'.
  { intros j. replace (N.to_nat (slot + 1) + j)%nat with (N.to_nat slot + S j)%nat by lia. exact (Hs (S j)). }
  destruct o as [s|]; [|apply IH; assumption].
  destruct (negb (s_conf s) || skip_query (s_type s) slot ispw r); [apply IH; assumption|].
  destruct (P_setbit ss0 base (refm r) efs slot Hq Hp) as [Hq' Hp'].
  { unfold slot_at. specialize (Hs O). cbn [nth_error] in Hs. rewrite Nat.add_0_r in Hs. rewrite <- Hs. reflexivity. }
  apply IH; [exact Hs'|exact Hq'|exact Hp'].
Qed.

Lemma cont_P ss0 base ss : forall slot t r outs efs,
  (forall j, nth_error ss j = nth_error ss0 (N.to_nat slot + j)) -> Q efs -> P ss0 base (refm r) efs ->
  Q (snd (cont ss slot t r outs efs)) /\
  P ss0 base (refm (fst (fst (cont ss slot t r outs efs)))) (snd (cont ss slot t r outs efs)).
Proof.
  induction ss as [|o rest IH]; intros slot t r outs efs Hs Hq Hp; cbn [cont]; [split; assumption|].
  assert (forall j, nth_error rest j = nth_error ss0 (N.to_nat (slot + 1) + j)) as Hs'.
  { intros j. replace (N.to_nat (slot + 1) + j)%nat with (N.to_nat slot + S j)%nat by lia. exact (Hs (S j)). }
  destruct o as [s|]; [|apply IH; assumption].
  destruct (N.testbit (more r) slot && s_conf s); [|apply IH; assumption].
  destruct (P_setbit ss0 base (refm r) efs slot Hq Hp) as [Hq' Hp'].
  { unfold slot_at. specialize (Hs O). cbn [nth_error] in Hs. rewrite Nat.add_0_r in Hs. rewrite <- Hs. reflexivity. }
  apply IH; [exact Hs'|exact Hq'|exact Hp'].
Qed.

Lemma gate_refm c tb r r' : fst (gate c tb r) = Some r' -> refm r' = refm r.
Proof.
  unfold gate. destruct ((holds r =? 0)%Z && complete c r); [|intros E; inversion E; reflexivity].
  destruct ((soft r =? 0)%Z || f_tout r).
  - destruct (classify (slots tb) (rules tb) r). discriminate.
  - destruct (negb (f_sdone r)); intros E; inversion E; reflexivity.
Qed.

(* what a result (request or verdict, lines, effects) must satisfy for `finish` to keep the invariant *)
Definition Pres (ss0 : list (option svc)) (base : N -> nat) (res : option req * list out * list eff) : Prop :=
  exists m, P ss0 base m (snd res) /\ match fst (fst res) with Some r' => refm r' = m | None => True end.

Lemma gated_P c tb ss0 base r1 (pre : list out) (efs : list eff) : P ss0 base (refm r1) efs ->
  Pres ss0 base (let '(r', g) := gate c tb r1 in (r', pre ++ g, efs)).
Proof.
  intros Hp. pose proof (gate_refm c tb r1) as G. destruct (gate c tb r1) as [r' g]. exists (refm r1). split; [exact Hp|].
  cbn [fst]. destruct r' as [r'|]; [apply G; reflexivity|exact I].
Qed.

Lemma gated3_P c tb ss0 base r1 : P ss0 base (refm r1) [] ->
  Pres ss0 base (let '(r2, g) := gate c tb r1 in (r2, g, [])).
Proof. intros Hp. exact (gated_P c tb ss0 base r1 [] [] Hp). Qed.

Lemma after_P c tb base r ispw : P (slots tb) base (refm r) [] -> Pres (slots tb) base (after c tb r ispw).
Proof.
  intros Hp. unfold after.
  destruct (qpass_P (slots tb) base (slots tb) 0%N ispw r [] [] (fun j => eq_refl) (Forall_nil _) Hp) as [_ Hq].
  destruct (qpass (slots tb) 0%N ispw r [] []) as [[r1 o] efs]. cbn [fst snd] in Hq. apply gated_P. exact Hq.
Qed.

Lemma reply_P c tb base r svcn text : P (slots tb) base (refm r) [] -> Pres (slots tb) base (reply c tb r svcn text).
Proof.
  intros Hp. unfold reply.
  destruct (find_slot (slots tb) 0 svcn (refm r)) as [[slot t]|] eqn:Ef; [|exists (refm r); split; [exact Hp|reflexivity]].
  pose proof (find_slot_bit _ _ _ _ _ _ Ef) as Hb.
  pose proof (P_release _ _ _ slot Hp Hb) as Hr.
  assert (forall r1 (pre : list out), refm r1 = N.clearbit (refm r) slot ->
            Pres (slots tb) base (let '(r', g) := gate c tb r1 in (r', pre ++ g, [(slot, (-1)%Z)]))) as F.
  { intros r1 pre E. apply gated_P. rewrite E. exact Hr. }
  assert (Pres (slots tb) base (Some r, [], [])) as Same by (exists (refm r); split; [exact Hp|reflexivity]).
  cbv beta zeta.
  destruct text as [tx|].
  - destruct (seq_eq tx (S_ "OK")); [apply F; reflexivity|].
    destruct (prefix (S_ "OK ") tx).
    + destruct (negb (nonempty (upto sp (skipn 3 tx))) || is_drone t); apply F; reflexivity.
    + destruct (prefix (S_ "NO ") tx); [exists (refm r); split; [exact Hp|exact I]|].
      destruct (prefix (S_ "AGAIN ") tx); [apply F; reflexivity|].
      destruct (prefix (S_ "MORE ") tx); [apply F; reflexivity|exact Same].
  - apply F; reflexivity.
Qed.

Lemma password_P tb base r t : P (slots tb) base (refm r) [] ->
  P (slots tb) base (refm (fst (fst (password tb r t)))) (snd (password tb r t)).
Proof.
  intros Hp. unfold password.
  destruct ((more r =? 0)%N || negb (nonempty (pw r))).
  - destruct (negb (starts t x2b || starts t x2d)); [exact Hp|].
    destruct (modes _ _ _ _ _ _ _) as [[[[[rest0 sx] cx] sb] cb]|]; [|exact Hp].
    cbv zeta. destruct (negb (has sp (skipsp rest0))); [exact Hp|].
    apply (qpass_P (slots tb) base (slots tb) 0%N); [intros j; reflexivity|constructor|exact Hp].
  - apply (cont_P (slots tb) base (slots tb) 0%N); [intros j; reflexivity|constructor|exact Hp].
Qed.

Lemma handle_P c tb base r argv : P (slots tb) base (refm r) [] ->
  match handle c tb r argv with HFin res => Pres (slots tb) base res | _ => True end.
Proof.
  intros Hp.
  assert (forall r1, refm r1 = refm r ->
            Pres (slots tb) base (if with_xq c then after c tb r1 false else let '(r2, g) := gate c tb r1 in (r2, g, []))) as Aft.
  { intros r1 E. destruct (with_xq c); [apply after_P|apply gated3_P]; rewrite E; exact Hp. }
  assert (forall r1, refm r1 = refm r ->
            match (let '(r2, g) := gate c tb r1 in HFin (r2, g, [])) with HFin res => Pres (slots tb) base res | _ => True end) as Gt.
  { intros r1 E. pose proof (gated3_P c tb (slots tb) base r1) as G. rewrite E in G. specialize (G Hp).
    destruct (gate c tb r1) as [r2 g]. exact G. }
  unfold handle. cbv zeta.
  destruct (beq (cmdchar argv) x44 || beq (cmdchar argv) x54); [exact I|].
  destruct (beq (cmdchar argv) x21).
  { match goal with |- context [if ?b then _ else _] => destruct b end; [|exact I]. apply Gt; reflexivity. }
  destruct (beq (cmdchar argv) x4e).
  { destruct (arg 1 argv); [|exact I]. destruct (nonempty (host r)); [exact I|]. apply Aft; reflexivity. }
  destruct (beq (cmdchar argv) x64); [apply Aft; reflexivity|].
  destruct (beq (cmdchar argv) x75).
  { destruct (arg 1 argv); [apply Aft; reflexivity|]. destruct (nonempty (cliu r)); apply Aft; reflexivity. }
  destruct (beq (cmdchar argv) x6e).
  { destruct (arg 1 argv); [apply Aft; reflexivity|exact I]. }
  destruct (beq (cmdchar argv) x55).
  { destruct (arg 1 argv); [|exact I]. destruct (arg 2 argv); [apply Aft; reflexivity|exact I]. }
  destruct (beq (cmdchar argv) x48).
  { destruct (with_xq c) eqn:Ex.
    - pose proof (Aft (set_flags r true true true true (f_pass r)) eq_refl) as A. rewrite ?Ex in A. exact A.
    - pose proof (Aft (set_flags r true (f_ident r) (f_nick r) (f_user r) (f_pass r)) eq_refl) as A. rewrite ?Ex in A. exact A. }
  destruct (beq (cmdchar argv) x50); [|exact I].
  destruct (arg 1 argv) as [t|]; [|exact I].
  destruct (with_xq c); [|apply Gt; reflexivity].
  set (r0 := set_flags r (f_host r) (f_ident r) (f_nick r) (f_user r) true).
  pose proof (password_P tb base r0 t Hp) as Pw.
  destruct (password tb r0 t) as [[r1 o] efs]. cbn [fst snd] in Pw.
  pose proof (gated_P c tb (slots tb) base r1 o efs Pw) as G.
  destruct (gate c tb r1) as [r2 g]. exact G.
Qed.

(* ---------- finish ---------- *)
Lemma base_P s id r0 : RefInv s -> lookup id (reqs s) = Some r0 ->
  P (slots (tb s)) (fun k => cnt k (remove id (reqs s))) (refm r0) [].
Proof. intros HI Hl k. change (apply_effs (slots (tb s)) []) with (slots (tb s)). rewrite <- (cnt_remove_lookup k id _ _ Hl). apply HI. Qed.

Lemma finish_refinv s id r0 res : lookup id (reqs s) = Some r0 ->
  match fst (fst res) with Some r' => cid r' = id | None => True end ->
  Pres (slots (tb s)) (fun k => cnt k (remove id (reqs s))) res -> RefInv (fst (finish s id res)).
Proof.
  intros Hl Hc (m & Hp & Hm). destruct res as [[ro outs] efs]. cbn [fst snd] in *. unfold finish.
  destruct ro as [r'|]; intros k; cbn [fst reqs tb with_slots slots]; specialize (Hp k).
  - subst m. rewrite <- Hc in Hl. rewrite (cnt_put_lookup k r' _ _ Hl). rewrite Hc. exact Hp.
  - eapply ok_mono; [exact Hp|]. cbv beta. lia.
Qed.

Theorem step_refinv c s id argv : RefInv s -> RefInv (fst (step c s id argv)).
Proof.
  intros HI. rewrite step_eq.
  destruct (beq (cmdchar argv) x43).
  { unfold announce. destruct (arg 1 argv) as [a|], (arg 2 argv), (arg 3 argv), (arg 4 argv); try exact HI.
    destruct (announce_addr a) as [g txt]. intros k. cbn [fst reqs tb]. eapply ok_mono; [apply HI|].
    apply cnt_put_le. cbn [fresh refm]. apply N.bits_0. }
  destruct (beq (cmdchar argv) x58 || beq (cmdchar argv) x78).
  { unfold xstep, xreply. destruct (negb (with_xq c)); [exact HI|].
    destruct (arg 1 argv) as [svcn|]; [|exact HI]. destruct (arg 2 argv) as [tg|]; [|exact HI]. destruct (arg 3 argv) as [tx|]; [|exact HI].
    destruct (parse_tag tg) as [[tid tser]|]; [|exact HI]. destruct (lookup tid (reqs s)) as [r|] eqn:El; [|exact HI].
    destruct (ser r =? tser)%N; [|exact HI].
    pose proof (lookup_cid _ _ _ El) as Ec. rewrite <- Ec in El.
    apply (finish_refinv s (cid r) r); [exact El|exact (proj2 (reply_about c (tb s) r svcn _))|].
    apply reply_P. apply base_P; assumption. }
  destruct (lookup id (reqs s)) as [r|] eqn:El; [|exact HI].
  pose proof (handle_about c (tb s) r argv) as A. pose proof (handle_P c (tb s) _ r argv (base_P s id r HI El)) as Hh.
  destruct (handle c (tb s) r argv) as [o|res|]; cbn [apply_h fst].
  - exact HI.
  - apply (finish_refinv s id r); [exact El| |exact Hh]. destruct A as [_ A]. rewrite (lookup_cid _ _ _ El) in A. exact A.
  - intros k. cbn [reqs tb]. eapply ok_mono; [apply HI|apply cnt_remove_le].
Qed.

(* ---------- reload ---------- *)
Definition refs_of (o : option (option svc)) : option Z := match o with Some (Some sv) => Some (s_refs sv) | _ => None end.
(* slot by slot: an occupied slot stays occupied with the same count; an empty one stays empty or gets a service nobody refers to *)
Definition extj (o o' : option (option svc)) : Prop :=
  match refs_of o with Some z => refs_of o' = Some z | None => refs_of o' = None \/ refs_of o' = Some 0%Z end.
Definition ext (ss ss' : list (option svc)) : Prop := forall j, extj (nth_error ss j) (nth_error ss' j).

Lemma extj_refl o : extj o o.
Proof. unfold extj. destruct (refs_of o); [reflexivity|left; reflexivity]. Qed.
Lemma ext_refl ss : ext ss ss.
Proof. intros j. apply extj_refl. Qed.
Lemma ext_trans a b c : ext a b -> ext b c -> ext a c.
Proof.
  intros H1 H2 j. specialize (H1 j). specialize (H2 j). unfold extj in *.
  destruct (refs_of (nth_error a j)) as [z|].
  - rewrite H1 in H2. exact H2.
  - destruct H1 as [H1|H1]; rewrite H1 in H2; [exact H2|right; exact H2].
Qed.
Lemma ext_cons o o' a b : extj (Some o) (Some o') -> ext a b -> ext (o :: a) (o' :: b).
Proof. intros H1 H2 [|j]; cbn [nth_error]; [exact H1|apply H2]. Qed.

Lemma ext_unconf ss : ext ss (map unconf ss).
Proof. induction ss as [|o r IH]; cbn [map]; [apply ext_refl|]. apply ext_cons; [|exact IH]. destruct o; unfold extj; cbn [refs_of unconf s_refs]; [reflexivity|left; reflexivity]. Qed.
Lemma ext_fill ss n : ext ss (fill_empty ss (newsvc n)).
Proof.
  induction ss as [|o r IH]; cbn [fill_empty]; [apply ext_refl|]. destruct o as [s|].
  - apply ext_cons; [apply extj_refl|exact IH].
  - apply ext_cons; [right; reflexivity|apply ext_refl].
Qed.
Lemma ext_snoc ss n : ext ss (ss ++ [Some (newsvc n)]).
Proof.
  induction ss as [|o r IH]; cbn [app].
  - intros [|[|j]]; cbn [nth_error]; unfold extj; cbn [refs_of newsvc s_refs]; auto.
  - apply ext_cons; [apply extj_refl|exact IH].
Qed.
Lemma ext_retype ss n ty : ext ss (retype ss n ty).
Proof.
  induction ss as [|o r IH]; cbn [retype]; [apply ext_refl|]. destruct o as [s|].
  - destruct (seq_eq (s_name s) n).
    + apply ext_cons; [|apply ext_refl]. destruct ty; unfold extj; cbn [refs_of set_type s_refs]; reflexivity.
    + apply ext_cons; [apply extj_refl|exact IH].
  - apply ext_cons; [apply extj_refl|exact IH].
Qed.
Lemma ext_config_service ss n ty : ext ss (config_service ss n ty).
Proof.
  rewrite config_service_ensure. eapply ext_trans; [|apply ext_retype]. unfold ensure.
  destruct (find_name ss n); [apply ext_refl|]. destruct (free_index ss <? max_slots)%nat; [|apply ext_refl].
  destruct (has_empty ss); [apply ext_fill|apply ext_snoc].
Qed.
Lemma ext_fold entries : forall ss, ext ss (fold_left (fun acc e => config_service acc (fst e) (snd e)) entries ss).
Proof.
  induction entries as [|e es IH]; intros ss; cbn [fold_left]; [apply ext_refl|].
  eapply ext_trans; [apply ext_config_service|apply IH].
Qed.

Lemma ok_services_changed ss svs k n : ok (slot_at ss k) n -> ok (slot_at (services_changed ss svs) k) n.
Proof.
  intros H. unfold services_changed, slot_at in *. rewrite nth_error_map.
  pose proof (ext_trans _ _ _ (ext_unconf ss) (ext_fold svs (map unconf ss)) (N.to_nat k)) as E. unfold extj in E.
  destruct (nth_error ss (N.to_nat k)) as [[sv|]|]; cbn [refs_of ok] in *.
  - destruct (nth_error _ (N.to_nat k)) as [[sv'|]|]; cbn [refs_of] in E; try discriminate. inversion E as [E'].
    cbn [option_map unref]. destruct ((0 <? s_refs sv')%Z || s_conf sv') eqn:C; cbn [ok]; [lia|].
    apply orb_false_iff in C as [C _]. apply Z.ltb_ge in C. lia.
  - subst n. destruct (nth_error _ (N.to_nat k)) as [[sv'|]|]; cbn [option_map unref ok]; try reflexivity.
    destruct E as [E|E]; cbn [refs_of] in E; [discriminate|]. inversion E as [E'].
    destruct (_ || _); cbn [ok]; [rewrite E'; reflexivity|reflexivity].
  - subst n. destruct (nth_error _ (N.to_nat k)) as [[sv'|]|]; cbn [option_map unref ok]; try reflexivity.
    destruct E as [E|E]; cbn [refs_of] in E; [discriminate|]. inversion E as [E'].
    destruct (_ || _); cbn [ok]; [rewrite E'; reflexivity|reflexivity].
Qed.

Theorem step_ev_refinv c s e : RefInv s -> RefInv (fst (step_ev c s e)).
Proof.
  intros HI. destruct e as [id argv|svs rs t]; cbn [step_ev]; [apply step_refinv; exact HI|].
  intros k. cbn [fst reqs tb slots]. rewrite cnt_map_forget. apply ok_services_changed. apply HI.
Qed.

Lemma init_refinv c services rs t : RefInv (init c services rs t).
Proof.
  intros k. cbn [init reqs tb slots]. apply ok_services_changed. unfold slot_at. destruct (N.to_nat k); reflexivity.
Qed.

Theorem run_refinv c s0 evs : RefInv s0 -> RefInv (fold_left (fun s e => fst (step_ev c s e)) evs s0).
Proof.
  revert s0. induction evs as [|e evs IH]; intros s0 H0; cbn [fold_left]; [exact H0|]. apply IH, step_ev_refinv, H0.
Qed.

Corollary run_refinv_init c services rs t evs : RefInv (fold_left (fun s e => fst (step_ev c s e)) evs (init c services rs t)).
Proof. apply run_refinv, init_refinv. Qed.

(* ---------- what it says ---------- *)
(* a slot some pending request awaits is occupied, by a service with a positive reference count *)
Theorem awaited_slot_is_occupied s r k : RefInv s -> In r (reqs s) -> N.testbit (refm r) k = true ->
  exists sv, nth_error (slots (tb s)) (N.to_nat k) = Some (Some sv) /\ (0 < s_refs sv)%Z.
Proof.
  intros HI Hr Hb. specialize (HI k). unfold slot_at in HI.
  assert (0 < cnt k (reqs s))%nat as Hc.
  { unfold cnt. assert (In r (filter (fun r => N.testbit (refm r) k) (reqs s))) as Hin by (apply filter_In; split; assumption).
    destruct (filter _ (reqs s)); [destruct Hin|cbn [List.length]; lia]. }
  destruct (nth_error (slots (tb s)) (N.to_nat k)) as [[sv|]|]; cbn [ok] in HI; try lia.
  exists sv. split; [reflexivity|lia].
Qed.

(* D30, repaired: the slots that a reload refills are awaited by nobody - `forget` clears no bit of a slot still awaited *)
Theorem refilled_slot_is_not_awaited s new r i : RefInv s -> In r (reqs s) -> In i (refilled (slots (tb s)) new 0) ->
  N.testbit (refm r) i = false.
Proof.
  intros HI Hr Hi. apply refilled_was_empty in Hi.
  destruct (N.testbit (refm r) i) eqn:E; [|reflexivity].
  destruct (awaited_slot_is_occupied s r i HI Hr E) as (sv & Hs & _). rewrite Hs in Hi. discriminate.
Qed.

