(* The integer-key model SetOps.v (the one that is extracted and run against the C code) is the instance of the generic
   container SetGen.v at the integer comparator; hence every generic theorem holds for SetOps.run.
   SetOps.v is left untouched, so its extraction is unchanged; the link is a step-by-step equality through the
   obvious record/constructor renamings. *)
From Coq Require Import List ZArith NArith Bool Lia Permutation.
Import ListNotations.
Require Import Splay SplayRoot.
Require SetOps SetGen.
Require Import Comparators.
Local Open Scope Z_scope.

(* the comparator of SetOps.v on keys *)
Definition cmpZ (a b : Z) : Z := match Z.compare a b with Lt => -1 | Eq => 0 | Gt => 1 end.

Lemma cmpk_is_instance : SetOps.cmpk = SetGen.cmpe Z cmpZ.
Proof. reflexivity. Qed.
(* ... and it is, pointwise, the C comparator set_compare_int *)
Lemma cmpZ_is_cmp_int a b : cmpZ a b = cmp_int a b.
Proof. unfold cmpZ. destruct (cmp_int_spec a b) as [[H E]|[[H E]|[H E]]]; rewrite E; destruct (Z.compare_spec a b); lia. Qed.
Lemma cmpk_is_cmp_int d e : SetOps.cmpk d e = cmp_int (fst d) (fst e).
Proof. apply cmpZ_is_cmp_int. Qed.

Theorem cmpZ_total_preorder : total_preorder cmpZ.
Proof.
  destruct cmp_int_total_preorder as [A T E L].
  split; intros *; rewrite !cmpZ_is_cmp_int; [apply A|apply T|apply E|apply L].
Qed.

(* ---------- renamings ---------- *)
Definition gset (s : SetOps.set) : SetGen.set Z :=
  {| SetGen.root := SetOps.root s; SetGen.chain := SetOps.chain s; SetGen.count := SetOps.count s |}.
Definition gst (st : SetOps.set * N) : SetGen.set Z * N := (gset (fst st), snd st).
Definition gop (o : SetOps.op) : SetGen.op Z :=
  match o with
  | SetOps.OIns k => SetGen.OIns Z k | SetOps.OFind k => SetGen.OFind Z k | SetOps.OLower k => SetGen.OLower Z k
  | SetOps.ORem k nd => SetGen.ORem Z k nd | SetOps.OClear nd => SetGen.OClear Z nd | SetOps.OShow => SetGen.OShow Z
  end.
Definition gout (x : SetOps.out) : SetGen.out Z :=
  match x with
  | SetOps.XIns => SetGen.XIns Z | SetOps.XFind o => SetGen.XFind Z o | SetOps.XLower o => SetGen.XLower Z o
  | SetOps.XRem b => SetGen.XRem Z b | SetOps.XClear => SetGen.XClear Z | SetOps.XDispose e => SetGen.XDispose Z e
  | SetOps.XShow t c n => SetGen.XShow Z t c n
  end.

(* ---------- the chain primitives coincide ---------- *)
Lemma same_eq a b : SetOps.same a b = SetGen.same Z cmpZ a b.
Proof.
  unfold SetOps.same, SetGen.same, SetGen.cmpe, cmpZ. f_equal.
  destruct (Z.compare_spec (fst a) (fst b)) as [H|H|H]; [apply Z.eqb_eq; exact H|apply Z.eqb_neq; lia|apply Z.eqb_neq; lia].
Qed.
Lemma ins_before_eq x e l : SetOps.ins_before x e l = SetGen.ins_before Z cmpZ x e l.
Proof. induction l as [|y r IH]; cbn [SetOps.ins_before SetGen.ins_before]; [reflexivity|]. rewrite same_eq, IH. reflexivity. Qed.
Lemma ins_after_eq x e l : SetOps.ins_after x e l = SetGen.ins_after Z cmpZ x e l.
Proof. induction l as [|y r IH]; cbn [SetOps.ins_after SetGen.ins_after]; [reflexivity|]. rewrite same_eq, IH. reflexivity. Qed.
Lemma repl_eq x e l : SetOps.repl x e l = SetGen.repl Z cmpZ x e l.
Proof. induction l as [|y r IH]; cbn [SetOps.repl SetGen.repl]; [reflexivity|]. rewrite same_eq, IH. reflexivity. Qed.
Lemma del_eq x l : SetOps.del x l = SetGen.del Z cmpZ x l.
Proof. induction l as [|y r IH]; cbn [SetOps.del SetGen.del]; [reflexivity|]. rewrite same_eq, IH. reflexivity. Qed.
Lemma next_of_eq x l : SetOps.next_of x l = SetGen.next_of Z cmpZ x l.
Proof. induction l as [|y r IH]; cbn [SetOps.next_of SetGen.next_of]; [reflexivity|]. rewrite same_eq, IH. reflexivity. Qed.

(* ---------- the operations coincide ---------- *)
Lemma insert_eq s e :
  SetGen.insert Z cmpZ (gset s) e = (gset (fst (SetOps.insert s e)), snd (SetOps.insert s e)).
Proof.
  destruct s as [t c n]. unfold SetGen.insert, SetOps.insert, gset.
  cbn [SetOps.root SetOps.chain SetOps.count SetGen.root SetGen.chain SetGen.count].
  destruct t as [|l0 k0 r0]; [reflexivity|]. rewrite cmpk_is_instance. change SetOps.el with (SetGen.el Z).
  destruct (splay (SetGen.el Z) (SetGen.cmpe Z cmpZ) e (Node (SetGen.el Z) l0 k0 r0)) as [[|l k r] cc]; [reflexivity|].
  destruct (cc <? 0); [cbn; rewrite ins_before_eq; reflexivity|].
  destruct (cc >? 0); [cbn; rewrite ins_after_eq; reflexivity|].
  cbn; rewrite repl_eq; reflexivity.
Qed.
Lemma find_eq s d :
  SetGen.find Z cmpZ (gset s) d = (gset (fst (SetOps.find s d)), snd (SetOps.find s d)).
Proof.
  destruct s as [t c n]. unfold SetGen.find, SetOps.find, gset.
  cbn [SetOps.root SetOps.chain SetOps.count SetGen.root SetGen.chain SetGen.count].
  destruct t as [|l0 k0 r0]; [reflexivity|]. rewrite cmpk_is_instance. change SetOps.el with (SetGen.el Z).
  destruct (splay (SetGen.el Z) (SetGen.cmpe Z cmpZ) d (Node (SetGen.el Z) l0 k0 r0)) as [[|l k r] cc]; reflexivity.
Qed.
Lemma lower_eq s d :
  SetGen.lower Z cmpZ (gset s) d = (gset (fst (SetOps.lower s d)), snd (SetOps.lower s d)).
Proof.
  destruct s as [t c n]. unfold SetGen.lower, SetOps.lower, gset.
  cbn [SetOps.root SetOps.chain SetOps.count SetGen.root SetGen.chain SetGen.count].
  destruct t as [|l0 k0 r0]; [reflexivity|]. rewrite cmpk_is_instance. change SetOps.el with (SetGen.el Z).
  destruct (splay (SetGen.el Z) (SetGen.cmpe Z cmpZ) d (Node (SetGen.el Z) l0 k0 r0)) as [[|l k r] cc]; [reflexivity|].
  cbn. rewrite next_of_eq. reflexivity.
Qed.
Lemma remove_eq s d nd :
  SetGen.remove Z cmpZ (gset s) d nd =
    (gset (fst (fst (SetOps.remove s d nd))), snd (fst (SetOps.remove s d nd)), snd (SetOps.remove s d nd)).
Proof.
  destruct s as [t c n]. unfold SetGen.remove, SetOps.remove, gset.
  cbn [SetOps.root SetOps.chain SetOps.count SetGen.root SetGen.chain SetGen.count].
  destruct t as [|l0 k0 r0]; [reflexivity|]. rewrite cmpk_is_instance. change SetOps.el with (SetGen.el Z).
  destruct (splay (SetGen.el Z) (SetGen.cmpe Z cmpZ) d (Node (SetGen.el Z) l0 k0 r0)) as [[|l k r] cc]; [reflexivity|].
  destruct (negb (cc =? 0)); [reflexivity|]. cbn. rewrite del_eq. reflexivity.
Qed.
Lemma clear_eq s nd :
  SetGen.clear Z (gset s) nd = (gset (fst (SetOps.clear s nd)), snd (SetOps.clear s nd)).
Proof. reflexivity. Qed.

Lemma map_gout_dispose d x : map gout (map SetOps.XDispose d ++ [x]) = map (SetGen.XDispose Z) d ++ [gout x].
Proof. rewrite map_app, map_map. reflexivity. Qed.

Lemma step_eq st o :
  SetGen.step Z cmpZ (gst st) (gop o) = (gst (fst (SetOps.step st o)), map gout (snd (SetOps.step st o))).
Proof.
  destruct st as [s tg]. unfold gst. cbn [fst snd].
  destruct o as [k|k|k|k nd|nd|]; cbn [gop SetGen.step SetOps.step].
  - rewrite insert_eq. destruct (SetOps.insert s (k, (tg + 1)%N)) as [s' d]. cbn [fst snd]. rewrite map_gout_dispose. reflexivity.
  - rewrite find_eq. destruct (SetOps.find s (k, 0%N)) as [s' r]. reflexivity.
  - rewrite lower_eq. destruct (SetOps.lower s (k, 0%N)) as [s' r]. reflexivity.
  - rewrite remove_eq. destruct (SetOps.remove s (k, 0%N) nd) as [[s' b] d]. cbn [fst snd]. rewrite map_gout_dispose. reflexivity.
  - rewrite clear_eq. destruct (SetOps.clear s nd) as [s' d]. cbn [fst snd]. rewrite map_gout_dispose. reflexivity.
  - destruct s as [t c n]. reflexivity.
Qed.

Lemma run_from_is_frun st ops : SetOps.run_from st ops = SetGen.frun _ _ _ SetOps.step st ops.
Proof. reflexivity. Qed.

Lemma rrun_eq ops : forall st,
  SetGen.rrun _ _ _ (SetGen.step Z cmpZ) (gst st) (map gop ops) =
    (gst (fst (SetGen.rrun _ _ _ SetOps.step st ops)), map gout (snd (SetGen.rrun _ _ _ SetOps.step st ops))).
Proof.
  induction ops as [|o r IH]; intros st; cbn [map SetGen.rrun]; [reflexivity|].
  rewrite step_eq. destruct (SetOps.step st o) as [st1 o1]. cbn [fst snd]. rewrite IH.
  destruct (SetGen.rrun _ _ _ SetOps.step st1 r) as [st2 o2]. cbn [fst snd]. rewrite map_app. reflexivity.
Qed.

(* SetOps.run_from is SetGen.run_from at (Z, cmpZ), up to renaming *)
Theorem run_from_eq ops :
  SetGen.run_from Z cmpZ (SetGen.init Z) (map gop ops) =
    (gst (fst (SetOps.run_from SetOps.init ops)), map gout (snd (SetOps.run_from SetOps.init ops))).
Proof.
  rewrite run_from_is_frun. unfold SetGen.run_from. rewrite !SetGen.frun_rrun.
  exact (rrun_eq ops SetOps.init).
Qed.
Theorem run_eq ops : SetGen.run Z cmpZ (map gop ops) = map gout (SetOps.run ops).
Proof. unfold SetGen.run, SetOps.run. rewrite run_from_eq. reflexivity. Qed.

(* ================= the theorems for the extracted integer model ================= *)
Definition InvI (s : SetOps.set) : Prop := SetGen.Inv Z cmpZ (gset s).
Definition obsI (x : SetOps.out) : SetGen.sout Z := SetGen.obs Z (gout x).

(* InvI in SetOps.v's own vocabulary *)
Lemma InvI_unfold s : InvI s <->
  bst SetOps.el SetOps.cmpk (SetOps.root s) /\ SetOps.chain s = inorder SetOps.el (SetOps.root s) /\
  SetOps.count s = length (SetOps.chain s).
Proof. destruct s; reflexivity. Qed.

Theorem run_inv_int ops : InvI (fst (fst (SetOps.run_from SetOps.init ops))).
Proof.
  pose proof (tp_run_inv Z cmpZ cmpZ_total_preorder (map gop ops)) as H. rewrite run_from_eq in H. exact H.
Qed.

Theorem find_spec_int s d : InvI s ->
  InvI (fst (SetOps.find s d)) /\ SetOps.chain (fst (SetOps.find s d)) = SetOps.chain s /\
  snd (SetOps.find s d) = SetGen.s_find Z cmp_int (fst d) (SetOps.chain s).
Proof.
  intros H. destruct cmpZ_total_preorder as [A T E L].
  pose proof (SetGen.find_spec Z cmpZ A T E L (gset s) d H) as S. rewrite find_eq in S. cbn [fst snd] in S.
  rewrite <- (SetGen.s_find_ext Z cmpZ cmp_int cmpZ_is_cmp_int). exact S.
Qed.
Theorem lower_spec_int s d : InvI s ->
  InvI (fst (SetOps.lower s d)) /\ SetOps.chain (fst (SetOps.lower s d)) = SetOps.chain s /\
  snd (SetOps.lower s d) = SetGen.s_lower Z cmp_int (fst d) (SetOps.chain s).
Proof.
  intros H. destruct cmpZ_total_preorder as [A T E L].
  pose proof (SetGen.lower_spec Z cmpZ A T E L (gset s) d H) as S. rewrite lower_eq in S. cbn [fst snd] in S.
  rewrite <- (SetGen.s_lower_ext Z cmpZ cmp_int cmpZ_is_cmp_int). exact S.
Qed.
Theorem insert_spec_int s e : InvI s ->
  InvI (fst (SetOps.insert s e)) /\ SetOps.chain (fst (SetOps.insert s e)) = fst (SetGen.s_insert Z cmp_int e (SetOps.chain s)) /\
  snd (SetOps.insert s e) = SetGen.optl (snd (SetGen.s_insert Z cmp_int e (SetOps.chain s))).
Proof.
  intros H. destruct cmpZ_total_preorder as [A T E L].
  pose proof (SetGen.insert_spec Z cmpZ A T E L (gset s) e H) as S. rewrite insert_eq in S. cbn [fst snd] in S.
  rewrite <- (SetGen.s_insert_ext Z cmpZ cmp_int cmpZ_is_cmp_int). exact S.
Qed.
Theorem remove_spec_int s d nd : InvI s ->
  InvI (fst (fst (SetOps.remove s d nd))) /\
  SetOps.chain (fst (fst (SetOps.remove s d nd))) = fst (SetGen.s_remove Z cmp_int (fst d) (SetOps.chain s)) /\
  snd (fst (SetOps.remove s d nd)) = SetGen.is_some (snd (SetGen.s_remove Z cmp_int (fst d) (SetOps.chain s))) /\
  snd (SetOps.remove s d nd) = if nd then [] else SetGen.optl (snd (SetGen.s_remove Z cmp_int (fst d) (SetOps.chain s))).
Proof.
  intros H. destruct cmpZ_total_preorder as [A T E L].
  pose proof (SetGen.remove_spec Z cmpZ A T E L (gset s) d nd H) as S. rewrite remove_eq in S. cbn [fst snd] in S.
  rewrite <- (SetGen.s_remove_ext Z cmpZ cmp_int cmpZ_is_cmp_int). exact S.
Qed.
Theorem clear_spec_int s nd :
  InvI (fst (SetOps.clear s nd)) /\ SetOps.chain (fst (SetOps.clear s nd)) = [] /\
  snd (SetOps.clear s nd) = if nd then [] else SetOps.chain s.
Proof. exact (SetGen.clear_spec Z cmpZ (gset s) nd). Qed.

(* the extracted model, observed without the tree shape, is the sorted association list under set_compare_int *)
Theorem run_refines_sorted_map_SetOps ops : map obsI (SetOps.run ops) = SetGen.spec_run Z cmp_int (map gop ops).
Proof.
  rewrite <- (SetGen.spec_run_ext Z cmpZ cmp_int cmpZ_is_cmp_int).
  rewrite <- (tp_run_refines_sorted_map Z cmpZ cmpZ_total_preorder). rewrite run_eq, map_map. reflexivity.
Qed.

(* ---------- the ledger, in SetOps.v's own vocabulary ---------- *)
Definition disposalsI (outs : list SetOps.out) : list SetOps.el :=
  flat_map (fun x => match x with SetOps.XDispose e => [e] | _ => [] end) outs.
Definition released_byI (s : SetOps.set) (o : SetOps.op) : list SetOps.el :=
  match o with
  | SetOps.ORem k true => snd (SetOps.remove s (k, 0%N) false)
  | SetOps.OClear true => snd (SetOps.clear s false)
  | _ => []
  end.
Fixpoint released_fromI (st : SetOps.set * N) (ops : list SetOps.op) : list SetOps.el :=
  match ops with
  | [] => []
  | o :: r => released_byI (fst st) o ++ released_fromI (fst (SetOps.step st o)) r
  end.
Fixpoint inserted_fromI (tg : N) (ops : list SetOps.op) : list SetOps.el :=
  match ops with
  | [] => []
  | SetOps.OIns k :: r => (k, (tg + 1)%N) :: inserted_fromI (tg + 1)%N r
  | _ :: r => inserted_fromI tg r
  end.

Lemma disposals_eq outs : SetGen.disposals Z (map gout outs) = disposalsI outs.
Proof.
  unfold SetGen.disposals, disposalsI. induction outs as [|x r IH]; cbn [map flat_map]; [reflexivity|].
  rewrite IH. destruct x; reflexivity.
Qed.
Lemma inserted_eq ops : forall tg, SetGen.inserted_from Z tg (map gop ops) = inserted_fromI tg ops.
Proof.
  induction ops as [|o r IH]; intros tg; [reflexivity|].
  destruct o; cbn [map gop SetGen.inserted_from inserted_fromI]; rewrite IH; reflexivity.
Qed.
Lemma released_by_eq s o : SetGen.released_by Z cmpZ (gset s) (gop o) = released_byI s o.
Proof.
  destruct o as [k|k|k|k nd|nd|]; [reflexivity|reflexivity|reflexivity| |destruct nd; reflexivity|reflexivity].
  destruct nd; [|reflexivity]. cbn [gop SetGen.released_by released_byI]. rewrite remove_eq. reflexivity.
Qed.
Lemma released_eq ops : forall st, SetGen.released_from Z cmpZ (gst st) (map gop ops) = released_fromI st ops.
Proof.
  induction ops as [|o r IH]; intros st; [reflexivity|].
  cbn [map SetGen.released_from released_fromI]. rewrite step_eq. cbn [fst]. rewrite IH.
  f_equal. destruct st as [s tg]. apply released_by_eq.
Qed.

Theorem dispose_exactly_once_SetOps ops :
  let acct := disposalsI (SetOps.run ops) ++ SetOps.chain (fst (fst (SetOps.run_from SetOps.init ops)))
              ++ released_fromI SetOps.init ops in
  Permutation (inserted_fromI 0%N ops) acct /\ NoDup (map snd acct).
Proof.
  pose proof (tp_dispose_exactly_once Z cmpZ cmpZ_total_preorder (map gop ops)) as H. cbv zeta in *.
  rewrite run_eq, run_from_eq, disposals_eq in H. unfold SetGen.released, SetGen.inserted in H.
  change (SetGen.init Z) with (gst SetOps.init) in H. rewrite released_eq, inserted_eq in H. exact H.
Qed.

