(* Part D/E: the address round trip on the COMPLETE model (AddrFull.v), for every list of eight groups < 65536:
   the text printed by ntop is accepted by pton (usebits = false, allow_trailing = false), is consumed entirely and denotes
   the same address, IPv4-compatible addresses being canonicalised to IPv4-mapped ones; it never begins with ':' and fits
   the documented buffer; printing the parsed address gives the same text again; and the RFC 4291 reference parser
   (AddrRef.ref_pton) reads the same address from it. *)
From Coq Require Import List NArith Lia Bool Strings.Byte Arith.
Import ListNotations.
Require Import AddrFull AddrV4 Params.
Require Addr AddrRT3 NtopProps AddrBridge AddrRef AddrRefRT AddrV4Ref.
Local Open Scope N_scope.

Definition wf (gs : groups) : Prop := length gs = 8%nat /\ Forall (fun x => x < 65536) gs.

Theorem ntop_roundtrip gs : wf gs -> pton (ntop gs) false false = Res (length (ntop gs)) None (canon gs).
Proof.
  intros [Hl Hs]. destruct (is_ipv4 gs) eqn:E.
  - apply ntop_v4_pton; assumption.
  - rewrite (canon_not_v4 gs E). apply AddrBridge.ntop_pton_ipv6; assumption.
Qed.

Theorem ntop_no_leading_colon gs : wf gs -> exists c r, ntop gs = c :: r /\ c <> colon.
Proof.
  intros [Hl Hs]. destruct (is_ipv4 gs) eqn:E.
  - apply ntop_v4_no_leading_colon; assumption.
  - rewrite (AddrBridge.ntop_is_ntop6 gs Hl Hs E). apply NtopProps.ntop6_no_leading_colon; assumption.
Qed.

Theorem ntop_fits gs : wf gs -> (length (ntop gs) < IRC_NTOP_MAX)%nat.
Proof.
  intros [Hl Hs]. destruct (is_ipv4 gs) eqn:E.
  - apply ntop_v4_fits; assumption.
  - rewrite (AddrBridge.ntop_is_ntop6 gs Hl Hs E). apply NtopProps.ntop6_fits; assumption.
Qed.

(* ntop_canon_idem : length gs = 8 -> ntop (canon gs) = ntop gs   is proved in AddrV4.v *)

Lemma wf_canon gs : wf gs -> wf (canon gs).
Proof.
  intros [Hl Hs]. unfold canon. destruct (is_ipv4 gs); [|split; assumption].
  do 9 (destruct gs as [|? gs]; try discriminate). cbn. split; [reflexivity|].
  repeat match goal with H : Forall _ (_ :: _) |- _ => apply Forall_cons_iff in H as [? H] end.
  repeat constructor; try assumption.
Qed.

Lemma canon_canon gs : length gs = 8%nat -> canon (canon gs) = canon gs.
Proof.
  intros Hl. unfold canon at 1. rewrite (is_ipv4_canon gs Hl). destruct (is_ipv4 gs) eqn:E; [|reflexivity].
  unfold canon. rewrite E. do 9 (destruct gs as [|? gs]; try discriminate). reflexivity.
Qed.

(* parse-then-print is idempotent: whatever pton reads from a printed address prints as the same text, and reading that
   text again gives the same groups *)
Theorem parse_print_idem gs n b gs' : wf gs -> pton (ntop gs) false false = Res n b gs' ->
  ntop gs' = ntop gs /\ pton (ntop gs') false false = Res n b gs'.
Proof.
  intros Hw HP. pose proof Hw as [Hl Hs]. rewrite (ntop_roundtrip gs Hw) in HP. injection HP as <- <- <-.
  rewrite (ntop_canon_idem gs Hl). split; [reflexivity|].
  rewrite <- (ntop_canon_idem gs Hl). rewrite (ntop_roundtrip (canon gs) (wf_canon gs Hw)).
  rewrite (canon_canon gs Hl). reflexivity.
Qed.

(* two addresses with the same text are the same address up to the IPv4 canonicalisation *)
Theorem ntop_inj gs1 gs2 : wf gs1 -> wf gs2 -> ntop gs1 = ntop gs2 -> canon gs1 = canon gs2.
Proof.
  intros H1 H2 E. pose proof (ntop_roundtrip gs1 H1) as R1. rewrite E, (ntop_roundtrip gs2 H2) in R1. congruence.
Qed.

(* Part E: the reference parser reads the same address *)
Theorem ntop_ref_roundtrip gs : wf gs -> AddrRef.ref_pton (ntop gs) = Some (canon gs).
Proof.
  intros [Hl Hs]. destruct (is_ipv4 gs) eqn:E.
  - apply AddrV4Ref.ntop_v4_ref; assumption.
  - rewrite (canon_not_v4 gs E). rewrite (AddrBridge.ntop_is_ntop6 gs Hl Hs E). apply AddrRefRT.ref_ntop6; assumption.
Qed.

(* the daemon's parser and the reference parser agree on every printed address *)
Corollary pton_agrees_with_ref gs : wf gs ->
  exists gs', pton (ntop gs) false false = Res (length (ntop gs)) None gs' /\ AddrRef.ref_pton (ntop gs) = Some gs'.
Proof. intros H. exists (canon gs). split; [apply ntop_roundtrip|apply ntop_ref_roundtrip]; exact H. Qed.
