(* A counter-free specification automaton for the IAuth daemon, and the proof that the executable model (Iauth.v)
   refines it.

   The model mirrors the C code: each request carries two hand-maintained counters, `holds` and `soft`, and the
   acceptance gate tests them.  The specification below has NO counters.  Its request record `sreq` is `req` without
   the two counter fields; its transitions are the model's transitions with every counter update erased; and its gate
   is declarative: a request is decided exactly when it is `sready`:

       every piece of registration data asked for has arrived (or hurry-up)            scomplete
       /\ not (the client demanded +! and holds no account)                            hard_ok
       /\ (no query sent about the client is unanswered  \/  the request timed out)     q_refm = 0 \/ q_ftout

   Part 1 is the specification (the only part one has to read to know what the daemon promises).
   Part 2 proves properties of the specification alone (C02, C03 by construction).
   Part 3 ties the model to the specification by visible behaviour only: equal output lines for every event list
          from the initial state (`spec_refines`), by a step simulation along `abs` under the counter invariant `Inv`.
   Part 4 carries the properties of Part 2 over to the model.
   Part 5 shows histories in which the gate accepts, waits and is released by the timeout. *)
From Coq Require Import List NArith ZArith Bool Strings.Byte Strings.String Lia.
Import ListNotations.
Require Import Params AddrFull Iauth IauthInv.
Local Open Scope string_scope.
Local Open Scope list_scope.
Local Open Scope N_scope.

(* ====================================================================================================== *)
(* Part 1.  THE SPECIFICATION                                                                              *)
(* ====================================================================================================== *)

(* `req` without `holds` and `soft`.  The masks are finite sets of service slots: q_sent = queried at least once,
   q_refm = still owes an answer, q_more = asked for a continuation, q_okm = answered OK. *)
Record sreq := {
  q_cid : Z; q_ser : N; q_addr : str; q_port : N; q_raddr : list N;
  q_fhost : bool; q_fident : bool; q_fnick : bool; q_fuser : bool; q_fpass : bool; q_fempty : bool; q_ftout : bool; q_fsdone : bool;
  q_host : str; q_cliu : str; q_authu : str; q_nick : str; q_real : str; q_acct : str;
  q_hh : bool; q_ho : bool; q_sent : N; q_refm : N; q_more : N; q_okm : N; q_pw : str; q_timer : bool }.

(* ---------- the field updates used by the transitions ---------- *)
Definition sset_flags (r : sreq) (a b c d e : bool) : sreq := {|
  q_cid := q_cid r; q_ser := q_ser r; q_addr := q_addr r; q_port := q_port r; q_raddr := q_raddr r;
  q_fhost := a; q_fident := b; q_fnick := c; q_fuser := d; q_fpass := e; q_fempty := q_fempty r; q_ftout := q_ftout r; q_fsdone := q_fsdone r;
  q_host := q_host r; q_cliu := q_cliu r; q_authu := q_authu r; q_nick := q_nick r; q_real := q_real r; q_acct := q_acct r;
  q_hh := q_hh r; q_ho := q_ho r; q_sent := q_sent r; q_refm := q_refm r; q_more := q_more r; q_okm := q_okm r; q_pw := q_pw r; q_timer := q_timer r |}.

Definition swith_fields (r : sreq) (h cu au ni re : str) (em : bool) : sreq := {|
  q_cid := q_cid r; q_ser := q_ser r; q_addr := q_addr r; q_port := q_port r; q_raddr := q_raddr r;
  q_fhost := q_fhost r; q_fident := q_fident r; q_fnick := q_fnick r; q_fuser := q_fuser r; q_fpass := q_fpass r; q_fempty := em; q_ftout := q_ftout r; q_fsdone := q_fsdone r;
  q_host := h; q_cliu := cu; q_authu := au; q_nick := ni; q_real := re; q_acct := q_acct r;
  q_hh := q_hh r; q_ho := q_ho r; q_sent := q_sent r; q_refm := q_refm r; q_more := q_more r; q_okm := q_okm r; q_pw := q_pw r; q_timer := q_timer r |}.

(* the soft-done notice has been sent *)
Definition sset_sdone (r : sreq) : sreq := {|
  q_cid := q_cid r; q_ser := q_ser r; q_addr := q_addr r; q_port := q_port r; q_raddr := q_raddr r;
  q_fhost := q_fhost r; q_fident := q_fident r; q_fnick := q_fnick r; q_fuser := q_fuser r; q_fpass := q_fpass r; q_fempty := q_fempty r; q_ftout := q_ftout r; q_fsdone := true;
  q_host := q_host r; q_cliu := q_cliu r; q_authu := q_authu r; q_nick := q_nick r; q_real := q_real r; q_acct := q_acct r;
  q_hh := q_hh r; q_ho := q_ho r; q_sent := q_sent r; q_refm := q_refm r; q_more := q_more r; q_okm := q_okm r; q_pw := q_pw r; q_timer := q_timer r |}.

(* the request timeout has expired *)
Definition stimed_out (r : sreq) : sreq := {|
  q_cid := q_cid r; q_ser := q_ser r; q_addr := q_addr r; q_port := q_port r; q_raddr := q_raddr r;
  q_fhost := q_fhost r; q_fident := q_fident r; q_fnick := q_fnick r; q_fuser := q_fuser r; q_fpass := q_fpass r; q_fempty := q_fempty r; q_ftout := true; q_fsdone := q_fsdone r;
  q_host := q_host r; q_cliu := q_cliu r; q_authu := q_authu r; q_nick := q_nick r; q_real := q_real r; q_acct := q_acct r;
  q_hh := q_hh r; q_ho := q_ho r; q_sent := q_sent r; q_refm := q_refm r; q_more := q_more r; q_okm := q_okm r; q_pw := q_pw r; q_timer := false |}.

(* new visibility modes (+x, +!) and the stored "<account> <password>" text *)
Definition swith_pw (r : sreq) (hh' ho' : bool) (p : str) : sreq := {|
  q_cid := q_cid r; q_ser := q_ser r; q_addr := q_addr r; q_port := q_port r; q_raddr := q_raddr r;
  q_fhost := q_fhost r; q_fident := q_fident r; q_fnick := q_fnick r; q_fuser := q_fuser r; q_fpass := q_fpass r; q_fempty := q_fempty r; q_ftout := q_ftout r; q_fsdone := q_fsdone r;
  q_host := q_host r; q_cliu := q_cliu r; q_authu := q_authu r; q_nick := q_nick r; q_real := q_real r; q_acct := q_acct r;
  q_hh := hh'; q_ho := ho'; q_sent := q_sent r; q_refm := q_refm r; q_more := q_more r; q_okm := q_okm r; q_pw := p; q_timer := q_timer r |}.

(* the four slot sets and the account *)
Definition swith_sets (r : sreq) (snt rf mo ok : N) (a : str) : sreq := {|
  q_cid := q_cid r; q_ser := q_ser r; q_addr := q_addr r; q_port := q_port r; q_raddr := q_raddr r;
  q_fhost := q_fhost r; q_fident := q_fident r; q_fnick := q_fnick r; q_fuser := q_fuser r; q_fpass := q_fpass r; q_fempty := q_fempty r; q_ftout := q_ftout r; q_fsdone := q_fsdone r;
  q_host := q_host r; q_cliu := q_cliu r; q_authu := q_authu r; q_nick := q_nick r; q_real := q_real r; q_acct := a;
  q_hh := q_hh r; q_ho := q_ho r; q_sent := snt; q_refm := rf; q_more := mo; q_okm := ok; q_pw := q_pw r; q_timer := q_timer r |}.

Definition sfresh (id : Z) (s : N) (a : str) (g : list N) (p : N) (tm : bool) : sreq := {|
  q_cid := id; q_ser := s; q_addr := a; q_port := p; q_raddr := g;
  q_fhost := false; q_fident := false; q_fnick := false; q_fuser := false; q_fpass := false; q_fempty := false; q_ftout := false; q_fsdone := false;
  q_host := []; q_cliu := []; q_authu := []; q_nick := []; q_real := []; q_acct := [];
  q_hh := false; q_ho := false; q_sent := 0; q_refm := 0; q_more := 0; q_okm := 0; q_pw := []; q_timer := tm |}.

(* a query goes out to `slot`: it has been asked, and it owes an answer *)
Definition squeried (r : sreq) (slot : N) : sreq :=
  swith_sets r (N.setbit (q_sent r) slot) (N.setbit (q_refm r) slot) (q_more r) (q_okm r) (q_acct r).
(* a continuation goes out to `slot`: it owes an answer again, and no longer waits for more *)
Definition scontinued (r : sreq) (slot : N) : sreq :=
  swith_sets r (q_sent r) (N.setbit (q_refm r) slot) (N.clearbit (q_more r) slot) (q_okm r) (q_acct r).
(* `slot` has answered *)
Definition sreleased (r : sreq) (slot : N) (mr ok : bool) (newacct : option str) : sreq :=
  swith_sets r (q_sent r) (N.clearbit (q_refm r) slot) (if mr then N.setbit (q_more r) slot else q_more r)
             (if ok then N.setbit (q_okm r) slot else q_okm r) (match newacct with Some a => a | None => q_acct r end).

(* ---------- lines ---------- *)
Definition soc (k : byte) (r : sreq) (rest : str) : out := OC k (q_cid r) (q_addr r) (q_port r) rest.
Definition sxline (name : str) (r : sreq) (payload : str) : out := OX name (q_cid r) (q_ser r) payload.

(* ---------- the query pass ---------- *)
Definition susername (r : sreq) : str :=
  firstn USERLEN (match q_authu r with _ :: _ => q_authu r | [] =>
              if starts (q_cliu r) x7e then q_cliu r else match q_cliu r with _ :: _ => x7e :: q_cliu r | [] => [] end end).
Definition sprereq_ok (t : stype) (r : sreq) : bool :=
  match t with
  | Login => q_fpass r
  | LoginIpr => q_fhost r && q_fident r && q_fpass r
  | Drone | Combined => q_fhost r && q_fident r && q_fnick r && q_fuser r
  end.
Definition shostn (r : sreq) : str := match q_host r with [] => q_addr r | _ => q_host r end.
Definition scheck_payload (r : sreq) : str :=
  S_ "CHECK " ++ q_nick r ++ [sp] ++ susername r ++ [sp] ++ q_addr r ++ [sp] ++ shostn r ++ S_ " :" ++ q_real r.
Definition slogin_payload (r : sreq) : str := S_ "LOGIN " ++ q_pw r.
Definition slogin2_payload (r : sreq) : str := S_ "LOGIN2 " ++ q_addr r ++ [sp] ++ shostn r ++ [sp] ++ susername r ++ [sp] ++ q_pw r.
Definition squery_lines (name : str) (t : stype) (r : sreq) : list out :=
  (match t with Drone | Combined => [sxline name r (scheck_payload r)] | _ => [] end) ++
  (if nonempty (q_pw r) then
     match t with
     | Login | Combined => [sxline name r (slogin_payload r)]
     | LoginIpr => [sxline name r (slogin2_payload r)]
     | Drone => [] end
   else []).
Definition sskip_query (t : stype) (slot : N) (is_pw : bool) (r : sreq) : bool :=
  (N.testbit (q_sent r) slot && (negb is_pw || is_drone t))
  || (is_loginish t && negb (nonempty (q_pw r)))
  || negb (sprereq_ok t r).
Fixpoint sqpass (ss : list (option svc)) (slot : N) (is_pw : bool) (r : sreq) (outs : list out) (efs : list eff) : sreq * list out * list eff :=
  match ss with
  | [] => (r, outs, efs)
  | None :: rest => sqpass rest (slot + 1) is_pw r outs efs
  | Some s :: rest =>
    if negb (s_conf s) || sskip_query (s_type s) slot is_pw r
    then sqpass rest (slot + 1) is_pw r outs efs
    else sqpass rest (slot + 1) is_pw (squeried r slot) (outs ++ squery_lines (s_name s) (s_type s) r) (efs ++ [(slot, 1%Z)])
  end.

(* ---------- class rules ---------- *)
Fixpoint sxreply_ok (ss : list (option svc)) (slot : N) (name : str) (r : sreq) : bool :=
  match ss with
  | [] => false
  | None :: rest => sxreply_ok rest (slot + 1) name r
  | Some s :: rest => if s_conf s && ci_eq name (s_name s) then N.testbit (q_okm r) slot else sxreply_ok rest (slot + 1) name r
  end.
Definition srule_matches (ss : list (option svc)) (ru : rule) (r : sreq) : bool :=
  (match r_acct ru with Some g => fnm g (upto x3a (q_acct r)) | None => true end) &&
  (match r_addr ru with Some (m, bits) => if bits =? 0 then true else cm (q_raddr r) m bits | None => true end) &&
  (match r_user ru with Some g => fnm g (q_authu r) | None => true end) &&
  (match r_host ru with Some g => fnm g (q_host r) | None => true end) &&
  (match r_xok ru with Some n => sxreply_ok ss 0 n r | None => true end).
Fixpoint sclassify (ss : list (option svc)) (rs : list rule) (r : sreq) : list out * str :=
  match rs with
  | [] => ([], [])
  | ru :: rest =>
    if srule_matches ss ru r then
      let u := if starts (q_cliu r) x7e then tl (q_cliu r) else q_cliu r in
      let extra := if r_trust ru && starts (q_authu r) x7e && nonempty u then [soc x55 r (sp :: u)] else [] in
      (extra, firstn class_len (match r_class ru with Some c => c | None => r_name ru end))
    else sclassify ss rest r
  end.

(* ---------- THE GATE, declaratively ---------- *)
Definition scomplete (c : cfg) (r : sreq) : bool :=
  if with_xq c then q_fhost r && q_fident r && q_fnick r && q_fuser r else q_fhost r.
Definition hard_ok (r : sreq) : bool := negb (q_ho r && negb (nonempty (q_acct r))).
Definition sready (c : cfg) (r : sreq) : bool :=
  scomplete c r && hard_ok r && ((q_refm r =? 0) || q_ftout r).

(* the verdict lines: optional trusted-username line, then D, or R with the account; both with the class *)
Definition saccept (tb : tabs) (r : sreq) : list out :=
  let '(extra, k) := sclassify (slots tb) (rules tb) r in
  let kl := match k with [] => [] | _ => sp :: k end in
  extra ++ [match q_acct r with [] => soc x44 r kl | _ => soc x52 r (sp :: q_acct r ++ kl) end].

(* None = decided (the request leaves the table); Some r' = still waiting *)
Definition sgate (c : cfg) (tb : tabs) (r : sreq) : option sreq * list out :=
  if sready c r then (None, saccept tb r)
  else if scomplete c r && hard_ok r && negb (q_fsdone r) then (Some (sset_sdone r), [soc x64 r []])
  else (Some r, []).

(* ---------- passwords ---------- *)
Fixpoint scont (ss : list (option svc)) (slot : N) (t : str) (r : sreq) (outs : list out) (efs : list eff) : sreq * list out * list eff :=
  match ss with
  | [] => (r, outs, efs)
  | None :: rest => scont rest (slot + 1) t r outs efs
  | Some s :: rest =>
    if N.testbit (q_more r) slot && s_conf s then
      scont rest (slot + 1) t (scontinued r slot) (outs ++ [sxline (s_name s) r (S_ "MORE " ++ t)]) (efs ++ [(slot, 1%Z)])
    else scont rest (slot + 1) t r outs efs
  end.

Definition spassword (tb : tabs) (r : sreq) (t : str) : sreq * list out * list eff :=
  if (q_more r =? 0) || negb (nonempty (q_pw r)) then
    if negb (starts t x2b || starts t x2d) then (r, [], []) else
    match modes (S (List.length t)) t false false false false false with
    | None => (r, [], [])
    | Some (rest0, sx, cx, sb, cb) =>
      let rest := skipsp rest0 in
      if negb (has sp rest) then (r, [], []) else
      let hh' := if sx then true else if cx then false else q_hh r in
      let ho' := if sb then true else if cb then false else q_ho r in
      sqpass (slots tb) 0 true (swith_pw r hh' ho' (firstn pw_len rest)) [] []
    end
  else scont (slots tb) 0 t r [] [].

(* ---------- replies ----------
   inl: nothing for the gate to decide (stray or unknown reply: request unchanged; NO: request killed)
   inr: the request as changed by the reply, the lines relayed to the client, the reference released *)
Definition sreply (tb : tabs) (r : sreq) (svcn : str) (text : option str)
  : (option sreq * list out * list eff) + (sreq * list out * list eff) :=
  match find_slot (slots tb) 0 svcn (q_refm r) with
  | None => inl (Some r, [], [])
  | Some (slot, t) =>
    let fin (r1 : sreq) (pre : list out) := inr (r1, pre, [(slot, (-1)%Z)]) in
    match text with
    | None => fin (sreleased r slot false false None) (if is_drone t then [] else [soc x43 r (S_ " :" ++ unlinked_text)])
    | Some tx =>
      if seq_eq tx (S_ "OK") then fin (sreleased r slot false true None) []
      else if prefix (S_ "OK ") tx then
        let a := upto sp (skipn 3 tx) in
        if negb (nonempty a) || is_drone t then fin (sreleased r slot false true None) []
        else fin (sreleased r slot false true (Some (firstn acct_len a))) (if q_hh r || q_ho r then [soc x4d r (S_ " :+x")] else [])
      else if prefix (S_ "NO ") tx then inl (None, [soc x6b r (S_ " :" ++ skipn 3 tx)], [])
      else if prefix (S_ "AGAIN ") tx then fin (sreleased r slot false false None) [soc x43 r (S_ " :" ++ skipn 6 tx)]
      else if prefix (S_ "MORE ") tx then fin (sreleased r slot true false None) [soc x43 r (S_ " :" ++ skipn 5 tx)]
      else inl (Some r, [], [])
    end
  end.

(* ---------- the table ---------- *)
Record sst := { sreqs : list sreq; snext : N; stb : tabs; stmo : bool }.
Fixpoint slookup (id : Z) (l : list sreq) : option sreq :=
  match l with [] => None | r :: t => if (q_cid r =? id)%Z then Some r else slookup id t end.
Fixpoint sremove (id : Z) (l : list sreq) : list sreq :=
  match l with [] => [] | r :: t => if (q_cid r =? id)%Z then t else r :: sremove id t end.
Fixpoint sput (r : sreq) (l : list sreq) : list sreq :=
  match l with [] => [r] | x :: t => if (q_cid x =? q_cid r)%Z then r :: t else x :: sput r t end.

Definition swith_slots (s : sst) (efs : list eff) : tabs := {| slots := apply_effs (slots (stb s)) efs; rules := rules (stb s) |}.
Definition sfinish (s : sst) (id : Z) (res : option sreq * list out * list eff) : sst * list out :=
  let '(ro, outs, efs) := res in
  match ro with
  | Some r' => ({| sreqs := sput r' (sreqs s); snext := snext s; stb := swith_slots s efs; stmo := stmo s |}, outs)
  | None => ({| sreqs := sremove id (sreqs s); snext := snext s; stb := swith_slots s efs; stmo := stmo s |}, outs)
  end.

(* ---------- one input line, in two phases ----------
   Phase 1, `sevent`: what the line does to the table and to the addressed request BEFORE any verdict.
     Stay s' o           : no request is put before the gate (new client, disconnect, ignored line, kill, stray reply)
     ToGate i r1 pre efs : request i has become r1; `pre` has been sent (queries, relayed texts), `efs` are the
                           reference-count effects on the service slots
   Phase 2, `sstep`: every changed request goes through `sgate`, once, in the same step. *)
Inductive sres :=
| Stay (s' : sst) (o : list out)
| ToGate (i : Z) (r1 : sreq) (pre : list out) (efs : list eff).

Definition sevent (c : cfg) (s : sst) (id : Z) (argv : list str) : sres :=
  let ch := cmdchar argv in
  if beq ch x43 (* C *) then
    match arg 1 argv, arg 2 argv, arg 3 argv, arg 4 argv with
    | Some a, Some p, Some _, Some _ =>
        let sn := (snext s + 1) mod 4294967296 in
        let '(g, txt) := announce_addr a in
        Stay {| sreqs := sput (sfresh id sn txt g (port_of p) (stmo s)) (sreqs s); snext := sn; stb := stb s; stmo := stmo s |} []
    | _, _, _, _ => Stay s []
    end
  else if beq ch x58 || beq ch x78 (* X x *) then
    if negb (with_xq c) then Stay s [] else
    match arg 1 argv, arg 2 argv, arg 3 argv with
    | Some svcn, Some tg, Some tx =>
      match parse_tag tg with
      | None => Stay s []
      | Some (tid, tser) =>
        match slookup tid (sreqs s) with
        | Some r => if q_ser r =? tser then
                      match sreply (stb s) r svcn (if beq ch x58 then Some tx else None) with
                      | inl res => let '(s', o) := sfinish s tid res in Stay s' o
                      | inr (r1, pre, efs) => ToGate tid r1 pre efs
                      end
                    else Stay s []
        | None => Stay s []
        end
      end
    | _, _, _ => Stay s []
    end
  else
  match slookup id (sreqs s) with
  | None => Stay s []
  | Some r =>
    (* registration data: with iauth_xquery loaded, a query pass precedes the gate *)
    let aft (r1 : sreq) :=
      if with_xq c then let '(r2, o, efs) := sqpass (slots (stb s)) 0 false r1 [] [] in ToGate id r2 o efs
      else ToGate id r1 [] [] in
    if beq ch x44 || beq ch x54 (* D T *) then Stay {| sreqs := sremove id (sreqs s); snext := snext s; stb := stb s; stmo := stmo s |} []
    else if beq ch x21 (* ! timeout *) then
      if q_timer r && match arg 1 argv with Some a => seq_eq a (S_ "timeout") | None => false end
      then ToGate id (stimed_out r) [] []
      else Stay s []
    else if beq ch x4e (* N *) then
      match arg 1 argv with
      | Some h => if nonempty (q_host r) then Stay s [] else
                  aft (sset_flags (swith_fields r (firstn hostlen h) (q_cliu r) (q_authu r) (q_nick r) (q_real r) (q_fempty r)) true (q_fident r) (q_fnick r) (q_fuser r) (q_fpass r))
      | None => Stay s []
      end
    else if beq ch x64 (* d *) then aft (sset_flags r true (q_fident r) (q_fnick r) (q_fuser r) (q_fpass r))
    else if beq ch x75 (* u *) then
      match arg 1 argv with
      | Some u => aft (sset_flags (swith_fields r (q_host r) (q_cliu r) (firstn userlen u) (q_nick r) (q_real r) (q_fempty r)) (q_fhost r) true (q_fnick r) (q_fuser r) (q_fpass r))
      | None => if nonempty (q_cliu r) then aft (sset_flags r (q_fhost r) true (q_fnick r) (q_fuser r) (q_fpass r))
                else aft (swith_fields r (q_host r) (q_cliu r) (q_authu r) (q_nick r) (q_real r) true)
      end
    else if beq ch x6e (* n *) then
      match arg 1 argv with
      | Some n => aft (sset_flags (swith_fields r (q_host r) (q_cliu r) (q_authu r) (firstn nicklen n) (q_real r) (q_fempty r)) (q_fhost r) (q_fident r) true (q_fuser r) (q_fpass r))
      | None => Stay s []
      end
    else if beq ch x55 (* U *) then
      match arg 1 argv, arg 2 argv with
      | Some u, Some re =>
        let r1 := swith_fields r (q_host r) (firstn userlen u) (q_authu r) (q_nick r) (firstn reallen re) (q_fempty r) in
        aft (sset_flags r1 (q_fhost r) (q_fident r || q_fempty r) (q_fnick r) true (q_fpass r))
      | _, _ => Stay s [ORaw (S_ "> :ircd sent garbage: <id> U without realname")]
      end
    else if beq ch x48 (* H hurry-up *) then
      (if with_xq c then aft (sset_flags r true true true true (q_fpass r)) else aft (sset_flags r true (q_fident r) (q_fnick r) (q_fuser r) (q_fpass r)))
    else if beq ch x50 (* P *) then
      match arg 1 argv with
      | Some t =>
        let r0 := sset_flags r (q_fhost r) (q_fident r) (q_fnick r) (q_fuser r) true in
        if with_xq c then let '(r1, o, efs) := spassword (stb s) r0 t in ToGate id r1 o efs
        else ToGate id r0 [] []
      | None => Stay s []
      end
    else Stay s []
  end.

Definition verdict (c : cfg) (tb : tabs) (r1 : sreq) (pre : list out) (efs : list eff) : option sreq * list out * list eff :=
  let '(r2, g) := sgate c tb r1 in (r2, pre ++ g, efs).

Definition sstep (c : cfg) (s : sst) (id : Z) (argv : list str) : sst * list out :=
  match sevent c s id argv with
  | Stay s' o => (s', o)
  | ToGate i r1 pre efs => sfinish s i (verdict c (stb s) r1 pre efs)
  end.

Definition sinit (c : cfg) (services : list (str * str)) (rs : list rule) (t : bool) : sst :=
  {| sreqs := []; snext := 0; stb := {| slots := services_changed [] services; rules := rs |}; stmo := t |}.

(* a reload gave the slots `idx` to new services: what was recorded about their former occupants (asked, wants a continuation,
   answered OK) is dropped.  A slot some request still awaits (q_refm) is never among them: it was occupied
   (RefInv.refilled_slot_is_not_awaited, on the model; D30, repaired) *)
Definition sforget (idx : list N) (r : sreq) : sreq :=
  let clr (m : N) := fold_left N.clearbit idx m in
  swith_sets r (clr (q_sent r)) (q_refm r) (clr (q_more r)) (clr (q_okm r)) (q_acct r).

Definition sstep_ev (c : cfg) (s : sst) (e : ev) : sst * list out :=
  match e with
  | Ev id argv => sstep c s id argv
  | Reload svs rs t =>
      let new := services_changed (slots (stb s)) svs in
      ({| sreqs := map (sforget (refilled (slots (stb s)) new 0)) (sreqs s); snext := snext s; stb := {| slots := new; rules := rs |}; stmo := t |}, [])
  end.

Definition srun (c : cfg) (s0 : sst) (evs : list ev) : sst * list (list out) :=
  fold_left (fun acc e => let '(s, outs) := acc in let '(s', o) := sstep_ev c s e in (s', outs ++ [o])) evs (s0, []).
Definition srun_out (c : cfg) (s0 : sst) (evs : list ev) : list (list out) := snd (srun c s0 evs).
Definition srun_st (c : cfg) (s0 : sst) (evs : list ev) : sst := fold_left (fun s e => fst (sstep_ev c s e)) evs s0.

(* ====================================================================================================== *)
(* Part 2.  PROPERTIES OF THE SPECIFICATION                                                                *)
(* ====================================================================================================== *)

(* C02 at the gate: decided iff ready *)
Theorem sgate_accepts_iff_ready c tb r : fst (sgate c tb r) = None <-> sready c r = true.
Proof.
  unfold sgate. destruct (sready c r).
  - split; reflexivity.
  - destruct (scomplete c r && hard_ok r && negb (q_fsdone r)); split; discriminate.
Qed.

Theorem sgate_ready_lines c tb r : sready c r = true -> sgate c tb r = (None, saccept tb r).
Proof. intros H. unfold sgate. rewrite H. reflexivity. Qed.

Lemma sready_sset_sdone c r : sready c (sset_sdone r) = sready c r.
Proof. reflexivity. Qed.

(* C03 at the gate: what the gate leaves in the table is not ready *)
Theorem sgate_live_not_ready c tb r r' : fst (sgate c tb r) = Some r' -> sready c r' = false.
Proof.
  unfold sgate. destruct (sready c r) eqn:E; [discriminate|].
  destruct (scomplete c r && hard_ok r && negb (q_fsdone r)); cbn [fst]; intros H; inversion H; subst; [rewrite sready_sset_sdone|]; exact E.
Qed.

(* when it waits, it says so exactly once: `d` iff data and +! are satisfied, answers are outstanding, not yet said *)
Theorem sgate_softdone c tb r :
  sready c r = false ->
  snd (sgate c tb r) = if scomplete c r && hard_ok r && negb (q_fsdone r) then [soc x64 r []] else [].
Proof. intros H. unfold sgate. rewrite H. destruct (scomplete c r && hard_ok r && negb (q_fsdone r)); reflexivity. Qed.

(* ---------- verdict lines ---------- *)
Definition is_accept (o : out) : bool := match o with OC k _ _ _ _ => beq k x44 || beq k x52 | _ => false end.
Definition accept_for (i : Z) (o : out) : bool := match o with OC k j _ _ _ => (beq k x44 || beq k x52) && (j =? i)%Z | _ => false end.
Definition quiet (o : out) : Prop := is_accept o = false.

Lemma accept_for_quiet i o : quiet o -> accept_for i o = false.
Proof. unfold quiet. destruct o; cbn [is_accept accept_for]; intros H; [reflexivity|rewrite H; reflexivity|reflexivity]. Qed.

Lemma existsb_quiet i l : Forall quiet l -> existsb (accept_for i) l = false.
Proof. induction 1 as [|o l Ho Hl IH]; cbn [existsb]; [reflexivity|]. rewrite (accept_for_quiet i o Ho), IH. reflexivity. Qed.

Lemma squery_lines_quiet n t r : Forall quiet (squery_lines n t r).
Proof. unfold squery_lines. destruct t, (nonempty (q_pw r)); cbn [app]; repeat constructor. Qed.

Lemma sqpass_facts ss : forall slot ispw r outs efs, Forall quiet outs ->
  q_cid (fst (fst (sqpass ss slot ispw r outs efs))) = q_cid r /\ Forall quiet (snd (fst (sqpass ss slot ispw r outs efs))).
Proof.
  induction ss as [|[sv|] rest IH]; intros slot ispw r outs efs Ho; cbn [sqpass]; [split; [reflexivity|exact Ho]| |apply IH; exact Ho].
  destruct (negb (s_conf sv) || sskip_query (s_type sv) slot ispw r); [apply IH; exact Ho|].
  specialize (IH (slot + 1) ispw (squeried r slot) (outs ++ squery_lines (s_name sv) (s_type sv) r) (efs ++ [(slot, 1%Z)])).
  apply IH. apply Forall_app. split; [exact Ho|apply squery_lines_quiet].
Qed.

Lemma scont_facts ss : forall slot t r outs efs, Forall quiet outs ->
  q_cid (fst (fst (scont ss slot t r outs efs))) = q_cid r /\ Forall quiet (snd (fst (scont ss slot t r outs efs))).
Proof.
  induction ss as [|[sv|] rest IH]; intros slot t r outs efs Ho; cbn [scont]; [split; [reflexivity|exact Ho]| |apply IH; exact Ho].
  destruct (N.testbit (q_more r) slot && s_conf sv); [|apply IH; exact Ho].
  specialize (IH (slot + 1) t (scontinued r slot) (outs ++ [sxline (s_name sv) r (S_ "MORE " ++ t)]) (efs ++ [(slot, 1%Z)])).
  apply IH. apply Forall_app. split; [exact Ho|repeat constructor].
Qed.

Lemma spassword_facts tb r t :
  q_cid (fst (fst (spassword tb r t))) = q_cid r /\ Forall quiet (snd (fst (spassword tb r t))).
Proof.
  unfold spassword.
  destruct ((q_more r =? 0) || negb (nonempty (q_pw r))); [|apply scont_facts; constructor].
  destruct (negb (starts t x2b || starts t x2d)); [split; [reflexivity|constructor]|].
  destruct (modes _ _ _ _ _ _ _) as [[[[[rest0 sx] cx] sb] cb]|]; [|split; [reflexivity|constructor]].
  cbv zeta.
  destruct (negb (has sp (skipsp rest0))); [split; [reflexivity|constructor]|].
  match goal with |- context [sqpass _ _ _ ?x _ _] => exact (sqpass_facts (slots tb) 0 true x [] [] (Forall_nil _)) end.
Qed.

Lemma sreply_facts tb r svcn text :
  match sreply tb r svcn text with
  | inl (ro, o, e) => Forall quiet o /\ (ro = Some r \/ ro = None)
  | inr (r1, pre, e) => q_cid r1 = q_cid r /\ Forall quiet pre
  end.
Proof.
  unfold sreply.
  destruct (find_slot (slots tb) 0 svcn (q_refm r)) as [[slot t]|]; [|split; [constructor|left; reflexivity]].
  cbv beta zeta.
  destruct text as [tx|].
  - destruct (seq_eq tx (S_ "OK")); [split; [reflexivity|constructor]|].
    destruct (prefix (S_ "OK ") tx).
    + destruct (negb (nonempty (upto sp (skipn 3 tx))) || is_drone t); [split; [reflexivity|constructor]|].
      split; [reflexivity|]. destruct (q_hh r || q_ho r); repeat constructor.
    + destruct (prefix (S_ "NO ") tx); [split; [repeat constructor|right; reflexivity]|].
      destruct (prefix (S_ "AGAIN ") tx); [split; [reflexivity|repeat constructor]|].
      destruct (prefix (S_ "MORE ") tx); [split; [reflexivity|repeat constructor]|].
      split; [constructor|left; reflexivity].
  - split; [reflexivity|]. destruct (is_drone t); repeat constructor.
Qed.

Lemma sclassify_quiet ss rs r : Forall quiet (fst (sclassify ss rs r)).
Proof.
  induction rs as [|ru rest IH]; cbn [sclassify]; [constructor|].
  destruct (srule_matches ss ru r); [|exact IH]. cbv zeta. cbn [fst].
  match goal with |- Forall quiet (if ?b then _ else _) => destruct b end; repeat constructor.
Qed.

(* the verdict lines contain exactly one D/R line, addressed to the request's own client *)
Lemma saccept_for tb r i : existsb (accept_for i) (saccept tb r) = (q_cid r =? i)%Z.
Proof.
  unfold saccept. pose proof (sclassify_quiet (slots tb) (rules tb) r) as Q.
  destruct (sclassify (slots tb) (rules tb) r) as [extra k]. cbn [fst] in Q.
  rewrite existsb_app, (existsb_quiet i extra Q). cbn [orb existsb].
  destruct (q_acct r); cbn [soc accept_for]; rewrite orb_false_r; reflexivity.
Qed.

Lemma sgate_not_ready_quiet c tb r : sready c r = false -> Forall quiet (snd (sgate c tb r)).
Proof. intros H. rewrite (sgate_softdone c tb r H). destruct (scomplete c r && hard_ok r && negb (q_fsdone r)); repeat constructor. Qed.

(* ---------- table lemmas, generic in the predicate ---------- *)
Lemma slookup_cid id l r : slookup id l = Some r -> q_cid r = id.
Proof. induction l as [|x t IH]; cbn [slookup]; [discriminate|]. destruct (q_cid x =? id)%Z eqn:E; [intros H; inversion H; subst; apply Z.eqb_eq; exact E|exact IH]. Qed.
Lemma slookup_forall (P : sreq -> Prop) id l r : Forall P l -> slookup id l = Some r -> P r.
Proof. induction 1 as [|x t Hx Ht IH]; cbn [slookup]; [discriminate|]. destruct (q_cid x =? id)%Z; [intros E; inversion E; subst; exact Hx|exact IH]. Qed.
Lemma sremove_forall (P : sreq -> Prop) id l : Forall P l -> Forall P (sremove id l).
Proof. induction 1 as [|r t Hr Ht IH]; cbn [sremove]; [constructor|]. destruct (q_cid r =? id)%Z; [exact Ht|constructor; assumption]. Qed.
Lemma sput_forall (P : sreq -> Prop) r l : P r -> Forall P l -> Forall P (sput r l).
Proof.
  intros Hr. induction 1 as [|x t Hx Ht IH]; cbn [sput]; [constructor; [assumption|constructor]|].
  destruct (q_cid x =? q_cid r)%Z; constructor; assumption.
Qed.

(* C03 as a state invariant: between two steps, no request in the table is ready *)
Definition NoneReady (c : cfg) (s : sst) : Prop := Forall (fun r => sready c r = false) (sreqs s).

Lemma sfresh_not_ready c id sn a g p tm : sready c (sfresh id sn a g p tm) = false.
Proof. unfold sready, scomplete. destruct (with_xq c); reflexivity. Qed.

Lemma sfinish_none_ready c s id res :
  NoneReady c s -> match fst (fst res) with Some r' => sready c r' = false | None => True end -> NoneReady c (fst (sfinish s id res)).
Proof.
  intros HT Hr. unfold sfinish, NoneReady in *. destruct res as [[ro outs] efs]. cbn [fst] in Hr. destruct ro as [r'|]; cbn [fst sreqs].
  - apply sput_forall; assumption.
  - apply sremove_forall; assumption.
Qed.

Lemma sfinish_outs s id ro o e : snd (sfinish s id (ro, o, e)) = o.
Proof. unfold sfinish. destruct ro; reflexivity. Qed.

(* what phase 1 guarantees: it never emits a D/R line, it keeps the key of the request, and a table it builds
   itself contains only requests that were already there (or a fresh, incomplete one) *)
Lemma sevent_facts c s id argv :
  match sevent c s id argv with
  | Stay s' o => Forall quiet o /\ (NoneReady c s -> NoneReady c s')
  | ToGate i r1 pre efs => q_cid r1 = i /\ Forall quiet pre
  end.
Proof.
  unfold sevent. cbv zeta.
  destruct (beq (cmdchar argv) x43).
  { destruct (arg 1 argv) as [a|], (arg 2 argv), (arg 3 argv), (arg 4 argv); try (split; [constructor|tauto]).
    destruct (announce_addr a) as [g txt]. split; [constructor|].
    unfold NoneReady; cbn [sreqs]. intros H. apply sput_forall; [apply sfresh_not_ready|exact H]. }
  destruct (beq (cmdchar argv) x58 || beq (cmdchar argv) x78).
  { destruct (negb (with_xq c)); [split; [constructor|tauto]|].
    destruct (arg 1 argv) as [svcn|]; [|split; [constructor|tauto]]. destruct (arg 2 argv) as [tg|]; [|split; [constructor|tauto]].
    destruct (arg 3 argv) as [tx|]; [|split; [constructor|tauto]].
    destruct (parse_tag tg) as [[tid tser]|]; [|split; [constructor|tauto]].
    destruct (slookup tid (sreqs s)) as [r|] eqn:El; [|split; [constructor|tauto]].
    destruct (q_ser r =? tser); [|split; [constructor|tauto]].
    pose proof (sreply_facts (stb s) r svcn (if beq (cmdchar argv) x58 then Some tx else None)) as F.
    destruct (sreply (stb s) r svcn _) as [[[ro o] e]|[[r1 pre] e]].
    - destruct F as [Fq Fr].
      pose proof (sfinish_outs s tid ro o e) as So.
      pose proof (fun H => sfinish_none_ready c s tid (ro, o, e) H) as Sn.
      destruct (sfinish s tid (ro, o, e)) as [s' o']. cbn [fst snd] in *. subst o'. split; [exact Fq|].
      intros H. apply Sn; [exact H|]. destruct Fr as [Fr|Fr]; subst ro; [|exact I].
      exact (slookup_forall _ _ _ _ H El).
    - destruct F as [Fc Fq]. split; [rewrite Fc; eapply slookup_cid; eauto|exact Fq]. }
  destruct (slookup id (sreqs s)) as [r|] eqn:El; [|split; [constructor|tauto]].
  pose proof (slookup_cid _ _ _ El) as Hc.
  assert (forall r1, q_cid r1 = id ->
    match (if with_xq c then let '(r2, o, efs) := sqpass (slots (stb s)) 0 false r1 [] [] in ToGate id r2 o efs else ToGate id r1 [] []) with
    | Stay s' o => Forall quiet o /\ (NoneReady c s -> NoneReady c s')
    | ToGate i r2 pre efs => q_cid r2 = i /\ Forall quiet pre
    end) as Aft.
  { intros r1 H1. destruct (with_xq c); [|split; [exact H1|constructor]].
    pose proof (sqpass_facts (slots (stb s)) 0 false r1 [] [] (Forall_nil _)) as Q.
    destruct (sqpass (slots (stb s)) 0 false r1 [] []) as [[r2 o] efs]. cbn [fst snd] in Q. destruct Q as [Q1 Q2]. split; [congruence|exact Q2]. }
  destruct (beq (cmdchar argv) x44 || beq (cmdchar argv) x54).
  { split; [constructor|]. unfold NoneReady; cbn [sreqs]. apply sremove_forall. }
  destruct (beq (cmdchar argv) x21).
  { match goal with |- context [if ?b then _ else _] => destruct b end; [split; [exact Hc|constructor]|split; [constructor|tauto]]. }
  destruct (beq (cmdchar argv) x4e).
  { destruct (arg 1 argv); [|split; [constructor|tauto]]. destruct (nonempty (q_host r)); [split; [constructor|tauto]|]. apply Aft; exact Hc. }
  destruct (beq (cmdchar argv) x64).
  { apply Aft; exact Hc. }
  destruct (beq (cmdchar argv) x75).
  { destruct (arg 1 argv); [apply Aft; exact Hc|]. destruct (nonempty (q_cliu r)); apply Aft; exact Hc. }
  destruct (beq (cmdchar argv) x6e).
  { destruct (arg 1 argv); [|split; [constructor|tauto]]. apply Aft; exact Hc. }
  destruct (beq (cmdchar argv) x55).
  { destruct (arg 1 argv); [|split; [repeat constructor|tauto]]. destruct (arg 2 argv); [|split; [repeat constructor|tauto]]. apply Aft; exact Hc. }
  destruct (beq (cmdchar argv) x48).
  { pose proof (Aft (sset_flags r true true true true (q_fpass r)) Hc) as A1.
    pose proof (Aft (sset_flags r true (q_fident r) (q_fnick r) (q_fuser r) (q_fpass r)) Hc) as A2.
    destruct (with_xq c); [exact A1|exact A2]. }
  destruct (beq (cmdchar argv) x50); [|split; [constructor|tauto]].
  destruct (arg 1 argv) as [t|]; [|split; [constructor|tauto]].
  destruct (with_xq c); [|split; [exact Hc|constructor]].
  pose proof (spassword_facts (stb s) (sset_flags r (q_fhost r) (q_fident r) (q_fnick r) (q_fuser r) true) t) as P.
  destruct (spassword (stb s) _ t) as [[r1 o] efs]. cbn [fst snd] in P. destruct P as [P1 P2]. split; [rewrite P1; exact Hc|exact P2].
Qed.

(* C03 on the specification: the invariant holds along every run *)
Theorem sstep_none_ready c s id argv : NoneReady c s -> NoneReady c (fst (sstep c s id argv)).
Proof.
  intros H. unfold sstep. pose proof (sevent_facts c s id argv) as F.
  destruct (sevent c s id argv) as [s' o|i r1 pre efs]; [apply F; exact H|].
  apply sfinish_none_ready; [exact H|]. unfold verdict.
  pose proof (sgate_live_not_ready c (stb s) r1) as G. destruct (sgate c (stb s) r1) as [r2 g]. cbn [fst] in *.
  destruct r2 as [r2|]; [apply G; reflexivity|exact I].
Qed.

Theorem sstep_ev_none_ready c s e : NoneReady c s -> NoneReady c (fst (sstep_ev c s e)).
Proof.
  intros H. destruct e as [id argv|svs rs t]; cbn [sstep_ev]; [apply sstep_none_ready; exact H|].
  (* readiness does not look at the forgotten sets *)
  unfold NoneReady in *. cbn [fst sreqs]. apply Forall_forall. intros r' Hr. apply in_map_iff in Hr as (r & <- & Hr).
  exact (proj1 (Forall_forall _ _) H r Hr).
Qed.

Theorem srun_none_ready c evs : forall s0, NoneReady c s0 -> NoneReady c (srun_st c s0 evs).
Proof.
  unfold srun_st. induction evs as [|e evs IH]; intros s0 H0; cbn [fold_left]; [exact H0|].
  apply IH. apply sstep_ev_none_ready. exact H0.
Qed.

Corollary spec_no_ready_waits c services rs t evs : NoneReady c (srun_st c (sinit c services rs t) evs).
Proof. apply srun_none_ready. constructor. Qed.

(* C02 + C03 on the specification, per step: a D/R line for client i is emitted in a step
   iff that step puts a request of client i before the gate and that request is ready *)
Theorem sstep_accept_iff_ready c s id argv i :
  existsb (accept_for i) (snd (sstep c s id argv)) = true <->
  exists r1 pre efs, sevent c s id argv = ToGate i r1 pre efs /\ sready c r1 = true.
Proof.
  unfold sstep. pose proof (sevent_facts c s id argv) as F.
  destruct (sevent c s id argv) as [s' o|j r1 pre efs].
  - destruct F as [Fq _]. cbn [snd]. rewrite (existsb_quiet i o Fq). split; [discriminate|]. intros (r1 & pre & efs & E & _). discriminate.
  - destruct F as [Fc Fq]. subst j. unfold verdict.
    destruct (sready c r1) eqn:Er.
    + rewrite (sgate_ready_lines c (stb s) r1 Er). rewrite sfinish_outs.
      rewrite existsb_app, (existsb_quiet i pre Fq), saccept_for. cbn [orb]. split.
      * intros E. apply Z.eqb_eq in E. exists r1, pre, efs. rewrite E. split; [reflexivity|exact Er].
      * intros (r1' & pre' & efs' & E & _). injection E as E1 _ _ _. rewrite E1. apply Z.eqb_refl.
    + pose proof (sgate_not_ready_quiet c (stb s) r1 Er) as Gq.
      destruct (sgate c (stb s) r1) as [r2 g]. cbn [snd] in Gq. rewrite sfinish_outs.
      rewrite existsb_app, (existsb_quiet i pre Fq), (existsb_quiet i g Gq). split; [discriminate|].
      intros (r1' & pre' & efs' & E & R). inversion E; subst. rewrite R in Er. discriminate.
Qed.

(* ====================================================================================================== *)
(* Part 3.  THE MODEL REFINES THE SPECIFICATION                                                            *)
(* ====================================================================================================== *)

(* forget the two counters *)
Definition abs (r : req) : sreq := {|
  q_cid := cid r; q_ser := ser r; q_addr := addr r; q_port := port r; q_raddr := raddr r;
  q_fhost := f_host r; q_fident := f_ident r; q_fnick := f_nick r; q_fuser := f_user r; q_fpass := f_pass r; q_fempty := f_empty r; q_ftout := f_tout r; q_fsdone := f_sdone r;
  q_host := host r; q_cliu := cliu r; q_authu := authu r; q_nick := nick r; q_real := real r; q_acct := acct r;
  q_hh := hh r; q_ho := ho r; q_sent := sent r; q_refm := refm r; q_more := more r; q_okm := okm r; q_pw := pw r; q_timer := timer r |}.
Definition abs_st (s : st) : sst := {| sreqs := map abs (reqs s); snext := next s; stb := tb s; stmo := tmo s |}.

(* ---------- erasure commutes with everything that does not look at the counters ---------- *)
Lemma abs_skip_query t slot p r : sskip_query t slot p (abs r) = skip_query t slot p r.
Proof. reflexivity. Qed.
Lemma abs_query_lines n t r : squery_lines n t (abs r) = query_lines n t r.
Proof. reflexivity. Qed.
Lemma abs_queried r slot : squeried (abs r) slot = abs (queried r slot).
Proof. reflexivity. Qed.
Lemma abs_continued r slot : scontinued (abs r) slot = abs (continued r slot).
Proof. reflexivity. Qed.
Lemma abs_xline n r p : sxline n (abs r) p = xline n r p.
Proof. reflexivity. Qed.
Lemma abs_complete c r : scomplete c (abs r) = complete c r.
Proof. reflexivity. Qed.

Lemma abs_qpass ss : forall slot ispw r outs efs,
  sqpass ss slot ispw (abs r) outs efs =
  (abs (fst (fst (qpass ss slot ispw r outs efs))), snd (fst (qpass ss slot ispw r outs efs)), snd (qpass ss slot ispw r outs efs)).
Proof.
  induction ss as [|[sv|] rest IH]; intros slot ispw r outs efs; cbn [qpass sqpass]; [reflexivity| |apply IH].
  rewrite abs_skip_query.
  destruct (negb (s_conf sv) || skip_query (s_type sv) slot ispw r); [apply IH|].
  rewrite abs_query_lines, abs_queried. apply IH.
Qed.

Lemma abs_cont ss : forall slot t r outs efs,
  scont ss slot t (abs r) outs efs =
  (abs (fst (fst (cont ss slot t r outs efs))), snd (fst (cont ss slot t r outs efs)), snd (cont ss slot t r outs efs)).
Proof.
  induction ss as [|[sv|] rest IH]; intros slot t r outs efs; cbn [cont scont]; [reflexivity| |apply IH].
  change (q_more (abs r)) with (more r).
  destruct (N.testbit (more r) slot && s_conf sv); [|apply IH].
  rewrite abs_xline, abs_continued. apply IH.
Qed.

Lemma abs_password tb r t :
  spassword tb (abs r) t = (abs (fst (fst (password tb r t))), snd (fst (password tb r t)), snd (password tb r t)).
Proof.
  unfold spassword, password.
  change (q_more (abs r)) with (more r). change (q_pw (abs r)) with (pw r).
  destruct ((more r =? 0) || negb (nonempty (pw r))); [|apply abs_cont].
  destruct (negb (starts t x2b || starts t x2d)); [reflexivity|].
  destruct (modes _ _ _ _ _ _ _) as [[[[[rest0 sx] cx] sb] cb]|]; [|reflexivity].
  cbv zeta.
  destruct (negb (has sp (skipsp rest0))); [reflexivity|].
  match goal with |- context [qpass _ _ _ ?x _ _] => exact (abs_qpass (slots tb) 0 true x [] []) end.
Qed.

Lemma abs_xreply_ok ss : forall slot name r, sxreply_ok ss slot name (abs r) = xreply_ok ss slot name r.
Proof. induction ss as [|[sv|] rest IH]; intros slot name r; cbn [xreply_ok sxreply_ok]; [reflexivity| |apply IH]. rewrite IH. reflexivity. Qed.

Lemma abs_rule_matches ss ru r : srule_matches ss ru (abs r) = rule_matches ss ru r.
Proof. unfold srule_matches, rule_matches. destruct (r_xok ru); [rewrite abs_xreply_ok|]; reflexivity. Qed.

Lemma abs_classify ss rs r : sclassify ss rs (abs r) = classify ss rs r.
Proof.
  induction rs as [|ru rest IH]; cbn [classify sclassify]; [reflexivity|].
  rewrite abs_rule_matches, IH. reflexivity.
Qed.

(* ---------- the gate: the only place where the counters are read; here the invariant is used ---------- *)
Lemma abs_gate c tb r : Inv r -> sgate c tb (abs r) = (option_map abs (fst (gate c tb r)), snd (gate c tb r)).
Proof.
  intros [H1 H2]. unfold sgate, gate, sready, hard_ok, saccept.
  rewrite abs_complete, abs_classify.
  change (q_ho (abs r)) with (ho r). change (q_acct (abs r)) with (acct r). change (q_refm (abs r)) with (refm r).
  change (q_ftout (abs r)) with (f_tout r). change (q_fsdone (abs r)) with (f_sdone r).
  rewrite H1.
  destruct (complete c r); [|rewrite andb_false_r; reflexivity].
  destruct (ho r && negb (nonempty (acct r))); [reflexivity|].
  cbn [Z.eqb negb andb].
  destruct (f_tout r).
  - rewrite !orb_true_r. destruct (classify (slots tb) (rules tb) r) as [extra k]. reflexivity.
  - rewrite (H2 eq_refl), !orb_false_r.
    destruct (refm r =? 0); cbn [Z.eqb].
    + destruct (classify (slots tb) (rules tb) r) as [extra k]. reflexivity.
    + destruct (f_sdone r); reflexivity.
Qed.

Lemma abs_verdict c tb r1 pre efs : Inv r1 ->
  verdict c tb (abs r1) pre efs = (option_map abs (fst (gate c tb r1)), pre ++ snd (gate c tb r1), efs).
Proof. intros H. unfold verdict. rewrite (abs_gate c tb r1 H). reflexivity. Qed.

(* ---------- replies ---------- *)
Lemma abs_reply c tb r svcn text : Inv r ->
  match sreply tb (abs r) svcn text with
  | inl res => res
  | inr (r1, pre, efs) => verdict c tb r1 pre efs
  end = (option_map abs (fst (fst (reply c tb r svcn text))), snd (fst (reply c tb r svcn text)), snd (reply c tb r svcn text)).
Proof.
  intros HI. unfold sreply, reply.
  change (q_refm (abs r)) with (refm r).
  destruct (find_slot (slots tb) 0 svcn (refm r)) as [[slot t]|] eqn:Ef; [|reflexivity].
  pose proof (find_slot_bit _ _ _ _ _ _ Ef) as Hb.
  assert (forall mr ok, Inv (release r slot mr ok None (holds r))) as R0 by (intros; apply release_inv; auto).
  assert (forall r1 (pre : list out) (e : list eff), Inv r1 ->
    verdict c tb (abs r1) pre e =
    (option_map abs (fst (fst (let '(r', g) := gate c tb r1 in (r', pre ++ g, e)))),
     snd (fst (let '(r', g) := gate c tb r1 in (r', pre ++ g, e))), snd (let '(r', g) := gate c tb r1 in (r', pre ++ g, e)))) as Fin.
  { intros r1 pre e H1. rewrite (abs_verdict c tb r1 pre e H1). destruct (gate c tb r1) as [r' g]. reflexivity. }
  cbv beta zeta.
  destruct text as [tx|].
  - destruct (seq_eq tx (S_ "OK")); [exact (Fin _ _ _ (R0 false true))|].
    destruct (prefix (S_ "OK ") tx).
    + destruct (negb (nonempty (upto sp (skipn 3 tx))) || is_drone t) eqn:Ea; [exact (Fin _ _ _ (R0 false true))|].
      apply orb_false_iff in Ea as [Ea _]. apply negb_false_iff in Ea.
      refine (Fin (release r slot false true (Some (firstn acct_len (upto sp (skipn 3 tx)))) _) _ _ _).
      apply release_inv; auto. split; [apply nonempty_firstn_acct; exact Ea|reflexivity].
    + destruct (prefix (S_ "NO ") tx); [reflexivity|].
      destruct (prefix (S_ "AGAIN ") tx); [exact (Fin _ _ _ (R0 false false))|].
      destruct (prefix (S_ "MORE ") tx); [|reflexivity].
      exact (Fin _ _ _ (R0 true false)).
  - exact (Fin _ _ _ (R0 false false)).
Qed.

(* ---------- the table ---------- *)
Lemma abs_lookup id l : slookup id (map abs l) = option_map abs (lookup id l).
Proof. induction l as [|x t IH]; cbn [map slookup lookup]; [reflexivity|]. change (q_cid (abs x)) with (cid x). destruct (cid x =? id)%Z; [reflexivity|exact IH]. Qed.
Lemma abs_remove id l : sremove id (map abs l) = map abs (remove id l).
Proof. induction l as [|x t IH]; cbn [map sremove remove]; [reflexivity|]. change (q_cid (abs x)) with (cid x). destruct (cid x =? id)%Z; [reflexivity|cbn [map]; rewrite IH; reflexivity]. Qed.
Lemma abs_put r l : sput (abs r) (map abs l) = map abs (put r l).
Proof.
  induction l as [|x t IH]; cbn [map sput put]; [reflexivity|].
  change (q_cid (abs x)) with (cid x). change (q_cid (abs r)) with (cid r).
  destruct (cid x =? cid r)%Z; [reflexivity|cbn [map]; rewrite IH; reflexivity].
Qed.

Lemma abs_finish s id ro o e :
  sfinish (abs_st s) id (option_map abs ro, o, e) = (abs_st (fst (finish s id (ro, o, e))), snd (finish s id (ro, o, e))).
Proof.
  unfold sfinish, finish, abs_st, swith_slots, with_slots. destruct ro as [r'|]; cbn [option_map fst snd reqs next tb tmo sreqs snext stb stmo].
  - rewrite abs_put. reflexivity.
  - rewrite abs_remove. reflexivity.
Qed.

Lemma abs_finish_verdict c s id r1 pre efs : Inv r1 ->
  sfinish (abs_st s) id (verdict c (tb s) (abs r1) pre efs) =
  (abs_st (fst (finish s id (let '(r2, g) := gate c (tb s) r1 in (r2, pre ++ g, efs)))),
   snd (finish s id (let '(r2, g) := gate c (tb s) r1 in (r2, pre ++ g, efs)))).
Proof. intros H. rewrite (abs_verdict c (tb s) r1 pre efs H). destruct (gate c (tb s) r1) as [r2 g]. cbn [fst snd]. apply abs_finish. Qed.

(* the phase-2 wrapper of sstep, named so that the simulation lemmas can be stated on it *)
Definition sphase2 (c : cfg) (s : sst) (x : sres) : sst * list out :=
  match x with
  | Stay s' o => (s', o)
  | ToGate i r1 pre efs => sfinish s i (verdict c (stb s) r1 pre efs)
  end.

(* registration data: (query pass,) gate *)
Lemma abs_aft c s id r1 : Inv r1 ->
  sphase2 c (abs_st s)
    (if with_xq c then let '(r2, o, efs) := sqpass (slots (tb s)) 0 false (abs r1) [] [] in ToGate id r2 o efs else ToGate id (abs r1) [] []) =
  (abs_st (fst (finish s id (if with_xq c then after c (tb s) r1 false else let '(r2, g) := gate c (tb s) r1 in (r2, g, [])))),
   snd (finish s id (if with_xq c then after c (tb s) r1 false else let '(r2, g) := gate c (tb s) r1 in (r2, g, [])))).
Proof.
  intros H1. destruct (with_xq c).
  - unfold after. rewrite abs_qpass.
    pose proof (qpass_inv (slots (tb s)) 0 false r1 [] [] H1) as Q.
    destruct (qpass (slots (tb s)) 0 false r1 [] []) as [[r2 o] efs]. cbn [fst snd] in *.
    unfold sphase2. change (stb (abs_st s)) with (tb s). apply abs_finish_verdict. exact Q.
  - unfold sphase2. change (stb (abs_st s)) with (tb s).
    rewrite (abs_finish_verdict c s id r1 [] [] H1). destruct (gate c (tb s) r1) as [r2 g]. reflexivity.
Qed.

(* ---------- one step ---------- *)
Theorem abs_step_eq c s id argv : TInv s ->
  sstep c (abs_st s) id argv = (abs_st (fst (step c s id argv)), snd (step c s id argv)).
Proof.
  intros HT. change (sstep c (abs_st s) id argv) with (sphase2 c (abs_st s) (sevent c (abs_st s) id argv)).
  unfold sevent, step. cbv zeta.
  change (sreqs (abs_st s)) with (map abs (reqs s)). change (snext (abs_st s)) with (next s).
  change (stmo (abs_st s)) with (tmo s). change (stb (abs_st s)) with (tb s).
  destruct (beq (cmdchar argv) x43).
  { destruct (arg 1 argv) as [a|], (arg 2 argv), (arg 3 argv), (arg 4 argv); try reflexivity.
    destruct (announce_addr a) as [g txt]. cbn [sphase2 fst snd]. unfold abs_st; cbn [reqs next tb tmo].
    change (sfresh id ((next s + 1) mod 4294967296) txt g (port_of s0) (tmo s)) with (abs (fresh id ((next s + 1) mod 4294967296) txt g (port_of s0) (tmo s))).
    rewrite abs_put. reflexivity. }
  destruct (beq (cmdchar argv) x58 || beq (cmdchar argv) x78).
  { destruct (negb (with_xq c)); [reflexivity|].
    destruct (arg 1 argv) as [svcn|]; [|reflexivity]. destruct (arg 2 argv) as [tg|]; [|reflexivity]. destruct (arg 3 argv) as [tx|]; [|reflexivity].
    destruct (parse_tag tg) as [[tid tser]|]; [|reflexivity].
    rewrite abs_lookup.
    destruct (lookup tid (reqs s)) as [r|] eqn:El; [|reflexivity].
    cbn [option_map]. change (q_ser (abs r)) with (ser r).
    destruct (ser r =? tser); [|reflexivity].
    pose proof (abs_reply c (tb s) r svcn (if beq (cmdchar argv) x58 then Some tx else None) (lookup_inv _ _ _ HT El)) as R.
    destruct (reply c (tb s) r svcn _) as [[ro o] e]. cbn [fst snd] in R.
    destruct (sreply (tb s) (abs r) svcn _) as [res|[[r1 pre] efs]].
    - subst res. rewrite abs_finish. cbn [sphase2]. reflexivity.
    - cbn [sphase2]. change (stb (abs_st s)) with (tb s). rewrite R. apply abs_finish. }
  rewrite abs_lookup.
  destruct (lookup id (reqs s)) as [r|] eqn:El; [|reflexivity].
  pose proof (lookup_inv _ _ _ HT El) as HI.
  cbn [option_map].
  destruct (beq (cmdchar argv) x44 || beq (cmdchar argv) x54).
  { cbn [sphase2 fst snd]. unfold abs_st; cbn [reqs next tb tmo]. rewrite abs_remove. reflexivity. }
  destruct (beq (cmdchar argv) x21).
  { change (q_timer (abs r)) with (timer r).
    match goal with |- context [if ?b then _ else _] => destruct b end; [|reflexivity].
    cbn [sphase2]. change (stb (abs_st s)) with (tb s). change (stimed_out (abs r)) with (abs (timed_out r)).
    rewrite (abs_finish_verdict c s id (timed_out r) [] [] (timed_out_inv r HI)). destruct (gate c (tb s) (timed_out r)) as [r2 g]. reflexivity. }
  destruct (beq (cmdchar argv) x4e).
  { destruct (arg 1 argv) as [h|]; [|reflexivity]. change (q_host (abs r)) with (host r). destruct (nonempty (host r)); [reflexivity|].
    exact (abs_aft c s id (set_flags (with_fields r (firstn hostlen h) (cliu r) (authu r) (nick r) (real r) (f_empty r)) true (f_ident r) (f_nick r) (f_user r) (f_pass r)) HI). }
  destruct (beq (cmdchar argv) x64).
  { exact (abs_aft c s id (set_flags r true (f_ident r) (f_nick r) (f_user r) (f_pass r)) HI). }
  destruct (beq (cmdchar argv) x75).
  { destruct (arg 1 argv) as [u|].
    - exact (abs_aft c s id (set_flags (with_fields r (host r) (cliu r) (firstn userlen u) (nick r) (real r) (f_empty r)) (f_host r) true (f_nick r) (f_user r) (f_pass r)) HI).
    - change (q_cliu (abs r)) with (cliu r). destruct (nonempty (cliu r)).
      + exact (abs_aft c s id (set_flags r (f_host r) true (f_nick r) (f_user r) (f_pass r)) HI).
      + exact (abs_aft c s id (with_fields r (host r) (cliu r) (authu r) (nick r) (real r) true) HI). }
  destruct (beq (cmdchar argv) x6e).
  { destruct (arg 1 argv) as [n|]; [|reflexivity].
    exact (abs_aft c s id (set_flags (with_fields r (host r) (cliu r) (authu r) (firstn nicklen n) (real r) (f_empty r)) (f_host r) (f_ident r) true (f_user r) (f_pass r)) HI). }
  destruct (beq (cmdchar argv) x55).
  { destruct (arg 1 argv) as [u|]; [|reflexivity]. destruct (arg 2 argv) as [re|]; [|reflexivity].
    exact (abs_aft c s id (set_flags (with_fields r (host r) (firstn userlen u) (authu r) (nick r) (firstn reallen re) (f_empty r)) (f_host r) (f_ident r || f_empty r) (f_nick r) true (f_pass r)) HI). }
  destruct (beq (cmdchar argv) x48).
  { pose proof (abs_aft c s id (set_flags r true true true true (f_pass r)) HI) as A1.
    pose proof (abs_aft c s id (set_flags r true (f_ident r) (f_nick r) (f_user r) (f_pass r)) HI) as A2.
    destruct (with_xq c); [exact A1|exact A2]. }
  destruct (beq (cmdchar argv) x50); [|reflexivity].
  destruct (arg 1 argv) as [t|]; [|reflexivity].
  pose proof (set_flags_inv r (f_host r) (f_ident r) (f_nick r) (f_user r) true HI) as HI0.
  destruct (with_xq c).
  - change (sset_flags (abs r) (q_fhost (abs r)) (q_fident (abs r)) (q_fnick (abs r)) (q_fuser (abs r)) true)
      with (abs (set_flags r (f_host r) (f_ident r) (f_nick r) (f_user r) true)).
    rewrite abs_password.
    pose proof (password_inv (tb s) _ t HI0) as P.
    destruct (password (tb s) _ t) as [[r1 o] efs]. cbn [fst snd] in *.
    cbn [sphase2]. change (stb (abs_st s)) with (tb s).
    rewrite (abs_verdict c (tb s) r1 o efs P). destruct (gate c (tb s) r1) as [r2 g]. cbn [fst snd]. apply abs_finish.
  - cbn [sphase2]. change (stb (abs_st s)) with (tb s).
    change (sset_flags (abs r) (q_fhost (abs r)) (q_fident (abs r)) (q_fnick (abs r)) (q_fuser (abs r)) true)
      with (abs (set_flags r (f_host r) (f_ident r) (f_nick r) (f_user r) true)).
    rewrite (abs_finish_verdict c s id _ [] [] HI0). destruct (gate c (tb s) _) as [r2 g]. reflexivity.
Qed.

Theorem abs_step c s id argv : TInv s -> let '(s', o) := step c s id argv in sstep c (abs_st s) id argv = (abs_st s', o).
Proof. intros HT. pose proof (abs_step_eq c s id argv HT) as H. destruct (step c s id argv) as [s' o]. exact H. Qed.

Theorem abs_step_ev c s e : TInv s -> let '(s', o) := step_ev c s e in sstep_ev c (abs_st s) e = (abs_st s', o).
Proof.
  intros HT. destruct e as [id argv|svs rs t]; cbn [step_ev sstep_ev].
  - apply abs_step. exact HT.
  - unfold abs_st. cbn [reqs next tb tmo sreqs snext stb stmo]. rewrite !map_map. reflexivity.
Qed.

(* ---------- runs ---------- *)
Lemma run_sim c evs : forall s acc, TInv s ->
  fold_left (fun acc e => let '(s, outs) := acc in let '(s', o) := sstep_ev c s e in (s', outs ++ [o])) evs (abs_st s, acc) =
  (abs_st (fst (fold_left (fun acc e => let '(s, outs) := acc in let '(s', o) := step_ev c s e in (s', outs ++ [o])) evs (s, acc))),
   snd (fold_left (fun acc e => let '(s, outs) := acc in let '(s', o) := step_ev c s e in (s', outs ++ [o])) evs (s, acc))).
Proof.
  induction evs as [|e evs IH]; intros s acc HT; cbn [fold_left]; [reflexivity|].
  pose proof (abs_step_ev c s e HT) as A. pose proof (step_ev_inv c s e HT) as I1.
  destruct (step_ev c s e) as [s' o]. rewrite A. cbn [fst] in I1. apply IH. exact I1.
Qed.

Lemma abs_init c services rs t : abs_st (init c services rs t) = sinit c services rs t.
Proof. reflexivity. Qed.

(* THE REFINEMENT: for every event list from the initial state, the model writes exactly the lines the specification writes *)
Theorem spec_refines c services rs t evs :
  run_out c (init c services rs t) evs = srun_out c (sinit c services rs t) evs.
Proof.
  unfold run_out, srun_out, srun. rewrite <- abs_init. rewrite (run_sim c evs (init c services rs t) [] (init_inv c services rs t)). reflexivity.
Qed.

(* and the tables stay related by `abs` *)
Lemma run_st_sim c evs : forall s, TInv s ->
  srun_st c (abs_st s) evs = abs_st (fold_left (fun s e => fst (step_ev c s e)) evs s).
Proof.
  unfold srun_st. induction evs as [|e evs IH]; intros s HT; cbn [fold_left]; [reflexivity|].
  pose proof (abs_step_ev c s e HT) as A. pose proof (step_ev_inv c s e HT) as I1.
  destruct (step_ev c s e) as [s' o]. rewrite A. cbn [fst] in *. apply IH. exact I1.
Qed.

Theorem spec_refines_state c services rs t evs :
  abs_st (fold_left (fun s e => fst (step_ev c s e)) evs (init c services rs t)) = srun_st c (sinit c services rs t) evs.
Proof. rewrite <- abs_init. symmetry. apply run_st_sim. apply init_inv. Qed.

(* ====================================================================================================== *)
(* Part 4.  C02 AND C03 ON THE MODEL, THROUGH THE REFINEMENT                                               *)
(* ====================================================================================================== *)

(* the model's gate decides exactly the requests whose counter-free image is ready *)
Theorem gate_accepts_iff_sready c tb r : Inv r -> (fst (gate c tb r) = None <-> sready c (abs r) = true).
Proof.
  intros HI. rewrite <- (sgate_accepts_iff_ready c tb (abs r)). rewrite (abs_gate c tb r HI). cbn [fst].
  destruct (fst (gate c tb r)); cbn [option_map]; split; congruence.
Qed.

(* `reach c s`: s is the table after some event list from some initial configuration *)
Definition reach (c : cfg) (s : st) : Prop :=
  exists services rs t evs, s = fold_left (fun s e => fst (step_ev c s e)) evs (init c services rs t).

Lemma reach_inv c s : reach c s -> TInv s.
Proof. intros (services & rs & t & evs & E). subst s. apply run_inv_init. Qed.

(* C02 + C03, per step of the model: in every reachable state and for every input line, a D/R line for client i
   is written in that step iff the line brings a request of client i before the gate and that request, with its
   counters forgotten, is ready. *)
Theorem accept_iff_ready_step c s id argv i : reach c s ->
  (existsb (accept_for i) (snd (step c s id argv)) = true <->
   exists r1 pre efs, sevent c (abs_st s) id argv = ToGate i r1 pre efs /\ sready c r1 = true).
Proof.
  intros HR. rewrite <- sstep_accept_iff_ready. rewrite (abs_step_eq c s id argv (reach_inv c s HR)). reflexivity.
Qed.

(* C03 as a state property of the model: in no reachable state does a ready request sit in the table *)
Theorem no_ready_waits c s : reach c s -> Forall (fun r => sready c (abs r) = false) (reqs s).
Proof.
  intros (services & rs & t & evs & E). subst s.
  pose proof (spec_no_ready_waits c services rs t evs) as H. rewrite <- spec_refines_state in H.
  unfold NoneReady in H. cbn [abs_st sreqs] in H. apply Forall_map in H. exact H.
Qed.

(* ====================================================================================================== *)
(* Part 5.  NON-VACUITY                                                                                    *)
(* ====================================================================================================== *)

Definition show (l : list (list out)) : list (list string) := map (map (fun o => string_of_list_byte (render o))) l.
Definition L (id : Z) (ws : list string) : ev := Ev id (map S_ ws).
Definition cx : cfg := {| with_xq := true |}.
Definition svcs : list (str * str) := [(S_ "acc", S_ "login")].
Definition rls : list rule :=
  [{| r_name := S_ "users"; r_class := None; r_acct := None; r_addr := None; r_user := None; r_host := None; r_xok := None; r_trust := false |}].
Definition hello : list ev := [L 1 ["C"; "1.2.3.4"; "4000"; "10.0.0.1"; "6667"]].
Definition reg : list ev := [L 1 ["N"; "host.example"]; L 1 ["u"; "ident"]; L 1 ["n"; "nick"]; L 1 ["U"; "user"; "Real Name"]].

(* +! : all registration data is in after the U line, yet nothing is said (not even `d`) until the login service
   vouches an account; the verdict comes in the very step of that reply, with the account *)
Definition h_hard : list ev := hello ++ [L 1 ["P"; "+! bob secret"]] ++ reg ++ [L 0 ["X"; "acc"; "1_1"; "OK bob"]].
Example spec_accepts_with_account_under_hard_hold :
  show (srun_out cx (sinit cx svcs rls false) h_hard) =
  [[]; ["X acc 1_1 :LOGIN bob secret"]; []; []; []; []; ["M 1 1.2.3.4 4000 :+x"; "R 1 1.2.3.4 4000 bob users"]].
Proof. vm_compute. reflexivity. Qed.

(* +x only: the data is complete while the query is unanswered: the daemon says `d`, once (a further line repeats
   nothing), and decides in the step of the reply *)
Definition h_soft : list ev := hello ++ [L 1 ["P"; "+x bob secret"]] ++ reg ++ [L 1 ["u"; "again"]; L 0 ["X"; "acc"; "1_1"; "OK bob"]].
Example spec_waits_with_softdone :
  show (srun_out cx (sinit cx svcs rls false) h_soft) =
  [[]; ["X acc 1_1 :LOGIN bob secret"]; []; []; []; ["d 1 1.2.3.4 4000"]; []; ["M 1 1.2.3.4 4000 :+x"; "R 1 1.2.3.4 4000 bob users"]].
Proof. vm_compute. reflexivity. Qed.

(* the request timeout releases a request that only waits for an answer: D, without an account *)
Definition h_tout : list ev := hello ++ [L 1 ["P"; "+x bob secret"]] ++ reg ++ [L 1 ["!"; "timeout"]].
Example spec_timeout_releases :
  show (srun_out cx (sinit cx svcs rls true) h_tout) =
  [[]; ["X acc 1_1 :LOGIN bob secret"]; []; []; []; ["d 1 1.2.3.4 4000"]; ["D 1 1.2.3.4 4000 users"]].
Proof. vm_compute. reflexivity. Qed.

(* but it does not release a client that demanded +! and holds no account: silence until the account arrives *)
Definition h_tout_hard : list ev := hello ++ [L 1 ["P"; "+! bob secret"]] ++ reg ++ [L 1 ["!"; "timeout"]; L 0 ["X"; "acc"; "1_1"; "OK bob"]].
Example spec_timeout_does_not_release_hard_hold :
  show (srun_out cx (sinit cx svcs rls true) h_tout_hard) =
  [[]; ["X acc 1_1 :LOGIN bob secret"]; []; []; []; []; []; ["M 1 1.2.3.4 4000 :+x"; "R 1 1.2.3.4 4000 bob users"]].
Proof. vm_compute. reflexivity. Qed.

(* the model writes the same lines: by the refinement theorem, not by a second computation *)
Example model_same_lines :
  show (run_out cx (init cx svcs rls false) h_hard) =
  [[]; ["X acc 1_1 :LOGIN bob secret"]; []; []; []; []; ["M 1 1.2.3.4 4000 :+x"; "R 1 1.2.3.4 4000 bob users"]].
Proof. rewrite spec_refines. exact spec_accepts_with_account_under_hard_hold. Qed.

(* the refinement is not an artefact of erasing dead code: with the counters at values that violate `Inv`
   (one hard hold too many) the model's gate and the specification's gate disagree *)
Definition stale : req :=
  {| cid := 1%Z; ser := 1; addr := S_ "1.2.3.4"; port := 4000; raddr := [];
     f_host := true; f_ident := true; f_nick := true; f_user := true; f_pass := false; f_empty := false; f_tout := false; f_sdone := false;
     holds := 1%Z; soft := 0%Z; host := []; cliu := []; authu := []; nick := []; real := []; acct := [];
     hh := false; ho := false; sent := 0; refm := 0; more := 0; okm := 0; pw := []; timer := false |}.
Example inv_is_needed :
  sready cx (abs stale) = true /\ fst (gate cx {| slots := []; rules := [] |} stale) = Some stale.
Proof. split; reflexivity. Qed.
