(* The hypotheses used by the C15 theorems (sorted child lists, lwf, lplain) are invariants of the scripted runs:
   they hold initially and are preserved by registration, loading (of a sorted file tree) and hook attachment.
   Also: two sorted child lists with equivalent lookups are equivalent entry by entry. *)
From Coq Require Import List NArith ZArith Bool Strings.Byte Lia.
Import ListNotations.
Require Import Conf ConfMerge ConfOrder ConfBase ConfIdem ConfSorted ConfWalk ConfHooks ConfValues ConfHistory ConfCommute.
Local Open Scope N_scope.

(* ---------- lplain is preserved ---------- *)
Lemma splice_lplain : forall s, lplain (splice s).
Proof.
  apply (val_ind' (fun s => lplain (splice s))).
  - intros v. cbn [splice]. apply lplain_str. intros _. split; reflexivity.
  - intros h s. cbn [splice]. apply lplain_ina. intros _. split; reflexivity.
  - intros l. cbn [splice]. apply lplain_list. intros _. reflexivity.
  - intros ks IH. cbn [splice]. apply lplain_obj. rewrite Forall_map. rewrite Forall_forall in *. intros nv Hin. cbn [snd].
    split; [apply IH; exact Hin|intros _; destruct (snd nv); reflexivity].
Qed.

Lemma rvt_lplain : forall l, lplain l -> lplain (rvt l).
Proof.
  apply (lnode_ind' (fun l => lplain l -> lplain (rvt l))).
  - intros spec pres hook d v sub p H. cbn [rvt]. apply lplain_str. exact (proj1 (lplain_str _ _ _ _ _ _ _) H).
  - intros spec pres hook dh ds h s H. cbn [rvt]. apply lplain_ina. exact (proj1 (lplain_ina _ _ _ _ _ _ _) H).
  - intros spec pres hook d v H. cbn [rvt]. apply lplain_list. exact (proj1 (lplain_list _ _ _ _ _) H).
  - intros spec pres hook ks IH H. rewrite rvt_obj. apply lplain_obj. apply lplain_obj in H. destruct pres; [|exact H].
    apply (rvt_kids_Forall (fun c => lplain c /\ (spec = false -> lspec c = false))).
    rewrite Forall_forall in *. intros nc Hin Hsp. destruct (H nc Hin) as [A B]. split; [apply IH; assumption|].
    intros E. specialize (B E). congruence.
Qed.

Theorem merge_lplain : forall s p t, lplain t -> lplain (fst (merge p t s)).
Proof.
  apply (val_ind' (fun s => forall p t, lplain t -> lplain (fst (merge p t s)))).
  - intros v p t H. destruct t as [spec pres hook d v0 sub pa| | |]; try apply (splice_lplain (VStr v)).
    rewrite merge_str_str. cbn [fst]. apply lplain_str. exact (proj1 (lplain_str _ _ _ _ _ _ _) H).
  - intros h s p t H. destruct t as [|spec pres hook dh ds oh os| |]; try apply (splice_lplain (VIna h s)).
    cbn [merge fst]. apply lplain_ina. exact (proj1 (lplain_ina _ _ _ _ _ _ _) H).
  - intros l p t H. destruct t as [| |spec pres hook d v|]; try apply (splice_lplain (VList l)).
    cbn [merge fst]. apply lplain_list. exact (proj1 (lplain_list _ _ _ _ _) H).
  - intros ss IH p t H. destruct t as [| | |spec pres hook ks]; try apply (splice_lplain (VObj ss)).
    rewrite merge_obj_fst. apply lplain_obj. apply lplain_obj in H.
    apply (mk_kids_Forall (fun c => lplain c /\ (spec = false -> lspec c = false))).
    + intros m c p0 y e Hin Hr. rewrite Forall_forall in H. destruct (H (m, c) Hin) as [A B]. cbn [snd] in *.
      pose proof (revert_fst c p0) as F. rewrite Hr in F. cbn [fst] in F.
      destruct (lspec c) eqn:Es; cbn [keep] in F; [|discriminate]. inversion F; subst y.
      split; [apply rvt_lplain; exact A|]. intros E. specialize (B E). congruence.
    + intros m c k0 s' p0 Hin Hin' Hk. rewrite Forall_forall in H, IH. destruct (H (m, c) Hin) as [A B]. cbn [snd] in *.
      split; [apply (IH (k0, s') Hin'); exact A|]. rewrite (merge_spec_eq _ _ _ Hk). exact B.
    + intros k0 s' _. split; [apply splice_lplain|]. intros _. destruct s'; reflexivity.
Qed.

Theorem do_reg_lplain kids r : Forall (fun nc => lplain (snd nc)) kids -> Forall (fun nc => lplain (snd nc)) (fst (do_reg kids r)).
Proof.
  intros H. destruct r as [n|n sub d|n d|n h s].
  - rewrite do_reg_obj. apply upsertl_Forall; [|exact H]. intros [[| | |spec p hk0 ks]|] Ho; cbn [reg_obj_f]; try (apply lplain_obj; constructor).
    apply lplain_obj. apply lplain_obj in Ho. eapply Forall_impl; [|exact Ho]. intros a [A _]. split; [exact A|discriminate].
  - rewrite do_reg_str. apply upsertl_Forall; [|exact H]. intros o _.
    destruct (reg_str_node_form (lookupl n 0 kids) (lookup_name n 0 kids) sub d) as (p' & -> & _). apply lplain_str. discriminate.
  - rewrite do_reg_list. apply upsertl_Forall; [|exact H]. intros [[]|] _; cbn [reg_list_f]; apply lplain_list; discriminate.
  - rewrite do_reg_ina. apply upsertl_Forall; [|exact H]. intros [[]|] _; cbn [reg_ina_f]; apply lplain_ina; discriminate.
Qed.

(* ---------- the invariant of the scripted runs ---------- *)
Definition inv (st : list (str * lnode)) : Prop :=
  lsorted_kids st /\ Forall (fun nc => lwf (snd nc)) st /\ Forall (fun nc => lplain (snd nc)) st.

Lemma inv_root st : inv st <-> lsorted (LObj true true false st) /\ lwf (LObj true true false st) /\ lplain (LObj true true false st).
Proof.
  unfold inv. rewrite lsorted_obj, lwf_obj, lplain_obj. split; intros (A & B & C); (split; [exact A|]; split).
  - eapply Forall_impl; [|exact B]. intros a Ha. split; [exact Ha|discriminate].
  - eapply Forall_impl; [|exact C]. intros a Ha. split; [exact Ha|discriminate].
  - eapply Forall_impl; [|exact B]. intros a [Ha _]. exact Ha.
  - eapply Forall_impl; [|exact C]. intros a [Ha _]. exact Ha.
Qed.

Theorem inv_root0 : inv root0.
Proof.
  unfold inv, root0. split; [|split].
  - split; [cbn [map ksorted]; split; [constructor|exact I]|]. constructor; [|constructor]. cbn [snd].
    apply lsorted_obj. split; [cbn [map ksorted]; split; [constructor|exact I]|]. constructor; [|constructor].
    cbn [snd]. apply (lsorted_obj false false false []). split; [exact I|constructor].
  - constructor; [|constructor]. cbn [snd].
    apply lwf_obj. constructor; [|constructor]. cbn [snd]. split; [apply lwf_leaf; discriminate|]. intros _.
    apply dflt_state_str. split; [reflexivity|]. split; [reflexivity|]. split; [reflexivity|].
    unfold pcons. cbn [N.eqb]. intros z Hz. vm_compute in Hz. inversion Hz; subst. reflexivity.
  - constructor; [|constructor]. cbn [snd].
    apply lplain_obj. constructor; [|constructor]. cbn [snd]. split; [|discriminate]. apply lplain_str. discriminate.
Qed.

Theorem inv_reg st r : inv st -> inv (fst (do_reg st r)).
Proof.
  intros (A & B & C). split; [apply do_reg_sorted; exact A|]. split; [|apply do_reg_lplain; exact C].
  assert (lwf (LObj true true false st)) as W.
  { apply lwf_obj. eapply Forall_impl; [|exact B]. intros a Ha. split; [exact Ha|discriminate]. }
  apply (do_reg_lwf st r) in W. apply lwf_obj in W. eapply Forall_impl; [|exact W]. intros a [Ha _]. exact Ha.
Qed.

Theorem inv_load st tree : inv st -> vsorted_kids tree -> inv (kidsof (fst (merge [] (LObj true true false st) (VObj tree)))).
Proof.
  intros H Ht. apply inv_root in H as (A & B & C). apply vsorted_obj in Ht.
  pose proof (merge_sorted (VObj tree) [] _ A Ht) as A'.
  pose proof (merge_lwf (VObj tree) [] _ B) as B'.
  pose proof (merge_lplain (VObj tree) [] _ C) as C'.
  rewrite merge_obj_fst in *. cbn [kidsof].
  assert (inv (t1 (mk_gen merge [] st tree)) <-> lsorted (LObj true true false (t1 (mk_gen merge [] st tree))) /\ lwf (LObj true true false (t1 (mk_gen merge [] st tree))) /\ lplain (LObj true true false (t1 (mk_gen merge [] st tree)))) as E by apply inv_root.
  apply E. split; [exact A'|]. split; [exact B'|exact C'].
Qed.

(* ---------- sorted lists with equivalent lookups are equivalent entry by entry ---------- *)
Definition kids_eqv0 (ks ks' : list (str * lnode)) : Prop :=
  Forall2 (fun nc nc' => scmp (fst nc) (fst nc') = Eq /\ leqv (snd nc) (snd nc')) ks ks'.

Lemma sorted_ext a : forall b, ksorted (map lkey a) -> ksorted (map lkey b) ->
  (forall n k, oeqv (lookupe n k a) (lookupe n k b)) -> kids_eqv0 a b.
Proof.
  induction a as [|[m x] a' IH]; intros b Ha Hb H.
  - destruct b as [|[m' y] b']; [constructor|]. specialize (H m' (lkind y)). cbn [lookupe] in H. rewrite kcmp_refl in H. destruct H.
  - cbn [map ksorted] in Ha. destruct Ha as [Ha1 Ha2].
    destruct b as [|[m' y] b'].
    { specialize (H m (lkind x)). cbn [lookupe] in H. rewrite kcmp_refl in H. destruct H. }
    cbn [map ksorted] in Hb. destruct Hb as [Hb1 Hb2].
    assert (kcmp m (lkind x) m' (lkind y) = Eq) as E.
    { destruct (kcmp m (lkind x) m' (lkind y)) eqn:E; [reflexivity| |].
      - (* x below y: x is missing on the right *)
        exfalso. specialize (H m (lkind x)). cbn [lookupe] in H. rewrite kcmp_refl, E in H.
        rewrite (lookupe_none_gt m (lkind x) b') in H; [destruct H|]. eapply all_gt_trans'; [exact E|exact Hb1].
      - (* y below x: y is missing on the left *)
        exfalso. specialize (H m' (lkind y)). cbn [lookupe] in H. rewrite kcmp_refl in H. apply kcmp_lt_gt in E. rewrite E in H.
        rewrite (lookupe_none_gt m' (lkind y) a') in H; [destruct H|]. eapply all_gt_trans'; [exact E|exact Ha1]. }
    constructor.
    + specialize (H m (lkind x)). cbn [lookupe] in H. rewrite kcmp_refl, E in H. exact H.
    + apply IH; try assumption. intros n k. specialize (H n k). cbn [lookupe] in H.
      rewrite <- (kcmp_eq_r n k _ _ _ _ E) in H.
      destruct (kcmp n k m (lkind x)) eqn:En; try exact H.
      rewrite (lookupe_none_gt n k a') by (eapply all_gt_eq'; [exact En|exact Ha1]).
      rewrite (lookupe_none_gt n k b'); [exact I|]. eapply all_gt_eq'; [|exact Hb1].
      rewrite <- E. apply kcmp_eq_l. exact En.
Qed.


(* ---------- attaching hooks (CHookAll) keeps the invariant ---------- *)
Lemma hookall_obj s p h ks : hookall (LObj s p h ks) = LObj s p true (map (fun nv => (fst nv, hookall (snd nv))) ks).
Proof.
  cbn [hookall]. f_equal.
  all: induction ks as [|[n x] r IH]; cbn [map fst snd]; [reflexivity|]; rewrite IH; reflexivity.
Qed.
Lemma hookall_kind l : lkind (hookall l) = lkind l. Proof. destruct l; reflexivity. Qed.
Lemma hookall_spec l : lspec (hookall l) = lspec l. Proof. destruct l; reflexivity. Qed.
Lemma hookall_keys ks : map lkey (map (fun nv => (fst nv, hookall (snd nv))) ks) = map lkey ks.
Proof. rewrite map_map. apply map_ext. intros [n x]. unfold lkey. cbn [fst snd]. rewrite hookall_kind. reflexivity. Qed.

Lemma hookall_sorted : forall l, lsorted l -> lsorted (hookall l).
Proof.
  apply (lnode_ind' (fun l => lsorted l -> lsorted (hookall l))); try (intros; exact I).
  intros s p h ks IH H. rewrite hookall_obj. apply lsorted_obj. apply lsorted_obj in H. destruct H as [H1 H2]. split.
  - rewrite hookall_keys. exact H1.
  - rewrite Forall_map. rewrite Forall_forall in *. intros nv Hin. cbn [snd]. apply IH; auto.
Qed.
Lemma hookall_dflt : forall l, dflt_state l -> dflt_state (hookall l).
Proof.
  apply (lnode_ind' (fun l => dflt_state l -> dflt_state (hookall l))).
  - intros s p h d v sub pa H. exact H.
  - intros s p h dh ds hh ss H. exact H.
  - intros s p h d v H. exact H.
  - intros s p h ks IH H. rewrite hookall_obj. apply dflt_state_obj. apply dflt_state_obj in H. destruct H as (A & B & C). repeat split; try assumption.
    rewrite Forall_map. rewrite Forall_forall in *. intros nv Hin. cbn [snd]. apply IH; auto.
Qed.
Lemma hookall_lwf : forall l, lwf l -> lwf (hookall l).
Proof.
  apply (lnode_ind' (fun l => lwf l -> lwf (hookall l))); try (intros; exact I).
  intros s p h ks IH H. rewrite hookall_obj. apply lwf_obj. apply lwf_obj in H.
  rewrite Forall_map. rewrite Forall_forall in *. intros nv Hin. cbn [snd]. destruct (H nv Hin) as [A B].
  split; [apply IH; assumption|]. intros E. apply hookall_dflt. apply B. exact E.
Qed.
Lemma hookall_lplain : forall l, lplain l -> lplain (hookall l).
Proof.
  apply (lnode_ind' (fun l => lplain l -> lplain (hookall l))).
  - intros s p h d v sub pa H. exact H.
  - intros s p h dh ds hh ss H. exact H.
  - intros s p h d v H. exact H.
  - intros s p h ks IH H. rewrite hookall_obj. apply lplain_obj. apply lplain_obj in H.
    rewrite Forall_map. rewrite Forall_forall in *. intros nv Hin. cbn [snd]. destruct (H nv Hin) as [A B].
    split; [apply IH; assumption|]. rewrite hookall_spec. exact B.
Qed.

Theorem inv_hookall st : inv st -> inv (fst (exec st CHookAll)).
Proof.
  intros ((A1 & A2) & B & C). cbn [exec fst]. split; [split|split].
  - erewrite map_map, map_ext; [exact A1|]. intros [n x]. cbn [fst snd]. destruct (is_logs n); [reflexivity|].
    unfold lkey. cbn [fst snd]. rewrite hookall_kind. reflexivity.
  - rewrite Forall_map. eapply Forall_impl; [|exact A2]. intros [n x] H. cbn [fst snd] in *. destruct (is_logs n); [exact H|apply hookall_sorted; exact H].
  - rewrite Forall_map. eapply Forall_impl; [|exact B]. intros [n x] H. cbn [fst snd] in *. destruct (is_logs n); [exact H|apply hookall_lwf; exact H].
  - rewrite Forall_map. eapply Forall_impl; [|exact C]. intros [n x] H. cbn [fst snd] in *. destruct (is_logs n); [exact H|apply hookall_lplain; exact H].
Qed.

(* every command of a scripted run keeps the invariant, provided the parser returns sorted trees *)
Definition parser_sorted : Prop := forall data tree, parse data = inr tree -> vsorted_kids tree.

Theorem inv_exec st c : parser_sorted -> inv st -> inv (fst (exec st c)).
Proof.
  intros Hp Hi. destruct c as [r|data| |].
  - cbn [exec]. pose proof (inv_reg st r Hi) as H. destruct (do_reg st r) as [k e]. exact H.
  - cbn [exec]. destruct (parse data) as [e|tree] eqn:E; [exact Hi|].
    pose proof (inv_load st tree Hi (Hp data tree E)) as H.
    rewrite (surjective_pairing (merge [] (LObj true true false st) (VObj tree))). rewrite merge_obj_fst in *. exact H.
  - exact Hi.
  - apply inv_hookall. exact Hi.
Qed.

