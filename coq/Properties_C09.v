(* C09: the server channel carries only well-formed, correctly addressed messages.  ONLY statements closed by `exact`, each
   followed by Print Assumptions.  Operator assumptions: service names, rule names and classes are words (WfTabs / wfrule);
   protocol assumption: an input line holds no CR other than the one directly before its LF (nolfcr (strip_cr raw)). *)
From Coq Require Import List NArith ZArith Bool Strings.Byte Strings.String.
Import ListNotations.
Require Import Params AddrFull Iauth Line Junk Wf.
Require AddrV4 AddrRef AddrCompose.
Local Open Scope list_scope.

(* from start-up on, across reloads: every line ever written renders without LF, CR or NUL; the address of a client message and
   the service name of a query are non-empty, space-free and do not start with ':' *)
Theorem every_output_line_is_wellformed : forall c services rs t es,
  Forall (fun e => word (fst e)) services -> Forall wfrule rs -> Forall wf_rev es ->
  Forall (fun x => Forall wf_out (fst x)) (run_revs c (init c services rs t) es).
Proof. exact daemon_outputs_wellformed. Qed.
Print Assumptions every_output_line_is_wellformed.

(* every client-directed message carries the id, address text and port stored for that client at its announcement *)
Theorem client_messages_correctly_addressed : forall c s id argv k i a p rest,
  In (OC k i a p rest) (snd (step c s id argv)) ->
  exists r, lookup i (reqs s) = Some r /\ i = cid r /\ a = addr r /\ p = port r.
Proof. exact client_msgs_addressed. Qed.
Print Assumptions client_messages_correctly_addressed.

(* whatever text the server announces, the parser yields eight groups below 65536 (the index never leaves the array) ... *)
Theorem parser_result_is_an_address : forall input usebits trailing n b gs,
  pton input usebits trailing = Res n b gs -> AddrWf.Wf8 gs.
Proof. exact AddrWf.pton_groups_wf. Qed.
Print Assumptions parser_result_is_an_address.

(* ... and the stored address text is a word; together with C12's round trip it denotes the announced address *)
Theorem stored_address_text_is_a_word : forall a, word (snd (announce_addr a)) /\ AddrWf.Wf8 (fst (announce_addr a)).
Proof. exact announce_word. Qed.
Print Assumptions stored_address_text_is_a_word.

(* "an address text that denotes exactly the address the server announced": the text stored at the announcement and echoed in
   every message about the client is read back, by the daemon's parser and by the reference parser, as the address the daemon
   read from the announcement (IPv4-compatible canonicalised to IPv4-mapped) *)
Theorem echoed_text_denotes_announced_address : forall a,
  let '(g, txt) := announce_addr a in
  pton txt false false = Res (List.length txt) None (AddrV4.canon g) /\ AddrRef.ref_pton txt = Some (AddrV4.canon g).
Proof. exact AddrCompose.echoed_text_denotes_announced. Qed.
Print Assumptions echoed_text_denotes_announced_address.
