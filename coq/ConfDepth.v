(* The nesting limit of the parser (src/config.c: CONF_MAX_DEPTH = 64, PARSE_TOO_DEEP) on the parser model (Conf.v):
   - a text that opens more than [max_depth] objects inside one another is refused with [EDeep], at the "{" that
     would open object number max_depth + 1 and whatever follows it ([deep_nesting_is_rejected]);
   - exactly [max_depth] nested objects are accepted ([nesting_up_to_the_limit_is_accepted]);
   - every tree that a successful read returns is at most [max_depth] objects deep
     ([parse_never_recurses_deeper_than_the_limit]): this bounds the recursion of everything that walks the tree
     afterwards (merge into the live tree, clean-up). *)
From Coq Require Import List NArith Bool Strings.Byte Lia Arith.
Import ListNotations.
Require Import Conf ConfRT ConfTotal ConfPrint.

(* ------------------------------------------------------------------------------------------------ *)
(* the texts                                                                                         *)
(* ------------------------------------------------------------------------------------------------ *)
Definition LA := x61.    (* the name of every object below: a *)

(* k times "a{" *)
Fixpoint nestl (k : nat) : str := match k with O => [] | S k' => LA :: LB :: nestl k' end.
(* inner with k objects around it: a{a{ ... inner ... }} *)
Fixpoint nest (k : nat) (inner : str) : str := match k with O => inner | S k' => LA :: LB :: nest k' inner ++ [RB] end.
(* the tree of [nest k inner] when inner reads as t *)
Fixpoint vnest (k : nat) (t : kidsT) : kidsT := match k with O => t | S k' => [([LA], VObj (vnest k' t))] end.

Lemma nest_nestl k inner : nest k inner = nestl k ++ inner ++ repeat RB k.
Proof.
  induction k as [|k IH]; cbn [nest nestl repeat app]; [rewrite app_nil_r; reflexivity|].
  rewrite IH, <- !app_assoc. do 4 f_equal. clear IH.
  induction k as [|k IH]; [reflexivity|]. cbn [repeat app]. rewrite IH. reflexivity.
Qed.

Lemma nestl_length k : length (nestl k) = 2 * k.
Proof. induction k as [|k IH]; cbn [nestl length]; lia. Qed.

Lemma cut_nul_nestl k rest : cut_nul (nestl k ++ rest) = nestl k ++ cut_nul rest.
Proof.
  induction k as [|k IH]; cbn [nestl app cut_nul]; [reflexivity|].
  change (beq LA x00) with false. change (beq LB x00) with false. cbv iota. rewrite IH. reflexivity.
Qed.

(* ------------------------------------------------------------------------------------------------ *)
(* 1. too deep: refused at the opening brace, whatever follows                                       *)
(* ------------------------------------------------------------------------------------------------ *)
Lemma pstring_la f r : pstring (S f) (LA :: LB :: r) = Some (inr ([LA], LB :: r)).
Proof. reflexivity. Qed.
Lemma ws_lb f care r : ws (S f) care (LB :: r) = (Some LB, r).
Proof. reflexivity. Qed.
Lemma ws_la f care r : ws (S f) care (LA :: r) = (Some LA, r).
Proof. reflexivity. Qed.

(* an entry read with [d] objects open, in front of [k] more opening braces with d + k over the limit *)
Lemma entry_nestl : forall k d fuel rest kids,
  0 < k -> max_depth < d + k -> k <= fuel -> entry fuel d (nestl k ++ rest) kids = inl EDeep.
Proof.
  induction k as [|k IH]; intros d fuel rest kids Hk Hd Hf; [lia|].
  destruct fuel as [|f]; [lia|]. rewrite entry_S. unfold entry_step. cbn [nestl app].
  rewrite pstring_la. cbv beta iota. rewrite ws_lb. tokc.
  destruct (Nat.leb max_depth d) eqn:E; [reflexivity|]. apply Nat.leb_gt in E.
  destruct k as [|k]; [lia|]. destruct f as [|f]; [lia|].
  rewrite body_of_S. cbn [nestl app]. rewrite ws_la. tokc.
  change (LA :: LB :: nestl k ++ rest) with (nestl (S k) ++ rest).
  rewrite IH by lia. reflexivity.
Qed.

Theorem deep_nesting_is_rejected k rest : max_depth < k -> parse (nestl k ++ rest) = inl EDeep.
Proof.
  intros Hk. destruct k as [|k]; [lia|].
  unfold parse. cbn [nestl app]. cbv zeta.
  change (LA :: LB :: nestl k ++ rest) with (nestl (S k) ++ rest). rewrite cut_nul_nestl.
  pose proof (nestl_length (S k)) as Hl.
  remember (2 * length (nestl (S k) ++ cut_nul rest) + 4) as fuel eqn:Ef.
  rewrite app_length, Hl in Ef.
  destruct fuel as [|f]; [lia|]. rewrite entries_S. cbn [nestl app].
  change (LA :: LB :: nestl k ++ cut_nul rest) with (nestl (S k) ++ cut_nul rest).
  rewrite entry_nestl by lia. reflexivity.
Qed.

(* the same for complete texts: more than the limit of objects around anything, followed by anything *)
Corollary deep_nest_is_rejected k inner rest : max_depth < k -> parse (nest k inner ++ rest) = inl EDeep.
Proof. intros Hk. rewrite nest_nestl, <- app_assoc. apply deep_nesting_is_rejected. exact Hk. Qed.

From Coq Require Import Strings.String.
Local Open Scope string_scope.
Local Open Scope list_scope.

(* 65 objects, run *)
Example nest_65_is_rejected : parse (nest 65 (S_ "x y;") ++ [SEMI]) = inl EDeep.
Proof. vm_compute. reflexivity. Qed.

(* ------------------------------------------------------------------------------------------------ *)
(* 2. the limit itself is accepted                                                                   *)
(* ------------------------------------------------------------------------------------------------ *)
Example nesting_up_to_the_limit_is_accepted :
  parse (nest 64 (S_ "x y;") ++ [SEMI]) = inr (vnest 64 [(S_ "x", VStr (S_ "y"))]).
Proof. vm_compute. reflexivity. Qed.

(* ------------------------------------------------------------------------------------------------ *)
(* 3. a tree that was read is at most max_depth objects deep                                         *)
(* ------------------------------------------------------------------------------------------------ *)
(* how deep the objects of a result tree are nested *)
Fixpoint valdepth (v : val) : nat :=
  match v with
  | VObj ks => S ((fix go (l : list (str * val)) : nat :=
                     match l with [] => O | (_, v') :: r => Nat.max (valdepth v') (go r) end) ks)
  | _ => O
  end.
Fixpoint pdepth (ks : kidsT) : nat := match ks with [] => O | (_, v) :: r => Nat.max (valdepth v) (pdepth r) end.

Lemma valdepth_obj ks : valdepth (VObj ks) = S (pdepth ks).
Proof. reflexivity. Qed.

Lemma vnest_depth k t : pdepth (vnest k t) = k + pdepth t.
Proof.
  induction k as [|k IH]; [reflexivity|]. cbn [vnest pdepth]. rewrite valdepth_obj, IH. lia.
Qed.

Lemma upsert_depth d n k f : (forall o, d + valdepth (f o) <= max_depth) ->
  forall kids, d + pdepth kids <= max_depth -> d + pdepth (upsert n k f kids) <= max_depth.
Proof.
  intros Hf. induction kids as [|[m v] r IH]; intros H; cbn [upsert].
  - cbn [pdepth]. specialize (Hf None). lia.
  - destruct (kcmp n k m (kind v)); cbn [pdepth] in *.
    + specialize (Hf (Some v)). lia.
    + specialize (Hf None). lia.
    + assert (d + pdepth r <= max_depth) as Hr by lia. specialize (IH Hr). lia.
Qed.

Lemma lookup_depth n k : forall kids v, lookup n k kids = Some v -> valdepth v <= pdepth kids.
Proof.
  induction kids as [|[m x] r IH]; intros v H; cbn [lookup] in H; [discriminate|]. cbn [pdepth].
  destruct (kcmp n k m (kind x)).
  - inversion H; subst. lia.
  - apply IH in H. lia.
  - apply IH in H. lia.
Qed.

(* the object that an entry continues is one level below the list it is found in *)
Lemma old_of_depth n kids : pdepth (old_of n kids) <= pdepth kids - 1.
Proof.
  unfold old_of. destruct (lookup n 3 kids) as [v|] eqn:E; [|cbn [pdepth]; lia].
  destruct v; try (cbn [pdepth]; lia). apply lookup_depth in E. rewrite valdepth_obj in E. lia.
Qed.

Definition Edepth (d : nat) (E : str -> kidsT -> res (kidsT * str)) : Prop :=
  forall s ks ks' r, d + pdepth ks <= max_depth -> E s ks = inr (ks', r) -> d + pdepth ks' <= max_depth.

Lemma body_of_depth d E fuel : Edepth d E ->
  forall fu r ks ks' r', d + pdepth ks <= max_depth -> body_of E fuel fu r ks = inr (ks', r') -> d + pdepth ks' <= max_depth.
Proof.
  intros HE. induction fu as [|fu IH]; intros r ks ks' r' Hs H; [discriminate|].
  rewrite body_of_S in H. repeat dmatch H; try discriminate.
  - inversion H; subst. exact Hs.
  - eapply IH; [|exact H]. eapply HE; eassumption.
Qed.

(* with d objects open, the child list being filled never gets deeper than what is left below the limit *)
Theorem entry_depth fuel : forall d s kids k' r,
  d + pdepth kids <= max_depth -> entry fuel d s kids = inr (k', r) -> d + pdepth k' <= max_depth.
Proof.
  induction fuel as [|f IH]; intros d s kids k' r Hs H; [discriminate|].
  rewrite entry_S in H. unfold entry_step in H.
  assert (HE : Edepth (S d) (entry f (S d))) by (intros s0 ks ks' r0 Hks H0; eapply IH; eassumption).
  repeat dmatch H; try discriminate;
    try (inversion H; subst; exact Hs);
    apply tail_of_inv in H; destruct H as [-> _];
    apply upsert_depth; trivial; intros _; try (cbn [valdepth]; lia).
  rewrite valdepth_obj.
  match goal with X : Nat.leb max_depth d = false |- _ => apply Nat.leb_gt in X end.
  match goal with X : body_of _ _ _ _ (old_of ?n _) = inr _ |- _ =>
    pose proof (old_of_depth n kids); apply (body_of_depth _ _ _ HE) in X; lia end.
Qed.

Theorem entries_depth fuel : forall s kids k', pdepth kids <= max_depth -> entries fuel s kids = inr k' -> pdepth k' <= max_depth.
Proof.
  induction fuel as [|f IH]; intros s kids k' Hs H; [discriminate|].
  rewrite entries_S in H. destruct s as [|c s]; [inversion H; subst; exact Hs|].
  destruct (entry (S f) 0 (c :: s) kids) as [e|[k1 r]] eqn:E; [discriminate|].
  eapply IH; [|exact H]. apply (entry_depth _ 0 _ _ _ _ Hs) in E. exact E.
Qed.

Theorem parse_never_recurses_deeper_than_the_limit data t : parse data = inr t -> pdepth t <= max_depth.
Proof.
  unfold parse. destruct data as [|c d]; [discriminate|]. cbv zeta. apply entries_depth. cbn [pdepth]. lia.
Qed.

(* the bound is reached *)
Example the_limit_is_reached :
  exists t, parse (nest 64 (S_ "x y;") ++ [SEMI]) = inr t /\ pdepth t = max_depth.
Proof.
  eexists. split; [exact nesting_up_to_the_limit_is_accepted|]. rewrite vnest_depth. reflexivity.
Qed.
