(* C15, values: after a load every key of the file carries the file's value, every other child is gone or back
   at its registered default. *)
From Coq Require Import List NArith ZArith Bool Strings.Byte Lia.
Import ListNotations.
Require Import Conf ConfMerge ConfOrder ConfBase ConfIdem ConfSorted ConfWalk ConfHooks.
Local Open Scope N_scope.

(* the stored parsed value is the one of the text (when the text parses at all) *)
Definition pcons (sub : N) (v : option str) (p : pv) : Prop :=
  match v with
  | None => pnorm sub p = if sub =? 0 then PNone else PInt 0
  | Some x => if sub =? 0 then p = PStr x else forall z, typed sub x = (z, true) -> pnorm sub p = PInt z
  end.

Lemma pv2_pcons f v sub p ho : pcons sub v (t2 (pv2 f v sub p ho)).
Proof.
  unfold pcons, pv2, pnorm. destruct v as [x|].
  - destruct (sub =? 0) eqn:Es; [reflexivity|]. intros z Hz. rewrite Hz.
    destruct p as [|q|c]; cbn [andb negb].
    + destruct (z =? 0)%Z eqn:Ez; cbn [negb t2 fst snd]; [apply Z.eqb_eq in Ez; subst; reflexivity|reflexivity].
    + reflexivity.
    + destruct (c =? z)%Z eqn:Ez; cbn [negb t2 fst snd]; [apply Z.eqb_eq in Ez; subst; reflexivity|reflexivity].
  - cbn [t2 fst snd]. destruct (sub =? 0); reflexivity.
Qed.

(* ---------- "as registration alone would have left it" ---------- *)
Fixpoint dflt_state (l : lnode) : Prop :=
  match l with
  | LStr spec pres _ d v sub p => spec = true /\ pres = false /\ v = d /\ pcons sub d p
  | LIna spec pres _ dh ds h s => spec = true /\ pres = false /\ h = dh /\ s = ds
  | LList spec pres _ d v => spec = true /\ pres = false /\ v = d
  | LObj spec pres _ ks => spec = true /\ pres = false /\
      (fix all (l : list (str * lnode)) : Prop := match l with [] => True | nc :: r => dflt_state (snd nc) /\ all r end) ks
  end.
Lemma dflt_state_obj spec pres hook ks :
  dflt_state (LObj spec pres hook ks) <-> spec = true /\ pres = false /\ Forall (fun nc => dflt_state (snd nc)) ks.
Proof.
  cbn [dflt_state]. do 2 apply and_iff_compat_l.
  induction ks as [|nc r IH]; [split; constructor|]. rewrite IH. split.
  - intros [A B]. constructor; assumption.
  - intros H. inversion H; subst. split; assumption.
Qed.

(* invariant of all reachable trees: an object that the last file did not mention has only default-state children *)
Fixpoint lwf (l : lnode) : Prop :=
  match l with
  | LObj _ pres _ ks =>
      (fix all (l : list (str * lnode)) : Prop :=
         match l with [] => True | nc :: r => (lwf (snd nc) /\ (pres = false -> dflt_state (snd nc))) /\ all r end) ks
  | _ => True
  end.
Lemma lwf_obj spec pres hook ks :
  lwf (LObj spec pres hook ks) <-> Forall (fun nc => lwf (snd nc) /\ (pres = false -> dflt_state (snd nc))) ks.
Proof.
  cbn [lwf]. induction ks as [|nc r IH]; [split; constructor|]. rewrite IH. split.
  - intros [A B]. constructor; assumption.
  - intros H. inversion H; subst. split; assumption.
Qed.
Global Opaque dflt_state lwf.
Lemma dflt_state_str spec pres hook d v sub p : dflt_state (LStr spec pres hook d v sub p) <-> spec = true /\ pres = false /\ v = d /\ pcons sub d p.
Proof. reflexivity. Qed.
Lemma dflt_state_ina spec pres hook dh ds h s : dflt_state (LIna spec pres hook dh ds h s) <-> spec = true /\ pres = false /\ h = dh /\ s = ds.
Proof. reflexivity. Qed.
Lemma dflt_state_list spec pres hook d v : dflt_state (LList spec pres hook d v) <-> spec = true /\ pres = false /\ v = d.
Proof. reflexivity. Qed.
Lemma lwf_leaf l : lkind l <> 3 -> lwf l.
Proof. destruct l; cbn [lkind]; intros H; try exact I. congruence. Qed.

Lemma dflt_lwf : forall l, dflt_state l -> lwf l.
Proof.
  apply (lnode_ind' (fun l => dflt_state l -> lwf l)); try (intros; exact I).
  intros spec pres hook ks IH H. apply dflt_state_obj in H as (_ & _ & H). apply lwf_obj.
  rewrite Forall_forall in *. intros nc Hin. split; [apply IH; auto|intros _; auto].
Qed.

Lemma rvt_kids_Forall (Q : lnode -> Prop) ks :
  Forall (fun nc => lspec (snd nc) = true -> Q (rvt (snd nc))) ks -> Forall (fun nc => Q (snd nc)) (rvt_kids ks).
Proof.
  induction 1 as [|[n x] r H1 H2 IH]; cbn [rvt_kids]; [constructor|]. cbn [snd] in H1.
  destruct (lspec x); [constructor; [apply H1; reflexivity|exact IH]|exact IH].
Qed.

Lemma rvt_dflt : forall l, lwf l -> lspec l = true -> dflt_state (rvt l).
Proof.
  apply (lnode_ind' (fun l => lwf l -> lspec l = true -> dflt_state (rvt l))).
  - intros spec pres hook d v sub p _ Hs. cbn [lspec] in Hs. subst. cbn [rvt]. apply dflt_state_str. repeat split. apply pv2_pcons.
  - intros spec pres hook dh ds h s _ Hs. cbn [lspec] in Hs. subst. cbn [rvt]. apply dflt_state_ina. repeat split.
  - intros spec pres hook d v _ Hs. cbn [lspec] in Hs. subst. cbn [rvt]. apply dflt_state_list. repeat split.
  - intros spec pres hook ks IH Hw Hs. cbn [lspec] in Hs. subst. rewrite rvt_obj. apply dflt_state_obj. repeat split.
    apply lwf_obj in Hw. destruct pres.
    + apply rvt_kids_Forall. rewrite Forall_forall in *. intros nc Hin Hsp. apply IH; [exact Hin|apply Hw; exact Hin|exact Hsp].
    + rewrite Forall_forall in *. intros nc Hin. apply Hw; [exact Hin|reflexivity].
Qed.

Lemma revert_dflt l p y e : lwf l -> revert p l = (Some y, e) -> dflt_state y.
Proof.
  intros Hw H. pose proof (revert_fst l p) as F. rewrite H in F. cbn [fst] in F.
  destruct (lspec l) eqn:Es; cbn [keep] in F; [|discriminate]. inversion F; subst. apply rvt_dflt; assumption.
Qed.

(* ---------- a generic Forall over the children produced by the walk ---------- *)
Lemma mk_kids_Forall (Q : lnode -> Prop) mrg path ss : forall ts,
  (forall m c p y e, In (m, c) ts -> revert p c = (Some y, e) -> Q y) ->
  (forall m c ks s' p, In (m, c) ts -> In (ks, s') ss -> lkind c = kind s' -> Q (fst (mrg p c s'))) ->
  (forall ks s', In (ks, s') ss -> Q (splice s')) ->
  Forall (fun nc => Q (snd nc)) (t1 (mk_gen mrg path ts ss)).
Proof.
  induction ss as [|[ks s'] ss' IH]; intros ts Hrev Hmrg Hsp.
  - rewrite mk_gen_nil. apply revert_all_Forall. apply Forall_forall. intros [m c] Hin p y e Hr. eapply Hrev; eauto.
  - destruct (span_lt ks (kind s') ts) as [lo hi] eqn:Es.
    destruct (span_lt_spec _ _ _ _ _ Es) as (Ets & _ & _).
    assert (Forall (fun nc => Q (snd nc)) (t1 (revert_all path lo))) as Hlo'.
    { apply revert_all_Forall. apply Forall_forall. intros [m c] Hin p y e Hr. eapply Hrev; [|exact Hr]. rewrite Ets. apply in_or_app. left. exact Hin. }
    destruct (hi_cases ks (kind s') hi) as [(kt & t' & hi' & -> & Ek)|Hne].
    + rewrite (mk_gen_cons_eq _ _ _ _ _ _ _ _ _ _ Es Ek). cbn [t1 fst]. apply Forall_app. split; [exact Hlo'|].
      constructor.
      * cbn [snd]. eapply Hmrg; [rewrite Ets; apply in_or_app; right; left; reflexivity|left; reflexivity|]. apply kcmp_eq in Ek. tauto.
      * apply IH.
        -- intros m c p y e Hin. apply (Hrev m c p y e). rewrite Ets. apply in_or_app. right. right. exact Hin.
        -- intros m c k0 s0 p Hin Hin'. apply (Hmrg m c k0 s0 p); [rewrite Ets; apply in_or_app; right; right; exact Hin|right; exact Hin'].
        -- intros k0 s0 Hin. eapply Hsp. right. exact Hin.
    + rewrite (mk_gen_cons_ne _ _ _ _ _ _ _ _ Es Hne). cbn [t1 fst]. apply Forall_app. split; [exact Hlo'|].
      constructor.
      * cbn [snd]. eapply Hsp. left. reflexivity.
      * apply IH.
        -- intros m c p y e Hin. apply (Hrev m c p y e). rewrite Ets. apply in_or_app. right. exact Hin.
        -- intros m c k0 s0 p Hin Hin'. apply (Hmrg m c k0 s0 p); [rewrite Ets; apply in_or_app; right; exact Hin|right; exact Hin'].
        -- intros k0 s0 Hin. eapply Hsp. right. exact Hin.
Qed.

(* ---------- the invariant is preserved ---------- *)
Lemma splice_lwf : forall s, lwf (splice s).
Proof.
  apply (val_ind' (fun s => lwf (splice s))); try (intros; exact I).
  intros ks IH. cbn [splice]. apply lwf_obj. rewrite Forall_map. rewrite Forall_forall in *. intros nv Hin. cbn [snd].
  split; [apply IH; exact Hin|discriminate].
Qed.

Theorem merge_lwf : forall s path t, lwf t -> lwf (fst (merge path t s)).
Proof.
  apply (val_ind' (fun s => forall path t, lwf t -> lwf (fst (merge path t s)))).
  - intros v path t _. apply lwf_leaf. rewrite merge_kind. discriminate.
  - intros h s path t _. apply lwf_leaf. rewrite merge_kind. discriminate.
  - intros l path t _. apply lwf_leaf. rewrite merge_kind. discriminate.
  - intros ss IH path t Hw. destruct t as [| | |spec pres hook ks]; try apply splice_lwf.
    rewrite merge_obj_fst. apply lwf_obj. apply lwf_obj in Hw.
    apply (mk_kids_Forall (fun c => lwf c /\ (true = false -> dflt_state c))).
    + intros m c p y e Hin Hr. split; [|discriminate]. apply dflt_lwf. eapply revert_dflt; [|exact Hr].
      rewrite Forall_forall in Hw. apply (Hw (m, c) Hin).
    + intros m c k0 s' p Hin Hin' _. split; [|discriminate]. rewrite Forall_forall in IH, Hw. apply (IH (k0, s') Hin'). apply (Hw (m, c) Hin).
    + intros k0 s' _. split; [apply splice_lwf|discriminate].
Qed.

Theorem do_reg_lwf kids r spec hook : lwf (LObj spec true hook kids) -> lwf (LObj spec true hook (fst (do_reg kids r))).
Proof.
  intros Hw. apply lwf_obj in Hw. apply lwf_obj.
  assert (forall n k f, (forall o, match o with Some v => lwf v | None => True end -> lwf (f o)) ->
                        Forall (fun nc => lwf (snd nc) /\ (true = false -> dflt_state (snd nc))) (upsertl n k f kids)) as U.
  { intros n k f Hf. apply (upsertl_Forall (fun c => lwf c /\ (true = false -> dflt_state c))); [|exact Hw].
    intros [v|] Ho; (split; [|discriminate]); apply Hf; [apply Ho|exact I]. }
  destruct r as [n|n sub d|n d|n h s]; cbn [do_reg].
  - cbn [fst]. apply U. intros [[]|] Ho; try (apply lwf_obj; constructor).
    apply lwf_obj in Ho. apply lwf_obj. exact Ho.
  - destruct (match lookupl n 0 kids with Some (LStr _ p h _ v s pa) => (p, h, v, s, pa) | _ => (false, false, None, 0, PNone) end) as [[[[pres hk0] value] osub] parsed].
    destruct (parse_value _ _ _ _ _ _ _) as [[v' p'] e]. cbn [fst]. apply U. intros; exact I.
  - cbn [fst]. apply U. intros [[]|] Ho; exact I.
  - cbn [fst]. apply U. intros [[]|] Ho; exact I.
Qed.

(* ---------- what "carries the value of the file" means ---------- *)
Fixpoint agrees (s : val) (t : lnode) {struct s} : Prop :=
  match s, t with
  | VStr v, LStr _ pres _ _ value sub parsed => pres = true /\ value = Some v /\ pcons sub (Some v) parsed
  | VIna h sv, LIna _ pres _ dh ds h' s' => pres = true /\ h' = orelse h dh /\ s' = orelse sv ds
  | VList l, LList _ pres _ _ v => pres = true /\ v = l
  | VObj ss, LObj _ pres _ ks => pres = true /\
      (fix all (l : list (str * val)) : Prop :=
         match l with [] => True | ns :: r => (exists c, lookupl (fst ns) (kind (snd ns)) ks = Some c /\ agrees (snd ns) c) /\ all r end) ss /\
      (forall n k, lookup n k ss = None -> match lookupl n k ks with None => True | Some c => dflt_state c end)
  | _, _ => False
  end.
Lemma agrees_obj ss spec pres hook ks :
  agrees (VObj ss) (LObj spec pres hook ks) <->
  pres = true /\
  Forall (fun ns => exists c, lookupl (fst ns) (kind (snd ns)) ks = Some c /\ agrees (snd ns) c) ss /\
  (forall n k, lookup n k ss = None -> match lookupl n k ks with None => True | Some c => dflt_state c end).
Proof.
  cbn [agrees]. apply and_iff_compat_l. apply and_iff_compat_r.
  induction ss as [|ns r IH]; [split; constructor|]. rewrite IH. split.
  - intros [A B]. constructor; assumption.
  - intros H. inversion H; subst. split; assumption.
Qed.

Lemma splice_as_merge s : exists t, lsorted t /\ lwf t /\ forall p, fst (merge p t s) = splice s.
Proof.
  destruct s.
  - exists (LList false false false [] []). repeat split; try exact I.
  - exists (LList false false false [] []). repeat split; try exact I.
  - exists (LStr false false false None None 0 PNone). repeat split; try exact I.
  - exists (LList false false false [] []). repeat split; try exact I.
Qed.

Theorem load_values_gen : forall s path t, lsorted t -> vsorted s -> lwf t -> agrees s (fst (merge path t s)).
Proof.
  apply (val_ind' (fun s => forall path t, lsorted t -> vsorted s -> lwf t -> agrees s (fst (merge path t s)))).
  - intros v path t _ _ _. destruct t as [spec pres hook d v0 sub p| | |].
    + rewrite merge_str_str. cbn [fst agrees]. repeat split. apply pv2_pcons.
    + cbn. repeat split.
    + cbn. repeat split.
    + cbn. repeat split.
  - intros h s path t _ _ _. destruct t; cbn; repeat split; destruct h, s; reflexivity.
  - intros l path t _ _ _. destruct t; cbn; repeat split.
  - intros ss IH path t Ht Hs Hw.
    assert (forall ks0, vsorted_kids ss -> lsorted_kids ks0 -> Forall (fun nc => lwf (snd nc)) ks0 -> forall spec hook,
              agrees (VObj ss) (LObj spec true hook (t1 (mk_gen merge path ks0 ss)))) as Main.
    { intros ks [Hs1 Hs2] [Ht1 Ht2] Hw' spec hook. apply agrees_obj.
      destruct (mk_char merge path merge_kind ss ks Ht1 Hs1) as (C1 & _ & _).
      split; [reflexivity|]. split.
      - apply Forall_forall. intros [n s'] Hin. cbn [fst snd].
        rewrite lookupl_e, C1. unfold new_entry. rewrite (lookupv_In ss Hs1 n s' Hin).
        rewrite Forall_forall in IH, Hs2, Ht2, Hw'.
        destruct (lookupe n (kind s') ks) as [[m c]|] eqn:El; cbn [option_map snd].
        + apply lookupe_key in El as [_ El]. eexists; split; [reflexivity|].
          apply (IH (n, s') Hin); [apply (Ht2 (m, c) El)|apply (Hs2 (n, s') Hin)|apply (Hw' (m, c) El)].
        + eexists; split; [reflexivity|]. destruct (splice_as_merge s') as (t0 & A & B & C). rewrite <- (C path).
          apply (IH (n, s') Hin); [exact A|apply (Hs2 (n, s') Hin)|exact B].
      - intros n k Hn. rewrite lookup_v in Hn. rewrite lookupl_e, C1. unfold new_entry.
        destruct (lookupv n k ss) as [[ks0 s']|]; [discriminate|].
        destruct (lookupe n k ks) as [[m c]|] eqn:El; [|exact I].
        apply lookupe_key in El as [_ El]. unfold rev_entry. cbn [fst snd].
        destruct (revert (pjoin path m) c) as [[y|] e] eqn:Er; cbn [fst option_map snd]; [|exact I].
        eapply revert_dflt; [|exact Er]. rewrite Forall_forall in Hw'. apply (Hw' (m, c) El). }
    pose proof Hs as Hs0. apply vsorted_obj in Hs.
    assert (agrees (VObj ss) (splice (VObj ss))) as Hspl.
    { pose proof (splice_sorted (VObj ss) Hs0) as A. pose proof (splice_lwf (VObj ss)) as B. cbn [splice] in *.
      apply lsorted_obj in A. apply lwf_obj in B.
      rewrite <- (f_equal t1 (mk_splice merge path ss ltac:(apply Forall_forall; intros kf _ p; apply splice_fix))) at 1.
      apply Main; [exact Hs|exact A|]. eapply Forall_impl; [|exact B]. intros a [Ha _]. exact Ha. }
    destruct t as [| | |spec pres hook ks]; try exact Hspl.
    rewrite merge_obj_fst. apply lsorted_obj in Ht. apply lwf_obj in Hw.
    apply Main; [exact Hs|exact Ht|]. eapply Forall_impl; [|exact Hw]. intros a [Ha _]. exact Ha.
Qed.

(* The statement asked for: t an object, s = VObj ss. *)
Theorem load_values path spec pres hook ks ss :
  lsorted (LObj spec pres hook ks) -> vsorted (VObj ss) -> lwf (LObj spec pres hook ks) ->
  exists ks' e, merge path (LObj spec pres hook ks) (VObj ss) = (LObj spec true hook ks', e) /\
    (* every key of the file carries the file's value *)
    (forall n s', In (n, s') ss -> exists c, lookupl n (kind s') ks' = Some c /\ agrees s' c) /\
    (* every other child is gone (it was not specified) or back in its default state *)
    (forall n k, lookup n k ss = None ->
       match lookupl n k ks' with
       | None => match lookupl n k ks with Some c => lspec c = false | None => True end
       | Some c' => dflt_state c' /\ exists c, lookupl n k ks = Some c /\ lspec c = true
       end).
Proof.
  intros Ht Hs Hw.
  pose proof (load_values_gen (VObj ss) path _ Ht Hs Hw) as H.
  exists (t1 (mk_gen merge path ks ss)), (snd (merge path (LObj spec pres hook ks) (VObj ss))).
  split; [rewrite (surjective_pairing (merge _ _ _)) at 1; rewrite merge_obj_fst; reflexivity|].
  rewrite merge_obj_fst in H. apply agrees_obj in H as (_ & H1 & H2). split.
  - intros n s' Hin. rewrite Forall_forall in H1. apply (H1 (n, s') Hin).
  - intros n k Hn. specialize (H2 n k Hn).
    apply lsorted_obj in Ht. apply vsorted_obj in Hs. destruct Ht as [Ht1 _], Hs as [Hs1 _].
    destruct (mk_char merge path merge_kind ss ks Ht1 Hs1) as (C1 & _ & _).
    rewrite lookupl_e, C1 in *. unfold new_entry in *. rewrite lookup_v in Hn.
    destruct (lookupv n k ss) as [[k0 s']|]; [discriminate|].
    rewrite (lookupl_e n k ks).
    destruct (lookupe n k ks) as [[m c]|] eqn:El; cbn [option_map snd]; [|exact I].
    unfold rev_entry in *. cbn [fst snd] in *. rewrite revert_fst in *.
    destruct (lspec c) eqn:Esp; cbn [keep option_map snd] in *.
    + split; [exact H2|]. exists c. split; [reflexivity|exact Esp].
    + reflexivity.
Qed.

