Require Import Conf ConfMerge.
Require Extraction. Require Import ExtrOcamlBasic.
Extraction "conf_model.ml" Conf.load_dump ConfMerge.script.
