From Coq Require Import List NArith Lia Bool Strings.Byte Arith.
Import ListNotations.
Require Import Addr AddrRT.
Local Open Scope N_scope.

Definition setpart (s : pst) (p : N) : pst := {| part := p; ii := ii s; cpos := cpos s; acc := acc s |}.
Definition push (s : pst) : pst := {| part := 0; ii := S (ii s); cpos := cpos s; acc := acc s ++ [part s] |}.

Lemma hexval_colon : hexval colon = None. Proof. reflexivity. Qed.
Lemma is_colon : is colon colon = true. Proof. reflexivity. Qed.

Lemma loop_digits ds : forall s p' f rest,
  eat (part s) ds = Some p' -> (ii s < 8)%nat ->
  loop (length ds + f) s (ds ++ rest) = loop f (setpart s p') rest.
Proof.
  induction ds as [|c ds IH]; intros s p' f rest He Hi; simpl in He.
  - inversion He; subst. simpl. destruct s; reflexivity.
  - destruct (hexval c) as [v|] eqn:Hv; [|discriminate].
    destruct (0xffff <? N.lor (N.shiftl (part s) 4) v) eqn:Ho; [discriminate|].
    cbn [length Nat.add app loop].
    assert (Nat.leb 8 (ii s) = false) as -> by (apply Nat.leb_gt; lia).
    rewrite Hv, Ho.
    exact (IH {| part := N.lor (N.shiftl (part s) 4) v; ii := ii s; cpos := cpos s; acc := acc s |} p' f rest He Hi).
Qed.

Definition nocd (rest : str) : Prop := hd_is rest colon = false /\ hd_is rest x2e = false.

(* group ++ ":" ++ rest, rest starting with neither ':' nor '.' *)
Lemma loop_group_sep g : forall s f rest,
  g < 65536 -> part s = 0 -> (ii s < 8)%nat -> nocd rest ->
  loop (length (hexstr g) + S f) s (hexstr g ++ colon :: rest) = loop f (push (setpart s g)) rest.
Proof.
  intros s f rest Hg Hp Hi [Hc Hd].
  destruct (eat_hexstr g Hg) as [He _]. rewrite <- Hp in He.
  rewrite (loop_digits (hexstr g) s g (S f) (colon :: rest) He Hi).
  cbn [loop setpart ii]. assert (Nat.leb 8 (ii s) = false) as -> by (apply Nat.leb_gt; lia).
  rewrite hexval_colon, is_colon, Hd, Hc. reflexivity.
Qed.

(* group ++ "::" ++ rest : records cpos, inserts one zero group *)
Lemma loop_group_dcolon g : forall s f rest,
  g < 65536 -> part s = 0 -> (ii s < 7)%nat -> cpos s = 8%nat -> nocd rest ->
  loop (length (hexstr g) + S (S f)) s (hexstr g ++ colon :: colon :: rest) =
  loop f {| part := 0; ii := S (S (ii s)); cpos := S (ii s); acc := acc s ++ [g; 0] |} rest.
Proof.
  intros s f rest Hg Hp Hi Hcp [Hc Hd].
  destruct (eat_hexstr g Hg) as [He _]. rewrite <- Hp in He.
  rewrite (loop_digits (hexstr g) s g (S (S f)) (colon :: colon :: rest) He ltac:(lia)).
  cbn [loop setpart ii cpos acc part]. assert (Nat.leb 8 (ii s) = false) as -> by (apply Nat.leb_gt; lia).
  rewrite hexval_colon, is_colon. cbn [hd_is]. change (Byte.eqb colon x2e) with false. change (Byte.eqb colon colon) with true.
  cbn iota. rewrite Hcp. cbn [Nat.ltb Nat.leb].
  rewrite Hd, Hc. rewrite <- app_assoc.
  destruct (ii s) as [|[|[|[|[|[|[|n]]]]]]]; try reflexivity; lia.
Qed.

(* last group then end of string *)
Lemma loop_group_end g : forall s f,
  g < 65536 -> part s = 0 -> (ii s < 8)%nat -> (cpos s < 8 \/ ii s = 7)%nat ->
  loop (length (hexstr g) + S f) s (hexstr g) = Done (push (setpart s g)) [].
Proof.
  intros s f Hg Hp Hi Hcp.
  destruct (eat_hexstr g Hg) as [He _]. rewrite <- Hp in He.
  pose proof (loop_digits (hexstr g) s g (S f) [] He Hi) as L. rewrite app_nil_r in L. rewrite L.
  cbn [loop setpart ii cpos]. assert (Nat.leb 8 (ii s) = false) as -> by (apply Nat.leb_gt; lia).
  assert (Nat.eqb (cpos s) 8 && Nat.ltb (S (ii s)) 8 = false) as ->.
  { destruct Hcp as [H|H]. - assert (Nat.eqb (cpos s) 8 = false) as -> by (apply Nat.eqb_neq; lia). reflexivity.
    - rewrite H. apply andb_false_r. }
  reflexivity.
Qed.
