(* "Each configured service is queried about a client exactly when the data its protocol needs is known
   (a well-formed password for login; also hostname result and ident for login-ipr; hostname result, ident,
   nick and user info for dronecheck and combined) or the server says hurry up - not earlier and not skipped."

   Part 1: which slots contribute to a query pass (`query_lines_iff`, `slot_queried_iff`).
   Part 2: what `skip_query = false` means (`skip_query_meaning`, `prereq_ok_meaning`).
   Part 3: where the flags come from (`hurry_up_makes_data_known` and the one-line facts for N d u n U P). *)
From Coq Require Import List NArith ZArith Bool Strings.Byte Strings.String Lia.
Import ListNotations.
Require Import Params Iauth IauthFacts Mon01 Stray.
Local Open Scope list_scope.

(* ====================================================================================================== *)
(* Part 1                                                                                                  *)
(* ====================================================================================================== *)

(* the occupied slots of a slot vector with their slot numbers, in order *)
Fixpoint indexed_from (ss : list (option svc)) (slot : N) : list (N * svc) :=
  match ss with
  | [] => []
  | None :: rest => indexed_from rest (slot + 1)
  | Some s :: rest => (slot, s) :: indexed_from rest (slot + 1)
  end.
Definition indexed (ss : list (option svc)) : list (N * svc) := indexed_from ss 0.

(* the decision taken for one slot, on the request as it was BEFORE the pass *)
Definition asked (is_pw : bool) (r : req) (ks : N * svc) : bool :=
  s_conf (snd ks) && negb (skip_query (s_type (snd ks)) (fst ks) is_pw r).
Definition lines_of_slot (r : req) (ks : N * svc) : list out := query_lines (s_name (snd ks)) (s_type (snd ks)) r.

(* `skip_query` for slot k reads, of the fields `queried` writes, only the `sent` bit k *)
Lemma skip_query_queried t k is_pw r j : j <> k -> skip_query t k is_pw (queried r j) = skip_query t k is_pw r.
Proof.
  intros Hjk. unfold skip_query.
  change (pw (queried r j)) with (pw r). change (prereq_ok t (queried r j)) with (prereq_ok t r).
  change (sent (queried r j)) with (N.setbit (sent r) j). rewrite (N.setbit_neq (sent r) j k Hjk). reflexivity.
Qed.

(* r' is r after some slots below `slot` were queried: the same query lines, the same decisions from `slot` on *)
Definition agrees (slot : N) (r' r : req) : Prop :=
  (forall n t, query_lines n t r' = query_lines n t r) /\
  (forall t k is_pw, (slot <= k)%N -> skip_query t k is_pw r' = skip_query t k is_pw r).

Lemma agrees_refl slot r : agrees slot r r.
Proof. split; intros; reflexivity. Qed.

Lemma agrees_skip slot r' r : agrees slot r' r -> agrees (slot + 1) r' r.
Proof. intros [H1 H2]. split; [exact H1|]. intros t k is_pw Hk. apply H2. lia. Qed.

Lemma agrees_queried slot r' r : agrees slot r' r -> agrees (slot + 1) (queried r' slot) r.
Proof.
  intros [H1 H2]. split.
  - intros n t. rewrite query_lines_queried. apply H1.
  - intros t k is_pw Hk. rewrite skip_query_queried by lia. apply H2. lia.
Qed.

Lemma qspec_agrees ss : forall slot is_pw r' r, agrees slot r' r ->
  qspec ss slot is_pw r' = flat_map (lines_of_slot r) (filter (asked is_pw r) (indexed_from ss slot)).
Proof.
  induction ss as [|o rest IH]; intros slot is_pw r' r Ha; cbn [qspec indexed_from filter flat_map]; [reflexivity|].
  destruct o as [s|]; [|apply IH, agrees_skip, Ha].
  cbn [filter]. unfold asked at 1. cbn [fst snd].
  destruct Ha as [H1 H2]. rewrite (H2 (s_type s) slot is_pw (N.le_refl slot)).
  destruct (s_conf s); cbn [negb orb andb].
  - destruct (skip_query (s_type s) slot is_pw r); cbn [negb].
    + apply IH, agrees_skip. split; assumption.
    + cbn [flat_map]. unfold lines_of_slot at 1. cbn [fst snd]. rewrite H1. f_equal.
      apply IH, agrees_queried. split; assumption.
  - apply IH, agrees_skip. split; assumption.
Qed.

(* the lines of a query pass: for every occupied slot, in slot order, the query lines of its service computed
   from the request as it stands, exactly when the service is configured and `skip_query` is false for it ON THE
   ORIGINAL REQUEST (the `sent` bits set for earlier slots during the pass do not matter) *)
Theorem query_lines_iff ss is_pw r :
  qspec ss 0 is_pw r =
  flat_map (fun ks => query_lines (s_name (snd ks)) (s_type (snd ks)) r)
           (filter (fun ks => s_conf (snd ks) && negb (skip_query (s_type (snd ks)) (fst ks) is_pw r)) (indexed ss)).
Proof. exact (qspec_agrees ss 0%N is_pw r r (agrees_refl 0%N r)). Qed.

(* the same statement about `qpass` itself *)
Corollary qpass_lines ss is_pw r :
  snd (fst (qpass ss 0 is_pw r [] [])) = flat_map (lines_of_slot r) (filter (asked is_pw r) (indexed ss)).
Proof. rewrite qpass_outs. cbn [app]. apply query_lines_iff. Qed.

(* `indexed` lists exactly the occupied slots *)
Lemma indexed_from_nth ss : forall slot k s,
  In (k, s) (indexed_from ss slot) <-> exists n, k = (slot + N.of_nat n)%N /\ nth_error ss n = Some (Some s).
Proof.
  induction ss as [|o rest IH]; intros slot k s; cbn [indexed_from].
  - split; [intros []|]. intros [n [_ H]]. destruct n; discriminate.
  - assert (In (k, s) (indexed_from rest (slot + 1)) <-> exists n, k = (slot + N.of_nat (S n))%N /\ nth_error (o :: rest) (S n) = Some (Some s)) as Tail.
    { rewrite IH. split; intros [n [E H]]; exists n; (split; [lia|exact H]). }
    destruct o as [s0|].
    + cbn [In]. rewrite Tail. split.
      * intros [E|[n H]]; [inversion E; subst; exists O; split; [cbn; lia|reflexivity]|exists (S n); exact H].
      * intros [[|n] [E H]]; [left; cbn [nth_error] in H; inversion H; subst; f_equal; cbn; lia|right; exists n; split; assumption].
    + rewrite Tail. split.
      * intros [n H]. exists (S n); exact H.
      * intros [[|n] [E H]]; [discriminate|exists n; split; assumption].
Qed.

Lemma indexed_nth ss n s : In (N.of_nat n, s) (indexed ss) <-> nth_error ss n = Some (Some s).
Proof.
  unfold indexed. rewrite indexed_from_nth. split.
  - intros [m [E H]]. assert (n = m) by lia. subst m. exact H.
  - intros H. exists n. split; [lia|exact H].
Qed.

(* slot n, occupied by s, contributes its query lines to the pass iff s is configured and `skip_query` is false
   for it on the request the pass started with *)
Theorem slot_queried_iff ss is_pw r n s :
  In (N.of_nat n, s) (filter (asked is_pw r) (indexed ss)) <->
  nth_error ss n = Some (Some s) /\ s_conf s = true /\ skip_query (s_type s) (N.of_nat n) is_pw r = false.
Proof.
  rewrite filter_In, indexed_nth. unfold asked. cbn [fst snd]. rewrite andb_true_iff, negb_true_iff. tauto.
Qed.

(* every line of the pass belongs to such a slot, and every such slot's lines are in the pass *)
Corollary pass_line_iff ss is_pw r o :
  In o (qspec ss 0 is_pw r) <->
  exists n s, nth_error ss n = Some (Some s) /\ s_conf s = true /\ skip_query (s_type s) (N.of_nat n) is_pw r = false /\
              In o (query_lines (s_name s) (s_type s) r).
Proof.
  rewrite query_lines_iff, in_flat_map. split.
  - intros [[k s] [Hin Ho]]. cbn [fst snd] in Ho.
    assert (exists n, k = N.of_nat n) as [n ->] by (exists (N.to_nat k); lia).
    apply (slot_queried_iff ss is_pw r n s) in Hin. exists n, s. tauto.
  - intros [n [s [H1 [H2 [H3 Ho]]]]]. exists (N.of_nat n, s). split; [|exact Ho].
    apply (slot_queried_iff ss is_pw r n s). tauto.
Qed.

(* ====================================================================================================== *)
(* Part 2                                                                                                  *)
(* ====================================================================================================== *)
Theorem prereq_ok_meaning t r :
  prereq_ok t r = true <->
  match t with
  | Login => f_pass r = true
  | LoginIpr => f_host r = true /\ f_ident r = true /\ f_pass r = true
  | Drone | Combined => f_host r = true /\ f_ident r = true /\ f_nick r = true /\ f_user r = true
  end.
Proof. destruct t; cbn [prereq_ok]; rewrite ?andb_true_iff; tauto. Qed.

Theorem skip_query_meaning t k is_pw r :
  skip_query t k is_pw r = false <->
  prereq_ok t r = true /\
  (is_loginish t = true -> nonempty (pw r) = true) /\
  (N.testbit (sent r) k = false \/ (is_pw = true /\ is_drone t = false)).
Proof.
  unfold skip_query.
  destruct (N.testbit (sent r) k), is_pw, (is_drone t), (is_loginish t), (nonempty (pw r)), (prereq_ok t r); cbn [negb andb orb];
    split; try discriminate; try (intros _; repeat split; auto; fail);
    intros [H1 [H2 H3]]; try discriminate; try (specialize (H2 eq_refl); discriminate);
    destruct H3 as [H3|[H3 H4]]; discriminate.
Qed.

(* spelled out per protocol *)
Corollary skip_query_login k is_pw r :
  skip_query Login k is_pw r = false <->
  f_pass r = true /\ nonempty (pw r) = true /\ (N.testbit (sent r) k = false \/ is_pw = true).
Proof. rewrite skip_query_meaning, prereq_ok_meaning. cbn [is_loginish is_drone]. intuition. Qed.

Corollary skip_query_login_ipr k is_pw r :
  skip_query LoginIpr k is_pw r = false <->
  (f_host r = true /\ f_ident r = true /\ f_pass r = true) /\ nonempty (pw r) = true /\ (N.testbit (sent r) k = false \/ is_pw = true).
Proof. rewrite skip_query_meaning, prereq_ok_meaning. cbn [is_loginish is_drone]. intuition. Qed.

Corollary skip_query_drone k is_pw r :
  skip_query Drone k is_pw r = false <->
  (f_host r = true /\ f_ident r = true /\ f_nick r = true /\ f_user r = true) /\ N.testbit (sent r) k = false.
Proof. rewrite skip_query_meaning, prereq_ok_meaning. cbn [is_loginish is_drone]. intuition; discriminate. Qed.

Corollary skip_query_combined k is_pw r :
  skip_query Combined k is_pw r = false <->
  (f_host r = true /\ f_ident r = true /\ f_nick r = true /\ f_user r = true) /\ (N.testbit (sent r) k = false \/ is_pw = true).
Proof. rewrite skip_query_meaning, prereq_ok_meaning. cbn [is_loginish is_drone]. intuition; discriminate. Qed.

(* ====================================================================================================== *)
(* Part 3: where the flags come from                                                                       *)
(* ====================================================================================================== *)

(* r' is r as far as the identity and the five "known" flags go *)
Definition keeps (r' r : req) : Prop :=
  cid r' = cid r /\ f_host r' = f_host r /\ f_ident r' = f_ident r /\ f_nick r' = f_nick r /\ f_user r' = f_user r /\ f_pass r' = f_pass r.

Lemma keeps_refl r : keeps r r.
Proof. repeat split. Qed.
Lemma keeps_trans a b c : keeps a b -> keeps b c -> keeps a c.
Proof. unfold keeps. intros (A1 & A2 & A3 & A4 & A5 & A6) (B1 & B2 & B3 & B4 & B5 & B6). repeat split; congruence. Qed.

Lemma qpass_keeps ss : forall slot is_pw r outs efs, keeps (fst (fst (qpass ss slot is_pw r outs efs))) r.
Proof.
  induction ss as [|[sv|] rest IH]; intros slot is_pw r outs efs; cbn [qpass]; [apply keeps_refl| |apply IH].
  destruct (negb (s_conf sv) || skip_query (s_type sv) slot is_pw r); [apply IH|].
  eapply keeps_trans; [apply IH|]. repeat split.
Qed.

Lemma cont_keeps ss : forall slot t r outs efs, keeps (fst (fst (cont ss slot t r outs efs))) r.
Proof.
  induction ss as [|[sv|] rest IH]; intros slot t r outs efs; cbn [cont]; [apply keeps_refl| |apply IH].
  destruct (N.testbit (more r) slot && s_conf sv); [|apply IH].
  eapply keeps_trans; [apply IH|]. repeat split.
Qed.

Lemma gate_keeps c tb r : match fst (gate c tb r) with Some r' => keeps r' r | None => True end.
Proof.
  unfold gate. destruct ((holds r =? 0)%Z && complete c r); [|apply keeps_refl].
  destruct ((soft r =? 0)%Z || f_tout r).
  - destruct (classify (slots tb) (rules tb) r). exact I.
  - destruct (negb (f_sdone r)); cbn [fst]; repeat split.
Qed.

Lemma password_keeps tb r t : keeps (fst (fst (password tb r t))) r.
Proof.
  unfold password.
  destruct ((more r =? 0)%N || negb (nonempty (pw r))); [|apply cont_keeps].
  destruct (negb (starts t x2b || starts t x2d)); [apply keeps_refl|].
  destruct (modes _ _ _ _ _ _ _) as [[[[[rest0 sx] cx] sb] cb]|]; [|apply keeps_refl].
  cbv zeta. destruct (negb (has sp (skipsp rest0))); [apply keeps_refl|].
  eapply keeps_trans; [apply qpass_keeps|]. repeat split.
Qed.

(* what `step` does with the request r1 it has just updated: query pass (when iauth_xquery is loaded), then the gate *)
Definition aft_res (c : cfg) (tb : tabs) (r1 : req) : option req * list out * list eff :=
  if with_xq c then after c tb r1 false else let '(r2, g) := gate c tb r1 in (r2, g, []).

Lemma after_keeps c tb r1 is_pw : match fst (fst (after c tb r1 is_pw)) with Some r' => keeps r' r1 | None => True end.
Proof.
  unfold after. pose proof (qpass_keeps (slots tb) 0%N is_pw r1 [] []) as Q.
  destruct (qpass (slots tb) 0%N is_pw r1 [] []) as [[r2 o] efs]. cbn [fst] in Q.
  pose proof (gate_keeps c tb r2) as G. destruct (gate c tb r2) as [r3 g]. cbn [fst] in *.
  destruct r3; [eapply keeps_trans; eassumption|exact I].
Qed.

Lemma aft_res_keeps c tb r1 : match fst (fst (aft_res c tb r1)) with Some r' => keeps r' r1 | None => True end.
Proof.
  unfold aft_res. destruct (with_xq c); [apply after_keeps|].
  pose proof (gate_keeps c tb r1) as G. destruct (gate c tb r1) as [r2 g]. exact G.
Qed.

(* ---------- the request handed to `aft_res` by each line ---------- *)
Definition on_H (c : cfg) (r : req) : req :=
  if with_xq c then set_flags r true true true true (f_pass r) else set_flags r true (f_ident r) (f_nick r) (f_user r) (f_pass r).
Definition on_N (r : req) (h : str) : req :=
  set_flags (with_fields r (firstn hostlen h) (cliu r) (authu r) (nick r) (real r) (f_empty r)) true (f_ident r) (f_nick r) (f_user r) (f_pass r).
Definition on_d (r : req) : req := set_flags r true (f_ident r) (f_nick r) (f_user r) (f_pass r).
Definition on_u (r : req) (u : str) : req :=
  set_flags (with_fields r (host r) (cliu r) (firstn userlen u) (nick r) (real r) (f_empty r)) (f_host r) true (f_nick r) (f_user r) (f_pass r).
Definition on_n (r : req) (n : str) : req :=
  set_flags (with_fields r (host r) (cliu r) (authu r) (firstn nicklen n) (real r) (f_empty r)) (f_host r) (f_ident r) true (f_user r) (f_pass r).
Definition on_U (r : req) (u re : str) : req :=
  set_flags (with_fields r (host r) (firstn userlen u) (authu r) (nick r) (firstn reallen re) (f_empty r)) (f_host r) (f_ident r || f_empty r) (f_nick r) true (f_pass r).
Definition on_P (r : req) : req := set_flags r (f_host r) (f_ident r) (f_nick r) (f_user r) true.

Lemma handle_H c tb r argv : cmdchar argv = x48 -> handle c tb r argv = HFin (aft_res c tb (on_H c r)).
Proof. intros H. unfold handle, aft_res, on_H. cbv zeta. rewrite H. destruct (with_xq c); reflexivity. Qed.

Lemma handle_N c tb r argv h : cmdchar argv = x4e -> arg 1 argv = Some h -> nonempty (host r) = false ->
  handle c tb r argv = HFin (aft_res c tb (on_N r h)).
Proof. intros H H1 H2. unfold handle, aft_res, on_N. cbv zeta. rewrite H, H1, H2. reflexivity. Qed.

Lemma handle_d c tb r argv : cmdchar argv = x64 -> handle c tb r argv = HFin (aft_res c tb (on_d r)).
Proof. intros H. unfold handle, aft_res, on_d. cbv zeta. rewrite H. reflexivity. Qed.

Lemma handle_u c tb r argv u : cmdchar argv = x75 -> arg 1 argv = Some u -> handle c tb r argv = HFin (aft_res c tb (on_u r u)).
Proof. intros H H1. unfold handle, aft_res, on_u. cbv zeta. rewrite H, H1. reflexivity. Qed.

Lemma handle_n c tb r argv n : cmdchar argv = x6e -> arg 1 argv = Some n -> handle c tb r argv = HFin (aft_res c tb (on_n r n)).
Proof. intros H H1. unfold handle, aft_res, on_n. cbv zeta. rewrite H, H1. reflexivity. Qed.

Lemma handle_U c tb r argv u re : cmdchar argv = x55 -> arg 1 argv = Some u -> arg 2 argv = Some re ->
  handle c tb r argv = HFin (aft_res c tb (on_U r u re)).
Proof. intros H H1 H2. unfold handle, aft_res, on_U. cbv zeta. rewrite H, H1, H2. reflexivity. Qed.

(* the one-line facts *)
Lemma H_sets_all c r : with_xq c = true ->
  f_host (on_H c r) = true /\ f_ident (on_H c r) = true /\ f_nick (on_H c r) = true /\ f_user (on_H c r) = true.
Proof. intros H. unfold on_H. rewrite H. repeat split. Qed.
Lemma H_sets_host c r : f_host (on_H c r) = true.
Proof. unfold on_H. destruct (with_xq c); reflexivity. Qed.
Lemma N_sets_host r h : f_host (on_N r h) = true. Proof. reflexivity. Qed.
Lemma d_sets_host r : f_host (on_d r) = true. Proof. reflexivity. Qed.
Lemma u_sets_ident r u : f_ident (on_u r u) = true. Proof. reflexivity. Qed.
Lemma n_sets_nick r n : f_nick (on_n r n) = true. Proof. reflexivity. Qed.
Lemma U_sets_user r u re : f_user (on_U r u re) = true. Proof. reflexivity. Qed.
Lemma P_sets_pass r : f_pass (on_P r) = true. Proof. reflexivity. Qed.
(* and no line clears a flag *)
Lemma on_monotone (f : req -> bool) c r h u n re :
  (f = f_host \/ f = f_ident \/ f = f_nick \/ f = f_user \/ f = f_pass) -> f r = true ->
  f (on_H c r) = true /\ f (on_N r h) = true /\ f (on_d r) = true /\ f (on_u r u) = true /\ f (on_n r n) = true /\
  f (on_U r u re) = true /\ f (on_P r) = true.
Proof.
  intros [->|[->|[->|[->| ->]]]] H; unfold on_H; destruct (with_xq c); cbn [on_N on_d on_u on_n on_U on_P set_flags f_host f_ident f_nick f_user f_pass];
    rewrite ?H; repeat split; reflexivity.
Qed.

(* ---------- the table after a line that goes through `aft_res` ---------- *)
Lemma step_nodup c s id argv : NoDupIds (reqs s) -> NoDupIds (reqs (fst (step c s id argv))).
Proof.
  intros ND. rewrite step_eq.
  assert (forall j res, NoDupIds (reqs (fst (finish s j res)))) as Fin.
  { intros j [[ro o] e]. unfold finish. destruct ro; cbn [fst reqs]; [apply nodup_put|apply nodup_remove]; exact ND. }
  destruct (beq (cmdchar argv) x43).
  { unfold announce. destruct (arg 1 argv) as [a|], (arg 2 argv), (arg 3 argv), (arg 4 argv); try exact ND.
    destruct (announce_addr a). cbn [fst reqs]. apply nodup_put; exact ND. }
  destruct (beq (cmdchar argv) x58 || beq (cmdchar argv) x78).
  { unfold xstep, xreply. destruct (negb (with_xq c)); [exact ND|].
    destruct (arg 1 argv); [|exact ND]. destruct (arg 2 argv) as [tg|]; [|exact ND]. destruct (arg 3 argv); [|exact ND].
    destruct (parse_tag tg) as [[tid tser]|]; [|exact ND]. destruct (lookup tid (reqs s)) as [r|]; [|exact ND].
    destruct (ser r =? tser)%N; [apply Fin|exact ND]. }
  destruct (lookup id (reqs s)) as [r|]; [|exact ND].
  destruct (handle c (tb s) r argv); cbn [apply_h]; [exact ND|apply Fin|cbn [fst reqs]; apply nodup_remove; exact ND].
Qed.

(* what is stored for `id` after `finish`, when ids are unique *)
Lemma finish_lookup s id res r' :
  NoDupIds (reqs s) -> match fst (fst res) with Some r2 => cid r2 = id | None => True end ->
  lookup id (reqs (fst (finish s id res))) = Some r' -> fst (fst res) = Some r'.
Proof.
  intros ND Hc. destruct res as [[ro o] e]. unfold finish. cbn [fst] in *. destruct ro as [r2|]; cbn [fst reqs].
  - rewrite lookup_put. rewrite Hc, Z.eqb_refl. intros E; exact E.
  - rewrite (lookup_remove_eq id _ ND). discriminate.
Qed.

Lemma step_aft_stored c s id argv r r1 r' :
  NoDupIds (reqs s) -> lookup id (reqs s) = Some r ->
  beq (cmdchar argv) x43 = false -> beq (cmdchar argv) x58 || beq (cmdchar argv) x78 = false ->
  handle c (tb s) r argv = HFin (aft_res c (tb s) r1) -> cid r1 = cid r ->
  lookup id (reqs (fst (step c s id argv))) = Some r' -> keeps r' r1.
Proof.
  intros ND Hl E1 E2 Hh Hc Hl'. rewrite step_eq, E1, E2, Hl, Hh in Hl'. cbn [apply_h] in Hl'.
  pose proof (aft_res_keeps c (tb s) r1) as K.
  apply finish_lookup in Hl'; [rewrite Hl' in K; exact K|exact ND|].
  destruct (fst (fst (aft_res c (tb s) r1))) as [r2|]; [|exact I].
  destruct K as [K _]. rewrite K, Hc. apply (lookup_cid _ _ _ Hl).
Qed.

Ltac cmd_not_CX H := rewrite H; split; reflexivity.

(* after the H line for a live client all four of host / ident / nick / user are known in the stored request *)
Theorem hurry_up_makes_data_known c s id argv r r' :
  with_xq c = true -> NoDupIds (reqs s) -> lookup id (reqs s) = Some r -> cmdchar argv = x48 ->
  lookup id (reqs (fst (step c s id argv))) = Some r' ->
  f_host r' = true /\ f_ident r' = true /\ f_nick r' = true /\ f_user r' = true.
Proof.
  intros Hx ND Hl Hc Hl'.
  assert (beq (cmdchar argv) x43 = false /\ beq (cmdchar argv) x58 || beq (cmdchar argv) x78 = false) as [E1 E2] by cmd_not_CX Hc.
  pose proof (step_aft_stored c s id argv r (on_H c r) r' ND Hl E1 E2 (handle_H c (tb s) r argv Hc)) as K.
  assert (cid (on_H c r) = cid r) as Hid by (unfold on_H; destruct (with_xq c); reflexivity).
  destruct (K Hid Hl') as (_ & K1 & K2 & K3 & K4 & _). destruct (H_sets_all c r Hx) as (A1 & A2 & A3 & A4).
  repeat split; congruence.
Qed.

(* the core alone (iauth_xquery not loaded) only needs the host name, and H supplies just that *)
Theorem hurry_up_core_only c s id argv r r' :
  NoDupIds (reqs s) -> lookup id (reqs s) = Some r -> cmdchar argv = x48 ->
  lookup id (reqs (fst (step c s id argv))) = Some r' -> f_host r' = true.
Proof.
  intros ND Hl Hc Hl'.
  assert (beq (cmdchar argv) x43 = false /\ beq (cmdchar argv) x58 || beq (cmdchar argv) x78 = false) as [E1 E2] by cmd_not_CX Hc.
  pose proof (step_aft_stored c s id argv r (on_H c r) r' ND Hl E1 E2 (handle_H c (tb s) r argv Hc)) as K.
  assert (cid (on_H c r) = cid r) as Hid by (unfold on_H; destruct (with_xq c); reflexivity).
  destruct (K Hid Hl') as (_ & K1 & _). rewrite K1. apply H_sets_host.
Qed.

(* the query pass run by the H line sees the four flags set: every configured drone / combined service not yet asked is asked now *)
Theorem hurry_up_queries_now c r t k :
  with_xq c = true -> is_loginish t = false -> N.testbit (sent r) k = false -> skip_query t k false (on_H c r) = false.
Proof.
  intros Hx Ht Hs. apply skip_query_meaning. unfold on_H. rewrite Hx.
  split; [destruct t; try discriminate; reflexivity|]. split; [rewrite Ht; discriminate|left; exact Hs].
Qed.

(* the same for the other lines, on the stored request *)
Theorem N_makes_host_known c s id argv r h r' :
  NoDupIds (reqs s) -> lookup id (reqs s) = Some r -> cmdchar argv = x4e -> arg 1 argv = Some h -> nonempty (host r) = false ->
  lookup id (reqs (fst (step c s id argv))) = Some r' -> f_host r' = true.
Proof.
  intros ND Hl Hc H1 H2 Hl'.
  assert (beq (cmdchar argv) x43 = false /\ beq (cmdchar argv) x58 || beq (cmdchar argv) x78 = false) as [E1 E2] by cmd_not_CX Hc.
  destruct (step_aft_stored c s id argv r (on_N r h) r' ND Hl E1 E2 (handle_N c (tb s) r argv h Hc H1 H2) eq_refl Hl') as (_ & K & _).
  rewrite K. reflexivity.
Qed.

Theorem d_makes_host_known c s id argv r r' :
  NoDupIds (reqs s) -> lookup id (reqs s) = Some r -> cmdchar argv = x64 ->
  lookup id (reqs (fst (step c s id argv))) = Some r' -> f_host r' = true.
Proof.
  intros ND Hl Hc Hl'.
  assert (beq (cmdchar argv) x43 = false /\ beq (cmdchar argv) x58 || beq (cmdchar argv) x78 = false) as [E1 E2] by cmd_not_CX Hc.
  destruct (step_aft_stored c s id argv r (on_d r) r' ND Hl E1 E2 (handle_d c (tb s) r argv Hc) eq_refl Hl') as (_ & K & _).
  rewrite K. reflexivity.
Qed.

Theorem u_makes_ident_known c s id argv r u r' :
  NoDupIds (reqs s) -> lookup id (reqs s) = Some r -> cmdchar argv = x75 -> arg 1 argv = Some u ->
  lookup id (reqs (fst (step c s id argv))) = Some r' -> f_ident r' = true.
Proof.
  intros ND Hl Hc H1 Hl'.
  assert (beq (cmdchar argv) x43 = false /\ beq (cmdchar argv) x58 || beq (cmdchar argv) x78 = false) as [E1 E2] by cmd_not_CX Hc.
  destruct (step_aft_stored c s id argv r (on_u r u) r' ND Hl E1 E2 (handle_u c (tb s) r argv u Hc H1) eq_refl Hl') as (_ & _ & K & _).
  rewrite K. reflexivity.
Qed.

Theorem n_makes_nick_known c s id argv r n r' :
  NoDupIds (reqs s) -> lookup id (reqs s) = Some r -> cmdchar argv = x6e -> arg 1 argv = Some n ->
  lookup id (reqs (fst (step c s id argv))) = Some r' -> f_nick r' = true.
Proof.
  intros ND Hl Hc H1 Hl'.
  assert (beq (cmdchar argv) x43 = false /\ beq (cmdchar argv) x58 || beq (cmdchar argv) x78 = false) as [E1 E2] by cmd_not_CX Hc.
  destruct (step_aft_stored c s id argv r (on_n r n) r' ND Hl E1 E2 (handle_n c (tb s) r argv n Hc H1) eq_refl Hl') as (_ & _ & _ & K & _).
  rewrite K. reflexivity.
Qed.

Theorem U_makes_user_known c s id argv r u re r' :
  NoDupIds (reqs s) -> lookup id (reqs s) = Some r -> cmdchar argv = x55 -> arg 1 argv = Some u -> arg 2 argv = Some re ->
  lookup id (reqs (fst (step c s id argv))) = Some r' -> f_user r' = true.
Proof.
  intros ND Hl Hc H1 H2 Hl'.
  assert (beq (cmdchar argv) x43 = false /\ beq (cmdchar argv) x58 || beq (cmdchar argv) x78 = false) as [E1 E2] by cmd_not_CX Hc.
  destruct (step_aft_stored c s id argv r (on_U r u re) r' ND Hl E1 E2 (handle_U c (tb s) r argv u re Hc H1 H2) eq_refl Hl') as (_ & _ & _ & _ & K & _).
  rewrite K. reflexivity.
Qed.

(* ---------- P: the flag is set by any P line; the password text only by a well-shaped one ---------- *)
Lemma qpass_pw ss : forall slot is_pw r outs efs, pw (fst (fst (qpass ss slot is_pw r outs efs))) = pw r.
Proof.
  induction ss as [|[sv|] rest IH]; intros slot is_pw r outs efs; cbn [qpass]; [reflexivity| |apply IH].
  destruct (negb (s_conf sv) || skip_query (s_type sv) slot is_pw r); [apply IH|]. rewrite IH. reflexivity.
Qed.

Lemma has_nonempty_firstn b s : has b s = true -> nonempty (firstn pw_len s) = true.
Proof. destruct s; [discriminate|reflexivity]. Qed.

(* a well-shaped password line (modes, account, password) on a request with no continuation pending stores a non-empty password *)
Theorem wellshaped_password_stored tb r t :
  well_shaped t -> (more r =? 0)%N || negb (nonempty (pw r)) = true ->
  nonempty (pw (fst (fst (password tb r t)))) = true.
Proof.
  intros [W1 (rest0 & sx & cx & sb & cb & W2 & W3)] Hm. unfold password. rewrite Hm, W1, W2. cbn [negb]. cbv zeta. rewrite W3. cbn [negb].
  rewrite qpass_pw. cbn [with_pw pw]. apply has_nonempty_firstn with (b := sp). exact W3.
Qed.

(* ... and anything else stores nothing (restating IauthFacts.password_shape on the stored text) *)
Corollary illshaped_password_not_stored tb r t :
  ~ well_shaped t -> (more r =? 0)%N || negb (nonempty (pw r)) = true -> pw (fst (fst (password tb r t))) = pw r.
Proof. intros W Hm. rewrite (password_shape tb r t Hm W). reflexivity. Qed.

(* the request handed to the gate by the P line has f_pass set *)
Theorem P_makes_pass_known tb r t : f_pass (fst (fst (password tb (on_P r) t))) = true.
Proof. destruct (password_keeps tb (on_P r) t) as (_ & _ & _ & _ & _ & K). rewrite K. reflexivity. Qed.

Theorem P_makes_pass_known_stored c s id argv r t r' :
  NoDupIds (reqs s) -> lookup id (reqs s) = Some r -> cmdchar argv = x50 -> arg 1 argv = Some t ->
  lookup id (reqs (fst (step c s id argv))) = Some r' -> f_pass r' = true.
Proof.
  intros ND Hl Hc H1 Hl'.
  assert (beq (cmdchar argv) x43 = false /\ beq (cmdchar argv) x58 || beq (cmdchar argv) x78 = false) as [E1 E2] by cmd_not_CX Hc.
  rewrite step_eq, E1, E2, Hl in Hl'. unfold handle in Hl'. cbv zeta in Hl'. rewrite Hc, H1 in Hl'.
  change (beq x50 x44 || beq x50 x54) with false in Hl'. change (beq x50 x21) with false in Hl'. change (beq x50 x4e) with false in Hl'.
  change (beq x50 x64) with false in Hl'. change (beq x50 x75) with false in Hl'. change (beq x50 x6e) with false in Hl'.
  change (beq x50 x55) with false in Hl'. change (beq x50 x48) with false in Hl'. change (beq x50 x50) with true in Hl'. cbv iota in Hl'.
  fold (on_P r) in Hl'.
  assert (cid r = id) as Hid by apply (lookup_cid _ _ _ Hl).
  destruct (with_xq c).
  - pose proof (password_keeps (tb s) (on_P r) t) as K1.
    destruct (password (tb s) (on_P r) t) as [[r1 o] efs]. cbn [fst] in K1.
    pose proof (gate_keeps c (tb s) r1) as K2. destruct (gate c (tb s) r1) as [r2 g]. cbn [fst apply_h] in *.
    apply finish_lookup in Hl'; [|exact ND|].
    + cbn [fst] in Hl'. subst r2. destruct (keeps_trans _ _ _ K2 K1) as (_ & _ & _ & _ & _ & K). rewrite K. reflexivity.
    + cbn [fst]. destruct r2 as [r2|]; [|exact I]. destruct (keeps_trans _ _ _ K2 K1) as (K & _). rewrite K. exact Hid.
  - pose proof (gate_keeps c (tb s) (on_P r)) as K2. destruct (gate c (tb s) (on_P r)) as [r2 g]. cbn [fst apply_h] in *.
    apply finish_lookup in Hl'; [|exact ND|].
    + cbn [fst] in Hl'. subst r2. destruct K2 as (_ & _ & _ & _ & _ & K). rewrite K. reflexivity.
    + cbn [fst]. destruct r2 as [r2|]; [|exact I]. destruct K2 as (K & _). rewrite K. exact Hid.
Qed.

(* ====================================================================================================== *)
(* Part 4: the two directions on a whole input line ("not skipped", "not earlier")                         *)
(* ====================================================================================================== *)
Definition is_X (o : out) : bool := match o with OX _ _ _ _ => true | _ => false end.
Definition noX (l : list out) : Prop := Forall (fun o => is_X o = false) l.

Lemma classify_noX ss rs r : noX (fst (classify ss rs r)).
Proof.
  induction rs as [|ru rest IH]; cbn [classify]; [constructor|].
  destruct (rule_matches ss ru r); [|exact IH]. cbv zeta. cbn [fst].
  match goal with |- noX (if ?b then _ else _) => destruct b end; [|constructor].
  constructor; [reflexivity|constructor].
Qed.

(* the gate writes no query *)
Lemma gate_noX c tb r : noX (snd (gate c tb r)).
Proof.
  unfold gate. destruct ((holds r =? 0)%Z && complete c r); [|constructor].
  destruct ((soft r =? 0)%Z || f_tout r).
  - pose proof (classify_noX (slots tb) (rules tb) r) as C.
    destruct (classify (slots tb) (rules tb) r) as [extra k]. cbn [fst snd] in *.
    apply Forall_app. split; [exact C|]. constructor; [|constructor]. destruct (acct r); reflexivity.
  - destruct (negb (f_sdone r)); cbn [snd]; [|constructor]. constructor; [reflexivity|constructor].
Qed.

(* the lines of `aft_res` with iauth_xquery loaded: the query pass on r1, then the gate's lines (no queries) *)
Lemma aft_res_outs c tb r1 : with_xq c = true ->
  exists g, noX g /\ snd (fst (aft_res c tb r1)) = qspec (slots tb) 0 false r1 ++ g.
Proof.
  intros Hx. unfold aft_res, after. rewrite Hx.
  pose proof (qpass_outs (slots tb) 0%N false r1 [] []) as Q.
  destruct (qpass (slots tb) 0%N false r1 [] []) as [[r2 o] efs]. cbn [fst snd app] in Q. subst o.
  pose proof (gate_noX c tb r2) as G. destruct (gate c tb r2) as [r3 g]. cbn [fst snd] in *. exists g. split; [exact G|reflexivity].
Qed.

(* without iauth_xquery nothing is ever queried *)
Lemma aft_res_outs_core c tb r1 : with_xq c = false -> noX (snd (fst (aft_res c tb r1))).
Proof.
  intros Hx. unfold aft_res. rewrite Hx. pose proof (gate_noX c tb r1) as G. destruct (gate c tb r1) as [r2 g]. exact G.
Qed.

Lemma step_aft_outs c s id argv r r1 :
  lookup id (reqs s) = Some r ->
  beq (cmdchar argv) x43 = false -> beq (cmdchar argv) x58 || beq (cmdchar argv) x78 = false ->
  handle c (tb s) r argv = HFin (aft_res c (tb s) r1) ->
  snd (step c s id argv) = snd (fst (aft_res c (tb s) r1)).
Proof.
  intros Hl E1 E2 Hh. rewrite step_eq, E1, E2, Hl, Hh. cbn [apply_h].
  destruct (aft_res c (tb s) r1) as [[ro o] e]. unfold finish. destruct ro; reflexivity.
Qed.

(* NOT SKIPPED: on a line that updates the request to r1 (N d u n U H, see the handle_* lemmas above), every configured
   service whose conditions hold on r1 has its query lines written in this very step *)
Theorem queried_in_that_step c s id argv r r1 n sv :
  with_xq c = true -> lookup id (reqs s) = Some r ->
  beq (cmdchar argv) x43 = false -> beq (cmdchar argv) x58 || beq (cmdchar argv) x78 = false ->
  handle c (tb s) r argv = HFin (aft_res c (tb s) r1) ->
  nth_error (slots (tb s)) n = Some (Some sv) -> s_conf sv = true -> skip_query (s_type sv) (N.of_nat n) false r1 = false ->
  incl (query_lines (s_name sv) (s_type sv) r1) (snd (step c s id argv)).
Proof.
  intros Hx Hl E1 E2 Hh Hn Hc Hs o Ho. rewrite (step_aft_outs c s id argv r r1 Hl E1 E2 Hh).
  destruct (aft_res_outs c (tb s) r1 Hx) as [g [_ ->]]. apply in_or_app. left.
  apply pass_line_iff. exists n, sv. tauto.
Qed.

(* NOT EARLIER: every query written by such a line belongs to a configured service whose conditions hold on r1 *)
Theorem query_only_when_known c s id argv r r1 nm i sr pl :
  lookup id (reqs s) = Some r ->
  beq (cmdchar argv) x43 = false -> beq (cmdchar argv) x58 || beq (cmdchar argv) x78 = false ->
  handle c (tb s) r argv = HFin (aft_res c (tb s) r1) ->
  In (OX nm i sr pl) (snd (step c s id argv)) ->
  with_xq c = true /\
  exists n sv, nth_error (slots (tb s)) n = Some (Some sv) /\ s_conf sv = true /\
               skip_query (s_type sv) (N.of_nat n) false r1 = false /\
               In (OX nm i sr pl) (query_lines (s_name sv) (s_type sv) r1).
Proof.
  intros Hl E1 E2 Hh Hin. rewrite (step_aft_outs c s id argv r r1 Hl E1 E2 Hh) in Hin.
  destruct (with_xq c) eqn:Hx.
  - split; [reflexivity|]. destruct (aft_res_outs c (tb s) r1 Hx) as [g [Hg E]]. rewrite E in Hin.
    apply in_app_or in Hin as [Hin|Hin]; [apply pass_line_iff; exact Hin|].
    unfold noX in Hg. rewrite Forall_forall in Hg. specialize (Hg _ Hin). discriminate.
  - pose proof (aft_res_outs_core c (tb s) r1 Hx) as Hg. unfold noX in Hg. rewrite Forall_forall in Hg. specialize (Hg _ Hin). discriminate.
Qed.

(* the P line: a well-shaped password on a request without a pending continuation runs a query pass (is_pw = true) on
   the request with the new password text and modes stored; nothing else of what `skip_query` reads is changed *)
Theorem password_pass tb r t rest0 sx cx sb cb :
  ((more r =? 0)%N || negb (nonempty (pw r))) = true -> (starts t x2b || starts t x2d) = true ->
  modes (S (List.length t)) t false false false false false = Some (rest0, sx, cx, sb, cb) -> has sp (skipsp rest0) = true ->
  exists rp, pw rp = firstn pw_len (skipsp rest0) /\ nonempty (pw rp) = true /\ keeps rp r /\ sent rp = sent r /\
             password tb r t = qpass (slots tb) 0 true rp [] [] /\
             snd (fst (password tb r t)) = flat_map (lines_of_slot rp) (filter (asked true rp) (indexed (slots tb))).
Proof.
  intros Hm W1 W2 W3. unfold password. rewrite Hm, W1, W2. cbn [negb]. cbv zeta. rewrite W3. cbn [negb].
  eexists. split; [|split; [|split; [|split; [|split; [reflexivity|apply qpass_lines]]]]].
  - reflexivity.
  - cbn [with_pw pw]. apply has_nonempty_firstn with (b := sp). exact W3.
  - repeat split.
  - reflexivity.
Qed.

