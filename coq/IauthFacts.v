(* Facts about single functions of the IAuth model (Iauth.v) used by the C05, C06 and C11 theorems. *)
From Coq Require Import List NArith ZArith Bool Strings.Byte Strings.String Lia.
Import ListNotations.
Require Import Params Iauth.
Local Open Scope list_scope.

(* ---------- C11: the class is that of the first matching rule ---------- *)
Definition rule_class (ru : rule) : str := firstn class_len (match r_class ru with Some c => c | None => r_name ru end).

Lemma classify_first_match ss rs r :
  snd (classify ss rs r) = match find (fun ru => rule_matches ss ru r) rs with Some ru => rule_class ru | None => [] end.
Proof.
  induction rs as [|ru rest IH]; cbn [classify find]; [reflexivity|].
  destruct (rule_matches ss ru r); [reflexivity|exact IH].
Qed.

Definition trusted_line (ru : rule) (r : req) : list out :=
  let u := if starts (cliu r) x7e then tl (cliu r) else cliu r in
  if r_trust ru && starts (authu r) x7e && nonempty u then [oc x55 r (sp :: u)] else [].

Lemma classify_trust ss rs r :
  fst (classify ss rs r) = match find (fun ru => rule_matches ss ru r) rs with Some ru => trusted_line ru r | None => [] end.
Proof.
  induction rs as [|ru rest IH]; cbn [classify find]; [reflexivity|].
  destruct (rule_matches ss ru r); [reflexivity|exact IH].
Qed.

Lemma classify_no_match ss rs r : (forall ru, In ru rs -> rule_matches ss ru r = false) -> classify ss rs r = ([], []).
Proof.
  induction rs as [|ru rest IH]; intros H; cbn [classify]; [reflexivity|].
  rewrite (H ru (or_introl eq_refl)). apply IH. intros x Hx. apply H. right; exact Hx.
Qed.

Lemma class_fits ss rs r : (List.length (snd (classify ss rs r)) < CLASSLEN)%nat.
Proof.
  rewrite classify_first_match. destruct (find _ rs) as [ru|]; [|cbn; unfold CLASSLEN; lia].
  unfold rule_class, class_len. pose proof (firstn_le_length (CLASSLEN - 1) (match r_class ru with Some c => c | None => r_name ru end)). unfold CLASSLEN in *. lia.
Qed.

(* ---------- C06: the query pass ---------- *)
Lemma query_lines_queried n t r slot : query_lines n t (queried r slot) = query_lines n t r.
Proof. reflexivity. Qed.

Lemma username_fits r : (List.length (username r) <= USERLEN)%nat.
Proof. unfold username. apply firstn_le_length. Qed.

(* a service is queried in a pass exactly when it is configured and `skip_query` is false on the request as left by the earlier slots *)
Fixpoint qspec (ss : list (option svc)) (slot : N) (is_pw : bool) (r : req) : list out :=
  match ss with
  | [] => []
  | None :: rest => qspec rest (slot + 1) is_pw r
  | Some s :: rest =>
    if negb (s_conf s) || skip_query (s_type s) slot is_pw r then qspec rest (slot + 1) is_pw r
    else query_lines (s_name s) (s_type s) r ++ qspec rest (slot + 1) is_pw (queried r slot)
  end.

Lemma qpass_outs ss : forall slot is_pw r outs efs, snd (fst (qpass ss slot is_pw r outs efs)) = outs ++ qspec ss slot is_pw r.
Proof.
  induction ss as [|o rest IH]; intros slot is_pw r outs efs; cbn [qpass qspec]; [rewrite app_nil_r; reflexivity|].
  destruct o as [s|]; [|apply IH].
  destruct (negb (s_conf s) || skip_query (s_type s) slot is_pw r); [apply IH|].
  rewrite IH, <- app_assoc. reflexivity.
Qed.

(* the payload of every query of a pass is computed from the client's own stored fields: `queried` touches none of them *)
Lemma queried_fields r slot :
  nick (queried r slot) = nick r /\ username (queried r slot) = username r /\ addr (queried r slot) = addr r /\
  hostn (queried r slot) = hostn r /\ real (queried r slot) = real r /\ pw (queried r slot) = pw r /\ cid (queried r slot) = cid r /\ ser (queried r slot) = ser r.
Proof. repeat split. Qed.

(* a password without the '<modes> <account> <password>' shape is never forwarded: `password` emits nothing and stores nothing *)
Definition well_shaped (t : str) : Prop :=
  (starts t x2b || starts t x2d) = true /\
  exists rest0 sx cx sb cb, modes (S (List.length t)) t false false false false false = Some (rest0, sx, cx, sb, cb) /\ has sp (skipsp rest0) = true.

Lemma password_shape tb r t : (more r =? 0)%N || negb (nonempty (pw r)) = true -> ~ well_shaped t -> password tb r t = (r, [], []).
Proof.
  intros Hm Hn. unfold password. rewrite Hm.
  destruct (starts t x2b || starts t x2d) eqn:E1; cbn [negb]; [|reflexivity].
  destruct (modes (S (List.length t)) t false false false false false) as [[[[[rest0 sx] cx] sb] cb]|] eqn:E2; [|reflexivity].
  destruct (has sp (skipsp rest0)) eqn:E3; cbn [negb]; [|reflexivity].
  exfalso. apply Hn. split; [exact E1|]. exists rest0, sx, cx, sb, cb. split; [exact E2|exact E3].
Qed.

(* ---------- C05: replies ---------- *)
Lemma prefix_NO_not_OK tx : prefix (S_ "NO ") tx = true -> seq_eq tx (S_ "OK") = false /\ prefix (S_ "OK ") tx = false.
Proof.
  intros H. destruct tx as [|a tx]; [discriminate|].
  change (S_ "NO ") with [x4e; x4f; x20] in H. cbn [prefix] in H. apply andb_true_iff in H as [Ha _].
  unfold beq in Ha. apply Byte.byte_dec_bl in Ha. subst a. split; reflexivity.
Qed.

Theorem kill_text c tb r svcn tx slot t :
  find_slot (slots tb) 0 svcn (refm r) = Some (slot, t) -> prefix (S_ "NO ") tx = true ->
  reply c tb r svcn (Some tx) = (None, [oc x6b r (S_ " :" ++ skipn 3 tx)], []).
Proof.
  intros Hf Hp. unfold reply. rewrite Hf. destruct (prefix_NO_not_OK tx Hp) as [H1 H2]. rewrite H1, H2, Hp. reflexivity.
Qed.

Theorem stray_reply_noop c tb r svcn text : find_slot (slots tb) 0 svcn (refm r) = None -> reply c tb r svcn text = (Some r, [], []).
Proof. intros Hf. unfold reply. rewrite Hf. reflexivity. Qed.

(* the account of the request after a reply: unchanged unless a login-type service vouches a non-empty account *)
Definition vouches (t : stype) (tx : str) : option str :=
  if prefix (S_ "OK ") tx && negb (seq_eq tx (S_ "OK")) && nonempty (upto sp (skipn 3 tx)) && negb (is_drone t)
  then Some (firstn acct_len (upto sp (skipn 3 tx))) else None.

Lemma gate_acct c tb r : match fst (gate c tb r) with Some r' => acct r' = acct r | None => True end.
Proof.
  unfold gate. destruct ((holds r =? 0)%Z && complete c r); [|reflexivity].
  destruct ((soft r =? 0)%Z || f_tout r).
  - destruct (classify (slots tb) (rules tb) r). exact I.
  - destruct (negb (f_sdone r)); reflexivity.
Qed.

Theorem account_only_from_login_type c tb r svcn tx slot t :
  find_slot (slots tb) 0 svcn (refm r) = Some (slot, t) ->
  match fst (fst (reply c tb r svcn (Some tx))) with
  | Some r' => acct r' = match vouches t tx with Some a => a | None => acct r end
  | None => True
  end.
Proof.
  intros Hf. unfold reply, vouches. rewrite Hf.
  destruct (seq_eq tx (S_ "OK")) eqn:E0.
  { cbn [negb andb]. rewrite andb_false_r. cbn [andb].
    match goal with |- context [gate c tb ?x] => pose proof (gate_acct c tb x) as G; destruct (gate c tb x) as [r' g] end. cbn [fst] in *. destruct r'; [exact G|exact I]. }
  destruct (prefix (S_ "OK ") tx) eqn:E1; cbn [negb andb].
  { destruct (nonempty (upto sp (skipn 3 tx))) eqn:E2; cbn [negb andb orb].
    - destruct (is_drone t) eqn:E3; cbn [negb andb];
        match goal with |- context [gate c tb ?x] => pose proof (gate_acct c tb x) as G; destruct (gate c tb x) as [r' g] end; cbn [fst] in *; destruct r'; try exact I; exact G.
    - match goal with |- context [gate c tb ?x] => pose proof (gate_acct c tb x) as G; destruct (gate c tb x) as [r' g] end. cbn [fst] in *. destruct r'; [exact G|exact I]. }
  destruct (prefix (S_ "NO ") tx); [exact I|].
  destruct (prefix (S_ "AGAIN ") tx).
  { match goal with |- context [gate c tb ?x] => pose proof (gate_acct c tb x) as G; destruct (gate c tb x) as [r' g] end. cbn [fst] in *. destruct r'; [exact G|exact I]. }
  destruct (prefix (S_ "MORE ") tx).
  { match goal with |- context [gate c tb ?x] => pose proof (gate_acct c tb x) as G; destruct (gate c tb x) as [r' g] end. cbn [fst] in *. destruct r'; [exact G|exact I]. }
  reflexivity.
Qed.

Corollary dronecheck_never_vouches c tb r svcn tx slot :
  find_slot (slots tb) 0 svcn (refm r) = Some (slot, Drone) ->
  match fst (fst (reply c tb r svcn (Some tx))) with Some r' => acct r' = acct r | None => True end.
Proof.
  intros Hf. pose proof (account_only_from_login_type c tb r svcn tx slot Drone Hf) as H.
  unfold vouches in H. cbn [is_drone negb] in H. rewrite !andb_false_r in H. exact H.
Qed.

(* the accept line carries the account exactly when one is stored *)
Theorem accept_line_account c tb r outs :
  gate c tb r = (None, outs) ->
  exists extra k, outs = extra ++ [(match acct r with [] => oc x44 r k | _ => oc x52 r (sp :: acct r ++ k) end)] /\
                  extra = fst (classify (slots tb) (rules tb) r) /\ k = (match snd (classify (slots tb) (rules tb) r) with [] => [] | _ => sp :: snd (classify (slots tb) (rules tb) r) end).
Proof.
  unfold gate. destruct ((holds r =? 0)%Z && complete c r); [|discriminate].
  destruct ((soft r =? 0)%Z || f_tout r).
  - destruct (classify (slots tb) (rules tb) r) as [extra k] eqn:E. intros H. inversion H; subst. cbn [fst snd].
    eexists _, _. split; [reflexivity|]. split; reflexivity.
  - destruct (negb (f_sdone r)); discriminate.
Qed.

(* challenge and retry texts are relayed verbatim, as the first line of the step, to the client the reply was routed to *)
Theorem relay_verbatim c tb r svcn tx slot t :
  find_slot (slots tb) 0 svcn (refm r) = Some (slot, t) ->
  seq_eq tx (S_ "OK") = false -> prefix (S_ "OK ") tx = false -> prefix (S_ "NO ") tx = false ->
  (prefix (S_ "AGAIN ") tx = true -> exists rest, snd (fst (reply c tb r svcn (Some tx))) = oc x43 r (S_ " :" ++ skipn 6 tx) :: rest) /\
  (prefix (S_ "AGAIN ") tx = false -> prefix (S_ "MORE ") tx = true -> exists rest, snd (fst (reply c tb r svcn (Some tx))) = oc x43 r (S_ " :" ++ skipn 5 tx) :: rest).
Proof.
  intros Hf H0 H1 H2. unfold reply. rewrite Hf, H0, H1, H2. split.
  - intros HA. rewrite HA. match goal with |- context [gate c tb ?x] => destruct (gate c tb x) as [r' g] end. cbn [fst snd app]. eexists; reflexivity.
  - intros HA HM. rewrite HA, HM. match goal with |- context [gate c tb ?x] => destruct (gate c tb x) as [r' g] end. cbn [fst snd app]. eexists; reflexivity.
Qed.
