(* For sorted child lists the two-list walk of merge has a flat description: what a key maps to afterwards, which
   hooks are fired (in order) and when the membership flag is raised. *)
From Coq Require Import List NArith ZArith Bool Strings.Byte Lia.
Import ListNotations.
Require Import Conf ConfMerge ConfOrder ConfBase ConfIdem ConfSorted.
Local Open Scope N_scope.

Fixpoint lookupe (n : str) (k : N) (kids : list (str * lnode)) : option (str * lnode) :=
  match kids with [] => None | (m, v) :: r => match kcmp n k m (lkind v) with Eq => Some (m, v) | _ => lookupe n k r end end.
Fixpoint lookupv (n : str) (k : N) (kids : list (str * val)) : option (str * val) :=
  match kids with [] => None | (m, v) :: r => match kcmp n k m (kind v) with Eq => Some (m, v) | _ => lookupv n k r end end.

Lemma lookupl_e n k kids : lookupl n k kids = option_map snd (lookupe n k kids).
Proof. induction kids as [|[m v] r IH]; cbn [lookupl lookupe]; [reflexivity|]. destruct (kcmp n k m (lkind v)); auto. Qed.
Lemma lookup_name_e n k kids : lookup_name n k kids = match lookupe n k kids with Some (m, _) => m | None => n end.
Proof. induction kids as [|[m v] r IH]; cbn [lookup_name lookupe]; [reflexivity|]. destruct (kcmp n k m (lkind v)); auto. Qed.
Lemma lookup_v n k kids : lookup n k kids = option_map snd (lookupv n k kids).
Proof. induction kids as [|[m v] r IH]; cbn [lookup lookupv]; [reflexivity|]. destruct (kcmp n k m (kind v)); auto. Qed.

Lemma lookupe_key n k kids m v : lookupe n k kids = Some (m, v) -> kcmp n k m (lkind v) = Eq /\ In (m, v) kids.
Proof.
  induction kids as [|[m' v'] r IH]; cbn [lookupe]; [discriminate|].
  destruct (kcmp n k m' (lkind v')) eqn:E; intros H.
  - inversion H; subst. split; [exact E|left; reflexivity].
  - apply IH in H as [H1 H2]. split; [exact H1|right; exact H2].
  - apply IH in H as [H1 H2]. split; [exact H1|right; exact H2].
Qed.
Lemma lookupv_key n k kids m v : lookupv n k kids = Some (m, v) -> kcmp n k m (kind v) = Eq /\ In (m, v) kids.
Proof.
  induction kids as [|[m' v'] r IH]; cbn [lookupv]; [discriminate|].
  destruct (kcmp n k m' (kind v')) eqn:E; intros H.
  - inversion H; subst. split; [exact E|left; reflexivity].
  - apply IH in H as [H1 H2]. split; [exact H1|right; exact H2].
  - apply IH in H as [H1 H2]. split; [exact H1|right; exact H2].
Qed.

Lemma lookupe_app n k a b : lookupe n k (a ++ b) = match lookupe n k a with Some x => Some x | None => lookupe n k b end.
Proof. induction a as [|[m v] r IH]; cbn [app lookupe]; [reflexivity|]. destruct (kcmp n k m (lkind v)); auto. Qed.

Lemma lookupe_none_gt n k l : all_gt (n, k) (map lkey l) -> lookupe n k l = None.
Proof.
  induction l as [|[m v] r IH]; cbn [map lookupe]; [reflexivity|]. intros H. inversion H as [|? ? H1 H2]; subst.
  unfold kc, lkey in H1. cbn [fst snd] in H1. rewrite H1. apply IH. exact H2.
Qed.
Lemma lookupe_none_lt n k l : all_lt (n, k) (map lkey l) -> lookupe n k l = None.
Proof.
  induction l as [|[m v] r IH]; cbn [map lookupe]; [reflexivity|]. intros H. inversion H as [|? ? H1 H2]; subst.
  unfold kc, lkey in H1. cbn [fst snd] in H1. apply kcmp_lt_gt in H1. rewrite H1. apply IH. exact H2.
Qed.
Lemma lookupv_none_gt n k l : all_gt (n, k) (map vkey l) -> lookupv n k l = None.
Proof.
  induction l as [|[m v] r IH]; cbn [map lookupv]; [reflexivity|]. intros H. inversion H as [|? ? H1 H2]; subst.
  unfold kc, vkey in H1. cbn [fst snd] in H1. rewrite H1. apply IH. exact H2.
Qed.

Lemma lookupe_In l : ksorted (map lkey l) -> forall m c, In (m, c) l -> lookupe m (lkind c) l = Some (m, c).
Proof.
  induction l as [|[m' v'] r IH]; cbn [map ksorted lookupe]; intros Hs m c Hin; [destruct Hin|].
  destruct Hs as [H1 H2]. destruct Hin as [Hin|Hin].
  - inversion Hin; subst. rewrite kcmp_refl. reflexivity.
  - assert (kcmp m' (lkind v') m (lkind c) = Lt) as L.
    { unfold all_gt in H1. rewrite Forall_forall in H1. apply (H1 (lkey (m, c))). apply in_map. exact Hin. }
    apply kcmp_lt_gt in L. rewrite L. apply IH; assumption.
Qed.
Lemma lookupv_In l : ksorted (map vkey l) -> forall m c, In (m, c) l -> lookupv m (kind c) l = Some (m, c).
Proof.
  induction l as [|[m' v'] r IH]; cbn [map ksorted lookupv]; intros Hs m c Hin; [destruct Hin|].
  destruct Hs as [H1 H2]. destruct Hin as [Hin|Hin].
  - inversion Hin; subst. rewrite kcmp_refl. reflexivity.
  - assert (kcmp m' (kind v') m (kind c) = Lt) as L.
    { unfold all_gt in H1. rewrite Forall_forall in H1. apply (H1 (vkey (m, c))). apply in_map. exact Hin. }
    apply kcmp_lt_gt in L. rewrite L. apply IH; assumption.
Qed.

(* lookups only depend on the key up to Eq *)
Lemma lookupe_eq n k n' k' l : kcmp n k n' k' = Eq -> lookupe n k l = lookupe n' k' l.
Proof.
  intros H. induction l as [|[m v] r IH]; cbn [lookupe]; [reflexivity|].
  rewrite (kcmp_eq_l _ _ _ _ m (lkind v) H), IH. reflexivity.
Qed.
Lemma lookupv_eq n k n' k' l : kcmp n k n' k' = Eq -> lookupv n k l = lookupv n' k' l.
Proof.
  intros H. induction l as [|[m v] r IH]; cbn [lookupv]; [reflexivity|].
  rewrite (kcmp_eq_l _ _ _ _ m (kind v) H), IH. reflexivity.
Qed.

(* ---------- revert_all, flat ---------- *)
Definition rev_entry (path : str) (mc : str * lnode) : option (str * lnode) :=
  match fst (revert (pjoin path (fst mc)) (snd mc)) with Some y => Some (fst mc, y) | None => None end.

Lemma revert_all_lookupe path l : ksorted (map lkey l) -> forall n k,
  lookupe n k (t1 (revert_all path l)) = match lookupe n k l with Some mc => rev_entry path mc | None => None end.
Proof.
  induction l as [|[m x] r IH]; cbn [map ksorted]; intros Hs n k; [reflexivity|]. destruct Hs as [H1 H2].
  cbn [revert_all lookupe].
  assert (rev_entry path (m, x) = match fst (revert (pjoin path m) x) with Some y => Some (m, y) | None => None end) as Er by reflexivity.
  destruct (revert (pjoin path m) x) as [[y|] e1] eqn:E; rewrite (triple_eta (revert_all path r)); cbn [t1 fst snd] in *.
  - cbn [lookupe]. apply revert_kind in E as [E _]. rewrite E.
    destruct (kcmp n k m (lkind x)); [symmetry; exact Er|apply IH; exact H2|apply IH; exact H2].
  - fold (t1 (revert_all path r)). rewrite (IH H2). destruct (kcmp n k m (lkind x)) eqn:Ek; try reflexivity.
    rewrite Er. rewrite (lookupe_none_gt n k r); [reflexivity|]. eapply all_gt_eq; [|exact H1]. exact Ek.
Qed.

Lemma revert_all_events path l : t2 (revert_all path l) = flat_map (fun mc => snd (revert (pjoin path (fst mc)) (snd mc))) l.
Proof.
  induction l as [|[m x] r IH]; [reflexivity|]. cbn [revert_all flat_map fst snd]. rewrite <- IH.
  destruct (revert (pjoin path m) x) as [[y|] e1]; rewrite (triple_eta (revert_all path r)); reflexivity.
Qed.

Lemma revert_all_md path l : t3 (revert_all path l) = existsb (fun mc => negb (lspec (snd mc))) l.
Proof.
  induction l as [|[m x] r IH]; [reflexivity|]. cbn [revert_all existsb fst snd]. rewrite <- IH.
  destruct (revert (pjoin path m) x) as [[y|] e1] eqn:E; rewrite (triple_eta (revert_all path r)); cbn [t3 snd].
  - apply revert_kind in E as [_ E]. rewrite E. reflexivity.
  - apply revert_spec in E. rewrite E. reflexivity.
Qed.

Lemma all_lt_eq' n k n' k' l : kcmp n k n' k' = Eq -> all_lt (n', k') l -> all_lt (n, k) l.
Proof. intros H. apply all_lt_eq. apply (kc_eq_sym (n, k) (n', k')). exact H. Qed.
Lemma all_gt_eq' n k n' k' l : kcmp n k n' k' = Eq -> all_gt (n', k') l -> all_gt (n, k) l.
Proof. intros H. apply all_gt_eq. exact H. Qed.
Lemma all_gt_trans' n k n' k' l : kcmp n k n' k' = Lt -> all_gt (n', k') l -> all_gt (n, k) l.
Proof. intros H. apply all_gt_trans. exact H. Qed.
Lemma all_lt_trans' n k n' k' l : kcmp n' k' n k = Lt -> all_lt (n', k') l -> all_lt (n, k) l.
Proof. intros H. unfold all_lt. apply Forall_impl. intros a Ha. eapply kc_lt_trans; [exact Ha|exact H]. Qed.

(* ---------- the flat description ---------- *)
Section Walk.
  Variable mrg : str -> lnode -> val -> lnode * list ev.
  Variable path : str.
  Hypothesis Hk : forall p t s, lkind (fst (mrg p t s)) = kind s.

  Definition new_entry (ts : list (str * lnode)) (ss : list (str * val)) (n : str) (k : N) : option (str * lnode) :=
    match lookupv n k ss with
    | Some (ks, s') => Some (match lookupe n k ts with Some (m, t) => (m, fst (mrg (pjoin path m) t s')) | None => (ks, splice s') end)
    | None => match lookupe n k ts with Some mc => rev_entry path mc | None => None end
    end.
  Definition ev_entry (ss : list (str * val)) (mc : str * lnode) : list ev :=
    match lookupv (fst mc) (lkind (snd mc)) ss with
    | Some (_, s') => snd (mrg (pjoin path (fst mc)) (snd mc) s')
    | None => snd (revert (pjoin path (fst mc)) (snd mc))
    end.
  Definition md_spec (ts : list (str * lnode)) (ss : list (str * val)) : bool :=
    existsb (fun mc => is_none (lookupv (fst mc) (lkind (snd mc)) ss) && negb (lspec (snd mc))) ts
    || existsb (fun nv => is_none (lookupe (fst nv) (kind (snd nv)) ts)) ss.

  Lemma flat_map_ext_in {A B} (f g : A -> list B) l : (forall x, In x l -> f x = g x) -> flat_map f l = flat_map g l.
  Proof. induction l as [|a l IH]; cbn [flat_map]; intros H; [reflexivity|]. rewrite (H a (or_introl eq_refl)), IH; [reflexivity|]. intros; apply H; right; assumption. Qed.
  Lemma existsb_ext_in {A} (f g : A -> bool) l : (forall x, In x l -> f x = g x) -> existsb f l = existsb g l.
  Proof. induction l as [|a l IH]; cbn [existsb]; intros H; [reflexivity|]. rewrite (H a (or_introl eq_refl)), IH; [reflexivity|]. intros; apply H; right; assumption. Qed.

  Lemma in_all_gt (K : key) l m c : all_gt K (map lkey l) -> In (m, c) l -> kcmp (fst K) (snd K) m (lkind c) = Lt.
  Proof. intros H Hin. unfold all_gt in H. rewrite Forall_forall in H. apply (H (lkey (m, c))). apply in_map. exact Hin. Qed.
  Lemma in_all_lt (K : key) l m c : all_lt K (map lkey l) -> In (m, c) l -> kcmp m (lkind c) (fst K) (snd K) = Lt.
  Proof. intros H Hin. unfold all_lt in H. rewrite Forall_forall in H. apply (H (lkey (m, c))). apply in_map. exact Hin. Qed.
  Lemma in_all_gt_v (K : key) l m c : all_gt K (map vkey l) -> In (m, c) l -> kcmp (fst K) (snd K) m (kind c) = Lt.
  Proof. intros H Hin. unfold all_gt in H. rewrite Forall_forall in H. apply (H (vkey (m, c))). apply in_map. exact Hin. Qed.

  Theorem mk_char : forall ss ts, ksorted (map lkey ts) -> ksorted (map vkey ss) ->
    (forall n k, lookupe n k (t1 (mk_gen mrg path ts ss)) = new_entry ts ss n k) /\
    t2 (mk_gen mrg path ts ss) = flat_map (ev_entry ss) ts /\
    t3 (mk_gen mrg path ts ss) = md_spec ts ss.
  Proof.
    induction ss as [|[ks s'] ss' IH]; intros ts Ht Hs.
    - rewrite mk_gen_nil. split; [|split].
      + intros n k. unfold new_entry. cbn [lookupv]. apply revert_all_lookupe. exact Ht.
      + rewrite revert_all_events. reflexivity.
      + rewrite revert_all_md. unfold md_spec. cbn [existsb lookupv is_none andb]. rewrite orb_false_r. reflexivity.
    - cbn [map ksorted] in Hs. destruct Hs as [Hs1 Hs2]. change (vkey (ks, s')) with (ks, kind s') in Hs1.
      destruct (span_lt ks (kind s') ts) as [lo hi] eqn:Es.
      destruct (span_lt_spec _ _ _ _ _ Es) as (Ets & Hlo & Hhi).
      pose proof Ht as Ht0. rewrite Ets, map_app in Ht. apply ksorted_app in Ht as (Ht1 & Ht2 & Ht3).
      pose proof (revert_all_lt path _ _ Hlo) as Hlo'.
      (* entries below K are not in the file *)
      assert (forall m c, In (m, c) lo -> lookupv m (lkind c) ((ks, s') :: ss') = None) as Flo.
      { intros m c Hin. pose proof (in_all_lt _ lo m c Hlo Hin) as L. cbn [fst snd] in L. cbn [lookupv]. rewrite L.
        apply lookupv_none_gt. eapply all_gt_trans'; [exact L|exact Hs1]. }
      assert (t2 (revert_all path lo) = flat_map (ev_entry ((ks, s') :: ss')) lo) as Elo.
      { rewrite revert_all_events. apply flat_map_ext_in. intros [m c] Hin. unfold ev_entry. cbn [fst snd]. rewrite (Flo m c Hin). reflexivity. }
      assert (t3 (revert_all path lo) = existsb (fun mc => is_none (lookupv (fst mc) (lkind (snd mc)) ((ks, s') :: ss')) && negb (lspec (snd mc))) lo) as Mlo.
      { rewrite revert_all_md. apply existsb_ext_in. intros [m c] Hin. cbn [fst snd]. rewrite (Flo m c Hin). reflexivity. }
      (* entries above K look past the head of the file list *)
      assert (forall (l : list (str * lnode)) m c, all_gt (ks, kind s') (map lkey l) -> In (m, c) l -> lookupv m (lkind c) ((ks, s') :: ss') = lookupv m (lkind c) ss') as Fhi.
      { intros l m c Hg Hin. pose proof (in_all_gt _ l m c Hg Hin) as L. cbn [fst snd] in L. apply kcmp_lt_gt in L. cbn [lookupv]. rewrite L. reflexivity. }
      assert (forall n k, lookupe n k lo = None -> lookupe n k ts = lookupe n k hi) as Fts.
      { intros n k Hn. rewrite Ets, lookupe_app, Hn. reflexivity. }
      assert (forall n k, kcmp n k ks (kind s') = Gt -> all_lt (n, k) (map lkey lo) /\ all_lt (n, k) (map lkey (t1 (revert_all path lo)))) as Fgt.
      { intros n k En. apply kcmp_lt_gt in En. split; eapply all_lt_trans'; eassumption. }
      destruct (hi_cases ks (kind s') hi) as [(kt & t' & hi' & -> & Ek)|Hne].
      + (* the file entry meets a live entry *)
        rewrite (mk_gen_cons_eq _ _ _ _ _ _ _ _ _ _ Es Ek). cbn [t1 t2 t3 fst snd].
        cbn [map ksorted] in Ht2. destruct Ht2 as [Ht2a Ht2b].
        assert (all_gt (ks, kind s') (map lkey hi')) as Hg by (eapply all_gt_eq'; [apply kcmp_eq_sym; exact Ek|exact Ht2a]).
        destruct (IH hi' Ht2b Hs2) as (IH1 & IH2 & IH3).
        assert (lookupe ks (kind s') ts = Some (kt, t')) as Lk.
        { rewrite Fts by (apply lookupe_none_lt; exact Hlo). cbn [lookupe]. rewrite (kcmp_eq_sym _ _ _ _ Ek). reflexivity. }
        assert (forall n k, kcmp n k kt (kind s') = kcmp n k ks (kind s')) as Ekt.
        { intros n k. apply kcmp_eq_r. apply kcmp_eq in Ek as [Ek1 Ek2]. apply kcmp_eq_intro. exact Ek1. }
        assert (lkind t' = kind s') as Ekind by (apply kcmp_eq in Ek as [_ Ek2]; exact Ek2).
        split; [|split].
        * intros n k. unfold new_entry. rewrite lookupe_app. cbn [lookupv lookupe].
          rewrite Hk, Ekt. destruct (kcmp n k ks (kind s')) eqn:En.
          -- rewrite (lookupe_none_lt n k) by (eapply all_lt_eq'; [exact En|exact Hlo']).
             rewrite (lookupe_eq n k ks (kind s') ts En), Lk. reflexivity.
          -- (* below K: only lo matters *)
             rewrite (lookupv_none_gt n k ss') by (eapply all_gt_trans'; [exact En|exact Hs1]).
             rewrite revert_all_lookupe by exact Ht1.
             rewrite (lookupe_none_gt n k (t1 (mk_gen mrg path hi' ss')))
               by (apply mk_keys_gt; [exact Hk|eapply all_gt_trans'; [exact En|exact Hg]|eapply all_gt_trans'; [exact En|exact Hs1]]).
             rewrite Ets, lookupe_app. destruct (lookupe n k lo) as [mc|]; [destruct (rev_entry path mc); reflexivity|].
             cbn [lookupe]. rewrite Ekind, Ekt, En.
             rewrite (lookupe_none_gt n k hi'); [reflexivity|]. eapply all_gt_trans'; [exact En|exact Hg].
          -- (* above K *)
             destruct (Fgt n k En) as [G1 G2].
             rewrite (lookupe_none_lt n k (t1 (revert_all path lo))) by exact G2.
             rewrite IH1. unfold new_entry.
             rewrite (Fts n k) by (apply lookupe_none_lt; exact G1).
             cbn [lookupe]. rewrite Ekind, Ekt, En. reflexivity.
        * assert (ev_entry ((ks, s') :: ss') (kt, t') = snd (mrg (pjoin path kt) t' s')) as Ee
            by (unfold ev_entry; cbn [fst snd lookupv]; rewrite Ek; reflexivity).
          rewrite Ets, flat_map_app, Elo. f_equal. cbn [flat_map]. rewrite Ee. f_equal.
          rewrite IH2. apply flat_map_ext_in. intros [m c] Hin. unfold ev_entry. cbn [fst snd]. rewrite (Fhi hi' m c Hg Hin). reflexivity.
        * rewrite IH3, Mlo. unfold md_spec.
          assert (existsb (fun mc => is_none (lookupv (fst mc) (lkind (snd mc)) ((ks, s') :: ss')) && negb (lspec (snd mc))) ts
                  = existsb (fun mc => is_none (lookupv (fst mc) (lkind (snd mc)) ((ks, s') :: ss')) && negb (lspec (snd mc))) lo
                    || existsb (fun mc => is_none (lookupv (fst mc) (lkind (snd mc)) ss') && negb (lspec (snd mc))) hi') as A1.
          { rewrite Ets, existsb_app. f_equal. cbn [existsb fst snd].
            replace (lookupv kt (lkind t') ((ks, s') :: ss')) with (Some (ks, s')) by (cbn [lookupv]; rewrite Ek; reflexivity).
            cbn [is_none andb orb]. apply existsb_ext_in. intros [m c] Hin. cbn [fst snd]. rewrite (Fhi hi' m c Hg Hin). reflexivity. }
          assert (existsb (fun nv => is_none (lookupe (fst nv) (kind (snd nv)) ts)) ((ks, s') :: ss')
                  = existsb (fun nv => is_none (lookupe (fst nv) (kind (snd nv)) hi')) ss') as A2.
          { cbn [existsb fst snd]. rewrite Lk. cbn [is_none orb]. apply existsb_ext_in. intros [m c] Hin. cbn [fst snd].
            pose proof (in_all_gt_v _ ss' m c Hs1 Hin) as L. cbn [fst snd] in L. apply kcmp_lt_gt in L.
            destruct (Fgt m (kind c) L) as [G1 G2].
            rewrite (Fts m (kind c)) by (apply lookupe_none_lt; exact G1).
            cbn [lookupe]. rewrite Ekind, Ekt, L. reflexivity. }
          rewrite A1, A2, orb_assoc. reflexivity.
      + (* the file entry is new *)
        rewrite (mk_gen_cons_ne _ _ _ _ _ _ _ _ Es Hne). cbn [t1 t2 t3 fst snd].
        assert (all_gt (ks, kind s') (map lkey hi)) as Hg by (apply head_ne_gt; assumption).
        destruct (IH hi Ht2 Hs2) as (IH1 & IH2 & IH3).
        assert (lookupe ks (kind s') ts = None) as Lk.
        { rewrite Fts by (apply lookupe_none_lt; exact Hlo). apply lookupe_none_gt. exact Hg. }
        split; [|split].
        * intros n k. unfold new_entry. rewrite lookupe_app. cbn [lookupv lookupe]. rewrite splice_kind.
          destruct (kcmp n k ks (kind s')) eqn:En.
          -- rewrite (lookupe_none_lt n k) by (eapply all_lt_eq'; [exact En|exact Hlo']).
             rewrite (lookupe_eq n k ks (kind s') ts En), Lk. reflexivity.
          -- rewrite (lookupv_none_gt n k ss') by (eapply all_gt_trans'; [exact En|exact Hs1]).
             rewrite revert_all_lookupe by exact Ht1.
             rewrite (lookupe_none_gt n k (t1 (mk_gen mrg path hi ss')))
               by (apply mk_keys_gt; [exact Hk|eapply all_gt_trans'; [exact En|exact Hg]|eapply all_gt_trans'; [exact En|exact Hs1]]).
             rewrite Ets, lookupe_app. destruct (lookupe n k lo) as [mc|]; [destruct (rev_entry path mc); reflexivity|].
             rewrite (lookupe_none_gt n k hi); [reflexivity|]. eapply all_gt_trans'; [exact En|exact Hg].
          -- destruct (Fgt n k En) as [G1 G2].
             rewrite (lookupe_none_lt n k (t1 (revert_all path lo))) by exact G2.
             rewrite IH1. unfold new_entry.
             rewrite (Fts n k) by (apply lookupe_none_lt; exact G1).
             reflexivity.
        * rewrite Ets, flat_map_app, Elo. f_equal.
          rewrite IH2. apply flat_map_ext_in. intros [m c] Hin. unfold ev_entry. cbn [fst snd]. rewrite (Fhi hi m c Hg Hin). reflexivity.
        * unfold md_spec. cbn [existsb fst snd]. rewrite Lk. cbn [is_none orb]. rewrite orb_true_r. reflexivity.
  Qed.
End Walk.
