(* "+x is sent when such a client asked for host hiding" and "challenge texts are relayed to that client only".

   `plus_x_exactly_when_asked`: the reply of an awaited service makes the daemon write an `M <id> <addr> <port> :+x`
   line iff the reply is "OK <account>..." with a non-empty account, the service is not a dronecheck, and the client's
   password modes asked for +x or +! (hh / ho); the line is then the first one written, and the only M line.
   `reply_lines_name_only_that_client`: every client-addressed line written for a reply carries the id, address text
   and port of the request the reply was routed to; `reply_step_lines_name_tagged_client` says the same for the X / x
   input line as a whole, in terms of the id in the routing tag. *)
From Coq Require Import List NArith ZArith Bool Strings.Byte Strings.String Lia.
Import ListNotations.
Require Import Params Iauth IauthFacts Mon01 Stray Wf.
Local Open Scope list_scope.

(* an M (mode) line *)
Definition is_M (o : out) : bool := match o with OC k _ _ _ _ => beq k x4d | _ => false end.
Definition noM (l : list out) : Prop := Forall (fun o => is_M o = false) l.

Lemma noM_app a b : noM a -> noM b -> noM (a ++ b).
Proof. intros Ha Hb. apply Forall_app. split; assumption. Qed.

Lemma is_M_OC i a p rest : is_M (OC x4d i a p rest) = true.
Proof. reflexivity. Qed.

Lemma noM_not_in l i a p rest : noM l -> ~ In (OC x4d i a p rest) l.
Proof. intros H Hin. unfold noM in H. rewrite Forall_forall in H. specialize (H _ Hin). discriminate. Qed.

(* ---------- the gate writes D / R, d, and the trusted-user U line: never M ---------- *)
Lemma classify_noM ss rs r : noM (fst (classify ss rs r)).
Proof.
  induction rs as [|ru rest IH]; cbn [classify]; [constructor|].
  destruct (rule_matches ss ru r); [|exact IH]. cbv zeta. cbn [fst].
  match goal with |- noM (if ?b then _ else _) => destruct b end; [|constructor].
  constructor; [reflexivity|constructor].
Qed.

Lemma gate_noM c tb r : noM (snd (gate c tb r)).
Proof.
  unfold gate. destruct ((holds r =? 0)%Z && complete c r); [|constructor].
  destruct ((soft r =? 0)%Z || f_tout r).
  - pose proof (classify_noM (slots tb) (rules tb) r) as C.
    destruct (classify (slots tb) (rules tb) r) as [extra k]. cbn [fst snd] in *.
    apply noM_app; [exact C|]. constructor; [|constructor]. destruct (acct r); reflexivity.
  - destruct (negb (f_sdone r)); cbn [snd]; [|constructor]. constructor; [reflexivity|constructor].
Qed.

(* the output of the local helper `fin` of `reply` *)
Lemma fin_outs c tb r1 (pre : list out) (e : list eff) :
  snd (fst (let '(r', g) := gate c tb r1 in (r', pre ++ g, e))) = pre ++ snd (gate c tb r1).
Proof. destruct (gate c tb r1) as [r' g]. reflexivity. Qed.

(* ---------- "OK" and "OK <something>" are different answers ---------- *)
Lemma seq_eq_OK_not_prefix tx : seq_eq tx (S_ "OK") = true -> prefix (S_ "OK ") tx = false.
Proof.
  change (S_ "OK") with [x4f; x4b]. change (S_ "OK ") with [x4f; x4b; x20].
  destruct tx as [|a [|b [|d tx]]]; cbn [seq_eq prefix]; intros H; rewrite ?andb_false_r in *; try reflexivity; discriminate.
Qed.

(* when the M line is due *)
Definition plus_x_due (t : stype) (r : req) (tx : str) : bool :=
  prefix (S_ "OK ") tx && nonempty (upto sp (skipn 3 tx)) && negb (is_drone t) && (hh r || ho r).

(* the lines written for a reply: the M line first when it is due, then only lines without M *)
Lemma reply_outs_M c tb r svcn tx slot t :
  find_slot (slots tb) 0 svcn (refm r) = Some (slot, t) ->
  exists rest, noM rest /\
    snd (fst (reply c tb r svcn (Some tx))) = (if plus_x_due t r tx then [oc x4d r (S_ " :+x")] else []) ++ rest.
Proof.
  intros Hf. unfold reply, plus_x_due. rewrite Hf. cbv beta zeta.
  destruct (seq_eq tx (S_ "OK")) eqn:E0.
  { rewrite (seq_eq_OK_not_prefix tx E0). cbn [andb]. rewrite fin_outs. eexists. split; [|reflexivity]. apply gate_noM. }
  destruct (prefix (S_ "OK ") tx) eqn:E1; cbn [andb].
  { destruct (nonempty (upto sp (skipn 3 tx))); cbn [negb orb andb].
    - destruct (is_drone t); cbn [negb andb].
      + rewrite fin_outs. eexists. split; [|reflexivity]. apply gate_noM.
      + rewrite fin_outs. destruct (hh r || ho r); eexists; (split; [|reflexivity]); apply gate_noM.
    - rewrite fin_outs. eexists. split; [|reflexivity]. apply gate_noM. }
  destruct (prefix (S_ "NO ") tx).
  { cbn [fst snd app]. eexists. split; [|reflexivity]. constructor; [reflexivity|constructor]. }
  destruct (prefix (S_ "AGAIN ") tx).
  { rewrite fin_outs. cbn [app]. eexists. split; [|reflexivity]. constructor; [reflexivity|apply gate_noM]. }
  destruct (prefix (S_ "MORE ") tx).
  { rewrite fin_outs. cbn [app]. eexists. split; [|reflexivity]. constructor; [reflexivity|apply gate_noM]. }
  cbn [fst snd app]. eexists. split; [|reflexivity]. constructor.
Qed.

Theorem plus_x_exactly_when_asked c tb r svcn tx slot t :
  find_slot (slots tb) 0 svcn (refm r) = Some (slot, t) ->
  let outs := snd (fst (reply c tb r svcn (Some tx))) in
  let due := prefix (S_ "OK ") tx = true /\ nonempty (upto sp (skipn 3 tx)) = true /\ is_drone t = false /\ hh r || ho r = true in
  (* an M line is written iff it is due *)
  ((exists i a p rest, In (OC x4d i a p rest) outs) <-> due) /\
  (* when due it is exactly `M <id> <addr> <port> :+x` for this client, written first, and there is no second M line *)
  (due -> exists rest, outs = oc x4d r (S_ " :+x") :: rest /\ noM rest) /\
  (* when not due no line is an M line (whatever its text) *)
  (~ due -> noM outs).
Proof.
  intros Hf outs due.
  destruct (reply_outs_M c tb r svcn tx slot t Hf) as [rest [Hn Ho]]. fold outs in Ho.
  assert (plus_x_due t r tx = true <-> due) as D.
  { unfold plus_x_due, due. rewrite !andb_true_iff, negb_true_iff. tauto. }
  split; [|split].
  - split.
    + intros (i & a & p & rest0 & Hin). apply D. destruct (plus_x_due t r tx); [reflexivity|].
      rewrite Ho in Hin. cbn [app] in Hin. destruct (noM_not_in _ _ _ _ _ Hn Hin).
    + intros Hd. apply D in Hd. rewrite Hd in Ho. exists (cid r), (addr r), (port r), (S_ " :+x"). rewrite Ho. left. reflexivity.
  - intros Hd. apply D in Hd. rewrite Hd in Ho. exists rest. split; [exact Ho|exact Hn].
  - intros Hd. destruct (plus_x_due t r tx) eqn:E; [destruct (Hd (proj1 D eq_refl))|]. rewrite Ho. exact Hn.
Qed.

(* an unlinked notice (x line) never produces an M line, nor does a reply from a service that is not awaited *)
Theorem no_plus_x_on_unlinked c tb r svcn : noM (snd (fst (reply c tb r svcn None))).
Proof.
  unfold reply. destruct (find_slot (slots tb) 0 svcn (refm r)) as [[slot t]|]; [|constructor].
  cbv beta zeta. rewrite fin_outs. apply noM_app; [|apply gate_noM]. destruct (is_drone t); [constructor|]. constructor; [reflexivity|constructor].
Qed.

Theorem no_plus_x_when_not_awaited c tb r svcn text :
  find_slot (slots tb) 0 svcn (refm r) = None -> snd (fst (reply c tb r svcn text)) = [].
Proof. intros Hf. rewrite (IauthFacts.stray_reply_noop c tb r svcn text Hf). reflexivity. Qed.

(* ---------- addressing ---------- *)
Theorem reply_lines_name_only_that_client c tb r svcn text k i a p rest :
  In (OC k i a p rest) (snd (fst (reply c tb r svcn text))) -> i = cid r /\ a = addr r /\ p = port r.
Proof.
  intros Hin. destruct (reply_ad r c tb r svcn text (sameid_refl r)) as [_ H].
  rewrite Forall_forall in H. exact (H _ Hin).
Qed.

(* in particular the challenge / retry texts (C lines) of IauthFacts.relay_verbatim *)
Corollary challenge_goes_to_that_client c tb r svcn tx i a p rest :
  In (OC x43 i a p rest) (snd (fst (reply c tb r svcn (Some tx)))) -> i = cid r /\ a = addr r /\ p = port r.
Proof. apply reply_lines_name_only_that_client. Qed.

(* the whole X / x input line: every client-addressed line written names the client whose id is in the routing tag
   (and carries that client's stored address text and port), whatever id the line itself was prefixed with *)
Theorem reply_step_lines_name_tagged_client c s id argv svcn tg tid tser k i a p rest :
  beq (cmdchar argv) x58 || beq (cmdchar argv) x78 = true -> beq (cmdchar argv) x43 = false ->
  arg 1 argv = Some svcn -> arg 2 argv = Some tg -> parse_tag tg = Some (tid, tser) ->
  In (OC k i a p rest) (snd (step c s id argv)) ->
  i = tid /\ exists r, lookup tid (reqs s) = Some r /\ ser r = tser /\ a = addr r /\ p = port r.
Proof.
  intros Hx Hc H1 H2 Ht Hin. rewrite step_eq, Hc, Hx in Hin. unfold xstep, xreply in Hin.
  destruct (negb (with_xq c)); [destruct Hin|]. rewrite H1, H2, Ht in Hin.
  destruct (arg 3 argv) as [tx|]; [|destruct Hin].
  destruct (lookup tid (reqs s)) as [r|] eqn:El; [|destruct Hin].
  destruct (ser r =? tser)%N eqn:Es; [|destruct Hin]. apply N.eqb_eq in Es.
  assert (forall res, In (OC k i a p rest) (snd (finish s (cid r) res)) -> In (OC k i a p rest) (snd (fst res))) as Fin.
  { intros [[ro o] e]. unfold finish. destruct ro; intros H; exact H. }
  apply Fin, reply_lines_name_only_that_client in Hin. destruct Hin as (Hi & Ha & Hp).
  split; [rewrite Hi; apply (lookup_cid _ _ _ El)|]. exists r. tauto.
Qed.

(* the M line of a whole X input line: only for the tagged client, only when that client asked for +x / +! *)
Corollary plus_x_step c s id argv svcn tg tid tser i a p rest :
  beq (cmdchar argv) x58 || beq (cmdchar argv) x78 = true -> beq (cmdchar argv) x43 = false ->
  arg 1 argv = Some svcn -> arg 2 argv = Some tg -> parse_tag tg = Some (tid, tser) ->
  In (OC x4d i a p rest) (snd (step c s id argv)) ->
  i = tid /\ exists r, lookup tid (reqs s) = Some r /\ hh r || ho r = true /\ rest = S_ " :+x".
Proof.
  intros Hx Hc H1 H2 Ht Hin.
  destruct (reply_step_lines_name_tagged_client c s id argv svcn tg tid tser _ _ _ _ _ Hx Hc H1 H2 Ht Hin) as [Hi _].
  split; [exact Hi|].
  rewrite step_eq, Hc, Hx in Hin. unfold xstep, xreply in Hin.
  destruct (negb (with_xq c)); [destruct Hin|]. rewrite H1, H2, Ht in Hin.
  destruct (arg 3 argv) as [tx|]; [|destruct Hin].
  destruct (lookup tid (reqs s)) as [r|] eqn:El; [|destruct Hin].
  destruct (ser r =? tser)%N; [|destruct Hin].
  assert (forall res, In (OC x4d i a p rest) (snd (finish s (cid r) res)) -> In (OC x4d i a p rest) (snd (fst res))) as Fin.
  { intros [[ro o] e]. unfold finish. destruct ro; intros H; exact H. }
  apply Fin in Hin. exists r. split; [reflexivity|].
  destruct (beq (cmdchar argv) x58).
  - destruct (find_slot (slots (tb s)) 0 svcn (refm r)) as [[slot t]|] eqn:Ef.
    + destruct (reply_outs_M c (tb s) r svcn tx slot t Ef) as [rest0 [Hn Ho]]. rewrite Ho in Hin.
      destruct (plus_x_due t r tx) eqn:Ed; [|destruct (noM_not_in _ _ _ _ _ Hn Hin)].
      cbn [app] in Hin. destruct Hin as [E|Hin]; [|destruct (noM_not_in _ _ _ _ _ Hn Hin)].
      unfold plus_x_due in Ed. rewrite !andb_true_iff in Ed. split; [tauto|]. inversion E. reflexivity.
    + rewrite (no_plus_x_when_not_awaited c (tb s) r svcn _ Ef) in Hin. destruct Hin.
  - destruct (noM_not_in _ _ _ _ _ (no_plus_x_on_unlinked c (tb s) r svcn) Hin).
Qed.

