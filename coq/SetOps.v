(* Spike: the set container operations over the fuel-free splay (Splay.v), with the threaded chain, count and disposal log. *)
From Coq Require Import List ZArith NArith Bool Lia.
Import ListNotations.
Require Import Splay.
Local Open Scope Z_scope.

Definition el := (Z * N)%type.                 (* key, unique tag *)
Definition cmpk (d : el) (e : el) : Z := match Z.compare (fst d) (fst e) with Lt => -1 | Eq => 0 | Gt => 1 end.
Notation tree := (Splay.tree el).
Notation Leaf := (Splay.Leaf el).
Notation Node := (Splay.Node el).

Record set := { root : tree; chain : list el; count : nat }.
Inductive res := RNone | RFound (e : el) | RInt (n : Z) | RDisposed (e : el).

Definition same (a b : el) : bool := (fst a =? fst b) && (snd a =? snd b)%N.
Fixpoint ins_before (x new : el) (l : list el) : list el :=
  match l with [] => [new] | y :: r => if same x y then new :: l else y :: ins_before x new r end.
Fixpoint ins_after (x new : el) (l : list el) : list el :=
  match l with [] => [new] | y :: r => if same x y then y :: new :: r else y :: ins_after x new r end.
Fixpoint repl (x new : el) (l : list el) : list el :=
  match l with [] => [] | y :: r => if same x y then new :: r else y :: repl x new r end.
Fixpoint del (x : el) (l : list el) : list el :=
  match l with [] => [] | y :: r => if same x y then r else y :: del x r end.
Fixpoint next_of (x : el) (l : list el) : option el :=
  match l with [] => None | y :: r => if same x y then hd_error r else next_of x r end.

Definition empty : set := {| root := Leaf; chain := []; count := 0 |}.

(* returns new set and the log of disposals *)
Definition insert (s : set) (e : el) : set * list el :=
  match root s with
  | Splay.Leaf _ => ({| root := Node Leaf e Leaf; chain := [e]; count := 1 |}, [])
  | _ =>
    match splay el cmpk e (root s) with
    | (Splay.Node _ l k r, c) =>
        if c <? 0 then ({| root := Node l e (Node Leaf k r); chain := ins_before k e (chain s); count := S (count s) |}, [])
        else if c >? 0 then ({| root := Node (Node l k Leaf) e r; chain := ins_after k e (chain s); count := S (count s) |}, [])
        else ({| root := Node l e r; chain := repl k e (chain s); count := count s |}, [k])
    | (Splay.Leaf _, _) => (s, [])
    end
  end.

Definition find (s : set) (d : el) : set * option el :=
  match root s with
  | Splay.Leaf _ => (s, None)
  | _ => match splay el cmpk d (root s) with
         | (Splay.Node _ l k r as t, c) => ({| root := t; chain := chain s; count := count s |}, if c =? 0 then Some k else None)
         | (t, _) => (s, None)
         end
  end.

Definition lower (s : set) (d : el) : set * option el :=
  match root s with
  | Splay.Leaf _ => (s, None)
  | _ => match splay el cmpk d (root s) with
         | (Splay.Node _ l k r as t, c) => ({| root := t; chain := chain s; count := count s |}, if c >? 0 then next_of k (chain s) else Some k)
         | (t, _) => (s, None)
         end
  end.

(* returns (set, removed?, disposal) *)
Definition remove (s : set) (d : el) (no_dispose : bool) : set * bool * list el :=
  match root s with
  | Splay.Leaf _ => (s, false, [])
  | _ => match splay el cmpk d (root s) with
         | (Splay.Node _ l k r as t, c) =>
           if negb (c =? 0) then ({| root := t; chain := chain s; count := count s |}, false, [])
           else
             let nr := match l with
                       | Splay.Leaf _ => r
                       | _ => match splay el cmpk d l with (Splay.Node _ ll lk _, _) => Node ll lk r | (x, _) => x end
                       end in
             ({| root := nr; chain := del k (chain s); count := pred (count s) |}, true, if no_dispose then [] else [k])
         | (t, _) => (s, false, [])
         end
  end.

Definition clear (s : set) (no_dispose : bool) : set * list el := (empty, if no_dispose then [] else chain s).

(* ---------- scripted runs for the differential ---------- *)
Inductive op := OIns (k : Z) | OFind (k : Z) | OLower (k : Z) | ORem (k : Z) (nd : bool) | OClear (nd : bool) | OShow.
Inductive out := XIns | XFind (o : option el) | XLower (o : option el) | XRem (b : bool) | XClear | XDispose (e : el)
               | XShow (t : tree) (c : list el) (n : nat).

Definition step (st : set * N) (o : op) : (set * N) * list out :=
  let '(s, tg) := st in
  match o with
  | OIns k => let tg' := (tg + 1)%N in let '(s', d) := insert s (k, tg') in ((s', tg'), map XDispose d ++ [XIns])
  | OFind k => let '(s', r) := find s (k, 0%N) in ((s', tg), [XFind r])
  | OLower k => let '(s', r) := lower s (k, 0%N) in ((s', tg), [XLower r])
  | ORem k nd => let '(s', b, d) := remove s (k, 0%N) nd in ((s', tg), map XDispose d ++ [XRem b])
  | OClear nd => let '(s', d) := clear s nd in ((s', tg), map XDispose d ++ [XClear])
  | OShow => (st, [XShow (root s) (chain s) (count s)])
  end.
Definition init : set * N := (empty, 0%N).
Definition run_from (st : set * N) (ops : list op) : (set * N) * list out :=
  fold_left (fun acc o => let '(st, outs) := acc in let '(st', o') := step st o in (st', outs ++ o')) ops (st, []).
Definition run (ops : list op) : list out := snd (run_from init ops).
