(* C09: every line on the server channel is a single syntactically valid IAuth message; client messages carry the
   client's id, address text and port. *)
From Coq Require Import List NArith Bool Strings.Byte Lia.
Import ListNotations.
Require Import AddrFull.

(* ====================================================================================================== *)
(* B2 (address part): the printer `ntop` yields a word, the parser `pton` always yields eight groups < 65536 *)
(* ====================================================================================================== *)
Module AddrWf.
Local Open Scope N_scope.

(* ------------------------------------------------------------------ *)
(* Part 1: printer output                                              *)
(* ------------------------------------------------------------------ *)

Definition wch (b : byte) : Prop := 48 <= nb b \/ nb b = 46.          (* in particular not NUL, LF, CR, space *)
Definition addrch (b : byte) : Prop := (48 <= nb b <= 57) \/ (97 <= nb b <= 102) \/ nb b = 58 \/ nb b = 46.
Definition digitch (b : byte) : Prop := 48 <= nb b <= 57.

Lemma nb_byte_of : forall m, (m < 256 /\ nb (byte_of m) = m) \/ (256 <= m /\ nb (byte_of m) = 48).
Proof.
  intros m. unfold byte_of, nb. destruct (Byte.of_N m) as [b|] eqn:E.
  - left. pose proof (@Byte.to_of_N _ _ E) as H. pose proof (Byte.to_N_bounded b). split; [lia|exact H].
  - right. apply Byte.of_N_None_iff in E. split; [lia|reflexivity].
Qed.

Lemma nb_x30 : nb x30 = 48. Proof. reflexivity. Qed.
Lemma nb_colon : nb colon = 58. Proof. reflexivity. Qed.
Lemma nb_dot : nb dot = 46. Proof. reflexivity. Qed.

Lemma hexdigit_ge : forall n, 48 <= nb (hexdigit n) /\ nb (hexdigit n) <> 58.
Proof.
  intros n. unfold hexdigit. destruct (n <? 10) eqn:E.
  - apply N.ltb_lt in E. destruct (nb_byte_of (48 + n)) as [[? H]|[? H]]; rewrite H; lia.
  - apply N.ltb_ge in E. destruct (nb_byte_of (87 + n)) as [[? H]|[? H]]; rewrite H; lia.
Qed.

Lemma hexdigit_lt16 : forall n, n < 16 -> (48 <= nb (hexdigit n) <= 57) \/ (97 <= nb (hexdigit n) <= 102).
Proof.
  intros n Hn. unfold hexdigit. destruct (n <? 10) eqn:E.
  - apply N.ltb_lt in E. destruct (nb_byte_of (48 + n)) as [[? H]|[? H]]; rewrite H; lia.
  - apply N.ltb_ge in E. destruct (nb_byte_of (87 + n)) as [[? H]|[? H]]; rewrite H; lia.
Qed.

Lemma digit_byte : forall n, digitch (byte_of (48 + n mod 10)).
Proof.
  intros n. unfold digitch. assert (Hm : n mod 10 < 10) by (apply N.mod_lt; discriminate).
  generalize dependent (n mod 10). intros m Hm.
  destruct (nb_byte_of (48 + m)) as [[Hb H0]|[Hb H0]]; rewrite H0; lia.
Qed.

Lemma decs_Forall (P : byte -> Prop) : (forall n, P (byte_of (48 + n mod 10))) ->
  forall fuel n acc, Forall P acc -> Forall P (decs fuel n acc).
Proof.
  intros HP. induction fuel; intros n acc Ha; cbn [decs].
  - exact Ha.
  - destruct (n / 10 =? 0).
    + constructor; auto.
    + apply IHfuel. constructor; auto.
Qed.

Lemma decs_ne : forall fuel n acc, acc <> [] -> decs fuel n acc <> [].
Proof.
  induction fuel; intros n acc Ha; cbn [decs].
  - exact Ha.
  - destruct (n / 10 =? 0); [discriminate|]. apply IHfuel. discriminate.
Qed.

Lemma decs_S_ne : forall f n acc, decs (S f) n acc <> [].
Proof.
  intros f n acc. cbn [decs]. destruct (n / 10 =? 0); [discriminate|]. apply decs_ne. discriminate.
Qed.

Lemma dec_ne : forall n, dec n <> [].
Proof. intros n. unfold dec. apply decs_S_ne. Qed.

Lemma dec_digits : forall n, Forall digitch (dec n).
Proof. intros n. unfold dec. apply decs_Forall; [apply digit_byte|constructor]. Qed.

Lemma first_app (P : byte -> Prop) (l1 l2 : str) :
  l1 <> [] -> Forall P l1 -> forall c r, l1 ++ l2 = c :: r -> P c.
Proof.
  intros Hne HF c r. destruct l1 as [|c0 t]; [contradiction|].
  cbn [app]. intros H. injection H as H1 _. subst c0. exact (Forall_inv HF).
Qed.

Lemma hexstr_head : forall x, exists n t, hexstr x = hexdigit n :: t.
Proof.
  intros x. unfold hexstr.
  destruct (_ <=? x); destruct (_ <=? x); destruct (_ <=? x); cbn [app]; eauto.
Qed.

Lemma hexstr_Forall (P : byte -> Prop) : (forall n, P (hexdigit n)) -> forall x, Forall P (hexstr x).
Proof.
  intros HP x. unfold hexstr.
  destruct (_ <=? x); destruct (_ <=? x); destruct (_ <=? x); cbn [app]; repeat constructor; auto.
Qed.

Lemma hexdigit_addrch : forall n, n < 16 -> addrch (hexdigit n).
Proof. intros n Hn. unfold addrch. destruct (hexdigit_lt16 n Hn); tauto. Qed.

Lemma hexstr_addrch : forall x, x < 65536 -> Forall addrch (hexstr x).
Proof.
  intros x Hx. unfold hexstr.
  assert (H1 : x / 4096 < 16) by (apply N.div_lt_upper_bound; lia).
  assert (H2 : forall y, y mod 16 < 16) by (intros; apply N.mod_lt; lia).
  pose proof hexdigit_addrch as HA.
  destruct (_ <=? x); destruct (_ <=? x); destruct (_ <=? x); cbn [app];
    repeat (apply Forall_cons; [apply HA; auto|]); apply Forall_nil.
Qed.

Lemma pr_Forall (P : byte -> Prop) (Q : N -> Prop) :
  P x30 -> P colon -> (forall x, Q x -> Forall P (hexstr x)) ->
  forall gs, Forall Q gs -> forall ii s z skip, Forall P (pr gs ii s z skip).
Proof.
  intros H0 Hc Hh gs HQ. induction HQ as [|x r Hx Hr IH]; intros ii s z skip; cbn [pr].
  - constructor.
  - destruct skip as [|k]; [|apply IH].
    destruct (Nat.ltb 1 z && Nat.eqb ii s).
    + apply Forall_app; split.
      * destruct (Nat.eqb ii 0); repeat constructor; auto.
      * apply Forall_app; split; [repeat constructor; auto|apply IH].
    + apply Forall_app; split; [apply Hh; exact Hx|].
      apply Forall_app; split; [|apply IH].
      destruct (Nat.ltb ii 7); repeat constructor; auto.
Qed.

Lemma wch_digit : forall b, digitch b -> wch b.
Proof. unfold digitch, wch. intros; lia. Qed.
Lemma addrch_digit : forall b, digitch b -> addrch b.
Proof. unfold digitch, addrch. intros; lia. Qed.

Lemma ipv4_text_Forall (P : byte -> Prop) : (forall b, digitch b -> P b) -> P dot ->
  forall a b c d, Forall P (dec a ++ [dot] ++ dec b ++ [dot] ++ dec c ++ [dot] ++ dec d).
Proof.
  intros Hd Hdot a b c d.
  assert (HD : forall n, Forall P (dec n)) by (intros n; eapply Forall_impl; [exact Hd|apply dec_digits]).
  repeat (apply Forall_app; split); auto.
Qed.

Theorem ntop_word : forall gs, gs <> [] ->
  ntop gs <> [] /\ Forall wch (ntop gs) /\ (forall c r, ntop gs = c :: r -> nb c <> 58).
Proof.
  intros gs Hne. unfold ntop. destruct (is_ipv4 gs).
  - split; [|split].
    + pose proof (dec_ne (g gs 6 / 256)) as Hd. destruct (dec (g gs 6 / 256)); [contradiction|discriminate].
    + apply ipv4_text_Forall; [exact wch_digit|right; reflexivity].
    + intros c r H.
      assert (Hc : digitch c) by (eapply first_app; [apply dec_ne|apply dec_digits|exact H]).
      unfold digitch in Hc. lia.
  - destruct (scan gs 0 0 0 0) as [s z]. destruct gs as [|x r0]; [contradiction|].
    assert (HF : Forall wch (pr (x :: r0) 0 s z 0)).
    { apply pr_Forall with (Q := fun _ => True).
      - left. rewrite nb_x30. lia.
      - left. rewrite nb_colon. lia.
      - intros y _. apply hexstr_Forall. intros n. left. apply hexdigit_ge.
      - apply Forall_forall. trivial. }
    split; [|split; [exact HF|]].
    + cbn [pr]. destruct (Nat.ltb 1 z && Nat.eqb 0 s).
      * change (Nat.eqb 0 0) with true. cbn iota. cbn [app]. discriminate.
      * destruct (hexstr_head x) as [n [t Ht]]. rewrite Ht. cbn [app]. discriminate.
    + intros c r. cbn [pr]. destruct (Nat.ltb 1 z && Nat.eqb 0 s).
      * change (Nat.eqb 0 0) with true. cbn iota. cbn [app]. intros H. injection H as H1 _. subst c.
        rewrite nb_x30. lia.
      * destruct (hexstr_head x) as [n [t Ht]]. rewrite Ht. cbn [app]. intros H. injection H as H1 _. subst c.
        apply hexdigit_ge.
Qed.

Theorem ntop_chars : forall gs, length gs = 8%nat -> Forall (fun x => x < 65536) gs -> Forall addrch (ntop gs).
Proof.
  intros gs _ HF. unfold ntop. destruct (is_ipv4 gs).
  - apply ipv4_text_Forall; [exact addrch_digit|]. unfold addrch. rewrite nb_dot. lia.
  - destruct (scan gs 0 0 0 0) as [s z].
    apply pr_Forall with (Q := fun x => x < 65536); auto.
    + unfold addrch. rewrite nb_x30. lia.
    + unfold addrch. rewrite nb_colon. lia.
    + intros x Hx. apply hexstr_addrch. exact Hx.
Qed.

(* ------------------------------------------------------------------ *)
(* Part 2: parser result always has eight groups below 65536           *)
(* ------------------------------------------------------------------ *)

Definition Wf8 (gs : groups) : Prop := length gs = 8%nat /\ Forall (fun x => x < 65536) gs.
Definition Wres (p : pres) : Prop := match p with Unspec => True | Res _ _ gs => Wf8 gs end.

Lemma Forall_firstn' {A} (P : A -> Prop) : forall n l, Forall P l -> Forall P (firstn n l).
Proof.
  induction n; intros l H; cbn [firstn]; [constructor|].
  destruct H; constructor; auto.
Qed.

Lemma Forall_skipn' {A} (P : A -> Prop) : forall n l, Forall P l -> Forall P (skipn n l).
Proof.
  induction n; intros l H; cbn [skipn]; [exact H|].
  destruct H; [constructor|auto].
Qed.

Lemma Forall_repeat' {A} (P : A -> Prop) (a : A) : P a -> forall n, Forall P (repeat a n).
Proof. intros Ha. induction n; cbn [repeat]; constructor; auto. Qed.

Lemma zeros_wf : Wf8 zeros.
Proof.
  unfold zeros. split; [apply repeat_length|]. apply Forall_repeat'. reflexivity.
Qed.

Lemma setg_wf : forall gs i v, Wf8 gs -> (i < 8)%nat -> v < 65536 -> Wf8 (setg gs i v).
Proof.
  intros gs i v [HL HF] Hi Hv. unfold setg. split.
  - rewrite !app_length, firstn_length, skipn_length. cbn [length]. lia.
  - apply Forall_app; split; [apply Forall_firstn'; exact HF|].
    apply Forall_app; split; [|apply Forall_skipn'; exact HF].
    apply Forall_cons; [exact Hv|apply Forall_nil].
Qed.

Lemma fixup_wf : forall gs ii cpos, Wf8 gs -> (ii <= 8)%nat -> (cpos = 8 \/ cpos <= ii)%nat -> Wf8 (fixup gs ii cpos).
Proof.
  intros gs ii cpos [HL HF] Hi Hc. unfold fixup. destruct (Nat.ltb cpos 8) eqn:E; [|split; assumption].
  apply PeanoNat.Nat.ltb_lt in E. split.
  - rewrite !app_length, !firstn_length, repeat_length, skipn_length. lia.
  - apply Forall_app; split; [apply Forall_firstn'; exact HF|].
    apply Forall_app; split; [apply Forall_repeat'; reflexivity|].
    apply Forall_firstn'. apply Forall_skipn'. exact HF.
Qed.

Lemma mod_65536 : forall v, v mod 65536 < 65536.
Proof. intros v. apply N.mod_lt. discriminate. Qed.

Lemma div_65536 : forall v, v < 4294967296 -> v / 65536 < 65536.
Proof. intros v Hv. apply N.div_lt_upper_bound; [discriminate|exact Hv]. Qed.

(* --- the IPv4 helper only ever returns addresses below 2^32 --- *)

Lemma log2_lt32 : forall a, a < 2 ^ 32 -> N.log2 a < 32.
Proof.
  intros a Ha. destruct (N.eq_dec a 0) as [E|E].
  - subst a. reflexivity.
  - apply N.log2_lt_pow2; [apply N.neq_0_lt_0; exact E|exact Ha].
Qed.

Lemma lor_lt32 : forall a b, a < 4294967296 -> b < 4294967296 -> N.lor a b < 4294967296.
Proof.
  intros a b Ha Hb. change 4294967296 with (2 ^ 32) in *.
  destruct (N.eq_dec (N.lor a b) 0) as [E|E].
  - rewrite E. reflexivity.
  - apply N.log2_lt_pow2; [apply N.neq_0_lt_0; exact E|].
    rewrite N.log2_lor. apply N.max_lub_lt; apply log2_lt32; assumption.
Qed.

Definition okip (ip : option N) : Prop := match ip with Some v => v < 4294967296 | None => True end.

Lemma shl_ok : forall part dots, okip (shl part dots).
Proof.
  intros part dots. unfold shl.
  destruct dots as [|[|[|[|?]]]]; cbn [okip]; try exact I; unfold u32; apply N.mod_lt; discriminate.
Qed.

Lemma lor_opt_ok : forall a b, okip a -> okip b -> okip (lor_opt a b).
Proof.
  intros [a|] [b|] Ha Hb; cbn [lor_opt okip] in *; try exact I. apply lor_lt32; assumption.
Qed.

(* the innermost head scrutinee of a (nested) match *)
Ltac scrut t :=
  lazymatch t with
  | match ?c with _ => _ end =>
      lazymatch c with
      | match _ with _ => _ end => scrut c
      | _ => c
      end
  end.

Ltac step_eq :=
  match goal with
  | |- ?t = _ -> _ => let c := scrut t in destruct c eqn:?
  end.

Lemma ip4_ok : forall fuel s ub tr dots pos part ip ln ipo b4,
  okip ip -> ip4 fuel s ub tr dots pos part ip = Some (ln, ipo, b4) -> okip ipo.
Proof.
  induction fuel; intros s ub tr dots pos part ip ln ipo b4 Hip; cbn [ip4]; [discriminate|].
  pose proof (lor_opt_ok _ _ Hip (shl_ok part dots)) as Hl.
  repeat step_eq;
    intros H; first [discriminate H | inversion H; subst; assumption | eapply IHfuel; [|exact H]; assumption].
Qed.

Lemma pton_ip4_ok : forall s ub tr ln ipv b4,
  pton_ip4 s ub tr = Some (ln, Some ipv, b4) -> ipv < 4294967296.
Proof.
  intros s ub tr ln ipv b4. unfold pton_ip4. destruct (hdis s 46); [discriminate|].
  intros H. change (okip (Some ipv)). eapply ip4_ok; [|exact H]. reflexivity.
Qed.

(* --- the IPv6 loop --- *)

Ltac step_w :=
  match goal with
  | |- Wres ?t => let c := scrut t in destruct c eqn:?
  end.

Ltac conv :=
  repeat match goal with
  | H : Nat.ltb _ _ = true |- _ => apply PeanoNat.Nat.ltb_lt in H
  | H : Nat.ltb _ _ = false |- _ => apply PeanoNat.Nat.ltb_ge in H
  | H : Nat.leb _ _ = true |- _ => apply PeanoNat.Nat.leb_le in H
  | H : Nat.leb _ _ = false |- _ => apply PeanoNat.Nat.leb_gt in H
  | H : N.ltb _ _ = true |- _ => apply N.ltb_lt in H
  | H : N.ltb _ _ = false |- _ => apply N.ltb_ge in H
  | H : pton_ip4 _ _ _ = Some (_, Some _, _) |- _ => apply pton_ip4_ok in H
  end.

Ltac leaf :=
  cbn [Wres];
  repeat first [ exact I | assumption | apply zeros_wf | apply fixup_wf | apply setg_wf
               | apply mod_65536 | apply div_65536 | lia ].

Lemma v6_wf : forall fuel s pos ub tr part ii cpos ps pspos gs bits,
  Wf8 gs -> part < 65536 -> (ii <= 8)%nat -> (cpos = 8 \/ cpos <= ii)%nat ->
  Wres (v6 fuel s pos ub tr part ii cpos ps pspos gs bits).
Proof.
  induction fuel; intros s pos ub tr part ii cpos ps pspos gs bits Hgs Hpart Hii Hc; cbn [v6]; [exact I|].
  repeat step_w; conv; try (apply IHfuel); leaf.
Qed.

Theorem pton_wres : forall input usebits trailing, Wres (pton input usebits trailing).
Proof.
  intros input ub tr. unfold pton. destruct (skipws input) as [s pos]. cbv beta zeta.
  repeat step_w; conv; try (apply v6_wf); leaf.
Qed.

Theorem pton_groups_wf : forall input usebits trailing n b gs, pton input usebits trailing = Res n b gs -> Wf8 gs.
Proof.
  intros input ub tr n b gs H. pose proof (pton_wres input ub tr) as W. rewrite H in W. exact W.
Qed.
End AddrWf.

From Coq Require Import ZArith Strings.String.
Require Import Params.
Import AddrWf.
Require Import Iauth Line Junk.
Local Open Scope list_scope.

(* ====================================================================================================== *)
(* B1: byte classes                                                                                        *)
(* ====================================================================================================== *)
Definition cbyte (b : byte) : Prop := Byte.to_N b <> 10%N /\ Byte.to_N b <> 13%N /\ Byte.to_N b <> 0%N.
Definition nospb (b : byte) : Prop := Byte.to_N b <> 32%N.
Definition clean (s : str) : Prop := Forall cbyte s.                 (* no LF, CR, NUL *)
Definition nosp (s : str) : Prop := Forall nospb s.                  (* no space *)
Definition word (s : str) : Prop :=
  clean s /\ nosp s /\ s <> [] /\ (forall c r, s = c :: r -> Byte.to_N c <> 58%N).

Definition cbyteb (b : byte) : bool := negb (Byte.to_N b =? 10)%N && negb (Byte.to_N b =? 13)%N && negb (Byte.to_N b =? 0)%N.
Lemma cbyteb_ok b : cbyteb b = true -> cbyte b.
Proof.
  unfold cbyteb, cbyte. intros H. apply andb_true_iff in H as [H H3]. apply andb_true_iff in H as [H1 H2].
  apply negb_true_iff in H1, H2, H3. apply N.eqb_neq in H1, H2, H3. tauto.
Qed.
Lemma cleanb_ok s : forallb cbyteb s = true -> clean s.
Proof. intros H. apply Forall_forall. intros b Hb. apply cbyteb_ok. rewrite forallb_forall in H. apply H; exact Hb. Qed.
Ltac const_clean := apply cleanb_ok; vm_compute; reflexivity.
Ltac const_cbyte := apply cbyteb_ok; vm_compute; reflexivity.

Lemma hi_cbyte b : (48 <= Byte.to_N b)%N -> cbyte b.
Proof. unfold cbyte. lia. Qed.

Lemma Fa_firstn {A} (P : A -> Prop) : forall n l, Forall P l -> Forall P (firstn n l).
Proof. induction n; intros l H; cbn [firstn]; [constructor|]. destruct H; constructor; auto. Qed.
Lemma Fa_skipn {A} (P : A -> Prop) : forall n l, Forall P l -> Forall P (skipn n l).
Proof. induction n; intros l H; cbn [skipn]; [exact H|]. destruct H; [constructor|auto]. Qed.
Lemma Fa_app {A} (P : A -> Prop) a b : Forall P a -> Forall P b -> Forall P (a ++ b).
Proof. intros. apply Forall_app. split; assumption. Qed.
Lemma Fa_tl {A} (P : A -> Prop) l : Forall P l -> Forall P (tl l).
Proof. destruct 1; [constructor|assumption]. Qed.
Lemma Fa_upto (P : byte -> Prop) b : forall s, Forall P s -> Forall P (upto b s).
Proof. induction 1 as [|c r Hc Hr IH]; cbn [upto]; [constructor|]. destruct (beq c b); constructor; assumption. Qed.
Lemma Fa_skipsp (P : byte -> Prop) : forall s, Forall P s -> Forall P (skipsp s).
Proof. induction 1 as [|c r Hc Hr IH]; cbn [skipsp]; [constructor|]. destruct (beq c sp); [exact IH|constructor; assumption]. Qed.

Lemma beq_sp_nospb b : beq b sp = false -> nospb b.
Proof.
  unfold nospb. intros H E. change 32%N with (Byte.to_N sp) in E. apply nb_inj in E. subst b.
  unfold beq in H. rewrite (Byte.byte_dec_lb eq_refl) in H. discriminate.
Qed.
Lemma upto_sp_nosp : forall s, nosp (upto sp s).
Proof. induction s as [|c r IH]; cbn [upto]; [constructor|]. destruct (beq c sp) eqn:E; constructor; [apply beq_sp_nospb; exact E|exact IH]. Qed.

(* ---------- numbers ---------- *)
Lemma digits_P (P : byte -> Prop) dg base : (forall n, P (dg n)) ->
  forall fuel n acc, Forall P acc -> Forall P (Iauth.digits fuel base dg n acc).
Proof.
  intros Hd. induction fuel as [|f IH]; intros n acc Ha; cbn [Iauth.digits]; [exact Ha|]. cbv zeta.
  destruct (n / base =? 0)%N; [constructor; [apply Hd|exact Ha]|]. apply IH. constructor; [apply Hd|exact Ha].
Qed.
Lemma digit_hi n : (48 <= Byte.to_N (digit n))%N.
Proof. unfold digit. destruct (Byte.of_N (48 + n)) eqn:E; [apply Byte.to_of_N in E; lia|vm_compute; discriminate]. Qed.
Lemma hexdigit_hi n : (48 <= Byte.to_N (Iauth.hexdigit n))%N.
Proof.
  unfold Iauth.hexdigit. destruct (Byte.of_N _) eqn:E; [|vm_compute; discriminate].
  apply Byte.to_of_N in E. destruct (n <? 10)%N; lia.
Qed.
Lemma dec_clean n : clean (Iauth.dec n).
Proof. apply digits_P; [intros; apply hi_cbyte, digit_hi|constructor]. Qed.
Lemma hex_clean n : clean (hex n).
Proof. apply digits_P; [intros; apply hi_cbyte, hexdigit_hi|constructor]. Qed.
Lemma decZ_clean z : clean (decZ z).
Proof. destruct z; cbn [decZ]; try apply dec_clean. constructor; [const_cbyte|apply dec_clean]. Qed.
Lemma hexZ32_clean z : clean (hexZ32 z).
Proof. apply hex_clean. Qed.

(* ====================================================================================================== *)
(* output lines                                                                                            *)
(* ====================================================================================================== *)
Definition wf_out (o : out) : Prop :=
  clean (render o) /\
  match o with OC _ _ a _ _ => word a | OX n _ _ _ => word n | ORaw _ => True end.

(* what the producers guarantee about the parts *)
Definition pre_wf (o : out) : Prop :=
  match o with
  | OX n _ _ pl => word n /\ clean pl
  | OC k _ a _ rest => cbyte k /\ word a /\ clean rest
  | ORaw t => clean t
  end.

Lemma pre_wf_out o : pre_wf o -> wf_out o.
Proof.
  destruct o as [n id sr pl|k id a p rest|t]; cbn [pre_wf]; unfold wf_out, render.
  - intros [Hn Hp]. split; [|exact Hn]. apply Fa_firstn.
    repeat first [apply Fa_app | apply Fa_firstn | apply hexZ32_clean | apply hex_clean | exact Hp | exact (proj1 Hn) | const_clean].
  - intros [Hk [Ha Hr]]. split; [|exact Ha]. apply Fa_firstn.
    repeat first [apply Fa_app | apply decZ_clean | apply dec_clean | exact Hr | exact (proj1 Ha) | const_clean ].
    constructor; [exact Hk|const_clean].
  - intros H. split; [apply Fa_firstn; exact H|exact I].
Qed.

(* ====================================================================================================== *)
(* configuration                                                                                           *)
(* ====================================================================================================== *)
Definition wfslot (o : option svc) : Prop := match o with Some s => word (s_name s) | None => True end.
Definition wfrule (ru : rule) : Prop := word (r_name ru) /\ match r_class ru with Some c => word c | None => True end.
Definition WfTabs (tb : tabs) : Prop := Forall wfslot (slots tb) /\ Forall wfrule (rules tb).

(* ====================================================================================================== *)
(* B2/B3: the request invariant and the output lines, function by function                                 *)
(* ====================================================================================================== *)
Section Inv.
(* Pf is the class of bytes allowed in the "token" fields (host, user names, nick, account):
   instantiated below with `cbyte` (only LF/CR/NUL excluded) and with `cbyte /\ nospb` (no space either). *)
Variable Pf : byte -> Prop.
Hypothesis Pf_cbyte : forall b, Pf b -> cbyte b.
Hypothesis Pf_sp : forall b, cbyte b -> beq b sp = false -> Pf b.

Definition WF (r : req) : Prop :=
  word (addr r) /\ Forall Pf (host r) /\ Forall Pf (cliu r) /\ Forall Pf (authu r) /\ Forall Pf (nick r) /\ Forall Pf (acct r) /\
  clean (real r) /\ clean (pw r).
Definition sameid (r r0 : req) : Prop := cid r = cid r0 /\ addr r = addr r0 /\ port r = port r0.
Definition WR (r0 r : req) : Prop := sameid r r0 /\ WF r.
Definition addressed (r0 : req) (o : out) : Prop :=
  match o with OC _ i a p _ => i = cid r0 /\ a = addr r0 /\ p = port r0 | _ => True end.
Definition OK (r0 : req) (o : out) : Prop := pre_wf o /\ addressed r0 o.
Definition RW (r0 : req) (res : option req * list out * list eff) : Prop :=
  match fst (fst res) with Some r' => WR r0 r' | None => True end /\ Forall (OK r0) (snd (fst res)).

Lemma Pf_clean s : Forall Pf s -> clean s.
Proof. apply Forall_impl. exact Pf_cbyte. Qed.

Lemma upto_sp_Pf : forall s, clean s -> Forall Pf (upto sp s).
Proof. induction 1 as [|c r Hc Hr IH]; cbn [upto]; [constructor|]. destruct (beq c sp) eqn:E; constructor; [apply Pf_sp; assumption|exact IH]. Qed.

Ltac wr := unfold WR, sameid, WF in *; cbn [cid addr port host cliu authu nick real acct pw] in *; intuition auto.

Lemma queried_WR r0 r slot : WR r0 r -> WR r0 (queried r slot).
Proof. intros H. unfold queried. wr. Qed.
Lemma continued_WR r0 r slot : WR r0 r -> WR r0 (continued r slot).
Proof. intros H. unfold continued. wr. Qed.
Lemma upd_hold_WR r0 r h s sd : WR r0 r -> WR r0 (upd_hold r h s sd).
Proof. intros H. unfold upd_hold. wr. Qed.
Lemma timed_out_WR r0 r : WR r0 r -> WR r0 (timed_out r).
Proof. intros H. unfold timed_out. wr. Qed.
Lemma set_flags_WR r0 r a b c d e : WR r0 r -> WR r0 (set_flags r a b c d e).
Proof. intros H. unfold set_flags. wr. Qed.
Lemma with_pw_WR r0 r a b h p : WR r0 r -> clean p -> WR r0 (with_pw r a b h p).
Proof. intros H Hp. unfold with_pw. wr. Qed.
Lemma with_fields_WR r0 r h cu au ni re em :
  WR r0 r -> Forall Pf h -> Forall Pf cu -> Forall Pf au -> Forall Pf ni -> clean re -> WR r0 (with_fields r h cu au ni re em).
Proof. intros H H1 H2 H3 H4 H5. unfold with_fields. wr. Qed.
Lemma release_WR r0 r slot mr ok na h :
  WR r0 r -> match na with Some a => Forall Pf a | None => True end -> WR r0 (release r slot mr ok na h).
Proof. intros H Ha. unfold release. cbv zeta. destruct na; wr. Qed.
Lemma WR_host r0 r : WR r0 r -> Forall Pf (host r). Proof. intros H. wr. Qed.
Lemma WR_cliu r0 r : WR r0 r -> Forall Pf (cliu r). Proof. intros H. wr. Qed.
Lemma WR_authu r0 r : WR r0 r -> Forall Pf (authu r). Proof. intros H. wr. Qed.
Lemma WR_nick r0 r : WR r0 r -> Forall Pf (nick r). Proof. intros H. wr. Qed.
Lemma WR_acct r0 r : WR r0 r -> Forall Pf (acct r). Proof. intros H. wr. Qed.
Lemma WR_real r0 r : WR r0 r -> clean (real r). Proof. intros H. wr. Qed.
Lemma WR_pw r0 r : WR r0 r -> clean (pw r). Proof. intros H. wr. Qed.
Lemma WR_addr r0 r : WR r0 r -> word (addr r). Proof. intros H. wr. Qed.
Lemma WR_refl r : WF r -> WR r r.
Proof. intros H. split; [repeat split|exact H]. Qed.

(* ---------- single lines ---------- *)
Lemma oc_ok r0 r k rest : WR r0 r -> cbyte k -> clean rest -> OK r0 (oc k r rest).
Proof. intros H Hk Hr. unfold OK, oc, pre_wf, addressed. pose proof (WR_addr _ _ H). destruct H as [[H1 [H2 H3]] _]. tauto. Qed.
Lemma xline_ok r0 r name pl : word name -> clean pl -> OK r0 (xline name r pl).
Proof. intros Hn Hp. unfold OK, xline, pre_wf, addressed. tauto. Qed.

Lemma username_clean r0 r : WR r0 r -> clean (username r).
Proof.
  intros H. pose proof (Pf_clean _ (WR_authu _ _ H)) as Ha. pose proof (Pf_clean _ (WR_cliu _ _ H)) as Hc.
  unfold username. apply Fa_firstn. destruct (authu r); [|exact Ha].
  destruct (starts (cliu r) x7e); [exact Hc|]. destruct (cliu r); [constructor|]. constructor; [const_cbyte|exact Hc].
Qed.
Lemma hostn_clean r0 r : WR r0 r -> clean (hostn r).
Proof.
  intros H. pose proof (Pf_clean _ (WR_host _ _ H)) as Hh. pose proof (proj1 (WR_addr _ _ H)) as Ha.
  unfold hostn. destruct (host r); [exact Ha|exact Hh].
Qed.

Ltac pieces H :=
  repeat first [apply (username_clean _ _ H) | apply (hostn_clean _ _ H) | apply (WR_real _ _ H) | apply (WR_pw _ _ H)
               | apply (proj1 (WR_addr _ _ H)) | apply (Pf_clean _ (WR_nick _ _ H)) | const_clean | apply Fa_app | apply Fa_firstn].

Lemma check_payload_clean r0 r : WR r0 r -> clean (check_payload r).
Proof. intros H. unfold check_payload. pieces H. Qed.
Lemma login_payload_clean r0 r : WR r0 r -> clean (login_payload r).
Proof. intros H. unfold login_payload. pieces H. Qed.
Lemma login2_payload_clean r0 r : WR r0 r -> clean (login2_payload r).
Proof. intros H. unfold login2_payload. pieces H. Qed.

Lemma query_lines_ok r0 r name t : word name -> WR r0 r -> Forall (OK r0) (query_lines name t r).
Proof.
  intros Hn H. unfold query_lines.
  pose proof (xline_ok r0 r name _ Hn (check_payload_clean _ _ H)).
  pose proof (xline_ok r0 r name _ Hn (login_payload_clean _ _ H)).
  pose proof (xline_ok r0 r name _ Hn (login2_payload_clean _ _ H)).
  apply Fa_app; [destruct t|destruct (nonempty (pw r)); [destruct t|]]; repeat (first [apply Forall_nil | apply Forall_cons]); assumption.
Qed.

(* ---------- query pass, continuation ---------- *)
Lemma qpass_ok r0 ss : Forall wfslot ss -> forall slot ispw r outs efs, WR r0 r -> Forall (OK r0) outs ->
  WR r0 (fst (fst (qpass ss slot ispw r outs efs))) /\ Forall (OK r0) (snd (fst (qpass ss slot ispw r outs efs))).
Proof.
  induction 1 as [|o rest Ho Hrest IH]; intros slot ispw r outs efs Hr Hout; cbn [qpass]; [cbn [fst snd]; tauto|].
  destruct o as [s|]; [|apply IH; assumption].
  destruct (negb (s_conf s) || skip_query (s_type s) slot ispw r); [apply IH; assumption|].
  apply IH; [apply queried_WR; exact Hr|]. apply Fa_app; [exact Hout|]. apply query_lines_ok; [exact Ho|exact Hr].
Qed.

Lemma cont_ok r0 ss t : clean t -> Forall wfslot ss -> forall slot r outs efs, WR r0 r -> Forall (OK r0) outs ->
  WR r0 (fst (fst (cont ss slot t r outs efs))) /\ Forall (OK r0) (snd (fst (cont ss slot t r outs efs))).
Proof.
  intros Ht. induction 1 as [|o rest Ho Hrest IH]; intros slot r outs efs Hr Hout; cbn [cont]; [cbn [fst snd]; tauto|].
  destruct o as [s|]; [|apply IH; assumption].
  destruct (N.testbit (more r) slot && s_conf s); [|apply IH; assumption].
  apply IH; [apply continued_WR; exact Hr|]. apply Fa_app; [exact Hout|]. constructor; [|constructor].
  apply xline_ok; [exact Ho|]. apply Fa_app; [const_clean|exact Ht].
Qed.

(* ---------- class rules and the gate ---------- *)
Lemma classify_ok r0 ss rs r : Forall wfrule rs -> WR r0 r ->
  Forall (OK r0) (fst (classify ss rs r)) /\ clean (snd (classify ss rs r)).
Proof.
  intros Hrs H. induction Hrs as [|ru rest Hru Hrest IH]; cbn [classify]; [split; constructor|].
  destruct (rule_matches ss ru r); [|exact IH]. cbv zeta. cbn [fst snd]. split.
  - match goal with |- Forall _ (if ?b then _ else _) => destruct b end; [|constructor].
    constructor; [|constructor]. apply oc_ok; [exact H|const_cbyte|]. constructor; [const_cbyte|].
    pose proof (Pf_clean _ (WR_cliu _ _ H)) as Hc. destruct (starts (cliu r) x7e); [apply Fa_tl|]; exact Hc.
  - apply Fa_firstn. destruct Hru as [Hn Hc]. destruct (r_class ru); [exact (proj1 Hc)|exact (proj1 Hn)].
Qed.

Lemma gate_ok r0 c tb r : WfTabs tb -> WR r0 r ->
  match fst (gate c tb r) with Some r' => WR r0 r' | None => True end /\ Forall (OK r0) (snd (gate c tb r)).
Proof.
  intros [Hs Hrs] H. unfold gate.
  destruct ((holds r =? 0)%Z && complete c r); [|split; [exact H|constructor]].
  destruct ((soft r =? 0)%Z || f_tout r).
  - pose proof (classify_ok r0 (slots tb) (rules tb) r Hrs H) as [C1 C2].
    destruct (classify (slots tb) (rules tb) r) as [extra k]. cbn [fst snd] in *. split; [exact I|].
    apply Fa_app; [exact C1|]. constructor; [|constructor].
    assert (clean (match k with [] => [] | _ :: _ => sp :: k end)) as Hk by (destruct k; [constructor|constructor; [const_cbyte|exact C2]]).
    pose proof (Pf_clean _ (WR_acct _ _ H)) as Ha.
    destruct (acct r) eqn:E; (apply oc_ok; [exact H|const_cbyte|]); [exact Hk|].
    constructor; [const_cbyte|]. apply Fa_app; [exact Ha|exact Hk].
  - destruct (negb (f_sdone r)); cbn [fst snd]; [|split; [exact H|constructor]].
    split; [apply upd_hold_WR; exact H|]. constructor; [|constructor]. apply oc_ok; [exact H|const_cbyte|constructor].
Qed.

Lemma fin_ok r0 c tb r1 (pre : list out) (e : list eff) : WfTabs tb -> WR r0 r1 -> Forall (OK r0) pre ->
  RW r0 (let '(r', g) := gate c tb r1 in (r', pre ++ g, e)).
Proof.
  intros Ht H Hp. pose proof (gate_ok r0 c tb r1 Ht H) as [G1 G2]. destruct (gate c tb r1) as [r' g].
  unfold RW. cbn [fst snd] in *. split; [exact G1|apply Fa_app; assumption].
Qed.

Lemma gate3_ok r0 c tb r (e : list eff) : WfTabs tb -> WR r0 r -> RW r0 (let '(r2, g) := gate c tb r in (r2, g, e)).
Proof.
  intros Ht H. pose proof (gate_ok r0 c tb r Ht H) as [G1 G2]. destruct (gate c tb r) as [r' g].
  unfold RW. cbn [fst snd] in *. tauto.
Qed.

Lemma after_ok r0 c tb r ispw : WfTabs tb -> WR r0 r -> RW r0 (after c tb r ispw).
Proof.
  intros Ht H. unfold after.
  pose proof (qpass_ok r0 (slots tb) (proj1 Ht) 0%N ispw r [] [] H (Forall_nil _)) as [Q1 Q2].
  destruct (qpass (slots tb) 0%N ispw r [] []) as [[r1 o] efs]. cbn [fst snd] in *.
  apply fin_ok; assumption.
Qed.

(* ---------- passwords ---------- *)
Lemma modes_suffix (P : byte -> Prop) : forall fuel t st sx cx sb cb rest0 a b c d,
  Forall P t -> modes fuel t st sx cx sb cb = Some (rest0, a, b, c, d) -> Forall P rest0.
Proof.
  induction fuel as [|f IH]; intros t st sx cx sb cb rest0 a b c d Ht; cbn [modes]; [discriminate|].
  destruct t as [|x r]; [discriminate|]. inversion Ht; subst.
  destruct (beq x sp); [intros E; inversion E; subst; exact Ht|].
  destruct (beq x x2b); [apply IH; assumption|]. destruct (beq x x2d); [apply IH; assumption|].
  destruct (beq x x78); [destruct st; apply IH; assumption|].
  destruct (beq x x21); [destruct st; apply IH; assumption|]. apply IH; assumption.
Qed.

Lemma password_ok r0 tb r t : WfTabs tb -> clean t -> WR r0 r ->
  WR r0 (fst (fst (password tb r t))) /\ Forall (OK r0) (snd (fst (password tb r t))).
Proof.
  intros Ht Hc H. unfold password.
  destruct ((more r =? 0)%N || negb (nonempty (pw r))); [|apply cont_ok; [exact Hc|exact (proj1 Ht)|exact H|constructor]].
  destruct (negb (starts t x2b || starts t x2d)); [cbn [fst snd]; split; [exact H|constructor]|].
  destruct (modes _ _ _ _ _ _ _) as [[[[[rest0 sx] cx] sb] cb]|] eqn:Em; [|cbn [fst snd]; split; [exact H|constructor]].
  cbv zeta. destruct (negb (has sp (skipsp rest0))); [cbn [fst snd]; split; [exact H|constructor]|].
  apply qpass_ok; [exact (proj1 Ht)| |constructor]. apply with_pw_WR; [exact H|].
  apply Fa_firstn, Fa_skipsp. eapply modes_suffix; [exact Hc|exact Em].
Qed.

(* ---------- replies ---------- *)
Lemma reply_ok r0 c tb r svcn text : WfTabs tb -> match text with Some tx => clean tx | None => True end -> WR r0 r ->
  RW r0 (reply c tb r svcn text).
Proof.
  intros Ht Hx H. unfold reply.
  destruct (find_slot (slots tb) 0 svcn (refm r)) as [[slot t]|]; [|unfold RW; cbn [fst snd]; split; [exact H|constructor]].
  assert (forall mr ok h, WR r0 (release r slot mr ok None h)) as R0 by (intros; apply release_WR; [exact H|exact I]).
  assert (forall rest, clean rest -> OK r0 (oc x43 r (S_ " :" ++ rest))) as O43.
  { intros rest Hr. apply oc_ok; [exact H|const_cbyte|]. apply Fa_app; [const_clean|exact Hr]. }
  cbv beta zeta.
  destruct text as [tx|].
  - destruct (seq_eq tx (S_ "OK")); [apply fin_ok; [exact Ht|apply R0|constructor]|].
    destruct (prefix (S_ "OK ") tx).
    + destruct (negb (nonempty (upto sp (skipn 3 tx))) || is_drone t); [apply fin_ok; [exact Ht|apply R0|constructor]|].
      apply fin_ok; [exact Ht| |].
      * apply release_WR; [exact H|]. apply Fa_firstn, upto_sp_Pf, Fa_skipn. exact Hx.
      * destruct (hh r || ho r); [|constructor]. constructor; [|constructor]. apply oc_ok; [exact H|const_cbyte|const_clean].
    + destruct (prefix (S_ "NO ") tx).
      { unfold RW. cbn [fst snd]. split; [exact I|]. constructor; [|constructor].
        apply oc_ok; [exact H|const_cbyte|]. apply Fa_app; [const_clean|apply Fa_skipn; exact Hx]. }
      destruct (prefix (S_ "AGAIN ") tx).
      { apply fin_ok; [exact Ht|apply R0|]. constructor; [|constructor]. apply O43, Fa_skipn, Hx. }
      destruct (prefix (S_ "MORE ") tx); [|unfold RW; cbn [fst snd]; split; [exact H|constructor]].
      apply fin_ok; [exact Ht|apply R0|]. constructor; [|constructor]. apply O43, Fa_skipn, Hx.
  - apply fin_ok; [exact Ht|apply R0|]. destruct (is_drone t); [constructor|]. constructor; [|constructor]. apply O43. const_clean.
Qed.
End Inv.

(* ====================================================================================================== *)
(* the announced address is always a word; the parser always delivers eight groups                         *)
(* ====================================================================================================== *)
Lemma wch_bytes b : wch b -> cbyte b /\ nospb b.
Proof. unfold wch, cbyte, nospb, AddrFull.nb. lia. Qed.

Theorem ntop_is_word gs : gs <> [] -> word (ntop gs).
Proof.
  intros H. destruct (ntop_word gs H) as [H1 [H2 H3]]. unfold word. repeat split.
  - eapply Forall_impl; [|exact H2]. intros b Hb. apply wch_bytes; exact Hb.
  - eapply Forall_impl; [|exact H2]. intros b Hb. apply wch_bytes; exact Hb.
  - exact H1.
  - intros c r E. exact (H3 c r E).
Qed.

Corollary ntop_word8 gs : List.length gs = 8%nat -> Forall (fun x => (x < 65536)%N) gs -> word (ntop gs).
Proof. intros H _. apply ntop_is_word. intros E. subst gs. discriminate. Qed.

Lemma announce_word a : word (snd (announce_addr a)) /\ Wf8 (fst (announce_addr a)).
Proof.
  unfold announce_addr. destruct (pton a false false) as [|n b gs] eqn:E; cbn [fst snd].
  - split; [apply ntop_is_word; discriminate|apply zeros_wf].
  - pose proof (pton_groups_wf _ _ _ _ _ _ E) as W. split; [|exact W]. apply ntop_is_word. intros Z. subst gs. destruct W as [W _]. discriminate.
Qed.

(* ====================================================================================================== *)
(* table level and the step                                                                                *)
(* ====================================================================================================== *)
Lemma remove_forall (P : req -> Prop) id l : Forall P l -> Forall P (remove id l).
Proof. induction 1 as [|r t Hr Ht IH]; cbn [remove]; [constructor|]. destruct (cid r =? id)%Z; [exact Ht|constructor; assumption]. Qed.
(* the only fact about `put` used below *)
Lemma put_forall (P : req -> Prop) r l : P r -> Forall P l -> Forall P (put r l).
Proof. intros Hr Hl. induction Hl as [|x t Hx Ht IH]; cbn [put]; [constructor; [exact Hr|constructor]|]. destruct (cid x =? cid r)%Z; constructor; assumption. Qed.
Lemma lookup_forall (P : req -> Prop) id l r : Forall P l -> lookup id l = Some r -> P r.
Proof. induction 1 as [|x t Hx Ht IH]; cbn [lookup]; [discriminate|]. destruct (cid x =? id)%Z; [intros E; inversion E; subst; exact Hx|exact IH]. Qed.
Lemma lookup_cid id l r : lookup id l = Some r -> cid r = id.
Proof. induction l as [|x t IH]; cbn [lookup]; [discriminate|]. destruct (cid x =? id)%Z eqn:E; [intros H; inversion H; subst; apply Z.eqb_eq; exact E|exact IH]. Qed.

(* a client-addressed line names a client of the table and carries its stored address text and port *)
Definition addr_ok (s : st) (o : out) : Prop :=
  match o with OC _ i a p _ => exists r0, lookup i (reqs s) = Some r0 /\ a = addr r0 /\ p = port r0 | _ => True end.
Definition SOK (s : st) (o : out) : Prop := pre_wf o /\ addr_ok s o.

Lemma arg_forall (P : str -> Prop) n argv a : Forall P argv -> arg n argv = Some a -> P a.
Proof. unfold arg. intros H E. apply nth_error_In in E. rewrite Forall_forall in H. apply H; exact E. Qed.

Section Step.
Variable Pf : byte -> Prop.
Hypothesis Pf_cbyte : forall b, Pf b -> cbyte b.
Hypothesis Pf_sp : forall b, cbyte b -> beq b sp = false -> Pf b.

(* what the step needs from the argument vector: no LF/CR/NUL anywhere, and a token in argument 1 *)
Definition ArgsOk (argv : list str) : Prop := Forall clean argv /\ (forall a, arg 1 argv = Some a -> Forall Pf a).

Lemma OK_SOK s id r0 o : lookup id (reqs s) = Some r0 -> OK r0 o -> SOK s o.
Proof.
  intros Hl [H1 H2]. split; [exact H1|]. destruct o as [| k i a p rest |]; cbn [addr_ok addressed] in *; try exact I.
  destruct H2 as [Hi [Ha Hp]]. exists r0. rewrite Hi, (lookup_cid _ _ _ Hl). tauto.
Qed.

Lemma finish_ok s id tid r0 res : Forall (WF Pf) (reqs s) -> lookup tid (reqs s) = Some r0 -> RW Pf r0 res ->
  Forall (WF Pf) (reqs (fst (finish s id res))) /\ Forall (SOK s) (snd (finish s id res)).
Proof.
  intros HT Hl [H1 H2]. unfold finish. destruct res as [[ro outs] efs]. cbn [fst snd] in *.
  assert (Forall (SOK s) outs) as Ho by (eapply Forall_impl; [|exact H2]; intros o; apply (OK_SOK s tid r0); exact Hl).
  destruct ro as [r'|]; cbn [fst snd reqs]; (split; [|exact Ho]).
  - apply put_forall; [exact (proj2 H1)|exact HT].
  - apply remove_forall; exact HT.
Qed.

Theorem step_ok c s id argv : Forall (WF Pf) (reqs s) -> WfTabs (tb s) -> ArgsOk argv ->
  Forall (WF Pf) (reqs (fst (step c s id argv))) /\ Forall (SOK s) (snd (step c s id argv)).
Proof.
  intros HT Htb [Hargs Harg1].
  assert (Forall (WF Pf) (reqs (fst (s, @nil out))) /\ Forall (SOK s) (snd (s, @nil out))) as Same by (cbn [fst snd]; split; [exact HT|constructor]).
  unfold step. cbv zeta.
  destruct (beq (cmdchar argv) x43).
  { destruct (arg 1 argv) as [a|], (arg 2 argv), (arg 3 argv), (arg 4 argv); try exact Same.
    pose proof (announce_word a) as [Wd _]. destruct (announce_addr a) as [g txt]. cbn [fst snd reqs] in *. split; [|constructor].
    apply put_forall; [|exact HT]. unfold WF, fresh. cbn [addr host cliu authu nick acct real pw]. repeat split; try constructor; apply Wd. }
  destruct (beq (cmdchar argv) x58 || beq (cmdchar argv) x78).
  { destruct (negb (with_xq c)); [exact Same|].
    destruct (arg 1 argv) as [svcn|]; [|exact Same]. destruct (arg 2 argv) as [tg|]; [|exact Same]. destruct (arg 3 argv) as [tx|] eqn:E3; [|exact Same].
    destruct (parse_tag tg) as [[tid tser]|]; [|exact Same].
    destruct (lookup tid (reqs s)) as [r|] eqn:El; [|exact Same].
    destruct (ser r =? tser)%N; [|exact Same].
    apply (finish_ok s tid tid r); [exact HT|exact El|]. apply reply_ok; try assumption.
    - destruct (beq (cmdchar argv) x58); [|exact I]. eapply arg_forall; [exact Hargs|exact E3].
    - apply WR_refl. eapply lookup_forall; eauto. }
  destruct (lookup id (reqs s)) as [r|] eqn:El; [|exact Same].
  pose proof (WR_refl Pf r (lookup_forall _ _ _ _ HT El)) as HI.
  assert (forall r1, WR Pf r r1 ->
    let res := finish s id (if with_xq c then after c (tb s) r1 false else let '(r2, g) := gate c (tb s) r1 in (r2, g, [])) in
    Forall (WF Pf) (reqs (fst res)) /\ Forall (SOK s) (snd res)) as Aft.
  { intros r1 H1. cbv zeta. apply (finish_ok s id id r); [exact HT|exact El|]. destruct (with_xq c); [apply after_ok|apply gate3_ok]; assumption. }
  cbv zeta in Aft.
  destruct (beq (cmdchar argv) x44 || beq (cmdchar argv) x54).
  { cbn [fst snd reqs]. split; [apply remove_forall; exact HT|constructor]. }
  destruct (beq (cmdchar argv) x21).
  { match goal with |- context [if ?b then _ else _] => destruct b end; [|exact Same].
    pose proof (gate3_ok Pf Pf_cbyte r c (tb s) (timed_out r) [] Htb (timed_out_WR Pf r r HI)) as G. destruct (gate c (tb s) (timed_out r)) as [r2 g].
    apply (finish_ok s id id r); [exact HT|exact El|exact G]. }
  destruct (beq (cmdchar argv) x4e).
  { destruct (arg 1 argv) as [h|] eqn:E1; [|exact Same]. destruct (nonempty (host r)); [exact Same|].
    apply Aft, set_flags_WR, with_fields_WR; try exact HI; try (apply Fa_firstn, Harg1; reflexivity);
      first [eapply WR_cliu|eapply WR_authu|eapply WR_nick|eapply WR_real]; exact HI. }
  destruct (beq (cmdchar argv) x64).
  { apply Aft, set_flags_WR, HI. }
  destruct (beq (cmdchar argv) x75).
  { destruct (arg 1 argv) as [u|] eqn:E1.
    - apply Aft, set_flags_WR, with_fields_WR; try exact HI; try (apply Fa_firstn, Harg1; reflexivity);
        first [eapply WR_host|eapply WR_cliu|eapply WR_nick|eapply WR_real]; exact HI.
    - destruct (nonempty (cliu r)); apply Aft; [apply set_flags_WR; exact HI|].
      apply with_fields_WR; try exact HI; first [eapply WR_host|eapply WR_cliu|eapply WR_authu|eapply WR_nick|eapply WR_real]; exact HI. }
  destruct (beq (cmdchar argv) x6e).
  { destruct (arg 1 argv) as [n|] eqn:E1; [|exact Same].
    apply Aft, set_flags_WR, with_fields_WR; try exact HI; try (apply Fa_firstn, Harg1; reflexivity);
      first [eapply WR_host|eapply WR_cliu|eapply WR_authu|eapply WR_real]; exact HI. }
  destruct (beq (cmdchar argv) x55).
  { destruct (arg 1 argv) as [u|] eqn:E1.
    2:{ cbn [fst snd]. split; [exact HT|]. constructor; [|constructor]. split; [cbn [pre_wf]; const_clean|exact I]. }
    destruct (arg 2 argv) as [re|] eqn:E2.
    2:{ cbn [fst snd]. split; [exact HT|]. constructor; [|constructor]. split; [cbn [pre_wf]; const_clean|exact I]. }
    cbv zeta. apply Aft, set_flags_WR, with_fields_WR; try exact HI; try (apply Fa_firstn, Harg1; reflexivity).
    - eapply WR_host; exact HI.
    - eapply WR_authu; exact HI.
    - eapply WR_nick; exact HI.
    - apply Fa_firstn. eapply arg_forall; [exact Hargs|exact E2]. }
  destruct (beq (cmdchar argv) x48).
  { destruct (with_xq c) eqn:Ex; [specialize (Aft (set_flags r true true true true (f_pass r)))|specialize (Aft (set_flags r true (f_ident r) (f_nick r) (f_user r) (f_pass r)))];
      rewrite ?Ex in Aft; apply Aft, set_flags_WR, HI. }
  destruct (beq (cmdchar argv) x50); [|exact Same].
  destruct (arg 1 argv) as [t|] eqn:E1; [|exact Same].
  pose proof (set_flags_WR Pf r r (f_host r) (f_ident r) (f_nick r) (f_user r) true HI) as HI0.
  cbv zeta.
  destruct (with_xq c).
  - assert (clean t) as Hct by (eapply arg_forall; [exact Hargs|exact E1]).
    pose proof (password_ok Pf Pf_cbyte r (tb s) _ t Htb Hct HI0) as [P1 P2].
    destruct (password (tb s) _ t) as [[r1 o] efs]. cbn [fst snd] in P1, P2.
    pose proof (gate_ok Pf Pf_cbyte r c (tb s) r1 Htb P1) as [G1 G2]. destruct (gate c (tb s) r1) as [r2 g]. cbn [fst snd] in G1, G2.
    apply (finish_ok s id id r); [exact HT|exact El|]. split; cbn [fst snd]; [exact G1|apply Fa_app; assumption].
  - pose proof (gate_ok Pf Pf_cbyte r c (tb s) _ Htb HI0) as [G1 G2]. destruct (gate c (tb s) _) as [r2 g]. cbn [fst snd] in G1, G2.
    apply (finish_ok s id id r); [exact HT|exact El|]. split; cbn [fst snd]; [exact G1|exact G2].
Qed.
End Step.

(* ====================================================================================================== *)
(* the two instances                                                                                       *)
(* ====================================================================================================== *)
Definition tokb (b : byte) : Prop := cbyte b /\ nospb b.
Lemma tokb_cbyte b : tokb b -> cbyte b. Proof. intros [H _]; exact H. Qed.
Lemma tokb_sp b : cbyte b -> beq b sp = false -> tokb b. Proof. intros H E. split; [exact H|apply beq_sp_nospb; exact E]. Qed.
Lemma cbyte_sp b : cbyte b -> beq b sp = false -> cbyte b. Proof. intros H _; exact H. Qed.

(* all stored text is free of LF, CR, NUL; the address text is a word *)
Definition CleanReq (r : req) : Prop := WF cbyte r.
(* ... and moreover the token fields are free of spaces *)
Definition WfReq (r : req) : Prop :=
  word (addr r) /\
  (clean (host r) /\ clean (cliu r) /\ clean (authu r) /\ clean (nick r) /\ clean (real r) /\ clean (acct r) /\ clean (pw r)) /\
  (nosp (nick r) /\ nosp (authu r) /\ nosp (cliu r) /\ nosp (host r) /\ nosp (acct r)).

Lemma Forall_tokb s : Forall tokb s <-> clean s /\ nosp s.
Proof.
  unfold clean, nosp, tokb. split.
  - intros H. split; (eapply Forall_impl; [|exact H]); intros b [H1 H2]; assumption.
  - intros [H1 H2]. induction H1 as [|b l Hb Hl IH]; [constructor|]. inversion H2; subst. constructor; [split; assumption|apply IH; assumption].
Qed.
Lemma WfReq_WF r : WfReq r <-> WF tokb r.
Proof. unfold WfReq, WF. rewrite !Forall_tokb. tauto. Qed.
Lemma WfReq_CleanReq r : WfReq r -> CleanReq r.
Proof. unfold WfReq, CleanReq, WF. tauto. Qed.

Lemma Forall_WfReq_WF l : Forall WfReq l <-> Forall (WF tokb) l.
Proof. split; apply Forall_impl; intros r; apply WfReq_WF. Qed.

(* the invariant is kept by every step on an argument vector free of LF/CR/NUL *)
Theorem step_preserves_CleanReq c s id argv :
  Forall CleanReq (reqs s) -> WfTabs (tb s) -> Forall clean argv -> Forall CleanReq (reqs (fst (step c s id argv))).
Proof.
  intros H1 H2 H3. apply (step_ok cbyte (fun b H => H) cbyte_sp c s id argv H1 H2).
  split; [exact H3|]. intros a E. exact (arg_forall clean 1 argv a H3 E).
Qed.

(* ... and the full invariant if moreover argument 1 holds no space (always so when it is not the last argument) *)
Theorem step_preserves_WfReq c s id argv :
  Forall WfReq (reqs s) -> WfTabs (tb s) -> Forall clean argv -> (forall a, arg 1 argv = Some a -> nosp a) ->
  Forall WfReq (reqs (fst (step c s id argv))).
Proof.
  intros H1 H2 H3 H4. apply Forall_WfReq_WF. apply Forall_WfReq_WF in H1.
  apply (step_ok tokb tokb_cbyte tokb_sp c s id argv H1 H2).
  split; [exact H3|]. intros a E. apply Forall_tokb. split; [exact (arg_forall clean 1 argv a H3 E)|exact (H4 a E)].
Qed.

(* B3 *)
Theorem outs_wellformed c s id argv :
  Forall CleanReq (reqs s) -> WfTabs (tb s) -> Forall clean argv ->
  forall o, In o (snd (step c s id argv)) -> wf_out o.
Proof.
  intros H1 H2 H3 o Ho.
  assert (ArgsOk cbyte argv) as HA by (split; [exact H3|intros a E; exact (arg_forall clean 1 argv a H3 E)]).
  pose proof (proj2 (step_ok cbyte (fun b H => H) cbyte_sp c s id argv H1 H2 HA)) as H.
  rewrite Forall_forall in H. apply pre_wf_out. exact (proj1 (H o Ho)).
Qed.

(* conditional form (the unconditional one is `client_msgs_addressed` below) *)
Theorem client_msgs_addressed_wf c s id argv k i a p rest :
  Forall CleanReq (reqs s) -> WfTabs (tb s) -> Forall clean argv ->
  In (OC k i a p rest) (snd (step c s id argv)) ->
  exists r, lookup i (reqs s) = Some r /\ i = cid r /\ a = addr r /\ p = port r.
Proof.
  intros H1 H2 H3 Ho.
  assert (ArgsOk cbyte argv) as HA by (split; [exact H3|intros x E; exact (arg_forall clean 1 argv x H3 E)]).
  pose proof (proj2 (step_ok cbyte (fun b H => H) cbyte_sp c s id argv H1 H2 HA)) as H.
  rewrite Forall_forall in H. destruct (H _ Ho) as [_ [r [Hl [Ha Hp]]]]. exists r. rewrite (lookup_cid _ _ _ Hl). tauto.
Qed.

(* ====================================================================================================== *)
(* the tokenizer delivers such argument vectors                                                            *)
(* ====================================================================================================== *)
Lemma word_split (P : byte -> Prop) : forall s a b, Forall P s -> Line.word s = (a, b) ->
  Forall P a /\ Forall P b /\ Forall (fun c => isspace c = false) a.
Proof.
  induction s as [|c r IH]; intros a b Hs; cbn [Line.word].
  - intros E; inversion E; subst. repeat split; constructor.
  - destruct (isspace c) eqn:Ec; [intros E; inversion E; subst; repeat split; [constructor|exact Hs|constructor]|].
    destruct (Line.word r) as [a' b'] eqn:Ew. intros E; inversion E; subst. inversion Hs; subst.
    destruct (IH a' b H2 eq_refl) as [I1 [I2 I3]]. repeat split; [constructor; assumption|exact I2|constructor; assumption].
Qed.

Lemma skipws_forall (P : byte -> Prop) : forall s, Forall P s -> Forall P (skipws s).
Proof. induction 1 as [|c r Hc Hr IH]; cbn [skipws]; [constructor|]. destruct (isspace c); [exact IH|constructor; assumption]. Qed.

Lemma toks_forall (P : byte -> Prop) : forall fuel slots s, Forall P s -> Forall (Forall P) (toks fuel slots s).
Proof.
  induction fuel as [|f IH]; intros slots s Hs; destruct slots as [|k]; cbn [toks]; try constructor.
  pose proof (skipws_forall P s Hs) as Hw. destruct (skipws s) as [|c r]; [constructor|]. inversion Hw; subst.
  destruct (nb c =? 58)%N; [constructor; [assumption|constructor]|].
  destruct (Line.word (c :: r)) as [w rest] eqn:Ew. destruct (word_split P _ _ _ Hw Ew) as [W1 [W2 _]].
  constructor; [exact W1|]. destruct rest as [|x rest']; [constructor|]. inversion W2; subst. apply IH; assumption.
Qed.

(* every argument but the last is free of white space *)
Lemma toks_nonlast : forall fuel slots s, Forall (Forall (fun c => isspace c = false)) (removelast (toks fuel slots s)).
Proof.
  induction fuel as [|f IH]; intros slots s; destruct slots as [|k]; cbn [toks removelast]; try constructor.
  destruct (skipws s) as [|c r]; [constructor|].
  destruct (nb c =? 58)%N; [constructor|].
  destruct (Line.word (c :: r)) as [w rest] eqn:Ew.
  assert (Forall (fun c => isspace c = false) w) as Hw.
  { assert (Forall (fun _ : byte => True) (c :: r)) as HT by (apply Forall_forall; intros; exact I).
    exact (proj2 (proj2 (word_split _ _ _ _ HT Ew))). }
  destruct rest as [|x rest']; [constructor|]. specialize (IH k rest').
  destruct (toks f k rest') as [|y t] eqn:Et; [constructor|]. change (removelast (w :: y :: t)) with (w :: removelast (y :: t)).
  constructor; assumption.
Qed.

Lemma isspace_false_nospb b : isspace b = false -> nospb b.
Proof. unfold isspace, nospb. intros H E. rewrite E in H. vm_compute in H. discriminate. Qed.

Lemma removelast_nth {A} (P : A -> Prop) : forall (l : list A) n a, Forall P (removelast l) -> nth_error l n = Some a -> (S n < List.length l)%nat -> P a.
Proof.
  induction l as [|x t IH]; intros n a H E L; [destruct n; discriminate|].
  destruct t as [|y t']; [cbn in L; lia|]. change (removelast (x :: y :: t')) with (x :: removelast (y :: t')) in H. inversion H; subst.
  destruct n as [|n]; [cbn in E; inversion E; subst; assumption|]. cbn [nth_error] in E. apply (IH n a H3 E). cbn [List.length] in *. lia.
Qed.

(* with at least three arguments, argument 1 is not the last and hence holds no space *)
Lemma toks_arg1_nosp fuel slots s a : (2 < List.length (toks fuel slots s))%nat -> arg 1 (toks fuel slots s) = Some a -> nosp a.
Proof.
  intros L E. unfold arg in E.
  pose proof (removelast_nth _ _ 1%nat a (toks_nonlast fuel slots s) E L) as H.
  eapply Forall_impl; [|exact H]. intros b. apply isspace_false_nospb.
Qed.

Lemma digits_suffix (P : byte -> Prop) : forall s acc, Forall P s -> Forall P (snd (digitsZ s acc)).
Proof. induction s as [|c r IH]; intros acc H; cbn [digitsZ]; [constructor|]. inversion H; subst. destruct (isdigitb c); [apply IH; assumption|exact H]. Qed.

Lemma strtol_long_suffix (P : byte -> Prop) line : Forall P line -> Forall P (snd (strtol_long line)).
Proof.
  intros H. unfold strtol_long.
  assert (forall (neg : bool) (s1 : str), Forall P s1 ->
    Forall P (snd (match s1 with
                   | c :: _ => if isdigitb c then let '(v, rest) := digitsZ s1 0%Z in
                                  ((if neg then Z.max (- v) (- LONG_MAXZ - 1) else Z.min v LONG_MAXZ)%Z, rest) else (0%Z, line)
                   | [] => (0%Z, line) end))) as G.
  { intros neg s1 H1. destruct s1 as [|c r]; [exact H|]. destruct (isdigitb c); [|exact H].
    pose proof (digits_suffix P (c :: r) 0%Z H1) as D. destruct (digitsZ (c :: r) 0%Z) as [v rest]. exact D. }
  pose proof (skipws_forall P line H) as Hw. destruct (skipws line) as [|c r]; [exact H|].
  inversion Hw; subst. destruct (beq c x2d); [exact (G true r H3)|]. destruct (beq c x2b); [exact (G false r H3)|exact (G false (c :: r) Hw)].
Qed.

Lemma strtol10_suffix (P : byte -> Prop) line : Forall P line -> Forall P (snd (strtol10 line)).
Proof.
  intros H. unfold strtol10. pose proof (strtol_long_suffix P line H) as S. destruct (strtol_long line) as [v rest]. exact S.
Qed.

Definition nolfcr (s : str) : Prop := Forall (fun b => Byte.to_N b <> 10%N /\ Byte.to_N b <> 13%N) s.

Lemma cut_nul_clean s : nolfcr s -> clean (cut_nul s).
Proof.
  induction 1 as [|c r Hc Hr IH]; cbn [cut_nul]; [constructor|]. destruct (nb c =? 0)%N eqn:E; [constructor|].
  constructor; [|exact IH]. apply N.eqb_neq in E. unfold cbyte, nb in *. tauto.
Qed.

Lemma strip_cr_forall (P : byte -> Prop) : forall s, Forall P s -> Forall P (strip_cr s).
Proof.
  induction 1 as [|c r Hc Hr IH]; cbn [strip_cr]; [constructor|].
  destruct r as [|d r']; [destruct (nb c =? 13)%N; constructor; [assumption|constructor]|constructor; assumption].
Qed.

(* a raw line without LF and without a CR other than the one directly before the line end tokenises into clean arguments *)
Theorem argv_clean raw : nolfcr (strip_cr raw) -> Forall clean (argv_of raw).
Proof. intros H. unfold argv_of, line_of. apply toks_forall, strtol10_suffix, cut_nul_clean, H. Qed.

Corollary argv_clean' raw : nolfcr raw -> Forall clean (argv_of raw).
Proof. intros H. apply argv_clean, strip_cr_forall, H. Qed.

Theorem argv_nonlast_nospace raw : Forall nosp (removelast (argv_of raw)).
Proof.
  unfold argv_of. eapply Forall_impl; [|apply toks_nonlast]. intros a. apply Forall_impl. intros b. apply isspace_false_nospb.
Qed.

(* ====================================================================================================== *)
(* raw lines                                                                                               *)
(* ====================================================================================================== *)
Lemma garbage_ok s ch l : Forall cbyte l -> in_set ch l = true -> Forall (SOK s) (garbage ch).
Proof.
  intros Hl Hi. apply in_set_In in Hi. rewrite Forall_forall in Hl. specialize (Hl ch Hi).
  unfold garbage. constructor; [|constructor]. split; [|exact I]. cbn [pre_wf].
  apply Fa_app; [const_clean|]. apply Fa_app; [constructor; [exact Hl|constructor]|const_clean].
Qed.

Section LineStep.
Variable Pf : byte -> Prop.
Hypothesis Pf_cbyte : forall b, Pf b -> cbyte b.
Hypothesis Pf_sp : forall b, cbyte b -> beq b sp = false -> Pf b.

Theorem step_line_ok c s raw : Forall (WF Pf) (reqs s) -> WfTabs (tb s) -> ArgsOk Pf (argv_of raw) ->
  Forall (WF Pf) (reqs (fst (step_line c s raw))) /\ Forall (SOK s) (snd (step_line c s raw)).
Proof.
  intros HT Htb HA. rewrite step_line_unfold.
  assert (Forall (WF Pf) (reqs (fst (s, @nil out))) /\ Forall (SOK s) (snd (s, @nil out))) as Same by (cbn [fst snd]; split; [exact HT|constructor]).
  destruct (line_of raw); [exact Same|]. destruct (argv_of raw) as [|a0 rest] eqn:Ea; [exact Same|]. cbv zeta.
  destruct ((id_of raw =? -1)%Z && in_set (cmdchar (a0 :: rest)) (S_ "DdHTu")) eqn:E1.
  { apply andb_true_iff in E1 as [_ E1]. cbn [fst snd]. split; [exact HT|]. eapply garbage_ok; [|exact E1]. const_clean. }
  destruct ((id_of raw =? -1)%Z && in_set (cmdchar (a0 :: rest)) (S_ "NPn")) eqn:E2.
  { apply andb_true_iff in E2 as [_ E2]. destruct (Nat.ltb 1 (List.length (a0 :: rest))); [|exact Same].
    cbn [fst snd]. split; [exact HT|]. eapply garbage_ok; [|exact E2]. const_clean. }
  destruct ((id_of raw =? -1)%Z && in_set (cmdchar (a0 :: rest)) (S_ "U")) eqn:E3.
  { apply andb_true_iff in E3 as [_ E3]. cbn [fst snd]. split; [exact HT|]. eapply garbage_ok; [|exact E3]. const_clean. }
  match goal with |- context [if ?b then (s, []) else _] => destruct b end; [exact Same|].
  apply (step_ok Pf Pf_cbyte Pf_sp); assumption.
Qed.
End LineStep.

(* C09 for one raw input line: the table invariant is kept and every line written is well-formed and correctly addressed *)
Theorem step_line_wellformed c s raw :
  Forall CleanReq (reqs s) -> WfTabs (tb s) -> nolfcr (strip_cr raw) ->
  Forall CleanReq (reqs (fst (step_line c s raw))) /\
  forall o, In o (snd (step_line c s raw)) -> wf_out o /\ addr_ok s o.
Proof.
  intros H1 H2 H3. pose proof (argv_clean raw H3) as Hc.
  assert (ArgsOk cbyte (argv_of raw)) as HA by (split; [exact Hc|intros a E; exact (arg_forall clean 1 _ a Hc E)]).
  destruct (step_line_ok cbyte (fun b H => H) cbyte_sp c s raw H1 H2 HA) as [R1 R2]. split; [exact R1|].
  intros o Ho. rewrite Forall_forall in R2. destruct (R2 o Ho) as [P1 P2]. split; [apply pre_wf_out; exact P1|exact P2].
Qed.

(* the space-free invariant, for lines whose argument 1 is not a trailing argument with spaces *)
Theorem step_line_preserves_WfReq c s raw :
  Forall WfReq (reqs s) -> WfTabs (tb s) -> nolfcr (strip_cr raw) -> (forall a, arg 1 (argv_of raw) = Some a -> nosp a) ->
  Forall WfReq (reqs (fst (step_line c s raw))).
Proof.
  intros H1 H2 H3 H4. pose proof (argv_clean raw H3) as Hc. apply Forall_WfReq_WF. apply Forall_WfReq_WF in H1.
  apply (step_line_ok tokb tokb_cbyte tokb_sp c s raw H1 H2).
  split; [exact Hc|]. intros a E. apply Forall_tokb. split; [exact (arg_forall clean 1 _ a Hc E)|exact (H4 a E)].
Qed.

Corollary step_line_preserves_WfReq_3args c s raw :
  Forall WfReq (reqs s) -> WfTabs (tb s) -> nolfcr (strip_cr raw) -> (2 < List.length (argv_of raw))%nat ->
  Forall WfReq (reqs (fst (step_line c s raw))).
Proof. intros H1 H2 H3 H4. apply step_line_preserves_WfReq; try assumption. intros a E. unfold argv_of in *. eapply toks_arg1_nosp; eauto. Qed.

(* ====================================================================================================== *)
(* client_msgs_addressed, without any well-formedness hypothesis                                           *)
(* ====================================================================================================== *)
Definition AR (r0 : req) (res : option req * list out * list eff) : Prop :=
  match fst (fst res) with Some r' => sameid r' r0 | None => True end /\ Forall (addressed r0) (snd (fst res)).

Lemma oc_ad r0 r k rest : sameid r r0 -> addressed r0 (oc k r rest).
Proof. intros H. exact H. Qed.

Lemma query_lines_ad r0 name t r : Forall (addressed r0) (query_lines name t r).
Proof. unfold query_lines. apply Fa_app; [destruct t|destruct (nonempty (pw r)); [destruct t|]]; repeat (first [apply Forall_nil | apply Forall_cons]); exact I. Qed.

Lemma qpass_ad r0 ss : forall slot ispw r outs efs, sameid r r0 -> Forall (addressed r0) outs ->
  sameid (fst (fst (qpass ss slot ispw r outs efs))) r0 /\ Forall (addressed r0) (snd (fst (qpass ss slot ispw r outs efs))).
Proof.
  induction ss as [|o rest IH]; intros slot ispw r outs efs Hr Hout; cbn [qpass]; [cbn [fst snd]; tauto|].
  destruct o as [s|]; [|apply IH; assumption].
  destruct (negb (s_conf s) || skip_query (s_type s) slot ispw r); [apply IH; assumption|].
  apply IH; [exact Hr|]. apply Fa_app; [exact Hout|apply query_lines_ad].
Qed.

Lemma cont_ad r0 ss t : forall slot r outs efs, sameid r r0 -> Forall (addressed r0) outs ->
  sameid (fst (fst (cont ss slot t r outs efs))) r0 /\ Forall (addressed r0) (snd (fst (cont ss slot t r outs efs))).
Proof.
  induction ss as [|o rest IH]; intros slot r outs efs Hr Hout; cbn [cont]; [cbn [fst snd]; tauto|].
  destruct o as [s|]; [|apply IH; assumption].
  destruct (N.testbit (more r) slot && s_conf s); [|apply IH; assumption].
  apply IH; [exact Hr|]. apply Fa_app; [exact Hout|]. constructor; [exact I|constructor].
Qed.

Lemma classify_ad r0 ss rs r : sameid r r0 -> Forall (addressed r0) (fst (classify ss rs r)).
Proof.
  intros H. induction rs as [|ru rest IH]; cbn [classify]; [constructor|].
  destruct (rule_matches ss ru r); [|exact IH]. cbv zeta. cbn [fst].
  match goal with |- Forall _ (if ?b then _ else _) => destruct b end; [|constructor]. constructor; [exact H|constructor].
Qed.

Lemma gate_ad r0 c tb r : sameid r r0 ->
  match fst (gate c tb r) with Some r' => sameid r' r0 | None => True end /\ Forall (addressed r0) (snd (gate c tb r)).
Proof.
  intros H. unfold gate.
  destruct ((holds r =? 0)%Z && complete c r); [|split; [exact H|constructor]].
  destruct ((soft r =? 0)%Z || f_tout r).
  - pose proof (classify_ad r0 (slots tb) (rules tb) r H) as C1.
    destruct (classify (slots tb) (rules tb) r) as [extra k]. cbn [fst snd] in *. split; [exact I|].
    apply Fa_app; [exact C1|]. constructor; [|constructor]. destruct (acct r); exact H.
  - destruct (negb (f_sdone r)); cbn [fst snd]; [|split; [exact H|constructor]].
    split; [exact H|]. constructor; [exact H|constructor].
Qed.

Lemma fin_ad r0 c tb r1 (pre : list out) (e : list eff) : sameid r1 r0 -> Forall (addressed r0) pre ->
  AR r0 (let '(r', g) := gate c tb r1 in (r', pre ++ g, e)).
Proof.
  intros H Hp. pose proof (gate_ad r0 c tb r1 H) as [G1 G2]. destruct (gate c tb r1) as [r' g].
  unfold AR. cbn [fst snd] in *. split; [exact G1|apply Fa_app; assumption].
Qed.

Lemma after_ad r0 c tb r ispw : sameid r r0 -> AR r0 (after c tb r ispw).
Proof.
  intros H. unfold after.
  pose proof (qpass_ad r0 (slots tb) 0%N ispw r [] [] H (Forall_nil _)) as [Q1 Q2].
  destruct (qpass (slots tb) 0%N ispw r [] []) as [[r1 o] efs]. cbn [fst snd] in *. apply fin_ad; assumption.
Qed.

Lemma password_ad r0 tb r t : sameid r r0 ->
  sameid (fst (fst (password tb r t))) r0 /\ Forall (addressed r0) (snd (fst (password tb r t))).
Proof.
  intros H. unfold password.
  destruct ((more r =? 0)%N || negb (nonempty (pw r))); [|apply cont_ad; [exact H|constructor]].
  destruct (negb (starts t x2b || starts t x2d)); [cbn [fst snd]; split; [exact H|constructor]|].
  destruct (modes _ _ _ _ _ _ _) as [[[[[rest0 sx] cx] sb] cb]|]; [|cbn [fst snd]; split; [exact H|constructor]].
  cbv zeta. destruct (negb (has sp (skipsp rest0))); [cbn [fst snd]; split; [exact H|constructor]|].
  apply qpass_ad; [exact H|constructor].
Qed.

Lemma reply_ad r0 c tb r svcn text : sameid r r0 -> AR r0 (reply c tb r svcn text).
Proof.
  intros H. unfold reply.
  destruct (find_slot (slots tb) 0 svcn (refm r)) as [[slot t]|]; [|unfold AR; cbn [fst snd]; split; [exact H|constructor]].
  assert (forall mr ok na h, sameid (release r slot mr ok na h) r0) as R0 by (intros; exact H).
  cbv beta zeta.
  destruct text as [tx|].
  - destruct (seq_eq tx (S_ "OK")); [apply fin_ad; [apply R0|constructor]|].
    destruct (prefix (S_ "OK ") tx).
    + destruct (negb (nonempty (upto sp (skipn 3 tx))) || is_drone t); [apply fin_ad; [apply R0|constructor]|].
      apply fin_ad; [apply R0|]. destruct (hh r || ho r); [|constructor]. constructor; [exact H|constructor].
    + destruct (prefix (S_ "NO ") tx).
      { unfold AR. cbn [fst snd]. split; [exact I|]. constructor; [exact H|constructor]. }
      destruct (prefix (S_ "AGAIN ") tx); [apply fin_ad; [apply R0|]; constructor; [exact H|constructor]|].
      destruct (prefix (S_ "MORE ") tx); [|unfold AR; cbn [fst snd]; split; [exact H|constructor]].
      apply fin_ad; [apply R0|]. constructor; [exact H|constructor].
  - apply fin_ad; [apply R0|]. destruct (is_drone t); [constructor|]. constructor; [exact H|constructor].
Qed.

Lemma finish_ad s id tid r0 res : lookup tid (reqs s) = Some r0 -> AR r0 res -> Forall (addr_ok s) (snd (finish s id res)).
Proof.
  intros Hl [_ H2]. unfold finish. destruct res as [[ro outs] efs]. cbn [fst snd] in *.
  assert (Forall (addr_ok s) outs) as Ho.
  { eapply Forall_impl; [|exact H2]. intros o Ho. destruct o as [|k i a p rest|]; cbn [addr_ok addressed] in *; try exact I.
    destruct Ho as [Hi [Ha Hp]]. exists r0. rewrite Hi, (lookup_cid _ _ _ Hl). tauto. }
  destruct ro; exact Ho.
Qed.

Lemma sameid_refl r : sameid r r. Proof. repeat split. Qed.

Theorem step_addr_ok c s id argv : Forall (addr_ok s) (snd (step c s id argv)).
Proof.
  assert (Forall (addr_ok s) (snd (s, @nil out))) as Same by constructor.
  unfold step. cbv zeta.
  destruct (beq (cmdchar argv) x43).
  { destruct (arg 1 argv) as [a|], (arg 2 argv), (arg 3 argv), (arg 4 argv); try exact Same. destruct (announce_addr a). constructor. }
  destruct (beq (cmdchar argv) x58 || beq (cmdchar argv) x78).
  { destruct (negb (with_xq c)); [exact Same|].
    destruct (arg 1 argv) as [svcn|]; [|exact Same]. destruct (arg 2 argv) as [tg|]; [|exact Same]. destruct (arg 3 argv) as [tx|]; [|exact Same].
    destruct (parse_tag tg) as [[tid tser]|]; [|exact Same].
    destruct (lookup tid (reqs s)) as [r|] eqn:El; [|exact Same].
    destruct (ser r =? tser)%N; [|exact Same].
    apply (finish_ad s tid tid r); [exact El|]. apply reply_ad, sameid_refl. }
  destruct (lookup id (reqs s)) as [r|] eqn:El; [|exact Same].
  assert (forall r1, sameid r1 r ->
    Forall (addr_ok s) (snd (finish s id (if with_xq c then after c (tb s) r1 false else let '(r2, g) := gate c (tb s) r1 in (r2, g, []))))) as Aft.
  { intros r1 H1. apply (finish_ad s id id r); [exact El|]. destruct (with_xq c); [apply after_ad; exact H1|].
    pose proof (gate_ad r c (tb s) r1 H1) as G. destruct (gate c (tb s) r1). exact G. }
  destruct (beq (cmdchar argv) x44 || beq (cmdchar argv) x54); [constructor|].
  destruct (beq (cmdchar argv) x21).
  { match goal with |- context [if ?b then _ else _] => destruct b end; [|exact Same].
    pose proof (gate_ad r c (tb s) (timed_out r) (sameid_refl r)) as G. destruct (gate c (tb s) (timed_out r)) as [r2 g].
    apply (finish_ad s id id r); [exact El|exact G]. }
  destruct (beq (cmdchar argv) x4e).
  { destruct (arg 1 argv); [|exact Same]. destruct (nonempty (host r)); [exact Same|]. apply Aft; repeat split. }
  destruct (beq (cmdchar argv) x64); [apply Aft; repeat split|].
  destruct (beq (cmdchar argv) x75).
  { destruct (arg 1 argv); [apply Aft; repeat split|]. destruct (nonempty (cliu r)); apply Aft; repeat split. }
  destruct (beq (cmdchar argv) x6e).
  { destruct (arg 1 argv); [|exact Same]. apply Aft; repeat split. }
  destruct (beq (cmdchar argv) x55).
  { destruct (arg 1 argv); [|constructor; [exact I|constructor]]. destruct (arg 2 argv); [|constructor; [exact I|constructor]].
    apply Aft; repeat split. }
  destruct (beq (cmdchar argv) x48).
  { destruct (with_xq c) eqn:Ex; [specialize (Aft (set_flags r true true true true (f_pass r)))|specialize (Aft (set_flags r true (f_ident r) (f_nick r) (f_user r) (f_pass r)))];
      rewrite ?Ex in Aft; apply Aft; repeat split. }
  destruct (beq (cmdchar argv) x50); [|exact Same].
  destruct (arg 1 argv) as [t|]; [|exact Same]. cbv zeta.
  destruct (with_xq c).
  - pose proof (password_ad r (tb s) (set_flags r (f_host r) (f_ident r) (f_nick r) (f_user r) true) t (sameid_refl r)) as [P1 P2].
    destruct (password (tb s) _ t) as [[r1 o] efs]. cbn [fst snd] in P1, P2.
    pose proof (gate_ad r c (tb s) r1 P1) as [G1 G2]. destruct (gate c (tb s) r1) as [r2 g]. cbn [fst snd] in G1, G2.
    apply (finish_ad s id id r); [exact El|]. split; cbn [fst snd]; [exact G1|apply Fa_app; assumption].
  - pose proof (gate_ad r c (tb s) (set_flags r (f_host r) (f_ident r) (f_nick r) (f_user r) true) (sameid_refl r)) as G.
    destruct (gate c (tb s) _) as [r2 g]. apply (finish_ad s id id r); [exact El|exact G].
Qed.

(* every client-addressed line of a step names a client of the table and carries that client's id, address text and port *)
Theorem client_msgs_addressed c s id argv k i a p rest :
  In (OC k i a p rest) (snd (step c s id argv)) ->
  exists r, lookup i (reqs s) = Some r /\ i = cid r /\ a = addr r /\ p = port r.
Proof.
  intros Ho. pose proof (step_addr_ok c s id argv) as H. rewrite Forall_forall in H.
  destruct (H _ Ho) as [r [Hl [Ha Hp]]]. exists r. rewrite (lookup_cid _ _ _ Hl). tauto.
Qed.

(* for all commands but X/x the client is the one the line is about *)
Corollary client_msgs_addressed_same c s id argv k i a p rest :
  beq (cmdchar argv) x58 || beq (cmdchar argv) x78 = false ->
  In (OC k i a p rest) (snd (step c s id argv)) -> i = id.
Proof.
  intros Hx Ho. unfold step in Ho. cbv zeta in Ho. rewrite Hx in Ho.
  destruct (beq (cmdchar argv) x43).
  { destruct (arg 1 argv) as [a1|], (arg 2 argv), (arg 3 argv), (arg 4 argv); try (destruct Ho; fail). destruct (announce_addr a1). destruct Ho. }
  destruct (lookup id (reqs s)) as [r|] eqn:El; [|destruct Ho].
  pose proof (step_addr_ok c s id argv) as H. unfold step in H. cbv zeta in H. rewrite Hx in H.
  clear H. 
  (* every OC of this branch is built by `oc _ r' _` with sameid r' r, hence i = cid r = id *)
  assert (forall res, AR r res -> In (OC k i a p rest) (snd (finish s id res)) -> i = id) as Fin.
  { intros res [_ H2] Hin. unfold finish in Hin. destruct res as [[ro outs] efs]. cbn [fst snd] in *.
    assert (In (OC k i a p rest) outs) as Hin' by (destruct ro; exact Hin).
    rewrite Forall_forall in H2. specialize (H2 _ Hin'). cbn [addressed] in H2. rewrite (proj1 H2). apply (lookup_cid _ _ _ El). }
  assert (forall r1, sameid r1 r ->
    In (OC k i a p rest) (snd (finish s id (if with_xq c then after c (tb s) r1 false else let '(r2, g) := gate c (tb s) r1 in (r2, g, [])))) -> i = id) as Aft.
  { intros r1 H1. apply Fin. destruct (with_xq c); [apply after_ad; exact H1|].
    pose proof (gate_ad r c (tb s) r1 H1) as G. destruct (gate c (tb s) r1). exact G. }
  destruct (beq (cmdchar argv) x44 || beq (cmdchar argv) x54); [destruct Ho|].
  destruct (beq (cmdchar argv) x21).
  { match type of Ho with context [if ?b then _ else _] => destruct b end; [|destruct Ho].
    pose proof (gate_ad r c (tb s) (timed_out r) (sameid_refl r)) as G. destruct (gate c (tb s) (timed_out r)) as [r2 g].
    exact (Fin (r2, g, []) G Ho). }
  destruct (beq (cmdchar argv) x4e).
  { destruct (arg 1 argv); [|destruct Ho]. destruct (nonempty (host r)); [destruct Ho|]. (eapply Aft; [|exact Ho]; repeat split). }
  destruct (beq (cmdchar argv) x64); [(eapply Aft; [|exact Ho]; repeat split)|].
  destruct (beq (cmdchar argv) x75).
  { destruct (arg 1 argv); [(eapply Aft; [|exact Ho]; repeat split)|]. destruct (nonempty (cliu r)); (eapply Aft; [|exact Ho]; repeat split). }
  destruct (beq (cmdchar argv) x6e).
  { destruct (arg 1 argv); [|destruct Ho]. (eapply Aft; [|exact Ho]; repeat split). }
  destruct (beq (cmdchar argv) x55).
  { destruct (arg 1 argv); [|destruct Ho as [E|[]]; discriminate]. destruct (arg 2 argv); [|destruct Ho as [E|[]]; discriminate].
    (eapply Aft; [|exact Ho]; repeat split). }
  destruct (beq (cmdchar argv) x48).
  { destruct (with_xq c) eqn:Ex; [specialize (Aft (set_flags r true true true true (f_pass r)))|specialize (Aft (set_flags r true (f_ident r) (f_nick r) (f_user r) (f_pass r)))];
      rewrite ?Ex in Aft; (eapply Aft; [|exact Ho]; repeat split). }
  destruct (beq (cmdchar argv) x50); [|destruct Ho].
  destruct (arg 1 argv) as [t|]; [|destruct Ho]. cbv zeta in Ho.
  destruct (with_xq c).
  - pose proof (password_ad r (tb s) (set_flags r (f_host r) (f_ident r) (f_nick r) (f_user r) true) t (sameid_refl r)) as [P1 P2].
    destruct (password (tb s) _ t) as [[r1 o] efs]. cbn [fst snd] in P1, P2.
    pose proof (gate_ad r c (tb s) r1 P1) as [G1 G2]. destruct (gate c (tb s) r1) as [r2 g]. cbn [fst snd] in G1, G2.
    apply (Fin (r2, o ++ g, efs)); [|exact Ho]. split; cbn [fst snd]; [exact G1|apply Fa_app; assumption].
  - pose proof (gate_ad r c (tb s) (set_flags r (f_host r) (f_ident r) (f_nick r) (f_user r) true) (sameid_refl r)) as G.
    destruct (gate c (tb s) _) as [r2 g]. exact (Fin (r2, g, []) G Ho).
Qed.

(* ====================================================================================================== *)
(* the configuration hypothesis is stable: steps only change reference counts; reloads install new words   *)
(* ====================================================================================================== *)
Lemma bump_wf : forall ss slot target d, Forall wfslot ss -> Forall wfslot (bump ss slot target d).
Proof.
  induction ss as [|o rest IH]; intros slot target d H; cbn [bump]; [constructor|]. inversion H; subst.
  destruct (slot =? target)%N; [|constructor; [assumption|apply IH; assumption]].
  destruct o as [sv|]; [|exact H]. cbv zeta.
  destruct ((s_refs sv + d =? 0)%Z && negb (s_conf sv) && (d <? 0)%Z); constructor; try assumption; exact I.
Qed.

Lemma apply_effs_wf efs : forall ss, Forall wfslot ss -> Forall wfslot (apply_effs ss efs).
Proof. unfold apply_effs. induction efs as [|e efs IH]; intros ss H; cbn [fold_left]; [exact H|]. apply IH, bump_wf, H. Qed.

Lemma finish_tabs s id res : WfTabs (tb s) -> WfTabs (tb (fst (finish s id res))).
Proof.
  intros [H1 H2]. unfold finish. destruct res as [[ro outs] efs]. destruct ro; cbn [fst tb]; unfold with_slots, WfTabs; cbn [slots rules];
    (split; [apply apply_effs_wf; exact H1|exact H2]).
Qed.

Theorem step_tabs c s id argv : WfTabs (tb s) -> WfTabs (tb (fst (step c s id argv))).
Proof.
  intros H. unfold step. cbv zeta.
  repeat match goal with
         | |- WfTabs (tb (fst (finish _ _ _))) => apply finish_tabs; exact H
         | |- WfTabs (tb (fst (_, _))) => exact H
         | |- context [match ?x with _ => _ end] => destruct x
         end.
Qed.

Lemma step_line_tabs c s raw : WfTabs (tb s) -> WfTabs (tb (fst (step_line c s raw))).
Proof.
  intros H. rewrite step_line_unfold. destruct (line_of raw); [exact H|]. destruct (argv_of raw); [exact H|]. cbv zeta.
  repeat match goal with
         | |- WfTabs (tb (fst (step _ _ _ _))) => apply step_tabs; exact H
         | |- WfTabs (tb (fst (_, _))) => exact H
         | |- context [if ?x then _ else _] => destruct x
         end.
Qed.

(* reload *)
Lemma fill_empty_wf ss n : wfslot (Some n) -> Forall wfslot ss -> Forall wfslot (fill_empty ss n).
Proof. intros Hn. induction 1 as [|o r Ho Hr IH]; cbn [fill_empty]; [constructor|]. destruct o; constructor; assumption. Qed.
Lemma retype_wf ss name ty : Forall wfslot ss -> Forall wfslot (retype ss name ty).
Proof.
  induction 1 as [|o r Ho Hr IH]; cbn [retype]; [constructor|]. destruct o as [sv|]; [|constructor; assumption].
  destruct (seq_eq (s_name sv) name); constructor; try assumption. destruct ty; exact Ho.
Qed.
Lemma config_service_wf ss name ty : word name -> Forall wfslot ss -> Forall wfslot (config_service ss name ty).
Proof.
  intros Hn H. unfold config_service. apply retype_wf. destruct (find_name ss name); [exact H|].
  destruct (free_index ss <? max_slots)%nat; [|exact H].
  destruct (has_empty ss); [apply fill_empty_wf; [exact Hn|exact H]|]. apply Fa_app; [exact H|]. constructor; [exact Hn|constructor].
Qed.
Theorem services_changed_wf ss entries :
  Forall wfslot ss -> Forall (fun e => word (fst e)) entries -> Forall wfslot (services_changed ss entries).
Proof.
  intros H He. unfold services_changed.
  assert (forall l, Forall wfslot l -> Forall wfslot (map unref l)) as U.
  { induction 1 as [|o r Ho Hr IH]; cbn [map]; [constructor|]. constructor; [|exact IH]. destruct o as [sv|]; [|exact I]. cbn [unref]. destruct (_ || _); [exact Ho|exact I]. }
  apply U. clear U.
  assert (Forall wfslot (map unconf ss)) as H0.
  { induction H as [|o r Ho Hr IH]; cbn [map]; [constructor|]. constructor; [|exact IH]. destruct o; exact Ho. }
  revert H0. generalize (map unconf ss). induction He as [|e es Hw Hes IH]; intros l Hl; cbn [fold_left]; [exact Hl|].
  apply IH. apply config_service_wf; assumption.
Qed.

(* ====================================================================================================== *)
(* C09 over whole histories                                                                                *)
(* ====================================================================================================== *)
Definition wf_rev (e : rev) : Prop :=
  match e with
  | RLine raw => nolfcr (strip_cr raw)
  | RReload svs rs _ => Forall (fun e => word (fst e)) svs /\ Forall wfrule rs
  end.
Definition SInv (s : st) : Prop := Forall CleanReq (reqs s) /\ WfTabs (tb s).

Lemma step_rev_wf c s e : SInv s -> wf_rev e ->
  SInv (fst (step_rev c s e)) /\ forall o, In o (snd (step_rev c s e)) -> wf_out o /\ addr_ok s o.
Proof.
  intros [H1 H2] He. destruct e as [raw|svs rs t]; cbn [step_rev wf_rev] in *.
  - destruct (step_line_wellformed c s raw H1 H2 He) as [R1 R2]. split; [split; [exact R1|apply step_line_tabs; exact H2]|exact R2].
  - cbn [step_ev fst snd]. split; [|intros o []]. split; cbn [reqs tb].
    { (* the pending requests forget the refilled slots: no printed field changes *)
      apply Forall_forall. intros r' Hr. apply in_map_iff in Hr as (r & <- & Hr). exact (proj1 (Forall_forall _ _) H1 r Hr). }
    split; cbn [slots rules]; [apply services_changed_wf; [exact (proj1 H2)|exact (proj1 He)]|exact (proj2 He)].
Qed.

Theorem run_wellformed c : forall es s, SInv s -> Forall wf_rev es ->
  SInv (final c s es) /\ Forall (fun x => Forall wf_out (fst x)) (run_revs c s es).
Proof.
  intros es s. rewrite run_revs_from. unfold final. revert s.
  induction es as [|e es IH]; intros s Hs He; cbn [run_from fst snd]; [split; [exact Hs|constructor]|].
  inversion He; subst. destruct (step_rev_wf c s e Hs H1) as [S1 S2]. destruct (IH _ S1 H2) as [I1 I2].
  split; [exact I1|]. constructor; [|exact I2]. cbn [fst]. apply Forall_forall. intros o Ho. exact (proj1 (S2 o Ho)).
Qed.

Lemma init_SInv c services rs t : Forall (fun e => word (fst e)) services -> Forall wfrule rs -> SInv (init c services rs t).
Proof.
  intros H1 H2. split; [constructor|]. split; cbn [init tb slots rules]; [|exact H2]. apply services_changed_wf; [constructor|exact H1].
Qed.

(* from start-up on: with a well-formed configuration and LF/CR-free input lines, every line ever written is a single
   well-formed message *)
Corollary daemon_outputs_wellformed c services rs t es :
  Forall (fun e => word (fst e)) services -> Forall wfrule rs -> Forall wf_rev es ->
  Forall (fun x => Forall wf_out (fst x)) (run_revs c (init c services rs t) es).
Proof. intros H1 H2 H3. apply run_wellformed; [apply init_SInv; assumption|exact H3]. Qed.

(* ====================================================================================================== *)
(* findings: why the hypotheses above are needed (both computed on the model)                              *)
(* ====================================================================================================== *)
Definition ex_cfg := {| with_xq := true |}.
Definition ex_s0 := init ex_cfg [(S_ "svc", S_ "dronecheck")] [] false.
Definition has_byte (n : N) (s : str) : bool := existsb (fun b => (Byte.to_N b =? n)%N) s.

(* (1) a CR in the middle of a trailing argument is not removed by the line layer (only the CR directly before the LF is)
   and is relayed verbatim inside a query line: `nolfcr (strip_cr raw)` cannot be weakened to "raw holds no LF". *)
Example interior_cr_relayed :
  let evs := [RLine (S_ "1 C 1.2.3.4 1234 5.6.7.8 6667"); RLine (S_ "1 N host.example"); RLine (S_ "1 u ident"); RLine (S_ "1 n nick");
              RLine (S_ "1 U user :re" ++ [x0d] ++ S_ "al")] in
  map (fun x => map (fun o => has_byte 13 (render o)) (fst x)) (run_revs ex_cfg ex_s0 evs) = [[]; []; []; []; [true; false]].
Proof. vm_compute. reflexivity. Qed.

(* (2) argument 1 given as a trailing argument may hold spaces and is stored as host name; the CHECK query then has one
   field too many: the space-free part of WfReq needs the hypothesis on argument 1. *)
Example trailing_arg1_space :
  let evs := [RLine (S_ "1 C 1.2.3.4 1234 5.6.7.8 6667"); RLine (S_ "1 N :host name"); RLine (S_ "1 u ident"); RLine (S_ "1 n nick");
              RLine (S_ "1 U user :real")] in
  map (fun x => map (fun o => string_of_list_byte (render o)) (fst x)) (run_revs ex_cfg ex_s0 evs) =
  [[]; []; []; []; ["X svc 1_1 :CHECK nick ident 1.2.3.4 host name :real"%string; "d 1 1.2.3.4 1234"%string]].
Proof. vm_compute. reflexivity. Qed.

