(* Spike: structural (fuel-free) definition of the nested merge, recursion on the file tree. *)
From Coq Require Import List Arith Lia Bool.
Import ListNotations.
Definition key := nat. Definition str := nat.
Inductive fnode := FStr (v : str) | FObj (kids : list (key * fnode)).
Inductive lnode := LStr (spec pres : bool) (dflt value : option str) | LObj (spec pres : bool) (kids : list (key * lnode)).

Fixpoint splice (f : fnode) : lnode :=
  match f with
  | FStr v => LStr false true None (Some v)
  | FObj ks => LObj false true (map (fun kf => (fst kf, splice (snd kf))) ks)
  end.
Fixpoint revert (l : lnode) : option lnode :=
  match l with
  | LStr spec _ d _ => if spec then Some (LStr true false d d) else None
  | LObj spec pres ks =>
      let ks' := if pres then flat_map (fun kl => match revert (snd kl) with Some l' => [(fst kl, l')] | None => [] end) ks else ks in
      if spec then Some (LObj true false ks') else None
  end.
Definition revert_all (ts : list (key * lnode)) : list (key * lnode) :=
  flat_map (fun kl => match revert (snd kl) with Some l' => [(fst kl, l')] | None => [] end) ts.

(* split the target list at the first key >= k *)
Fixpoint span_lt (k : key) (ts : list (key * lnode)) : list (key * lnode) * list (key * lnode) :=
  match ts with
  | [] => ([], [])
  | (kt, t) :: r => if kt <? k then let (a, b) := span_lt k r in ((kt, t) :: a, b) else ([], ts)
  end.

Fixpoint merge (t : lnode) (s : fnode) {struct s} : lnode :=
  match s with
  | FStr v => match t with LStr spec _ d _ => LStr spec true d (Some v) | _ => splice s end
  | FObj ss =>
      let fix mk (ts : list (key * lnode)) (ss : list (key * fnode)) {struct ss} : list (key * lnode) :=
        match ss with
        | [] => revert_all ts
        | (ks, s') :: ss' =>
            let (lo, hi) := span_lt ks ts in
            revert_all lo ++
            match hi with
            | (kt, t') :: hi' => if kt =? ks then (kt, merge t' s') :: mk hi' ss' else (ks, splice s') :: mk hi ss'
            | [] => (ks, splice s') :: mk [] ss'
            end
        end in
      match t with LObj spec _ ks => LObj spec true (mk ks ss) | _ => splice s end
  end.

Example ex1 :
  merge (LObj true false [(1, LStr true false (Some 7) (Some 7)); (3, LStr false true None (Some 9)); (5, LStr true true (Some 1) (Some 2))])
        (FObj [(1, FStr 5); (2, FObj [(4, FStr 6)])])
  = LObj true true [(1, LStr true true (Some 7) (Some 5)); (2, LObj false true [(4, LStr false true None (Some 6))]); (5, LStr true false (Some 1) (Some 1))].
Proof. reflexivity. Qed.

(* idempotence on this example *)
Example ex2 :
  let t := merge (LObj true false [(1, LStr true false (Some 7) (Some 7)); (3, LStr false true None (Some 9)); (5, LStr true true (Some 1) (Some 2))])
        (FObj [(1, FStr 5); (2, FObj [(4, FStr 6)])]) in
  merge t (FObj [(1, FStr 5); (2, FObj [(4, FStr 6)])]) = t.
Proof. reflexivity. Qed.
