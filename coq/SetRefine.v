(* Spike: the set container (SetOps.v) keeps its invariant and answers like a sorted association list. *)
From Coq Require Import List ZArith NArith Bool Lia.
Import ListNotations.
Require Import Splay SplayRoot SetOps.
Local Open Scope Z_scope.

Lemma cmpk_anti a b : cmpk a b > 0 <-> cmpk b a < 0.
Proof. unfold cmpk. destruct (Z.compare_spec (fst a) (fst b)); destruct (Z.compare_spec (fst b) (fst a)); cbn; lia. Qed.
Lemma cmpk_lt a b : cmpk a b < 0 <-> fst a < fst b.
Proof. unfold cmpk. destruct (Z.compare_spec (fst a) (fst b)); cbn; lia. Qed.
Lemma cmpk_gt a b : cmpk a b > 0 <-> fst b < fst a.
Proof. unfold cmpk. destruct (Z.compare_spec (fst a) (fst b)); cbn; lia. Qed.
Lemma cmpk_eq a b : cmpk a b = 0 <-> fst a = fst b.
Proof. unfold cmpk. destruct (Z.compare_spec (fst a) (fst b)); cbn; lia. Qed.

Lemma cmpk_trans a b c : cmpk a b < 0 -> cmpk b c < 0 -> cmpk a c < 0.
Proof. rewrite !cmpk_lt. lia. Qed.

Notation bstk := (bst el cmpk).
Notation io := (inorder el).

(* keys strictly increasing *)
Fixpoint incr (l : list el) : Prop := match l with [] => True | x :: r => Forall (fun y => fst x < fst y) r /\ incr r end.

Lemma incr_app a b : incr (a ++ b) <-> incr a /\ incr b /\ Forall (fun x => Forall (fun y => fst x < fst y) b) a.
Proof.
  induction a as [|x a IH]; simpl.
  - split; [intros H; repeat split; auto|tauto].
  - rewrite Forall_app, IH. split.
    + intros ((H1 & H2) & H3 & H4 & H5). repeat split; auto.
    + intros ((H1 & H2) & H3 & H4). inversion H4; subst. repeat split; auto.
Qed.

Lemma bst_incr t : bstk t <-> incr (io t).
Proof.
  induction t as [|l IHl k r IHr]; simpl; [tauto|].
  rewrite incr_app. simpl. rewrite IHl, IHr. unfold below, above. split.
  - intros (H1 & H2 & H3 & H4). repeat split; auto.
    + eapply Forall_impl; [|exact H4]. intros y Hy. apply cmpk_lt; exact Hy.
    + eapply Forall_impl; [|exact H3]. intros x Hx. apply cmpk_gt in Hx. constructor; [exact Hx|].
      eapply Forall_impl; [|exact H4]. intros y Hy. apply cmpk_lt in Hy. lia.
  - intros (H1 & (H2 & H3) & H4). repeat split; auto.
    + eapply Forall_impl; [|exact H4]. intros x Hx. inversion Hx; subst. apply cmpk_gt. assumption.
    + eapply Forall_impl; [|exact H2]. intros y Hy. apply cmpk_lt; exact Hy.
Qed.

Definition Inv (s : set) : Prop := bstk (root s) /\ chain s = io (root s) /\ count s = length (chain s).

Lemma inv_empty : Inv empty. Proof. repeat split. Qed.

(* what the splay gives us, packaged *)
Lemma splay_facts d t : t <> Leaf -> bstk t ->
  exists l k r c, splay el cmpk d t = (Node l k r, c) /\ c = cmpk d k /\ io l ++ k :: io r = io t /\
                  (c < 0 -> Forall (fun x => fst x < fst d) (io l)) /\ (c > 0 -> Forall (fun x => fst d < fst x) (io r)).
Proof.
  intros Hne Hb. unfold splay.
  pose proof (sl_side el cmpk cmpk_anti cmpk_trans d (size el t) t (le_n _) Hne Hb [] [] (Forall_nil _) (Forall_nil _)) as S.
  pose proof (splay_inorder el cmpk d t) as I. unfold splay in I.
  unfold side_ok in S. destruct (sl el cmpk d t [] []) as [t' c]. cbn [fst snd] in *.
  destruct t' as [|l k r]; [contradiction|]. destruct S as (Hc & Hl & Hr).
  exists l, k, r, c. repeat split; auto.
  - intros H. rewrite Hc in H. specialize (Hl H). eapply Forall_impl; [|exact Hl]. intros x Hx. apply cmpk_gt; exact Hx.
  - intros H. rewrite Hc in H. specialize (Hr H). eapply Forall_impl; [|exact Hr]. intros x Hx. apply cmpk_lt; exact Hx.
Qed.

(* find agrees with a linear search by key in the chain *)
Fixpoint assoc (k : Z) (l : list el) : option el := match l with [] => None | x :: r => if fst x =? k then Some x else assoc k r end.

Lemma assoc_none k l : Forall (fun x => fst x <> k) l -> assoc k l = None.
Proof. induction 1 as [|x r Hx Hr IH]; simpl; [reflexivity|]. apply Z.eqb_neq in Hx. rewrite Hx. exact IH. Qed.
Lemma assoc_app k a b : assoc k (a ++ b) = match assoc k a with Some x => Some x | None => assoc k b end.
Proof. induction a as [|x a IH]; simpl; [reflexivity|]. destruct (fst x =? k); [reflexivity|exact IH]. Qed.

Theorem find_spec s d : Inv s -> Inv (fst (find s d)) /\ chain (fst (find s d)) = chain s /\ snd (find s d) = assoc (fst d) (chain s).
Proof.
  intros (Hb & Hc & Hn). unfold find.
  destruct (root s) as [|l0 k0 r0] eqn:Er.
  - cbn [fst snd]. split; [split; [rewrite Er; exact Hb|split; [rewrite Er; exact Hc|exact Hn]]|]. split; [reflexivity|]. rewrite Hc. reflexivity.
  - destruct (splay_facts d (Node l0 k0 r0) ltac:(discriminate) Hb) as (l & k & r & c & Es & Ec & Eio & Hl & Hr).
    rewrite Es. cbn [fst snd root chain count].
    assert (bstk (Node l k r)) as Hb'. { apply bst_incr. cbn [inorder]. rewrite Eio. apply bst_incr. exact Hb. }
    split; [split; [exact Hb'|split; [cbn [chain root inorder]; rewrite Eio; exact Hc|exact Hn]]|].
    split; [reflexivity|].
    { rewrite Hc, <- Eio, assoc_app. cbn [assoc].
      apply bst_incr in Hb'. cbn [inorder] in Hb'. apply incr_app in Hb' as (_ & (Hkr & _) & Hlk).
      destruct (c =? 0) eqn:E0.
      * apply Z.eqb_eq in E0. rewrite Ec in E0. apply cmpk_eq in E0.
        rewrite assoc_none. { rewrite (proj2 (Z.eqb_eq _ _)) by lia. reflexivity. }
        eapply Forall_impl; [|exact Hlk]. intros x Hx. cbv beta in *. inversion Hx; subst. lia.
      * apply Z.eqb_neq in E0. assert (fst k <> fst d) as Hne by (intro E; apply E0; rewrite Ec; apply cmpk_eq; lia).
        rewrite (proj2 (Z.eqb_neq _ _) Hne).
        destruct (Z.lt_ge_cases c 0) as [Hlt|Hge].
        -- specialize (Hl Hlt). rewrite assoc_none by (eapply Forall_impl; [|exact Hl]; intros x Hx; cbv beta in *; lia).
           rewrite Ec in Hlt. apply cmpk_lt in Hlt.
           rewrite assoc_none; [reflexivity|]. eapply Forall_impl; [|exact Hkr]. intros y Hy. cbv beta in *. lia.
        -- assert (c > 0) as Hgt by lia. specialize (Hr Hgt). rewrite Ec in Hgt. apply cmpk_gt in Hgt.
           rewrite assoc_none by (eapply Forall_impl; [|exact Hlk]; intros x Hx; cbv beta in *; inversion Hx; subst; lia).
           rewrite assoc_none; [reflexivity|]. eapply Forall_impl; [|exact Hr]. intros y Hy. cbv beta in *. lia. }
Qed.

(* ---------- insert keeps the invariant; the chain becomes the sorted insertion (replacing an equal key) ---------- *)
Fixpoint sins (e : el) (l : list el) : list el :=
  match l with
  | [] => [e]
  | x :: r => if fst e <? fst x then e :: l else if fst e =? fst x then e :: r else x :: sins e r
  end.

Lemma same_refl x : same x x = true. Proof. unfold same. rewrite Z.eqb_refl, N.eqb_refl. reflexivity. Qed.
Lemma same_key x y : same x y = true -> fst x = fst y. Proof. unfold same. intros H. apply andb_true_iff in H as [H _]. apply Z.eqb_eq; exact H. Qed.

Lemma ins_before_split a k b e : Forall (fun x => fst x < fst k) a -> ins_before k e (a ++ k :: b) = a ++ e :: k :: b.
Proof.
  induction 1 as [|x a Hx Ha IH]; simpl; [rewrite same_refl; reflexivity|].
  destruct (same k x) eqn:E; [apply same_key in E; cbv beta in Hx; lia|]. rewrite IH. reflexivity.
Qed.
Lemma ins_after_split a k b e : Forall (fun x => fst x < fst k) a -> ins_after k e (a ++ k :: b) = a ++ k :: e :: b.
Proof.
  induction 1 as [|x a Hx Ha IH]; simpl; [rewrite same_refl; reflexivity|].
  destruct (same k x) eqn:E; [apply same_key in E; cbv beta in Hx; lia|]. rewrite IH. reflexivity.
Qed.
Lemma repl_split a k b e : Forall (fun x => fst x < fst k) a -> repl k e (a ++ k :: b) = a ++ e :: b.
Proof.
  induction 1 as [|x a Hx Ha IH]; simpl; [rewrite same_refl; reflexivity|].
  destruct (same k x) eqn:E; [apply same_key in E; cbv beta in Hx; lia|]. rewrite IH. reflexivity.
Qed.

Lemma sins_lo e a b : Forall (fun x => fst x < fst e) a -> sins e (a ++ b) = a ++ sins e b.
Proof.
  induction 1 as [|x a Hx Ha IH]; simpl; [reflexivity|]. cbv beta in Hx.
  assert ((fst e <? fst x) = false) as -> by (apply Z.ltb_ge; lia).
  assert ((fst e =? fst x) = false) as -> by (apply Z.eqb_neq; lia). rewrite IH. reflexivity.
Qed.

Theorem insert_spec s e : Inv s ->
  Inv (fst (insert s e)) /\ chain (fst (insert s e)) = sins e (chain s) /\
  snd (insert s e) = match assoc (fst e) (chain s) with Some old => [old] | None => [] end.
Proof.
  intros (Hb & Hc & Hn). unfold insert.
  destruct (root s) as [|l0 k0 r0] eqn:Er.
  - cbn [fst snd]. rewrite Hc. simpl. repeat split; constructor.
  - destruct (splay_facts e (Node l0 k0 r0) ltac:(discriminate) Hb) as (l & k & r & c & Es & Ec & Eio & Hl & Hr).
    rewrite Es.
    assert (incr (io l ++ k :: io r)) as Hi by (rewrite Eio; apply bst_incr; exact Hb).
    pose proof Hi as Hi'. apply incr_app in Hi' as (Hil & (Hkr & Hir) & Hlk). cbn [incr] in *.
    assert (Forall (fun x => fst x < fst k) (io l)) as Hlk'.
    { eapply Forall_impl; [|exact Hlk]. intros x Hx. cbv beta in *. inversion Hx; subst. assumption. }
    rewrite Hc, <- Eio.
    destruct (Z.ltb_spec c 0) as [Hlt|Hge].
    + (* new root e, old root k goes right *)
      specialize (Hl Hlt). rewrite Ec in Hlt. apply cmpk_lt in Hlt. cbn [fst snd root chain count].
      rewrite ins_before_split by exact Hlk'. rewrite sins_lo by exact Hl. cbn [sins].
      assert ((fst e <? fst k) = true) as -> by (apply Z.ltb_lt; lia).
      rewrite assoc_app, assoc_none by (eapply Forall_impl; [|exact Hl]; intros x Hx; cbv beta in *; lia). cbn [assoc].
      assert ((fst k =? fst e) = false) as -> by (apply Z.eqb_neq; lia).
      rewrite assoc_none by (eapply Forall_impl; [|exact Hkr]; intros y Hy; cbv beta in *; lia).
      split; [|split; reflexivity]. split; [|split].
      * apply bst_incr. cbn [inorder app]. apply incr_app. repeat split; auto.
        -- constructor; [lia|]. eapply Forall_impl; [|exact Hkr]. intros y Hy. cbv beta in *. lia.
        -- eapply Forall_impl; [|exact Hl]. intros x Hx. cbv beta in *. constructor; [lia|]. constructor.
           ++ eapply Z.lt_trans; [exact Hx|exact Hlt].
           ++ eapply Forall_impl; [|exact Hkr]. intros y Hy. cbv beta in *. lia.
      * reflexivity.
      * cbn [count chain]. rewrite Hn, Hc, <- Eio. rewrite ?app_length. cbn [length]. rewrite ?app_length. cbn [length]. unfold el. lia.
    + destruct (Z.gtb_spec c 0) as [Hgt|Hle].
      * assert (c > 0) as Hgt' by lia. specialize (Hr Hgt'). rewrite Ec in Hgt'. apply cmpk_gt in Hgt'. cbn [fst snd root chain count].
        rewrite ins_after_split by exact Hlk'.
        assert (Forall (fun x => fst x < fst e) (io l ++ [k])) as Hlo.
        { apply Forall_app; split; [|repeat constructor; exact Hgt']. eapply Forall_impl; [|exact Hlk']. intros x Hx. cbv beta in *. lia. }
        replace (io l ++ k :: io r) with ((io l ++ [k]) ++ io r) by (rewrite <- app_assoc; reflexivity).
        rewrite sins_lo by exact Hlo. rewrite assoc_app, assoc_none by (eapply Forall_impl; [|exact Hlo]; intros x Hx; cbv beta in *; lia).
        assert (sins e (io r) = e :: io r) as ->.
        { destruct (io r) as [|y t]; [reflexivity|]. inversion Hr; subst. cbn [sins]. assert ((fst e <? fst y) = true) as -> by (apply Z.ltb_lt; assumption). reflexivity. }
        rewrite assoc_none by (eapply Forall_impl; [|exact Hr]; intros y Hy; cbv beta in *; lia).
        split; [|split; [rewrite <- app_assoc; reflexivity|reflexivity]]. split; [|split].
        -- apply bst_incr. cbn [inorder app]. apply incr_app. repeat split; auto.
           ++ apply incr_app. repeat split; auto. eapply Forall_impl; [|exact Hlk']. intros x Hx. cbv beta in *. repeat constructor. exact Hx.
           ++ eapply Forall_impl; [|exact Hlo]. intros x Hx. cbv beta in *. constructor; [exact Hx|].
              eapply Forall_impl; [|exact Hr]. intros y Hy. cbv beta in *. lia.
        -- cbn [chain root inorder]. rewrite <- app_assoc. reflexivity.
        -- cbn [count chain]. rewrite Hn, Hc, <- Eio. rewrite ?app_length. cbn [length]. rewrite ?app_length. cbn [length]. unfold el. lia.
      * (* equal key: replace the root *)
        assert (c = 0) as Hz by lia. rewrite Ec in Hz. apply cmpk_eq in Hz. cbn [fst snd root chain count].
        rewrite repl_split by exact Hlk'.
        assert (Forall (fun x => fst x < fst e) (io l)) as Hlo by (eapply Forall_impl; [|exact Hlk']; intros x Hx; cbv beta in *; lia).
        rewrite sins_lo by exact Hlo. cbn [sins].
        assert ((fst e <? fst k) = false) as -> by (apply Z.ltb_ge; lia). assert ((fst e =? fst k) = true) as -> by (apply Z.eqb_eq; lia).
        rewrite assoc_app, assoc_none by (eapply Forall_impl; [|exact Hlo]; intros x Hx; cbv beta in *; lia). cbn [assoc].
        assert ((fst k =? fst e) = true) as -> by (apply Z.eqb_eq; lia).
        split; [|split; reflexivity]. split; [|split].
        -- apply bst_incr. cbn [inorder]. apply incr_app. repeat split; auto.
           ++ eapply Forall_impl; [|exact Hkr]. intros y Hy. cbv beta in *. lia.
           ++ eapply Forall_impl; [|exact Hlk]. intros x Hx. cbv beta in *. inversion Hx; subst. constructor; [lia|assumption].
        -- reflexivity.
        -- cbn [count chain]. rewrite Hn, Hc, <- Eio. rewrite ?app_length. cbn [length]. rewrite ?app_length. cbn [length]. unfold el. lia.
Qed.
