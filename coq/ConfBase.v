(* Structural toolkit for ConfMerge: the two-list walk as a named function, unfolding equations, nested
   induction principles, key lists, sortedness predicates. *)
From Coq Require Import List NArith ZArith Bool Strings.Byte Lia.
Import ListNotations.
Require Import Conf ConfMerge ConfOrder.
Local Open Scope N_scope.

(* ---------- nested induction principles ---------- *)
Section ValInd.
  Variable P : val -> Prop.
  Hypothesis Hstr : forall v, P (VStr v).
  Hypothesis Hina : forall h s, P (VIna h s).
  Hypothesis Hlist : forall l, P (VList l).
  Hypothesis Hobj : forall ks, Forall (fun kf => P (snd kf)) ks -> P (VObj ks).
  Fixpoint val_ind' (f : val) : P f :=
    match f with
    | VStr v => Hstr v
    | VIna h s => Hina h s
    | VList l => Hlist l
    | VObj ks => Hobj ks ((fix go (l : list (str * val)) : Forall (fun kf => P (snd kf)) l :=
                             match l with [] => Forall_nil _ | kf :: r => Forall_cons kf (val_ind' (snd kf)) (go r) end) ks)
    end.
End ValInd.

Section LInd.
  Variable P : lnode -> Prop.
  Hypothesis Hstr : forall spec pres hook d v sub p, P (LStr spec pres hook d v sub p).
  Hypothesis Hina : forall spec pres hook dh ds h s, P (LIna spec pres hook dh ds h s).
  Hypothesis Hlist : forall spec pres hook d v, P (LList spec pres hook d v).
  Hypothesis Hobj : forall spec pres hook ks, Forall (fun kf => P (snd kf)) ks -> P (LObj spec pres hook ks).
  Fixpoint lnode_ind' (f : lnode) : P f :=
    match f with
    | LStr spec pres hook d v sub p => Hstr spec pres hook d v sub p
    | LIna spec pres hook dh ds h s => Hina spec pres hook dh ds h s
    | LList spec pres hook d v => Hlist spec pres hook d v
    | LObj spec pres hook ks => Hobj spec pres hook ks ((fix go (l : list (str * lnode)) : Forall (fun kf => P (snd kf)) l :=
                             match l with [] => Forall_nil _ | kf :: r => Forall_cons kf (lnode_ind' (snd kf)) (go r) end) ks)
    end.
End LInd.

(* ---------- the two-list walk of merge, with the recursive call abstracted ---------- *)
Definition mk_gen (mrg : str -> lnode -> val -> lnode * list ev) (path : str) :=
  fix mk (ts : list (str * lnode)) (ss : list (str * val)) {struct ss} : list (str * lnode) * list ev * bool :=
    match ss with
    | [] => revert_all path ts
    | (ks, s') :: ss' =>
        let (lo, hi) := span_lt ks (kind s') ts in
        let '(lo', e0, m0) := revert_all path lo in
        let '(rest, e1, m1) :=
          match hi with
          | (kt, t') :: hi' =>
              match kcmp kt (lkind t') ks (kind s') with
              | Eq => let '(t'', e) := mrg (pjoin path kt) t' s' in let '(r, e2, m) := mk hi' ss' in ((kt, t'') :: r, e ++ e2, m)
              | _ => let '(r, e2, m) := mk hi ss' in ((ks, splice s') :: r, e2, true)
              end
          | [] => let '(r, e2, m) := mk [] ss' in ((ks, splice s') :: r, e2, true)
          end in
        (lo' ++ rest, e0 ++ e1, m0 || m1)
    end.

Definition own (k : N) (path : str) (md hook : bool) : list ev := if md && hook then [(k, path)] else [].

Lemma merge_obj path t ss : merge path t (VObj ss) =
  match t with
  | LObj spec _ hook ks => let '(ks', e, md) := mk_gen merge path ks ss in (LObj spec true hook ks', e ++ own 3 path md hook)
  | _ => (splice (VObj ss), [])
  end.
Proof. reflexivity. Qed.

Lemma merge_str path t v : merge path t (VStr v) =
  match t with
  | LStr spec _ hook d _ sub p => let '(v', p', e) := parse_value hook path d (Some v) sub p true in (LStr spec true hook d v' sub p', e)
  | _ => (splice (VStr v), [])
  end.
Proof. reflexivity. Qed.

Lemma revert_go path ks :
  (fix go (l : list (str * lnode)) : list (str * lnode) * list ev * bool :=
     match l with
     | [] => ([], [], false)
     | (n, x) :: r => let '(x', e1) := revert (pjoin path n) x in
                      let '(r', e2, m) := go r in
                      match x' with Some y => ((n, y) :: r', e1 ++ e2, m) | None => (r', e1 ++ e2, true) end
     end) ks = revert_all path ks.
Proof. induction ks as [|[n x] r IH]; cbn [revert_all]; [reflexivity|]. rewrite IH. reflexivity. Qed.

Lemma revert_obj path spec pres hook ks : revert path (LObj spec pres hook ks) =
  if pres then let '(ks', e, md) := revert_all path ks in (keep spec (LObj spec false hook ks'), e ++ own 3 path md hook)
  else (keep spec (LObj spec false hook ks), []).
Proof. destruct pres; [|reflexivity]. rewrite <- revert_go. reflexivity. Qed.

(* first/second/third components of the triples *)
Definition t1 {A B C} (x : A * B * C) : A := fst (fst x).
Definition t2 {A B C} (x : A * B * C) : B := snd (fst x).
Definition t3 {A B C} (x : A * B * C) : C := snd x.
Lemma triple_eta {A B C} (x : A * B * C) : x = (t1 x, t2 x, t3 x).
Proof. destruct x as [[a b] c]. reflexivity. Qed.

(* ---------- pure parse_value core ---------- *)
Definition orelse {A} (a b : option A) : option A := match a with None => b | _ => a end.
Definition pv2 (f : list ev) (value : option str) (sub : N) (parsed : pv) (had_orig : bool) : option str * pv * list ev :=
  match value with
  | None => (None, if sub =? 0 then PNone else PInt 0, if had_orig then f else [])
  | Some v =>
    if sub =? 0 then (value, PStr v, if match parsed with PStr p => seq_eq p v | _ => false end then [] else f)
    else let '(z, ok) := typed sub v in
         let same := match parsed with PInt c => (c =? z)%Z | PNone => (z =? 0)%Z | PStr _ => false end in
         if ok && negb same then (value, PInt z, f) else (value, parsed, [])
  end.
Lemma parse_value_pv2 hook path d value sub parsed ho :
  parse_value hook path d value sub parsed ho = pv2 (if hook then [(0, path)] else []) (orelse value d) sub parsed ho.
Proof. reflexivity. Qed.

Lemma pv2_value f value sub p ho : t1 (pv2 f value sub p ho) = value.
Proof.
  unfold pv2. destruct value as [v|]; [|reflexivity]. destruct (sub =? 0); [reflexivity|].
  destruct (typed sub v) as [z ok]. destruct (ok && negb _); reflexivity.
Qed.

(* the tree part does not depend on the hook list *)
Lemma pv2_tree f g value sub p ho ho' : t1 (pv2 f value sub p ho) = t1 (pv2 g value sub p ho') /\ t2 (pv2 f value sub p ho) = t2 (pv2 g value sub p ho').
Proof.
  unfold pv2. destruct value as [v|]; [|split; reflexivity]. destruct (sub =? 0); [split; reflexivity|].
  destruct (typed sub v) as [z ok]. destruct (ok && negb _); split; reflexivity.
Qed.

Lemma pv2_idem f value sub p ho ho' : (value = None -> ho' = false) ->
  pv2 f value sub (t2 (pv2 f value sub p ho)) ho' = (value, t2 (pv2 f value sub p ho), []).
Proof.
  intros Hn. unfold pv2. destruct value as [v|].
  - destruct (sub =? 0) eqn:Es.
    + cbn [t2 fst snd]. rewrite seq_eq_refl. reflexivity.
    + destruct (typed sub v) as [z ok] eqn:Et.
      destruct (ok && negb match p with PNone => (z =? 0)%Z | PStr _ => false | PInt c => (c =? z)%Z end) eqn:Ec; cbn [t2 fst snd].
      * rewrite Z.eqb_refl, andb_false_r. reflexivity.
      * rewrite Ec. reflexivity.
  - cbn [t2 fst snd]. rewrite (Hn eq_refl). reflexivity.
Qed.

(* ---------- keys ---------- *)
Definition key := (str * N)%type.
Definition kc (a b : key) : comparison := kcmp (fst a) (snd a) (fst b) (snd b).
Definition lkey (e : str * lnode) : key := (fst e, lkind (snd e)).
Definition vkey (e : str * val) : key := (fst e, kind (snd e)).

Definition all_lt (k : key) (l : list key) : Prop := Forall (fun x => kc x k = Lt) l.
Definition all_gt (k : key) (l : list key) : Prop := Forall (fun x => kc k x = Lt) l.

Fixpoint ksorted (l : list key) : Prop := match l with [] => True | k :: r => all_gt k r /\ ksorted r end.

Lemma all_gt_trans a b l : kc a b = Lt -> all_gt b l -> all_gt a l.
Proof. intros H. unfold all_gt. apply Forall_impl. intros x Hx. unfold kc in *. eapply kcmp_lt_trans; eassumption. Qed.
Lemma all_gt_eq a b l : kc a b = Eq -> all_gt b l -> all_gt a l.
Proof. intros H. unfold all_gt. apply Forall_impl. intros x Hx. unfold kc in *. rewrite (kcmp_eq_l _ _ _ _ (fst x) (snd x) H). exact Hx. Qed.
Lemma all_lt_eq a b l : kc a b = Eq -> all_lt a l -> all_lt b l.
Proof. intros H. unfold all_lt. apply Forall_impl. intros x Hx. unfold kc in *. rewrite <- (kcmp_eq_r (fst x) (snd x) _ _ _ _ H). exact Hx. Qed.

Lemma ksorted_app l1 l2 : ksorted (l1 ++ l2) <-> ksorted l1 /\ ksorted l2 /\ Forall (fun a => all_gt a l2) l1.
Proof.
  induction l1 as [|a l1 IH]; cbn [app ksorted].
  - split; [intros H; repeat split; [exact H|constructor]|intros (_ & H & _); exact H].
  - unfold all_gt at 1. rewrite Forall_app, IH. fold (all_gt a l1). fold (all_gt a l2). split.
    + intros ((A & B) & C & D & E). repeat split; try assumption. constructor; assumption.
    + intros ((A & C) & D & E). inversion E; subst. repeat split; assumption.
Qed.

(* recursive sortedness of live and file trees *)
Fixpoint lsorted (l : lnode) : Prop :=
  match l with
  | LObj _ _ _ ks => ksorted (map lkey ks) /\
                     (fix go (ks : list (str * lnode)) : Prop := match ks with [] => True | nv :: r => lsorted (snd nv) /\ go r end) ks
  | _ => True
  end.
Fixpoint vsorted (v : val) : Prop :=
  match v with
  | VObj ks => ksorted (map vkey ks) /\
               (fix go (ks : list (str * val)) : Prop := match ks with [] => True | nv :: r => vsorted (snd nv) /\ go r end) ks
  | _ => True
  end.
Definition lsorted_kids (ks : list (str * lnode)) : Prop := ksorted (map lkey ks) /\ Forall (fun nv => lsorted (snd nv)) ks.
Definition vsorted_kids (ks : list (str * val)) : Prop := ksorted (map vkey ks) /\ Forall (fun nv => vsorted (snd nv)) ks.

Lemma lsorted_obj spec pres hook ks : lsorted (LObj spec pres hook ks) <-> lsorted_kids ks.
Proof.
  unfold lsorted_kids. cbn [lsorted]. apply and_iff_compat_l.
  induction ks as [|nv r IH]; [split; constructor|]. rewrite IH. split.
  - intros [A B]. constructor; assumption.
  - intros H. inversion H; subst. split; assumption.
Qed.
Lemma vsorted_obj ks : vsorted (VObj ks) <-> vsorted_kids ks.
Proof.
  unfold vsorted_kids. cbn [vsorted]. apply and_iff_compat_l.
  induction ks as [|nv r IH]; [split; constructor|]. rewrite IH. split.
  - intros [A B]. constructor; assumption.
  - intros H. inversion H; subst. split; assumption.
Qed.
Global Opaque lsorted vsorted.

(* ---------- span_lt ---------- *)
Lemma span_lt_spec n k ts : forall lo hi, span_lt n k ts = (lo, hi) ->
  ts = lo ++ hi /\ all_lt (n, k) (map lkey lo) /\ match hi with e :: _ => kc (lkey e) (n, k) <> Lt | [] => True end.
Proof.
  induction ts as [|[kt t] r IH]; cbn [span_lt]; intros lo hi H.
  - inversion H; subst. repeat split; constructor.
  - destruct (kcmp kt (lkind t) n k) eqn:E.
    + inversion H; subst. repeat split; [constructor|]. unfold kc, lkey; cbn [fst snd]. congruence.
    + destruct (span_lt n k r) as [a b]. inversion H; subst.
      destruct (IH a hi eq_refl) as (E1 & E2 & E3). subst r. repeat split; auto.
      cbn [map]. constructor; [exact E|exact E2].
    + inversion H; subst. repeat split; [constructor|]. unfold kc, lkey; cbn [fst snd]. congruence.
Qed.

Lemma span_lt_app n k lo hi : all_lt (n, k) (map lkey lo) -> match hi with e :: _ => kc (lkey e) (n, k) <> Lt | [] => True end ->
  span_lt n k (lo ++ hi) = (lo, hi).
Proof.
  induction lo as [|[kk t] r IH]; cbn [map app]; intros H1 H2.
  - destruct hi as [|[kt t] hi]; [reflexivity|]. cbn [span_lt]. unfold kc, lkey in H2; cbn [fst snd] in H2.
    destruct (kcmp kt (lkind t) n k); try reflexivity. congruence.
  - inversion H1; subst. cbn [span_lt]. unfold kc, lkey in H3; cbn [fst snd] in H3. rewrite H3, IH by assumption. reflexivity.
Qed.

(* ---------- kinds ---------- *)
Lemma splice_kind s : lkind (splice s) = kind s.
Proof. destruct s; reflexivity. Qed.

Lemma merge_kind path t s : lkind (fst (merge path t s)) = kind s.
Proof.
  destruct s as [v|h sv|l|ss].
  - rewrite merge_str. destruct t; try reflexivity. destruct (parse_value _ _ _ _ _ _ _) as [[a b] c]. reflexivity.
  - destruct t; reflexivity.
  - destruct t; reflexivity.
  - rewrite merge_obj. destruct t; try reflexivity. destruct (mk_gen _ _ _ _) as [[a b] c]. reflexivity.
Qed.

Lemma revert_kind path l y e : revert path l = (Some y, e) -> lkind y = lkind l /\ lspec l = true.
Proof.
  destruct l as [spec pres hook d v sub p|spec pres hook dh ds h s|spec pres hook d v|spec pres hook ks].
  - cbn [revert]. destruct (parse_value _ _ _ _ _ _ _) as [[a b] c]. destruct spec; cbn [keep]; intros H; inversion H; subst; split; reflexivity.
  - cbn [revert]. destruct spec; cbn [keep]; intros H; inversion H; subst; split; reflexivity.
  - cbn [revert]. destruct spec; cbn [keep]; intros H; inversion H; subst; split; reflexivity.
  - rewrite revert_obj. destruct pres; [destruct (revert_all path ks) as [[a b] c]|]; destruct spec; cbn [keep]; intros H; inversion H; subst; split; reflexivity.
Qed.
Lemma revert_spec path l e : revert path l = (None, e) -> lspec l = false.
Proof.
  destruct l as [spec pres hook d v sub p|spec pres hook dh ds h s|spec pres hook d v|spec pres hook ks].
  - cbn [revert]. destruct (parse_value _ _ _ _ _ _ _) as [[a b] c]. destruct spec; cbn [keep]; intros H; inversion H; subst; reflexivity.
  - cbn [revert]. destruct spec; cbn [keep]; intros H; inversion H; subst; reflexivity.
  - cbn [revert]. destruct spec; cbn [keep]; intros H; inversion H; subst; reflexivity.
  - rewrite revert_obj. destruct pres; [destruct (revert_all path ks) as [[a b] c]|]; destruct spec; cbn [keep]; intros H; inversion H; subst; reflexivity.
Qed.

(* revert_all keeps a sublist of the keys *)
Inductive sub_keys : list key -> list key -> Prop :=
| sk_nil : sub_keys [] []
| sk_keep k a b : sub_keys a b -> sub_keys (k :: a) (k :: b)
| sk_drop k a b : sub_keys a b -> sub_keys a (k :: b).

Lemma revert_all_keys path ts : sub_keys (map lkey (t1 (revert_all path ts))) (map lkey ts).
Proof.
  induction ts as [|[n x] r IH]; cbn [revert_all]; [constructor|].
  destruct (revert (pjoin path n) x) as [[y|] e1] eqn:E; rewrite (triple_eta (revert_all path r)).
  - cbn [t1 fst map]. apply revert_kind in E as [E _]. unfold lkey at 1 3; cbn [fst snd]. rewrite E. constructor. exact IH.
  - cbn [t1 fst map]. constructor. exact IH.
Qed.

Lemma sub_keys_Forall P a b : sub_keys a b -> Forall P b -> Forall P a.
Proof. induction 1; intros HF; [constructor|inversion HF; subst; constructor; auto|inversion HF; subst; auto]. Qed.

Lemma sub_keys_sorted a b : sub_keys a b -> ksorted b -> ksorted a.
Proof.
  induction 1; cbn [ksorted]; intros HS; [exact I| |].
  - destruct HS as [H1 H2]. split; [eapply sub_keys_Forall; eassumption|auto].
  - destruct HS as [H1 H2]. auto.
Qed.
