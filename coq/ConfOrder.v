(* Order facts about the key comparison of the configuration tree: scmp (strcasecmp on bytes) and kcmp
   (case-folded name, then kind).  No byte is ever destructed: everything goes through N.compare on nb (lower x). *)
From Coq Require Import List NArith ZArith Bool Strings.Byte Lia.
Import ListNotations.
Require Import Conf ConfMerge.
Local Open Scope N_scope.

Lemma beq_refl c : beq c c = true. Proof. unfold beq. apply Byte.byte_dec_lb. reflexivity. Qed.
Lemma beq_eq a b : beq a b = true -> a = b. Proof. apply Byte.byte_dec_bl. Qed.

Lemma seq_eq_refl a : seq_eq a a = true.
Proof. induction a as [|x a IH]; cbn [seq_eq]; [reflexivity|]. rewrite beq_refl, IH. reflexivity. Qed.
Lemma seq_eq_eq a : forall b, seq_eq a b = true -> a = b.
Proof.
  induction a as [|x a IH]; intros [|y b] H; cbn [seq_eq] in H; try discriminate; [reflexivity|].
  apply andb_true_iff in H as [H1 H2]. apply beq_eq in H1. apply IH in H2. subst. reflexivity.
Qed.
Lemma seq_eq_iff a b : seq_eq a b = true <-> a = b.
Proof. split; [apply seq_eq_eq|intros ->; apply seq_eq_refl]. Qed.
Lemma leq_refl l : leq l l = true.
Proof. induction l as [|x l IH]; cbn [leq]; [reflexivity|]. rewrite seq_eq_refl, IH. reflexivity. Qed.
Lemma leq_eq a : forall b, leq a b = true -> a = b.
Proof.
  induction a as [|x a IH]; intros [|y b] H; cbn [leq] in H; try discriminate; [reflexivity|].
  apply andb_true_iff in H as [H1 H2]. apply seq_eq_eq in H1. apply IH in H2. subst. reflexivity.
Qed.
Lemma leq_iff a b : leq a b = true <-> a = b.
Proof. split; [apply leq_eq|intros ->; apply leq_refl]. Qed.
Lemma oeq_iff a b : oeq a b = true <-> a = b.
Proof.
  destruct a as [a|], b as [b|]; cbn [oeq]; try (split; [discriminate|discriminate]); [|split; reflexivity].
  rewrite seq_eq_iff. split; [intros ->; reflexivity|intros H; inversion H; reflexivity].
Qed.

(* ---------- scmp ---------- *)
Lemma scmp_refl a : scmp a a = Eq.
Proof. induction a as [|x a IH]; cbn [scmp]; [reflexivity|]. rewrite N.compare_refl. exact IH. Qed.

Lemma scmp_antisym a : forall b, scmp b a = CompOpp (scmp a b).
Proof.
  induction a as [|x a IH]; intros [|y b]; cbn [scmp]; try reflexivity.
  rewrite (N.compare_antisym (nb (lower y)) (nb (lower x))).
  destruct (nb (lower y) ?= nb (lower x)); cbn [CompOpp]; [apply IH|reflexivity|reflexivity].
Qed.

Lemma scmp_eq_l a : forall b c, scmp a b = Eq -> scmp a c = scmp b c.
Proof.
  induction a as [|x a IH]; intros [|y b] c H; cbn [scmp] in H; try discriminate; [reflexivity|].
  destruct (nb (lower x) ?= nb (lower y)) eqn:E; try discriminate.
  apply N.compare_eq_iff in E. destruct c as [|z c]; cbn [scmp]; [reflexivity|].
  rewrite E. destruct (nb (lower y) ?= nb (lower z)); [apply IH; exact H|reflexivity|reflexivity].
Qed.

Lemma scmp_eq_r a b c : scmp b c = Eq -> scmp a b = scmp a c.
Proof.
  intros H. rewrite (scmp_antisym b a), (scmp_antisym c a). f_equal. apply scmp_eq_l. exact H.
Qed.

Lemma scmp_eq_sym a b : scmp a b = Eq -> scmp b a = Eq.
Proof. intros H. rewrite scmp_antisym, H. reflexivity. Qed.

Lemma scmp_lt_trans a : forall b c, scmp a b = Lt -> scmp b c = Lt -> scmp a c = Lt.
Proof.
  induction a as [|x a IH]; intros [|y b] [|z c] H1 H2; cbn [scmp] in *; try discriminate; try reflexivity.
  destruct (nb (lower x) ?= nb (lower y)) eqn:E1; try discriminate;
  destruct (nb (lower y) ?= nb (lower z)) eqn:E2; try discriminate.
  - apply N.compare_eq_iff in E1, E2. rewrite E1, E2, N.compare_refl. eapply IH; eassumption.
  - apply N.compare_eq_iff in E1. rewrite E1, E2. reflexivity.
  - apply N.compare_eq_iff in E2. rewrite <- E2, E1. reflexivity.
  - rewrite N.compare_lt_iff in *. assert (nb (lower x) < nb (lower z)) as L by lia.
    apply N.compare_lt_iff in L. rewrite L. reflexivity.
Qed.

(* ---------- kcmp ---------- *)
Lemma kcmp_refl n k : kcmp n k n k = Eq.
Proof. unfold kcmp. rewrite scmp_refl. apply N.compare_refl. Qed.

Lemma kcmp_antisym n1 k1 n2 k2 : kcmp n2 k2 n1 k1 = CompOpp (kcmp n1 k1 n2 k2).
Proof.
  unfold kcmp. rewrite (scmp_antisym n1 n2). destruct (scmp n1 n2); cbn [CompOpp]; try reflexivity.
  apply N.compare_antisym.
Qed.

Lemma kcmp_eq n1 k1 n2 k2 : kcmp n1 k1 n2 k2 = Eq -> scmp n1 n2 = Eq /\ k1 = k2.
Proof.
  unfold kcmp. destruct (scmp n1 n2); try discriminate. intros H. apply N.compare_eq_iff in H. auto.
Qed.

Lemma kcmp_eq_intro n1 n2 k : scmp n1 n2 = Eq -> kcmp n1 k n2 k = Eq.
Proof. unfold kcmp. intros ->. apply N.compare_refl. Qed.

Lemma kcmp_eq_l n1 k1 n2 k2 n3 k3 : kcmp n1 k1 n2 k2 = Eq -> kcmp n1 k1 n3 k3 = kcmp n2 k2 n3 k3.
Proof.
  intros H. apply kcmp_eq in H as [H ->]. unfold kcmp. rewrite (scmp_eq_l _ _ n3 H). reflexivity.
Qed.

Lemma kcmp_eq_r n1 k1 n2 k2 n3 k3 : kcmp n2 k2 n3 k3 = Eq -> kcmp n1 k1 n2 k2 = kcmp n1 k1 n3 k3.
Proof.
  intros H. apply kcmp_eq in H as [H ->]. unfold kcmp. rewrite (scmp_eq_r n1 _ _ H). reflexivity.
Qed.

Lemma kcmp_eq_sym n1 k1 n2 k2 : kcmp n1 k1 n2 k2 = Eq -> kcmp n2 k2 n1 k1 = Eq.
Proof. intros H. rewrite kcmp_antisym, H. reflexivity. Qed.

Lemma kcmp_lt_gt n1 k1 n2 k2 : kcmp n1 k1 n2 k2 = Lt <-> kcmp n2 k2 n1 k1 = Gt.
Proof.
  rewrite (kcmp_antisym n1 k1 n2 k2). destruct (kcmp n1 k1 n2 k2); cbn [CompOpp]; split; intros; congruence.
Qed.

Lemma kcmp_lt_trans n1 k1 n2 k2 n3 k3 : kcmp n1 k1 n2 k2 = Lt -> kcmp n2 k2 n3 k3 = Lt -> kcmp n1 k1 n3 k3 = Lt.
Proof.
  unfold kcmp. intros H1 H2.
  destruct (scmp n1 n2) eqn:E1; try discriminate; destruct (scmp n2 n3) eqn:E2; try discriminate.
  - rewrite (scmp_eq_l _ _ n3 E1), E2. rewrite N.compare_lt_iff in *. lia.
  - rewrite (scmp_eq_l _ _ n3 E1), E2. reflexivity.
  - rewrite <- (scmp_eq_r n1 _ _ E2), E1. reflexivity.
  - rewrite (scmp_lt_trans _ _ _ E1 E2). reflexivity.
Qed.

Lemma ci_diff_refl a : ci_diff a a = false.
Proof. destruct a as [a|]; cbn [ci_diff]; [|reflexivity]. rewrite scmp_refl. reflexivity. Qed.
