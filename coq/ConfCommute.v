(* C15, order of registration and load: registering a setting and then loading a file gives the same tree as
   loading the file and then registering the setting (hooks aside). *)
From Coq Require Import List NArith ZArith Bool Strings.Byte Lia.
Import ListNotations.
Require Import Conf ConfMerge ConfOrder ConfBase ConfIdem ConfSorted ConfWalk ConfHooks ConfValues ConfHistory.
Local Open Scope N_scope.

(* ---------- lookups after an upsert ---------- *)
Lemma lookupe_upsertl n k f kids : ksorted (map lkey kids) -> (forall o, lkind (f o) = k) -> forall n' k',
  lookupe n' k' (upsertl n k f kids) =
  match kcmp n' k' n k with Eq => Some (lookup_name n k kids, f (lookupl n k kids)) | _ => lookupe n' k' kids end.
Proof.
  intros Hs Hf n' k'. induction kids as [|[m v] r IH]; cbn [upsertl lookupe lookup_name lookupl].
  - rewrite Hf. destruct (kcmp n' k' n k); reflexivity.
  - cbn [map ksorted] in Hs. destruct Hs as [Hs1 Hs2]. specialize (IH Hs2).
    destruct (kcmp n k m (lkind v)) eqn:E; cbn [lookupe].
    + rewrite Hf. pose proof (kcmp_eq _ _ _ _ E) as [_ Ek]. rewrite (kcmp_eq_r n' k' _ _ _ _ E). rewrite <- Ek.
      destruct (kcmp n' k' m k); reflexivity.
    + rewrite Hf.
      assert (lookupe n k r = None) as Hn.
      { apply lookupe_none_gt. eapply all_gt_trans'; [exact E|exact Hs1]. }
      rewrite lookup_name_e, lookupl_e, Hn. cbn [option_map]. reflexivity.
    + destruct (kcmp n' k' n k) eqn:E'.
      * rewrite (kcmp_eq_l _ _ _ _ m (lkind v) E'), E. rewrite IH. reflexivity.
      * rewrite IH. reflexivity.
      * rewrite IH. reflexivity.
Qed.

Definition oeqv (a b : option (str * lnode)) : Prop :=
  match a, b with
  | None, None => True
  | Some (m, c), Some (m', c') => scmp m m' = Eq /\ leqv c c'
  | _, _ => False
  end.
Lemma oeqv_refl a : oeqv a a.
Proof. destruct a as [[m c]|]; cbn; [split; [apply scmp_refl|apply leqv_refl]|exact I]. Qed.

(* ---------- the generic argument ---------- *)
Section Commute.
  Variables (n : str) (k : N) (fA fB : option lnode -> lnode).
  Variables (st : list (str * lnode)) (tree : list (str * val)) (path : str).
  Hypothesis HfA : forall o, lkind (fA o) = k.
  Hypothesis HfB : forall o, lkind (fB o) = k.
  Hypothesis HsA : forall o, lspec (fA o) = true.
  Hypothesis Hst : ksorted (map lkey st).
  Hypothesis Htree : ksorted (map vkey tree).
  (* the registered key itself *)
  Hypothesis Hset : forall nf s', lookupv n k tree = Some (nf, s') -> forall p,
    leqv (fst (merge p (fA (lookupl n k st)) s'))
         (fB (Some (match lookupl n k st with Some t => fst (merge p t s') | None => splice s' end))).
  Hypothesis Hunset : lookupv n k tree = None ->
    leqv (rvt (fA (lookupl n k st)))
         (fB (match lookupl n k st with Some t => if lspec t then Some (rvt t) else None | None => None end)).

  Theorem commute_gen : forall n' k',
    oeqv (lookupe n' k' (t1 (mk_gen merge path (upsertl n k fA st) tree)))
         (lookupe n' k' (upsertl n k fB (t1 (mk_gen merge path st tree)))).
  Proof.
    intros n' k'.
    pose proof (upsertl_sorted n k fA st HfA Hst) as Hst1.
    pose proof (mk_sorted_keys merge path merge_kind tree st Hst Htree) as HB0.
    destruct (mk_char merge path merge_kind tree _ Hst1 Htree) as (CA & _ & _).
    destruct (mk_char merge path merge_kind tree _ Hst Htree) as (CB & _ & _).
    rewrite CA, (lookupe_upsertl n k fB _ HB0 HfB). unfold new_entry at 1.
    rewrite (lookupe_upsertl n k fA st Hst HfA).
    destruct (kcmp n' k' n k) eqn:E.
    - (* the registered key *)
      rewrite (lookupv_eq _ _ _ _ tree E).
      rewrite (lookup_name_e n k (t1 (mk_gen merge path st tree))), (lookupl_e n k (t1 (mk_gen merge path st tree))), CB. unfold new_entry.
      rewrite (lookup_name_e n k st). rewrite (lookupl_e n k st) in Hset, Hunset. rewrite (lookupl_e n k st).
      destruct (lookupv n k tree) as [[nf s']|] eqn:Ev.
      + specialize (Hset nf s' eq_refl). apply lookupv_key in Ev as [Ev _]. apply kcmp_eq in Ev as [Ev _].
        destruct (lookupe n k st) as [[m t]|] eqn:El; cbn [option_map snd oeqv] in *.
        * split; [apply scmp_refl|apply Hset].
        * split; [exact Ev|apply Hset].
      + specialize (Hunset eq_refl). unfold rev_entry. cbn [fst snd]. rewrite revert_fst, HsA. cbn [keep oeqv].
        destruct (lookupe n k st) as [[m t]|] eqn:El; cbn [option_map snd] in *.
        * apply lookupe_key in El as [El _]. apply kcmp_eq in El as [El _].
          unfold rev_entry. cbn [fst snd]. rewrite revert_fst. destruct (lspec t); cbn [keep option_map snd].
          -- split; [apply scmp_refl|exact Hunset].
          -- split; [apply scmp_eq_sym; exact El|exact Hunset].
        * split; [apply scmp_refl|exact Hunset].
    - rewrite CB. apply oeqv_refl.
    - rewrite CB. apply oeqv_refl.
  Qed.
End Commute.

(* ---------- lists ---------- *)
Definition reg_list_f (d : list str) (o : option lnode) : lnode :=
  match o with Some (LList _ p _ _ v) => LList true p true d (if p then v else d) | _ => LList true false true d d end.
Lemma do_reg_list kids n d : fst (do_reg kids (RegList n d)) = upsertl n 2 (reg_list_f d) kids.
Proof. reflexivity. Qed.

Definition kidsof (l : lnode) : list (str * lnode) := match l with LObj _ _ _ ks => ks | _ => [] end.
Definition reg_then_load (st : list (str * lnode)) (r : reg) (tree : list (str * val)) : list (str * lnode) :=
  kidsof (fst (merge [] (LObj true true false (fst (do_reg st r))) (VObj tree))).
Definition load_then_reg (st : list (str * lnode)) (r : reg) (tree : list (str * val)) : list (str * lnode) :=
  fst (do_reg (kidsof (fst (merge [] (LObj true true false st) (VObj tree)))) r).

Lemma lkind2 t : lkind t = 2 -> exists spec pres hook d v, t = LList spec pres hook d v.
Proof. destruct t; cbn [lkind]; try discriminate. intros _. eauto 10. Qed.
Lemma kind2 s : kind s = 2 -> exists l, s = VList l.
Proof. destruct s; cbn [kind]; try discriminate. intros _. eauto. Qed.
Lemma lkind0 t : lkind t = 0 -> exists spec pres hook d v sub p, t = LStr spec pres hook d v sub p.
Proof. destruct t; cbn [lkind]; try discriminate. intros _. eauto 10. Qed.
Lemma kind0 s : kind s = 0 -> exists x, s = VStr x.
Proof. destruct s; cbn [kind]; try discriminate. intros _. eauto. Qed.

Lemma lookupl_kind n k kids t : lookupl n k kids = Some t -> lkind t = k.
Proof.
  rewrite lookupl_e. destruct (lookupe n k kids) as [[m c]|] eqn:E; [|discriminate]. cbn. intros H. inversion H; subst.
  apply lookupe_key in E as [E _]. apply kcmp_eq in E. symmetry. tauto.
Qed.
Lemma lookupv_kind n k kids nf s : lookupv n k kids = Some (nf, s) -> kind s = k.
Proof. intros E. apply lookupv_key in E as [E _]. apply kcmp_eq in E. symmetry. tauto. Qed.

Theorem register_commutes_with_load_list st n d tree :
  lsorted_kids st -> vsorted_kids tree ->
  forall n' k', oeqv (lookupe n' k' (reg_then_load st (RegList n d) tree)) (lookupe n' k' (load_then_reg st (RegList n d) tree)).
Proof.
  intros [Hst _] [Htree _] n' k'. unfold reg_then_load, load_then_reg. rewrite !merge_obj_fst, !do_reg_list. cbn [kidsof].
  apply commute_gen; try assumption.
  - intros [[]|]; reflexivity.
  - intros [[]|]; reflexivity.
  - intros [[]|]; reflexivity.
  - intros nf s' Ev p1. apply lookupv_kind, kind2 in Ev as [l ->].
    destruct (lookupl n 2 st) as [t|] eqn:El.
    + apply lookupl_kind, lkind2 in El as (spec & pres & hook & d0 & v0 & ->). cbn [reg_list_f merge fst]. apply leqv_refl.
    + cbn [reg_list_f merge fst splice]. apply leqv_refl.
  - intros _. destruct (lookupl n 2 st) as [t|] eqn:El.
    + apply lookupl_kind, lkind2 in El as (spec & pres & hook & d0 & v0 & ->). cbn [lspec reg_list_f rvt].
      destruct spec; cbn [reg_list_f]; apply leqv_refl.
    + cbn [reg_list_f rvt]. apply leqv_refl.
Qed.

(* ---------- strings ---------- *)
Definition opres (o : option lnode) : bool := match o with Some (LStr _ p _ _ _ _ _) => p | _ => false end.
Definition oval (o : option lnode) : option str := match o with Some (LStr _ _ _ _ v _ _) => v | _ => None end.
Definition reg_str_node (o : option lnode) (name : str) (sub : N) (d : option str) : lnode :=
  let '(pres, hook, value, osub, parsed) :=
    match o with Some (LStr _ p h _ v s pa) => (p, h, v, s, pa) | _ => (false, false, None, 0, PNone) end in
  let parsed := if osub =? sub then parsed else PNone in
  let '(v', p', e) := parse_value hook name d value sub parsed (match value with Some _ => true | None => false end) in
  LStr true pres true d v' sub p'.
Lemma do_reg_str kids n sub d :
  fst (do_reg kids (RegStr n sub d)) = upsertl n 0 (fun _ => reg_str_node (lookupl n 0 kids) (lookup_name n 0 kids) sub d) kids.
Proof.
  cbn [do_reg]. unfold reg_str_node.
  destruct (match lookupl n 0 kids with Some (LStr _ p h _ v s pa) => (p, h, v, s, pa) | _ => (false, false, None, 0, PNone) end) as [[[[pres hook] value] osub] parsed].
  destruct (parse_value _ _ _ _ _ _ _) as [[v' p'] e]. reflexivity.
Qed.
Lemma reg_str_node_form o name sub d :
  exists p', reg_str_node o name sub d = LStr true (opres o) true d (orelse (oval o) d) sub p' /\ pcons sub (orelse (oval o) d) p'.
Proof.
  unfold reg_str_node, opres, oval.
  assert (forall pres hook value osub parsed,
    exists p', (let parsed0 := if osub =? sub then parsed else PNone in
                let '(v', p'0, _) := parse_value hook name d value sub parsed0 (match value with Some _ => true | None => false end) in
                LStr true pres true d v' sub p'0) = LStr true pres true d (orelse value d) sub p' /\ pcons sub (orelse value d) p') as G.
  { intros pres hook value osub parsed. cbn zeta. rewrite parse_value_pv2.
    set (r := pv2 _ _ _ _ _). exists (t2 r). rewrite (triple_eta r). unfold r. rewrite pv2_value. split; [reflexivity|apply pv2_pcons]. }
  destruct o as [[spec p h d0 v s pa| | |]|]; apply G.
Qed.

Definition final_text (n : str) (d : option str) (tree : list (str * val)) : option str :=
  match lookup n 0 tree with Some (VStr x) => Some x | _ => d end.

Theorem register_commutes_with_load_str st n sub d tree :
  lsorted_kids st -> vsorted_kids tree ->
  (* not registered before with another default (the C code keeps the old default's text in that case) *)
  match lookupl n 0 st with Some (LStr true _ _ (Some d0) _ _ _) => d = Some d0 | _ => True end ->
  (* carve-out: the text the setting ends up with parses (an unparsable text keeps the previous parsed value) *)
  match final_text n d tree with Some x => sub <> 0 -> snd (typed sub x) = true | None => True end ->
  forall n' k', oeqv (lookupe n' k' (reg_then_load st (RegStr n sub d) tree)) (lookupe n' k' (load_then_reg st (RegStr n sub d) tree)).
Proof.
  intros [Hst _] [Htree _] Hre Hpa n' k'. unfold reg_then_load, load_then_reg. rewrite !merge_obj_fst, !do_reg_str. cbn [kidsof].
  unfold final_text in Hpa. rewrite lookup_v in Hpa.
  set (B0 := t1 (mk_gen merge [] st tree)).
  apply (commute_gen n 0 (fun _ => reg_str_node (lookupl n 0 st) (lookup_name n 0 st) sub d)
                         (fun _ => reg_str_node (lookupl n 0 B0) (lookup_name n 0 B0) sub d)); try assumption.
  - intros _. destruct (reg_str_node_form (lookupl n 0 st) (lookup_name n 0 st) sub d) as (p' & -> & _). reflexivity.
  - intros _. destruct (reg_str_node_form (lookupl n 0 B0) (lookup_name n 0 B0) sub d) as (p' & -> & _). reflexivity.
  - intros _. destruct (reg_str_node_form (lookupl n 0 st) (lookup_name n 0 st) sub d) as (p' & -> & _). reflexivity.
  - (* the file sets it *)
    intros nf s' Ev p1. rewrite Ev in Hpa. cbn [option_map snd] in Hpa.
    pose proof (lookupv_kind _ _ _ _ _ Ev) as Hk. apply kind0 in Hk as [x ->].
    destruct (reg_str_node_form (lookupl n 0 st) (lookup_name n 0 st) sub d) as (pA & -> & _).
    destruct (reg_str_node_form (lookupl n 0 B0) (lookup_name n 0 B0) sub d) as (pB & -> & HpB).
    rewrite merge_str_str. cbn [fst].
    (* what load-then-register finds *)
    assert (opres (lookupl n 0 B0) = true /\ oval (lookupl n 0 B0) = Some x) as [E1 E2].
    { unfold B0. destruct (mk_char merge [] merge_kind tree st Hst Htree) as (C & _ & _).
      rewrite lookupl_e, C. unfold new_entry. rewrite Ev.
      destruct (lookupe n 0 st) as [[m t]|] eqn:El; cbn [option_map snd].
      - apply lookupe_key in El as [El _]. apply kcmp_eq in El as [_ El]. symmetry in El. apply lkind0 in El as (s0 & p0 & h0 & d0 & v0 & sub0 & pa0 & ->).
        rewrite merge_str_str. split; reflexivity.
      - split; reflexivity. }
    rewrite E1, E2 in *. cbn [orelse] in *. apply leqv_str. repeat split.
    apply (pcons_agree sub (Some x)); [apply pv2_pcons|exact HpB|exact Hpa].
  - (* the file omits it *)
    intros Ev. rewrite Ev in Hpa. cbn [option_map] in Hpa.
    destruct (reg_str_node_form (lookupl n 0 st) (lookup_name n 0 st) sub d) as (pA & -> & _).
    destruct (reg_str_node_form (lookupl n 0 B0) (lookup_name n 0 B0) sub d) as (pB & -> & HpB).
    cbn [rvt].
    assert (opres (lookupl n 0 B0) = false /\ orelse (oval (lookupl n 0 B0)) d = d) as [E1 E2].
    { unfold B0. destruct (mk_char merge [] merge_kind tree st Hst Htree) as (C & _ & _).
      rewrite lookupl_e, C. unfold new_entry. rewrite Ev. rewrite lookupl_e in Hre.
      destruct (lookupe n 0 st) as [[m t]|] eqn:El; cbn [option_map snd] in *; [|split; reflexivity].
      apply lookupe_key in El as [El _]. apply kcmp_eq in El as [_ El]. symmetry in El. apply lkind0 in El as (s0 & p0 & h0 & d0 & v0 & sub0 & pa0 & ->).
      unfold rev_entry. cbn [fst snd]. rewrite revert_fst. cbn [lspec]. destruct s0; cbn [keep option_map snd rvt opres oval]; [|split; reflexivity].
      split; [reflexivity|]. destruct d0 as [d0|]; [|reflexivity]. cbn [orelse]. symmetry. exact Hre. }
    rewrite E1, E2 in *. apply leqv_str. repeat split.
    apply (pcons_agree sub d); [apply pv2_pcons|exact HpB|exact Hpa].
Qed.

(* ---------- host/service pairs ---------- *)
Definition reg_ina_f (h s : option str) (o : option lnode) : lnode :=
  match o with
  | Some (LIna _ p _ _ _ oh os) => LIna true p true h s (match oh with None => h | _ => oh end) (match os with None => s | _ => os end)
  | _ => LIna true false true h s h s
  end.
Lemma do_reg_ina kids n h s : fst (do_reg kids (RegIna n h s)) = upsertl n 1 (reg_ina_f h s) kids.
Proof. reflexivity. Qed.
Lemma lkind1 t : lkind t = 1 -> exists spec pres hook dh ds h s, t = LIna spec pres hook dh ds h s.
Proof. destruct t; cbn [lkind]; try discriminate. intros _. eauto 10. Qed.
Lemma kind1 s : kind s = 1 -> exists h sv, s = VIna h sv.
Proof. destruct s; cbn [kind]; try discriminate. intros _. eauto. Qed.

Theorem register_commutes_with_load_ina st n h s tree :
  lsorted_kids st -> vsorted_kids tree ->
  (* not registered before with other defaults (unregistered pairs have none) *)
  match lookupl n 1 st with Some (LIna _ _ _ dh0 ds0 _ _) => orelse dh0 h = h /\ orelse ds0 s = s | _ => True end ->
  forall n' k', oeqv (lookupe n' k' (reg_then_load st (RegIna n h s) tree)) (lookupe n' k' (load_then_reg st (RegIna n h s) tree)).
Proof.
  intros [Hst _] [Htree _] Hre n' k'. unfold reg_then_load, load_then_reg. rewrite !merge_obj_fst, !do_reg_ina. cbn [kidsof].
  apply commute_gen; try assumption.
  - intros [[]|]; reflexivity.
  - intros [[]|]; reflexivity.
  - intros [[]|]; reflexivity.
  - intros nf s' Ev p1. apply lookupv_kind, kind1 in Ev as (fh & fs & ->).
    destruct (lookupl n 1 st) as [t|] eqn:El.
    + apply lookupl_kind, lkind1 in El as (spec & pres & hook & dh0 & ds0 & oh & os & ->). destruct Hre as [R1 R2].
      cbn [reg_ina_f merge fst].
      assert (forall (f d0 d : option str), orelse d0 d = d ->
                match (match f with None => d0 | _ => f end) with None => d | _ => (match f with None => d0 | _ => f end) end
                = match f with None => d | _ => f end) as G.
      { intros f d0 d R. destruct f; [reflexivity|]. destruct d0; [exact R|reflexivity]. }
      rewrite (G fh dh0 h R1), (G fs ds0 s R2). apply leqv_refl.
    + cbn [reg_ina_f merge fst splice]. destruct fh, fs; apply leqv_refl.
  - intros _. destruct (lookupl n 1 st) as [t|] eqn:El.
    + apply lookupl_kind, lkind1 in El as (spec & pres & hook & dh0 & ds0 & oh & os & ->). destruct Hre as [R1 R2].
      cbn [lspec reg_ina_f rvt]. destruct spec; cbn [reg_ina_f]; [|apply leqv_refl].
      cbn [orelse] in R1, R2.
      replace (match dh0 with Some _ => dh0 | None => h end) with h by (destruct dh0; [symmetry; exact R1|reflexivity]).
      replace (match ds0 with Some _ => ds0 | None => s end) with s by (destruct ds0; [symmetry; exact R2|reflexivity]).
      apply leqv_refl.
    + cbn [reg_ina_f rvt]. apply leqv_refl.
Qed.

(* ---------- objects ---------- *)
Definition reg_obj_f (o : option lnode) : lnode :=
  match o with Some (LObj _ p _ ks) => LObj true p true ks | _ => LObj true false true [] end.
Lemma do_reg_obj kids n : fst (do_reg kids (RegObj n)) = upsertl n 3 reg_obj_f kids.
Proof. reflexivity. Qed.
Lemma lkind3 t : lkind t = 3 -> exists spec pres hook ks, t = LObj spec pres hook ks.
Proof. destruct t; cbn [lkind]; try discriminate. intros _. eauto 10. Qed.
Lemma kind3 s : kind s = 3 -> exists ss, s = VObj ss.
Proof. destruct s; cbn [kind]; try discriminate. intros _. eauto. Qed.

Lemma mk_nil_splice path ss : t1 (mk_gen merge path [] ss) = splice_kids ss.
Proof.
  induction ss as [|[ks s'] ss' IH]; [reflexivity|].
  rewrite (mk_gen_cons_ne merge path [] ks s' ss' [] []); [|reflexivity|exact I].
  cbn [t1 fst revert_all app splice_kids map snd]. f_equal. exact IH.
Qed.

Lemma dflt_spec x : dflt_state x -> lspec x = true.
Proof. destruct x; intros D; [apply dflt_state_str in D|apply dflt_state_ina in D|apply dflt_state_list in D|apply dflt_state_obj in D]; cbn [lspec]; tauto. Qed.

Theorem register_commutes_with_load_obj st n tree :
  lsorted_kids st -> vsorted_kids tree ->
  Forall (fun nc => lwf (snd nc)) st -> Forall (fun nc => lplain (snd nc)) st ->       (* the two invariants *)
  forall n' k', oeqv (lookupe n' k' (reg_then_load st (RegObj n) tree)) (lookupe n' k' (load_then_reg st (RegObj n) tree)).
Proof.
  intros [Hst _] [Htree _] Hw Hpl n' k'. unfold reg_then_load, load_then_reg. rewrite !merge_obj_fst, !do_reg_obj. cbn [kidsof].
  apply commute_gen; try assumption.
  - intros [[]|]; reflexivity.
  - intros [[]|]; reflexivity.
  - intros [[]|]; reflexivity.
  - intros nf s' Ev p1. apply lookupv_kind, kind3 in Ev as (ss & ->).
    destruct (lookupl n 3 st) as [t|] eqn:El.
    + apply lookupl_kind, lkind3 in El as (spec & pres & hook & ks & ->).
      cbn [reg_obj_f]. rewrite !merge_obj_fst. cbn [reg_obj_f]. apply leqv_refl.
    + cbn [reg_obj_f]. rewrite merge_obj_fst, mk_nil_splice. cbn [splice reg_obj_f]. apply leqv_refl.
  - intros _. destruct (lookupl n 3 st) as [t|] eqn:El.
    + pose proof El as El'. rewrite lookupl_e in El'. destruct (lookupe n 3 st) as [[m c]|] eqn:Ee; [|discriminate].
      cbn in El'. inversion El'; subst c. apply lookupe_key in Ee as [_ Hin].
      rewrite Forall_forall in Hw, Hpl. pose proof (Hw (m, t) Hin) as Hwt. pose proof (Hpl (m, t) Hin) as Hpt. cbn [snd] in *.
      apply lookupl_kind, lkind3 in El as (spec & pres & hook & ks & ->).
      cbn [lspec reg_obj_f]. rewrite !rvt_obj. destruct spec; cbn [reg_obj_f]; [apply leqv_refl|].
      (* an unregistered object: after the load it is gone, and it had nothing a registration would keep *)
      apply lplain_obj in Hpt. apply lwf_obj in Hwt.
      assert ((if pres then rvt_kids ks else ks) = []) as ->; [|apply leqv_refl].
      destruct pres.
      * apply rvt_kids_unspec. eapply Forall_impl; [|exact Hpt]. intros a [_ A]. apply A. reflexivity.
      * destruct ks as [|[n0 x] r]; [reflexivity|]. exfalso.
        inversion Hpt as [|? ? [_ P] _]; subst. inversion Hwt as [|? ? [_ W] _]; subst. cbn [snd] in *.
        specialize (P eq_refl). specialize (W eq_refl). apply dflt_spec in W. congruence.
    + cbn [reg_obj_f]. rewrite rvt_obj. apply leqv_refl.
Qed.

