(* C18: executable model of the routing done by src/log.c
   (log_parse_type_sevset, log_rescan_conf, log_attach_destinations, log_vmessage, log_file_log).

   Strings are C strings: lists of bytes WITHOUT an embedded NUL (the configuration tree stores entry
   names as C strings, so this is not a restriction).  strcasecmp/tolower are those of the "C" locale
   (the daemon never calls setlocale).

   Scope notes (things the C code does that are deliberately outside this model):
   - default_target: log_type_register(name, default_target) can give a type a default destination for
     the severities >= warning that no entry specifies.  Every type of the daemon is registered with a
     NULL default_target ("core", "*", and every type created by log_parse_type_sevset), so the third
     loop of log_rescan_conf does nothing.  IGNORED here.
   - log_destination_open failing (unknown "type:" prefix, fopen failure) logs at LOG_FATAL on log_core,
     which terminates the process (_exit(1) in log_vmessage).  The model assumes every destination opens.
   - A message of severity fatal (5) is routed like the others and then the process exits; this is why
     route_table only lists severities 0..4.
   - The "Attaching ..." / "Releasing ..." messages that log_rescan_conf itself emits (core, info) are
     routed through the partially rebuilt tables; the model speaks about messages emitted between reloads.
   - log_vmessage formats into a 1024 byte buffer: [msg] below is the formatted (possibly truncated) text.
   - The registered string "verbose_timestamp" is also a child of the logs section; its name has no '.',
     so log_parse_type_sevset returns 1 for it and it is skipped like any other such entry.
   - An entry whose value is neither a string nor a string list attaches nothing: destinations = [].
*)
From Coq Require Import List NArith Bool Arith Strings.Byte Strings.String.
Import ListNotations.
Local Open Scope list_scope.

Definition str := list byte.
Definition beq (a b : byte) : bool := Byte.eqb a b.
Definition S_ (s : String.string) : str := String.list_byte_of_string s.
Definition nb (b : byte) : N := Byte.to_N b.

(* tolower, "C" locale *)
Definition lower (b : byte) : byte :=
  if ((65 <=? nb b) && (nb b <=? 90))%N
  then match Byte.of_N (nb b + 32) with Some c => c | None => b end
  else b.

Fixpoint str_eqb (a b : str) : bool :=
  match a, b with
  | [], [] => true
  | x :: a', y :: b' => beq x y && str_eqb a' b'
  | _, _ => false
  end.

(* !strcasecmp(a, b)   (also set_compare_charp, the comparator of the log_types set) *)
Definition ci_eq (a b : str) : bool := str_eqb (map lower a) (map lower b).

Definition DOT := x2e.    (* '.' *)
Definition COMMA := x2c.  (* ',' *)
Definition GT := x3e.     (* '>' *)
Definition LT := x3c.     (* '<' *)
Definition EQ := x3d.     (* '=' *)
Definition STAR := x2a.   (* '*' *)
Definition LF := x0a.

Definition nsev := 6%nat.

(* log_severity_names *)
Definition sev_names : list str :=
  [S_ "debug"; S_ "command"; S_ "info"; S_ "warning"; S_ "error"; S_ "fatal"].
Definition sevname (sev : nat) : str := nth sev sev_names [].

(* sep = strchr(s, c); if (sep) *sep++ = '\0';   ->  Some (text before c, text after c) *)
Fixpoint split_at (c : byte) (s : str) : option (str * str) :=
  match s with
  | [] => None
  | b :: r =>
    if beq b c then Some ([], r)
    else match split_at c r with
         | Some (a, t) => Some (b :: a, t)
         | None => None
         end
  end.

(* for (sev_val = 0; sev_val < LOG_NUM_SEVERITIES; ++sev_val) if (!strcasecmp(sev_str, names[sev_val])) break; *)
Fixpoint find_name (w : str) (names : list str) (i : nat) : option nat :=
  match names with
  | [] => None
  | n :: r => if ci_eq w n then Some i else find_name w r (S i)
  end.
Definition sev_lookup (w : str) : option nat := find_name w sev_names 0.

(* The operator prefix: returns (op, rest of the item).
   op: 0 "=" or nothing, 1 ">=", 2 ">", 3 "<=", 4 "<". *)
Definition parse_op (s : str) : nat * str :=
  match s with
  | [] => (0, s)
  | c :: r =>
    if beq c GT then
      match r with
      | d :: r2 => if beq d EQ then (1, r2) else (2, r)
      | [] => (2, r)
      end
    else if beq c LT then
      match r with
      | d :: r2 => if beq d EQ then (3, r2) else (4, r)
      | [] => (4, r)
      end
    else if beq c EQ then (0, r)
    else (0, s)
  end.

(* BITSET_SET(sevset, i)  on a fixed-size bitset (no effect outside it) *)
Fixpoint bset (i : nat) (fl : list bool) : list bool :=
  match fl, i with
  | [], _ => []
  | _ :: r, O => true :: r
  | b :: r, S j => b :: bset j r
  end.
Definition bset_all (l : list nat) (fl : list bool) : list bool :=
  fold_left (fun f i => bset i f) l fl.

(* the switch (op) *)
Definition apply_op (op v : nat) (fl : list bool) : list bool :=
  match op with
  | 0 => bset v fl
  | 1 => bset_all (seq (S v) (nsev - S v)) (bset v fl)   (* set v; while (++v < 6) set v *)
  | 2 => bset_all (seq (S v) (nsev - S v)) fl
  | 3 => bset_all (rev (seq 0 v)) (bset v fl)            (* set v; while (v-- > 0) set v *)
  | _ => bset_all (rev (seq 0 v)) fl
  end.

(* } else while (sep && ((sev_str = sep)[0] != '\0')) { ... }
   [s] is the non-NULL [sep]; None = "goto out" with res = 3.
   [fuel] only makes the recursion structural: S (length s) is always enough (LogProps.sev_loop_fuel). *)
Fixpoint sev_loop (fuel : nat) (s : str) (fl : list bool) : option (list bool) :=
  match fuel with
  | O => None
  | S f =>
    match s with
    | [] => Some fl                                   (* (sev_str = sep)[0] == '\0' : loop ends *)
    | _ :: _ =>
      let '(item, rest) := match split_at COMMA s with
                           | Some (a, r) => (a, Some r)
                           | None => (s, None)
                           end in
      let '(op, w) := parse_op item in
      match sev_lookup w with
      | None => None                                  (* res = 3; goto out; *)
      | Some v =>
        let fl' := apply_op op v fl in
        match rest with
        | None => Some fl'                            (* sep == NULL : loop ends *)
        | Some r => sev_loop f r fl'
        end
      end
    end
  end.

(* log_parse_type_sevset: None when the C function returns non-zero, else (type name text, sevset) *)
Definition parse_sevset (name : str) : option (str * list bool) :=
  match split_at DOT name with
  | None => None                                      (* res = 1 *)
  | Some (fac, sep) =>
    if str_eqb sep [STAR] then Some (fac, repeat true nsev)
    else match sev_loop (S (List.length sep)) sep (repeat false nsev) with
         | Some fl => Some (fac, fl)
         | None => None
         end
  end.

(* ---------- routing ---------- *)
Definition entry := (str * list str)%type.   (* (name, destinations in order) *)

(* What one entry appends to type->logs[sev] of the type called [fac] in log_rescan_conf.
   The type is looked up with set_find(&log_types, &str), i.e. case-insensitively. *)
Definition attach (fac : str) (sev : nat) (e : entry) : list str :=
  match parse_sevset (fst e) with
  | Some (f, fl) => if ci_eq f fac && nth sev fl false then snd e else []
  | None => []                                        (* continue; *)
  end.

(* type->logs[sev] after log_rescan_conf over the section (children visited in section order) *)
Definition logs_of (sec : list entry) (fac : str) (sev : nat) : list str :=
  flat_map (attach fac sev) sec.

(* log_vmessage: type->logs[sev] then log_default->logs[sev]; log_default is the type named "*" *)
Definition route (sec : list entry) (fac : str) (sev : nat) : list str :=
  logs_of sec fac sev ++ logs_of sec [STAR] sev.

(* log_file_log: "%s (%s:%s) %s\n" -- the text between the timestamp+space and the final LF *)
Definition line_of (fac : str) (sev : nat) (msg : str) : str :=
  S_ "(" ++ fac ++ S_ ":" ++ sevname sev ++ S_ ") " ++ msg.

(* log_rescan_conf first empties every type->logs[sev] (used = 0) and clears [specified] for EVERY
   registered type, then rebuilds all tables from the current section only: nothing of an older section
   survives (old destinations not referenced any more are closed at the end).  The routing state of the
   model is therefore the section itself. *)
Definition rescan (sec : list entry) : list entry := sec.

(* for extraction / comparison with the C code *)
Definition route_table (sec : list entry) (facs : list str) : list (str * nat * list str) :=
  flat_map (fun fac => map (fun sev => (fac, sev, route sec fac sev)) (seq 0 5)) facs.
