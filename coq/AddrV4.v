(* The IPv4 branch of irc_ntop: for an address that ntop prints as a dotted quad (groups 0..4 zero, group 6 non-zero,
   group 5 zero or 65535), pton reads the text back completely and yields the IPv4-mapped form of the address
   (group 5 forced to 65535).  The text never starts with ':' and fits in IRC_NTOP_MAX. *)
From Coq Require Import List NArith Bool Strings.Byte Lia Arith.
Import ListNotations.
Require Import AddrFull Params.
Local Open Scope N_scope.

Definition canon (gs : groups) : groups := if is_ipv4 gs then setg gs 5 65535 else gs.

(* ---------- decimal sweep over 0..255 ---------- *)
Fixpoint eatd (part : N) (ds : str) : option N :=
  match ds with
  | [] => Some part
  | c :: r => if isdigit c then let p := part * 10 + (nb c - 48) in if 255 <? p then None else eatd p r else None
  end.
Definition chkd (n : N) : bool :=
  match eatd 0 (dec n) with
  | Some q => (q =? n) && negb (Nat.eqb (length (dec n)) 0) && Nat.leb (length (dec n)) 3
  | None => false
  end.
Lemma chkd_all_ok : forallb chkd (map N.of_nat (seq 0 256)) = true.
Proof. vm_compute. reflexivity. Qed.

Lemma in_256 n : n < 256 -> In n (map N.of_nat (seq 0 256)).
Proof. intros H. rewrite <- (N2Nat.id n). apply in_map. apply in_seq. lia. Qed.

Lemma dec_ok n : n < 256 -> eatd 0 (dec n) = Some n /\ dec n <> [] /\ (length (dec n) <= 3)%nat.
Proof.
  intros Hn. pose proof chkd_all_ok as H. rewrite forallb_forall in H. specialize (H n (in_256 n Hn)).
  unfold chkd in H. destruct (eatd 0 (dec n)) as [q|]; [|discriminate].
  apply andb_true_iff in H as [H H3]. apply andb_true_iff in H as [Hq Hl].
  apply N.eqb_eq in Hq. subst q. split; [reflexivity|]. split.
  - intro Z. rewrite Z in Hl. discriminate.
  - apply Nat.leb_le. exact H3.
Qed.

(* ---------- characters ---------- *)
Lemma digit_not c n : isdigit c = true -> n < 48 \/ 57 < n -> isch c n = false.
Proof.
  unfold isdigit, isch. intros H Hn. apply andb_true_iff in H as [H1 H2].
  apply N.leb_le in H1. apply N.leb_le in H2. apply N.eqb_neq. lia.
Qed.
Lemma digit_not42 c : isdigit c = true -> isch c 42 = false. Proof. intros H. apply digit_not; [exact H|left; reflexivity]. Qed.
Lemma digit_not46 c : isdigit c = true -> isch c 46 = false. Proof. intros H. apply digit_not; [exact H|left; reflexivity]. Qed.
Lemma digit_not47 c : isdigit c = true -> isch c 47 = false. Proof. intros H. apply digit_not; [exact H|left; reflexivity]. Qed.
Lemma digit_not58 c : isdigit c = true -> isch c 58 = false. Proof. intros H. apply digit_not; [exact H|right; reflexivity]. Qed.
Lemma digit_not_space c : isdigit c = true -> isspace c = false.
Proof.
  unfold isdigit, isspace. intros H. apply andb_true_iff in H as [H1 H2].
  apply N.leb_le in H1. apply N.leb_le in H2. set (n := nb c) in *. clearbody n.
  destruct (N.leb_spec 9 n), (N.leb_spec n 13), (N.eqb_spec n 32); try reflexivity; lia.
Qed.

Lemma eatd_digits ds : forall part p, eatd part ds = Some p -> Forall (fun c => isdigit c = true) ds.
Proof.
  induction ds as [|c ds IH]; intros part p H; [constructor|].
  cbn [eatd] in H. destruct (isdigit c) eqn:Hd; [|discriminate].
  destruct (255 <? part * 10 + (nb c - 48)); [discriminate|].
  constructor; [exact Hd|exact (IH _ _ H)].
Qed.

Lemma eatd_hd ds part p : eatd part ds = Some p -> ds <> [] -> exists c r, ds = c :: r /\ isdigit c = true.
Proof.
  intros H Hne. destruct ds as [|c r]; [congruence|]. exists c, r. split; [reflexivity|].
  pose proof (eatd_digits _ _ _ H) as F. inversion F; assumption.
Qed.

Lemma eatd_hdis ds part p rest n : eatd part ds = Some p -> ds <> [] -> n < 48 \/ 57 < n -> hdis (ds ++ rest) n = false.
Proof.
  intros H Hne Hn. destruct (eatd_hd ds part p H Hne) as (c & r & -> & Hd). cbn [app hdis]. apply digit_not; assumption.
Qed.

(* ---------- the IPv4 helper on digit runs and dots ---------- *)
Lemma ip4_digits ds : forall part p' f rest dots pos ip,
  eatd part ds = Some p' ->
  ip4 (length ds + f) (ds ++ rest) false false dots pos part ip = ip4 f rest false false dots (pos + length ds) p' ip.
Proof.
  induction ds as [|c ds IH]; intros part p' f rest dots pos ip H.
  - cbn [eatd] in H. injection H as <-. cbn [length app Nat.add]. rewrite Nat.add_0_r. reflexivity.
  - cbn [eatd] in H. destruct (isdigit c) eqn:Hd; [|discriminate].
    destruct (255 <? part * 10 + (nb c - 48)) eqn:Ho; [discriminate|].
    replace (pos + length (c :: ds))%nat with (S pos + length ds)%nat by (cbn [length]; lia).
    cbn [length app Nat.add ip4].
    rewrite (digit_not46 c Hd), (digit_not47 c Hd), Hd, Ho.
    exact (IH _ _ _ _ _ _ _ H).
Qed.

Lemma ip4_dot f rest dots pos part ip :
  hdis rest 46 = false -> hdis rest 42 = false ->
  ip4 (S f) (dot :: rest) false false dots pos part ip = ip4 f rest false false (S dots) (S pos) 0 (lor_opt ip (shl part dots)).
Proof.
  intros H1 H2. cbn [ip4]. change (isch dot 46) with true. cbv iota. rewrite H1, H2. reflexivity.
Qed.

Lemma ip4_quad da db dc dd a b c d :
  eatd 0 da = Some a -> eatd 0 db = Some b -> eatd 0 dc = Some c -> eatd 0 dd = Some d ->
  da <> [] -> db <> [] -> dc <> [] -> dd <> [] ->
  pton_ip4 (da ++ dot :: db ++ dot :: dc ++ dot :: dd) false false =
  Some (length (da ++ dot :: db ++ dot :: dc ++ dot :: dd),
        Some (N.lor (N.lor (N.lor (N.lor 0 (u32 (a * 16777216))) (u32 (b * 65536))) (u32 (c * 256))) (u32 d)), None).
Proof.
  intros Ha Hb Hc Hd Na Nb Nc Nd. unfold pton_ip4.
  rewrite (eatd_hdis da 0 a _ 46 Ha Na) by (left; reflexivity).
  rewrite <- (app_nil_r dd).
  replace (S (length (da ++ dot :: db ++ dot :: dc ++ dot :: dd ++ [])))
    with (length da + S (length db + S (length dc + S (length dd + 1))))%nat
    by (repeat (rewrite app_length || cbn [length]); lia).
  rewrite (ip4_digits da 0 a _ _ _ _ _ Ha).
  rewrite ip4_dot by (eapply eatd_hdis; [eassumption|assumption|left; reflexivity]).
  rewrite (ip4_digits db 0 b _ _ _ _ _ Hb).
  rewrite ip4_dot by (eapply eatd_hdis; [eassumption|assumption|left; reflexivity]).
  rewrite (ip4_digits dc 0 c _ _ _ _ _ Hc).
  rewrite ip4_dot by (eapply eatd_hdis; [eassumption|assumption|left; reflexivity]).
  rewrite (ip4_digits dd 0 d _ _ _ _ _ Hd).
  cbn [ip4]. change (Nat.ltb 3 3) with false. cbv iota.
  cbn [lor_opt shl].
  f_equal. f_equal. f_equal.
  repeat (rewrite app_length || cbn [length]). lia.
Qed.

(* ---------- the value: the four octets assemble without overlap ---------- *)
Lemma low_bits_clear b k n : b < 2 ^ k -> k <= n -> N.testbit b n = false.
Proof.
  intros Hb Hn. destruct (N.eq_dec b 0) as [->|Hz]; [apply N.bits_0|].
  apply N.bits_above_log2. apply N.log2_lt_pow2; [lia|].
  eapply N.lt_le_trans; [exact Hb|]. apply N.pow_le_mono_r; lia.
Qed.

Lemma lor_add a b k : b < 2 ^ k -> N.lor (a * 2 ^ k) b = a * 2 ^ k + b.
Proof.
  intros Hb. rewrite <- N.shiftl_mul_pow2.
  assert (N.land (N.shiftl a k) b = 0) as Z.
  { apply N.bits_inj_0. intro n. rewrite N.land_spec. destruct (N.lt_ge_cases n k) as [Hlt|Hge].
    - rewrite N.shiftl_spec_low by exact Hlt. reflexivity.
    - rewrite (low_bits_clear b k n Hb Hge). apply andb_false_r. }
  rewrite (N.add_nocarry_lxor _ _ Z). symmetry. apply N.lxor_lor. exact Z.
Qed.
Lemma lor_add8 x y : y < 256 -> N.lor (x * 256) y = x * 256 + y. Proof. exact (lor_add x y 8). Qed.
Lemma lor_add16 x y : y < 65536 -> N.lor (x * 65536) y = x * 65536 + y. Proof. exact (lor_add x y 16). Qed.
Lemma lor_add24 x y : y < 16777216 -> N.lor (x * 16777216) y = x * 16777216 + y. Proof. exact (lor_add x y 24). Qed.

Lemma ipv_value a b c d : a < 256 -> b < 256 -> c < 256 -> d < 256 ->
  N.lor (N.lor (N.lor (N.lor 0 (u32 (a * 16777216))) (u32 (b * 65536))) (u32 (c * 256))) (u32 d)
  = a * 16777216 + (b * 65536 + (c * 256 + d)).
Proof.
  intros Ha Hb Hc Hd. unfold u32.
  rewrite (N.mod_small (a * 16777216)) by lia. rewrite (N.mod_small (b * 65536)) by lia.
  rewrite (N.mod_small (c * 256)) by lia. rewrite (N.mod_small d) by lia.
  rewrite N.lor_0_l. rewrite <- !N.lor_assoc.
  rewrite (lor_add8 c d) by exact Hd.
  rewrite (lor_add16 b (c * 256 + d)) by lia.
  rewrite (lor_add24 a (b * 65536 + (c * 256 + d))) by lia.
  reflexivity.
Qed.

(* ---------- pton on a digits-and-dots string ---------- *)
Lemma has_none s n : Forall (fun c => isch c n = false) s -> has s n = None.
Proof. induction 1 as [|c r Hc _ IH]; [reflexivity|]. cbn [has]. rewrite Hc, IH. reflexivity. Qed.

Lemma has_some l1 c l2 n : isch c n = true -> exists k, has (l1 ++ c :: l2) n = Some k.
Proof.
  intros Hc. induction l1 as [|x l1 [k IH]]; cbn [app has].
  - rewrite Hc. eauto.
  - destruct (isch x n); [eauto|]. rewrite IH. eauto.
Qed.

Lemma skipws_digit c r : isdigit c = true -> skipws (c :: r) = (c :: r, 0%nat).
Proof. intros H. cbn [skipws]. rewrite (digit_not_space c H). reflexivity. Qed.

Lemma pton_dotted s ipv k :
  skipws s = (s, 0%nat) -> has s 58 = None -> has s 46 = Some k -> s <> [] ->
  pton_ip4 s false false = Some (length s, Some ipv, None) ->
  pton s false false = Res (length s) None (setg (setg (setg zeros 5 65535) 6 (ipv / 65536)) 7 (ipv mod 65536)).
Proof.
  intros Hws Hc Hd Hne Hp. unfold pton. rewrite Hws, Hc, Hd, Hp.
  destruct (length s) as [|n] eqn:E.
  - apply length_zero_iff_nil in E. congruence.
  - cbv beta iota zeta. rewrite <- E. rewrite skipn_all. cbn [Nat.add]. reflexivity.
Qed.

Lemma quad_pton a b c d : a < 256 -> b < 256 -> c < 256 -> d < 256 ->
  pton (dec a ++ [dot] ++ dec b ++ [dot] ++ dec c ++ [dot] ++ dec d) false false =
  Res (length (dec a ++ [dot] ++ dec b ++ [dot] ++ dec c ++ [dot] ++ dec d)) None
      [0; 0; 0; 0; 0; 65535; 256 * a + b; 256 * c + d].
Proof.
  intros La Lb Lc Ld.
  destruct (dec_ok a La) as (Ea & Na & _). destruct (dec_ok b Lb) as (Eb & Nb & _).
  destruct (dec_ok c Lc) as (Ec & Nc & _). destruct (dec_ok d Ld) as (Ed & Nd & _).
  change (dec a ++ [dot] ++ dec b ++ [dot] ++ dec c ++ [dot] ++ dec d)
    with (dec a ++ dot :: dec b ++ dot :: dec c ++ dot :: dec d).
  pose proof (ip4_quad _ _ _ _ a b c d Ea Eb Ec Ed Na Nb Nc Nd) as P.
  rewrite (ipv_value a b c d La Lb Lc Ld) in P.
  pose proof (eatd_digits _ _ _ Ea) as Fa. pose proof (eatd_digits _ _ _ Eb) as Fb.
  pose proof (eatd_digits _ _ _ Ec) as Fc. pose proof (eatd_digits _ _ _ Ed) as Fd.
  destruct (has_some (dec a) dot (dec b ++ dot :: dec c ++ dot :: dec d) 46 eq_refl) as [k Hk].
  destruct (eatd_hd _ _ _ Ea Na) as (c0 & r0 & E0 & D0).
  set (s := dec a ++ dot :: dec b ++ dot :: dec c ++ dot :: dec d) in *.
  assert (Forall (fun x => isch x 58 = false) s) as F58.
  { assert (forall l, Forall (fun c => isdigit c = true) l -> Forall (fun x => isch x 58 = false) l) as W.
    { intros l Fl. eapply Forall_impl; [|exact Fl]. intros x Hx. apply digit_not58. exact Hx. }
    unfold s. repeat (apply Forall_app; split; [apply W; assumption|]; constructor; [reflexivity|]).
    apply W; assumption. }
  assert (skipws s = (s, 0%nat)) as Hws.
  { unfold s. rewrite E0. cbn [app]. apply skipws_digit. exact D0. }
  assert (s <> []) as Hne.
  { unfold s. rewrite E0. cbn [app]. discriminate. }
  rewrite (pton_dotted s _ k Hws (has_none s 58 F58) Hk Hne P).
  f_equal.
  set (r := c * 256 + d).
  assert (r < 65536) as Lr by (unfold r; lia).
  assert (a * 16777216 + (b * 65536 + r) = 65536 * (256 * a + b) + r) as Ev by lia.
  rewrite <- (N.div_unique _ 65536 (256 * a + b) r Lr Ev).
  rewrite <- (N.mod_unique _ 65536 (256 * a + b) r Lr Ev).
  unfold r. replace (c * 256 + d) with (256 * c + d) by lia. reflexivity.
Qed.

(* ---------- the shape of an address that prints as a dotted quad ---------- *)
Lemma v4_shape gs : length gs = 8%nat -> is_ipv4 gs = true ->
  exists g5 g6 g7, gs = [0; 0; 0; 0; 0; g5; g6; g7] /\ g6 <> 0 /\ (g5 = 0 \/ g5 = 65535).
Proof.
  intros Hl Hv.
  destruct gs as [|g0 [|g1 [|g2 [|g3 [|g4 [|g5 [|g6 [|g7 [|? ?]]]]]]]]]; try discriminate.
  unfold is_ipv4, g in Hv. cbn [nth] in Hv.
  repeat (apply andb_true_iff in Hv; destruct Hv as [Hv ?]).
  repeat match goal with H : (_ =? _) = true |- _ => apply N.eqb_eq in H end. subst.
  exists g5, g6, g7. split; [reflexivity|]. split.
  - match goal with H : negb _ = true |- _ => apply negb_true_iff in H; apply N.eqb_neq in H; exact H end.
  - match goal with H : (_ || _) = true |- _ => apply orb_true_iff in H; destruct H as [H|H]; apply N.eqb_eq in H; auto end.
Qed.

Lemma canon_not_v4 gs : is_ipv4 gs = false -> canon gs = gs.
Proof. intros H. unfold canon. rewrite H. reflexivity. Qed.

Lemma canon_v4 g5 g6 g7 : is_ipv4 [0; 0; 0; 0; 0; g5; g6; g7] = true ->
  canon [0; 0; 0; 0; 0; g5; g6; g7] = [0; 0; 0; 0; 0; 65535; g6; g7].
Proof. intros H. unfold canon. rewrite H. reflexivity. Qed.

Lemma is_ipv4_mapped g6 g7 : g6 <> 0 -> is_ipv4 [0; 0; 0; 0; 0; 65535; g6; g7] = true.
Proof. intros H. unfold is_ipv4, g. cbn [nth]. apply N.eqb_neq in H. rewrite H. reflexivity. Qed.

Lemma is_ipv4_canon gs : length gs = 8%nat -> is_ipv4 (canon gs) = is_ipv4 gs.
Proof.
  intros Hl. destruct (is_ipv4 gs) eqn:Hv; [|rewrite (canon_not_v4 gs Hv); exact Hv].
  destruct (v4_shape gs Hl Hv) as (g5 & g6 & g7 & -> & Hg6 & _).
  rewrite (canon_v4 _ _ _ Hv). apply is_ipv4_mapped. exact Hg6.
Qed.

Theorem ntop_canon_idem gs : length gs = 8%nat -> ntop (canon gs) = ntop gs.
Proof.
  intros Hl. destruct (is_ipv4 gs) eqn:Hv; [|rewrite (canon_not_v4 gs Hv); reflexivity].
  destruct (v4_shape gs Hl Hv) as (g5 & g6 & g7 & -> & Hg6 & _).
  rewrite (canon_v4 _ _ _ Hv). unfold ntop. rewrite Hv, (is_ipv4_mapped g6 g7 Hg6). reflexivity.
Qed.

(* the printed text of such an address, with the four octets named *)
Lemma ntop_v4_text gs : length gs = 8%nat -> Forall (fun x => x < 65536) gs -> is_ipv4 gs = true ->
  exists a b c d, a < 256 /\ b < 256 /\ c < 256 /\ d < 256 /\
    ntop gs = dec a ++ [dot] ++ dec b ++ [dot] ++ dec c ++ [dot] ++ dec d /\
    canon gs = [0; 0; 0; 0; 0; 65535; 256 * a + b; 256 * c + d].
Proof.
  intros Hl Hs Hv. destruct (v4_shape gs Hl Hv) as (g5 & g6 & g7 & -> & Hg6 & _).
  assert (g6 < 65536 /\ g7 < 65536) as [L6 L7].
  { repeat match goal with H : Forall _ (_ :: _) |- _ => inversion H; clear H; subst end. split; assumption. }
  rewrite (canon_v4 _ _ _ Hv). unfold ntop. rewrite Hv. unfold g. cbn [nth].
  pose proof (N.div_mod g6 256 ltac:(discriminate)) as E6. pose proof (N.mod_lt g6 256 ltac:(discriminate)) as M6.
  pose proof (N.div_mod g7 256 ltac:(discriminate)) as E7. pose proof (N.mod_lt g7 256 ltac:(discriminate)) as M7.
  set (a := g6 / 256) in *. set (b := g6 mod 256) in *. set (c := g7 / 256) in *. set (d := g7 mod 256) in *.
  clearbody a b c d.
  exists a, b, c, d. repeat split; try assumption; try lia.
  rewrite <- E6, <- E7. reflexivity.
Qed.

Theorem ntop_v4_pton gs : length gs = 8%nat -> Forall (fun x => x < 65536) gs -> is_ipv4 gs = true ->
  pton (ntop gs) false false = Res (length (ntop gs)) None (canon gs).
Proof.
  intros Hl Hs Hv. destruct (ntop_v4_text gs Hl Hs Hv) as (a & b & c & d & La & Lb & Lc & Ld & -> & ->).
  apply quad_pton; assumption.
Qed.

Theorem ntop_v4_no_leading_colon gs : length gs = 8%nat -> Forall (fun x => x < 65536) gs -> is_ipv4 gs = true ->
  exists c r, ntop gs = c :: r /\ c <> colon.
Proof.
  intros Hl Hs Hv. destruct (ntop_v4_text gs Hl Hs Hv) as (a & b & c & d & La & _ & _ & _ & -> & _).
  destruct (dec_ok a La) as (Ea & Na & _). destruct (eatd_hd _ _ _ Ea Na) as (c0 & r0 & E0 & D0).
  rewrite E0. cbn [app]. eexists _, _. split; [reflexivity|].
  intros ->. discriminate D0.
Qed.

Theorem ntop_v4_fits gs : length gs = 8%nat -> Forall (fun x => x < 65536) gs -> is_ipv4 gs = true ->
  (length (ntop gs) < IRC_NTOP_MAX)%nat.
Proof.
  intros Hl Hs Hv. destruct (ntop_v4_text gs Hl Hs Hv) as (a & b & c & d & La & Lb & Lc & Ld & -> & _).
  destruct (dec_ok a La) as (_ & _ & Ka). destruct (dec_ok b Lb) as (_ & _ & Kb).
  destruct (dec_ok c Lc) as (_ & _ & Kc). destruct (dec_ok d Ld) as (_ & _ & Kd).
  unfold IRC_NTOP_MAX. repeat (rewrite app_length || cbn [length]). lia.
Qed.
