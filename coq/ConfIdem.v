(* C15, part 1: loading the same content twice changes nothing and notifies nobody. *)
From Coq Require Import List NArith ZArith Bool Strings.Byte Strings.String Lia.
Import ListNotations.
Require Import Conf ConfMerge ConfOrder ConfBase.
Local Open Scope N_scope.

Definition hk (hook : bool) (path : str) : list ev := if hook then [(0, path)] else [].
Definition is_some {A} (o : option A) : bool := match o with Some _ => true | None => false end.
Definition is_none {A} (o : option A) : bool := match o with Some _ => false | None => true end.

(* ---------- leaf equations in projection form ---------- *)
Lemma revert_str path spec pres hook d v sub p :
  revert path (LStr spec pres hook d v sub p) =
  (keep spec (LStr spec false hook d d sub (t2 (pv2 (hk hook path) d sub p false))),
   t3 (pv2 (hk hook path) d sub p false) ++ (if is_some v && is_none d && spec && hook then [(0, path)] else [])).
Proof.
  cbn [revert]. rewrite parse_value_pv2. cbn [orelse]. fold (hk hook path).
  rewrite (triple_eta (pv2 (hk hook path) d sub p false)), pv2_value.
  destruct d; reflexivity.
Qed.

Lemma merge_str_str path spec pres hook d v0 sub p v :
  merge path (LStr spec pres hook d v0 sub p) (VStr v) =
  (LStr spec true hook d (Some v) sub (t2 (pv2 (hk hook path) (Some v) sub p true)), t3 (pv2 (hk hook path) (Some v) sub p true)).
Proof.
  rewrite merge_str, parse_value_pv2. cbn [orelse]. fold (hk hook path).
  rewrite (triple_eta (pv2 (hk hook path) (Some v) sub p true)), pv2_value. reflexivity.
Qed.

(* ---------- equations of the walk ---------- *)
Lemma mk_gen_nil mrg path ts : mk_gen mrg path ts [] = revert_all path ts.
Proof. reflexivity. Qed.

Lemma mk_gen_cons_eq mrg path ts ks s' ss' lo kt t' hi' :
  span_lt ks (kind s') ts = (lo, (kt, t') :: hi') -> kcmp kt (lkind t') ks (kind s') = Eq ->
  mk_gen mrg path ts ((ks, s') :: ss') =
  (t1 (revert_all path lo) ++ (kt, fst (mrg (pjoin path kt) t' s')) :: t1 (mk_gen mrg path hi' ss'),
   t2 (revert_all path lo) ++ snd (mrg (pjoin path kt) t' s') ++ t2 (mk_gen mrg path hi' ss'),
   t3 (revert_all path lo) || t3 (mk_gen mrg path hi' ss')).
Proof.
  intros Hs Hk. cbn [mk_gen]. fold (mk_gen mrg path). rewrite Hs, Hk.
  destruct (revert_all path lo) as [[a b] c]. destruct (mrg (pjoin path kt) t' s') as [x y].
  destruct (mk_gen mrg path hi' ss') as [[u v] w]. reflexivity.
Qed.

Definition head_ne (ks : str) (k : N) (hi : list (str * lnode)) : Prop :=
  match hi with (kt, t') :: _ => kcmp kt (lkind t') ks k <> Eq | [] => True end.

Lemma mk_gen_cons_ne mrg path ts ks s' ss' lo hi :
  span_lt ks (kind s') ts = (lo, hi) -> head_ne ks (kind s') hi ->
  mk_gen mrg path ts ((ks, s') :: ss') =
  (t1 (revert_all path lo) ++ (ks, splice s') :: t1 (mk_gen mrg path hi ss'),
   t2 (revert_all path lo) ++ t2 (mk_gen mrg path hi ss'), true).
Proof.
  intros Hs Hk. cbn [mk_gen]. fold (mk_gen mrg path). rewrite Hs.
  destruct (revert_all path lo) as [[a b] c]. cbn [t1 t2 t3 fst snd].
  destruct hi as [|[kt t'] hi'].
  - destruct (mk_gen mrg path [] ss') as [[u v] w]. cbn [t1 t2 fst snd]. rewrite orb_true_r. reflexivity.
  - cbn [head_ne] in Hk. destruct (kcmp kt (lkind t') ks (kind s')); try congruence;
    destruct (mk_gen mrg path ((kt, t') :: hi') ss') as [[u v] w]; cbn [t1 t2 fst snd]; rewrite orb_true_r; reflexivity.
Qed.

(* case split used by every proof about the walk *)
Lemma hi_cases ks k (hi : list (str * lnode)) :
  (exists kt t' hi', hi = (kt, t') :: hi' /\ kcmp kt (lkind t') ks k = Eq) \/ head_ne ks k hi.
Proof.
  destruct hi as [|[kt t'] hi']; [right; exact I|].
  destruct (kcmp kt (lkind t') ks k) eqn:E; [left; eauto|right; cbn; congruence|right; cbn; congruence].
Qed.

(* ---------- revert is idempotent and then silent ---------- *)
Lemma revert_idem path l y e : revert path l = (Some y, e) -> revert path y = (Some y, []).
Proof.
  destruct l as [spec pres hook d v sub p|spec pres hook dh ds h s|spec pres hook d v|spec pres hook ks].
  - rewrite revert_str. destruct spec; cbn [keep]; intros H; inversion H; subst; clear H.
    rewrite revert_str. cbn [keep].
    rewrite (pv2_idem (hk hook path) d sub p false false) by reflexivity. cbn [t2 t3 fst snd app].
    destruct d; reflexivity.
  - cbn [revert]. destruct spec; cbn [keep]; intros H; inversion H; subst; clear H.
    cbn [revert keep]. rewrite !ci_diff_refl. reflexivity.
  - cbn [revert]. destruct spec; cbn [keep]; intros H; inversion H; subst; clear H.
    cbn [revert keep]. rewrite leq_refl. reflexivity.
  - rewrite revert_obj. destruct pres; [destruct (revert_all path ks) as [[a b] c]|]; destruct spec; cbn [keep]; intros H; inversion H; subst; clear H;
    rewrite revert_obj; reflexivity.
Qed.

Lemma revert_all_idem path ts : revert_all path (t1 (revert_all path ts)) = (t1 (revert_all path ts), [], false).
Proof.
  induction ts as [|[n x] r IH]; cbn [revert_all]; [reflexivity|].
  destruct (revert (pjoin path n) x) as [[y|] e1] eqn:E; rewrite (triple_eta (revert_all path r)); cbn [t1 fst snd].
  - cbn [revert_all]. rewrite (revert_idem _ _ _ _ E). fold (t1 (revert_all path r)). rewrite IH. reflexivity.
  - exact IH.
Qed.

Lemma revert_all_lt path k lo : all_lt k (map lkey lo) -> all_lt k (map lkey (t1 (revert_all path lo))).
Proof. apply sub_keys_Forall. apply revert_all_keys. Qed.

(* ---------- idempotence of the walk ---------- *)
Lemma mk_idem mrg path ss :
  (forall p t s, lkind (fst (mrg p t s)) = kind s) ->
  Forall (fun kf => forall p, mrg p (splice (snd kf)) (snd kf) = (splice (snd kf), [])) ss ->
  Forall (fun kf => forall p t, mrg p (fst (mrg p t (snd kf))) (snd kf) = (fst (mrg p t (snd kf)), [])) ss ->
  forall ts, mk_gen mrg path (t1 (mk_gen mrg path ts ss)) ss = (t1 (mk_gen mrg path ts ss), [], false).
Proof.
  intros Hk Hsp Hid. induction ss as [|[ks s'] ss' IH]; intros ts.
  - rewrite !mk_gen_nil. apply revert_all_idem.
  - inversion Hsp as [|? ? Hsp1 Hsp2]; subst. inversion Hid as [|? ? Hid1 Hid2]; subst. cbn [snd] in *.
    specialize (IH Hsp2 Hid2).
    destruct (span_lt ks (kind s') ts) as [lo hi] eqn:Es.
    destruct (span_lt_spec _ _ _ _ _ Es) as (_ & Hlo & _).
    pose proof (revert_all_lt path _ _ Hlo) as Hlo'.
    destruct (hi_cases ks (kind s') hi) as [(kt & t' & hi' & -> & Ek)|Hne].
    + rewrite (mk_gen_cons_eq _ _ _ _ _ _ _ _ _ _ Es Ek). cbn [t1 fst].
      erewrite mk_gen_cons_eq;
        [|apply span_lt_app; [exact Hlo'|unfold kc, lkey; cbn [fst snd]; rewrite Hk; apply kcmp_eq in Ek as [Ek1 Ek2];
                                          rewrite (kcmp_eq_intro _ _ _ Ek1); discriminate]
         |rewrite Hk; apply kcmp_eq in Ek as [Ek1 Ek2]; apply kcmp_eq_intro; exact Ek1].
      rewrite revert_all_idem, Hid1, IH. reflexivity.
    + rewrite (mk_gen_cons_ne _ _ _ _ _ _ _ _ Es Hne). cbn [t1 fst].
      erewrite mk_gen_cons_eq;
        [|apply span_lt_app; [exact Hlo'|unfold kc, lkey; cbn [fst snd]; rewrite splice_kind, kcmp_refl; discriminate]
         |rewrite splice_kind; apply kcmp_refl].
      rewrite revert_all_idem, Hsp1, IH. reflexivity.
Qed.

Lemma mk_splice mrg path ss :
  Forall (fun kf => forall p, mrg p (splice (snd kf)) (snd kf) = (splice (snd kf), [])) ss ->
  mk_gen mrg path (map (fun nv => (fst nv, splice (snd nv))) ss) ss = (map (fun nv => (fst nv, splice (snd nv))) ss, [], false).
Proof.
  induction 1 as [|[ks s'] ss' H1 H2 IH]; [reflexivity|]. cbn [map fst snd] in *.
  erewrite mk_gen_cons_eq with (lo := []);
    [|cbn [span_lt]; rewrite splice_kind, kcmp_refl; reflexivity|rewrite splice_kind; apply kcmp_refl].
  rewrite H1, IH. reflexivity.
Qed.

Lemma splice_fix : forall s path, merge path (splice s) s = (splice s, []).
Proof.
  apply (val_ind' (fun s => forall path, merge path (splice s) s = (splice s, []))).
  - intros v path. cbn [splice]. rewrite merge_str_str. unfold pv2. cbn [N.eqb t2 t3 fst snd]. rewrite seq_eq_refl. reflexivity.
  - intros h s path. cbn [splice merge]. destruct h, s; cbn [ci_diff]; rewrite ?scmp_refl; reflexivity.
  - intros l path. cbn [splice merge]. rewrite andb_false_r. reflexivity.
  - intros ss IH path. rewrite merge_obj. cbn [splice]. rewrite mk_splice by exact IH. reflexivity.
Qed.

Lemma merge_obj_fst path spec pres hook ks ss :
  fst (merge path (LObj spec pres hook ks) (VObj ss)) = LObj spec true hook (t1 (mk_gen merge path ks ss)).
Proof. rewrite merge_obj. rewrite (triple_eta (mk_gen merge path ks ss)). reflexivity. Qed.
Lemma merge_obj_snd path spec pres hook ks ss :
  snd (merge path (LObj spec pres hook ks) (VObj ss)) = t2 (mk_gen merge path ks ss) ++ own 3 path (t3 (mk_gen merge path ks ss)) hook.
Proof. rewrite merge_obj. rewrite (triple_eta (mk_gen merge path ks ss)). reflexivity. Qed.

Theorem merge_idem : forall s path t, merge path (fst (merge path t s)) s = (fst (merge path t s), []).
Proof.
  apply (val_ind' (fun s => forall path t, merge path (fst (merge path t s)) s = (fst (merge path t s), []))).
  - intros v path t. destruct t as [spec pres hook d v0 sub p| | |]; try apply splice_fix.
    rewrite merge_str_str. cbn [fst]. rewrite merge_str_str.
    rewrite (pv2_idem (hk hook path) (Some v) sub p true true) by discriminate. reflexivity.
  - intros h s path t. destruct t as [|spec pres hook dh ds oh os| |]; try apply splice_fix.
    cbn [merge fst]. rewrite !ci_diff_refl. reflexivity.
  - intros l path t. destruct t as [| |spec pres hook d v|]; try apply splice_fix.
    cbn [merge fst]. rewrite leq_refl. reflexivity.
  - intros ss IH path t. destruct t as [| | |spec pres hook ks]; try apply splice_fix.
    rewrite merge_obj_fst.
    rewrite merge_obj. rewrite mk_idem.
    + reflexivity.
    + intros; apply merge_kind.
    + apply Forall_forall. intros kf _ p. apply splice_fix.
    + exact IH.
Qed.

(* The statement asked for; the sortedness hypotheses turn out not to be needed (kept in the corollary for the record). *)
Theorem load_idem_strong : forall path t s, let '(t1, e1) := merge path t s in merge path t1 s = (t1, []).
Proof. intros path t s. pose proof (merge_idem s path t) as H. destruct (merge path t s) as [t1 e1]. exact H. Qed.

Theorem load_idem : forall path t s, lsorted t -> vsorted s -> let '(t1, e1) := merge path t s in merge path t1 s = (t1, []).
Proof. intros path t s _ _. apply load_idem_strong. Qed.


(* ---------- C14 part: a failed load leaves the state alone and reports no hook ---------- *)
Definition is_hookline (l : str) : bool :=
  match l with a :: b :: c :: d :: e :: _ => beq a x48 && beq b x4f && beq c x4f && beq d x4b && beq e x20 | _ => false end.

Lemma dumpl_no_hook : forall l depth n, Forall (fun x => is_hookline x = false) (dumpl depth n l).
Proof.
  assert (Hh : forall a r, beq a x48 = false -> is_hookline (a :: r) = false).
  { intros a r H. destruct r as [|b [|c [|d [|e r]]]]; cbn [is_hookline]; try reflexivity. rewrite H. reflexivity. }
  assert (Hpre : forall depth n rest, is_hookline (indent depth ++ q n ++ rest) = false).
  { intros depth n rest. destruct depth as [|depth]; cbn [indent app]; apply Hh; reflexivity. }
  assert (Hclose : forall depth, is_hookline (indent depth ++ [x7d]) = false).
  { intros [|depth]; cbn [indent app]; apply Hh; reflexivity. }
  apply (lnode_ind' (fun l => forall depth n, Forall (fun x => is_hookline x = false) (dumpl depth n l))).
  - intros. cbn [dumpl]. constructor; [|constructor]. rewrite <- !app_assoc. apply Hpre.
  - intros. cbn [dumpl]. constructor; [|constructor]. rewrite <- !app_assoc. apply Hpre.
  - intros. cbn [dumpl]. constructor; [|constructor]. rewrite <- !app_assoc. apply Hpre.
  - intros spec pres hook ks IH depth n. cbn [dumpl]. rewrite !Forall_app. repeat split.
    + constructor; [|constructor]. rewrite <- !app_assoc. apply Hpre.
    + induction IH as [|[n' v'] r H1 H2 IHr]; [constructor|]. rewrite Forall_app. split; [apply H1|exact IHr].
    + constructor; [apply Hclose|constructor].
Qed.

Theorem failed_load_unchanged st data e :
  parse data = inl e ->
  fst (exec st (CLoad data)) = st /\
  snd (exec st (CLoad data)) = [S_ "LOAD ERR"%string] ++ flat_map (fun nv => dumpl 0 (fst nv) (snd nv)) st ++ [S_ "END"%string] /\
  Forall (fun l => is_hookline l = false) (snd (exec st (CLoad data))).
Proof.
  intros H. cbn [exec]. rewrite H. cbn [fst snd]. repeat split.
  rewrite !Forall_app. repeat split.
  - constructor; [reflexivity|constructor].
  - induction st as [|[n v] r IH]; cbn [flat_map]; [constructor|]. rewrite Forall_app. split; [apply dumpl_no_hook|exact IH].
  - constructor; [reflexivity|constructor].
Qed.
