(* Reference parser for RFC 4291 address text, written at the level of lists (split on ':' and '.'), standing in for the
   C library's inet_pton in the C12/C13 theorems.  It is tied to inet_pton by the correspondence run (h_addr prints std=...). *)
From Coq Require Import List NArith Bool Strings.Byte Lia.
Import ListNotations.
Local Open Scope N_scope.

Definition str := list byte.
Definition nb (b : byte) : N := Byte.to_N b.
Definition isdigit (b : byte) : bool := (48 <=? nb b) && (nb b <=? 57).
Definition hexv (b : byte) : option N :=
  if isdigit b then Some (nb b - 48) else if (97 <=? nb b) && (nb b <=? 102) then Some (nb b - 87)
  else if (65 <=? nb b) && (nb b <=? 70) then Some (nb b - 55) else None.
Definition colon := x3a. Definition dot := x2e.

(* split s at every occurrence of c: "" -> [""], "a:b" -> ["a";"b"], "a:" -> ["a";""] *)
Fixpoint split_on (c : byte) (s : str) : list str :=
  match s with
  | [] => [[]]
  | x :: r => if Byte.eqb x c then [] :: split_on c r
              else match split_on c r with p :: ps => (x :: p) :: ps | [] => [[x]] end
  end.

Fixpoint hexnum (t : str) (acc : N) : option N :=
  match t with [] => Some acc | c :: r => match hexv c with Some v => hexnum r (acc * 16 + v) | None => None end end.
Definition hexgroup (t : str) : option N :=
  match t with [] => None | _ => if Nat.leb (length t) 4 then hexnum t 0 else None end.

Fixpoint decnum (t : str) (acc : N) : option N :=
  match t with [] => Some acc | c :: r => if isdigit c then decnum r (acc * 10 + (nb c - 48)) else None end.
(* inet_pton(AF_INET): 1-3 digits, no leading zero on a multi-digit octet, at most 255 *)
Definition octet (t : str) : option N :=
  match t with
  | [] => None
  | c :: r => if Byte.eqb c x30 && negb (match r with [] => true | _ => false end) then None
              else if Nat.leb (length t) 3 then match decnum t 0 with Some v => if v <=? 255 then Some v else None | None => None end else None
  end.
Definition quad (t : str) : option (N * N) :=
  match split_on dot t with
  | [a; b; c; d] => match octet a, octet b, octet c, octet d with
                    | Some a, Some b, Some c, Some d => Some (a * 256 + b, c * 256 + d)
                    | _, _, _, _ => None end
  | _ => None
  end.

Fixpoint has (c : byte) (s : str) : bool := match s with [] => false | x :: r => Byte.eqb x c || has c r end.

(* pieces between colons: hex groups; the last one may be a dotted quad (two groups) *)
Fixpoint pieces (ps : list str) (quad_last : bool) : option (list N) :=
  match ps with
  | [] => Some []
  | [p] => if quad_last && has dot p then match quad p with Some (a, b) => Some [a; b] | None => None end
           else match hexgroup p with Some g => Some [g] | None => None end
  | p :: r => match hexgroup p, pieces r quad_last with Some g, Some gs => Some (g :: gs) | _, _ => None end
  end.

(* first occurrence of "::" *)
Fixpoint find_dc (s : str) : option (str * str) :=
  match s with
  | a :: ((b :: r) as t) => if Byte.eqb a colon && Byte.eqb b colon then Some ([], r)
                            else match find_dc t with Some (l, r') => Some (a :: l, r') | None => None end
  | _ => None
  end.

Definition side (t : str) (quad_last : bool) : option (list N) :=
  match t with [] => Some [] | _ => pieces (split_on colon t) quad_last end.

Definition ref_pton6 (s : str) : option (list N) :=
  match find_dc s with
  | Some (l, r) =>
      match side l false, side r true with
      | Some L, Some R => if Nat.leb (length L + length R) 7 then Some (L ++ repeat 0 (8 - length L - length R) ++ R) else None
      | _, _ => None
      end
  | None => match pieces (split_on colon s) true with
            | Some gs => if Nat.eqb (length gs) 8 then Some gs else None
            | None => None end
  end.

(* the "standard library parser" of the property: inet_pton(AF_INET6), else inet_pton(AF_INET) as IPv4-mapped *)
Definition ref_pton (s : str) : option (list N) :=
  if has colon s then ref_pton6 s
  else match quad s with Some (a, b) => Some [0; 0; 0; 0; 0; 65535; a; b] | None => None end.
