(* Phase 2: the depth-first post-init walk (module_dfs as repaired), for an arbitrary number of modules.
   A successful walk gives every module of the order exactly one PI, after the PIs of its dependencies (also along diamonds:
   a Black dependency is simply skipped); a failing walk exhibits a dependency cycle; the fuel S n is never exhausted. *)
From Coq Require Import List Arith Lia Bool.
Import ListNotations.
Require Import ModModel ModBase.

Definition dfs_res := option (list (mid * col) * list ev).

(* the local fixpoint of dfs, with the recursive call abstracted *)
Definition dfs_step (rec : mid -> list (mid * col) -> list ev -> dfs_res) :=
  fix step (ds : list mid) (c : list (mid * col)) (lg : list ev) : dfs_res :=
    match ds with
    | [] => Some (c, lg)
    | d :: r => match colour d c with
                | Grey => None
                | _ => match rec d c lg with Some (c', lg') => step r c' lg' | None => None end
                end
    end.

Lemma dfs_S f dp m c lg : dfs (S f) dp m c lg =
  match colour m c with
  | Black => Some (c, lg)
  | _ => match dfs_step (dfs f dp) (dp m) ((m, Grey) :: c) lg with
         | Some (c2, lg2) => Some ((m, Black) :: c2, PI m :: lg2)
         | None => None end
  end.
Proof. reflexivity. Qed.

Lemma step_cons_nongrey rec d r c lg : colour d c <> Grey ->
  dfs_step rec (d :: r) c lg = match rec d c lg with Some (c', lg') => dfs_step rec r c' lg' | None => None end.
Proof. intro H. simpl. destruct (colour d c); congruence. Qed.
Lemma step_cons_grey rec d r c lg : colour d c = Grey -> dfs_step rec (d :: r) c lg = None.
Proof. intro H. simpl. rewrite H. reflexivity. Qed.

Lemma colour_cons x m k c : colour x ((m, k) :: c) = if Nat.eqb m x then k else colour x c.
Proof. unfold colour. simpl. destruct (Nat.eqb m x); reflexivity. Qed.
Lemma colour_nil x : colour x [] = White. Proof. reflexivity. Qed.

Definition isG x c := match colour x c with Grey => true | _ => false end.
Definition isB x c := match colour x c with Black => true | _ => false end.
Definition nongrey (n : nat) (c : list (mid * col)) : nat := length (filter (fun x => negb (isG x c)) (seq 0 n)).

Lemma nongrey_ext n c c' : (forall x, colour x c' = Grey <-> colour x c = Grey) -> nongrey n c' = nongrey n c.
Proof.
  intro H. unfold nongrey. f_equal. apply filter_ext. intro x. f_equal. unfold isG.
  destruct (H x) as [H1 H2]. destruct (colour x c') eqn:E1; destruct (colour x c) eqn:E2; auto.
  - specialize (H2 eq_refl). discriminate.
  - specialize (H1 eq_refl). discriminate.
  - specialize (H1 eq_refl). discriminate.
  - specialize (H2 eq_refl). discriminate.
Qed.
Lemma nongrey_grey n c m : m < n -> colour m c <> Grey -> nongrey n ((m, Grey) :: c) < nongrey n c.
Proof.
  intros Hm Hc. unfold nongrey. apply filter_len_lt with (a := m).
  - intros x _. unfold isG. rewrite colour_cons. destruct (Nat.eqb m x); simpl; auto. discriminate.
  - apply in_seq. lia.
  - unfold isG. rewrite colour_cons, Nat.eqb_refl. reflexivity.
  - unfold isG. destruct (colour m c); auto; congruence.
Qed.
Lemma nongrey_le n c : nongrey n c <= n.
Proof.
  unfold nongrey. rewrite <- (seq_length n 0) at 2. generalize (seq 0 n). intro l0. induction l0; simpl; auto.
  destruct (negb (isG a c)); simpl; lia.
Qed.

Lemma index_bound p l i k : index p l i = Some k -> i <= k < i + length l.
Proof.
  revert i; induction l; simpl; intros i H. discriminate.
  destruct (p a). inversion H; lia. apply IHl in H. lia.
Qed.

Section Dfs.
  Variable n : nat.
  Variable dp : mid -> list mid.
  Variable Q : mid -> Prop.
  Hypothesis dp_lt : forall m d, In d (dp m) -> d < n.
  Hypothesis Q_closed : forall m d, Q m -> In d (dp m) -> Q d.

  Record Inv (c : list (mid * col)) (lg : list ev) : Prop := {
    inv_cnt : forall x, count (isPI x) lg = if isB x c then 1 else 0;
    inv_ord : forall x d, colour x c = Black -> In d (dp x) -> colour d c = Black /\ precedes (PI x) (PI d) lg;
    inv_Q : forall x, colour x c = Black -> Q x }.

  Definition cyc : Prop := exists x, Q x /\ plus dp x x.

  Definition post (P : list (mid * col) -> Prop) (c : list (mid * col)) (lg : list ev) (r : dfs_res) : Prop :=
    match r with
    | None => cyc
    | Some (c', lg') =>
        Inv c' lg' /\ (forall x, colour x c' = Grey <-> colour x c = Grey) /\ (forall x, colour x c = Black -> colour x c' = Black) /\
        P c' /\ exists l, lg' = l ++ lg /\ Forall is_pi l
    end.

  Lemma step_ok f
    (IH : forall (m : mid) c lg, Inv c lg -> m < n -> Q m -> colour m c <> Grey -> nongrey n c < f ->
            (forall x, colour x c = Grey -> Q x /\ star dp x m) -> post (fun c' => colour m c' = Black) c lg (dfs f dp m c lg)) :
    forall m0 ds c lg, incl ds (dp m0) -> Inv c lg -> Q m0 -> (forall x, colour x c = Grey -> Q x /\ star dp x m0) ->
      nongrey n c < f -> post (fun c' => forall d, In d ds -> colour d c' = Black) c lg (dfs_step (dfs f dp) ds c lg).
  Proof.
    intros m0. induction ds as [|d r IHr]; intros c lg Hincl HI HQ HG Hf.
    - simpl. split; auto. split; [tauto|]. split; auto. split. intros d []. exists []. split; auto.
    - assert (Hd : In d (dp m0)) by (apply Hincl; left; auto).
      destruct (colour d c) eqn:E.
      + (* White *)
        rewrite step_cons_nongrey by congruence.
        assert (P := IH d c lg HI (dp_lt _ _ Hd) (Q_closed _ _ HQ Hd)). rewrite E in P.
        specialize (P ltac:(discriminate) Hf).
        assert (P' : post (fun c' => colour d c' = Black) c lg (dfs f dp d c lg)).
        { apply P. intros x Hx. destruct (HG x Hx). split; auto. eapply star_snoc; eauto. }
        clear P. destruct (dfs f dp d c lg) as [[c' lg']|]; simpl in P'; [|exact P'].
        destruct P' as (HI' & HG' & HB' & Hdb & l' & -> & Hl').
        assert (R : post (fun c'' => forall d0, In d0 r -> colour d0 c'' = Black) c' (l' ++ lg) (dfs_step (dfs f dp) r c' (l' ++ lg))).
        { apply IHr; auto. intros x Hx; apply Hincl; right; auto. intros x Hx. apply HG. apply HG'. auto.
          rewrite (nongrey_ext n c c'); auto. }
        destruct (dfs_step (dfs f dp) r c' (l' ++ lg)) as [[c'' lg'']|]; simpl in R; [|exact R].
        destruct R as (HI'' & HG'' & HB'' & Hrb & l'' & -> & Hl'').
        simpl. split; auto. split. intro x. rewrite HG''. apply HG'. split. intros x Hx. auto.
        split. intros d0 [<-|H0]; auto. exists (l'' ++ l'). split. rewrite app_assoc. reflexivity. apply Forall_app; auto.
      + (* Grey: a cycle *)
        rewrite step_cons_grey by auto. simpl. destruct (HG d E) as [Qd Sd]. exists d. split; auto. eapply star_plus_snoc; eauto.
      + (* Black *)
        rewrite step_cons_nongrey by congruence.
        assert (P := IH d c lg HI (dp_lt _ _ Hd) (Q_closed _ _ HQ Hd)). rewrite E in P.
        specialize (P ltac:(discriminate) Hf).
        assert (P' : post (fun c' => colour d c' = Black) c lg (dfs f dp d c lg)).
        { apply P. intros x Hx. destruct (HG x Hx). split; auto. eapply star_snoc; eauto. }
        clear P. destruct (dfs f dp d c lg) as [[c' lg']|]; simpl in P'; [|exact P'].
        destruct P' as (HI' & HG' & HB' & Hdb & l' & -> & Hl').
        assert (R : post (fun c'' => forall d0, In d0 r -> colour d0 c'' = Black) c' (l' ++ lg) (dfs_step (dfs f dp) r c' (l' ++ lg))).
        { apply IHr; auto. intros x Hx; apply Hincl; right; auto. intros x Hx. apply HG. apply HG'. auto.
          rewrite (nongrey_ext n c c'); auto. }
        destruct (dfs_step (dfs f dp) r c' (l' ++ lg)) as [[c'' lg'']|]; simpl in R; [|exact R].
        destruct R as (HI'' & HG'' & HB'' & Hrb & l'' & -> & Hl'').
        simpl. split; auto. split. intro x. rewrite HG''. apply HG'. split. intros x Hx. auto.
        split. intros d0 [<-|H0]; auto. exists (l'' ++ l'). split. rewrite app_assoc. reflexivity. apply Forall_app; auto.
  Qed.

  Lemma Inv_grey m c lg : Inv c lg -> colour m c = White -> Inv ((m, Grey) :: c) lg.
  Proof.
    intros [H1 H2 H3] Hw. split.
    - intro x. rewrite H1. unfold isB. rewrite colour_cons. destruct (Nat.eqb m x) eqn:E; auto. apply Nat.eqb_eq in E. subst. rewrite Hw. auto.
    - intros x d. rewrite !colour_cons. destruct (Nat.eqb m x) eqn:E. discriminate. intros Hx Hd. destruct (H2 x d Hx Hd) as [Hb Hp].
      split; auto. destruct (Nat.eqb m d) eqn:E'; auto. apply Nat.eqb_eq in E'. subst. congruence.
    - intros x. rewrite colour_cons. destruct (Nat.eqb m x). discriminate. auto.
  Qed.

  Lemma dfs_ok : forall f (m : mid) c lg, Inv c lg -> m < n -> Q m -> colour m c <> Grey -> nongrey n c < f ->
      (forall x, colour x c = Grey -> Q x /\ star dp x m) -> post (fun c' => colour m c' = Black) c lg (dfs f dp m c lg).
  Proof.
    induction f as [|f IHf]; intros m c lg HI Hm HQ Hc Hf HG. lia.
    rewrite dfs_S. destruct (colour m c) eqn:E.
    - (* White *)
      assert (R : post (fun c' => forall d, In d (dp m) -> colour d c' = Black) ((m, Grey) :: c) lg
                    (dfs_step (dfs f dp) (dp m) ((m, Grey) :: c) lg)).
      { apply (step_ok f IHf m).
        - apply incl_refl.
        - apply Inv_grey; auto.
        - exact HQ.
        - intros x. rewrite colour_cons. destruct (Nat.eqb m x) eqn:E'.
          + apply Nat.eqb_eq in E'. subst. intros _. split; auto. apply star_refl.
          + apply HG.
        - assert (nongrey n ((m, Grey) :: c) < nongrey n c) by (apply nongrey_grey; auto; rewrite E; discriminate). lia. }
      destruct (dfs_step (dfs f dp) (dp m) ((m, Grey) :: c) lg) as [[c2 lg2]|]; simpl in R; [|exact R].
      destruct R as ([I1 I2 I3] & HG2 & HB2 & Hdb & l2 & -> & Hl2).
      assert (Gm : colour m c2 = Grey). { apply HG2. rewrite colour_cons, Nat.eqb_refl. auto. }
      simpl. split; [split|split; [|split; [|split]]].
      + intro x. rewrite count_cons. simpl. unfold isB. rewrite colour_cons. destruct (Nat.eqb m x) eqn:E'.
        * apply Nat.eqb_eq in E'. subst x. rewrite I1. unfold isB. rewrite Gm. reflexivity.
        * rewrite I1. reflexivity.
      + intros x d. rewrite !colour_cons. destruct (Nat.eqb m x) eqn:E'.
        * apply Nat.eqb_eq in E'. subst x. intros _ Hd. assert (Bd := Hdb d Hd).
          assert (Nd : Nat.eqb m d = false). { destruct (Nat.eqb m d) eqn:E''; auto. apply Nat.eqb_eq in E''. subst d. congruence. }
          rewrite Nd. split; auto. apply precedes_head. apply In_PI. rewrite I1. unfold isB. rewrite Bd. lia.
        * intros Hx Hd. destruct (I2 x d Hx Hd) as [Bd Pd]. split. destruct (Nat.eqb m d); auto. apply precedes_cons; auto.
      + intros x. rewrite colour_cons. destruct (Nat.eqb m x) eqn:E'. apply Nat.eqb_eq in E'. subst; auto. apply I3.
      + intro x. rewrite colour_cons. destruct (Nat.eqb m x) eqn:E'.
        * apply Nat.eqb_eq in E'. subst x. rewrite E. split; discriminate.
        * rewrite HG2. rewrite colour_cons, E'. tauto.
      + intros x Hx. rewrite colour_cons. destruct (Nat.eqb m x) eqn:E'; auto. apply HB2. rewrite colour_cons, E'. auto.
      + rewrite colour_cons, Nat.eqb_refl. auto.
      + exists (PI m :: l2). split; auto. constructor; simpl; auto.
    - congruence.
    - simpl. split; auto. split; [tauto|]. split; auto. split; auto. exists []; auto.
  Qed.

  (* the walk over the sorted module list, as in run *)
  Definition dfs_all (fuel : nat) (order : list mid) (acc : dfs_res) : dfs_res :=
    fold_left (fun acc m => match acc with
                            | Some (c, lg) => match colour m c with White => dfs fuel dp m c lg | _ => Some (c, lg) end
                            | None => None end) order acc.

  Lemma dfs_all_cons fuel a r acc : dfs_all fuel (a :: r) acc =
    dfs_all fuel r (match acc with
                    | Some (c, lg) => match colour a c with White => dfs fuel dp a c lg | _ => Some (c, lg) end
                    | None => None end).
  Proof. reflexivity. Qed.
  Lemma dfs_all_None fuel order : dfs_all fuel order None = None.
  Proof. induction order; simpl; auto. Qed.

  Lemma dfs_all_ok : forall order c lg, Inv c lg -> (forall x, colour x c <> Grey) -> (forall x, In x order -> x < n /\ Q x) ->
    match dfs_all (S n) order (Some (c, lg)) with
    | None => cyc
    | Some (c', lg') => Inv c' lg' /\ (forall x, colour x c' <> Grey) /\ (forall x, colour x c = Black -> colour x c' = Black) /\
                        (forall x, In x order -> colour x c' = Black) /\ exists l, lg' = l ++ lg /\ Forall is_pi l
    end.
  Proof.
    induction order as [|a r IHr]; intros c lg HI HG Ho.
    - simpl. split; auto. split; auto. split; auto. split. intros x []. exists []; auto.
    - assert (Ha : a < n /\ Q a) by (apply Ho; left; auto). destruct Ha as [Ha Qa].
      rewrite dfs_all_cons. destruct (colour a c) eqn:E.
      + assert (P : post (fun c' => colour a c' = Black) c lg (dfs (S n) dp a c lg)).
        { apply dfs_ok; auto. pose proof (nongrey_le n c). lia. intros x Hx. destruct (HG x Hx). }
        destruct (dfs (S n) dp a c lg) as [[c' lg']|]; simpl in P.
        * destruct P as (HI' & HG' & HB' & Hab & l' & -> & Hl').
          assert (R := IHr c' (l' ++ lg) HI').
          assert (HGn : forall x, colour x c' <> Grey). { intros x Hx. apply HG' in Hx. exact (HG x Hx). }
          specialize (R HGn ltac:(intros; apply Ho; right; auto)).
          destruct (dfs_all (S n) r (Some (c', l' ++ lg))) as [[c'' lg'']|]; auto.
          destruct R as (HI'' & HG'' & HB'' & Hrb & l'' & -> & Hl'').
          split; auto. split; auto. split; auto. split. intros x [<-|Hx]; auto. exists (l'' ++ l'). rewrite app_assoc. split; auto. apply Forall_app; auto.
        * rewrite dfs_all_None. exact P.
      + destruct (HG a E).
      + assert (R := IHr c lg HI HG ltac:(intros; apply Ho; right; auto)).
        destruct (dfs_all (S n) r (Some (c, lg))) as [[c'' lg'']|]; auto.
        destruct R as (HI'' & HG'' & HB'' & Hrb & l'' & -> & Hl'').
        split; auto. split; auto. split; auto. split. intros x [<-|Hx]; auto. exists l''; auto.
  Qed.

  (* a successful walk yields a rank function on the visited modules: the position of the PI *)
  Lemma Inv_rank c lg : Inv c lg -> exists rank : mid -> nat,
      forall x d, colour x c = Black -> In d (dp x) -> colour d c = Black /\ rank d < rank x.
  Proof.
    intros [I1 I2 I3].
    exists (fun x => match index (isPI x) lg 0 with Some i => length lg - i | None => 0 end).
    intros x d Hx Hd. destruct (I2 x d Hx Hd) as [Bd Pd]. split; auto.
    assert (Cd : count (isPI d) lg = 1). { rewrite I1. unfold isB. rewrite Bd. auto. }
    assert (B := precedes_index (isPI x) (isPI d) (PI x) (PI d) lg Pd).
    specialize (B ltac:(apply isPI_true; auto) ltac:(apply isPI_true; auto) Cd).
    destruct (index (isPI x) lg 0) as [i|] eqn:Ei; [|discriminate]. destruct (index (isPI d) lg 0) as [j|] eqn:Ej; [|discriminate].
    simpl in B. apply Nat.ltb_lt in B. apply index_bound in Ei. apply index_bound in Ej. lia.
  Qed.

  (* Phase 2, summary *)
  Theorem postinit_phase : forall order lg0,
    (forall x, In x order -> x < n /\ Q x) -> (forall x, count (isPI x) lg0 = 0) ->
    match dfs_all (S n) order (Some ([], lg0)) with
    | None => cyc
    | Some (c, lg) =>
        (exists l, lg = l ++ lg0 /\ Forall is_pi l) /\
        (forall x, In x order -> count (isPI x) lg = 1) /\
        (forall x, count (isPI x) lg <= 1 /\ (0 < count (isPI x) lg -> Q x)) /\
        (forall x d, In x order -> In d (dp x) -> count (isPI d) lg = 1 /\ precedes (PI x) (PI d) lg) /\
        (exists rank : mid -> nat, forall x d, count (isPI x) lg = 1 -> In d (dp x) -> count (isPI d) lg = 1 /\ rank d < rank x)
    end.
  Proof.
    intros order lg0 Ho H0.
    assert (HI : Inv [] lg0).
    { split. intro x. rewrite H0. reflexivity. intros x d H; discriminate. intros x H; discriminate. }
    assert (R := dfs_all_ok order [] lg0 HI ltac:(intros x H; discriminate) Ho).
    destruct (dfs_all (S n) order (Some ([], lg0))) as [[c lg]|]; auto.
    destruct R as (HI' & HG' & _ & Hb & Hl).
    assert (BC : forall x, count (isPI x) lg = 1 <-> colour x c = Black).
    { intro x. rewrite (inv_cnt _ _ HI'). unfold isB. destruct (colour x c); split; auto; discriminate. }
    split; auto. split. intros x Hx. apply BC. auto.
    split. intro x. rewrite (inv_cnt _ _ HI'). unfold isB. destruct (colour x c) eqn:E; split; auto; try lia. intros _. apply (inv_Q _ _ HI'); auto.
    split. intros x d Hx Hd. destruct (inv_ord _ _ HI' x d (Hb x Hx) Hd). split; auto. apply BC; auto.
    destruct (Inv_rank c lg HI') as [rank Hr]. exists rank. intros x d Hx Hd. apply BC in Hx. destruct (Hr x d Hx Hd). split; auto. apply BC; auto.
  Qed.

  (* the two directions in the form asked for: no cycle => the walk succeeds; a cycle through a module of the order => it aborts *)
  Corollary postinit_never_aborts_acyclic : forall order lg0,
    (forall x, In x order -> x < n /\ Q x) -> (forall x, count (isPI x) lg0 = 0) -> (forall x, ~ plus dp x x) ->
    exists c lg, dfs_all (S n) order (Some ([], lg0)) = Some (c, lg).
  Proof.
    intros order lg0 Ho H0 A. pose proof (postinit_phase order lg0 Ho H0) as P.
    destruct (dfs_all (S n) order (Some ([], lg0))) as [[c lg]|]. eauto. destruct P as [x [_ Px]]. destruct (A x Px).
  Qed.
  Corollary postinit_cycle_aborts : forall order lg0,
    (forall x, In x order -> x < n /\ Q x) -> (forall x, count (isPI x) lg0 = 0) -> (exists x, In x order /\ plus dp x x) ->
    dfs_all (S n) order (Some ([], lg0)) = None.
  Proof.
    intros order lg0 Ho H0 [x [Hx Px]]. pose proof (postinit_phase order lg0 Ho H0) as P.
    destruct (dfs_all (S n) order (Some ([], lg0))) as [[c lg]|]; auto. exfalso.
    destruct P as (_ & P1 & _ & _ & rank & Hr).
    assert (St : forall y z, star dp y z -> count (isPI y) lg = 1 -> rank z <= rank y /\ count (isPI z) lg = 1).
    { induction 1; intro Hy. auto. destruct (Hr x0 y Hy H) as [Hy' Hlt]. destruct (IHstar Hy'). split; auto. lia. }
    inversion Px as [a b c0 Hab Hbc Ea Ec]; subst.
    destruct (Hr x b (P1 x Hx) Hab) as [Hb Hlt]. destruct (St b x Hbc Hb). lia.
  Qed.
End Dfs.
