(* C16 on the parser model (Conf.v): any configuration tree written in the documented syntax (quoted strings,
   "name value;", "name host service;", "name ( a, b );", "name { entries };") is read back as exactly that tree,
   normalised by the documented semantics (later duplicates override, repeated objects merge).
   Proved once for every rendering with arbitrary white space / comments between the tokens ([rfile]); the
   canonical printer [print] is one such rendering. *)
From Coq Require Import List NArith Bool Strings.Byte Lia Arith.
Import ListNotations.
Require Import Conf ConfRT ConfTotal.

Definition SP := x20. Definition SEMI := x3b. Definition LP := x28. Definition RP := x29.
Definition LB := x7b. Definition RB := x7d. Definition COMMA := x2c.

(* ------------------------------------------------------------------------------------------------ *)
(* trees as written, and what they mean                                                              *)
(* ------------------------------------------------------------------------------------------------ *)
Inductive tval := TStr (v : str) | TIna (h s : str) | TList (l : list str) | TObj (es : list (str * tval)).

(* add one written entry to a child list: find-or-insert by (case-folded name, kind); a repeated object
   continues the existing one *)
Fixpoint addv (n : str) (tv : tval) (kids : kidsT) {struct tv} : kidsT :=
  match tv with
  | TStr v => upsert n 0 (fun _ => VStr v) kids
  | TIna h s => upsert n 1 (fun _ => VIna (Some h) (Some s)) kids
  | TList l => upsert n 2 (fun _ => VList l) kids
  | TObj es =>
    upsert n 3 (fun _ => VObj ((fix go (l : list (str * tval)) (ks : kidsT) : kidsT :=
                                  match l with [] => ks | (n', tv') :: r => go r (addv n' tv' ks) end) es (old_of n kids))) kids
  end.
Fixpoint norm_into (es : list (str * tval)) (ks : kidsT) : kidsT :=
  match es with [] => ks | (n, tv) :: r => norm_into r (addv n tv ks) end.
Definition norm (es : list (str * tval)) : kidsT := norm_into es [].

(* how deep the objects of a written tree are nested: an object is one level more than its deepest child *)
Fixpoint vdepth (tv : tval) : nat :=
  match tv with
  | TObj es => S ((fix go (l : list (str * tval)) : nat :=
                     match l with [] => O | (_, tv') :: r => Nat.max (vdepth tv') (go r) end) es)
  | _ => O
  end.
Fixpoint tdepth (es : list (str * tval)) : nat :=
  match es with [] => O | (_, tv) :: r => Nat.max (vdepth tv) (tdepth r) end.

Lemma vdepth_obj es : vdepth (TObj es) = S (tdepth es).
Proof.
  reflexivity.
Qed.

Lemma addv_obj n es kids : addv n (TObj es) kids = upsert n 3 (fun _ => VObj (norm_into es (old_of n kids))) kids.
Proof. reflexivity. Qed.

Lemma norm_into_fold es ks : norm_into es ks = fold_left (fun k e => addv (fst e) (snd e) k) es ks.
Proof. revert ks. induction es as [|[n tv] es IH]; intros ks; cbn [norm_into fold_left fst snd]; [reflexivity|apply IH]. Qed.

Inductive wfv : tval -> Prop :=
| wf_str v : nonul v -> wfv (TStr v)
| wf_ina h s : nonul h -> nonul s -> wfv (TIna h s)
| wf_list l : Forall nonul l -> wfv (TList l)
| wf_obj es : wf es -> wfv (TObj es)
with wf : list (str * tval) -> Prop :=
| wf_nil : wf []
| wf_cons n tv es : nonul n -> wfv tv -> wf es -> wf ((n, tv) :: es).

(* ------------------------------------------------------------------------------------------------ *)
(* white space between tokens                                                                        *)
(* ------------------------------------------------------------------------------------------------ *)
(* [gap care w]: the scanner (in mode [care]) reads over [w] whatever follows *)
Definition gap (care : bool) (w : str) : Prop :=
  forall fuel rest, length (w ++ rest) < fuel -> ws fuel care (w ++ rest) = ws fuel care rest.
Definition stopb (c : byte) : bool := negb (isspace c) && negb (beq c SLASH).

Lemma ws_S f care c r :
  ws (S f) care (c :: r) =
    if beq c NL then (if care then (Some c, r) else ws f care r)
    else if isspace c then ws f care r
    else if negb (beq c SLASH) then (Some c, r)
    else match r with
         | [] => (Some c, [])
         | d :: r2 => if beq d STAR then match skip_block r2 with Some r3 => ws f care r3 | None => (None, []) end
                      else if beq d SLASH then ws f care (skip_line r2)
                      else (Some c, r)
         end.
Proof. reflexivity. Qed.

Lemma ws_stop f care c rest : stopb c = true -> ws (S f) care (c :: rest) = (Some c, rest).
Proof.
  unfold stopb. intros H. apply andb_true_iff in H as [H1 H2]. apply negb_true_iff in H1.
  rewrite ws_S. destruct (beq c NL) eqn:E.
  - apply beq_eq in E. subst c. vm_compute in H1. discriminate H1.
  - rewrite H1, H2. reflexivity.
Qed.

Lemma gap_nil care : gap care [].
Proof. intros fuel rest _. reflexivity. Qed.

Lemma gap_app care w1 w2 : gap care w1 -> gap care w2 -> gap care (w1 ++ w2).
Proof.
  intros H1 H2 fuel rest Hl. rewrite <- app_assoc in *. rewrite H1 by exact Hl. apply H2.
  rewrite !app_length in *. lia.
Qed.

Lemma gap_space care c : isspace c = true -> (care = true -> beq c NL = false) -> gap care [c].
Proof.
  intros Hs Hn fuel rest Hl. cbn [app length] in *. destruct fuel as [|f]; [lia|].
  rewrite ws_S. destruct (beq c NL) eqn:E.
  - destruct care; [specialize (Hn eq_refl); discriminate|]. apply ws_fuel; lia.
  - rewrite Hs. apply ws_fuel; lia.
Qed.

Lemma gap_sp care : gap care [SP].
Proof. apply gap_space; [reflexivity|intros _; reflexivity]. Qed.
Lemma gap_nl : gap false [NL].
Proof. apply gap_space; [reflexivity|discriminate]. Qed.

(* block comment: the text between the markers is anything in which the scanner finds no earlier end marker *)
Lemma gap_block care body :
  (forall rest, skip_block (body ++ STAR :: SLASH :: rest) = Some rest) ->
  gap care (SLASH :: STAR :: body ++ [STAR; SLASH]).
Proof.
  intros Hb fuel rest Hl. destruct fuel as [|f]; [cbn [length] in Hl; lia|].
  cbn [app]. rewrite ws_S. change (beq SLASH NL) with false. change (isspace SLASH) with false.
  change (negb (beq SLASH SLASH)) with false. change (beq STAR STAR) with true. cbv iota.
  rewrite <- app_assoc. cbn [app]. rewrite Hb. apply ws_fuel; cbn [app length] in Hl; rewrite ?app_length in Hl; cbn [length] in Hl; lia.
Qed.

(* a sufficient syntactic condition: no "*/" inside the comment text *)
Fixpoint noclose (s : str) : bool :=
  match s with
  | [] => true
  | c :: r => match r with d :: _ => negb (beq c STAR && beq d SLASH) | [] => true end && noclose r
  end.
Lemma skip_block_noclose body : noclose body = true -> forall rest, skip_block (body ++ STAR :: SLASH :: rest) = Some rest.
Proof.
  induction body as [|c r IH]; intros Hn rest.
  - reflexivity.
  - cbn [noclose] in Hn. apply andb_true_iff in Hn as [H1 H2]. specialize (IH H2 rest).
    cbn [app skip_block]. destruct (beq c STAR) eqn:Ec; [|exact IH].
    destruct r as [|d r2].
    + cbn [app]. change (beq STAR SLASH) with false. cbv iota. exact IH.
    + cbn [app]. cbn [andb] in H1. apply negb_true_iff in H1. rewrite H1. exact IH.
Qed.

(* line comment (only where newlines are not significant): runs to the newline, which is then skipped *)
Lemma skip_line_nonl text rest : Forall (fun c => beq c NL = false) text -> skip_line (text ++ NL :: rest) = NL :: rest.
Proof.
  induction 1 as [|c t Hc Ht IH]; cbn [app skip_line].
  - reflexivity.
  - rewrite Hc. exact IH.
Qed.
Lemma gap_line text : Forall (fun c => beq c NL = false) text -> gap false (SLASH :: SLASH :: text ++ [NL]).
Proof.
  intros Ht fuel rest Hl. destruct fuel as [|f]; [cbn [length] in Hl; lia|].
  cbn [app]. rewrite ws_S. change (beq SLASH NL) with false. change (isspace SLASH) with false.
  change (negb (beq SLASH SLASH)) with false. change (beq SLASH STAR) with false. change (beq SLASH SLASH) with true. cbv iota.
  rewrite <- app_assoc. cbn [app]. rewrite skip_line_nonl by exact Ht.
  cbn [app length] in Hl; rewrite ?app_length in Hl; cbn [length] in Hl.
  destruct f as [|f]; [lia|]. rewrite ws_S. change (beq NL NL) with true. cbv iota. apply ws_fuel; lia.
Qed.

(* ------------------------------------------------------------------------------------------------ *)
(* token lemmas                                                                                      *)
(* ------------------------------------------------------------------------------------------------ *)
Definition qbody (s rest : str) : str := flat_map esc s ++ QUOTE :: rest.
Lemma quote_app s rest : quote s ++ rest = QUOTE :: qbody s rest.
Proof. unfold quote, qbody. cbn [app]. rewrite <- app_assoc. reflexivity. Qed.
Lemma quote_length s : length (quote s) = S (S (length (flat_map esc s))).
Proof. unfold quote. cbn [length]. rewrite app_length. cbn [length]. lia. Qed.
Lemma qbody_length s rest : length (qbody s rest) = S (length (flat_map esc s) + length rest).
Proof. unfold qbody. rewrite app_length. cbn [length]. lia. Qed.

Ltac len := repeat first [rewrite app_length in * | rewrite qbody_length in * | rewrite quote_length in * | progress cbn [length] in *]; lia.

Lemma ws_gap_tok care g c rest fuel :
  gap care g -> stopb c = true -> length (g ++ c :: rest) < fuel -> ws fuel care (g ++ c :: rest) = (Some c, rest).
Proof.
  intros Hg Hc Hl. rewrite Hg by exact Hl. destruct fuel as [|f]; [lia|]. apply ws_stop. exact Hc.
Qed.

Lemma ws_gap_end care g fuel : gap care g -> length g < fuel -> ws fuel care g = (None, []).
Proof.
  intros Hg Hl. rewrite <- (app_nil_r g). rewrite Hg by (rewrite app_nil_r; exact Hl).
  destruct fuel; reflexivity.
Qed.

Lemma pstring_q f s rest : nonul s -> pstring (S f) (QUOTE :: qbody s rest) = Some (inr (s, rest)).
Proof.
  intros Hn. unfold pstring. rewrite ws_quote. change (beq QUOTE QUOTE) with true. cbv iota.
  unfold qbody. rewrite unq_quote, cut_nul_id by exact Hn. reflexivity.
Qed.

Lemma pstring_gap_quote fuel g s rest :
  gap false g -> nonul s -> length (g ++ quote s ++ rest) < fuel -> pstring fuel (g ++ quote s ++ rest) = Some (inr (s, rest)).
Proof.
  intros Hg Hn Hl. rewrite quote_app in *. unfold pstring. rewrite ws_gap_tok by (trivial; reflexivity).
  change (beq QUOTE QUOTE) with true. cbv iota.
  unfold qbody. rewrite unq_quote, cut_nul_id by exact Hn. reflexivity.
Qed.

Lemma tail_semi fuel top k g rest :
  gap true g -> length (g ++ SEMI :: rest) < fuel -> tail_of fuel top k (g ++ SEMI :: rest) = inr (k, rest).
Proof.
  intros Hg Hl. unfold tail_of. rewrite ws_gap_tok by (trivial; reflexivity). reflexivity.
Qed.
Lemma tail_semi0 f top k rest : tail_of (S f) top k (SEMI :: rest) = inr (k, rest).
Proof. reflexivity. Qed.

Ltac nrm := repeat first [rewrite <- app_assoc in * | progress cbn [app] in *].

(* decide the comparisons of concrete token bytes *)
Ltac tokc :=
  repeat match goal with
  | |- context [(nb ?c =? ?k)%N] =>
      let b := eval vm_compute in (nb c =? k)%N in
      lazymatch b with
      | true => change (nb c =? k)%N with true
      | false => change (nb c =? k)%N with false
      end
  end; cbn [andb orb negb]; cbv beta iota.

(* ------------------------------------------------------------------------------------------------ *)
(* renderings                                                                                        *)
(* ------------------------------------------------------------------------------------------------ *)
(* the text after "(" up to and including ")" *)
Inductive ritems : list str -> str -> Prop :=
| ri_nil g : gap false g -> ritems [] (g ++ [RP])
| ri_last g1 g2 a : gap false g1 -> gap false g2 -> ritems [a] (g1 ++ quote a ++ g2 ++ [RP])
| ri_cons g1 g2 a l t : gap false g1 -> gap false g2 -> ritems l t -> ritems (a :: l) (g1 ++ quote a ++ g2 ++ COMMA :: t).

(* [rentry n tv t]: t is a rendering of the entry, from the opening quote of the name through the ";"
   [rbody es t]: t is the text after "{" up to and including "}" *)
Inductive rentry : str -> tval -> str -> Prop :=
| re_str n v g2 g3 : gap false g2 -> gap true g3 -> rentry n (TStr v) (quote n ++ g2 ++ quote v ++ g3 ++ [SEMI])
| re_ina n h s g2 g3 g4 : gap false g2 -> gap true g3 -> gap true g4 ->
    rentry n (TIna h s) (quote n ++ g2 ++ quote h ++ g3 ++ quote s ++ g4 ++ [SEMI])
| re_list n l g2 t g3 : gap false g2 -> ritems l t -> gap true g3 -> rentry n (TList l) (quote n ++ g2 ++ LP :: t ++ g3 ++ [SEMI])
| re_obj n es g2 t g3 : gap false g2 -> rbody es t -> gap true g3 -> rentry n (TObj es) (quote n ++ g2 ++ LB :: t ++ g3 ++ [SEMI])
with rbody : list (str * tval) -> str -> Prop :=
| rb_nil g : gap false g -> rbody [] (g ++ [RB])
| rb_cons g n tv t es t' : gap false g -> rentry n tv t -> rbody es t' -> rbody ((n, tv) :: es) (g ++ t ++ t').

Scheme rentry_min := Minimality for rentry Sort Prop
  with rbody_min := Minimality for rbody Sort Prop.
Combined Scheme rentry_rbody_min from rentry_min, rbody_min.

(* a whole file: entries separated by gaps, then trailing white space *)
Inductive rfile : list (str * tval) -> str -> Prop :=
| rf_nil g : gap false g -> rfile [] g
| rf_cons g n tv t es t' : gap false g -> rentry n tv t -> rfile es t' -> rfile ((n, tv) :: es) (g ++ t ++ t').

Lemma rentry_head n tv t : rentry n tv t -> exists t0, t = QUOTE :: t0.
Proof. intros H. destruct H; rewrite quote_app; eexists; reflexivity. Qed.

(* ------------------------------------------------------------------------------------------------ *)
(* reading a rendering                                                                               *)
(* ------------------------------------------------------------------------------------------------ *)
Lemma plist_items l t : ritems l t ->
  forall fuel acc rest, Forall nonul l -> length (t ++ rest) < fuel -> plist fuel (t ++ rest) acc = inr (rev acc ++ l, rest).
Proof.
  induction 1 as [g Hg|g1 g2 a Hg1 Hg2|g1 g2 a l t Hg1 Hg2 Hr IH]; intros fuel acc rest Hn Hl;
    (destruct fuel as [|f]; [lia|]); rewrite plist_S; nrm.
  - rewrite ws_gap_tok by (trivial; reflexivity). tokc. rewrite app_nil_r. reflexivity.
  - inversion Hn; subst. rewrite quote_app in *.
    rewrite ws_gap_tok by (trivial; reflexivity). tokc.
    rewrite pstring_q by assumption. cbv beta iota.
    rewrite ws_gap_tok by (trivial; try reflexivity; len). tokc. reflexivity.
  - inversion Hn; subst. rewrite quote_app in *.
    rewrite ws_gap_tok by (trivial; reflexivity). tokc.
    rewrite pstring_q by assumption. cbv beta iota.
    rewrite ws_gap_tok by (trivial; try reflexivity; len). tokc.
    rewrite IH by (trivial; len). cbn [rev]. rewrite <- app_assoc. reflexivity.
Qed.

Lemma entry_rbody_read :
  (forall n tv t, rentry n tv t ->
     forall fuel d g rest kids, gap false g -> nonul n -> wfv tv -> d + vdepth tv <= max_depth -> length (g ++ t ++ rest) < fuel ->
       entry fuel d (g ++ t ++ rest) kids = inr (addv n tv kids, rest)) /\
  (forall es t, rbody es t ->
     forall f d fu rest ks, wf es -> d + tdepth es <= max_depth -> length (t ++ rest) < f -> length (t ++ rest) < fu ->
       body_of (entry f d) (S f) fu (t ++ rest) ks = inr (norm_into es ks, rest)).
Proof.
  apply rentry_rbody_min.
  - (* string *)
    intros n v g2 g3 Hg2 Hg3 fuel d g rest kids Hg Hn Hv Hd Hl. inversion Hv; subst.
    destruct fuel as [|f]; [lia|]. rewrite entry_S. unfold entry_step.
    nrm.
    rewrite pstring_gap_quote by assumption. cbv beta iota.
    rewrite quote_app in *.
    rewrite ws_gap_tok by (trivial; try reflexivity; len). tokc.
    rewrite pstring_q by assumption. cbv beta iota.
    rewrite ws_gap_tok by (trivial; try reflexivity; len). tokc.
    rewrite tail_semi0. reflexivity.
  - (* host and service *)
    intros n h s g2 g3 g4 Hg2 Hg3 Hg4 fuel d g rest kids Hg Hn Hv Hd Hl. inversion Hv; subst.
    destruct fuel as [|f]; [lia|]. rewrite entry_S. unfold entry_step.
    nrm.
    rewrite pstring_gap_quote by assumption. cbv beta iota.
    rewrite !quote_app in *.
    rewrite ws_gap_tok by (trivial; try reflexivity; len). tokc.
    rewrite pstring_q by assumption. cbv beta iota.
    rewrite ws_gap_tok by (trivial; try reflexivity; len). tokc.
    rewrite pstring_q by assumption. cbv beta iota.
    rewrite tail_semi by (trivial; len). reflexivity.
  - (* list *)
    intros n l g2 t g3 Hg2 Hr Hg3 fuel d g rest kids Hg Hn Hv Hd Hl. inversion Hv; subst.
    destruct fuel as [|f]; [lia|]. rewrite entry_S. unfold entry_step.
    nrm.
    rewrite pstring_gap_quote by assumption. cbv beta iota.
    rewrite ws_gap_tok by (trivial; try reflexivity; len). tokc.
    rewrite (plist_items l t Hr) by (trivial; len). cbv beta iota. cbn [rev app].
    rewrite tail_semi by (trivial; len). reflexivity.
  - (* object *)
    intros n es g2 t g3 Hg2 Hr IH Hg3 fuel d g rest kids Hg Hn Hv Hd Hl. inversion Hv; subst.
    rewrite vdepth_obj in Hd.
    destruct fuel as [|f]; [lia|]. rewrite entry_S. unfold entry_step.
    nrm.
    rewrite pstring_gap_quote by assumption. cbv beta iota.
    rewrite ws_gap_tok by (trivial; try reflexivity; len). tokc.
    replace (Nat.leb max_depth d) with false by (symmetry; apply Nat.leb_gt; lia). cbv beta iota.
    rewrite IH by (trivial; len). cbv beta iota.
    rewrite tail_semi by (trivial; len). rewrite addv_obj. reflexivity.
  - (* end of object *)
    intros g Hg f d fu rest ks Hw Hd Hf Hfu.
    destruct fu as [|fu]; [lia|]. rewrite body_of_S. nrm.
    rewrite ws_gap_tok by (trivial; try reflexivity; len). tokc. reflexivity.
  - (* entry inside an object *)
    intros g n tv t es t' Hg Hr IHe Hb IHb f d fu rest ks Hw Hd Hf Hfu. inversion Hw; subst.
    cbn [tdepth] in Hd.
    destruct fu as [|fu]; [lia|]. rewrite body_of_S. rewrite <- !app_assoc in *.
    destruct (rentry_head _ _ _ Hr) as [t0 ->]. cbn [app] in *.
    rewrite ws_gap_tok by (trivial; try reflexivity; len). tokc.
    assert (X := IHe f d [] (t' ++ rest) ks (gap_nil _)). cbn [app] in X.
    rewrite X by (trivial; len). cbv beta iota.
    apply IHb; trivial; len.
Qed.

Theorem entry_read n tv t fuel d g rest kids :
  rentry n tv t -> gap false g -> nonul n -> wfv tv -> d + vdepth tv <= max_depth -> length (g ++ t ++ rest) < fuel ->
  entry fuel d (g ++ t ++ rest) kids = inr (addv n tv kids, rest).
Proof. intros H. apply (proj1 entry_rbody_read); exact H. Qed.

Lemma entries_S_ne f s kids : s <> [] ->
  entries (S f) s kids = match entry (S f) 0 s kids with inl e => inl e | inr (k', r) => entries f r k' end.
Proof. intros H. destruct s; [congruence|reflexivity]. Qed.

(* B, explicit fuel: any amount of fuel that is at least length + 2 *)
Theorem entries_read es t : rfile es t ->
  forall fuel kids, wf es -> tdepth es <= max_depth -> length t + 2 <= fuel -> entries fuel t kids = inr (norm_into es kids).
Proof.
  induction 1 as [g Hg|g n tv t es t' Hg Hr Hf IH]; intros fuel kids Hw Hd Hl.
  - destruct fuel as [|f]; [lia|]. rewrite entries_S. destruct g as [|c g]; [reflexivity|].
    rewrite entry_S. unfold entry_step. unfold pstring at 1.
    rewrite ws_gap_end by (trivial; lia). cbv beta iota.
    destruct f as [|f]; [cbn [length] in Hl; lia|]. reflexivity.
  - inversion Hw; subst. cbn [tdepth] in Hd. destruct fuel as [|f]; [lia|].
    destruct (rentry_head _ _ _ Hr) as [t0 Et].
    rewrite entries_S_ne by (subst t; destruct g; discriminate).
    rewrite (entry_read n tv t) by (trivial; len).
    apply IH; trivial; [lia|]. subst t. len.
Qed.

Lemma rfile_nonempty es t : rfile es t -> es <> [] -> t <> [].
Proof.
  intros H He. destruct H as [|g n tv t es t' Hg Hr Hf]; [congruence|].
  destruct (rentry_head _ _ _ Hr) as [t0 ->]. destruct g; discriminate.
Qed.

(* C16 for every rendering *)
Theorem parse_renders es t : rfile es t -> wf es -> tdepth es <= max_depth -> es <> [] -> nonul t -> parse t = inr (norm es).
Proof.
  intros Hr Hw Hd He Hn. pose proof (rfile_nonempty _ _ Hr He) as Ht.
  unfold parse. destruct t as [|c t]; [congruence|]. cbv zeta.
  rewrite cut_nul_id by exact Hn. apply entries_read; trivial. lia.
Qed.

(* ------------------------------------------------------------------------------------------------ *)
(* the canonical printer                                                                             *)
(* ------------------------------------------------------------------------------------------------ *)
Fixpoint pitems (l : list str) : str :=
  match l with
  | [] => [RP]
  | a :: r => quote a ++ match r with [] => [RP] | _ :: _ => COMMA :: SP :: pitems r end
  end.

Fixpoint pentry (n : str) (tv : tval) {struct tv} : str :=
  quote n ++ SP ::
  match tv with
  | TStr v => quote v ++ [SEMI]
  | TIna h s => quote h ++ SP :: quote s ++ [SEMI]
  | TList l => LP :: pitems l ++ [SEMI]
  | TObj es => LB :: (fix go (l : list (str * tval)) : str :=
                        match l with [] => [SP; RB] | (n', tv') :: r => SP :: pentry n' tv' ++ go r end) es ++ [SEMI]
  end.
Fixpoint pbody (es : list (str * tval)) : str :=
  match es with [] => [SP; RB] | (n, tv) :: r => SP :: pentry n tv ++ pbody r end.
(* one entry per line *)
Fixpoint print (es : list (str * tval)) : str :=
  match es with [] => [] | (n, tv) :: r => pentry n tv ++ NL :: print r end.

Lemma pentry_obj n es : pentry n (TObj es) = quote n ++ SP :: LB :: pbody es ++ [SEMI].
Proof. reflexivity. Qed.

Lemma pitems_r l : forall g, gap false g -> ritems l (g ++ pitems l).
Proof.
  induction l as [|a r IH]; intros g Hg.
  - apply ri_nil. exact Hg.
  - cbn [pitems]. destruct r as [|b r].
    + apply (ri_last g [] a Hg (gap_nil _)).
    + apply (ri_cons g [] a (b :: r) ([SP] ++ pitems (b :: r)) Hg (gap_nil _)). apply IH. apply gap_sp.
Qed.

Definition tval_ind' (P : tval -> Prop)
  (Hs : forall v, P (TStr v)) (Hi : forall h s, P (TIna h s)) (Hl : forall l, P (TList l))
  (Ho : forall es, Forall (fun e => P (snd e)) es -> P (TObj es)) : forall t, P t :=
  fix F (t : tval) : P t :=
    match t with
    | TStr v => Hs v | TIna h s => Hi h s | TList l => Hl l
    | TObj es => Ho es ((fix G (l : list (str * tval)) : Forall (fun e => P (snd e)) l :=
                           match l with
                           | [] => Forall_nil _
                           | e :: r => Forall_cons e (match e as e0 return P (snd e0) with (n, tv) => F tv end) (G r)
                           end) es)
    end.

Lemma pentry_r tv : forall n, rentry n tv (pentry n tv).
Proof.
  induction tv as [v|h s|l|es IH] using tval_ind'; intros n.
  - apply (re_str n v [SP] [] (gap_sp _) (gap_nil _)).
  - apply (re_ina n h s [SP] [SP] [] (gap_sp _) (gap_sp _) (gap_nil _)).
  - apply (re_list n l [SP] (pitems l) [] (gap_sp _) (pitems_r l [] (gap_nil _)) (gap_nil _)).
  - rewrite pentry_obj. apply (re_obj n es [SP] (pbody es) [] (gap_sp _)); [|apply gap_nil].
    induction IH as [|[n' tv'] r Hx Hr IHr]; cbn [pbody].
    + apply (rb_nil [SP] (gap_sp _)).
    + apply (rb_cons [SP] n' tv' (pentry n' tv') r (pbody r) (gap_sp _)); [apply Hx|exact IHr].
Qed.

Lemma print_r es : forall g, gap false g -> rfile es (g ++ print es).
Proof.
  induction es as [|[n tv] r IH]; intros g Hg; cbn [print].
  - rewrite app_nil_r. apply rf_nil. exact Hg.
  - apply (rf_cons g n tv (pentry n tv) r ([NL] ++ print r) Hg (pentry_r tv n)). apply IH. apply gap_nl.
Qed.

(* the printed text contains no NUL *)
Lemma nonul_app a b : nonul a -> nonul b -> nonul (a ++ b).
Proof. intros Ha Hb. apply Forall_app. split; assumption. Qed.
Lemma nonul_cons c s : beq c x00 = false -> nonul s -> nonul (c :: s).
Proof. intros. constructor; assumption. Qed.
Lemma nonul_quote s : nonul s -> nonul (quote s).
Proof.
  intros Hs. unfold quote. apply nonul_cons; [reflexivity|]. apply nonul_app; [|apply nonul_cons; [reflexivity|constructor]].
  induction Hs as [|c s Hc Hs IH]; cbn [flat_map]; [constructor|]. apply nonul_app; [|exact IH].
  unfold esc. destruct (beq c QUOTE || beq c BSL); repeat (apply nonul_cons; [first [exact Hc|reflexivity]|]); constructor.
Qed.
Lemma nonul_pitems l : Forall nonul l -> nonul (pitems l).
Proof.
  induction 1 as [|a r Ha Hr IH]; cbn [pitems]; [apply nonul_cons; [reflexivity|constructor]|].
  apply nonul_app; [apply nonul_quote; exact Ha|].
  destruct r; [apply nonul_cons; [reflexivity|constructor]|]. do 2 (apply nonul_cons; [reflexivity|]). exact IH.
Qed.

Scheme wfv_min := Minimality for wfv Sort Prop
  with wf_min := Minimality for wf Sort Prop.
Combined Scheme wfv_wf_min from wfv_min, wf_min.

Lemma nonul_pentry_pbody :
  (forall tv, wfv tv -> forall n, nonul n -> nonul (pentry n tv)) /\ (forall es, wf es -> nonul (pbody es)).
Proof.
  apply wfv_wf_min.
  - intros v Hv n Hn. cbn [pentry]. apply nonul_app; [apply nonul_quote; exact Hn|]. apply nonul_cons; [reflexivity|].
    apply nonul_app; [apply nonul_quote; exact Hv|apply nonul_cons; [reflexivity|constructor]].
  - intros h s Hh Hs n Hn. cbn [pentry]. apply nonul_app; [apply nonul_quote; exact Hn|]. apply nonul_cons; [reflexivity|].
    apply nonul_app; [apply nonul_quote; exact Hh|]. apply nonul_cons; [reflexivity|].
    apply nonul_app; [apply nonul_quote; exact Hs|apply nonul_cons; [reflexivity|constructor]].
  - intros l Hl n Hn. cbn [pentry]. apply nonul_app; [apply nonul_quote; exact Hn|]. do 2 (apply nonul_cons; [reflexivity|]).
    apply nonul_app; [apply nonul_pitems; exact Hl|apply nonul_cons; [reflexivity|constructor]].
  - intros es _ IH n Hn. rewrite pentry_obj. apply nonul_app; [apply nonul_quote; exact Hn|]. do 2 (apply nonul_cons; [reflexivity|]).
    apply nonul_app; [exact IH|apply nonul_cons; [reflexivity|constructor]].
  - cbn [pbody]. do 2 (apply nonul_cons; [reflexivity|]). constructor.
  - intros n tv es Hn _ IHv _ IHes. cbn [pbody]. apply nonul_cons; [reflexivity|]. apply nonul_app; [apply IHv; exact Hn|exact IHes].
Qed.

Lemma nonul_print es : wf es -> nonul (print es).
Proof.
  induction 1 as [|n tv es Hn Hv Hes IH]; cbn [print]; [constructor|].
  apply nonul_app; [apply (proj1 nonul_pentry_pbody); assumption|]. apply nonul_cons; [reflexivity|exact IH].
Qed.

(* B, explicit fuel, for the printer *)
Theorem entries_print es fuel :
  wf es -> tdepth es <= max_depth -> length (print es) + 2 <= fuel -> entries fuel (print es) [] = inr (norm es).
Proof. intros Hw Hd Hl. apply (entries_read es (print es) (print_r es [] (gap_nil _))); assumption. Qed.

(* C16: what is written is what is read *)
Theorem parse_print es : wf es -> tdepth es <= max_depth -> es <> [] -> parse (print es) = inr (norm es).
Proof.
  intros Hw Hd He. apply parse_renders; trivial.
  - apply (print_r es [] (gap_nil _)).
  - apply nonul_print. exact Hw.
Qed.

(* the empty tree prints as the empty file, which is refused *)
Theorem parse_print_nil : print [] = [] /\ parse (print []) = inl EEof.
Proof. split; reflexivity. Qed.

(* ------------------------------------------------------------------------------------------------ *)
(* white space in the documented syntax is a gap: blanks, block comments, line comments              *)
(* ------------------------------------------------------------------------------------------------ *)
Inductive wsp (care : bool) : str -> Prop :=
| wsp_nil : wsp care []
| wsp_space c w : isspace c = true -> (care = true -> beq c NL = false) -> wsp care w -> wsp care (c :: w)
| wsp_block body w : noclose body = true -> wsp care w -> wsp care (SLASH :: STAR :: body ++ STAR :: SLASH :: w)
| wsp_line text w : care = false -> Forall (fun c => beq c NL = false) text -> wsp care w ->
    wsp care (SLASH :: SLASH :: text ++ NL :: w).

Theorem wsp_gap care w : wsp care w -> gap care w.
Proof.
  induction 1 as [|c w Hc Hn Hw IH|body w Hb Hw IH|text w Hc Ht Hw IH].
  - apply gap_nil.
  - apply (gap_app care [c] w); [apply gap_space; assumption|exact IH].
  - replace (SLASH :: STAR :: body ++ STAR :: SLASH :: w) with ((SLASH :: STAR :: body ++ [STAR; SLASH]) ++ w)
      by (cbn [app]; rewrite <- app_assoc; reflexivity).
    apply gap_app; [|exact IH]. apply gap_block. apply skip_block_noclose. exact Hb.
  - subst care.
    replace (SLASH :: SLASH :: text ++ NL :: w) with ((SLASH :: SLASH :: text ++ [NL]) ++ w)
      by (cbn [app]; rewrite <- app_assoc; reflexivity).
    apply gap_app; [|exact IH]. apply gap_line. exact Ht.
Qed.

(* a rendering that uses all of it *)
From Coq Require Import Strings.String.
Local Open Scope string_scope.
Local Open Scope list_scope.
Example render_comments :
  let text := S_ """a"" /* c * / */ ""b"" ; // end" ++ [NL] ++ S_ "/**/""o""{""x""(""1"" , ""2"",) ;} ;" in
  parse text = inr (norm [(S_ "a", TStr (S_ "b")); (S_ "o", TObj [(S_ "x", TList [S_ "1"; S_ "2"])])]).
Proof.
  cbv zeta. apply parse_renders.
  - apply (rf_cons [] (S_ "a") (TStr (S_ "b")) (quote (S_ "a") ++ S_ " /* c * / */ " ++ quote (S_ "b") ++ S_ " " ++ [SEMI])
             [(S_ "o", TObj [(S_ "x", TList [S_ "1"; S_ "2"])])]
             ((S_ " // end" ++ [NL] ++ S_ "/**/") ++ (quote (S_ "o") ++ [] ++ LB :: ([] ++ (quote (S_ "x") ++ [] ++ LP :: ([] ++ quote (S_ "1") ++ S_ " " ++ COMMA :: (S_ " " ++ quote (S_ "2") ++ [] ++ COMMA :: ([] ++ [RP]))) ++ S_ " " ++ [SEMI]) ++ ([] ++ [RB])) ++ S_ " " ++ [SEMI]) ++ [])).
    + apply gap_nil.
    + apply re_str; apply wsp_gap.
      * apply (wsp_space false SP); [reflexivity|discriminate|].
        apply (wsp_block false (S_ " c * / ")); [reflexivity|]. apply (wsp_space false SP); [reflexivity|discriminate|]. apply wsp_nil.
      * apply (wsp_space true SP); [reflexivity|reflexivity|]. apply wsp_nil.
    + apply (rf_cons _ (S_ "o") (TObj [(S_ "x", TList [S_ "1"; S_ "2"])])).
      * apply wsp_gap. apply (wsp_space false SP); [reflexivity|discriminate|].
        apply (wsp_line false (S_ " end")); [reflexivity|repeat constructor|].
        apply (wsp_block false []); [reflexivity|]. apply wsp_nil.
      * apply re_obj; [apply gap_nil| |apply gap_sp].
        apply rb_cons; [apply gap_nil| |apply rb_nil; apply gap_nil].
        apply re_list; [apply gap_nil| |apply gap_sp].
        apply ri_cons; [apply gap_nil|apply gap_sp|]. apply ri_cons; [apply gap_sp|apply gap_nil|]. apply ri_nil. apply gap_nil.
      * apply rf_nil. apply gap_nil.
  - repeat constructor.
  - apply Nat.leb_le. vm_compute. reflexivity.
  - discriminate.
  - vm_compute. repeat constructor.
Qed.

(* what [norm] builds is what a successful read builds: strictly sorted at every level *)
Lemma addv_sorted tv : forall n kids, tsorted kids -> tsorted (addv n tv kids).
Proof.
  induction tv as [v|h s|l|es IH] using tval_ind'; intros n kids Hs.
  - apply tsorted_upsert; trivial; intros; constructor.
  - apply tsorted_upsert; trivial; intros; constructor.
  - apply tsorted_upsert; trivial; intros; constructor.
  - rewrite addv_obj. apply tsorted_upsert; trivial; intros. constructor.
    pose proof (old_of_sorted n kids Hs) as Ho. generalize dependent (old_of n kids). clear Hs.
    induction IH as [|[n' tv'] r Hx Hr IHr]; intros ks Hks; cbn [norm_into]; [exact Hks|].
    apply IHr. apply Hx. exact Hks.
Qed.

Corollary norm_sorted es : wf es -> es <> [] -> tsorted (norm es).
Proof.
  intros _ _. unfold norm. generalize tsorted_nil. generalize (@nil (str * val)).
  induction es as [|[n tv] es IH]; intros ks Hks; cbn [norm_into]; [exact Hks|].
  apply IH. apply addv_sorted. exact Hks.
Qed.
