(* The C01 monitor (one verdict per announced client, then silence; soft-done at most once) as an executable
   function over traces of structured outputs, and the theorem that every run of the model (Iauth.v) satisfies it. *)
From Coq Require Import List NArith ZArith Bool Strings.Byte Strings.String Lia.
Import ListNotations.
Require Import Iauth.
Local Open Scope string_scope.
Local Open Scope list_scope.
Local Open Scope Z_scope.

(* ---------- the monitor: knows only ids it has seen announced, and whether `d` was sent ---------- *)
Definition mstate := list (Z * bool).
Fixpoint mfind (id : Z) (m : mstate) : option bool := match m with [] => None | (i, b) :: r => if i =? id then Some b else mfind id r end.
Fixpoint mdel (id : Z) (m : mstate) : mstate := match m with [] => [] | (i, b) :: r => if i =? id then r else (i, b) :: mdel id r end.
Definition mset (id : Z) (b : bool) (m : mstate) : mstate := (id, b) :: mdel id m.

Definition is_verdict (k : byte) : bool := beq k x44 || beq k x52 || beq k x6b.   (* D R k *)
Definition is_softdone (k : byte) : bool := beq k x64.                            (* d *)

Fixpoint mon_outs (m : mstate) (outs : list out) : option mstate :=
  match outs with
  | [] => Some m
  | OX _ id _ _ :: r => match mfind id m with Some _ => mon_outs m r | None => None end
  | OC k id _ _ _ :: r =>
      match mfind id m with
      | None => None
      | Some sd => if is_verdict k then mon_outs (mdel id m) r
                   else if is_softdone k then (if sd then None else mon_outs (mset id true m) r)
                   else mon_outs m r
      end
  | ORaw _ :: r => mon_outs m r
  end.

Definition announces (argv : list str) : bool :=
  beq (cmdchar argv) x43 && match arg 1 argv, arg 2 argv, arg 3 argv, arg 4 argv with Some _, Some _, Some _, Some _ => true | _, _, _, _ => false end.
Definition withdraws (argv : list str) : bool :=
  negb (beq (cmdchar argv) x43) && negb (beq (cmdchar argv) x58 || beq (cmdchar argv) x78) && (beq (cmdchar argv) x44 || beq (cmdchar argv) x54).

Definition mon_step (m : mstate) (id : Z) (argv : list str) (outs : list out) : option mstate :=
  if announces argv then mon_outs (mset id false m) outs
  else match mon_outs (if withdraws argv then mdel id m else m) outs with    (* a D / T line withdraws the id BEFORE its outputs are judged *)
       | Some m' => Some m'
       | None => None
       end.

Fixpoint mon_run (m : mstate) (tr : list (Z * list str * list out)) : bool :=
  match tr with
  | [] => true
  | (id, argv, outs) :: r => match mon_step m id argv outs with Some m' => mon_run m' r | None => false end
  end.

(* the monitor state reached on a trace (None = the monitor rejected) *)
Fixpoint mon_state (m : mstate) (tr : list (Z * list str * list out)) : option mstate :=
  match tr with
  | [] => Some m
  | (id, argv, outs) :: r => match mon_step m id argv outs with Some m' => mon_state m' r | None => None end
  end.

Lemma mon_run_state m tr : mon_run m tr = match mon_state m tr with Some _ => true | None => false end.
Proof.
  revert m. induction tr as [|[[id argv] outs] r IH]; intros m; cbn [mon_run mon_state]; [reflexivity|].
  destruct (mon_step m id argv outs); [apply IH|reflexivity].
Qed.

(* ---------- relation between monitor state and model table ---------- *)
Definition Rel (m : mstate) (l : list req) : Prop :=
  forall id, mfind id m = match lookup id l with Some r => Some (f_sdone r) | None => None end.

(* the table never holds two requests with one id: `put` replaces the entry with the same id *)
Definition NoDupIds (l : list req) : Prop := NoDup (map cid l).

Lemma lookup_notin id l : ~ In id (map cid l) -> lookup id l = None.
Proof. induction l as [|r t IH]; simpl; [reflexivity|]. intros H. destruct (cid r =? id) eqn:E; [apply Z.eqb_eq in E; exfalso; apply H; left; exact E|apply IH; tauto]. Qed.
Lemma lookup_remove_eq id l : NoDupIds l -> lookup id (remove id l) = None.
Proof.
  unfold NoDupIds. induction l as [|r t IH]; simpl; intros ND; [reflexivity|].
  inversion ND as [|? ? Hn Ht]; subst.
  destruct (cid r =? id) eqn:E.
  - apply Z.eqb_eq in E. subst id. apply lookup_notin. exact Hn.
  - simpl. rewrite E. apply IH. exact Ht.
Qed.
Lemma lookup_remove_neq id j l : id <> j -> lookup id (remove j l) = lookup id l.
Proof.
  intros Hn. induction l as [|r t IH]; simpl; [reflexivity|].
  destruct (cid r =? j) eqn:E.
  - apply Z.eqb_eq in E. destruct (cid r =? id) eqn:E2; [apply Z.eqb_eq in E2; congruence|reflexivity].
  - simpl. destruct (cid r =? id); [reflexivity|exact IH].
Qed.
Lemma in_remove j l x : In x (map cid (remove j l)) -> In x (map cid l).
Proof. induction l as [|r t IH]; simpl; [tauto|]. destruct (cid r =? j); simpl; [tauto|]. intros [H|H]; [left; exact H|right; apply IH; exact H]. Qed.
Lemma nodup_remove j l : NoDupIds l -> NoDupIds (remove j l).
Proof.
  unfold NoDupIds. induction l as [|r t IH]; simpl; intros ND; [constructor|]. inversion ND; subst.
  destruct (cid r =? j); [assumption|]. simpl. constructor; [intro H; apply in_remove in H; contradiction|apply IH; assumption].
Qed.
Lemma notin_remove j l : NoDupIds l -> ~ In j (map cid (remove j l)).
Proof.
  unfold NoDupIds. induction l as [|r t IH]; simpl; intros ND; [tauto|]. inversion ND; subst.
  destruct (cid r =? j) eqn:E; [apply Z.eqb_eq in E; subst; assumption|].
  simpl. intros [H|H]; [apply Z.eqb_neq in E; contradiction|apply IH in H; assumption].
Qed.
(* `put` replaces in place, or appends when the id is absent *)
Lemma lookup_put j r l : lookup j (put r l) = if cid r =? j then Some r else lookup j l.
Proof.
  induction l as [|x t IH]; cbn [put lookup]; [reflexivity|].
  destruct (cid x =? cid r) eqn:E; cbn [lookup].
  - apply Z.eqb_eq in E. rewrite E. destruct (cid r =? j); reflexivity.
  - rewrite IH. destruct (cid x =? j) eqn:E2; [|reflexivity].
    apply Z.eqb_eq in E2. subst j. rewrite Z.eqb_sym, E. reflexivity.
Qed.
Lemma in_put r l x : In x (map cid (put r l)) -> x = cid r \/ In x (map cid l).
Proof.
  induction l as [|y t IH]; cbn [put map In]; [intros [H|[]]; left; symmetry; exact H|].
  destruct (cid y =? cid r) eqn:E; cbn [map In].
  - apply Z.eqb_eq in E. rewrite E. tauto.
  - intros [H|H]; [tauto|]. apply IH in H. tauto.
Qed.
Lemma nodup_put r l : NoDupIds l -> NoDupIds (put r l).
Proof.
  unfold NoDupIds. induction l as [|y t IH]; cbn [put map]; intros ND; [constructor; [intros []|constructor]|].
  inversion ND as [|? ? Hn Ht]; subst.
  destruct (cid y =? cid r) eqn:E; cbn [map].
  - apply Z.eqb_eq in E. rewrite <- E. constructor; assumption.
  - constructor; [|apply IH; exact Ht]. intros H. apply in_put in H as [H|H]; [apply Z.eqb_neq in E; contradiction|contradiction].
Qed.
Lemma put_same r l : lookup (cid r) l = Some r -> put r l = l.
Proof.
  induction l as [|y t IH]; cbn [put lookup]; [discriminate|].
  destruct (cid y =? cid r); [intros H; inversion H; reflexivity|intros H; rewrite IH by exact H; reflexivity].
Qed.

(* monitor-side facts need the same no-duplicate discipline *)
Definition NoDupM (m : mstate) : Prop := NoDup (map fst m).
Lemma min_mdel j m x : In x (map fst (mdel j m)) -> In x (map fst m).
Proof. induction m as [|[i b] t IH]; simpl; [tauto|]. destruct (i =? j); simpl; [tauto|]. intros [H|H]; [left; exact H|right; apply IH; exact H]. Qed.
Lemma nodupm_mdel j m : NoDupM m -> NoDupM (mdel j m).
Proof.
  unfold NoDupM. induction m as [|[i b] t IH]; simpl; intros ND; [constructor|]. inversion ND; subst.
  destruct (i =? j); [assumption|]. simpl. constructor; [intro H; apply min_mdel in H; contradiction|apply IH; assumption].
Qed.
Lemma mnotin_mdel j m : NoDupM m -> ~ In j (map fst (mdel j m)).
Proof.
  unfold NoDupM. induction m as [|[i b] t IH]; simpl; intros ND; [tauto|]. inversion ND; subst.
  destruct (i =? j) eqn:E; [apply Z.eqb_eq in E; subst; assumption|].
  simpl. intros [H|H]; [apply Z.eqb_neq in E; contradiction|apply IH in H; assumption].
Qed.
Lemma mfind_notin id m : ~ In id (map fst m) -> mfind id m = None.
Proof. induction m as [|[i b] t IH]; simpl; [reflexivity|]. intros H. destruct (i =? id) eqn:E; [apply Z.eqb_eq in E; exfalso; apply H; left; exact E|apply IH; tauto]. Qed.
Lemma mfind_mdel_same id m : NoDupM m -> mfind id (mdel id m) = None.
Proof. intros ND. apply mfind_notin, mnotin_mdel, ND. Qed.
Lemma mfind_mdel_other id j m : id <> j -> mfind id (mdel j m) = mfind id m.
Proof.
  intros Hn. induction m as [|[i b] t IH]; simpl; [reflexivity|].
  destruct (i =? j) eqn:E.
  - apply Z.eqb_eq in E. destruct (i =? id) eqn:E2; [apply Z.eqb_eq in E2; congruence|reflexivity].
  - simpl. destruct (i =? id); [reflexivity|exact IH].
Qed.
Lemma nodupm_mset j b m : NoDupM m -> NoDupM (mset j b m).
Proof. intros ND. unfold mset, NoDupM. simpl. constructor; [apply mnotin_mdel; exact ND|apply nodupm_mdel; exact ND]. Qed.

Lemma rel_remove id m l : NoDupM m -> NoDupIds l -> Rel m l -> Rel (mdel id m) (remove id l).
Proof.
  intros NM NL R j. destruct (Z.eq_dec j id) as [->|Hn].
  - rewrite mfind_mdel_same by assumption. rewrite lookup_remove_eq by assumption. reflexivity.
  - rewrite mfind_mdel_other, lookup_remove_neq by assumption. apply R.
Qed.
Lemma rel_put r m l : NoDupM m -> NoDupIds l -> Rel m l -> Rel (mset (cid r) (f_sdone r) m) (put r l).
Proof.
  intros NM NL R j. rewrite lookup_put. unfold mset. simpl. destruct (cid r =? j) eqn:E; [reflexivity|].
  apply Z.eqb_neq in E. rewrite mfind_mdel_other by congruence. apply R.
Qed.

(* ---------- shape of what one step may emit about its target request ---------- *)
Definition neutral (id : Z) (o : out) : Prop :=
  match o with
  | OX _ i _ _ => i = id
  | OC k i _ _ _ => i = id /\ is_verdict k = false /\ is_softdone k = false
  | ORaw _ => True
  end.

Lemma mon_neutral m id sd pre : mfind id m = Some sd -> Forall (neutral id) pre -> forall rest, mon_outs m (pre ++ rest) = mon_outs m rest.
Proof.
  intros Hf. induction 1 as [|o pre Ho Hpre IH]; intros rest; [reflexivity|].
  destruct o as [n i sr pl|k i a p rs|t]; simpl in *.
  - subst i. rewrite Hf. apply IH.
  - destruct Ho as (-> & Hv & Hs). rewrite Hf, Hv, Hs. apply IH.
  - apply IH.
Qed.

Definition Shape (id : Z) (sd0 : bool) (res : option req) (outs : list out) : Prop :=
  exists pre last, outs = pre ++ last /\ Forall (neutral id) pre /\
    ( (res = None /\ exists k a p rest, last = [OC k id a p rest] /\ is_verdict k = true)
   \/ (exists r', res = Some r' /\ cid r' = id /\ sd0 = false /\ f_sdone r' = true /\ exists a p rest, last = [OC x64 id a p rest])
   \/ (exists r', res = Some r' /\ cid r' = id /\ f_sdone r' = sd0 /\ last = []) ).

Lemma shape_pre id sd res outs pre0 : Forall (neutral id) pre0 -> Shape id sd res outs -> Shape id sd res (pre0 ++ outs).
Proof.
  intros Hp (pre & last & -> & Hpre & Hl). exists (pre0 ++ pre), last. rewrite app_assoc. repeat split; auto.
  apply Forall_app; split; assumption.
Qed.
Lemma shape_same id r : cid r = id -> Shape id (f_sdone r) (Some r) [].
Proof. intros. exists [], []. repeat split; [constructor|]. right; right. exists r. repeat split; auto. Qed.


Lemma classify_neutral ss rs r : Forall (neutral (cid r)) (fst (classify ss rs r)).
Proof.
  induction rs as [|ru rest IH]; cbn [classify]; [constructor|].
  destruct (rule_matches ss ru r); [|exact IH].
  cbn [fst]. match goal with |- context [if ?b then _ else _] => destruct b end; [|constructor].
  constructor; [|constructor]. cbn [neutral oc]. repeat split; reflexivity.
Qed.

Lemma gate_shape c tb r : Shape (cid r) (f_sdone r) (fst (gate c tb r)) (snd (gate c tb r)).
Proof.
  unfold gate.
  destruct ((holds r =? 0) && complete c r); [|apply shape_same; reflexivity].
  destruct ((soft r =? 0) || f_tout r).
  - pose proof (classify_neutral (slots tb) (rules tb) r) as Hn. destruct (classify (slots tb) (rules tb) r) as [extra k]. cbn [fst snd] in *.
    exists extra, [match acct r with [] => oc x44 r (match k with [] => [] | _ :: _ => sp :: k end) | _ :: _ => oc x52 r (sp :: acct r ++ match k with [] => [] | _ :: _ => sp :: k end) end].
    repeat split; [exact Hn|]. left. split; [reflexivity|].
    destruct (acct r); unfold oc; eexists _, _, _, _; split; reflexivity.
  - destruct (f_sdone r) eqn:Es; cbn [negb fst snd].
    + rewrite <- Es. apply shape_same; reflexivity.
    + exists [], [oc x64 r []]. repeat split; [constructor|]. right; left.
      exists (upd_hold r (holds r) (soft r) true). repeat split; auto. unfold oc. eexists _, _, _. reflexivity.
Qed.

Lemma query_lines_neutral name t r : Forall (neutral (cid r)) (query_lines name t r).
Proof.
  unfold query_lines. apply Forall_app; split.
  - destruct t; repeat constructor.
  - destruct (nonempty (pw r)); [|constructor]. destruct t; repeat constructor.
Qed.

Lemma qpass_facts ss : forall slot ispw r outs efs,
  Forall (neutral (cid r)) outs ->
  cid (fst (fst (qpass ss slot ispw r outs efs))) = cid r /\
  f_sdone (fst (fst (qpass ss slot ispw r outs efs))) = f_sdone r /\
  Forall (neutral (cid r)) (snd (fst (qpass ss slot ispw r outs efs))).
Proof.
  induction ss as [|[sv|] rest IH]; intros slot ispw r outs efs Ho; cbn [qpass]; [repeat split; auto| |apply IH; exact Ho].
  match goal with |- context [if ?c then _ else _] => destruct c end; [apply IH; exact Ho|].
  match goal with |- context [qpass rest ?sl ispw ?r' ?o' ?e'] => specialize (IH sl ispw r' o' e') end.
  cbn [cid f_sdone queried] in IH. apply IH.
  apply Forall_app; split; [exact Ho|]. apply query_lines_neutral.
Qed.

Lemma cont_facts ss : forall slot t r outs efs,
  Forall (neutral (cid r)) outs ->
  cid (fst (fst (cont ss slot t r outs efs))) = cid r /\
  f_sdone (fst (fst (cont ss slot t r outs efs))) = f_sdone r /\
  Forall (neutral (cid r)) (snd (fst (cont ss slot t r outs efs))).
Proof.
  induction ss as [|[sv|] rest IH]; intros slot t r outs efs Ho; cbn [cont]; [repeat split; auto| |apply IH; exact Ho].
  match goal with |- context [if ?c then _ else _] => destruct c end; [|apply IH; exact Ho].
  match goal with |- context [cont rest ?sl t ?r' ?o' ?e'] => specialize (IH sl t r' o' e') end.
  cbn [cid f_sdone continued] in IH. apply IH. apply Forall_app; split; [exact Ho|]. repeat constructor.
Qed.

Lemma gate_after c tb r0 r1 pre : cid r1 = cid r0 -> f_sdone r1 = f_sdone r0 -> Forall (neutral (cid r0)) pre ->
  Shape (cid r0) (f_sdone r0) (fst (gate c tb r1)) (pre ++ snd (gate c tb r1)).
Proof. intros Hc Hs Hp. apply shape_pre; [exact Hp|]. rewrite <- Hc, <- Hs. apply gate_shape. Qed.

Lemma after_shape c tb r ispw : Shape (cid r) (f_sdone r) (fst (fst (after c tb r ispw))) (snd (fst (after c tb r ispw))).
Proof.
  unfold after. pose proof (qpass_facts (slots tb) 0%N ispw r [] [] (Forall_nil _)) as (Hc & Hs & Hn).
  destruct (qpass (slots tb) 0%N ispw r [] []) as [[r1 o] efs]. cbn [fst snd] in *.
  pose proof (gate_after c tb r r1 o Hc Hs Hn) as G. destruct (gate c tb r1) as [r2 g]. exact G.
Qed.

(* the local helper `fin` of reply *)
Lemma fin_shape c tb r0 r1 pre (e : list eff) : cid r1 = cid r0 -> f_sdone r1 = f_sdone r0 -> Forall (neutral (cid r0)) pre ->
  Shape (cid r0) (f_sdone r0) (fst (fst (let '(r', g) := gate c tb r1 in (r', pre ++ g, e))))
                              (snd (fst (let '(r', g) := gate c tb r1 in (r', pre ++ g, e)))).
Proof. intros Hc Hs Hp. pose proof (gate_after c tb r0 r1 pre Hc Hs Hp) as G. destruct (gate c tb r1) as [r' g]. exact G. Qed.

Lemma reply_shape c tb r svcn tx : Shape (cid r) (f_sdone r) (fst (fst (reply c tb r svcn tx))) (snd (fst (reply c tb r svcn tx))).
Proof.
  unfold reply. destruct (find_slot (slots tb) 0%N svcn (refm r)) as [[slot t]|]; [|apply shape_same; reflexivity].
  cbv beta zeta.
  destruct tx as [tx|].
  - destruct (seq_eq tx (S_ "OK")); [apply (fin_shape c tb r); [reflexivity|reflexivity|constructor]|].
    destruct (prefix (S_ "OK ") tx).
    + destruct (negb (nonempty (upto sp (skipn 3 tx))) || is_drone t); [apply (fin_shape c tb r); [reflexivity|reflexivity|constructor]|].
      apply (fin_shape c tb r); [reflexivity|reflexivity|]. destruct (hh r || ho r); repeat constructor.
    + destruct (prefix (S_ "NO ") tx).
      { cbn [fst snd]. exists [], [oc x6b r (S_ " :" ++ skipn 3 tx)]. repeat split; [constructor|]. left. split; [reflexivity|]. unfold oc. eexists _, _, _, _. split; reflexivity. }
      destruct (prefix (S_ "AGAIN ") tx); [apply (fin_shape c tb r); [reflexivity|reflexivity|repeat constructor]|].
      destruct (prefix (S_ "MORE ") tx); [|apply shape_same; reflexivity].
      apply (fin_shape c tb r); [reflexivity|reflexivity|repeat constructor].
  - apply (fin_shape c tb r); [reflexivity|reflexivity|]. destruct (is_drone t); repeat constructor.
Qed.

Lemma password_facts tb r t :
  cid (fst (fst (password tb r t))) = cid r /\ f_sdone (fst (fst (password tb r t))) = f_sdone r /\
  Forall (neutral (cid r)) (snd (fst (password tb r t))).
Proof.
  unfold password.
  destruct ((more r =? 0)%N || negb (nonempty (pw r))).
  - destruct (negb (starts t x2b || starts t x2d)); [repeat split; constructor|].
    destruct (modes _ _ _ _ _ _ _) as [[[[[rest0 sx] cx] sb] cb]|]; [|repeat split; constructor].
    cbv zeta.
    destruct (negb (has sp (skipsp rest0))); [repeat split; constructor|].
    apply (qpass_facts (slots tb) 0%N true (with_pw r _ _ _ _) [] [] (Forall_nil _)).
  - apply (cont_facts (slots tb) 0%N t r [] [] (Forall_nil _)).
Qed.

(* ---------- a step of that shape is accepted by the monitor and keeps monitor and table in step ---------- *)
Lemma rel_put_same r m l : NoDupM m -> NoDupIds l -> Rel m l -> mfind (cid r) m = Some (f_sdone r) -> Rel m (put r l).
Proof.
  intros NM NL R Hf j. rewrite lookup_put. destruct (cid r =? j) eqn:E.
  - apply Z.eqb_eq in E. subst j. exact Hf.
  - apply R.
Qed.

Lemma shape_mon id sd res outs (efs : list eff) m s :
  Shape id sd res outs -> mfind id m = Some sd -> NoDupM m -> NoDupIds (reqs s) -> Rel m (reqs s) ->
  exists m', mon_outs m outs = Some m' /\ NoDupM m' /\ NoDupIds (reqs (fst (finish s id (res, outs, efs)))) /\
             Rel m' (reqs (fst (finish s id (res, outs, efs)))).
Proof.
  intros (pre & last & -> & Hpre & Hl) Hf NM NL R.
  rewrite (mon_neutral m id sd pre Hf Hpre). unfold finish.
  destruct Hl as [(-> & k & a & p & rest & -> & Hv)|[(r' & -> & Hc & Hsd & Hs' & a & p & rest & ->)|(r' & -> & Hc & Hs' & ->)]]; cbn [fst reqs mon_outs].
  - rewrite Hf, Hv. exists (mdel id m). repeat split; [apply nodupm_mdel; exact NM|apply nodup_remove; exact NL|apply rel_remove; assumption].
  - rewrite Hf. subst sd. change (is_verdict x64) with false. change (is_softdone x64) with true. cbn iota.
    exists (mset id true m). repeat split; [apply nodupm_mset; exact NM|apply nodup_put; exact NL|].
    rewrite <- Hc, <- Hs'. apply rel_put; assumption.
  - exists m. repeat split; [exact NM|apply nodup_put; exact NL|]. apply rel_put_same; try assumption. rewrite Hc, Hs'. exact Hf.
Qed.

Lemma rel_lookup m l id r : Rel m l -> lookup id l = Some r -> mfind id m = Some (f_sdone r).
Proof. intros R H. rewrite (R id), H. reflexivity. Qed.
Lemma lookup_cid id l r : lookup id l = Some r -> cid r = id.
Proof. induction l as [|x t IH]; simpl; [discriminate|]. destruct (cid x =? id) eqn:E; [intros H; inversion H; subst; apply Z.eqb_eq; exact E|exact IH]. Qed.

Definition Good (m : mstate) (s : st) : Prop := NoDupM m /\ NoDupIds (reqs s) /\ Rel m (reqs s).

Theorem step_mon c s id argv m : Good m s ->
  exists m', mon_step m id argv (snd (step c s id argv)) = Some m' /\ Good m' (fst (step c s id argv)).
Proof.
  intros (NM & NL & R). unfold mon_step, announces, withdraws, step. cbv beta zeta.
  destruct (beq (cmdchar argv) x43) eqn:EC; cbn [andb negb].
  { destruct (arg 1 argv) as [a|], (arg 2 argv), (arg 3 argv), (arg 4 argv); cbn [fst snd mon_outs];
      try (exists m; split; [reflexivity|repeat split; assumption]).
    destruct (announce_addr a) as [g txt]. cbn [fst snd mon_outs].
    eexists. split; [reflexivity|]. repeat split; [apply nodupm_mset; exact NM|apply (nodup_put (fresh id _ _ _ _ _)); exact NL|].
    cbn [reqs]. apply (rel_put (fresh id _ _ _ _ _)); assumption. }
  destruct (beq (cmdchar argv) x58 || beq (cmdchar argv) x78) eqn:EX; cbn [andb negb].
  { assert (forall st', st' = s -> exists m', match mon_outs m [] with Some m'0 => Some m'0 | None => None end = Some m' /\ Good m' st') as Triv.
    { intros st' ->. exists m. split; [reflexivity|repeat split; assumption]. }
    destruct (negb (with_xq c)); [apply Triv; reflexivity|].
    destruct (arg 1 argv) as [svcn|]; [|apply Triv; reflexivity]. destruct (arg 2 argv) as [tg|]; [|apply Triv; reflexivity].
    destruct (arg 3 argv) as [tx|]; [|apply Triv; reflexivity].
    destruct (parse_tag tg) as [[tid tser]|]; [|apply Triv; reflexivity].
    destruct (lookup tid (reqs s)) as [r|] eqn:El; [|apply Triv; reflexivity].
    destruct (ser r =? tser)%N; [|apply Triv; reflexivity].
    pose proof (lookup_cid _ _ _ El) as Hc. pose proof (rel_lookup _ _ _ _ R El) as Hf.
    pose proof (reply_shape c (tb s) r svcn (if beq (cmdchar argv) x58 then Some tx else None)) as Sh. rewrite Hc in Sh.
    destruct (reply c (tb s) r svcn _) as [[res outs] efs]. cbn [fst snd] in Sh.
    destruct (shape_mon tid (f_sdone r) res outs efs m s Sh Hf NM NL R) as (m' & Hm & NM' & NL' & R').
    exists m'. unfold finish in *. cbn [fst snd] in *. destruct res; cbn [fst snd] in *; rewrite Hm; split; try reflexivity; repeat split; assumption. }
  (* commands addressed by id *)
  set (wd := beq (cmdchar argv) x44 || beq (cmdchar argv) x54).
  destruct (lookup id (reqs s)) as [r|] eqn:El.
  2:{ cbn [snd fst mon_outs]. eexists. split; [reflexivity|]. destruct wd; repeat split; try assumption.
      - apply nodupm_mdel; exact NM.
      - intros j. destruct (Z.eq_dec j id) as [->|Hn].
        + rewrite mfind_mdel_same by exact NM. rewrite El. reflexivity.
        + rewrite mfind_mdel_other by exact Hn. apply R. }
  pose proof (lookup_cid _ _ _ El) as Hc. pose proof (rel_lookup _ _ _ _ R El) as Hf.
  destruct wd eqn:Ewd.
  { cbn [snd fst mon_outs reqs]. eexists. split; [reflexivity|]. repeat split; [apply nodupm_mdel; exact NM|apply nodup_remove; exact NL|apply rel_remove; assumption]. }
  (* every remaining branch is either "nothing happens" or finish s id (res, outs, efs) with Shape *)
  assert (forall res outs efs, Shape id (f_sdone r) res outs ->
            exists m', match mon_outs m (snd (finish s id (res, outs, efs))) with Some m'0 => Some m'0 | None => None end = Some m' /\ Good m' (fst (finish s id (res, outs, efs)))) as Fin.
  { intros res outs efs Sh. destruct (shape_mon id (f_sdone r) res outs efs m s Sh Hf NM NL R) as (m' & Hm & NM' & NL' & R').
    exists m'. unfold finish in *. cbn [fst snd] in *. destruct res; cbn [fst snd] in *; rewrite Hm; split; try reflexivity; repeat split; assumption. }
  assert (exists m', match mon_outs m (snd (s, @nil out)) with Some m'0 => Some m'0 | None => None end = Some m' /\ Good m' (fst (s, @nil out))) as Triv.
  { exists m. split; [reflexivity|repeat split; assumption]. }
  assert (forall r1, cid r1 = cid r -> f_sdone r1 = f_sdone r ->
            exists m', match mon_outs m (snd (let '(r2, g) := gate c (tb s) r1 in finish s id (r2, g, []))) with Some m'0 => Some m'0 | None => None end = Some m'
                       /\ Good m' (fst (let '(r2, g) := gate c (tb s) r1 in finish s id (r2, g, [])))) as Gt.
  { intros r1 H1 H2. pose proof (gate_shape c (tb s) r1) as G. rewrite H1, H2, Hc in G.
    destruct (gate c (tb s) r1) as [r2 g]. cbn [fst snd] in G. apply Fin. exact G. }
  assert (forall (b : bool) r1, cid r1 = cid r -> f_sdone r1 = f_sdone r ->
            exists m', match mon_outs m (snd (finish s id (if b then after c (tb s) r1 false else let '(r2, g) := gate c (tb s) r1 in (r2, g, [])))) with Some m'0 => Some m'0 | None => None end = Some m'
                       /\ Good m' (fst (finish s id (if b then after c (tb s) r1 false else let '(r2, g) := gate c (tb s) r1 in (r2, g, []))))) as Aft.
  { intros b r1 H1 H2. destruct b.
    - pose proof (after_shape c (tb s) r1 false) as A. rewrite H1, H2, Hc in A.
      destruct (after c (tb s) r1 false) as [[res o] efs]. cbn [fst snd] in A. apply Fin. exact A.
    - pose proof (gate_shape c (tb s) r1) as G. rewrite H1, H2, Hc in G.
      destruct (gate c (tb s) r1) as [r2 g]. cbn [fst snd] in G. apply Fin. exact G. }
  destruct (beq (cmdchar argv) x21).
  { match goal with |- context [if ?b then _ else _] => destruct b end; [|exact Triv]. apply Gt; reflexivity. }
  destruct (beq (cmdchar argv) x4e).
  { destruct (arg 1 argv); [|exact Triv]. destruct (nonempty (host r)); [exact Triv|]. apply Aft; reflexivity. }
  destruct (beq (cmdchar argv) x64).
  { apply Aft; reflexivity. }
  destruct (beq (cmdchar argv) x75).
  { destruct (arg 1 argv).
    - apply Aft; reflexivity.
    - destruct (nonempty (cliu r)); apply Aft; reflexivity. }
  destruct (beq (cmdchar argv) x6e).
  { destruct (arg 1 argv); [|exact Triv]. apply Aft; reflexivity. }
  destruct (beq (cmdchar argv) x55).
  { destruct (arg 1 argv); [|exists m; split; [reflexivity|repeat split; assumption]]. destruct (arg 2 argv); [|exists m; split; [reflexivity|repeat split; assumption]].
    apply Aft; reflexivity. }
  destruct (beq (cmdchar argv) x48).
  { destruct (with_xq c); [apply (Aft true)|apply (Aft false)]; reflexivity. }
  destruct (beq (cmdchar argv) x50); [|exact Triv].
  destruct (arg 1 argv) as [t|]; [|exact Triv].
  (* password: query pass or continuation, then the gate *)
  destruct (with_xq c); [|apply Gt; reflexivity].
  set (r0 := set_flags r (f_host r) (f_ident r) (f_nick r) (f_user r) true).
  pose proof (password_facts (tb s) r0 t) as (P1 & P2 & P3).
  destruct (password (tb s) r0 t) as [[r1 o] efs]. cbn [fst snd] in *.
  pose proof (gate_after c (tb s) r r1 o P1 P2 P3) as G. rewrite Hc in G. destruct (gate c (tb s) r1) as [r2 g]. cbn [fst snd] in G. apply Fin. exact G.
Qed.

Fixpoint trace (c : cfg) (s : st) (evs : list (Z * list str)) : list (Z * list str * list out) :=
  match evs with
  | [] => []
  | (id, argv) :: r => (id, argv, snd (step c s id argv)) :: trace c (fst (step c s id argv)) r
  end.

Lemma good_empty s0 : reqs s0 = [] -> Good [] s0.
Proof. intros H. unfold Good, NoDupM, NoDupIds, Rel. rewrite H. split; [apply NoDup_nil|split; [apply NoDup_nil|intros j; reflexivity]]. Qed.

(* every run is accepted, and the monitor state stays Good for the state reached *)
Lemma run_good c evs : forall m s, Good m s ->
  exists m', mon_state m (trace c s evs) = Some m' /\ Good m' (fold_left (fun s e => fst (step c s (fst e) (snd e))) evs s).
Proof.
  induction evs as [|[id argv] evs IH]; intros m s HG; cbn [trace mon_state fold_left fst snd]; [exists m; split; [reflexivity|exact HG]|].
  destruct (step_mon c s id argv m HG) as (m' & Hm & HG'). rewrite Hm. apply IH. exact HG'.
Qed.

Theorem verdict_once_holds c s0 evs : reqs s0 = [] -> mon_run [] (trace c s0 evs) = true.
Proof.
  intros H0. rewrite mon_run_state.
  destruct (run_good c evs [] s0 (good_empty s0 H0)) as (m' & Hm & _). rewrite Hm. reflexivity.
Qed.

(* ---------- the monitor's live ids are exactly the table's ids, so the counts agree ---------- *)
Lemma mfind_some_in id m b : mfind id m = Some b -> In id (map fst m).
Proof.
  induction m as [|[i b0] t IH]; simpl; [discriminate|].
  destruct (i =? id) eqn:E; [intros _; left; apply Z.eqb_eq; exact E|intros H; right; apply IH; exact H].
Qed.
Lemma mfind_in id m : In id (map fst m) -> mfind id m <> None.
Proof.
  induction m as [|[i b0] t IH]; simpl; [tauto|].
  destruct (i =? id) eqn:E; [discriminate|]. intros [H|H]; [apply Z.eqb_neq in E; contradiction|apply IH; exact H].
Qed.
Lemma lookup_some_in id l r : lookup id l = Some r -> In id (map cid l).
Proof.
  induction l as [|x t IH]; simpl; [discriminate|].
  destruct (cid x =? id) eqn:E; [intros _; left; apply Z.eqb_eq; exact E|intros H; right; apply IH; exact H].
Qed.
Lemma lookup_in id l : In id (map cid l) -> lookup id l <> None.
Proof.
  induction l as [|x t IH]; simpl; [tauto|].
  destruct (cid x =? id) eqn:E; [discriminate|]. intros [H|H]; [apply Z.eqb_neq in E; contradiction|apply IH; exact H].
Qed.

Lemma rel_keys m l : Rel m l -> forall id, In id (map fst m) <-> In id (map cid l).
Proof.
  intros R id. split; intros H.
  - apply mfind_in in H. rewrite (R id) in H. destruct (lookup id l) as [r|] eqn:E; [eapply lookup_some_in; exact E|congruence].
  - apply lookup_in in H. destruct (mfind id m) as [b|] eqn:E; [eapply mfind_some_in; exact E|].
    rewrite (R id) in E. destruct (lookup id l); [discriminate|congruence].
Qed.

Lemma rel_length m l : NoDupM m -> NoDupIds l -> Rel m l -> List.length m = List.length l.
Proof.
  intros NM NL R. pose proof (rel_keys m l R) as K.
  assert (List.length (map fst m) <= List.length (map cid l))%nat as A by (apply NoDup_incl_length; [exact NM|intros x Hx; apply K; exact Hx]).
  assert (List.length (map cid l) <= List.length (map fst m))%nat as B by (apply NoDup_incl_length; [exact NL|intros x Hx; apply K; exact Hx]).
  rewrite !map_length in A, B. lia.
Qed.

Lemma good_length m s : Good m s -> List.length m = List.length (reqs s).
Proof. intros (NM & NL & R). apply rel_length; assumption. Qed.

Theorem live_count c s0 evs : reqs s0 = [] ->
  exists m, mon_state [] (trace c s0 evs) = Some m /\
            List.length m = List.length (reqs (fold_left (fun s e => fst (step c s (fst e) (snd e))) evs s0)).
Proof.
  intros H0. destruct (run_good c evs [] s0 (good_empty s0 H0)) as (m' & Hm & HG).
  exists m'. split; [exact Hm|apply good_length; exact HG].
Qed.

(* "after every prefix": the trace of a prefix is a prefix of the trace, so live_count applies to each of them *)
Lemma trace_app c evs1 : forall s evs2,
  trace c s (evs1 ++ evs2) = trace c s evs1 ++ trace c (fold_left (fun s e => fst (step c s (fst e) (snd e))) evs1 s) evs2.
Proof.
  induction evs1 as [|[id argv] evs1 IH]; intros s evs2; cbn [app trace fold_left fst snd]; [reflexivity|].
  rewrite IH. reflexivity.
Qed.

Corollary live_count_prefix c s0 evs1 evs2 : reqs s0 = [] ->
  exists m, mon_state [] (trace c s0 evs1) = Some m /\
            List.length m = List.length (reqs (fold_left (fun s e => fst (step c s (fst e) (snd e))) evs1 s0)) /\
            mon_run m (trace c (fold_left (fun s e => fst (step c s (fst e) (snd e))) evs1 s0) evs2) = true.
Proof.
  intros H0. destruct (run_good c evs1 [] s0 (good_empty s0 H0)) as (m' & Hm & HG).
  exists m'. split; [exact Hm|]. split; [apply good_length; exact HG|].
  rewrite mon_run_state. destruct (run_good c evs2 m' _ HG) as (m2 & Hm2 & _). rewrite Hm2. reflexivity.
Qed.

(* the trace is the run: same outputs, step by step (events without reloads) *)
Lemma run_out_trace c s0 evs : run_out c s0 (map (fun e => Ev (fst e) (snd e)) evs) = map snd (trace c s0 evs).
Proof.
  unfold run_out.
  assert (forall s acc, snd (fold_left (fun acc e => let '(s, outs) := acc in let '(s', o) := step_ev c s e in (s', outs ++ [o]))
                                       (map (fun e => Ev (fst e) (snd e)) evs) (s, acc))
                        = acc ++ map snd (trace c s evs)) as G.
  { induction evs as [|[id argv] evs IH]; intros s acc; cbn [fold_left trace map fst snd step_ev]; [rewrite app_nil_r; reflexivity|].
    destruct (step c s id argv) as [s' o] eqn:E. cbn [fst snd]. rewrite IH, <- app_assoc. reflexivity. }
  apply (G _ []).
Qed.

