(* Spike: irc_check_mask is exact — it succeeds iff the leading `bits` bits (most significant first) agree. *)
From Coq Require Import List NArith Bool Lia.
Import ListNotations.
Require Import AddrFull.
Local Open Scope N_scope.

(* bit number i (0 = most significant) of a 16-bit group *)
Definition gbit (x : N) (i : N) : bool := N.testbit x (15 - i).
(* bit number i of an address given as a list of groups *)
Fixpoint abit (gs : list N) (i : N) : bool :=
  match gs with [] => false | x :: r => if i <? 16 then gbit x i else abit r (i - 16) end.

Definition small (x : N) : Prop := x < 65536.

Lemma small_high x n : small x -> 16 <= n -> N.testbit x n = false.
Proof.
  intros Hx Hn. destruct (N.eq_dec x 0) as [->|Hz]; [apply N.bits_0|].
  apply N.bits_above_log2. apply N.log2_lt_pow2; [lia|].
  eapply N.lt_le_trans; [exact Hx|]. change 65536 with (2 ^ 16). apply N.pow_le_mono_r; lia.
Qed.

Lemma group_prefix x y b : small x -> small y -> 0 < b -> b <= 16 ->
  (N.shiftr (N.lxor x y) (16 - b) =? 0) = true <-> (forall i, i < b -> gbit x i = gbit y i).
Proof.
  intros Hx Hy Hb0 Hb. rewrite N.eqb_eq. split.
  - intros H i Hi. unfold gbit.
    assert (N.testbit (N.shiftr (N.lxor x y) (16 - b)) (15 - i - (16 - b)) = false) as T by (rewrite H; apply N.bits_0).
    rewrite N.shiftr_spec in T by lia. replace (15 - i - (16 - b) + (16 - b)) with (15 - i) in T by lia.
    rewrite N.lxor_spec in T. destruct (N.testbit x (15 - i)), (N.testbit y (15 - i)); simpl in T; congruence.
  - intros H. apply N.bits_inj_0. intros n. rewrite N.shiftr_spec by lia. rewrite N.lxor_spec.
    destruct (N.lt_ge_cases (n + (16 - b)) 16) as [Hlt|Hge].
    + specialize (H (15 - (n + (16 - b))) ltac:(lia)). unfold gbit in H.
      replace (15 - (15 - (n + (16 - b)))) with (n + (16 - b)) in H by lia. rewrite H. apply xorb_nilpotent.
    + rewrite (small_high x _ Hx Hge), (small_high y _ Hy Hge). reflexivity.
Qed.

Lemma group_eq x y : small x -> small y -> (x =? y) = true <-> (forall i, i < 16 -> gbit x i = gbit y i).
Proof.
  intros Hx Hy. rewrite N.eqb_eq. split; [intros -> i _; reflexivity|].
  intros H. apply N.bits_inj. intros n. destruct (N.lt_ge_cases n 16) as [Hlt|Hge].
  - specialize (H (15 - n) ltac:(lia)). unfold gbit in H. replace (15 - (15 - n)) with n in H by lia. exact H.
  - rewrite (small_high x n Hx Hge), (small_high y n Hy Hge). reflexivity.
Qed.

Theorem check_mask_spec : forall a m bits, length a = length m -> Forall small a -> Forall small m ->
  bits <= 16 * N.of_nat (length a) ->
  cm a m bits = true <-> (forall i, i < bits -> abit a i = abit m i).
Proof.
  induction a as [|x a IH]; intros m bits Hl Ha Hm Hb; destruct m as [|y m]; try discriminate.
  - simpl in *. split; [intros _ i Hi; lia|reflexivity].
  - simpl in Hl. injection Hl as Hl. inversion Ha as [|? ? Hx Ha']; inversion Hm as [|? ? Hy Hm']; subst.
    cbn [cm abit]. destruct (16 <? bits) eqn:E1.
    + apply N.ltb_lt in E1. rewrite andb_true_iff, (group_eq x y Hx Hy), (IH m (bits - 16) Hl Ha' Hm').
      2:{ cbn [length] in Hb. lia. }
      split.
      * intros [H1 H2] i Hi. destruct (i <? 16) eqn:Ei; [apply H1; apply N.ltb_lt; exact Ei|]. apply N.ltb_ge in Ei. apply H2. lia.
      * intros H. split.
        -- intros i Hi. specialize (H i ltac:(lia)). apply N.ltb_lt in Hi. rewrite Hi in H. exact H.
        -- intros i Hi. specialize (H (i + 16) ltac:(lia)). assert ((i + 16 <? 16) = false) as E by (apply N.ltb_ge; lia). rewrite E in H.
           replace (i + 16 - 16) with i in H by lia. exact H.
    + apply N.ltb_ge in E1. destruct (0 <? bits) eqn:E0.
      * apply N.ltb_lt in E0. rewrite (group_prefix x y bits Hx Hy E0 E1). split.
        -- intros H i Hi. assert ((i <? 16) = true) as -> by (apply N.ltb_lt; lia). apply H; exact Hi.
        -- intros H i Hi. specialize (H i Hi). assert ((i <? 16) = true) as E by (apply N.ltb_lt; lia). rewrite E in H. exact H.
      * apply N.ltb_ge in E0. split; [intros _ i Hi; lia|reflexivity].
Qed.
